import EupsModel.Lemmas.Expand
import EupsModel.Lemmas.ExpandDeps
import EupsModel.Lemmas.ExpandSetup
import EupsModel.Lemmas.ExpandTable
import EupsModel.Lemmas.ExpandCovered
import EupsModel.Lemmas.ExpandReader
import EupsModel.Lemmas.ExpandUnsetup
/-! C17 — an expanded table file reproduces the build-time versions exactly.  Property theorems only
(the model is `Model/Expand.lean`, helper lemmas are in `Lemmas/Expand.lean`).

`A : Answers` is what the environment told the expander (`pin` = the `-p prod=ver` pins, `sv` = `getSetupVersion`,
`spv` = `findSetupProduct(..).version`, `deps` = `getDependencies(.., setup=True, shouldRaise=True)`); the
correspondence check feeds the model with the answers the real `Eups` gave in the same process.

`expandItems A o lines = .ok items`: the expansion of the table `lines` under options `o` succeeded and made the
sequence `items` of `output(...)` calls; `renderItem` gives the text of each.  An item is an input line
(`.orig indent kind text`), a generated line (`.gen`: `if (type == exact) {`, `} else {`, `if (type != exact) {`, `}`),
a pin (`.pin indent optional name version`, the line `setupRequired(name -j version)`), or a line of the final block
(`.fin`).  `noExactLine A o lines`: the table has no pre-existing `if (type == exact) {` line (the expander's handling
of those, `i += 3`, is modelled and compared with the code, but the table-level theorems do not cover it). -/
namespace EupsModel.C17
open EupsModel EupsModel.Expand

/-! ## never pins a foreign version -/

/-- `C17_never_foreign`, unconditional part: whatever the environment answers, a `-j` pin written into the
exact block names either a build-time record / `-p` pin, or an entry that `getDependencies` listed for a
product of the table taken at its build-time record / pin.  Every graph, every table text, every option. -/
theorem C17_never_foreign_sourced (A : Answers) (o : Opts) (lines : List Str) (items : List Item)
    (h : expandItems A o lines = .ok items) (ind : Int) (opt : Bool) (n v : Str)
    (hx : Item.pin ind opt n v ∈ items) : Sourced A o n v :=
  pin_sourced h hx

/-- `C17_never_foreign` (every graph, conflicts included): under `DepsSound`, every `-j v` line of the exact
block names an `(n, v)` that was set up when the table was written (`getSetupVersion n = v`) or that the user
pinned with `-p n=v`. -/
theorem C17_never_foreign (A : Answers) (o : Opts) (lines : List Str) (items : List Item)
    (hs : DepsSound A) (h : expandItems A o lines = .ok items) (ind : Int) (opt : Bool) (n v : Str)
    (hx : Item.pin ind opt n v ∈ items) : Recorded A n v := by
  rcases pin_sourced h hx with h1 | ⟨_, n0, v0, l, d, _, hl, hd, rfl, rfl⟩
  · exact h1
  · exact .inl (hs n0 v0 l hl d hd)

/-- Without recursion (the call `eups distrib` makes, `recurse=False`) no hypothesis is needed: only the
table's own products are pinned, each at its record or pin. -/
theorem C17_never_foreign_toplevel (A : Answers) (o : Opts) (lines : List Str) (items : List Item)
    (hr : o.recurse = false) (h : expandItems A o lines = .ok items) (ind : Int) (opt : Bool) (n v : Str)
    (hx : Item.pin ind opt n v ∈ items) : Recorded A n v := by
  rcases pin_sourced h hx with h1 | ⟨hrc, _⟩
  · exact h1
  · simp [hr] at hrc

/-- The text of a pin item is the line `setupRequired(<name padded to 15> -j <version>)` (resp. `setupOptional`). -/
theorem pin_text (ind : Int) (opt : Bool) (n v : Str) :
    renderItem (.pin ind opt n v) = indentStr ind ++ strip (cmdName opt ++ [cLpar] ++ pad15 n ++ sJ ++ v ++ [cRpar]) := rfl

/-- The text of an input line in the output: re-indented, white space stripped. -/
theorem orig_text (ind : Int) (k : LKind) (t : Str) : renderItem (.orig ind k t) = indentStr ind ++ strip t := rfl

/-- The pins are written exactly once and exactly where the exact branch is: a setup block is emitted as
`if (type == exact) {`, the pins, `} else {`, its own lines, `}` when it is the last one, and as
`if (type != exact) {`, its own lines, `}` otherwise. -/
theorem C17_setup_block_shape (o : Opts) (c : CState) (ind : Int) (lines : List BLine) (ha : o.addExactBlock = true) :
    emitSetup o true c ind lines
      = [.gen ind sIfExact] ++ pinItems (ind + 1) c ++ [.gen ind sElse] ++ emitSetupLines (ind + 1) lines ++ [.gen ind sClose]
    ∧ emitSetup o false c ind lines = [.gen ind sIfNotExact] ++ emitSetupLines (ind + 1) lines ++ [.gen ind sClose] := by
  simp [emitSetup, ha]

/-- …and the pins of the whole output are, in order and each once, the collected closure `desiredProducts`. -/
theorem C17_pins_once (A : Answers) (o : Opts) (lines : List Str) (items : List Item)
    (h : expandItems A o lines = .ok items) (hn : noExactLine A o lines = true) (ha : o.addExactBlock = true) :
    ∃ st c, readAll A o lines = .ok st ∧ collect A o st = .ok c ∧ items.filterMap pinKey = c.pinKeys :=
  expand_pins h hn ha

/-- **The exact branch, read off the text alone.**  `exactBranchText` takes the lines between the first line reading
`if (type == exact) {` and the following line reading `} else {`.  For the text the expander writes these are exactly
the pin lines of the collected closure (and there is no such branch when the table has no setup line). -/
theorem C17_exact_branch_text (A : Answers) (o : Opts) (lines : List Str) (items : List Item)
    (h : expandItems A o lines = .ok items) (hn : noExactLine A o lines = true) (ha : o.addExactBlock = true) :
    ∃ st c ind, readAll A o lines = .ok st ∧ collect A o st = .ok c ∧
      exactBranchText (items.map renderItem) = if st.lastSetup.isSome then (pinItems ind c).map renderItem else [] :=
  expand_exact_branch_text h hn ha

/-- `C17_never_foreign` at the level of the written text: every line of the exact block of the expanded table is a line
`setupRequired(n -j v)` / `setupOptional(n -j v)` (`pin_text`) whose `(n, v)` was set up when the table was written, or
pinned with `-p` — under `DepsSound`, for every graph. -/
theorem C17_never_foreign_text (A : Answers) (o : Opts) (lines : List Str) (items : List Item)
    (hs : DepsSound A) (h : expandItems A o lines = .ok items) (hn : noExactLine A o lines = true)
    (ha : o.addExactBlock = true) :
    ∀ l ∈ exactBranchText (items.map renderItem),
      ∃ ind opt n v, l = renderItem (.pin ind opt n v) ∧ Recorded A n v := by
  obtain ⟨st, c, ind, _, hc, heq⟩ := expand_exact_branch_text h hn ha
  intro l hl
  rw [heq] at hl
  split at hl
  · simp only [List.mem_map] at hl
    obtain ⟨x, hx, rfl⟩ := hl
    obtain ⟨n, v, hm, rfl⟩ := mem_pinItems hx
    refine ⟨ind, _, n, v, rfl, ?_⟩
    rcases collect_desired hc (n, v) hm with h1 | ⟨_, n0, v0, dl, d, _, hdl, hd, hdn, hdv⟩
    · exact h1
    · simp only at hdn hdv
      subst hdn; subst hdv
      exact .inl (hs n0 v0 dl hdl d hd)
  · simp at hl

/-- **`DepsSound` discharged from the C13 model of the dependency listing** (`Model/Deps.lean`): take the answers of
`getDependencies(n, v, setup=True, shouldRaise=True)` to be what the C13 model computes (`depsOfModel`:
`findProduct(n, v)`, then `Deps.getDependentProductsSetup`, not topological; `raises` = the answers for which
`shouldRaise=True` raised, arbitrary) and `getSetupVersion` to read the same `SETUP_<P>` records `setup` as the listing;
then `DepsSound` holds, for every database, every records list and every fuel. -/
theorem C17_DepsSound_from_Deps (db : Deps.Db) (fuel : Nat) (setup : List (Str × Str)) (raises : Str → Str → Bool)
    (A : Answers) (hsv : ∀ n, A.sv n = setup.lookup n)
    (hdeps : ∀ n v, A.deps n v = depsOfModel db fuel setup raises n v) : DepsSound A :=
  depsSound_of_depsModel db fuel setup raises A hsv hdeps

/-- `C17_never_foreign` with `DepsSound` discharged: when the dependency listings are those of the C13 model, every
`-j v` line of the exact block names a set-up `(n, v)` or a `-p` pin — no hypothesis on the listings left. -/
theorem C17_never_foreign_over_Deps (db : Deps.Db) (fuel : Nat) (setup : List (Str × Str)) (raises : Str → Str → Bool)
    (A : Answers) (hsv : ∀ n, A.sv n = setup.lookup n)
    (hdeps : ∀ n v, A.deps n v = depsOfModel db fuel setup raises n v)
    (o : Opts) (lines : List Str) (items : List Item) (h : expandItems A o lines = .ok items)
    (ind : Int) (opt : Bool) (n v : Str) (hx : Item.pin ind opt n v ∈ items) : Recorded A n v :=
  C17_never_foreign A o lines items (depsSound_of_depsModel db fuel setup raises A hsv hdeps) h ind opt n v hx

/-- **A declared version is reported under its own name, whatever tags exist** (`Eups.findSetupVersion`, the source of
the answers `sv` / `spv`): when the version recorded in `SETUP_<P>` is declared, the version reported is the recorded one —
also when its name is the name of a recognised tag (`current`, `beta`, a user tag) that is assigned to another version. -/
theorem C17_setupVersion_recorded (recognised : List Str) (declared : Str → Bool) (tagged : Str → Option Str) (recorded : Str)
    (h : declared recorded = true) : setupVersion recognised declared tagged recorded = recorded := by
  unfold setupVersion
  split
  · rfl
  · simp [h]

/-- …and the reading that takes every recognised tag name for the tag is wrong on exactly this class: version `current`
declared and set up, tag `current` assigned to version `1`. -/
theorem C17_setupVersion_tag_named_witness :
    setupVersion [Str.ofString "current"] (fun _ => true) (fun _ => some (Str.ofString "1")) (Str.ofString "current")
      = Str.ofString "current" ∧
    setupVersion [Str.ofString "current"] (fun _ => false) (fun _ => some (Str.ofString "1")) (Str.ofString "current")
      = Str.ofString "1" := by decide

/-! ## keeps the original constraints for inexact mode -/

/-- `C17_keeps_constraints`, line level (`subSetup`).  `p` is what the expander read on a setup line (product,
flags, explicit version, `[expr]` or relational expression); when the line is rewritten at all (`some r`), the
rewritten command has the same product, the same flags in the same order and the same optionality;
the original expression is kept verbatim; the original explicit version is kept (unless the user pinned the
product with `-p`); only a line without an explicit version receives the set-up version, and only a line without any
constraint receives `>= version`. -/
theorem C17_keeps_constraints_line (A : Answers) (o : Opts) (optional : Bool) (p : Parsed) (r : Rewrite)
    (h : decideRewrite A o optional p = some r) :
    r.optional = optional ∧ r.name = p.name ∧ r.flags = p.flags ∧
    (o.expandVersions = true → truthy p.logical = true → r.logical = p.logical) ∧
    (A.pin p.name = none → truthy p.version = true → r.version = p.version) ∧
    (A.pin p.name = none → truthy p.version = false → r.version = A.spv p.name) ∧
    (∀ v, A.pin p.name = some v → truthy (some v) = true → r.version = some v) ∧
    (o.expandVersions = true → truthy p.logical = false → A.pin p.name = none → truthy p.version = false →
      ∀ v, A.spv p.name = some v → startsWith v sLocal = false → r.logical = some (sGe ++ v)) := by
  unfold decideRewrite at h
  cases hpin : A.pin p.name with
  | some pv =>
    by_cases htv : truthy (some pv) = true
    · simp only [hpin, htv, if_true, Bool.not_true, Bool.false_eq_true, if_false, Option.some.injEq] at h
      subst h
      refine ⟨rfl, rfl, rfl, ?_, by simp, by simp, ?_, by simp⟩
      · intro he hl; simp [he, hl]
      · intro v hv _; simp at hv; subst hv; rfl
    · simp only [hpin, htv, Bool.false_eq_true, if_false] at h
      cases hspv : A.spv p.name with
      | none => simp [hspv, htv] at h
      | some sv =>
        simp only [hspv] at h
        by_cases hts : truthy (some sv) = true
        · simp only [hts, Bool.not_true, Bool.false_eq_true, if_false, Option.some.injEq] at h
          subst h
          refine ⟨rfl, rfl, rfl, ?_, by simp, by simp, ?_, by simp⟩
          · intro he hl; simp [he, hl]
          · intro v hv htv'; simp at hv; subst hv; exact absurd htv' htv
        · simp [hts] at h
  | none =>
    simp only [hpin] at h
    by_cases htv : truthy p.version = true
    · simp only [htv, if_true, Bool.not_true, Bool.false_eq_true, if_false, Option.some.injEq] at h
      subst h
      refine ⟨rfl, rfl, rfl, ?_, by simp, by simp [htv], by simp, by simp [htv]⟩
      intro he hl; simp [he, hl]
    · simp only [htv, Bool.false_eq_true, if_false] at h
      cases hspv : A.spv p.name with
      | none => simp [hspv, htv] at h
      | some sv =>
        simp only [hspv] at h
        by_cases hts : truthy (some sv) = true
        · simp only [hts, Bool.not_true, Bool.false_eq_true, if_false, Option.some.injEq] at h
          subst h
          refine ⟨rfl, rfl, rfl, ?_, by simp [htv], by simp, by simp, ?_⟩
          · intro he hl; simp [he, hl]
          · intro he hl _ _ v hv hloc
            simp at hv; subst hv
            have hge : sGe = [62, 61, 32] := by decide
            have ht : truthy (some (sGe ++ sv)) = true := by rw [hge]; rfl
            simp [he, hl, hloc, ht]
        · simp [hts] at h

/-- **`parseArgs` against an independent reader of a setup line** (`Lemmas/ExpandReader.lean`).  A setup line as documented
is, between its parentheses, a sequence of tokens with any white space before, between and after them (`layout`: each token
with the gap that follows it): flags anywhere (`Tok.flag1`: `-j`, `-k`, …, `--external`; `Tok.flag2`: `-t tag`, `-T type`,
`-r dir`, … with their argument) and, as words in order, the product name and one of the five documented ways of naming a
version (`Form`): nothing / `v` / `v [e1 … ek]` / `[e1 … ek]` / a relational expression without brackets `>= 1 …`.  The
reader `Form.parsed` says what the line means; `parseArgs` — `str.split`, the flag loop with its two bracket patterns, the
search for `[` … `]`, `isLegalRelativeVersion` — computes exactly that from the text. -/
theorem C17_parseArgs_reads (lead : Str) (layout : List (Str × Str)) (toks : List Tok) (name : Str) (fm : Form)
    (hlead : ∀ c ∈ lead, Str.isSpace c = true) (htok : ∀ p ∈ layout, tokStr p.1 = true) (hgaps : gapsOK layout = true)
    (hlay : layout.map (·.1) = toks.flatMap Tok.strs) (hok : ∀ t ∈ toks, t.ok = true)
    (hwords : toks.filterMap Tok.wordText = fm.words name) (hn : plainWord name = true) (hf : fm.ok = true)
    (heups : (toks.flatMap Tok.strs).head? ≠ some sEups) :
    parseArgs (lead ++ renderGaps layout) = .ok (.parsed (fm.parsed name (toks.filterMap Tok.flagText))) :=
  parseArgs_reads _ toks name fm (by rw [splitWs_render lead hlead layout htok hgaps, hlay]) hok hwords hn hf heups

theorem truthy_none : truthy none = false := rfl

theorem join_truthy {es : List Str} (hne : es ≠ []) (hp : ∀ e ∈ es, e ≠ []) : truthy (some (join [cSp] es)) = true := by
  cases es with
  | nil => exact absurd rfl hne
  | cons e rest =>
    have he := hp e (by simp)
    cases e with
    | nil => exact absurd rfl he
    | cons c cs =>
      cases rest with
      | nil => rfl
      | cons e2 r => rfl

/-- **keeps the original constraints, for every documented form of a setup line** (`C17_parseArgs_reads` composed with
`decideRewrite`): for a product that is set up at version `v` (not a `LOCAL:` version) and not pinned with `-p`, with the
default options, `subSetup` rewrites the line to: the same command, product and flags, then
`v [>= v]` for a bare line; the explicit version as it was for `name v0` (nothing added) and `name v0 [expr]` (expression
kept verbatim); `v [expr]` for `name [expr]`; `v [>= 1 …]` for `name >= 1 …`. -/
theorem C17_keeps_constraints_written (A : Answers) (o : Opts) (optional : Bool) (original : Str)
    (lead : Str) (layout : List (Str × Str)) (toks : List Tok) (name : Str) (fm : Form)
    (hlead : ∀ c ∈ lead, Str.isSpace c = true) (htok : ∀ p ∈ layout, tokStr p.1 = true) (hgaps : gapsOK layout = true)
    (hlay : layout.map (·.1) = toks.flatMap Tok.strs) (hok : ∀ t ∈ toks, t.ok = true)
    (hwords : toks.filterMap Tok.wordText = fm.words name) (hn : plainWord name = true) (hf : fm.ok = true)
    (heups : (toks.flatMap Tok.strs).head? ≠ some sEups)
    (hpin : A.pin name = none) (hexp : o.expandVersions = true)
    (v : Str) (hspv : A.spv name = some v) (hv : v ≠ []) (hloc : startsWith v sLocal = false) :
    subSetup A o optional (lead ++ renderGaps layout) original = .ok (renderRewrite (
      let flags := toks.filterMap Tok.flagText
      match fm with
      | .bare => ⟨optional, name, flags, some v, some (sGe ++ v)⟩
      | .ver v0 => ⟨optional, name, flags, some v0, none⟩
      | .verExpr v0 es => ⟨optional, name, flags, some v0, some (join [cSp] es)⟩
      | .expr es => ⟨optional, name, flags, some v, some (join [cSp] es)⟩
      | .rel r ws => ⟨optional, name, flags, some v, some (join [cSp] (r :: ws))⟩)) := by
  have hparse := C17_parseArgs_reads lead layout toks name fm hlead htok hgaps hlay hok hwords hn hf heups
  have htv : truthy (some v) = true := by
    cases v with
    | nil => exact absurd rfl hv
    | cons c cs => rfl
  have hge : truthy (some (sGe ++ v)) = true := by
    have : sGe = [62, 61, 32] := by decide
    rw [this]; rfl
  have plain_ne : ∀ {w : Str}, plainWord w = true → w ≠ [] := fun h => by
    obtain ⟨c, tl, rfl, _, _⟩ := plainWord_facts h; simp
  unfold subSetup
  simp only [hparse, bind, Except.bind]
  cases fm with
  | bare =>
    simp [Form.parsed, decideRewrite, hpin, hspv, htv, hexp, hloc, hge, truthy_none, pure, Except.pure]
  | ver v0 =>
    simp only [Form.ok, versionWord, Bool.and_eq_true] at hf
    have hne := plain_ne hf.1.1
    have ht0 : truthy (some v0) = true := by
      cases v0 with
      | nil => exact absurd rfl hne
      | cons c cs => rfl
    simp [Form.parsed, decideRewrite, hpin, ht0, hexp, truthy_none, pure, Except.pure]
  | verExpr v0 es =>
    simp only [Form.ok, versionWord, Bool.and_eq_true, Bool.not_eq_true', List.isEmpty_eq_false_iff, List.all_eq_true] at hf
    have hne := plain_ne hf.1.1.1.1
    have ht0 : truthy (some v0) = true := by
      cases v0 with
      | nil => exact absurd rfl hne
      | cons c cs => rfl
    have hj := join_truthy hf.1.2 (fun e he => plain_ne (hf.2 e he))
    simp [Form.parsed, decideRewrite, hpin, ht0, hexp, hj, pure, Except.pure]
  | expr es =>
    simp only [Form.ok, Bool.and_eq_true, Bool.not_eq_true', List.isEmpty_eq_false_iff, List.all_eq_true] at hf
    have hj := join_truthy hf.1 (fun e he => plain_ne (hf.2 e he))
    simp [Form.parsed, decideRewrite, hpin, hspv, htv, hexp, hj, truthy_none, pure, Except.pure]
  | rel r ws =>
    simp only [Form.ok, Bool.and_eq_true, List.all_eq_true] at hf
    have hj : truthy (some (join [cSp] (r :: ws))) = true :=
      join_truthy (by simp) (fun e he => by
        simp only [List.mem_cons] at he
        rcases he with rfl | he
        · exact plain_ne hf.1.1
        · exact plain_ne (hf.2 e he))
    simp [Form.parsed, decideRewrite, hpin, hspv, htv, hexp, hj, truthy_none, pure, Except.pure]

/-- A setup command is either left exactly as it was (the `eups` pseudo-product, no product word, or nothing set up
for it) or rewritten as described by `C17_keeps_constraints_line`. -/
theorem C17_subSetup_cases (A : Answers) (o : Opts) (optional : Bool) (argStr original t : Str)
    (h : subSetup A o optional argStr original = .ok t) :
    t = original ∨ ∃ p r, parseArgs argStr = .ok (.parsed p) ∧ decideRewrite A o optional p = some r ∧ t = renderRewrite r := by
  unfold subSetup at h
  cases hp : parseArgs argStr with
  | error e => simp [hp, bind, Except.bind] at h
  | ok pr =>
    cases pr with
    | passthrough => simp [hp, bind, Except.bind, pure, Except.pure] at h; exact .inl h.symm
    | parsed p =>
      cases hd : decideRewrite A o optional p with
      | none => simp [hp, hd, bind, Except.bind, pure, Except.pure] at h; exact .inl h.symm
      | some r => simp [hp, hd, bind, Except.bind, pure, Except.pure] at h; exact .inr ⟨p, r, rfl, hd, h.symm⟩

/-- `C17_keeps_constraints`, table level: every setup line of the table (as rewritten by `subSetup`) is in the output,
once and in the original order, as an input line inside an inexact branch (`C17_setup_block_shape`) — except the lines
labelled `--external` and the `eups` lines, which are moved to the final block (`C17_final_block`). -/
theorem C17_keeps_constraints (A : Answers) (o : Opts) (lines : List Str) (items : List Item)
    (h : expandItems A o lines = .ok items) (hn : noExactLine A o lines = true) :
    ∃ cs, lines.mapM (classify A o) = .ok cs ∧
      items.filterMap (origOf .setup)
        = ((cs.filterMap Classified.setupText).filter fun t => !contains sExternal (strip t)).map strip :=
  expand_setup_lines h hn

/-- The final block: the `eups` setup lines, then the `--external` setup lines of products other than the top-level
one, each as it was rewritten; nothing else. -/
theorem C17_final_block (A : Answers) (o : Opts) (lines : List Str) (items : List Item)
    (h : expandItems A o lines = .ok items) :
    ∃ cs, lines.mapM (classify A o) = .ok cs ∧
      items.filterMap finText = cs.filterMap Classified.finalLine ++
        ((cs.filterMap Classified.prod).filter fun p => !(o.toplevel == some p.name) && p.external).map (·.line) :=
  expand_final h

/-! ## passes the other lines through -/

/-- `C17_passthrough`: the input lines of kind `other` in the output are, in order and each once, exactly the lines
the reader classified as not being setup commands (comment-stripped; `orig_text`: re-indented and stripped when printed). -/
theorem C17_passthrough (A : Answers) (o : Opts) (lines : List Str) (items : List Item)
    (h : expandItems A o lines = .ok items) (hn : noExactLine A o lines = true) :
    ∃ cs, lines.mapM (classify A o) = .ok cs ∧
      items.filterMap (origOf .other) = cs.filterMap Classified.otherText :=
  expand_other_lines h hn

/-- a line of the input that is neither blank / comment nor contains a setup command -/
def isOtherInput (raw : Str) : Bool := !isBlankOrComment raw && (searchRex (stripComment raw)).isNone

/-- `C17_passthrough`, in terms of the input text alone: the lines of the table that contain no setup command (and
are not blank or comments) appear in the output in their original order, each with its trailing comment dropped,
whatever the environment answers. -/
theorem C17_passthrough_text (A : Answers) (o : Opts) (lines : List Str) (items : List Item)
    (h : expandItems A o lines = .ok items) (hn : noExactLine A o lines = true) :
    ((lines.filter isOtherInput).map stripComment).Sublist (items.filterMap (origOf .other)) := by
  obtain ⟨cs, hcs, heq⟩ := expand_other_lines h hn
  rw [heq]
  clear heq h hn
  induction lines generalizing cs with
  | nil => simp
  | cons raw rest ih =>
    simp only [List.mapM_cons, bind, Except.bind] at hcs
    cases hc : classify A o raw with
    | error e => simp [hc] at hcs
    | ok c =>
      simp only [hc] at hcs
      cases hr : rest.mapM (classify A o) with
      | error e => simp [hr] at hcs
      | ok cs' =>
        simp [hr, pure, Except.pure] at hcs
        subst hcs
        have ih' := ih cs' hr
        by_cases ho : isOtherInput raw = true
        · have hb : isBlankOrComment raw = false := by
            unfold isOtherInput at ho; simp at ho; exact ho.1
          have hm : searchRex (stripComment raw) = none := by
            unfold isOtherInput at ho; simp at ho; exact ho.2
          rw [classify_other_of_noMatch A o raw hb hm] at hc
          cases hc
          simp only [List.filter_cons, ho, if_true, List.map_cons, List.filterMap_cons, Classified.otherText]
          exact List.Sublist.cons_cons _ ih'
        · simp only [List.filter_cons, ho, Bool.false_eq_true, if_false, List.filterMap_cons]
          cases c.otherText with
          | none => exact ih'
          | some t => exact List.Sublist.cons _ ih'

/-! ## exact mode reproduces the build-time versions -/

/-- `C17_exact_reproduces_partial`, instance form.  `ExactSetup lines db` is the effect on the records of setting a
product up in exact mode from the table `lines` in database `db` (`none` = the setup fails).  The two facts needed from it:
(`hA`) it applies exactly the lines of the `type == exact` branch — on this expanded table it acts like the table made of
the pin lines alone; (`hB`) a `setupRequired(n -j v)` line sets up exactly `(n, v)` when it is declared — on the pin lines it
acts like `runPins`.  Then, for a build whose set-up versions are the closure of the table (`Covered`, `DepsSound`; pins
given with `-p` agree with what is set up) and any later database in which the recorded versions are still declared,
exact setup from the expanded table succeeds and records exactly the build-time version of every product. -/
theorem C17_exact_reproduces_partial_inst {Db : Type} (declared : Db → Str → Str → Bool)
    (ExactSetup : List Str → Db → Option Recs)
    (A : Answers) (o : Opts) (lines : List Str) (items : List Item)
    (h : expandItems A o lines = .ok items) (hn : noExactLine A o lines = true) (ha : o.addExactBlock = true)
    (hsound : DepsSound A) (hpins : ∀ n v, A.pin n = some v → A.sv n = some v)
    (hcov : ∀ st, readAll A o lines = .ok st → Covered A o st)
    (db' : Db) (hdecl : ∀ n v, A.sv n = some v → declared db' n v = true)
    (hA : ExactSetup (items.map renderItem) db' = ExactSetup ((items.filter Item.isPin).map renderItem) db')
    (hB : ExactSetup ((items.filter Item.isPin).map renderItem) db' = runPins declared db' (items.filterMap pinKey) (fun _ => none)) :
    ∃ recs, ExactSetup (items.map renderItem) db' = some recs ∧ ∀ n, o.toplevel ≠ some n → recs n = A.sv n := by
  obtain ⟨st, c, hr, hc, hpk⟩ := expand_pins h hn ha
  rw [hA, hB, hpk]
  have hsv : ∀ q ∈ c.desired, A.sv q.1 = some q.2 := by
    intro q hq
    rcases collect_desired hc q hq with h1 | ⟨_, n0, v0, l, d, _, hl, hd, hdn, hdv⟩
    · rcases h1 with h1 | h1
      · exact h1
      · exact hpins _ _ h1
    · rw [← hdn, ← hdv]; exact hsound n0 v0 l hl d hd
  have hall : ∀ x ∈ c.pinKeys, declared db' x.2.1 x.2.2 = true ∧ A.sv x.2.1 = some x.2.2 := by
    intro x hx
    simp only [CState.pinKeys, List.mem_map] at hx
    obtain ⟨⟨n, v⟩, hq, rfl⟩ := hx
    have := hsv (n, v) hq
    exact ⟨hdecl n v this, this⟩
  obtain ⟨r, hrun, hspec⟩ := runPins_spec declared db' A.sv c.pinKeys (fun _ => none) hall
  refine ⟨r, hrun, fun n hne => ?_⟩
  by_cases hin : ∃ x ∈ c.pinKeys, x.2.1 = n
  · exact (hspec n).1 hin
  · rw [(hspec n).2 hin]
    cases hs : A.sv n with
    | none => rfl
    | some v =>
      exfalso
      obtain ⟨p, hp, d, hd, hdn⟩ := hcov st hr n v hs hne
      have hm := collect_complete hc p hp d hd
      apply hin
      refine ⟨(c.optional.contains (d.name, d.version) || c.notFound.contains d.name, d.name, d.version), ?_, hdn⟩
      simp only [CState.pinKeys, List.mem_map]
      exact ⟨(d.name, d.version), hm, rfl⟩

/-- **What the Setup (C01) and TableParse (C11) models have to discharge about exact-mode setup**, for every expansion
the expander can produce: `Inert t` says that the table parser does not read the line `t` as a setup command (the
expander's notion — `setupRequired(` / `setupOptional(` spelled exactly so — is narrower than the parser's, which ignores
case and allows blanks before the parenthesis; such lines are passed through outside every block). -/
structure ExactSetupHyps {Db : Type} (declared : Db → Str → Str → Bool) (Inert : Str → Prop)
    (ExactSetup : List Str → Db → Option Recs) : Prop where
  /-- exact-mode setup applies exactly the lines of the `type == exact` branch -/
  applies_exact_branch : ∀ (A : Answers) (o : Opts) (lines : List Str) (items : List Item),
    expandItems A o lines = .ok items → noExactLine A o lines = true → o.addExactBlock = true →
    (∀ cs, lines.mapM (classify A o) = .ok cs → ∀ t ∈ cs.filterMap Classified.otherText, Inert t) →
    ∀ db, ExactSetup (items.map renderItem) db = ExactSetup ((items.filter Item.isPin).map renderItem) db
  /-- a `setupRequired(n -j v)` line sets up exactly `(n, v)` when it is declared (`runPins`) -/
  pin_sets_exactly : ∀ (pins : List (Int × Bool × Str × Str)) (db : Db),
    ExactSetup (pins.map fun x => renderItem (.pin x.1 x.2.1 x.2.2.1 x.2.2.2)) db
      = runPins declared db (pins.map (·.2)) (fun _ => none)

/-- `C17_exact_reproduces_partial`: the clause at full strength over an abstract exact-mode setup function, under the
named hypotheses `ExactSetupHyps` (Setup + TableParse), `DepsSound` and `Covered` (Deps + Setup). -/
theorem C17_exact_reproduces_partial {Db : Type} (declared : Db → Str → Str → Bool) (Inert : Str → Prop)
    (ExactSetup : List Str → Db → Option Recs) (H : ExactSetupHyps declared Inert ExactSetup)
    (A : Answers) (o : Opts) (lines : List Str) (items : List Item)
    (h : expandItems A o lines = .ok items) (hn : noExactLine A o lines = true) (ha : o.addExactBlock = true)
    (hinert : ∀ cs, lines.mapM (classify A o) = .ok cs → ∀ t ∈ cs.filterMap Classified.otherText, Inert t)
    (hsound : DepsSound A) (hpins : ∀ n v, A.pin n = some v → A.sv n = some v)
    (hcov : ∀ st, readAll A o lines = .ok st → Covered A o st)
    (db' : Db) (hdecl : ∀ n v, A.sv n = some v → declared db' n v = true) :
    ∃ recs, ExactSetup (items.map renderItem) db' = some recs ∧ ∀ n, o.toplevel ≠ some n → recs n = A.sv n := by
  obtain ⟨pl, hf, hm⟩ := filter_isPin_eq items
  refine C17_exact_reproduces_partial_inst declared ExactSetup A o lines items h hn ha hsound hpins hcov db' hdecl
    (H.applies_exact_branch A o lines items h hn ha hinert db') ?_
  rw [hf, ← hm, List.map_map]
  exact H.pin_sets_exactly pl db'


/-- **`Covered` cannot be weakened** (it is exactly what exact reproduction needs of the build environment).  If running the
pins of the expanded table (`runPins`, from an environment without records) reproduces the build-time record of every product
other than the top-level one, then every set-up product other than the top-level one is contributed to `desiredProducts` by
a product of the table — `Covered`.  No hypothesis on the environment's answers.  (The class on which `Covered` fails on the
real code is the open finding D72: `C17_d72_covered_fails_witness`.) -/
theorem C17_covered_necessary {Db : Type} (declared : Db → Str → Str → Bool)
    (A : Answers) (o : Opts) (lines : List Str) (items : List Item)
    (h : expandItems A o lines = .ok items) (hn : noExactLine A o lines = true) (ha : o.addExactBlock = true)
    (db' : Db) (recs : Recs) (hrun : runPins declared db' (items.filterMap pinKey) (fun _ => none) = some recs)
    (hrep : ∀ n, o.toplevel ≠ some n → recs n = A.sv n) :
    ∀ st, readAll A o lines = .ok st → Covered A o st := by
  intro st hr n v hs hne
  obtain ⟨st', c, hr', hc, hpk⟩ := expand_pins h hn ha
  rw [hr] at hr'
  cases hr'
  rw [hpk] at hrun
  by_cases hin : ∃ x ∈ c.pinKeys, x.2.1 = n
  · obtain ⟨x, hx, hxn⟩ := hin
    simp only [CState.pinKeys, List.mem_map] at hx
    obtain ⟨⟨n', v'⟩, hq, rfl⟩ := hx
    simp only at hxn
    subst hxn
    obtain ⟨p, hp, d, hd, hdq⟩ := collect_contrib hc (n', v') hq
    exact ⟨p, hp, d, hd, by simpa using congrArg Prod.fst hdq⟩
  · have := runPins_frame declared db' c.pinKeys (fun _ => none) recs hrun n hin
    rw [hrep n hne, hs] at this
    cases this

/-- **Exact reproduction ⟺ `Covered`.**  For a successful expansion (no pre-existing exact block, `addExactBlock`) in an
environment whose listings are sound (`DepsSound`), whose `-p` pins agree with the records, and a later database in which the
recorded versions are still declared: running the pins of the expanded table reproduces the build-time record of every
product other than the top-level one *if and only if* the build environment is `Covered`. -/
theorem C17_exact_reproduces_iff_covered {Db : Type} (declared : Db → Str → Str → Bool)
    (A : Answers) (o : Opts) (lines : List Str) (items : List Item)
    (h : expandItems A o lines = .ok items) (hn : noExactLine A o lines = true) (ha : o.addExactBlock = true)
    (hsound : DepsSound A) (hpins : ∀ n v, A.pin n = some v → A.sv n = some v)
    (db' : Db) (hdecl : ∀ n v, A.sv n = some v → declared db' n v = true) :
    (∃ recs, runPins declared db' (items.filterMap pinKey) (fun _ => none) = some recs ∧
      ∀ n, o.toplevel ≠ some n → recs n = A.sv n)
    ↔ (∀ st, readAll A o lines = .ok st → Covered A o st) := by
  constructor
  · rintro ⟨recs, hrun, hrep⟩
    exact C17_covered_necessary declared A o lines items h hn ha db' recs hrun hrep
  · intro hcov
    exact C17_exact_reproduces_partial_inst declared (fun _ db => runPins declared db (items.filterMap pinKey) (fun _ => none))
      A o lines items h hn ha hsound hpins hcov db' hdecl rfl rfl

/-! ## exact reproduction over the model of `Eups.setup` (C01) -/

/-- **The Setup half of `ExactSetupHyps.pin_sets_exactly`, discharged from `Model/Setup.lean`.**  The action loop of
`Eups.setup` (`Setup.acts` with `Setup.setup`, exact VRO, no `--keep`, no `--max-depth`), run at the top level on the
actions `pinAct` of pin lines `setupX(n -j v)` for distinct products none of which is set up yet, behaves as `runPins`
says: it succeeds with exactly the records `runPins` computes, or raises when `runPins` fails (a required pin that is no
longer declared).  Every database, every fuel ≥ 1. -/
theorem C17_pins_run_by_Setup (cfg : Setup.Cfg) (hk : cfg.keep = false) (hm : cfg.maxDepth = none) (fuel : Nat) (top : Setup.Decl)
    (pins : List (Bool × Str × Str)) (s : Setup.St)
    (hnodup : (pins.map (·.2.1)).Nodup)
    (hfresh : ∀ p ∈ pins, Setup.aget s.already p.2.1 = none ∧ s.env.rec? p.2.1 = none) :
    (∀ r, runPins declaredS cfg pins (recNames s.env) = some r →
      ∃ s', Setup.acts (Setup.setup cfg (fuel + 1)) cfg true 0 false exactVro top (pins.map pinAct) s = .ok s' ∧
        ∀ m, recNames s'.env m = r m) ∧
    (runPins declaredS cfg pins (recNames s.env) = none →
      ∃ s', Setup.acts (Setup.setup cfg (fuel + 1)) cfg true 0 false exactVro top (pins.map pinAct) s = .raised s') :=
  acts_pins cfg hk hm fuel top pins s hnodup hfresh

/-- `C17_exact_reproduces_over_Setup`: exact reproduction with the exact-mode setup of the C01 model, at the level of
actions.  For a successful expansion (no pre-existing exact block, `addExactBlock`) whose build environment is the closure
of the table (`DepsSound`, `Covered`, `-p` pins agree with the records), any later Setup database `cfg.db` in which the
recorded versions are still declared, and any state `s` in which nothing but the top-level product is set up: running
`Eups.setup`'s action loop in exact mode on the actions of the pin lines of the expanded table succeeds and leaves, for
every product other than the top-level one, exactly its build-time record.  What is still assumed to connect this to the
*text* of the expanded table is TableParse's part: that in exact mode the table's action list is `pinAct` of the pin lines
(plus actions that do not touch records). -/
theorem C17_exact_reproduces_over_Setup (cfg : Setup.Cfg) (hk : cfg.keep = false) (hm : cfg.maxDepth = none) (fuel : Nat)
    (top : Setup.Decl) (s : Setup.St)
    (A : Answers) (o : Opts) (lines : List Str) (items : List Item)
    (h : expandItems A o lines = .ok items) (hn : noExactLine A o lines = true) (ha : o.addExactBlock = true)
    (hsound : DepsSound A) (hpins : ∀ n v, A.pin n = some v → A.sv n = some v)
    (hcov : ∀ st, readAll A o lines = .ok st → Covered A o st)
    (hdecl : ∀ n v, A.sv n = some v → declaredS cfg n v = true)
    (hclean : ∀ n, o.toplevel ≠ some n → Setup.aget s.already n = none ∧ s.env.rec? n = none)
    (htop : ∀ v, ∀ n, o.toplevel = some n → (n, v) ∉ (items.filterMap pinKey).map (·.2)) :
    ∃ s', Setup.acts (Setup.setup cfg (fuel + 1)) cfg true 0 false exactVro top ((items.filterMap pinKey).map pinAct) s = .ok s' ∧
      ∀ n, o.toplevel ≠ some n → recNames s'.env n = A.sv n := by
  obtain ⟨st, c, hr, hc, hpk⟩ := expand_pins h hn ha
  have hsv : ∀ q ∈ c.desired, A.sv q.1 = some q.2 := by
    intro q hq
    rcases collect_desired hc q hq with h1 | ⟨_, n0, v0, l, d, _, hl, hd, hdn, hdv⟩
    · rcases h1 with h1 | h1
      · exact h1
      · exact hpins _ _ h1
    · rw [← hdn, ← hdv]; exact hsound n0 v0 l hl d hd
  have hall : ∀ x ∈ c.pinKeys, declaredS cfg x.2.1 x.2.2 = true ∧ A.sv x.2.1 = some x.2.2 := by
    intro x hx
    simp only [CState.pinKeys, List.mem_map] at hx
    obtain ⟨⟨n, v⟩, hq, rfl⟩ := hx
    have := hsv (n, v) hq
    exact ⟨hdecl n v this, this⟩
  have hnames : ∀ x ∈ c.pinKeys, o.toplevel ≠ some x.2.1 := by
    intro x hx htl
    refine htop x.2.2 x.2.1 htl ?_
    rw [hpk]
    exact List.mem_map_of_mem (f := fun y : Bool × Str × Str => y.2) hx
  rw [hpk]
  obtain ⟨r, hrun, hspec⟩ := runPins_spec declaredS cfg A.sv c.pinKeys (recNames s.env) hall
  obtain ⟨hok, _⟩ := acts_pins cfg hk hm fuel top c.pinKeys s
    (pinKeys_names_nodup (collect_nodup hc) hsv) (fun p hp => hclean p.2.1 (hnames p hp))
  obtain ⟨s', hs', hrecs⟩ := hok r hrun
  refine ⟨s', hs', fun n hne => ?_⟩
  rw [hrecs]
  by_cases hin : ∃ x ∈ c.pinKeys, x.2.1 = n
  · exact (hspec n).1 hin
  · rw [(hspec n).2 hin]; simp only [recNames, (hclean n hne).2, Option.map_none]
    cases hs : A.sv n with
    | none => rfl
    | some v =>
      exfalso
      obtain ⟨p, hp, d, hd, hdn⟩ := hcov st hr n v hs hne
      have hm' := collect_complete hc p hp d hd
      apply hin
      refine ⟨(c.optional.contains (d.name, d.version) || c.notFound.contains d.name, d.name, d.version), ?_, hdn⟩
      simp only [CState.pinKeys, List.mem_map]
      exact ⟨(d.name, d.version), hm', rfl⟩

/-! ## the expanded table read by the table parser (C11 model) and set up by `Eups.setup` (C01 model)

`ExpandTable.expandedText items nl` is the text of the expanded table (the lines `output` prints, joined by newlines, with
or without the final newline).  `ExpandTable.itemOK pdir` is what is asked of an item of the expansion (decidable, evaluated
by the driver on every real expansion): a pin names a product and a version that can be written as bare arguments (not empty;
no white space, comma, quote, backslash, `#`, `$`; not starting with `-`); a line of the input, as written back, is one line
that `Table._rewrite` drops or passes on unchanged and that `Table._read` takes for a command or skips (not a line of the
block structure, not a legacy `Flavor=`/`Group:` line, not a command with a wrong number of arguments); a blank / comment line
stands for nothing.  `ExpandTable.inertItem pdir` is `Inert` made concrete: a line passed through outside the setup blocks is
not a setup / unsetup command for the parser. -/

/-- **`C17_exact_actions_text`: the TableParse step, discharged from the C11 model.**  For every successful expansion (no
pre-existing exact block, `addExactBlock`) whose items are `itemOK`: the real reader's model — `Table._rewrite`, the block
state machine and command parser of `Table._read`, the condition evaluator, `Table.actions(flavor, types)` — applied to the
*text* of the expanded table, with `exact` among the setup types, returns exactly: for every pin line its action
`setupRequired(n -j v)` (optional as written), for every line passed through outside the setup blocks what the reader makes
of that line, and nothing for the table's own setup lines (they are inside `} else {` / `if (type != exact) {`).  Every flavor
(other than the evaluator's four special tokens), every list of setup types that holds `exact`, every product. -/
theorem C17_exact_actions_text (pdir : Option Str) (env : Cond.Env) (hfl : C11Spec.flavorOK env.flavor = true)
    (hex : env.types.contains ExpandTable.sExactW = true)
    (A : Answers) (o : Opts) (lines : List Str) (items : List Item)
    (h : expandItems A o lines = .ok items) (hn : noExactLine A o lines = true) (ha : o.addExactBlock = true)
    (hok : ∀ it ∈ items, ExpandTable.itemOK pdir it = true) (nl : Bool) :
    TableParse.tableActions TableParse.repaired pdir env (ExpandTable.expandedText items nl)
      = .ok (items.flatMap (ExpandTable.exactActs pdir)) :=
  ExpandTable.expand_exact_actions pdir env hfl hex h hn ha hok nl

/-- **`C17_inexact_actions_text`: keeps the original constraints for inexact mode, through the table reader.**  For every
successful expansion (`addExactBlock`; items `itemOK`; pre-existing exact blocks or not) and every list of setup types that
does *not* hold `exact`, the reader's model applied to the text of the expanded table returns exactly what it makes of the
lines of the input, in their order — the setup lines as `subSetup` rewrote them (`C17_keeps_constraints_written`), the lines
passed through, the final block — and none of the pins: in inexact mode the expanded table is the original table with
versions and constraints added. -/
theorem C17_inexact_actions_text (pdir : Option Str) (env : Cond.Env) (hfl : C11Spec.flavorOK env.flavor = true)
    (hne : env.types.contains ExpandTable.sExactW = false)
    (A : Answers) (o : Opts) (lines : List Str) (items : List Item)
    (h : expandItems A o lines = .ok items) (ha : o.addExactBlock = true)
    (hok : ∀ it ∈ items, ExpandTable.itemOK pdir it = true) (nl : Bool) :
    TableParse.tableActions TableParse.repaired pdir env (ExpandTable.expandedText items nl)
      = .ok (items.flatMap (ExpandTable.inexactActs pdir)) :=
  ExpandTable.expand_inexact_actions pdir env hfl hne h ha hok nl

/-- **`applies_exact_branch` and the text half of `pin_sets_exactly`, discharged.**  Under `inertItem` (the lines passed
through are not setup / unsetup commands for the parser) the actions of the expanded table in exact mode that set a product
up or take one away are, in order and each once, the pin actions of the collected closure `desiredProducts` — nothing of the
inexact branches, nothing else. -/
theorem C17_exact_setup_actions (pdir : Option Str) (env : Cond.Env) (hfl : C11Spec.flavorOK env.flavor = true)
    (hex : env.types.contains ExpandTable.sExactW = true)
    (A : Answers) (o : Opts) (lines : List Str) (items : List Item)
    (h : expandItems A o lines = .ok items) (hn : noExactLine A o lines = true) (ha : o.addExactBlock = true)
    (hok : ∀ it ∈ items, ExpandTable.itemOK pdir it = true) (hinert : ∀ it ∈ items, ExpandTable.inertItem pdir it = true)
    (nl : Bool) :
    ∃ acts st c, TableParse.tableActions TableParse.repaired pdir env (ExpandTable.expandedText items nl) = .ok acts ∧
      readAll A o lines = .ok st ∧ collect A o st = .ok c ∧
      acts.filter ExpandTable.isSetupAct = c.pinKeys.map (fun p => ExpandTable.pinAction p.1 p.2.1 p.2.2) ∧
      acts.filterMap ExpandTable.toPin = c.pinKeys := by
  obtain ⟨st, c, hr, hc, hpk⟩ := expand_pins h hn ha
  refine ⟨_, st, c, ExpandTable.expand_exact_actions pdir env hfl hex h hn ha hok nl, hr, hc, ?_, ?_⟩
  · rw [ExpandTable.setupActs_flatMap items hinert, hpk]
  · rw [ExpandTable.toPin_flatMap items hinert, hpk]

/-- **`C17_exact_reproduces_text`: exact reproduction from the text of the expanded table**, through the C11 model of the
table reader and the C01 model of `Eups.setup` — no abstract exact-mode setup function, no `ExactSetupHyps`.  For a successful
expansion (no pre-existing exact block, `addExactBlock`; items `itemOK`, lines passed through `inertItem`) whose build
environment is the closure of the table (`DepsSound`, `Covered`, `-p` pins agree with the records), any later Setup database
in which the recorded versions are still declared, and any state in which nothing but the top-level product is set up:
reading the expanded text in exact mode succeeds, and running `Eups.setup`'s action loop in exact mode on the setup commands
it yields (`toPin` = `Action.processArgs` on `[n, -j, v]`) succeeds and leaves, for every product other than the top-level
one, exactly its build-time record.  (Actions other than setup / unsetup commands do not touch the records: `apply_recs`.) -/
theorem C17_exact_reproduces_text (cfg : Setup.Cfg) (hk : cfg.keep = false) (hm : cfg.maxDepth = none) (fuel : Nat)
    (top : Setup.Decl) (s : Setup.St)
    (pdir : Option Str) (env : Cond.Env) (hfl : C11Spec.flavorOK env.flavor = true)
    (hex : env.types.contains ExpandTable.sExactW = true)
    (A : Answers) (o : Opts) (lines : List Str) (items : List Item)
    (h : expandItems A o lines = .ok items) (hn : noExactLine A o lines = true) (ha : o.addExactBlock = true)
    (hok : ∀ it ∈ items, ExpandTable.itemOK pdir it = true) (hinert : ∀ it ∈ items, ExpandTable.inertItem pdir it = true)
    (hsound : DepsSound A) (hpins : ∀ n v, A.pin n = some v → A.sv n = some v)
    (hcov : ∀ st, readAll A o lines = .ok st → Covered A o st)
    (hdecl : ∀ n v, A.sv n = some v → declaredS cfg n v = true)
    (hclean : ∀ n, o.toplevel ≠ some n → Setup.aget s.already n = none ∧ s.env.rec? n = none)
    (htop : ∀ v, ∀ n, o.toplevel = some n → (n, v) ∉ (items.filterMap pinKey).map (·.2)) (nl : Bool) :
    ∃ acts s', TableParse.tableActions TableParse.repaired pdir env (ExpandTable.expandedText items nl) = .ok acts ∧
      Setup.acts (Setup.setup cfg (fuel + 1)) cfg true 0 false exactVro top ((acts.filterMap ExpandTable.toPin).map pinAct) s = .ok s' ∧
      ∀ n, o.toplevel ≠ some n → recNames s'.env n = A.sv n := by
  obtain ⟨s', hs', hrec⟩ := C17_exact_reproduces_over_Setup cfg hk hm fuel top s A o lines items h hn ha hsound hpins hcov hdecl
    hclean htop
  refine ⟨_, s', ExpandTable.expand_exact_actions pdir env hfl hex h hn ha hok nl, ?_, hrec⟩
  rw [ExpandTable.toPin_flatMap items hinert]
  exact hs'

/-- **`C17_exact_actions_blocks`: the TableParse step for tables whose non-setup lines have `if` blocks of their own**
(flavor blocks and the like).  Scope condition `ExpandTable.expandOK2` (decidable, evaluated by the driver on every real
expansion): the items of the setup blocks are `itemOK`, and the lines of every non-setup block and of the final block are
grouped rightly by `ExpandTable.groupPlain` into single lines and `if (var op word) {` … `} else if` … `} else {` … `}` chains
(the grouping is *checked* — its text is the text written and its items are well formed — not trusted).  Then the reader's
model applied to the text of the expanded table returns exactly what the written table `tableOf` (those lines and chains, and
for every setup block the chain `if (type == exact) {` pins `} else {` lines `}` / `if (type != exact) {` lines `}`) denotes —
every flavor, every list of setup types, no hypothesis on a pre-existing exact block. -/
theorem C17_exact_actions_blocks (pdir : Option Str) (env : Cond.Env) (hfl : C11Spec.flavorOK env.flavor = true)
    (A : Answers) (o : Opts) (lines : List Str) (items : List Item)
    (h : expandItems A o lines = .ok items) (ha : o.addExactBlock = true)
    (hok : ExpandTable.expandOK2 pdir A o lines = true) (nl : Bool) :
    ∃ p, ExpandTable.expandParts A o lines = .ok p ∧
      TableParse.tableActions TableParse.repaired pdir env (ExpandTable.expandedText items nl)
        = .ok (C11Spec.denoteTable env (C11Spec.tableAbs (ExpandTable.tableOf pdir p))) :=
  ExpandTable.expand_exact_actions2 pdir env hfl h ha hok nl

/-- **`C17_exact_reproduces_text_blocks`**: `C17_exact_reproduces_text` for tables with blocks of their own — scope
`expandOK2`; `Inert` in the form `ExpandTable.expandInert2` (for this flavor, no non-setup block and no line of the final
block denotes a setup / unsetup command). -/
theorem C17_exact_reproduces_text_blocks (cfg : Setup.Cfg) (hk : cfg.keep = false) (hm : cfg.maxDepth = none) (fuel : Nat)
    (top : Setup.Decl) (s : Setup.St)
    (pdir : Option Str) (env : Cond.Env) (hfl : C11Spec.flavorOK env.flavor = true)
    (hex : env.types.contains ExpandTable.sExactW = true)
    (A : Answers) (o : Opts) (lines : List Str) (items : List Item)
    (h : expandItems A o lines = .ok items) (hn : noExactLine A o lines = true) (ha : o.addExactBlock = true)
    (hok : ExpandTable.expandOK2 pdir A o lines = true) (hinert : ExpandTable.expandInert2 pdir env A o lines = true)
    (hsound : DepsSound A) (hpins : ∀ n v, A.pin n = some v → A.sv n = some v)
    (hcov : ∀ st, readAll A o lines = .ok st → Covered A o st)
    (hdecl : ∀ n v, A.sv n = some v → declaredS cfg n v = true)
    (hclean : ∀ n, o.toplevel ≠ some n → Setup.aget s.already n = none ∧ s.env.rec? n = none)
    (htop : ∀ v, ∀ n, o.toplevel = some n → (n, v) ∉ (items.filterMap pinKey).map (·.2)) (nl : Bool) :
    ∃ acts s', TableParse.tableActions TableParse.repaired pdir env (ExpandTable.expandedText items nl) = .ok acts ∧
      acts.filterMap ExpandTable.toPin = items.filterMap pinKey ∧
      Setup.acts (Setup.setup cfg (fuel + 1)) cfg true 0 false exactVro top ((acts.filterMap ExpandTable.toPin).map pinAct) s = .ok s' ∧
      ∀ n, o.toplevel ≠ some n → recNames s'.env n = A.sv n := by
  obtain ⟨s', hs', hrec⟩ := C17_exact_reproduces_over_Setup cfg hk hm fuel top s A o lines items h hn ha hsound hpins hcov hdecl
    hclean htop
  obtain ⟨p, hp, hact⟩ := ExpandTable.expand_exact_actions2 pdir env hfl h ha hok nl
  obtain ⟨p', hp', hpin⟩ := ExpandTable.expand_pins2 pdir env hex h ha hok hinert
  rw [hp] at hp'
  cases hp'
  exact ⟨_, s', hact, hpin, by rw [hpin]; exact hs', hrec⟩

/-! ## concrete instances: the hypotheses are satisfiable, the theorems are not vacuous; negation witnesses -/

/-- string literal as a list of code points -/
local macro "str!" s:str : term => do
  let cs := s.getString.toList.toArray.map (fun c => Lean.Syntax.mkNumLit (toString c.toNat))
  `(([$cs,*] : Str))

def okItems (r : Except Err (List Item)) (l : List Item) : Bool :=
  match r with
  | .ok x => x == l
  | .error _ => false

theorem okItems_eq {r : Except Err (List Item)} {l : List Item} (h : okItems r l = true) : r = .ok l := by
  unfold okItems at h
  split at h
  · simp at h; subst h; rfl
  · simp at h

def okText (r : Except Err (List Str)) (l : List Str) : Bool :=
  match r with
  | .ok x => x == l
  | .error _ => false

/-- Build environment of the example: `b 1`, `c 2`, `d 1` are set up (and the top product `a 1`); `b` depends on `c`. -/
def D1 : AnswerData where
  sv := [(str! "a", str! "1"), (str! "b", str! "1"), (str! "c", str! "2"), (str! "d", str! "1")]
  spv := [(str! "a", str! "1"), (str! "b", str! "1"), (str! "c", str! "2"), (str! "d", str! "1")]
  deps := [((str! "b", str! "1"), some [⟨str! "c", str! "2", false⟩]), ((str! "d", str! "1"), some [])]

def o1 : Opts := { toplevel := some (str! "a") }

def T1 : List Str :=
  [str! "# the table of product a\n", str! "setupRequired(b >= 1)   # any b\n", str! "envPrepend(PATH, ${PRODUCT_DIR}/bin)\n",
   str! "setupOptional(d -j)\n", str! "setupOptional(x)\n", str! "if (flavor == Linux) {\n", str! "   envSet(A_FL, 1)\n", str! "}\n"]

/-- the sequence of `output` calls for that table -/
def items1 : List Item :=
  [.orig 0 .blank (str! "# the table of product a\n"),
   .gen 0 sIfNotExact, .orig 1 .setup (str! "setupRequired(b 1 [>= 1])"), .gen 0 sClose,
   .orig 0 .other (str! "envPrepend(PATH, ${PRODUCT_DIR}/bin)\n"),
   .gen 0 sIfExact, .pin 1 false (str! "b") (str! "1"), .pin 1 false (str! "c") (str! "2"), .pin 1 true (str! "d") (str! "1"),
   .gen 0 sElse, .orig 1 .setup (str! "setupOptional(d -j 1 [>= 1])"), .orig 1 .setup (str! "setupOptional(x)"), .gen 0 sClose,
   .orig 0 .other (str! "if (flavor == Linux) {\n"), .orig 1 .other (str! "   envSet(A_FL, 1)\n"), .orig 1 .other (str! "}\n")]

theorem expand1 : expandItems D1.toAnswers o1 T1 = .ok items1 := okItems_eq (by decide +kernel)

/-- its text -/
example : okText (expandText D1.toAnswers o1 T1)
    [str! "# the table of product a", str! "if (type != exact) {", str! "   setupRequired(b 1 [>= 1])", str! "}",
     str! "envPrepend(PATH, ${PRODUCT_DIR}/bin)", str! "if (type == exact) {", str! "   setupRequired(b               -j 1)",
     str! "   setupRequired(c               -j 2)", str! "   setupOptional(d               -j 1)", str! "} else {",
     str! "   setupOptional(d -j 1 [>= 1])", str! "   setupOptional(x)", str! "}", str! "if (flavor == Linux) {",
     str! "   envSet(A_FL, 1)", str! "   }"] = true := by decide +kernel

/-- the hypotheses of `C17_never_foreign` hold of the example, and its conclusion is about three pins -/
example : DepsSound D1.toAnswers := depsSound_of_data (by decide +kernel)
example : (items1.filterMap pinKey).length = 3 := by decide +kernel
example : noExactLine D1.toAnswers o1 T1 = true := by decide +kernel
/-- the exact branch of the example's text, read off the text: three pin lines -/
example : exactBranchText (items1.map renderItem)
    = [str! "   setupRequired(b               -j 1)", str! "   setupRequired(c               -j 2)",
       str! "   setupOptional(d               -j 1)"] := by decide +kernel

/-- (for the non-vacuity example only) a naive exact-mode reading of a table: lines of the form `setupX(name -j version)`
that are not inside an `} else {` branch or an `if (type != exact) {` block are applied, everything else is ignored. -/
def toyPins : Bool → List Str → List (Bool × Str × Str)
  | _, [] => []
  | skip, l :: rest =>
    let t := strip l
    if t == sIfExact then toyPins false rest
    else if t == sElse || t == sIfNotExact then toyPins true rest
    else if t == sClose then toyPins false rest
    else if skip then toyPins skip rest
    else match matchRexAt t with
      | some m => match splitWs m.args with
        | [n, j, v] => if j == sDashJ then (m.optional, n, v) :: toyPins skip rest else toyPins skip rest
        | _ => toyPins skip rest
      | none => toyPins skip rest

def declared1 (db : List (Str × Str)) (n v : Str) : Bool := db.contains (n, v)

def toyExactSetup (lines : List Str) (db : List (Str × Str)) : Option Recs :=
  runPins declared1 db (toyPins false lines) (fun _ => none)

/-- a later database: everything that was recorded is still declared; newer versions exist -/
def db1 : List (Str × Str) :=
  [(str! "a", str! "1"), (str! "b", str! "1"), (str! "b", str! "7"), (str! "c", str! "2"), (str! "c", str! "8"),
   (str! "d", str! "1"), (str! "x", str! "1")]

/-- `C17_exact_reproduces_partial_inst` is not vacuous: every hypothesis holds of the example (with the naive exact-mode
reader above), so exact setup from the expanded table in the later database records `b 1`, `c 2`, `d 1` and nothing else. -/
example : ∃ recs, toyExactSetup (items1.map renderItem) db1 = some recs ∧
    ∀ n, o1.toplevel ≠ some n → recs n = D1.toAnswers.sv n :=
  C17_exact_reproduces_partial_inst declared1 toyExactSetup D1.toAnswers o1 T1 items1
    expand1 (by decide +kernel) rfl (depsSound_of_data (by decide +kernel)) (pinsAgree_of_data (by decide +kernel))
    (covered_of_data (by decide +kernel)) db1
    (by
      intro n v h
      have hm := lookup_mem (l := D1.sv) h
      have : ∀ e ∈ D1.sv, db1.contains e = true := by decide +kernel
      exact this (n, v) hm)
    (by
      unfold toyExactSetup
      rw [show toyPins false (items1.map renderItem) = toyPins false ((items1.filter Item.isPin).map renderItem) by decide +kernel])
    (by
      unfold toyExactSetup
      rw [show toyPins false ((items1.filter Item.isPin).map renderItem) = items1.filterMap pinKey by decide +kernel])

/-- `C17_keeps_constraints_line` on a concrete line: `b >= 1` with `b 1` set up is rewritten to `b 1 [>= 1]`. -/
example : (match parseArgs (str! "b >= 1") with
    | .ok r => r == .parsed ⟨str! "b", [], none, some (str! ">= 1")⟩
    | .error _ => false) = true := by decide +kernel
example : decideRewrite D1.toAnswers o1 false ⟨str! "b", [], none, some (str! ">= 1")⟩
    = some ⟨false, str! "b", [], some (str! "1"), some (str! ">= 1")⟩ := by decide +kernel

/-- `C17_DepsSound_from_Deps` is not vacuous: a C13 database `a 1 → b 1 → c (current 2)`, records `b 1`, `c 2`; the model's
listing for `b 1` is `[c 2]`, and the answers built from it satisfy the theorem's hypotheses by definition. -/
def depsDb1 : Deps.Db :=
  { decls := [⟨str! "a", str! "1", [⟨false, false, str! "b", none, false, false⟩], false⟩,
              ⟨str! "b", str! "1", [⟨false, false, str! "c", none, false, false⟩], false⟩,
              ⟨str! "c", str! "1", [], false⟩, ⟨str! "c", str! "2", [], false⟩],
    current := [(str! "b", str! "1"), (str! "c", str! "1")] }
def setup1 : List (Str × Str) := [(str! "a", str! "1"), (str! "b", str! "1"), (str! "c", str! "2")]
def A1 : Answers :=
  { pin := fun _ => none, spv := fun n => setup1.lookup n, sv := fun n => setup1.lookup n,
    deps := depsOfModel depsDb1 depsDb1.fuel setup1 (fun _ _ => false) }
example : (match A1.deps (str! "b") (str! "1") with
    | .ok l => l == [⟨str! "c", str! "2", false⟩]      -- the set-up version 2, not the current one
    | _ => false) = true := by decide +kernel
example : DepsSound A1 :=
  C17_DepsSound_from_Deps depsDb1 depsDb1.fuel setup1 (fun _ _ => false) A1 (fun _ => rfl) (fun _ _ => rfl)

/-- `C17_exact_reproduces_over_Setup` is not vacuous: a later C01 database (newer versions of `b` and `c` declared, `current`
moved), the state in which only the top product `a 1` is set up, and the expansion `items1` of the example above; the
theorem then says that the exact-mode action loop on the three pin actions records `b 1`, `c 2`, `d 1`. -/
def setupDb1 : Setup.Db :=
  { decls := [⟨str! "a", (str! "1", 0), str! "/s/a/1", []⟩, ⟨str! "b", (str! "1", 0), str! "/s/b/1", [(.always, .dep (str! "c") false false none none [] false)]⟩,
              ⟨str! "b", (str! "7", 0), str! "/s/b/7", []⟩, ⟨str! "c", (str! "2", 0), str! "/s/c/2", []⟩, ⟨str! "c", (str! "8", 0), str! "/s/c/8", []⟩,
              ⟨str! "d", (str! "1", 0), str! "/s/d/1", [(.always, .dep (str! "c") false false none none [] false)]⟩],
    tags := [(Setup.tagCurrent, str! "b", (str! "7", 0)), (Setup.tagCurrent, str! "c", (str! "8", 0))] }
def setupCfg1 : Setup.Cfg := ⟨setupDb1, [0], false, none, true⟩
def topDecl1 : Setup.Decl := ⟨str! "a", (str! "1", 0), str! "/s/a/1", []⟩
def setupSt1 : Setup.St :=
  ⟨⟨[(str! "a", (str! "1", 0))], [], [], []⟩, [], [], [(str! "a", (topDecl1, some .commandLine))], []⟩

example : ∃ s', Setup.acts (Setup.setup setupCfg1 2) setupCfg1 true 0 false exactVro topDecl1 ((items1.filterMap pinKey).map pinAct) setupSt1 = .ok s' ∧
    ∀ n, o1.toplevel ≠ some n → recNames s'.env n = D1.toAnswers.sv n :=
  C17_exact_reproduces_over_Setup setupCfg1 rfl rfl 1 topDecl1 setupSt1 D1.toAnswers o1 T1 items1 expand1 (by decide +kernel) rfl
    (depsSound_of_data (by decide +kernel)) (pinsAgree_of_data (by decide +kernel)) (covered_of_data (by decide +kernel))
    (by
      intro n v h
      have hm := lookup_mem (l := D1.sv) h
      have : ∀ e ∈ D1.sv, declaredS setupCfg1 e.1 e.2 = true := by decide +kernel
      exact this (n, v) hm)
    (by
      intro n hne
      have hna : (str! "a") ≠ n := fun e => hne (by rw [← e]; rfl)
      simp [setupSt1, Setup.aget, Setup.Env.rec?, hna])
    (by
      intro v n htl
      have : n = str! "a" := by
        have : some (str! "a") = some n := htl
        exact (Option.some.inj this).symm
      subst this
      have hp : (items1.filterMap pinKey).map (·.2) = [(str! "b", str! "1"), (str! "c", str! "2"), (str! "d", str! "1")] := by decide +kernel
      rw [hp]
      simp)

/-- `C17_exact_actions_text` / `C17_exact_reproduces_text` are not vacuous: the items of the example are `itemOK` and
`inertItem`; in exact mode the expanded text of the example yields the `envPrepend` line's action and the three pin actions. -/
def exactEnv1 : Cond.Env := ⟨str! "Linux", [str! "exact"]⟩
def T1flat : List Str := T1.take 5
def items1flat : List Item :=
  [.orig 0 .blank (str! "# the table of product a\n"),
   .gen 0 sIfNotExact, .orig 1 .setup (str! "setupRequired(b 1 [>= 1])"), .gen 0 sClose,
   .orig 0 .other (str! "envPrepend(PATH, ${PRODUCT_DIR}/bin)\n"),
   .gen 0 sIfExact, .pin 1 false (str! "b") (str! "1"), .pin 1 false (str! "c") (str! "2"), .pin 1 true (str! "d") (str! "1"),
   .gen 0 sElse, .orig 1 .setup (str! "setupOptional(d -j 1 [>= 1])"), .orig 1 .setup (str! "setupOptional(x)"), .gen 0 sClose]
theorem expand1flat : expandItems D1.toAnswers o1 T1flat = .ok items1flat := okItems_eq (by decide +kernel)
example : items1flat.all (fun it => ExpandTable.itemOK none it && ExpandTable.inertItem none it) = true := by decide +kernel
example : items1flat.flatMap (ExpandTable.exactActs none)
    = [⟨str! "envPrepend", [str! "PATH", str! "${PRODUCT_DIR}/bin"], .append false⟩,
       ExpandTable.pinAction false (str! "b") (str! "1"), ExpandTable.pinAction false (str! "c") (str! "2"),
       ExpandTable.pinAction true (str! "d") (str! "1")] := by decide +kernel
example : TableParse.tableActions TableParse.repaired none exactEnv1 (ExpandTable.expandedText items1flat true)
    = .ok (items1flat.flatMap (ExpandTable.exactActs none)) :=
  C17_exact_actions_text none exactEnv1 (by decide) (by decide) D1.toAnswers o1 T1flat items1flat expand1flat (by decide +kernel) rfl
    (fun it hit => by
      have : items1flat.all (fun it => ExpandTable.itemOK none it) = true := by decide +kernel
      exact List.all_eq_true.mp this it hit) true

/-- `C17_exact_actions_blocks` is not vacuous: the whole example table `T1` — with its `if (flavor == Linux) {` block — is in
scope (`expandOK2`, `expandInert2`), and its expanded text yields, for flavor Linux in exact mode, the `envPrepend` action, the
three pin actions and the `envSet` of the flavor block. -/
example : ExpandTable.expandOK2 none D1.toAnswers o1 T1 = true ∧ ExpandTable.expandInert2 none exactEnv1 D1.toAnswers o1 T1 = true := by
  decide +kernel
example : (match ExpandTable.expandParts D1.toAnswers o1 T1 with
    | .ok p => (C11Spec.denoteTable exactEnv1 (C11Spec.tableAbs (ExpandTable.tableOf none p))).map (·.cmd)
        == [str! "envPrepend", str! "setupRequired", str! "setupRequired", str! "setupRequired", str! "envSet"]
    | .error _ => false) = true := by decide +kernel

/-- `C17_exact_reproduces_text_blocks` is not vacuous: every hypothesis holds of the example table `T1` (flavor block
included), the later C01 database `setupCfg1` and the clean state `setupSt1`; so reading the expanded text in exact mode
for flavor Linux and running the setup commands it yields leaves exactly the build-time records `b 1`, `c 2`, `d 1`. -/
example : ∃ acts s', TableParse.tableActions TableParse.repaired none exactEnv1 (ExpandTable.expandedText items1 true) = .ok acts ∧
    acts.filterMap ExpandTable.toPin = items1.filterMap pinKey ∧
    Setup.acts (Setup.setup setupCfg1 2) setupCfg1 true 0 false exactVro topDecl1 ((acts.filterMap ExpandTable.toPin).map pinAct) setupSt1 = .ok s' ∧
    ∀ n, o1.toplevel ≠ some n → recNames s'.env n = D1.toAnswers.sv n :=
  C17_exact_reproduces_text_blocks setupCfg1 rfl rfl 1 topDecl1 setupSt1 none exactEnv1 (by decide) (by decide)
    D1.toAnswers o1 T1 items1 expand1 (by decide +kernel) rfl (by decide +kernel) (by decide +kernel)
    (depsSound_of_data (by decide +kernel)) (pinsAgree_of_data (by decide +kernel)) (covered_of_data (by decide +kernel))
    (by
      intro n v h
      have hm := lookup_mem (l := D1.sv) h
      have : ∀ e ∈ D1.sv, declaredS setupCfg1 e.1 e.2 = true := by decide +kernel
      exact this (n, v) hm)
    (by
      intro n hne
      have hna : (str! "a") ≠ n := fun e => hne (by rw [← e]; rfl)
      simp [setupSt1, Setup.aget, Setup.Env.rec?, hna])
    (by
      intro v n htl
      have : n = str! "a" := by
        have : some (str! "a") = some n := htl
        exact (Option.some.inj this).symm
      subst this
      have hp : (items1.filterMap pinKey).map (·.2) = [(str! "b", str! "1"), (str! "c", str! "2"), (str! "d", str! "1")] := by decide +kernel
      rw [hp]
      simp) true

/-- `C17_inexact_actions_text` on the example: in build mode the expanded text yields the rewritten setup lines and the
`envPrepend` line, no pin. -/
example : (items1flat.flatMap (ExpandTable.inexactActs none)).map (fun a => (a.cmd, a.args))
    = [(str! "setupRequired", [str! "b", str! "1", str! "[>=", str! "1]"]), (str! "envPrepend", [str! "PATH", str! "${PRODUCT_DIR}/bin"]),
       (str! "setupRequired", [str! "d", str! "-j", str! "1", str! "[>=", str! "1]"]), (str! "setupRequired", [str! "x"])] := by
  decide +kernel
example : TableParse.tableActions TableParse.repaired none ⟨str! "Linux", [str! "build"]⟩ (ExpandTable.expandedText items1flat true)
    = .ok (items1flat.flatMap (ExpandTable.inexactActs none)) :=
  C17_inexact_actions_text none ⟨str! "Linux", [str! "build"]⟩ (by decide) (by decide) D1.toAnswers o1 T1flat items1flat expand1flat rfl
    (fun it hit => by
      have : items1flat.all (fun it => ExpandTable.itemOK none it) = true := by decide +kernel
      exact List.all_eq_true.mp this it hit) true

/-- **`inertItem` cannot be dropped (observation O2).**  The expander recognises `setupRequired(` spelled exactly so; the
table parser allows blanks before the parenthesis.  `setupRequired (x)` is passed through outside every block, the item is
`itemOK` but not `inertItem`, and in exact mode the expanded table sets `x` up unpinned — whatever version is current then. -/
theorem C17_inert_needed_witness :
    okItems (expandItems D1.toAnswers o1 [str! "setupRequired (x)\n"]) [.orig 0 .other (str! "setupRequired (x)\n")] = true ∧
    ExpandTable.itemOK none (.orig 0 .other (str! "setupRequired (x)\n")) = true ∧
    ExpandTable.inertItem none (.orig 0 .other (str! "setupRequired (x)\n")) = false ∧
    TableParse.tableActions TableParse.repaired none exactEnv1 (ExpandTable.expandedText [.orig 0 .other (str! "setupRequired (x)\n")] true)
      = .ok [⟨str! "setupRequired", [str! "x"], .optional false⟩] := by
  decide +kernel

/-! ### negation witnesses: the two ways `C17_exact_reproduces` failed on the pinned tree -/

/-- **Empty exact block**: when nothing was set up for the table at build time (only optional dependencies, all
absent) the expander writes `if (type == exact) {` immediately followed by `} else {`.  With the table parser's
empty-branch defect D4 (repaired by the C11 work) the else branch was then applied in exact mode, so a later exact setup
picked up whatever had been declared since. -/
theorem C17_empty_exact_block_witness :
    okText (expandText ({} : AnswerData).toAnswers o1 [str! "setupOptional(x)\n", str! "envSet(A_X, x)\n"])
      [str! "if (type == exact) {", str! "} else {", str! "   setupOptional(x)", str! "}", str! "envSet(A_X, x)"] = true := by
  decide +kernel

/-- the closure collection of the pinned tree: `-j` was not carried into the loop -/
def collectPinned (A : Answers) (o : Opts) (st : RState) : Except Err CState :=
  collect A o { st with products := st.products.map fun p => { p with noRecursion := false } }

def desiredIs (r : Except Err CState) (l : List (Str × Str)) : Bool :=
  match r with
  | .ok c => c.desired == l
  | .error _ => false

/-- `setupOptional(b -j)` set `b 1` up without its dependency `c`; `getDependencies(b, 1, shouldRaise=True)` raises -/
def D2 : AnswerData where
  sv := [(str! "a", str! "1"), (str! "d", str! "1"), (str! "b", str! "1")]
  spv := [(str! "a", str! "1"), (str! "d", str! "1"), (str! "b", str! "1")]
  deps := [((str! "d", str! "1"), some []), ((str! "b", str! "1"), none)]

def T2 : List Str := [str! "setupRequired(d)\n", str! "setupOptional(b -j)\n"]

/-- **D19** on the pinned collection: the optional `-j` product `b` is silently dropped from the closure (so exact
re-setup no longer sets it up) … -/
theorem C17_d19_witness_pinned :
    desiredIs ((readAll D2.toAnswers o1 T2).bind (collectPinned D2.toAnswers o1)) [(str! "d", str! "1")] = true := by
  decide +kernel

/-- … and a required one makes the expansion fail. -/
theorem C17_d19_witness_pinned_required :
    (match (readAll D2.toAnswers o1 [str! "setupRequired(d)\n", str! "setupRequired(b -j)\n"]).bind (collectPinned D2.toAnswers o1) with
      | .error .depsRaised => true
      | _ => false) = true := by
  decide +kernel

/-- With the repair (`fix: … do not collect the dependencies of a product that the table sets up with -j`) the model of
the current tree keeps `b`: the closure is everything that is set up. -/
theorem C17_d19_repaired :
    desiredIs ((readAll D2.toAnswers o1 T2).bind (collect D2.toAnswers o1)) [(str! "d", str! "1"), (str! "b", str! "1")] = true := by
  decide +kernel

/-- **An unsetup line names no product** (the repair of D73, for every line): when what the pattern finds first on a
line — after the substitutions — is an unsetup command, the reader keeps the line in its setup block and registers neither
a product to collect nor a line for the final block, whatever the environment answers. -/
theorem C17_unsetup_names_no_product (A : Answers) (o : Opts) (raw t : Str) (m : RexMatch)
    (hb : isBlankOrComment raw = false) (hs : subAll A o (stripComment raw) = .ok t)
    (hm : searchRex t = some m) (hu : m.unsetup = true) :
    classify A o raw = .ok (.setup t none) := by
  unfold classify
  simp [hb, hs, hm, hu, bind, Except.bind, pure, Except.pure]

/-- …and the substitution leaves an unsetup command exactly as it was written (no version, no `>= version`). -/
theorem C17_unsetup_command_verbatim (A : Answers) (o : Opts) (c : Nat) (cs : Str) (m : RexMatch)
    (hm : matchRexAt (c :: cs) = some m) (hu : m.unsetup = true) :
    subGo A o 0 (c :: cs) = (subGo A o (m.len - 1) cs).map (fun rest => (c :: cs).take m.len ++ rest) := by
  simp only [subGo, hm, hu, if_true, bind, Except.bind, pure, Except.pure]
  cases subGo A o (m.len - 1) cs <;> rfl

/-- **`C17_unsetup_line_kept`: the repair of D73 at the level of the text.**  The line `unsetupRequired(args)` /
`unsetupOptional(args)` (`unsetupLine opt args`, with its newline) — for every argument text without a double quote, `#` or
newline: product names, flags, versions, parentheses, anything — is read as a line of a setup block that is kept exactly as
written and names no product, whatever is set up and whatever the options. -/
theorem C17_unsetup_line_kept (A : Answers) (o : Opts) (opt : Bool) (args : Str)
    (hq : 34 ∉ args) (hh : 35 ∉ args) (hn : 10 ∉ args) :
    classify A o (unsetupLine opt args) = .ok (.setup (unsetupLine opt args) none) :=
  classify_unsetupLine A o opt hq hh hn

example : unsetupLine false (str! "b -j") = str! "unsetupRequired(b -j)\n" := by decide

/-- the search with the pattern of the pinned tree, `(setupRequired|setupOptional)\(…\)` without the optional `un` -/
def searchRexPinned : Str → Option RexMatch
  | [] => none
  | c :: cs =>
    match matchSetupAt (c :: cs) with
    | some m => some m
    | none => searchRexPinned cs

/-- **D73** on the pinned pattern: the unanchored pattern finds the setup command `setupRequired(b)` *inside* the line
`unsetupRequired(b)`, so `b` was registered as a product the table sets up (and demanded to be set up) … -/
theorem C17_d73_witness_pinned :
    searchRexPinned (str! "unsetupRequired(b)\n") = some ⟨false, str! "b", 16, false⟩ := by decide +kernel

/-- … whereas the pattern of the repaired tree matches the line as an unsetup command, which the reader keeps in the setup
block as it is, without a product. -/
example : searchRex (str! "unsetupRequired(b)\n") = some ⟨false, str! "b", 18, true⟩ := by decide +kernel
example : (match classify D1.toAnswers o1 (str! "unsetupRequired(b)\n") with
    | .ok c => c == .setup (str! "unsetupRequired(b)\n") none
    | .error _ => false) = true := by decide +kernel

/-- **D74** (open finding): the expander ignores the block structure of the table it expands.  `setupRequired(b)` inside
`if (flavor == Darwin) {` is not applied on Linux, so `b` is rightly not set up (`D4a`: only `a` and `c` are) — yet the
expansion demands it and refuses the table. -/
def D4a : AnswerData where
  sv := [(str! "a", str! "1"), (str! "c", str! "1")]
  spv := [(str! "a", str! "1"), (str! "c", str! "1")]
  deps := [((str! "c", str! "1"), some [])]

theorem C17_d74_witness :
    (match expandItems D4a.toAnswers o1
        [str! "setupRequired(c)\n", str! "if (flavor == Darwin) {\n", str! "setupRequired(b)\n", str! "}\n"] with
      | .error .notSetup => true
      | _ => false) = true := by
  decide +kernel

/-- **D74, second form**: `setupRequired(b)` inside `if (flavor == Linux) {` … `} else {` `envSet(A_FL, 2)` `}`.  The
expander nests its `if (type == exact) {` block inside the table's block; the reader (no nested blocks) drops the outer
condition and reads the else branch as unconditional: on Linux, in exact mode, the expanded text yields `envSet(A_FL, 2)`,
the original text does not. -/
def D4b : AnswerData where
  sv := [(str! "a", str! "1"), (str! "b", str! "1"), (str! "c", str! "1")]
  spv := [(str! "a", str! "1"), (str! "b", str! "1"), (str! "c", str! "1")]
  deps := [((str! "c", str! "1"), some []), ((str! "b", str! "1"), some [])]
def T4b : List Str :=
  [str! "setupRequired(c)\n", str! "if (flavor == Linux) {\n", str! "setupRequired(b)\n", str! "} else {\n",
   str! "envSet(A_FL, 2)\n", str! "}\n"]
def hasEnvSet (r : Cond.Res (List TableParse.Action)) : Bool :=
  match r with
  | .ok acts => acts.any (fun a => a.cmd == str! "envSet")
  | _ => false

theorem C17_d74_nested_witness :
    hasEnvSet (TableParse.tableActions TableParse.repaired none exactEnv1 T4b.flatten) = false ∧
    (match expandItems D4b.toAnswers o1 T4b with
      | .ok items => hasEnvSet (TableParse.tableActions TableParse.repaired none exactEnv1 (ExpandTable.expandedText items true))
      | .error _ => false) = true := by
  decide +kernel

/-- **D72** (open finding): the hypothesis `Covered` is not a formality.  Answers as the real code gives them for the table
`setupRequired(d)`, `setupRequired(c)`, `setupRequired(b)` when `d` takes `f` away again, `c` takes `e` away and `b` sets
`e` — and with it `f` — up again: `f 1` is set up, but no listing mentions it (`Table.dependencies` removed it by name
inside `d`'s sub-listing and does not expand `e` a second time).  `DepsSound` holds, `Covered` does not, and the exact block
pins `d`, `e`, `c`, `b` only. -/
def D3 : AnswerData where
  sv := [(str! "a", str! "1"), (str! "b", str! "1"), (str! "c", str! "1"), (str! "d", str! "1"), (str! "e", str! "1"), (str! "f", str! "1")]
  spv := [(str! "a", str! "1"), (str! "b", str! "1"), (str! "c", str! "1"), (str! "d", str! "1"), (str! "e", str! "1"), (str! "f", str! "1")]
  deps := [((str! "d", str! "1"), some [⟨str! "e", str! "1", false⟩]), ((str! "c", str! "1"), some []),
           ((str! "b", str! "1"), some [⟨str! "d", str! "1", false⟩, ⟨str! "e", str! "1", false⟩, ⟨str! "e", str! "1", false⟩])]
def T3 : List Str := [str! "setupRequired(d)\n", str! "setupRequired(c)\n", str! "setupRequired(b)\n"]

theorem C17_d72_covered_fails_witness :
    (D3.depsSound && !D3.covered o1 T3 &&
      okText (expandText D3.toAnswers o1 T3)
        [str! "if (type == exact) {", str! "   setupRequired(d               -j 1)", str! "   setupRequired(e               -j 1)",
         str! "   setupRequired(c               -j 1)", str! "   setupRequired(b               -j 1)", str! "} else {",
         str! "   setupRequired(d 1 [>= 1])", str! "   setupRequired(c 1 [>= 1])", str! "   setupRequired(b 1 [>= 1])", str! "}"]) = true := by
  decide +kernel

end EupsModel.C17
