/-! C17 — property theorems (placeholder until the model exists). -/
