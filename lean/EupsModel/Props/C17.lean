import EupsModel.Lemmas.Expand
/-! C17 — an expanded table file reproduces the build-time versions exactly.  Property theorems only
(the model is `Model/Expand.lean`, helper lemmas are in `Lemmas/Expand.lean`).

`A : Answers` is what the environment told the expander (`pin` = the `-p prod=ver` pins, `sv` = `getSetupVersion`,
`spv` = `findSetupProduct(..).version`, `deps` = `getDependencies(.., setup=True, shouldRaise=True)`); the
correspondence check feeds the model with the answers the real `Eups` gave in the same process. -/
namespace EupsModel.C17
open EupsModel EupsModel.Expand

/-- **Hypothesis `DepsSound`** (to be discharged by the models of C13 `getDependentProducts(setup=True)` and C01):
every `(n, v)` a dependency listing with `setup=True` returns is the version of `n` that is set up. -/
def DepsSound (A : Answers) : Prop :=
  ∀ n v l, A.deps n v = .ok l → ∀ d ∈ l, A.sv d.name = some d.version

/-- `C17_never_foreign`, unconditional part: whatever the environment answers, a `-j` pin written into the
exact block names either a build-time record / `-p` pin, or an entry that `getDependencies` listed for a
product of the table taken at its build-time record / pin.  Every graph, every table text, every option. -/
theorem C17_never_foreign_sourced (A : Answers) (o : Opts) (lines : List Str) (items : List Item)
    (h : expandItems A o lines = .ok items) (ind : Int) (opt : Bool) (n v : Str)
    (hx : Item.pin ind opt n v ∈ items) : Sourced A o n v :=
  pin_sourced h hx

/-- `C17_never_foreign` (every graph, conflicts included): under `DepsSound`, every `-j v` line of the exact
block names an `(n, v)` that was set up when the table was written (`getSetupVersion n = v`) or that the user
pinned with `-p n=v`. -/
theorem C17_never_foreign (A : Answers) (o : Opts) (lines : List Str) (items : List Item)
    (hs : DepsSound A) (h : expandItems A o lines = .ok items) (ind : Int) (opt : Bool) (n v : Str)
    (hx : Item.pin ind opt n v ∈ items) : Recorded A n v := by
  rcases pin_sourced h hx with h1 | ⟨_, n0, v0, l, d, _, hl, hd, rfl, rfl⟩
  · exact h1
  · exact .inl (hs n0 v0 l hl d hd)

/-- Without recursion (the call `eups distrib` makes, `recurse=False`) no hypothesis is needed: only the
table's own products are pinned, each at its record or pin. -/
theorem C17_never_foreign_toplevel (A : Answers) (o : Opts) (lines : List Str) (items : List Item)
    (hr : o.recurse = false) (h : expandItems A o lines = .ok items) (ind : Int) (opt : Bool) (n v : Str)
    (hx : Item.pin ind opt n v ∈ items) : Recorded A n v := by
  rcases pin_sourced h hx with h1 | ⟨hrc, _⟩
  · exact h1
  · simp [hr] at hrc

/-- The text of a pin item is the line `setupRequired(<name padded to 15> -j <version>)` (resp. `setupOptional`). -/
theorem pin_text (ind : Int) (opt : Bool) (n v : Str) :
    renderItem (.pin ind opt n v) = indentStr ind ++ strip (cmdName opt ++ [cLpar] ++ pad15 n ++ sJ ++ v ++ [cRpar]) := rfl

end EupsModel.C17
