/-! C18 — property theorems (placeholder until the model exists). -/
