import EupsModel.Lemmas.Manifest
/-! C18 — distribution manifests and tag lists round-trip and keep install order; remap.  Property theorems only
(model: `Model/Manifest.lean`, helper lemmas: `Lemmas/Manifest.lean`).

Reading.  A *word* (`Tok`) is a non-empty string without white space in Python's sense.  The round trip is claimed
for entries whose product and version are words (the product not starting with `#`), whose flavor, table file and
directory are missing or words, and whose distribution id is missing or a word other than the two reserved words of
the format (`None`, `search`) — `DepOk`.  A missing table file or directory is written `none` and read back as the
text `none`; a missing flavor is written as the `flavor=` argument or the native flavor (`roundDep`). -/
namespace EupsModel.C18
open EupsModel EupsModel.Manifest

theorem tok_unknown : Tok sUNKNOWN := ⟨by decide, by decide⟩
theorem tok_generic : Tok sGeneric := ⟨by decide, by decide⟩

theorem manHeader_chars (m : Manifest) (hprod : ∀ s, m.product = some s → Tok s)
    (hver : ∀ s, m.version = some s → Tok s) : ∀ c ∈ manHeader m, c ≠ 10 ∧ c ≠ 13 := by
  have hp : Tok (m.product.getD sUNKNOWN) := by
    cases h : m.product with
    | none => exact tok_unknown
    | some s => exact hprod s h
  have hv : Tok (m.version.getD sGeneric) := by
    cases h : m.version with
    | none => exact tok_generic
    | some s => exact hver s h
  intro c hc
  simp only [manHeader, List.mem_append] at hc
  rcases hc with (((((h | h) | h) | h) | h) | h) | h
  · revert c; decide
  · exact ⟨hp.no_nl c h, hp.no_cr c h⟩
  · revert c; decide
  · exact ⟨hv.no_nl c h, hv.no_cr c h⟩
  · revert c; decide
  · revert c; decide
  · revert c; decide

/-- **C18, manifests (core).**  For every dependency list — any length and order, mixed flavors, optional entries,
missing table files, directories and distribution ids — whose written entries are `DepOk`, every `flavor=` argument,
both values of `noOptional` and any comment block: the manifest that `Manifest.write` produces is read back by
`Manifest.read` as the written entries, in the same order, each with the same product, version, table file,
directory and distribution id, and with the flavor it was written with. -/
theorem C18_manifest_roundtrip (o : WriteOpts) (comments : List Str) (m : Manifest) (recurse : Bool)
    (hn : Tok o.native) (ho : OptTok o.flavor)
    (hprod : ∀ s, m.product = some s → Tok s) (hver : ∀ s, m.version = some s → Tok s)
    (hc : ∀ l ∈ comments, isBlankOrComment l = true ∧ ∀ c ∈ l, c ≠ 10 ∧ c ≠ 13)
    (hd : ∀ p ∈ written o m, DepOk p) :
    read false recurse (write o comments m) =
      .ok { product := some (m.product.getD sUNKNOWN), version := some (m.version.getD sGeneric),
            deps := (written o m).map (roundDep o recurse) } := by
  have hp : Tok (m.product.getD sUNKNOWN) := by
    cases h : m.product with
    | none => exact tok_unknown
    | some s => exact hprod s h
  have hv : Tok (m.version.getD sGeneric) := by
    cases h : m.version with
    | none => exact tok_generic
    | some s => exact hver s h
  have hchars : ∀ l ∈ writeLines o comments m, ∀ c ∈ l, c ≠ 10 ∧ c ≠ 13 := by
    intro l hl
    simp only [writeLines, List.mem_cons, List.mem_append, List.mem_map] at hl
    rcases hl with (rfl | hl) | ⟨p, hp', rfl⟩
    · exact manHeader_chars m hprod hver
    · exact (hc l hl).2
    · exact entryLine_no_nl o p hn ho (hd p hp')
  unfold EupsModel.Manifest.read EupsModel.Manifest.write
  rw [lines_univ_unlines _ (fun l hl c hcl => (hchars l hl c hcl).1) (fun l hl c hcl => (hchars l hl c hcl).2)]
  have hh : parseManHeader (manHeader m) = some (m.product.getD sUNKNOWN, m.version.getD sGeneric) := by
    simpa [manHeader] using parseManHeader_manHeader _ _ hp hv
  have he : parseEntries false recurse (comments ++ (written o m).map (entryLine o)) =
      .ok ((written o m).map (roundDep o recurse)) := by
    rw [parseEntries_comments recurse comments _ (fun l hl => (hc l hl).1),
      parseEntries_entries o recurse (written o m) hn ho hd]
  exact readLines_cons false recurse _ _ _ _ _ hh he

/-- the products come back in install order -/
theorem C18_manifest_same_order (o : WriteOpts) (comments : List Str) (m : Manifest) (recurse : Bool)
    (hn : Tok o.native) (ho : OptTok o.flavor)
    (hprod : ∀ s, m.product = some s → Tok s) (hver : ∀ s, m.version = some s → Tok s)
    (hc : ∀ l ∈ comments, isBlankOrComment l = true ∧ ∀ c ∈ l, c ≠ 10 ∧ c ≠ 13)
    (hd : ∀ p ∈ written o m, DepOk p) :
    ∃ m', read false recurse (write o comments m) = .ok m' ∧
      m'.deps.map (fun p => (p.product, p.version, p.distId)) =
        (written o m).map (fun p => (p.product, p.version, p.distId)) := by
  refine ⟨_, C18_manifest_roundtrip o comments m recurse hn ho hprod hver hc hd, ?_⟩
  simp [List.map_map, Function.comp_def, roundDep]

/-- with `noOptional=False` (as `Distrib.writeManifest` calls it) every entry is written -/
theorem C18_manifest_all_written (o : WriteOpts) (m : Manifest) (h : o.noOptional = false) : written o m = m.deps := by
  simp [written, h]

/-- an entry with a flavor of its own keeps it when no `flavor=` is given (the repaired D13) -/
theorem C18_manifest_keeps_flavor (o : WriteOpts) (p : Dep) (f : Str) (ho : falsy o.flavor = true)
    (hf : p.flavor = some f) (hne : f ≠ []) : flavorCol o p = f := by
  have : falsy (some f) = false := by
    cases f with
    | nil => exact absurd rfl hne
    | cons _ _ => rfl
  simp [flavorCol, ho, hf, this]

/-- Non-vacuity: three entries of three flavors, one without flavor, table, directory and distribution id. -/
example :
    let d1 : Dep := { product := Str.ofString "python", version := Str.ofString "2.6.2", flavor := some (Str.ofString "DarwinX86"),
                      tablefile := some (Str.ofString "python.table"), instDir := some (Str.ofString "DarwinX86/python/2.6.2"),
                      distId := some (Str.ofString "python-2.6.2.tar.gz") }
    let d2 : Dep := { product := Str.ofString "afw", version := Str.ofString "1.0", flavor := none, tablefile := none, instDir := none,
                      distId := none, isOpt := true }
    let m : Manifest := { product := some (Str.ofString "top"), version := none, deps := [d1, d2] }
    let o : WriteOpts := { noOptional := false, native := Str.ofString "Linux" }
    (read false false (write o [Str.ofString "# pkg flavor"] m)).toOption =
      some { product := some (Str.ofString "top"), version := some (Str.ofString "generic"),
             deps := [{ d1 with }, { product := Str.ofString "afw", version := Str.ofString "1.0", flavor := some (Str.ofString "Linux"),
                                     tablefile := some (Str.ofString "none"), instDir := some (Str.ofString "none"), distId := none }] } := by
  decide

/-- **D13, pinned tree (negation witnesses).**  The pinned writer (`if not flavor: p.flavor = flavor`) writes the
native flavor for an entry that has its own ... -/
theorem C18_flavor_pinned_witness :
    let d : Dep := { product := [112], version := [49], flavor := some (Str.ofString "DarwinX86"), tablefile := none,
                     instDir := none, distId := some [120] }
    let o : WriteOpts := { native := Str.ofString "Linux" }
    flavorColPinned o d = Str.ofString "Linux" ∧ flavorCol o d = Str.ofString "DarwinX86" ∧
      flavorColPinned { o with flavor := some (Str.ofString "Linux64") } d = Str.ofString "DarwinX86" ∧
      flavorCol { o with flavor := some (Str.ofString "Linux64") } d = Str.ofString "Linux64" := by
  decide

/-- ... and the pinned `Dependency.__init__` (`distId == None`) keeps the text `None` as a distribution id. -/
theorem C18_distid_pinned_witness :
    let d : Dep := { product := [112], version := [49], flavor := none, tablefile := none, instDir := none, distId := none }
    let m : Manifest := { product := some [116], version := some [49], deps := [d] }
    let o : WriteOpts := { native := Str.ofString "Linux" }
    (read true false (write o [] m)).toOption.map (fun m' => m'.deps.map (·.distId)) = some [some (Str.ofString "None")] ∧
      (read false false (write o [] m)).toOption.map (fun m' => m'.deps.map (·.distId)) = some [none] := by
  decide

/-! ## tag lists -/

/-- **C18, tag lists: same entries, in sorted order.**  A tagged-release list written by `TaggedProductList.write`
(with or without `flavor=`) and read by a reader of flavor `F` yields, for the products in *sorted* order, exactly
the entries whose flavor is `F` or `generic` (which stands for `F`), each with its version and extra words. -/
theorem C18_taglist_roundtrip (t : TagList) (fa : Option Str) (F : Str) (comments : List Str)
    (htag : ∀ c ∈ t.tag, c ≠ 10 ∧ c ≠ 13)
    (hc : ∀ l ∈ comments, isBlankOrComment l = true ∧ ∀ c ∈ l, c ≠ 10 ∧ c ≠ 13)
    (hnd : t.products.Nodup)
    (hok : ∀ p ∈ t.products, TagEntryOk fa p ((assocGet t.info p).getD [])) :
    ∃ r, (TagList.empty t.tag (some F)).read (t.write fa comments) = .ok r ∧
      r.getProducts = (sortStrs t.products).filterMap (fun p => keepEntry fa F p ((assocGet t.info p).getD [])) := by
  have hperm := sortStrs_perm t.products
  have hmem : ∀ p ∈ sortStrs t.products, p ∈ t.products := fun p hp => hperm.mem_iff.mp hp
  have hchars : ∀ l ∈ t.writeLines fa comments, ∀ c ∈ l, c ≠ 10 ∧ c ≠ 13 := by
    intro l hl
    simp only [TagList.writeLines, List.mem_cons, List.mem_append, List.mem_map] at hl
    rcases hl with (rfl | hl) | ⟨p, hp, rfl⟩
    · intro c hcc
      simp only [tagHeader, List.mem_append] at hcc
      rcases hcc with ((((h | h) | h) | h) | h) | h
      · revert c; decide
      · exact htag c h
      · revert c; decide
      · revert c; decide
      · revert c; decide
      · revert c; decide
    · exact (hc l hl).2
    · exact tagLine_no_nl fa p _ (hok p (hmem p hp))
  have hl : lines (univNewlines (t.write fa comments)) = t.writeLines fa comments := by
    unfold TagList.write
    exact lines_univ_unlines _ (fun l hl c hcl => (hchars l hl c hcl).1) (fun l hl c hcl => (hchars l hl c hcl).2)
  have hinv : TagInv (TagList.empty t.tag (some F)) F := ⟨rfl, rfl, List.nodup_nil⟩
  obtain ⟨r, hr, hg⟩ := tagEntries_lines fa F (fun p => (assocGet t.info p).getD []) (sortStrs t.products)
    (TagList.empty t.tag (some F)) hinv (hperm.nodup_iff.mpr hnd) (fun p _ => by simp [TagList.empty])
    (fun p hp => hok p (hmem p hp))
  refine ⟨r, ?_, ?_⟩
  · have hread := tagRead_of_lines (TagList.empty t.tag (some F)) (t.write fa comments) (tagHeader t.tag)
      (comments ++ (sortStrs t.products).map fun p => tagLine fa p ((assocGet t.info p).getD []))
      (by rw [hl]; rfl) (parseTagHeader_tagHeader t.tag)
    rw [hread, tagEntries_comments _ _ _ (fun l hl => (hc l hl).1)]
    exact hr
  · rw [hg]; simp [TagList.getProducts, TagList.empty]

/-- the same *set* of entries as the list held for that reader (in some order) -/
theorem C18_taglist_same_entries (t : TagList) (fa : Option Str) (F : Str) (comments : List Str)
    (htag : ∀ c ∈ t.tag, c ≠ 10 ∧ c ≠ 13)
    (hc : ∀ l ∈ comments, isBlankOrComment l = true ∧ ∀ c ∈ l, c ≠ 10 ∧ c ≠ 13)
    (hnd : t.products.Nodup)
    (hok : ∀ p ∈ t.products, TagEntryOk fa p ((assocGet t.info p).getD [])) :
    ∃ r, (TagList.empty t.tag (some F)).read (t.write fa comments) = .ok r ∧
      r.getProducts.Perm (t.products.filterMap (fun p => keepEntry fa F p ((assocGet t.info p).getD []))) := by
  obtain ⟨r, hr, hg⟩ := C18_taglist_roundtrip t fa F comments htag hc hnd hok
  exact ⟨r, hr, hg ▸ (sortStrs_perm t.products).filterMap _⟩

/-- **"same order", partial** — hypothesis: the products were added in sorted order. -/
theorem C18_taglist_order_partial (t : TagList) (fa : Option Str) (F : Str) (comments : List Str)
    (htag : ∀ c ∈ t.tag, c ≠ 10 ∧ c ≠ 13)
    (hc : ∀ l ∈ comments, isBlankOrComment l = true ∧ ∀ c ∈ l, c ≠ 10 ∧ c ≠ 13)
    (hnd : t.products.Nodup)
    (hok : ∀ p ∈ t.products, TagEntryOk fa p ((assocGet t.info p).getD []))
    (hsorted : SortedAdj t.products) :
    ∃ r, (TagList.empty t.tag (some F)).read (t.write fa comments) = .ok r ∧
      r.getProducts = t.products.filterMap (fun p => keepEntry fa F p ((assocGet t.info p).getD [])) := by
  obtain ⟨r, hr, hg⟩ := C18_taglist_roundtrip t fa F comments htag hc hnd hok
  exact ⟨r, hr, by rw [hg, sortStrs_sorted_id _ hsorted]⟩

/-- Non-vacuity (sorted insertion, a `generic` entry, an entry of another flavor that the reader drops). -/
example :
    let t := (((TagList.empty (Str.ofString "current") (some (Str.ofString "Linux"))).addProduct (Str.ofString "afw")
      (Str.ofString "1.0") none []).addProduct (Str.ofString "boost") (Str.ofString "2") (some (Str.ofString "generic"))
      [Str.ofString "x"]).addProduct (Str.ofString "cfitsio") (Str.ofString "3") (some (Str.ofString "DarwinX86")) []
    ((TagList.empty (Str.ofString "current") (some (Str.ofString "Linux"))).read (t.write none [])).toOption.map
        TagList.getProducts =
      some [[Str.ofString "afw", Str.ofString "Linux", Str.ofString "1.0"],
            [Str.ofString "boost", Str.ofString "Linux", Str.ofString "2", Str.ofString "x"]] := by
  decide

/-- **D14 (negation witness): the unrestricted "same order" clause is false** — `python` added before `afw` comes
back after it. -/
theorem C18_taglist_order_witness :
    let t := ((TagList.empty (Str.ofString "current") (some (Str.ofString "Linux"))).addProduct (Str.ofString "python")
      (Str.ofString "2.6") none []).addProduct (Str.ofString "afw") (Str.ofString "1.0") none []
    t.getProducts.map (·.head?) = [some (Str.ofString "python"), some (Str.ofString "afw")] ∧
      ((TagList.empty (Str.ofString "current") (some (Str.ofString "Linux"))).read (t.write none [])).toOption.map
        (fun r => r.getProducts.map (·.head?)) = some [some (Str.ofString "afw"), some (Str.ofString "python")] := by
  decide

/-! ## remap -/

/-- **C18, remap touches exactly the entries it names (frame part).**  Whatever the rules (any number, any order,
any flavors, overwriting or not): entries of products that no rule mentions come through `remapEntries`' loop
untouched and in place — the result is the list filtered and rewritten by a function that is the identity on them. -/
theorem C18_remap_exact (rules : List Rule) (fl : Str) (deps : List Dep) :
    ∃ g : Dep → Option Dep, remapDeps (buildMapping false rules) fl deps = deps.filterMap g ∧
      ∀ p, (∀ r ∈ rules, r.inP ≠ p.product) → g p = some p := by
  refine ⟨_, rfl, ?_⟩
  intro p hp
  simp [apply_unmentioned false rules p.product p.version fl hp]

theorem filterMap_id_on {α : Type} (g : α → Option α) (l : List α) (h : ∀ x ∈ l, g x = some x) : l.filterMap g = l := by
  induction l with
  | nil => rfl
  | cons x r ih => rw [List.filterMap_cons, h x (by simp), ih (fun y hy => h y (by simp [hy]))]

/-- in particular a list none of whose products is mentioned is returned as it is -/
theorem C18_remap_unmentioned_list (rules : List Rule) (fl : Str) (deps : List Dep)
    (h : ∀ p ∈ deps, ∀ r ∈ rules, r.inP ≠ p.product) : remapDeps (buildMapping false rules) fl deps = deps := by
  obtain ⟨g, hg, hid⟩ := C18_remap_exact rules fl deps
  rw [hg]
  exact filterMap_id_on g deps (fun p hp => hid p (h p hp))

/-- what one rule `P:V  [Q:]W` (generic flavor) builds -/
theorem single_rule_map (P V : Str) (outP : Option Str) (W : Str) (hW : W ≠ []) (hnr : lowerAscii W ≠ sNoreinstall) :
    (buildMapping false [{ inP := P, inV := V, outP := outP, outV := some W, flavor := sGeneric }]).map =
      [(sGeneric, [(P, [(V, (if falsy outP then P else outP.getD [], some W))])])] := by
  have h1 : falsy (some W) = false := by
    cases W with
    | nil => exact absurd rfl hW
    | cons _ _ => rfl
  have h2 : (lowerAscii W == sNoreinstall) = false := by simpa using hnr
  simp [buildMapping, addRule, Mapping.addP, h1, h2, tableAdd, assocGet, assocSet]

/-- **replace / rename.**  The rule `P:V  [Q:]W` maps `P V` to `Q W` (to `P W` without `Q`) for every flavor ... -/
theorem C18_remap_rule_names (P V : Str) (outP : Option Str) (W fl : Str) (hW : W ≠ []) (hnr : lowerAscii W ≠ sNoreinstall) :
    (buildMapping false [{ inP := P, inV := V, outP := outP, outV := some W, flavor := sGeneric }]).apply P V fl =
      (if falsy outP then P else outP.getD [], some W) := by
  simp only [Mapping.apply, Mapping.apply1, single_rule_map P V outP W hW hnr]
  by_cases hf : fl = sGeneric
  · subst hf; simp [assocGet]
  · simp [assocGet, hf, Ne.symm hf]

/-- ... and leaves every other version of `P` alone (`V` an explicit version). -/
theorem C18_remap_rule_other_version (P V V' : Str) (outP : Option Str) (W fl : Str) (hW : W ≠ [])
    (hnr : lowerAscii W ≠ sNoreinstall) (hV : V' ≠ V) (hany : V ≠ sAny) :
    (buildMapping false [{ inP := P, inV := V, outP := outP, outV := some W, flavor := sGeneric }]).apply P V' fl =
      (P, some V') := by
  simp only [Mapping.apply, Mapping.apply1, single_rule_map P V outP W hW hnr]
  have h1 : ¬ V = V' := fun e => hV e.symm
  have h2 : ¬ V = sAny := hany
  by_cases hf : fl = sGeneric
  · subst hf; simp [assocGet, h1, h2]
  · simp [assocGet, hf, Ne.symm hf, h1, h2]

/-- **delete (repaired D25).**  The rule `P:V None` removes `P V` ... -/
theorem C18_remap_rule_deletes (P V fl : Str) :
    (buildMapping false [{ inP := P, inV := V, outP := none, outV := none, flavor := sGeneric }]).apply P V fl =
      (P, none) := by
  have hm : (buildMapping false [{ inP := P, inV := V, outP := none, outV := none, flavor := sGeneric }]).map =
      [(sGeneric, [(P, [(V, (P, none))])])] := by
    simp [buildMapping, addRule, Mapping.addP, falsy, tableAdd, assocGet, assocSet]
  simp only [Mapping.apply, Mapping.apply1, hm]
  by_cases hf : fl = sGeneric
  · subst hf; simp [assocGet]
  · simp [assocGet, hf, Ne.symm hf]

/-- ... and no other version of `P`. -/
theorem C18_remap_rule_deletes_only (P V V' fl : Str) (hV : V' ≠ V) (hany : V ≠ sAny) :
    (buildMapping false [{ inP := P, inV := V, outP := none, outV := none, flavor := sGeneric }]).apply P V' fl =
      (P, some V') := by
  have hm : (buildMapping false [{ inP := P, inV := V, outP := none, outV := none, flavor := sGeneric }]).map =
      [(sGeneric, [(P, [(V, (P, none))])])] := by
    simp [buildMapping, addRule, Mapping.addP, falsy, tableAdd, assocGet, assocSet]
  simp only [Mapping.apply, Mapping.apply1, hm]
  have h1 : ¬ V = V' := fun e => hV e.symm
  by_cases hf : fl = sGeneric
  · subst hf; simp [assocGet, h1, hany]
  · simp [assocGet, hf, Ne.symm hf, h1, hany]

/-- **D25, pinned tree (negation witness):** `eigen:1.0 None` also removed `eigen 2.0`. -/
theorem C18_delete_pinned_witness :
    let r : Rule := { inP := Str.ofString "eigen", inV := Str.ofString "1.0", outP := none, outV := none, flavor := sGeneric }
    (buildMapping true [r]).apply (Str.ofString "eigen") (Str.ofString "2.0") (Str.ofString "Linux") =
        (Str.ofString "eigen", none) ∧
      (buildMapping false [r]).apply (Str.ofString "eigen") (Str.ofString "2.0") (Str.ofString "Linux") =
        (Str.ofString "eigen", some (Str.ofString "2.0")) := by
  decide

/-- **D24/D26, pinned tree (negation witness):** `[create]afwdata None` in manifest.remap removed afwdata from a
manifest remapped with `mode=None`; the repaired reader applies the line only in mode `create`. -/
theorem C18_mode_pinned_witness :
    let d1 : Dep := { product := Str.ofString "afwdata", version := Str.ofString "1.0", flavor := none, tablefile := none,
                      instDir := none, distId := none }
    let d2 : Dep := { product := Str.ofString "python", version := Str.ofString "2.6", flavor := none, tablefile := none,
                      instDir := none, distId := none }
    let files := [[Str.ofString "[create]afwdata              None"]]
    remapEntriesPinned {} none files (Str.ofString "Linux") [d1, d2] = some [d2] ∧
      remapEntries {} none files (Str.ofString "Linux") [d1, d2] = some [d1, d2] ∧
      remapEntries {} (some (Str.ofString "create")) files (Str.ofString "Linux") [d1, d2] = some [d2] := by
  decide

/-- **D59, pinned tree (negation witness):** `remapEntries()` without a mapping argument merged the rules of
`manifest.remap` into its shared default argument.  After a first call that read `afw:1.0 5.0`, a second call on
another manifest, whose `manifest.remap` names nothing, still replaced `afw 1.0` by `afw 5.0`; the repaired call
(fresh default per call) leaves the manifest alone. -/
theorem C18_default_mapping_pinned_witness :
    let d1 : Dep := { product := Str.ofString "afw", version := Str.ofString "1.0", flavor := none, tablefile := none,
                      instDir := none, distId := none }
    let d2 : Dep := { product := Str.ofString "python", version := Str.ofString "2.6", flavor := none, tablefile := none,
                      instDir := none, distId := none }
    let fl := Str.ofString "Linux"
    let first := remapEntriesDefaultPinned {} none [[Str.ofString "afw:1.0   5.0"]] fl [d1]
    (first.bind fun r => (remapEntriesDefaultPinned r.2 none [[Str.ofString "# nothing to remap"]] fl [d1, d2]).map
        fun x => x.1.map fun d => (d.product, d.version)) =
        some [(Str.ofString "afw", Str.ofString "5.0"), (Str.ofString "python", Str.ofString "2.6")] ∧
      remapEntries {} none [[Str.ofString "# nothing to remap"]] fl [d1, d2] = some [d1, d2] := by
  decide

/-! ## a manifest as a live object: install order under `reverse`, `roll`, `getDependency` -/

theorem rollRight1_rollLeft1 {α : Type} (l : List α) : rollRight1 (rollLeft1 l) = l := by
  cases l with
  | nil => rfl
  | cons x r => simp [rollLeft1, rollRight1]

theorem iter_succ_right {α : Type} (f : α → α) (k : Nat) (x : α) : iter f (k + 1) x = f (iter f k x) := by
  induction k generalizing x with
  | zero => rfl
  | succ k ih => rw [iter, ih (f x)]; rfl

theorem iter_right_left {α : Type} (k : Nat) (l : List α) : iter rollRight1 k (iter rollLeft1 k l) = l := by
  induction k generalizing l with
  | zero => rfl
  | succ k ih =>
    rw [iter_succ_right rollLeft1 k l, iter, rollRight1_rollLeft1, ih]

/-- **`reverse` twice restores the install order.** -/
theorem C18_manifest_reverse_involutive (m : Manifest) : m.reverse.reverse = m := by
  simp [Manifest.reverse]

/-- **`roll(n)` followed by `roll(-n)` restores the install order** (every `n ≥ 0`, every manifest). -/
theorem C18_manifest_roll_back (m : Manifest) (n : Nat) : (m.roll (n : Int)).roll (-(n : Int)) = m := by
  cases n with
  | zero => simp [Manifest.roll, rollList, iter]
  | succ k =>
    have h1 : ¬ (((k + 1 : Nat) : Int) < 0) := by omega
    have h2 : (-((k + 1 : Nat) : Int)) < 0 := by omega
    simp only [Manifest.roll, rollList, h1, h2, if_false, if_true, Int.natAbs_neg, Int.natAbs_natCast]
    rw [iter_right_left]

/-- `roll` keeps every entry: the rolled list is a permutation of the list (here: same length and same members) -/
theorem C18_manifest_roll_keeps_entries (m : Manifest) (n : Int) (d : Dep) :
    d ∈ (m.roll n).deps ↔ d ∈ m.deps := by
  have hl : ∀ (l : List Dep), d ∈ rollLeft1 l ↔ d ∈ l := by
    intro l; cases l with
    | nil => rfl
    | cons x r => simp [rollLeft1, or_comm]
  have hr : ∀ (l : List Dep), d ∈ rollRight1 l ↔ d ∈ l := by
    intro l
    unfold rollRight1
    cases h : l.reverse with
    | nil => simp [List.reverse_eq_nil_iff.mp h]
    | cons x r =>
      have : l = r.reverse ++ [x] := by
        have := congrArg List.reverse h; simpa using this
      subst this
      simp [or_comm]
  have hit : ∀ (f : List Dep → List Dep), (∀ l, d ∈ f l ↔ d ∈ l) → ∀ k l, d ∈ iter f k l ↔ d ∈ l := by
    intro f hf k
    induction k with
    | zero => intro l; rfl
    | succ k ih => intro l; rw [iter, ih, hf]
  simp only [Manifest.roll, rollList]
  split
  · exact hit _ hr _ _
  · exact hit _ hl _ _

/-- `getDependency(product)` with the default `which = -1` is the *last* entry of that product (install order) -/
theorem C18_manifest_getDependency_last (m : Manifest) (p : Str) :
    m.getDependency p none none (-1) = (m.deps.filter fun d => d.product == p).getLast? := by
  unfold Manifest.getDependency
  simp only [Option.isNone_none, Bool.true_or, Bool.and_true]
  cases h : m.deps.filter (fun d => d.product == p) with
  | nil => simp
  | cons x r =>
    have hn : ¬ ((-1 : Int) ≥ ((x :: r).length : Int)) := by simp; omega
    have hn2 : ¬ ((-1 : Int) < -((x :: r).length : Int)) := by simp; omega
    have hn3 : ¬ ((-1 : Int) ≥ 0) := by omega
    simp only [List.isEmpty_cons, Bool.false_eq_true, false_or, hn, hn2, hn3, if_false]
    have : (((x :: r).length : Int) + -1).toNat = (x :: r).length - 1 := by
      simp only [List.length_cons]; omega
    rw [this, List.getLast?_eq_getElem?]
    simp

/-- Non-vacuity: `[a, b, c, d]` rolled by 1 is `[b, c, d, a]`, by -1 `[d, a, b, c]`; two entries of `b`: the default
`getDependency` is the later one, `which = 0` the earlier. -/
example :
    let dep := fun (p v : String) => mkDep (Str.ofString p) (Str.ofString v) none none none none false false []
    let m : Manifest := { product := none, version := none, deps := [dep "a" "1", dep "b" "1", dep "c" "1", dep "b" "2"] }
    (m.roll 1).deps.map (·.product) = ["b", "c", "b", "a"].map Str.ofString ∧
      (m.roll (-1)).deps.map (·.product) = ["b", "a", "b", "c"].map Str.ofString ∧
      (m.getDependency (Str.ofString "b") none none (-1)).map (·.version) = some (Str.ofString "2") ∧
      (m.getDependency (Str.ofString "b") none none 0).map (·.version) = some (Str.ofString "1") ∧
      m.getDependency (Str.ofString "b") none none 2 = none := by
  decide

/-! ## the writers of the distrib types (`Repository.create` always passes `flavor=self.flavor`) -/

/-- **Through the tarball writer every entry keeps its own flavor, whatever `flavor=` it is called with.**  The
tarball type forces `flavor=None` before it calls `Manifest.write`: the text it deploys is the text written without
a `flavor=` argument, and the flavor column of every entry that has a flavor of its own is that flavor — a `generic`
dependency among `Linux` binaries stays `generic`. -/
theorem C18_tarball_writer_keeps_flavors (o : WriteOpts) (m : Manifest) :
    distribWriteManifest .tarball o m = distribWriteManifest .tarball { o with flavor := none } m ∧
      ∀ p f, p.flavor = some f → f ≠ [] → flavorCol (writerOpts .tarball o) (distribTable p) = f := by
  refine ⟨rfl, ?_⟩
  intro p f hf hne
  exact C18_manifest_keeps_flavor (writerOpts .tarball o) (distribTable p) f rfl (by simp [distribTable, hf]) hne

/-- the tarball writer's manifest is read back entry by entry with the flavors written (instance of the round trip) -/
theorem C18_tarball_writer_roundtrip (o : WriteOpts) (m : Manifest) (recurse : Bool)
    (hn : Tok o.native)
    (hprod : ∀ s, m.product = some s → Tok s) (hver : ∀ s, m.version = some s → Tok s)
    (hd : ∀ p ∈ written (writerOpts .tarball o) { m with deps := m.deps.map distribTable }, DepOk p) :
    read false recurse (distribWriteManifest .tarball o m) =
      .ok { product := some (m.product.getD sUNKNOWN), version := some (m.version.getD sGeneric),
            deps := (written (writerOpts .tarball o) { m with deps := m.deps.map distribTable }).map
              (roundDep (writerOpts .tarball o) recurse) } := by
  have := C18_manifest_roundtrip (writerOpts .tarball o) [] { m with deps := m.deps.map distribTable } recurse
    hn (by first | (simp [writerOpts, writerFlavor, OptTok, falsy]) | (simp [writerOpts, writerFlavor, OptTok]; rfl))
    hprod hver (by intro l hl; cases hl) hd
  exact this

/-- **The other writers forward the keyword (witness of the difference):** the same mixed-flavor manifest written with
`flavor=Linux` — through the tarball writer `scons` stays `generic`, through `DefaultDistrib.writeManifest` (builder,
pacman, eupspkg) `Manifest.write(flavor="Linux")` sets it to `Linux`. -/
theorem C18_default_writer_forwards_flavor_witness :
    let d1 : Dep := { product := Str.ofString "scons", version := Str.ofString "2.0", flavor := some sGeneric,
                      tablefile := none, instDir := none, distId := some (Str.ofString "scons-2.0.tar.gz") }
    let d2 : Dep := { product := Str.ofString "afw", version := Str.ofString "1.0", flavor := some (Str.ofString "Linux"),
                      tablefile := some (Str.ofString "afw.table"), instDir := some (Str.ofString "Linux/afw/1.0"),
                      distId := some (Str.ofString "afw-1.0.tar.gz") }
    let m : Manifest := { product := some (Str.ofString "top"), version := some (Str.ofString "1.0"), deps := [d1, d2] }
    let o : WriteOpts := { flavor := some (Str.ofString "Linux"), native := Str.ofString "Linux" }
    let t1 : Dep := { d1 with tablefile := some (Str.ofString "none"), instDir := some (Str.ofString "none") }
    let t2 : Dep := { d2 with tablefile := some (Str.ofString "afw-1.0.table") }
    (read false false (distribWriteManifest .tarball o m)).toOption =
        some { product := some (Str.ofString "top"), version := some (Str.ofString "1.0"), deps := [t1, t2] } ∧
      (read false false (distribWriteManifest .default o m)).toOption =
        some { product := some (Str.ofString "top"), version := some (Str.ofString "1.0"),
               deps := [{ t1 with flavor := some (Str.ofString "Linux") }, t2] } := by
  decide

/-! ## `Distrib._createDeps`: the dependency manifest is in install order -/

/-- **The product being packaged comes last.**  Whatever the dependency list: when `_createDeps` succeeds, the last
entry of the manifest is the top product itself (it is added first and `roll()` takes it to the end), and the entries
before it are exactly the listed dependencies, deepest first. -/
theorem C18_createdeps_top_last (top : Str × Str) (deps : List DepReq) (l : List (Str × Str × Bool))
    (h : createDepsOrder top deps = some l) :
    ∃ ds, listDeps (sortByDepth deps) = some ds ∧ l = ds ++ [(top.1, top.2, false)] := by
  unfold createDepsOrder at h
  cases hd : listDeps (sortByDepth deps) with
  | none => simp [hd] at h
  | some ds =>
    simp only [hd, Option.map_some, Option.some.injEq] at h
    refine ⟨ds, rfl, ?_⟩
    rw [← h]
    simp [rollList, iter, rollLeft1]

/-- the sort by depth is the stable one: of two dependencies of equal depth the one `getDependentProducts` listed first
stays first; a deeper one comes before a shallower one (on the example of a diamond with an optional leaf) -/
example :
    let d := fun (n : String) (depth : Nat) (opt : Bool) (found : Option String) =>
      ({ name := Str.ofString n, version := Str.ofString "1", optional := opt, depth := depth, found := found.map Str.ofString } : DepReq)
    createDepsOrder (Str.ofString "top", Str.ofString "1")
        [d "a" 2 false (some "1"), d "b" 2 false (some "1"), d "c" 3 false (some "1.1"), d "ghost" 3 true none, d "d" 3 true (some "1")] =
      some [(Str.ofString "c", Str.ofString "1.1", false), (Str.ofString "d", Str.ofString "1", true),
            (Str.ofString "a", Str.ofString "1", false), (Str.ofString "b", Str.ofString "1", false),
            (Str.ofString "top", Str.ofString "1", false)] ∧
      createDepsOrder (Str.ofString "top", Str.ofString "1") [d "a" 2 false none] = none := by
  decide

/-! ## tag lists as live objects: `mergeProductList` -/

/-- every listed product has its `[flavor, version, …]` record (what `addProduct` maintains) -/
def WFList (t : TagList) : Prop := ∀ p ∈ t.products, ∃ fl ver ex, assocGet t.info p = some (fl :: ver :: ex)

theorem addProduct_info_same (t : TagList) (p v : Str) (fl : Str) (ex : List Str) :
    (t.addProduct p v (some fl) ex).getProductInfo p = some (fl :: v :: ex) := by
  simp [TagList.addProduct, TagList.getProductInfo, assocGet_assocSet_same]

theorem addProduct_info_other (t : TagList) (p v : Str) (fl : Option Str) (ex : List Str) (q : Str) (h : q ≠ p) :
    (t.addProduct p v fl ex).getProductInfo q = t.getProductInfo q := by
  simp [TagList.addProduct, TagList.getProductInfo, assocGet_assocSet_other _ _ _ _ h]

/-- **`mergeProductList` takes the other list's entries and keeps the rest.**  For every list `t` and every
well-formed list `o`: after `t.mergeProductList(o)` each product of `o` has, in `t`, exactly the record it has in `o`
(flavor, version, extra words), and what `t` says about any other product is unchanged. -/
theorem C18_taglist_merge (t o : TagList) (hwf : WFList o) (q : Str) :
    (t.mergeProductList o).getProductInfo q =
      if q ∈ o.products then o.getProductInfo q else t.getProductInfo q := by
  unfold TagList.mergeProductList TagList.getProducts
  have key : ∀ (ps : List Str) (t : TagList), (∀ p ∈ ps, ∃ fl ver ex, assocGet o.info p = some (fl :: ver :: ex)) →
      ((ps.map fun p => p :: (assocGet o.info p).getD []).foldl (fun t row =>
          match row with
          | p :: fl :: ver :: extra => t.addProduct p ver (some fl) extra
          | _ => t) t).getProductInfo q =
        if q ∈ ps then o.getProductInfo q else t.getProductInfo q := by
    intro ps
    induction ps with
    | nil => intro t _; simp
    | cons p rest ih =>
      intro t hps
      obtain ⟨fl, ver, ex, hinfo⟩ := hps p (by simp)
      simp only [List.map_cons, List.foldl_cons, hinfo, Option.getD_some]
      rw [ih _ (fun r hr => hps r (by simp [hr]))]
      by_cases hq : q ∈ rest
      · simp [hq]
      · by_cases hqp : q = p
        · subst hqp
          have h1 := addProduct_info_same t q ver fl ex
          simp only [TagList.getProductInfo] at h1
          simp [hq, TagList.getProductInfo, hinfo, h1]
        · simp [hq, hqp, addProduct_info_other _ _ _ _ _ _ hqp]
  exact key o.products t hwf

/-- `addProduct` keeps a list well formed, so every list built by the API is -/
theorem C18_taglist_wf_add (t : TagList) (h : WFList t) (p v : Str) (fl : Option Str) (ex : List Str) :
    WFList (t.addProduct p v fl ex) := by
  intro q hq
  by_cases hqp : q = p
  · subst hqp
    exact ⟨fl.getD t.flavor, v, ex, by simp [TagList.addProduct, assocGet_assocSet_same]⟩
  · have hq' : q ∈ t.products := by
      simp only [TagList.addProduct] at hq
      split at hq
      · exact hq
      · rcases List.mem_append.mp hq with h1 | h1
        · exact h1
        · simp at h1; exact absurd h1 hqp
    obtain ⟨a, b, c, hi⟩ := h q hq'
    exact ⟨a, b, c, by simp [TagList.addProduct, assocGet_assocSet_other _ _ _ _ hqp, hi]⟩

/-- Non-vacuity: `afw` is updated from the other list, `python` comes in, `boost` stays. -/
example :
    let t := ((TagList.empty (Str.ofString "current") (some (Str.ofString "Linux"))).addProduct (Str.ofString "afw")
      (Str.ofString "1.0") none []).addProduct (Str.ofString "boost") (Str.ofString "1.4") none []
    let o := ((TagList.empty (Str.ofString "current") none).addProduct (Str.ofString "python")
      (Str.ofString "2.6") (some (Str.ofString "Linux64")) [Str.ofString "x"]).addProduct (Str.ofString "afw") (Str.ofString "2.0") none []
    (t.mergeProductList o).getProducts =
      [[Str.ofString "afw", sGeneric, Str.ofString "2.0"], [Str.ofString "boost", Str.ofString "Linux", Str.ofString "1.4"],
       [Str.ofString "python", Str.ofString "Linux64", Str.ofString "2.6", Str.ofString "x"]] := by
  decide

/-! ## the `dummy` branch of `remapEntries` -/

/-- an entry that makes `remapEntries` look for (and, if it is missing, declare) the product `pn` in version `dummy`:
the mapping changes the entry, and the new version is the word `dummy` -/
def DummyTrigger (m : Mapping) (fl : Str) (d : Dep) (pn : Str) : Prop :=
  m.apply d.product d.version fl = (pn, some sDummy) ∧ (pn, sDummy) ≠ (d.product, d.version)

/-- **`remapEntries` declares exactly the missing `dummy` products its table names.**  For every mapping, flavor,
set of already declared `dummy` products and manifest: a product is declared iff it was not declared before and
some entry of the manifest is changed by the mapping into that product at version `dummy`; entries deleted, left
alone, changed into another version, or already at that `product dummy` declare nothing, and neither does a name
that `Eups.declare` refuses (`legalName`). -/
theorem C18_dummy_declares_exact (m : Mapping) (fl : Str) (deps : List Dep) : ∀ (known : List Str) (pn : Str),
    pn ∈ dummyDeclares m fl known deps ↔ pn ∉ known ∧ legalName pn = true ∧ ∃ d ∈ deps, DummyTrigger m fl d pn := by
  induction deps with
  | nil => intro known pn; simp [dummyDeclares]
  | cons d rest ih =>
    intro known pn
    unfold dummyDeclares
    rcases hr : m.apply d.product d.version fl with ⟨qn, _ | vn⟩
    · -- deleted
      simp only [ih known pn, List.mem_cons, exists_eq_or_imp]
      constructor
      · rintro ⟨h1, hl, h2⟩; exact ⟨h1, hl, Or.inr h2⟩
      · rintro ⟨h1, hl, h2 | h2⟩
        · exact absurd h2.1 (by rw [hr]; simp)
        · exact ⟨h1, hl, h2⟩
    · by_cases hc : ((qn, vn) != (d.product, d.version) && vn == sDummy && !known.contains qn && legalName qn) = true
      · simp only [hc, if_true, List.mem_cons, ih (known ++ [qn]) pn, exists_eq_or_imp]
        simp only [Bool.and_eq_true, bne_iff_ne, ne_eq, beq_iff_eq, Bool.not_eq_true', List.contains_eq_mem,
          decide_eq_false_iff_not] at hc
        obtain ⟨⟨⟨hne, hv⟩, hk⟩, hleg⟩ := hc
        subst hv
        have htrig : DummyTrigger m fl d qn := ⟨hr, hne⟩
        constructor
        · rintro (h | ⟨h1, hl, h2⟩)
          · subst h; exact ⟨hk, hleg, Or.inl htrig⟩
          · exact ⟨fun hm => h1 (by simp [hm]), hl, Or.inr h2⟩
        · rintro ⟨h1, hl, h2 | h2⟩
          · left
            have := h2.1; rw [hr] at this
            exact (Prod.mk.inj this).1.symm
          · by_cases he : pn = qn
            · left; exact he
            · right; exact ⟨by simpa [he] using h1, hl, h2⟩
      · have hc' : ((qn, vn) != (d.product, d.version) && vn == sDummy && !known.contains qn && legalName qn) = false := by
          simpa using hc
        simp only [hc', Bool.false_eq_true, if_false, ih known pn, List.mem_cons, exists_eq_or_imp]
        constructor
        · rintro ⟨h1, hl, h2⟩; exact ⟨h1, hl, Or.inr h2⟩
        · rintro ⟨h1, hl, h2 | h2⟩
          · exfalso
            have h3 := h2.1; rw [hr] at h3
            obtain ⟨e1, e2⟩ := Prod.mk.inj h3
            have e2' : vn = sDummy := Option.some.inj e2
            subst e1; subst e2'
            have : ((qn, sDummy) != (d.product, d.version) && sDummy == sDummy && !known.contains qn && legalName qn) = true := by
              simp only [Bool.and_eq_true, bne_iff_ne, ne_eq, beq_self_eq_true, Bool.not_eq_true', List.contains_eq_mem,
                decide_eq_false_iff_not, and_true]
              exact ⟨⟨h2.2, h1⟩, hl⟩
            rw [this] at hc'; cases hc'
          · exact ⟨h1, hl, h2⟩

/-- no product is declared twice in one call -/
theorem C18_dummy_declares_nodup (m : Mapping) (fl : Str) (deps : List Dep) : ∀ known : List Str,
    (dummyDeclares m fl known deps).Nodup := by
  induction deps with
  | nil => intro _; simp [dummyDeclares]
  | cons d rest ih =>
    intro known
    unfold dummyDeclares
    rcases hr : m.apply d.product d.version fl with ⟨qn, _ | vn⟩
    · exact ih known
    · simp only
      split
      · refine List.nodup_cons.mpr ⟨?_, ih _⟩
        intro hmem
        have := (C18_dummy_declares_exact m fl rest (known ++ [qn]) qn).mp hmem
        exact this.1 (by simp)
      · exact ih known

/-- Non-vacuity (the example of the code's own documentation): `tcltk:any -> dummy:1.0` does not trigger the branch
(the version is `1.0`), `tcltk:any -> tcltk:dummy` and `afw:1.0 -> stub:dummy` do; `stub` is declared once although
two entries name it; a product already declared is not declared again. -/
example :
    let m := buildMapping false [
      { inP := Str.ofString "tcltk", inV := sAny, outP := none, outV := some sDummy, flavor := sGeneric },
      { inP := Str.ofString "afw", inV := Str.ofString "1.0", outP := some (Str.ofString "stub"), outV := some sDummy, flavor := sGeneric },
      { inP := Str.ofString "utils", inV := sAny, outP := some (Str.ofString "stub"), outV := some sDummy, flavor := sGeneric },
      { inP := Str.ofString "tk", inV := sAny, outP := some sDummy, outV := some (Str.ofString "1.0"), flavor := sGeneric }]
    let dep := fun (p v : String) => mkDep (Str.ofString p) (Str.ofString v) none none none none false false []
    let deps := [dep "tcltk" "8.5", dep "afw" "1.0", dep "utils" "2.0", dep "tk" "8.5", dep "python" "2.6"]
    dummyDeclares m (Str.ofString "Linux") [] deps = [Str.ofString "tcltk", Str.ofString "stub"] ∧
      dummyDeclares m (Str.ofString "Linux") [Str.ofString "stub"] deps = [Str.ofString "tcltk"] := by
  decide

/-! ## inverse -/

/-- one-to-one: no two entries of the table (of one flavor) have the same image -/
def OneToOne (m : Mapping) : Prop := (entries m.map).Pairwise (fun a b => outKey a ≠ outKey b)

/-- explicit: no entry is a removal, products are named, in-versions are genuine versions -/
def Explicit (m : Mapping) : Prop := ∀ e ∈ entries m.map, EntryOk e

/-- **C18, inverse.**  For a one-to-one mapping of explicit versions `inverse()` succeeds, and for every entry
`p:v -> q:w` of the table of a flavor `f` the inverse's table of that flavor takes `q:w` back to `p:v`
(`apply1` is `Mapping._apply`, the look-up in one flavor's table). -/
theorem C18_inverse (m : Mapping) (h1 : OneToOne m) (h2 : Explicit m) :
    ∃ inv, m.inverse = some inv ∧
      ∀ f p v q w, lk m.map f p v = some (q, some w) →
        m.apply1 p v f = (q, some w) ∧ inv.apply1 q w f = (p, some v) := by
  obtain ⟨inv, hfold, himg, _⟩ := fold_stepInv (entries m.map) {} h1 h2
    (fun _ _ _ _ => by simp [lk, prodTable, assocGet])
  refine ⟨inv, by rw [inverse_eq_fold]; exact hfold, ?_⟩
  intro f p v q w hlk
  refine ⟨apply1_of_lk m p v f _ hlk, ?_⟩
  have hmem := mem_entries_of_lk m.map f p v q (some w) hlk
  exact apply1_of_lk inv q w f _ (himg _ hmem w rfl)

/-- for the `generic` table `apply` is that look-up: the inverse undoes the mapping -/
theorem C18_inverse_generic (m : Mapping) (h1 : OneToOne m) (h2 : Explicit m) :
    ∃ inv, m.inverse = some inv ∧
      ∀ p v q w, lk m.map sGeneric p v = some (q, some w) →
        m.apply p v sGeneric = (q, some w) ∧ inv.apply q w sGeneric = (p, some v) := by
  obtain ⟨inv, hinv, h⟩ := C18_inverse m h1 h2
  refine ⟨inv, hinv, ?_⟩
  intro p v q w hlk
  have := h sGeneric p v q w hlk
  simpa [Mapping.apply] using this

/-- Non-vacuity: a chain `a:1 -> b:2`, `b:2 -> c:3` and a version bump `x:1.0 -> x:2.0` is one-to-one and explicit;
`a:1 -> c:1` together with `b:1 -> c:1` is not, and `inverse()` raises. -/
example :
    let m := buildMapping false [
      { inP := [97], inV := [49], outP := some [98], outV := some [50], flavor := sGeneric },
      { inP := [98], inV := [50], outP := some [99], outV := some [51], flavor := sGeneric },
      { inP := [120], inV := Str.ofString "1.0", outP := none, outV := some (Str.ofString "2.0"), flavor := sGeneric }]
    OneToOne m ∧ Explicit m ∧ lk m.map sGeneric [97] [49] = some ([98], some [50]) := by
  unfold OneToOne Explicit
  decide

example :
    (buildMapping false [
      { inP := [97], inV := [49], outP := some [99], outV := some [49], flavor := sGeneric },
      { inP := [98], inV := [49], outP := some [99], outV := some [49], flavor := sGeneric }]).inverse.isNone = true := by
  decide

/-- **C18, inverse, at the level of `Mapping.apply` (with the `generic` fallback in both directions).**  For a
one-to-one mapping of explicit versions and *every* flavor `f`: each entry `p:v -> q:w` of the table of `f` that is
not an identity is applied by `apply` — not only by the per-flavor look-up — and `inverse().apply` takes `q:w` back
to `p:v`.  (An identity entry `p:v -> p:v` of a flavor table makes `apply` consult the `generic` table, in the
mapping and in its inverse: `C18_inverse_identity_witness`.) -/
theorem C18_inverse_apply (m : Mapping) (h1 : OneToOne m) (h2 : Explicit m) :
    ∃ inv, m.inverse = some inv ∧
      ∀ f p v q w, lk m.map f p v = some (q, some w) → (p, v) ≠ (q, w) →
        m.apply p v f = (q, some w) ∧ inv.apply q w f = (p, some v) := by
  obtain ⟨inv, hinv, h⟩ := C18_inverse m h1 h2
  refine ⟨inv, hinv, ?_⟩
  intro f p v q w hlk hne
  obtain ⟨ha, hb⟩ := h f p v q w hlk
  have hne1 : ((q, some w) : Str × Option Str) ≠ (p, some v) := by
    intro e; apply hne; cases e; rfl
  have hne2 : ((p, some v) : Str × Option Str) ≠ (q, some w) := fun e => hne1 e.symm
  constructor
  · unfold Mapping.apply
    simp only [ha]
    have : (((q, some w) : Str × Option Str) == (p, some v)) = false := by simpa using hne1
    simp [this]
  · unfold Mapping.apply
    simp only [hb]
    have : (((p, some v) : Str × Option Str) == (q, some w)) = false := by simpa using hne2
    simp [this]

/-- **C18, inverse, on a live mapping.**  `inverse()` is a function of the mapping as it is when it is called: after
*any* sequence of `add` and `merge` operations on a mapping object — in particular after the rules of
`manifest.remap` have been merged into a mapping whose inverse had been taken before (`Repository.create`) — the
inverse taken *now* undoes the mapping as it is *now*, whenever that is one-to-one on explicit versions. -/
theorem C18_inverse_live (ops : List MapOp) (m0 : Mapping)
    (h1 : OneToOne (runOps ops m0)) (h2 : Explicit (runOps ops m0)) :
    ∃ inv, (runOps ops m0).inverse = some inv ∧
      ∀ f p v q w, lk (runOps ops m0).map f p v = some (q, some w) → (p, v) ≠ (q, w) →
        (runOps ops m0).apply p v f = (q, some w) ∧ inv.apply q w f = (p, some v) :=
  C18_inverse_apply (runOps ops m0) h1 h2

/-- Non-vacuity: `a:1 -> b:4`, inverse taken, then `c:2 -> d:5` merged in: the second inverse knows both entries, the
first one only the first. -/
example :
    let r1 : Rule := { inP := [97], inV := [49], outP := some [98], outV := some [52], flavor := sGeneric }
    let r2 : Rule := { inP := [99], inV := [50], outP := some [100], outV := some [53], flavor := sGeneric }
    let m1 := runOps [.add r1 true] {}
    let m2 := runOps [.add r1 true, .merge (buildMapping false [r2]) false] {}
    OneToOne m2 ∧ Explicit m2 ∧
      (m1.inverse.map fun i => i.apply [100] [53] sGeneric) = some ([100], some [53]) ∧
      (m2.inverse.map fun i => (i.apply [100] [53] sGeneric, i.apply [98] [52] sGeneric)) =
        some (([99], some [50]), ([97], some [49])) := by
  unfold OneToOne Explicit
  decide

/-- **The hypothesis "not an identity" is needed at the level of `apply` (negation witness).**  The `Linux` table
holds the identity `a:1 -> a:1`, the `generic` table `c:3 -> a:1`: the mapping is one-to-one (per flavor, as
`inverse()` tests it) and explicit, `inverse()` succeeds, `apply` leaves `a:1` alone under `Linux` — and the
inverse's `apply` takes `a:1` to `c:3`, because the identity makes it fall through to the `generic` table. -/
theorem C18_inverse_identity_witness :
    let m := buildMapping false [
      { inP := [97], inV := [49], outP := some [97], outV := some [49], flavor := Str.ofString "Linux" },
      { inP := [99], inV := [51], outP := some [97], outV := some [49], flavor := sGeneric }]
    OneToOne m ∧ Explicit m ∧ m.apply [97] [49] (Str.ofString "Linux") = ([97], some [49]) ∧
      (m.inverse.map fun inv => inv.apply [97] [49] (Str.ofString "Linux")) = some ([99], some [51]) := by
  unfold OneToOne Explicit
  decide

/-- **"One-to-one" is needed (negation witness):** two entries of one flavor with the same image — `inverse()`
raises (`none`); with the second entry under another flavor the mapping is one-to-one per flavor and the inverse
exists. -/
theorem C18_inverse_needs_one_to_one :
    let r1 : Rule := { inP := [97], inV := [49], outP := some [99], outV := some [49], flavor := sGeneric }
    let r2 : Rule := { inP := [98], inV := [49], outP := some [99], outV := some [49], flavor := sGeneric }
    ¬ OneToOne (buildMapping false [r1, r2]) ∧ Explicit (buildMapping false [r1, r2]) ∧
      (buildMapping false [r1, r2]).inverse.isNone = true ∧
      OneToOne (buildMapping false [r1, { r2 with flavor := Str.ofString "Linux" }]) ∧
      (buildMapping false [r1, { r2 with flavor := Str.ofString "Linux" }]).inverse.isSome = true := by
  unfold OneToOne Explicit
  decide

/-- no entry is a wildcard: every in-version is a version, not the word `any` -/
def NoAny (m : Mapping) : Prop := ∀ e ∈ entries m.map, e.2.2.1 ≠ sAny

/-- **C18, inverse, for every product and version (not only for the table's own keys).**  For a one-to-one mapping
of explicit versions without wildcards, every flavor `f`, every product `p` and *every* version `v`: if the table of
`f` changes `p:v` into `q:w`, the inverse's table of `f` changes `q:w` back into `p:v`. -/
theorem C18_inverse_undoes_changes (m : Mapping) (h1 : OneToOne m) (h2 : Explicit m) (h3 : NoAny m) :
    ∃ inv, m.inverse = some inv ∧
      ∀ f p v q w, m.apply1 p v f = (q, some w) → (q, w) ≠ (p, v) → inv.apply1 q w f = (p, some v) := by
  obtain ⟨inv, hinv, h⟩ := C18_inverse m h1 h2
  refine ⟨inv, hinv, ?_⟩
  intro f p v q w ha hne
  rw [apply1_eq] at ha
  cases hp : prodTable m.map f p with
  | none =>
    simp only [hp] at ha
    exact absurd (by cases ha; rfl) hne
  | some byV =>
    simp only [hp] at ha
    split at ha
    · cases ha
    · cases hv : assocGet byV v with
      | some r =>
        simp only [hv] at ha
        have hlk : lk m.map f p v = some (q, some w) := by simp [lk, hp, hv, ha]
        exact (h f p v q w hlk).2
      | none =>
        simp only [hv] at ha
        cases hany : assocGet byV sAny with
        | some r =>
          exfalso
          have hlk : lk m.map f p sAny = some (r.1, r.2) := by simp [lk, hp, hany]
          exact h3 _ (mem_entries_of_lk m.map f p sAny r.1 r.2 hlk) rfl
        | none =>
          simp only [hany] at ha
          exact absurd (by cases ha; rfl) hne

/-- **"No wildcard" is needed (negation witness):** `a:any -> b:2` is one-to-one and explicit, `inverse()` succeeds,
`apply` takes `a:1` to `b:2` — and the inverse takes `b:2` to `a:any`, not back to `a:1`. -/
theorem C18_inverse_needs_no_any :
    let m := buildMapping false [{ inP := [97], inV := sAny, outP := some [98], outV := some [50], flavor := sGeneric }]
    OneToOne m ∧ Explicit m ∧ ¬ NoAny m ∧ m.apply [97] [49] sGeneric = ([98], some [50]) ∧
      (m.inverse.map fun inv => inv.apply [98] [50] sGeneric) = some ([97], some sAny) := by
  unfold OneToOne Explicit NoAny
  decide

/-- Non-vacuity of `C18_inverse_undoes_changes`: a chain and a version bump, no wildcard. -/
example :
    let m := buildMapping false [
      { inP := [97], inV := [49], outP := some [98], outV := some [50], flavor := sGeneric },
      { inP := [98], inV := [50], outP := some [99], outV := some [51], flavor := sGeneric },
      { inP := [120], inV := Str.ofString "1.0", outP := none, outV := some (Str.ofString "2.0"), flavor := sGeneric }]
    OneToOne m ∧ Explicit m ∧ NoAny m ∧ m.apply1 [97] [49] sGeneric = ([98], some [50]) := by
  unfold OneToOne Explicit NoAny
  decide

/-! ## the server side: `DistribServer.getTaggedProductList` / `getTaggedProductInfo` and their cache -/

/-- **The answers of a server object do not depend on what it was asked before.**  Whatever the files on the server
and whatever the history of requests (any tags, any flavors, in any order, with repetitions), every answer is the
answer a fresh server object gives: the cache, keyed by (tag, flavor), only saves work. -/
theorem C18_server_history_independent (files : List (Str × Str)) (history : List Req) (r : Req) :
    (serve1 false files (cacheAfter false files [] history) r).1 = (serve1 false files [] r).1 := by
  rw [(serve1_spec files _ r (cacheAfter_ok files history [] (cacheOk_nil files))).1, serve1_fresh]

/-- the whole sequence of answers is the request-by-request sequence of fresh answers -/
theorem C18_server_answers (files : List (Str × Str)) (reqs : List Req) :
    serve false files [] reqs = reqs.map fun r => (serve1 false files [] r).1 := by
  rw [serve_eq_fresh files reqs [] (cacheOk_nil files)]
  apply List.map_congr_left
  intro r _
  rw [serve1_fresh]

/-- **A tagged release read back through the server is the per-flavor filter of the written list**, after any
history: the request for flavor `F` is answered with the entries of flavor `F` or `generic` (as `F`), in sorted order. -/
theorem C18_server_flavor_filter (t : TagList) (fa : Option Str) (F : Str) (comments : List Str) (history : List Req)
    (htag : ∀ c ∈ t.tag, c ≠ 10 ∧ c ≠ 13)
    (hc : ∀ l ∈ comments, isBlankOrComment l = true ∧ ∀ c ∈ l, c ≠ 10 ∧ c ≠ 13)
    (hnd : t.products.Nodup)
    (hok : ∀ p ∈ t.products, TagEntryOk fa p ((assocGet t.info p).getD [])) :
    (serve1 false [(t.tag, t.write fa comments)] (cacheAfter false [(t.tag, t.write fa comments)] [] history)
        (Req.list t.tag (some F))).1 =
      Ans.products ((sortStrs t.products).filterMap fun p => keepEntry fa F p ((assocGet t.info p).getD [])) := by
  rw [C18_server_history_independent, serve1_fresh]
  obtain ⟨r, hr, hg⟩ := C18_taglist_roundtrip t fa F comments htag hc hnd hok
  simp only [freshAnswer, Req.tag, Req.flavor, parseList, assocGet, if_true, hr, answerFrom, hg]

/-- **The flavor in the cache key is necessary (negation witness for a cache keyed by the tag alone):** a release with
a Linux and a Linux64 entry; asked first for Linux64 and then for Linux, the tag-keyed server answers the second
request with the Linux64 list, while the (tag, flavor)-keyed one answers it like a fresh server. -/
theorem C18_server_tag_only_witness :
    let t := ((TagList.empty (Str.ofString "current") (some (Str.ofString "Linux"))).addProduct (Str.ofString "afw")
      (Str.ofString "1.0") none []).addProduct (Str.ofString "boost") (Str.ofString "2.0") (some (Str.ofString "Linux64")) []
    let files := [(Str.ofString "current", t.write none [])]
    let reqs := [Req.list (Str.ofString "current") (some (Str.ofString "Linux64")),
                 Req.list (Str.ofString "current") (some (Str.ofString "Linux"))]
    serve false files [] reqs =
        [Ans.products [[Str.ofString "boost", Str.ofString "Linux64", Str.ofString "2.0"]],
         Ans.products [[Str.ofString "afw", Str.ofString "Linux", Str.ofString "1.0"]]] ∧
      serve true files [] reqs =
        [Ans.products [[Str.ofString "boost", Str.ofString "Linux64", Str.ofString "2.0"]],
         Ans.products [[Str.ofString "boost", Str.ofString "Linux64", Str.ofString "2.0"]]] := by
  decide

/-! ## the server side: files handed out by `DistribServer.getFile` / `cacheFile` -/

theorem mem_assocSet {β : Type} (l : List (Str × β)) (k : Str) (v : β) (x : Str × β) (h : x ∈ assocSet l k v) :
    x = (k, v) ∨ x ∈ l := by
  induction l with
  | nil => simp [assocSet] at h; exact Or.inl h
  | cons q r ih =>
    obtain ⟨k', v'⟩ := q
    by_cases hk : k' = k
    · simp only [assocSet, hk, if_true, List.mem_cons] at h
      rcases h with h | h
      · exact Or.inl h
      · exact Or.inr (by simp [h])
    · simp only [assocSet, hk, if_false, List.mem_cons] at h
      rcases h with h | h
      · exact Or.inr (by simp [h])
      · rcases ih h with h1 | h1
        · exact Or.inl h1
        · exact Or.inr (by simp [h1])

theorem assocGet_none_not_mem {β : Type} (l : List (Str × β)) (k : Str) (h : assocGet l k = none) :
    ∀ x ∈ l, x.1 ≠ k := by
  induction l with
  | nil => intro x hx; cases hx
  | cons q r ih =>
    obtain ⟨k', v'⟩ := q
    by_cases hk : k' = k
    · simp [assocGet, hk] at h
    · simp only [assocGet, hk, if_false] at h
      intro x hx
      rcases List.mem_cons.mp hx with rfl | hx
      · exact hk
      · exact ih h x hx

/-- what a fresh server object answers for a path -/
def freshFile (server : List (Str × Str)) (path : Str) : FileAns :=
  match assocGet server path with
  | some c => .content c
  | none => .notFound

/-- the cache is sound: every source it knows is held, with the server's content, by the local file it names -/
def CacheSound (server : List (Str × Str)) (s : FileSrv) : Prop :=
  ∀ x ∈ s.cache, ∃ c, assocGet server x.1 = some c ∧ assocGet s.files x.2 = some c

theorem getFile_sound (server : List (Str × Str)) (s : FileSrv) (path dest : Str) (h : CacheSound server s) :
    (getFile false server s path dest).1 = freshFile server path ∧
      CacheSound server (getFile false server s path dest).2 := by
  have h1 : CacheSound server { s with cache := s.cache.filter fun p => !(p.2 == dest && p.1 != path) } := by
    intro x hx
    exact h x (List.mem_filter.mp hx).1
  have hfil : ∀ x ∈ s.cache.filter (fun p => !(p.2 == dest && p.1 != path)), x.2 = dest → x.1 = path := by
    intro x hx hd
    have := (List.mem_filter.mp hx).2
    simp only [hd, beq_self_eq_true, Bool.true_and, Bool.not_eq_true', bne_eq_false_iff_eq] at this
    exact this
  unfold getFile
  simp only [Bool.false_eq_true, if_false]
  cases hc : assocGet (s.cache.filter fun p => !(p.2 == dest && p.1 != path)) path with
  | some f =>
    have hmem := assocGet_mem _ path f hc
    obtain ⟨c, hs, hf⟩ := h1 (path, f) hmem
    by_cases hfd : f = dest
    · subst hfd
      simp only [beq_self_eq_true, if_true, Bool.false_eq_true, if_false]
      exact ⟨by simp [hf, freshFile, hs], h1⟩
    · have : (f == dest) = false := by simpa using hfd
      simp only [this, Bool.false_eq_true, if_false]
      refine ⟨by simp [hf, freshFile, hs], ?_⟩
      intro x hx
      obtain ⟨c', hs', hf'⟩ := h1 x hx
      by_cases hxd : x.2 = dest
      · have hxp := hfil x hx hxd
        refine ⟨c, by rw [hxp]; exact hs, ?_⟩
        simp [hxd, hf, assocGet_assocSet_same]
      · exact ⟨c', hs', by simp only []; rw [assocGet_assocSet_other _ _ _ _ hxd]; exact hf'⟩
  | none =>
    simp only
    cases hsrv : assocGet server path with
    | none => exact ⟨by simp [freshFile, hsrv], h1⟩
    | some c =>
      refine ⟨by simp [freshFile, hsrv], ?_⟩
      intro x hx
      rcases mem_assocSet _ _ _ _ hx with rfl | hx'
      · exact ⟨c, hsrv, by simp [assocGet_assocSet_same]⟩
      · obtain ⟨c', hs', hf'⟩ := h1 x hx'
        have hxp : x.1 ≠ path := assocGet_none_not_mem _ path hc x hx'
        have hxd : x.2 ≠ dest := fun hd => hxp (hfil x hx' hd)
        exact ⟨c', hs', by simp only []; rw [assocGet_assocSet_other _ _ _ _ hxd]; exact hf'⟩

/-- **The file a server object hands out for a path holds what the server holds under that path — whatever was
requested before and wherever the copies were put** (repaired `cacheFile`, D60): every answer of a history of
`getFile(path, filename=dest)` requests, with destinations reused at will, is the answer of a fresh server object. -/
theorem C18_server_file_history_independent (server : List (Str × Str)) (reqs : List (Str × Str)) :
    getFiles false server {} reqs = reqs.map fun r => freshFile server r.1 := by
  have key : ∀ (reqs : List (Str × Str)) (s : FileSrv), CacheSound server s →
      getFiles false server s reqs = reqs.map fun r => freshFile server r.1 := by
    intro reqs
    induction reqs with
    | nil => intro s _; rfl
    | cons r rest ih =>
      intro s hs
      obtain ⟨p, d⟩ := r
      have := getFile_sound server s p d hs
      simp only [getFiles, List.map_cons, this.1, ih _ this.2]
  exact key reqs {} (by intro x hx; cases hx)

/-- **D60, pinned tree (negation witness):** `afw.table` fetched into a scratch file, `boost.table` fetched into the
same scratch file, `afw.table` asked for again: the pinned cache hands out `boost.table`'s text; the same file asked
for twice into one destination raises `SameFileError`. -/
theorem C18_server_file_pinned_witness :
    let server := [(Str.ofString "tables/afw.table", Str.ofString "A"), (Str.ofString "tables/boost.table", Str.ofString "B")]
    let a := Str.ofString "tables/afw.table"
    let b := Str.ofString "tables/boost.table"
    getFiles true server {} [(a, Str.ofString "scratch"), (b, Str.ofString "scratch"), (a, Str.ofString "other")] =
        [.content (Str.ofString "A"), .content (Str.ofString "B"), .content (Str.ofString "B")] ∧
      getFiles true server {} [(a, Str.ofString "scratch"), (a, Str.ofString "scratch")] =
        [.content (Str.ofString "A"), .sameFile] ∧
      getFiles false server {} [(a, Str.ofString "scratch"), (b, Str.ofString "scratch"), (a, Str.ofString "other"),
                                (a, Str.ofString "other")] =
        [.content (Str.ofString "A"), .content (Str.ofString "B"), .content (Str.ofString "A"), .content (Str.ofString "A")] := by
  decide

end EupsModel.C18
