import EupsModel.Lemmas.LockEx
import EupsModel.Lemmas.LockRes
import EupsModel.Lemmas.LockAtomic
import EupsModel.Lemmas.LockPath
import EupsModel.Lemmas.LockRace
/-! C09 — the PINNED lock protocol (`Model/Lock.lean`: the tree before our repair of D12a/b/c, with the repairs of D12d/e).
The code no longer behaves like this; these theorems are kept because they say exactly what was wrong (the three race
witnesses, the classification of every violation by a race) and what held all the same.  The theorems about the code as
it is now are in `Props/C09.lean`.  Original header:

C09 — exclusive database locks exclude every other holder under all interleavings.

Property theorems only.  Model: `Model/Lock.lean` (one transition = one file-system call of one process, in the
order `lock.py` issues them).  Helper lemmas: `Lemmas/LockStep.lean`, `Lemmas/LockEx.lean`.

The property as stated — `Mutex` in every reachable state, for every configuration and schedule — is FALSE of the
protocol (`C09_mutex_false_Pinned`, from three concrete races, the known findings D12a/b/c).  What is proved instead is
stated below with its hypothesis named. -/
namespace EupsModel.C09
open EupsModel.Lock

/-- The property's first sentence, as stated: in every reachable state of every configuration. -/
def MutexAlwaysPinned : Prop :=
  ∀ (kind : Pid → Kind) (lp : Pid → Option Pid) (tries : Pid → Nat) (sched : List Pid),
    Mutex (run (init kind lp tries) sched)

/-! ### exclusive requesters only (hypothesis: every request is exclusive and nobody re-enters a parent's lock) -/

/-- Any number of updaters, any `ntry`, every interleaving of their file-system calls: never two of them between the
return of `takeLocks` and the call of `giveLocks`, and `Mutex` holds. -/
theorem C09_mutex_exclusive_only_Pinned (kind : Pid → Kind) (lp : Pid → Option Pid) (tries : Pid → Nat)
    (hk : ∀ i, kind i = .ex) (hl : ∀ i, lp i = none) (sched : List Pid) :
    (∀ i j, (run (init kind lp tries) sched).pc i = .hold → (run (init kind lp tries) sched).pc j = .hold → i = j)
    ∧ Mutex (run (init kind lp tries) sched) := by
  have h := exInv_run _ (exInv_init kind lp tries hk hl) sched
  refine ⟨fun i j hi hj => h.uniq i j (by simp [hi, inside]) (by simp [hj, inside]), ?_⟩
  intro i j hij _ hi _
  cases hb : inBody ((run (init kind lp tries) sched).pc j) with
  | false => rfl
  | true =>
    have hj : (run (init kind lp tries) sched).pc j = .hold ∨ (run (init kind lp tries) sched).pc j = .unlocked := by
      cases hpc : (run (init kind lp tries) sched).pc j <;> simp_all [inBody]
    cases hj with
    | inl hj => exact absurd (h.uniq i j (by simp [hi, inside]) (by simp [hj, inside])) hij
    | inr hj => exact absurd hj (h.noSh j).2.2.1

/-- non-vacuity: three updaters with two attempts each; one of them holds, one has been refused for good -/
example :
    let s := run (init (fun _ => .ex) (fun _ => none) (fun _ => 1)) [0, 0, 0, 1, 1, 1, 1, 1, 1, 2]
    s.pc 0 = .hold ∧ s.pc 1 = .failedAcq .runtime ∧ s.pc 2 = .scanAll 1 := by decide

/-! ### the three races: the full statement is false -/

def kinds (l : List Kind) : Pid → Kind := fun i => l.getD i .sh
def noParent : Pid → Option Pid := fun _ => none
def once : Pid → Nat := fun _ => 0

/-- D12a, scan before create (two processes): E `mkdir`; S `mkdir` (EEXIST), `exists`, scan — no exclusive file
yet; E scan; S create; E create: an exclusive and a shared holder together. -/
theorem C09_scan_before_create_witness_Pinned :
    let s := run (init (kinds [.ex, .sh]) noParent once) [0, 1, 1, 1, 0, 1, 0]
    s.pc 0 = .hold ∧ s.pc 1 = .hold ∧ s.kind 0 = .ex ∧ ¬ related s 0 1 := by decide

/-- D12b, stale `rmdir` (three processes): E₁ `mkdir`; S acquires and releases completely while E₁ has not yet
created its file, counts 0 files and removes E₁'s directory; E₀'s `mkdir` succeeds; both scan, both create:
two exclusive holders. -/
theorem C09_stale_rmdir_witness_Pinned :
    let s := run (init (kinds [.ex, .ex, .sh]) noParent once) [1, 2, 2, 2, 2, 2, 2, 2, 2, 2, 2, 0, 1, 0, 0, 1]
    s.pc 0 = .hold ∧ s.pc 1 = .hold ∧ s.kind 0 = .ex ∧ s.kind 1 = .ex ∧ ¬ related s 0 1 := by decide

/-- D12c, "proceeding with trepidation": S₀ `mkdir` (EEXIST) while S₁ holds; S₁ releases and removes the directory;
S₀'s `exists` answers False and S₀ runs its command without a lock while E₂ acquires an exclusive one. -/
theorem C09_trepidation_witness_Pinned :
    let s := run (init (kinds [.sh, .sh, .ex]) noParent once) [1, 1, 1, 1, 0, 1, 1, 1, 1, 1, 0, 2, 2, 2]
    s.pc 2 = .hold ∧ s.kind 2 = .ex ∧ s.pc 0 = .unlocked ∧ ¬ related s 2 0 := by decide

/-- With re-entry even exclusive requesters alone race: C (child of P) passes the parent test while P holds; P
releases and removes the directory; X's `mkdir` succeeds; C and X scan before either creates.  So the hypothesis
"nobody re-enters" of `C09_mutex_exclusive_only_Pinned` cannot be dropped. -/
theorem C09_exclusive_reentry_race_witness_Pinned :
    let s := run (init (fun _ => .ex) (fun i => if i = 1 then some 0 else none) once)
      [0, 0, 0, 1, 1, 0, 0, 0, 0, 0, 0, 2, 1, 2, 1, 2]
    s.pc 1 = .hold ∧ s.pc 2 = .hold ∧ s.kind 1 = .ex ∧ ¬ related s 1 2 := by decide

/-! ### no residue: every configuration, every schedule (full) -/

/-- Last sentence of C09, at full strength: whatever the kinds, parents and retry counts of the processes and
however their file-system calls interleave (the racy schedules included), once no process is engaged with the lock
directory — each one is still before its `mkdir`, has been refused, runs unlocked, or has finished or failed its
`giveLocks` — the lock directory and every lock file are gone. -/
theorem C09_no_residue_Pinned (kind : Pid → Kind) (lp : Pid → Option Pid) (tries : Pid → Nat) (sched : List Pid)
    (hq : ∀ i, engaged ((run (init kind lp tries) sched).pc i) = false) :
    (run (init kind lp tries) sched).dir = false ∧ (run (init kind lp tries) sched).files = [] :=
  (resInv_run _ (resInv_init kind lp tries) sched).clean hq

/-- non-vacuity: after the stale-`rmdir` race has run its course (two exclusive holders in between, a failed
release at the end) nobody is engaged, and indeed nothing is left -/
example :
    let s := run (init (kinds [.ex, .ex, .sh]) noParent once)
      [1, 2, 2, 2, 2, 2, 2, 2, 2, 2, 2, 0, 1, 0, 0, 1, 0, 0, 0, 0, 0, 1, 1, 1, 1, 1, 1]
    (∀ i, i < 3 → engaged (s.pc i) = false) ∧ s.pc 0 = .done ∧ s.pc 1 = .done ∧ s.dir = false := by decide

/-! ### phase-atomic schedules (hypothesis: acquisition attempts and releases do not overlap) -/

/-- A phase-atomic order is an ordinary schedule of the step model: phases are runs of `Lock.step`, not a second
model. -/
theorem C09_phases_are_runs_Pinned (s : St) (ps : List Pid) : ∃ sched, ps.foldl phase s = run s sched :=
  phases_is_run s ps

/-- For any number of shared and exclusive requesters, parents and retry counts, and any order of complete phases
(an acquisition attempt, or a release): `Mutex` holds — an exclusive holder shares the lock only with processes
related to it —, every process is at a resting point (so six calls per phase suffice), and when nobody holds,
nothing is left. -/
theorem C09_mutex_phase_atomic_Pinned (kind : Pid → Kind) (lp : Pid → Option Pid) (tries : Pid → Nat) (ps : List Pid) :
    Mutex (ps.foldl phase (init kind lp tries))
    ∧ (∀ i, quiet ((ps.foldl phase (init kind lp tries)).pc i) = true)
    ∧ ((∀ i, (ps.foldl phase (init kind lp tries)).pc i ≠ .hold) →
        (ps.foldl phase (init kind lp tries)).dir = false ∧ (ps.foldl phase (init kind lp tries)).files = []) := by
  have h := ainv_phases _ (ainv_init kind lp tries) ps
  refine ⟨?_, ?_, ?_⟩
  · intro i j hij hnr hi hk
    cases hb : inBody ((ps.foldl phase (init kind lp tries)).pc j) with
    | false => rfl
    | true =>
      have hr := h.rest j
      have hj : (ps.foldl phase (init kind lp tries)).pc j = .hold := by
        cases hpc : (ps.foldl phase (init kind lp tries)).pc j <;> simp_all [inBody, resting]
      exact absurd (h.mutex i j hi hj hk hij) hnr
  · intro i
    have hr := h.rest i
    cases hpc : (ps.foldl phase (init kind lp tries)).pc i <;> simp_all [quiet, resting]
  · intro hnone
    have hf : (ps.foldl phase (init kind lp tries)).files = [] := by
      cases hfs : (ps.foldl phase (init kind lp tries)).files with
      | nil => rfl
      | cons x xs =>
        have := (h.files x.1 x.2).mp (by rw [hfs]; simp)
        exact absurd this.1 (hnone x.2)
    refine ⟨?_, hf⟩
    cases hd : (ps.foldl phase (init kind lp tries)).dir with
    | false => rfl
    | true => exact absurd hf (h.dirIff.mp hd)

/-- "any number of readers may share": on a phase-atomic order, a shared request made while every holder is shared
is granted. -/
theorem C09_readers_share_Pinned (kind : Pid → Kind) (lp : Pid → Option Pid) (tries : Pid → Nat) (ps : List Pid)
    (i : Pid) (l : Nat) (hk : kind i = .sh)
    (hpc : (ps.foldl phase (init kind lp tries)).pc i = .mkdir l)
    (hsh : ∀ j, (ps.foldl phase (init kind lp tries)).pc j = .hold → kind j = .sh) :
    (phase (ps.foldl phase (init kind lp tries)) i).pc i = .hold := by
  have h := ainv_phases _ (ainv_init kind lp tries) ps
  have hkind : ∀ j, (ps.foldl phase (init kind lp tries)).kind j = kind j := by
    intro j
    obtain ⟨sched, hs⟩ := phases_is_run (init kind lp tries) ps
    rw [hs]; simp [init]
  generalize ps.foldl phase (init kind lp tries) = s at *
  have hi : s.pc i ≠ .hold := by rw [hpc]; simp
  have hni : (Kind.sh, i) ∉ s.files := fun hm => hi (h.holds_of_mem hm).1
  have hk' : s.kind i = .sh := by rw [hkind, hk]
  by_cases hd : s.dir = true
  · have hn : exFiles s.files = [] := by
      cases hx : exFiles s.files with
      | nil => rfl
      | cons a r =>
        have ha : a ∈ exFiles s.files := by rw [hx]; simp
        obtain ⟨hm, hex⟩ := mem_exFiles.mp ha
        have hh := h.holds_of_mem (k := a.1) (j := a.2) hm
        have := hsh a.2 hh.1
        rw [← hkind, hh.2, hex] at this; exact absurd this (by simp)
    rw [acquire_sh_join hpc hd hk' hn hni]; simp
  · have hd' : s.dir = false := by simpa using hd
    rw [acquire_free hpc hd' (h.files_nil_of_noDir hd')]; simp

/-- "released locks leave no residue that blocks later commands": on a phase-atomic order, a request of either
kind made while nobody holds is granted. -/
theorem C09_free_lock_granted_Pinned (kind : Pid → Kind) (lp : Pid → Option Pid) (tries : Pid → Nat) (ps : List Pid)
    (i : Pid) (l : Nat)
    (hpc : (ps.foldl phase (init kind lp tries)).pc i = .mkdir l)
    (hfree : ∀ j, (ps.foldl phase (init kind lp tries)).pc j ≠ .hold) :
    (phase (ps.foldl phase (init kind lp tries)) i).pc i = .hold := by
  have h := ainv_phases _ (ainv_init kind lp tries) ps
  have hclean := (C09_mutex_phase_atomic_Pinned kind lp tries ps).2.2 hfree
  generalize ps.foldl phase (init kind lp tries) = s at *
  rw [acquire_free hpc hclean.1 hclean.2]; simp

/-- "a child of the lock holder may re-enter its parent's lock": on a phase-atomic order, a request of either kind
by a process that started with `EUPS_LOCK_PID = p`, made while `p` is the only holder (of either kind), is
granted. -/
theorem C09_child_reenters_Pinned (kind : Pid → Kind) (lp : Pid → Option Pid) (tries : Pid → Nat) (ps : List Pid)
    (c p : Pid) (l : Nat) (hlp : lp c = some p)
    (hpc : (ps.foldl phase (init kind lp tries)).pc c = .mkdir l)
    (hp : (ps.foldl phase (init kind lp tries)).pc p = .hold)
    (honly : ∀ j, (ps.foldl phase (init kind lp tries)).pc j = .hold → j = p) :
    (phase (ps.foldl phase (init kind lp tries)) c).pc c = .hold := by
  have h := ainv_phases _ (ainv_init kind lp tries) ps
  have hlp' : (ps.foldl phase (init kind lp tries)).lp c = some p := by
    obtain ⟨sched, hs⟩ := phases_is_run (init kind lp tries) ps
    rw [hs]; simp [init, hlp]
  generalize ps.foldl phase (init kind lp tries) = s at *
  have hi : s.pc c ≠ .hold := by rw [hpc]; simp
  have hni : ∀ k, (k, c) ∉ s.files := fun k hm => hi (h.holds_of_mem hm).1
  have hpm := h.mem_of_holds hp
  have hd : s.dir = true := h.dirIff.mpr (by intro e; rw [e] at hpm; simp at hpm)
  -- the file set is exactly the parent's file
  have hfiles : s.files = [(s.kind p, p)] := by
    have hall : ∀ x ∈ s.files, x = (s.kind p, p) := by
      intro x hx
      have hh := h.holds_of_mem (k := x.1) (j := x.2) hx
      have := honly x.2 hh.1
      cases x with
      | mk k j => simp at this hh ⊢; subst this; exact ⟨hh.2.symm, rfl⟩
    cases hfs : s.files with
    | nil => rw [hfs] at hpm; simp at hpm
    | cons a r =>
      have ha : a = (s.kind p, p) := hall a (by rw [hfs]; simp)
      cases r with
      | nil => rw [ha]
      | cons b r2 =>
        have hb : b = (s.kind p, p) := hall b (by rw [hfs]; simp)
        have := h.nodup; rw [hfs, ha, hb] at this; simp at this
  have hpc' : p ≠ c := by intro e; subst e; exact hi hp
  cases hk : s.kind c with
  | ex => rw [acquire_ex_reenter hpc hd hk hfiles hlp' hpc']; simp
  | sh =>
    cases hkp : s.kind p with
    | sh =>
      rw [acquire_sh_join hpc hd hk (by simp [hfiles, hkp, exFiles]) (hni _)]; simp
    | ex =>
      rw [acquire_sh_reenter (q := p) hpc hd hk (by simp [hfiles, hkp, exFiles]) hlp' (hni _)]; simp

/-- ... and an incompatible request is refused: on a phase-atomic order, while an unrelated process `q` holds and one of
the two locks would be exclusive, the request of `i` does not end in a lock (it is refused, or will be retried). -/
theorem C09_incompatible_refused_Pinned (kind : Pid → Kind) (lp : Pid → Option Pid) (tries : Pid → Nat) (ps : List Pid)
    (i q : Pid) (hne : q ≠ i)
    (hq : (ps.foldl phase (init kind lp tries)).pc q = .hold)
    (hunrel : ¬ related (ps.foldl phase (init kind lp tries)) i q)
    (hex : kind i = .ex ∨ kind q = .ex) :
    (phase (ps.foldl phase (init kind lp tries)) i).pc i ≠ .hold := by
  have h := ainv_phases _ (ainv_init kind lp tries) (ps ++ [i])
  have hkind : ∀ j, (ps.foldl phase (init kind lp tries)).kind j = kind j := by
    intro j
    obtain ⟨sched, hs⟩ := phases_is_run (init kind lp tries) ps
    rw [hs]; simp [init]
  rw [List.foldl_append] at h
  simp only [List.foldl_cons, List.foldl_nil] at h
  generalize ps.foldl phase (init kind lp tries) = s at *
  intro hi
  have hq' : (phase s i).pc q = .hold := by rw [phase_pc_other s i q hne]; exact hq
  have hrel : related (phase s i) i q := by
    rcases hex with hex | hex
    · exact h.mutex i q hi hq' (by simp [hkind, hex]) (fun e => hne e.symm)
    · exact related_symm (h.mutex q i hq' hi (by simp [hkind, hex]) hne)
  exact hunrel (by simpa [related] using hrel)

/-- non-vacuity of the three grants: S₁ and S₂ share; E₀ is refused beside them; after both release E₀'s second
attempt succeeds, and its child 3 (EUPS_LOCK_PID = 0) re-enters with an exclusive request of its own. -/
example :
    let kind : Pid → Kind := fun i => if i = 0 ∨ i = 3 then .ex else .sh
    let lp : Pid → Option Pid := fun i => if i = 3 then some 0 else none
    let s := [1, 2, 0, 1, 2, 0, 3].foldl phase (init kind lp (fun _ => 1))
    s.pc 0 = .hold ∧ s.pc 3 = .hold ∧ s.pc 1 = .done ∧ s.pc 2 = .done ∧
    ([1, 2, 0].foldl phase (init kind lp (fun _ => 1))).pc 0 = .mkdir 0 ∧
    ([1, 2].foldl phase (init kind lp (fun _ => 1))).pc 2 = .hold := by decide

/-! ### several stacks (`EUPS_PATH` with more than one element): `Model/LockPath.lean` -/

section path
open EupsModel.LockPath

/-- Projection: in a run of the path model — `takeLocks(path)`, body, `giveLocks(locks)`, with the giving-up of
earlier locks when a later stack is refused — the lock state of every stack is the result of a schedule of the
single-directory model from its initial state.  So every single-directory theorem above applies to each stack. -/
theorem C09_path_projection_Pinned (kind : Pid → Kind) (lp : Pid → Option Pid) (tries : Pid → Nat)
    (path : Pid → List Dir) (explicit : Pid → Bool) (sched : List Pid) (d : Dir) :
    ∃ sd, ((mrun (minit kind lp tries path explicit) sched).comp d) = run (init kind lp tries) sd :=
  mrun_comp_is_run _ sched d

/-- No residue, per stack, every configuration and schedule: a stack with which no process is engaged any more
holds neither lock directory nor lock files. -/
theorem C09_path_no_residue_per_stack_Pinned (kind : Pid → Kind) (lp : Pid → Option Pid) (tries : Pid → Nat)
    (path : Pid → List Dir) (explicit : Pid → Bool) (sched : List Pid) (d : Dir)
    (hq : ∀ p, engaged (((mrun (minit kind lp tries path explicit) sched).comp d).pc p) = false) :
    ((mrun (minit kind lp tries path explicit) sched).comp d).dir = false ∧
    ((mrun (minit kind lp tries path explicit) sched).comp d).files = [] := by
  obtain ⟨sd, hsd⟩ := C09_path_projection_Pinned kind lp tries path explicit sched d
  rw [hsd] at hq ⊢
  exact C09_no_residue_Pinned kind lp tries sd hq

/-- Exclusive requesters only, any number of stacks per command (distinct), every schedule: `MutexM` — no two
commands whose paths share a stack are in their bodies together. -/
theorem C09_path_mutex_exclusive_only_Pinned (kind : Pid → Kind) (lp : Pid → Option Pid) (tries : Pid → Nat)
    (path : Pid → List Dir) (explicit : Pid → Bool)
    (hk : ∀ i, kind i = .ex) (hl : ∀ i, lp i = none) (hn : ∀ p, (path p).Nodup) (sched : List Pid) :
    MutexM (mrun (minit kind lp tries path explicit) sched) := by
  have h := pinv_mrun _ (pinv_init kind lp tries path explicit hk hl hn) sched
  generalize mrun (minit kind lp tries path explicit) sched = S at h
  intro d p q hpq _ hbp hbq _ hdq hp _
  -- q is in its body, so it holds every stack of its path, d among them
  have hq : (S.comp d).pc q = .hold := by
    have hh := h.held q
    unfold Held at hh
    cases hc : S.ctl q with
    | body n reg =>
      rw [hc] at hh
      obtain ⟨j, hj, hjd⟩ := List.mem_iff_getElem.mp hdq
      exact hh.2.2 j d (by omega) (by rw [List.getElem?_eq_getElem hj, hjd])
    | acq k => rw [hc] at hbq; simp [inBodyM] at hbq
    | unw j k e => rw [hc] at hbq; simp [inBodyM] at hbq
    | rel j n m o => rw [hc] at hbq; simp [inBodyM] at hbq
    | fin o => rw [hc] at hbq; simp [inBodyM] at hbq
  exact hpq ((h.ex d).uniq p q (by simp [hp, inside]) (by simp [hq, inside]))

/-- Exclusive requesters only, several stacks: when every command has finished — whether it got all its locks, or
was refused on a later stack after locking earlier ones (the situation of defect D12e) — no stack holds a lock
directory or a lock file. -/
theorem C09_path_no_residue_exclusive_only_Pinned (kind : Pid → Kind) (lp : Pid → Option Pid) (tries : Pid → Nat)
    (path : Pid → List Dir) (explicit : Pid → Bool)
    (hk : ∀ i, kind i = .ex) (hl : ∀ i, lp i = none) (hn : ∀ p, (path p).Nodup) (sched : List Pid)
    (hfin : ∀ p, finished ((mrun (minit kind lp tries path explicit) sched).ctl p) = true) (d : Dir) :
    ((mrun (minit kind lp tries path explicit) sched).comp d).dir = false ∧
    ((mrun (minit kind lp tries path explicit) sched).comp d).files = [] := by
  have h := pinv_mrun _ (pinv_init kind lp tries path explicit hk hl hn) sched
  generalize mrun (minit kind lp tries path explicit) sched = S at h hfin
  have hnone : ∀ p, inside ((S.comp d).pc p) = false := by
    intro p
    cases hin : inside ((S.comp d).pc p) with
    | false => rfl
    | true =>
      have := h.owes p d hin
      have hf := hfin p
      cases hc : S.ctl p <;> simp_all [finished, owed]
  constructor
  · cases hd : (S.comp d).dir with
    | false => rfl
    | true => obtain ⟨p, hp⟩ := (h.ex d).dirIff.mp hd; rw [hnone p] at hp; exact absurd hp (by simp)
  · exact (h.ex d).filesN (fun p => not_hasFile_of_not_inside (hnone p))

/-- non-vacuity, and the D12e scenario itself: X (path [1]) holds stack 1; Y (path [0, 1]) locks stack 0, is refused
on stack 1, gives stack 0 up again and has failed; X finishes; nothing is left on either stack. -/
example :
    let path : Pid → List Dir := fun i => if i = 0 then [1] else [0, 1]
    let S := mrun (minit (fun _ => .ex) (fun _ => none) (fun _ => 0) path (fun _ => true))
      [0, 0, 0, 1, 1, 1, 1, 1, 1, 1, 1, 1, 1, 1, 0, 0, 0, 0, 0, 0]
    S.ctl 1 = .fin (.failedAcq .runtime) ∧ S.ctl 0 = .fin .done ∧
    (S.comp 0).dir = false ∧ (S.comp 1).dir = false ∧
    ((mrun (minit (fun _ => .ex) (fun _ => none) (fun _ => 0) path (fun _ => true))
      [0, 0, 0, 1, 1, 1]).comp 0).files = [(.ex, 1)] := by decide

end path

/-! ### classification: the three races are the only way to break `Mutex` -/

/-- On a schedule none of whose steps is a scan-before-create (`RaceA`), a stale `rmdir` (`RaceB`) or a trepidation
exit (`RaceC`), `Mutex` holds — any number of shared and exclusive requesters, retries and re-entering children,
arbitrary interleaving otherwise.  Hypothesis on the configuration: `EUPS_LOCK_PID` maps are flat (the named process
itself started without the variable — what `takeLocks` guarantees by never overwriting it). -/
theorem C09_classification_Pinned (kind : Pid → Kind) (lp : Pid → Option Pid) (tries : Pid → Nat) (hflat : Flat lp)
    (sched : List Pid) (hrf : RaceFree (init kind lp tries) sched) :
    Mutex (run (init kind lp tries) sched) :=
  (rfInv_run _ sched (rfInv_init kind lp tries hflat) hrf).mutex

/-- The same, read the other way: every reachable state that violates `Mutex` has one of the three races in its
history. -/
theorem C09_violation_has_race_Pinned (kind : Pid → Kind) (lp : Pid → Option Pid) (tries : Pid → Nat) (hflat : Flat lp)
    (sched : List Pid) (hv : ¬ Mutex (run (init kind lp tries) sched)) :
    ∃ pre p post, sched = pre ++ p :: post ∧
      (RaceA (run (init kind lp tries) pre) p ∨ RaceB (run (init kind lp tries) pre) p ∨
       RaceC (run (init kind lp tries) pre) p) := by
  rcases raceFree_or_racy (init kind lp tries) sched with h | h
  · exact absurd (C09_classification_Pinned kind lp tries hflat sched h) hv
  · exact h

/-- The flatness hypothesis cannot be dropped: with a chain `lp 2 = 1`, `lp 1 = 0` the two listings of 2's admission test
are split by 1's `create`; no step is a race, yet 0 (exclusive) and 2 hold together and are not related. -/
theorem C09_classification_needs_flat_Pinned :
    let lp : Pid → Option Pid := fun i => if i = 1 then some 0 else if i = 2 then some 1 else none
    let sched := [0, 0, 0, 1, 1, 1, 1, 2, 2, 2, 1, 2, 2]
    raceFreeUpTo 3 (init (kinds [.ex, .ex, .sh]) lp once) sched = true ∧
    (run (init (kinds [.ex, .ex, .sh]) lp once) sched).pc 0 = .hold ∧
    (run (init (kinds [.ex, .ex, .sh]) lp once) sched).pc 2 = .hold ∧
    ¬ related (run (init (kinds [.ex, .ex, .sh]) lp once) sched) 0 2 := by decide

/-- non-vacuity: a race-free schedule that is far from phase-atomic — the reader's acquisition is interleaved call by
call with the re-entry of the updater's child — and `Mutex` indeed holds at its end. -/
example :
    let lp : Pid → Option Pid := fun i => if i = 2 then some 0 else none
    let s0 := init (kinds [.ex, .sh, .ex]) lp once
    let sched := [0, 0, 0, 1, 2, 2, 1, 2, 1, 1, 2, 2, 0, 0, 0, 0, 0]
    RaceFree s0 sched ∧ Flat lp ∧ (run s0 sched).pc 2 = .hold ∧ (run s0 sched).pc 1 = .failedAcq .runtime ∧
    (run s0 sched).pc 0 = .done := by
  refine ⟨raceFree_of_upTo 3 _ _ (by decide) (fun q hq => by simp [init, inflight]) (by decide), ?_, by decide,
    by decide, by decide⟩
  intro p r h
  by_cases hp : p = 2
  · subst hp; simp at h; subst h; simp
  · simp [hp] at h

/-- Several stacks: when two unrelated commands hold the lock of stack `d` in their bodies, one of them exclusively,
the history of that stack — a schedule of the single-directory model, by projection — contains one of the three races.
(The other way to break `MutexM`, a command in its body *without* a lock on `d`, is the trepidation exit itself.) -/
theorem C09_path_violation_has_race_Pinned (kind : Pid → Kind) (lp : Pid → Option Pid) (tries : Pid → Nat)
    (path : Pid → List LockPath.Dir) (explicit : Pid → Bool) (hflat : Flat lp) (sched : List Pid)
    (d : LockPath.Dir) (p q : Pid) (hpq : p ≠ q)
    (hnrel : ¬ related ((LockPath.mrun (LockPath.minit kind lp tries path explicit) sched).comp d) p q)
    (hp : ((LockPath.mrun (LockPath.minit kind lp tries path explicit) sched).comp d).pc p = .hold)
    (hq : ((LockPath.mrun (LockPath.minit kind lp tries path explicit) sched).comp d).pc q = .hold)
    (hk : kind p = .ex) :
    ∃ sd pre x post, ((LockPath.mrun (LockPath.minit kind lp tries path explicit) sched).comp d) =
        run (init kind lp tries) sd ∧ sd = pre ++ x :: post ∧
      (RaceA (run (init kind lp tries) pre) x ∨ RaceB (run (init kind lp tries) pre) x ∨
       RaceC (run (init kind lp tries) pre) x) := by
  obtain ⟨sd, hsd⟩ := C09_path_projection_Pinned kind lp tries path explicit sched d
  rw [hsd] at hnrel hp hq
  have hv : ¬ Mutex (run (init kind lp tries) sd) := by
    intro hm
    have := hm p q hpq hnrel hp (by simp [init, hk])
    rw [hq] at this; simp [inBody] at this
  obtain ⟨pre, x, post, he, hr⟩ := C09_violation_has_race_Pinned kind lp tries hflat sd hv
  exact ⟨sd, pre, x, post, hsd, he, hr⟩

/-- The property as stated is false of the protocol. -/
theorem C09_mutex_false_Pinned : ¬ MutexAlwaysPinned := by
  intro h
  have hm := h (kinds [.ex, .sh]) noParent once [0, 1, 1, 1, 0, 1, 0]
  have w := C09_scan_before_create_witness_Pinned
  exact absurd (hm 0 1 (by decide) w.2.2.2 w.1 w.2.2.1) (by rw [w.2.1]; decide)

end EupsModel.C09
