import EupsModel.Lemmas.CondCorrect
import EupsModel.Lemmas.CondLex
import EupsModel.Model.CondPinned
/-! C11 — table files mean what they say.  Property theorems only: the specification side is in
`Spec/C11.lean`, the models in `Model/{Cond,CondPinned,TableParse}.lean`, the lemmas in `Lemmas/Cond*.lean`. -/
namespace EupsModel.C11
open EupsModel.Cond EupsModel.C11Spec

/-! ## conditions -/

/-- **C11_cond.**  Every condition over `FLAVOR` and `TYPE` built from `==`, `!=`, `&&`, `||` and parentheses,
written with any spelling of the keywords, any quoting of the words, redundant parentheses and blanks anywhere
between tokens (`c : CExpr`, well-formed at the top level), evaluates — text in, truth value out, through the
tokeniser, the symbol lookup and the recursive descent of `VersionParser` — to the value its truth table gives
(`denote`), for every flavor that is not itself one of the evaluator's four special tokens and every list of
setup types, with the fuel the driver uses (or more). -/
theorem C11_cond (env : Env) (hfl : flavorOK env.flavor = true) (c : CExpr) (hok : c.okAt 0 = true)
    (trail : Str) (ht : blank trail = true) (f : Nat) (hf : fuelFor (c.str ++ trail) ≤ f) :
    evalCond env f (c.str ++ trail) = .ok (denote env c.abs) := by
  have hl := toks_length_le c 0 hok
  simp only [evalCond, tokenize_expr c hok trail ht]
  apply evalToks_correct hfl c hok
  simp only [fuelFor, List.length_append] at hf
  omega

theorem render_abs (e : BExpr) : ∀ p, (render p e).abs = e := by
  induction e with
  | atom v neg w => intro p; rfl
  | and a b iha ihb =>
    intro p; simp only [render]; split <;> simp [CExpr.abs, iha, ihb]
  | or a b iha ihb =>
    intro p; simp only [render]; split <;> simp [CExpr.abs, iha, ihb]

theorem render_ok (e : BExpr) : e.wordsOK = true → ∀ p, (render p e).okAt p = true := by
  induction e with
  | atom v neg w =>
    intro hw p
    simp only [BExpr.wordsOK] at hw
    cases v <;> simp [render, CExpr.okAt, Atom.ok, hw, Var.kw, blank, Str.isSpace] <;> decide
  | and a b iha ihb =>
    intro hw p
    simp only [BExpr.wordsOK, Bool.and_eq_true] at hw
    simp only [render]
    split
    · simp [CExpr.okAt, iha hw.1 1, ihb hw.2 2, blank, Str.isSpace]
    · rename_i hp; simp [CExpr.okAt, iha hw.1 1, ihb hw.2 2, blank, Str.isSpace]; omega
  | or a b iha ihb =>
    intro hw p
    simp only [BExpr.wordsOK, Bool.and_eq_true] at hw
    simp only [render]
    split
    · simp [CExpr.okAt, iha hw.1 0, ihb hw.2 1, blank, Str.isSpace]
    · rename_i hp; simp [CExpr.okAt, iha hw.1 0, ihb hw.2 1, blank, Str.isSpace]; omega

/-- the same for the canonical text of an expression: `eval (tokenize (render e)) env = denote e env` -/
theorem C11_cond_render (env : Env) (hfl : flavorOK env.flavor = true) (e : BExpr) (hw : e.wordsOK = true) :
    evalCond env (fuelFor (render 0 e).str) (render 0 e).str = .ok (denote env e) := by
  have := C11_cond env hfl (render 0 e) (render_ok e hw 0) [] rfl (fuelFor (render 0 e).str) (by simp)
  simpa [render_abs] using this

/-! ### non-vacuity -/

/-- `( TYPE == build || flavor != 'Linux64' )&&Flavor=="Darwin"` is a well-formed written condition -/
def sampleCond : CExpr :=
  .and (.paren (.or (.atom ⟨Str.ofString "TYPE", .type, false, Str.ofString "build", none, [32], [32], [32]⟩)
                    (.atom ⟨Str.ofString "flavor", .flavor, true, Str.ofString "Linux64", some 39, [32], [32], [32]⟩) [32]) [] [32])
       (.atom ⟨Str.ofString "Flavor", .flavor, false, Str.ofString "Darwin", some 34, [], [], []⟩) []

example : sampleCond.okAt 0 = true := by decide
example : sampleCond.str = Str.ofString "( TYPE == build || flavor != 'Linux64' )&&Flavor==\"Darwin\"" := by decide
example : flavorOK (Str.ofString "Darwin") = true := by decide
example : evalCond ⟨Str.ofString "Darwin", []⟩ (fuelFor sampleCond.str) sampleCond.str = .ok true := by decide +kernel
example : evalCond ⟨Str.ofString "Linux64", []⟩ (fuelFor sampleCond.str) sampleCond.str = .ok false := by decide +kernel

/-! ### the evaluator as pinned (before the repair of D3) -/

/-- `A && B || C` with `A` false and `C` true -/
def d3Expr : BExpr :=
  .or (.and (.atom .flavor false (Str.ofString "Darwin")) (.atom .type false (Str.ofString "build")))
      (.atom .flavor false (Str.ofString "Linux"))
def d3Env : Env := ⟨Str.ofString "Linux", [Str.ofString "build"]⟩

/-- **C11_cond is false of the pinned evaluator (1).**  `FLAVOR == Darwin && TYPE == build || FLAVOR == Linux`
for flavor Linux: the truth table says true; the pinned `_expr` does not consume `TYPE == build` after the false
`FLAVOR == Darwin`, reads `TYPE` as an operator, stops, and returns false. -/
theorem C11_shortcircuit_witness_1 :
    (render 0 d3Expr).str = Str.ofString " FLAVOR == Darwin && TYPE == build || FLAVOR == Linux" ∧
    d3Expr.wordsOK = true ∧ flavorOK d3Env.flavor = true ∧ denote d3Env d3Expr = true ∧
    CondPinned.evalCond d3Env (fuelFor (render 0 d3Expr).str) (render 0 d3Expr).str = .ok false := by decide +kernel

/-- the same expression with its redundant parentheses written out -/
def d3Paren : CExpr :=
  .or (.paren (.and (.atom ⟨Str.ofString "FLAVOR", .flavor, false, Str.ofString "Darwin", none, [], [32], [32]⟩)
                    (.atom ⟨Str.ofString "TYPE", .type, false, Str.ofString "build", none, [32], [32], [32]⟩) [32]) [] [])
      (.atom ⟨Str.ofString "FLAVOR", .flavor, false, Str.ofString "Linux", none, [32], [32], [32]⟩) [32]

/-- **C11_cond is false of the pinned evaluator (2).**  `(FLAVOR == Darwin && TYPE == build) || FLAVOR == Linux`:
inside the parentheses the same tokens are left over; `_prim` finds `TYPE` where it expects `)` and raises
`RuntimeError` when no setup type is given, and when one is given the list bound to `TYPE` has been pushed back
onto the token stream and `_lookup` fails on it with `AttributeError`. -/
theorem C11_shortcircuit_witness_2 :
    d3Paren.str = Str.ofString "(FLAVOR == Darwin && TYPE == build) || FLAVOR == Linux" ∧
    d3Paren.okAt 0 = true ∧ denote d3Env d3Paren.abs = true ∧ denote { d3Env with types := [] } d3Paren.abs = true ∧
    CondPinned.evalCond d3Env (fuelFor d3Paren.str) d3Paren.str = .err .attribute ∧
    CondPinned.evalCond { d3Env with types := [] } (fuelFor d3Paren.str) d3Paren.str = .err .runtime := by
  decide +kernel

/-- the repaired evaluator on the two witnesses -/
example : evalCond d3Env (fuelFor (render 0 d3Expr).str) (render 0 d3Expr).str = .ok true := by decide +kernel
example : evalCond d3Env (fuelFor d3Paren.str) d3Paren.str = .ok true := by decide +kernel

end EupsModel.C11
