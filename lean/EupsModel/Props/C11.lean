/-! C11 — property theorems (placeholder until the model exists). -/
