import EupsModel.Lemmas.CondCorrect
import EupsModel.Lemmas.CondLex
import EupsModel.Model.CondPinned
import EupsModel.Lemmas.TableBlocks
import EupsModel.Lemmas.TableText
import EupsModel.Lemmas.TableLegacy
import EupsModel.Lemmas.TableLegacyOld
import EupsModel.Lemmas.TableArgs
import EupsModel.Lemmas.TableWritten
import EupsModel.Lemmas.TableDeclOpts
import EupsModel.Lemmas.TableGrammar
import EupsModel.Lemmas.TableLegacyDenote
import EupsModel.Lemmas.TableLegacyOldDenote
import EupsModel.Lemmas.SetupType
import EupsModel.Lemmas.TableDefault
/-! C11 — table files mean what they say.  Property theorems only: the specification side is in
`Spec/C11.lean`, the models in `Model/{Cond,CondPinned,TableParse}.lean`, the lemmas in `Lemmas/Cond*.lean`. -/
namespace EupsModel.C11
open EupsModel.Cond EupsModel.C11Spec EupsModel.TableParse

/-! ## conditions -/

/-- **C11_cond.**  Every condition over `FLAVOR` and `TYPE` built from `==`, `!=`, `&&`, `||` and parentheses,
written with any spelling of the keywords, any quoting of the words, redundant parentheses and blanks anywhere
between tokens (`c : CExpr`, well-formed at the top level), evaluates — text in, truth value out, through the
tokeniser, the symbol lookup and the recursive descent of `VersionParser` — to the value its truth table gives
(`denote`), for every flavor that is not itself one of the evaluator's four special tokens and every list of
setup types, with the fuel the driver uses (or more). -/
theorem C11_cond (env : Env) (hfl : flavorOK env.flavor = true) (c : CExpr) (hok : c.okAt 0 = true)
    (trail : Str) (ht : blank trail = true) (f : Nat) (hf : fuelFor (c.str ++ trail) ≤ f) :
    evalCond env f (c.str ++ trail) = .ok (denote env c.abs) := by
  have hl := toks_length_le c 0 hok
  simp only [evalCond, tokenize_expr c hok trail ht]
  apply evalToks_correct hfl c hok
  simp only [fuelFor, List.length_append] at hf
  omega

theorem render_abs (e : BExpr) : ∀ p, (render p e).abs = e := by
  induction e with
  | atom v neg w => intro p; rfl
  | and a b iha ihb =>
    intro p; simp only [render]; split <;> simp [CExpr.abs, iha, ihb]
  | or a b iha ihb =>
    intro p; simp only [render]; split <;> simp [CExpr.abs, iha, ihb]

theorem render_ok (e : BExpr) : e.wordsOK = true → ∀ p, (render p e).okAt p = true := by
  induction e with
  | atom v neg w =>
    intro hw p
    simp only [BExpr.wordsOK] at hw
    cases v <;> simp [render, CExpr.okAt, Atom.ok, hw, Var.kw, blank, Str.isSpace] <;> decide
  | and a b iha ihb =>
    intro hw p
    simp only [BExpr.wordsOK, Bool.and_eq_true] at hw
    simp only [render]
    split
    · simp [CExpr.okAt, iha hw.1 1, ihb hw.2 2, blank, Str.isSpace]
    · rename_i hp; simp [CExpr.okAt, iha hw.1 1, ihb hw.2 2, blank, Str.isSpace]; omega
  | or a b iha ihb =>
    intro hw p
    simp only [BExpr.wordsOK, Bool.and_eq_true] at hw
    simp only [render]
    split
    · simp [CExpr.okAt, iha hw.1 0, ihb hw.2 1, blank, Str.isSpace]
    · rename_i hp; simp [CExpr.okAt, iha hw.1 0, ihb hw.2 1, blank, Str.isSpace]; omega

/-- the same for the canonical text of an expression: `eval (tokenize (render e)) env = denote e env` -/
theorem C11_cond_render (env : Env) (hfl : flavorOK env.flavor = true) (e : BExpr) (hw : e.wordsOK = true) :
    evalCond env (fuelFor (render 0 e).str) (render 0 e).str = .ok (denote env e) := by
  have := C11_cond env hfl (render 0 e) (render_ok e hw 0) [] rfl (fuelFor (render 0 e).str) (by simp)
  simpa [render_abs] using this

/-! ### non-vacuity -/

/-- `( TYPE == build || flavor != 'Linux64' )&&Flavor=="Darwin"` is a well-formed written condition -/
def sampleCond : CExpr :=
  .and (.paren (.or (.atom ⟨Str.ofString "TYPE", .type, false, Str.ofString "build", none, [32], [32], [32]⟩)
                    (.atom ⟨Str.ofString "flavor", .flavor, true, Str.ofString "Linux64", some 39, [32], [32], [32]⟩) [32]) [] [32])
       (.atom ⟨Str.ofString "Flavor", .flavor, false, Str.ofString "Darwin", some 34, [], [], []⟩) []

example : sampleCond.okAt 0 = true := by decide
example : sampleCond.str = Str.ofString "( TYPE == build || flavor != 'Linux64' )&&Flavor==\"Darwin\"" := by decide
example : flavorOK (Str.ofString "Darwin") = true := by decide
example : evalCond ⟨Str.ofString "Darwin", []⟩ (fuelFor sampleCond.str) sampleCond.str = .ok true := by decide +kernel
example : evalCond ⟨Str.ofString "Linux64", []⟩ (fuelFor sampleCond.str) sampleCond.str = .ok false := by decide +kernel

/-! ### the evaluator as pinned (before the repair of D3) -/

/-- `A && B || C` with `A` false and `C` true -/
def d3Expr : BExpr :=
  .or (.and (.atom .flavor false (Str.ofString "Darwin")) (.atom .type false (Str.ofString "build")))
      (.atom .flavor false (Str.ofString "Linux"))
def d3Env : Env := ⟨Str.ofString "Linux", [Str.ofString "build"]⟩

/-- **C11_cond is false of the pinned evaluator (1).**  `FLAVOR == Darwin && TYPE == build || FLAVOR == Linux`
for flavor Linux: the truth table says true; the pinned `_expr` does not consume `TYPE == build` after the false
`FLAVOR == Darwin`, reads `TYPE` as an operator, stops, and returns false. -/
theorem C11_shortcircuit_witness_1 :
    (render 0 d3Expr).str = Str.ofString " FLAVOR == Darwin && TYPE == build || FLAVOR == Linux" ∧
    d3Expr.wordsOK = true ∧ flavorOK d3Env.flavor = true ∧ denote d3Env d3Expr = true ∧
    CondPinned.evalCond d3Env (fuelFor (render 0 d3Expr).str) (render 0 d3Expr).str = .ok false := by decide +kernel

/-- the same expression with its redundant parentheses written out -/
def d3Paren : CExpr :=
  .or (.paren (.and (.atom ⟨Str.ofString "FLAVOR", .flavor, false, Str.ofString "Darwin", none, [], [32], [32]⟩)
                    (.atom ⟨Str.ofString "TYPE", .type, false, Str.ofString "build", none, [32], [32], [32]⟩) [32]) [] [])
      (.atom ⟨Str.ofString "FLAVOR", .flavor, false, Str.ofString "Linux", none, [32], [32], [32]⟩) [32]

/-- **C11_cond is false of the pinned evaluator (2).**  `(FLAVOR == Darwin && TYPE == build) || FLAVOR == Linux`:
inside the parentheses the same tokens are left over; `_prim` finds `TYPE` where it expects `)` and raises
`RuntimeError` when no setup type is given, and when one is given the list bound to `TYPE` has been pushed back
onto the token stream and `_lookup` fails on it with `AttributeError`. -/
theorem C11_shortcircuit_witness_2 :
    d3Paren.str = Str.ofString "(FLAVOR == Darwin && TYPE == build) || FLAVOR == Linux" ∧
    d3Paren.okAt 0 = true ∧ denote d3Env d3Paren.abs = true ∧ denote { d3Env with types := [] } d3Paren.abs = true ∧
    CondPinned.evalCond d3Env (fuelFor d3Paren.str) d3Paren.str = .err .attribute ∧
    CondPinned.evalCond { d3Env with types := [] } (fuelFor d3Paren.str) d3Paren.str = .err .runtime := by
  decide +kernel

/-- the repaired evaluator on the two witnesses -/
example : evalCond d3Env (fuelFor (render 0 d3Expr).str) (render 0 d3Expr).str = .ok true := by decide +kernel
example : evalCond d3Env (fuelFor d3Paren.str) d3Paren.str = .ok true := by decide +kernel

/-! ## block selection -/

/-- **C11_blocks (on classified lines).**  For every table — single lines and if / else-if / else chains of any
length, every branch holding any lines at all (commands, lines the reader skips, or nothing), conditions written
in any form — the repaired block state machine of `Table._read`, run over the table's lines, followed by the
branch selection of `Table.actions`, yields exactly what the table denotes: unconditional commands always, of
each chain the first branch whose condition is true, else the else branch, in the order written.  "Classified"
= each line is given as what the two patterns of `_read` make of it (`TableParse.classify`). -/
theorem C11_blocks_lines (env : Env) (hfl : flavorOK env.flavor = true) (t : List TItem) (hok : t.all TItem.ok = true) :
    actions repaired env (finish repaired (runL repaired {} (tableLines t))) = .ok (denoteTable env t) :=
  blocks_lines hfl t hok

/-- reading text lines is classifying them and running the state machine -/
theorem readLines_classified (v : Variant) (pdir : Option Str) :
    ∀ (lines : List Str) (ls : List Line) (st : RdState),
      classifyAll v pdir lines = .ok ls → readLines v pdir st lines = .ok (runL v st ls) := by
  intro lines
  induction lines with
  | nil => intro ls st h; simp only [classifyAll] at h; cases h; rfl
  | cons l rest ih =>
    intro ls st h
    simp only [classifyAll] at h
    cases hc : classify v pdir l with
    | ok c =>
      rw [hc] at h; simp only [Res.bind] at h
      cases hr : classifyAll v pdir rest with
      | ok cs =>
        rw [hr] at h; simp only [Res.bind] at h; cases h
        simp [readLines, readLine, hc, Res.bind, runL, ih cs _ hr]
      | err e => rw [hr] at h; simp [Res.bind] at h
      | fuel => rw [hr] at h; simp [Res.bind] at h
    | err e => rw [hc] at h; simp [Res.bind] at h
    | fuel => rw [hc] at h; simp [Res.bind] at h

/-- **C11_blocks (text, given the classification of the lines).**  If `_rewrite` turns the text into `lines` and
the patterns of `_read` classify these as the lines of table `t`, then
`Table(text).actions(flavor, types)` is what `t` denotes. -/
theorem C11_blocks (env : Env) (hfl : flavorOK env.flavor = true) (pdir : Option Str) (text : Str) (lines : List Str)
    (t : List TItem) (hok : t.all TItem.ok = true) (hrw : rewrite text = .ok lines)
    (hcl : classifyAll repaired pdir lines = .ok (tableLines t)) :
    tableActions repaired pdir env text = .ok (denoteTable env t) := by
  simp only [tableActions, parse, hrw, Res.bind, readLines_classified repaired pdir lines _ _ hcl]
  exact blocks_lines hfl t hok

/-- **C11_blocks (text).**  For every table *text* made of if / else-if / else chains written with any layout —
indentation, spelling of `if`/`else` in any letter case, blanks around parentheses and braces, a trailing comment
on any line of the block structure, conditions in any written form — around arbitrary other lines (each any text
that, once stripped, is empty or is passed on by `_rewrite` and classified by the patterns of `_read` as the action
it stands for, or as nothing), with or without a final newline:
`Table(text, product).actions(flavor, types)` is what the table denotes. -/
theorem C11_blocks_text (env : Env) (hfl : flavorOK env.flavor = true) (pdir : Option Str) (t : List TItemT)
    (hok : t.all (TItemT.ok pdir) = true) (nl : Bool) :
    tableActions repaired pdir env (tableText t nl) = .ok (denoteTable env (tableAbs t)) := by
  obtain ⟨lines, hrw, hcl⟩ := rewrite_table t hok nl
  exact C11_blocks env hfl pdir _ lines _ (tableAbs_ok t hok) hrw hcl

/-! ### non-vacuity of `C11_blocks_text` -/

def envLinux : Env := ⟨Str.ofString "Linux", [Str.ofString "build"]⟩
def actA : Action := ⟨Str.ofString "envSet", [Str.ofString "A", Str.ofString "1"], .none⟩
def actB : Action := ⟨Str.ofString "envSet", [Str.ofString "B", Str.ofString "x y"], .none⟩
def condBuild : CExpr := .atom ⟨Str.ofString "TYPE", .type, false, Str.ofString "build", none, [], [32], [32]⟩

/-- a table text with layout: upper-case `IF`, `Else if`, `}else{`, comments after block lines, an empty branch,
an unknown command, a quoted argument -/
def sampleTable : List TItemT :=
  [ .line ⟨Str.ofString "# a table", none⟩,
    .chain
      ⟨⟨Str.ofString "  ", Str.ofString "# only there"⟩, ⟨Str.ofString "IF", [32], [32], [32, 32, 32]⟩,
        .atom ⟨Str.ofString "FLAVOR", .flavor, false, Str.ofString "Linux", none, [32], [32], [32]⟩, [32],
        [⟨Str.ofString "\tenvSet(A, 1)", some actA⟩]⟩
      [(⟨[32], Str.ofString "Else", [32]⟩, ⟨⟨Str.ofString "  ", []⟩, ⟨Str.ofString "if", [32], [], []⟩, condBuild, [], []⟩)]
      (some ⟨⟨Str.ofString "  ", Str.ofString "# otherwise"⟩, ⟨[], Str.ofString "else", []⟩, [32],
        [⟨Str.ofString "      frobnicate(x)", none⟩, ⟨Str.ofString "      envSet(B, \"x y\")  # comment", some actB⟩]⟩)
      ⟨Str.ofString "  ", []⟩ [] ]

example : tableText sampleTable true = Str.ofString
    "# a table\n  IF ( FLAVOR == Linux ) {   # only there\n\tenvSet(A, 1)\n  } Else if (TYPE == build){\n  }else{ # otherwise\n      frobnicate(x)\n      envSet(B, \"x y\")  # comment\n  }\n" := by
  decide +kernel
example : sampleTable.all (TItemT.ok none) = true := by decide +kernel
example : denoteTable envLinux (tableAbs sampleTable) = [actA] ∧
    denoteTable ⟨Str.ofString "Darwin", [Str.ofString "build"]⟩ (tableAbs sampleTable) = [] ∧
    denoteTable ⟨Str.ofString "Darwin", []⟩ (tableAbs sampleTable) = [actB] := by decide +kernel

/-! ### non-vacuity and the reader as pinned (before the repairs of D4, D31) -/

def condLinux : CExpr := .atom ⟨Str.ofString "FLAVOR", .flavor, false, Str.ofString "Linux", none, [], [32], [32]⟩
/-- `if (FLAVOR == Linux) { } else { envSet(A, 1) }` — the shape `expandTableFile` writes for an empty exact block -/
def emptyIfTable : List TItem := [.chain ⟨condLinux, [], []⟩ [] (some [some actA]) true]
def emptyIfText : Str := Str.ofString "if (FLAVOR == Linux) {\n} else {  # otherwise\n  envSet(A, 1)\n}\n"
/-- the tree with every repair except that of D4 -/
def onlyD4Pinned : Variant := { repaired with d4 := false }

example : emptyIfTable.all TItem.ok = true := by decide
example : denoteTable envLinux emptyIfTable = [] := by decide
/-- the hypotheses of `C11_blocks` hold for the text above -/
example : rewrite emptyIfText = .ok [Str.ofString "if (FLAVOR == Linux) {", Str.ofString "} else {  ",
      Str.ofString "envSet(A, 1)", Str.ofString "}"] ∧
    classifyAll repaired none [Str.ofString "if (FLAVOR == Linux) {", Str.ofString "} else {  ",
      Str.ofString "envSet(A, 1)", Str.ofString "}"] = .ok (tableLines emptyIfTable) := by decide +kernel
example : tableActions repaired none envLinux emptyIfText = .ok [] := by decide +kernel

/-- **C11_blocks is false of the block state machine as pinned (D4).**  A chain with a branch that holds no
command: for flavor Linux the table denotes nothing, the pinned reader applies the else branch — on the classified
lines and on the text. -/
theorem C11_empty_branch_witness :
    emptyIfTable.all TItem.ok = true ∧ denoteTable envLinux emptyIfTable = [] ∧
    actions onlyD4Pinned envLinux (finish onlyD4Pinned (runL onlyD4Pinned {} (tableLines emptyIfTable))) = .ok [actA] ∧
    tableActions onlyD4Pinned none envLinux emptyIfText = .ok [actA] := by decide +kernel

/-- **D31 as pinned.**  Blanks (what is left of a trailing comment) after the `{` of `} else {`: the pinned
pattern does not match the line, which is then skipped as unrecognised, so the else block runs under the if condition:\nfor Darwin nothing is applied, for Linux the else branch. -/
theorem C11_else_trailing_blank_witness :
    blockLine { repaired with d31 := false } (Str.ofString "} else {  ") = none ∧
    blockLine repaired (Str.ofString "} else {  ") = some (.elseOpen true) ∧
    tableActions { repaired with d31 := false } none ⟨Str.ofString "Darwin", []⟩ emptyIfText = .ok [] ∧
    tableActions { repaired with d31 := false } none envLinux emptyIfText = .ok [actA] ∧
    tableActions repaired none ⟨Str.ofString "Darwin", []⟩ emptyIfText = .ok [actA] ∧
    tableActions repaired none envLinux emptyIfText = .ok [] := by decide +kernel

/-! ## legacy groups -/

/-- **C11_legacy_groups (runs of `Flavor=` lines).**  For every table text made of lines outside any group
followed by groups — each one or more `Flavor = f` lines (keyword in any letter case, blanks around `=`,
indentation, trailing comments) and then the lines up to the next group — `_rewrite` produces exactly the lines
of the same table with every group written as `if (FLAVOR == f1 || FLAVOR == f2 …) {` … `}`; hence, whatever the
reader variant, the product and the environment, `Table.actions` gives the same result for the legacy text and
for its `if` form. -/
theorem C11_legacy_groups (pre : List Str) (gs : List FGroup) (nl : Bool) (hpre : pre.all passesLine = true)
    (hgs : gs.all FGroup.ok = true) :
    rewrite (legacyText pre gs nl) = rewrite (legacyAsIfText pre gs nl) ∧
    ∀ (v : Variant) (pdir : Option Str) (env : Env),
      tableActions v pdir env (legacyText pre gs nl) = tableActions v pdir env (legacyAsIfText pre gs nl) := by
  have h : rewrite (legacyText pre gs nl) = rewrite (legacyAsIfText pre gs nl) := by
    rw [rewrite_legacy pre gs nl hpre hgs, rewrite_asIf pre gs nl hpre hgs]
  exact ⟨h, fun v pdir env => by simp only [tableActions, parse, h]⟩

/-! ### non-vacuity -/

def legacyPre : List Str := [Str.ofString "envSet(A, 1)  # always"]
def legacyGroups : List FGroup :=
  [ ⟨⟨⟨[], []⟩, Str.ofString "Flavor", [32], [32], Str.ofString "Linux", []⟩,
     [⟨⟨[32], Str.ofString "# too"⟩, Str.ofString "FLAVOR", [], [], Str.ofString "Linux64", [32]⟩],
     Str.ofString "  envSet(B, 2)", [Str.ofString "# c", Str.ofString "  envSet(C, 3)"]⟩,
    ⟨⟨⟨[], []⟩, Str.ofString "flavor", [32], [], Str.ofString "Darwin", []⟩, [], Str.ofString "envSet(B, 4)", []⟩ ]

example : legacyPre.all passesLine = true ∧ legacyGroups.all FGroup.ok = true := by decide +kernel
example : legacyText legacyPre legacyGroups true = Str.ofString
    "envSet(A, 1)  # always\nFlavor = Linux\n FLAVOR=Linux64 # too\n  envSet(B, 2)\n# c\n  envSet(C, 3)\nflavor =Darwin\nenvSet(B, 4)\n" := by
  decide +kernel
example : legacyAsIfText legacyPre legacyGroups true = Str.ofString
    "envSet(A, 1)  # always\nif (FLAVOR == Linux || FLAVOR == Linux64) {\nenvSet(B, 2)\nenvSet(C, 3)\n}\nif (FLAVOR == Darwin) {\nenvSet(B, 4)\n}\n" := by
  decide +kernel

/-- **C11_legacy_groups_old (`Group:` … `End:`).**  For every old-style table text — an optional header
`File = Table` / `Product = …`, lines outside any group, then groups `Group:` / one or more `Flavor = f` (`ANY`
included) / optionally `Qualifiers = "…"` / `Common:` / optionally `Action = setup` / the lines of the group /
`End:`, keywords in any letter case, with blanks, indentation and trailing comments — `_rewrite` produces exactly
the lines of the table with every group written as `if (FLAVOR == f1 || …) {` … `}` (and no header); hence the same
`Table.actions` for both texts. -/
theorem C11_legacy_groups_old (h : Option OHeader) (pre : List Str) (gs : List OGroup) (nl : Bool)
    (hh : ∀ x, h = some x → x.ok = true) (hpre : pre.all passesLine = true) (hgs : gs.all OGroup.ok = true) :
    rewrite (oldLegacyText h pre gs nl) = rewrite (oldLegacyAsIfText pre gs nl) ∧
    ∀ (v : Variant) (pdir : Option Str) (env : Env),
      tableActions v pdir env (oldLegacyText h pre gs nl) = tableActions v pdir env (oldLegacyAsIfText pre gs nl) := by
  have e : rewrite (oldLegacyText h pre gs nl) = rewrite (oldLegacyAsIfText pre gs nl) := by
    rw [rewrite_old_legacy h pre gs nl hh hpre hgs, rewrite_old_asIf pre gs nl hpre hgs]
  exact ⟨e, fun v pdir env => by simp only [tableActions, parse, e]⟩

def oldHeader : OHeader :=
  ⟨⟨⟨[], []⟩, Str.ofString "FILE", [], [], Str.ofString "table", []⟩,
   ⟨⟨[], []⟩, Str.ofString "Product", [32], [32], Str.ofString "foo", []⟩⟩
def oldGroups : List OGroup :=
  [ { group := ⟨⟨[], []⟩, Str.ofString "Group:", []⟩,
      f := ⟨⟨[32, 32], []⟩, Str.ofString "Flavor", [32], [32], Str.ofString "Linux", []⟩,
      more := [⟨⟨[32, 32], []⟩, Str.ofString "FLAVOR", [], [], Str.ofString "ANY", []⟩],
      qual := some ⟨⟨[32, 32], []⟩, Str.ofString "Qualifiers", [32], [32], Str.ofString "\"\"", []⟩,
      common := ⟨⟨[], []⟩, Str.ofString "COMMON:", [32]⟩,
      action := some ⟨⟨[32, 32], []⟩, Str.ofString "Action", [32], [32], Str.ofString "Setup", []⟩,
      body := [Str.ofString "    envSet(B, 2)  # two"],
      end_ := ⟨⟨[], []⟩, Str.ofString "End:", []⟩,
      after := [Str.ofString "print(bye)"] } ]

example : oldHeader.ok = true ∧ oldGroups.all OGroup.ok = true := by decide +kernel
example : oldLegacyText (some oldHeader) [Str.ofString "envSet(A, 1)"] oldGroups true = Str.ofString
    "FILE=table\nProduct = foo\nenvSet(A, 1)\nGroup:\n  Flavor = Linux\n  FLAVOR=ANY\n  Qualifiers = \"\"\nCOMMON: \n  Action = Setup\n    envSet(B, 2)  # two\nEnd:\nprint(bye)\n" := by
  decide +kernel
example : oldLegacyAsIfText [Str.ofString "envSet(A, 1)"] oldGroups true = Str.ofString
    "envSet(A, 1)\nif (FLAVOR == Linux || FLAVOR =~ .*) {\nenvSet(B, 2)  \n}\nprint(bye)\n" := by
  decide +kernel

/-! ## arguments -/

/-- **C11_args.**  An argument list as written — unquoted arguments (no blank, comma, quote) and quoted ones
(anything inside: blanks, commas, `\"` for a double quote, nothing at all), separated by any mix of blanks and
commas, padded with blanks or not — is tokenised into exactly the arguments written, in order; except when the
whole list is one quoted string without a quote inside (the classic spelling of a word list, `C11_args_whole_list`).
Outside the theorem: arguments containing a backslash or one of the characters `\x01`–`\x03`, which the
tokeniser uses for protection. -/
theorem C11_args (pad1 pad2 : Str) (first : WArg) (rest : List (Str × WArg)) (h1 : padOK pad1 = true)
    (h2 : padOK pad2 = true) (hf : first.ok = true) (hr : ∀ p ∈ rest, sepOK p.1 = true ∧ p.2.ok = true)
    (hw : wholeQuoted pad1 first rest pad2 = false) :
    parseArgs repaired (argsText pad1 first rest pad2) = first.val :: rest.map (·.2.val) :=
  parseArgs_written h1 h2 hf hr hw

/-- the classic spelling `setupRequired("foo -j 1.2")`: one pair of quotes around the list denotes its words -/
theorem C11_args_whole_list (v : Str) (hq : quotedVal v = true) (h34 : v.contains 34 = false) :
    parseArgs repaired (argsText [] ⟨v, true⟩ [] []) = splitArgs [] v := by
  have h34' : 34 ∉ v := fun m => by rw [List.contains_iff_mem.mpr m] at h34; cases h34
  have hv : ∀ c ∈ v, c ≠ 92 ∧ c ≠ 1 ∧ c ≠ 2 ∧ c ≠ 3 := by
    intro c m
    have := List.all_eq_true.mp hq c m
    simpa [Bool.and_eq_true, and_assoc] using this
  have : argsText [] ⟨v, true⟩ [] [] = 34 :: v ++ [34] := by simp [argsText, WArg.text, escQ_noquote h34']
  rw [this]
  exact parseArgs_whole h34' hv

/-- a command as written — name in any letter case, blanks before `(`, an optional `;` and blanks after `)` — is
the command its lower-cased name stands for, applied to the tokenised argument text -/
theorem C11_command_line (pdir : Option Str) (name gap argText tl : Str) (cmd : Cmd) (hne : name ≠ [])
    (hn : name.all isWordCh = true) (hg : blank gap = true) (ht : cmdTail tl = true) (h41 : 41 ∉ tl)
    (hc : cmdTable.lookup (Str.lower name) = some cmd) :
    commandLine repaired pdir (name ++ gap ++ [40] ++ argText ++ [41] ++ tl) =
      normalise pdir cmd (parseArgs repaired argText) := by
  unfold commandLine
  rw [cmdLine_written hne hn hg ht h41]
  simp only [hc]

/-- append / prepend and required / optional are told apart, and `envSet` joins its value -/
theorem C11_command_kinds (pdir : Option Str) (args : List Str) :
    normalise pdir .setupRequired args = .act ⟨Cmd.setupRequired.name, dropF args, .optional false⟩ ∧
    normalise pdir .setupOptional args = .act ⟨Cmd.setupRequired.name, dropF args, .optional true⟩ ∧
    normalise pdir .unsetupRequired args = .act ⟨Cmd.unsetupRequired.name, dropF args, .optional false⟩ ∧
    normalise pdir .unsetupOptional args = .act ⟨Cmd.unsetupRequired.name, dropF args, .optional true⟩ ∧
    ((args.length = 2 ∨ args.length = 3) →
      normalise pdir .envPrepend args = .act ⟨Cmd.envPrepend.name, dropF args, .append false⟩ ∧
      normalise pdir .envAppend args = .act ⟨Cmd.envPrepend.name, dropF args, .append true⟩) ∧
    (∀ a b rest, args = a :: b :: rest →
      normalise pdir .envSet args = .act ⟨Cmd.envSet.name, dropF [a, joinSp (b :: rest)], .none⟩) := by
  refine ⟨rfl, rfl, rfl, rfl, ?_, ?_⟩
  · intro h
    rcases h with h | h <;> simp [normalise, h]
  · intro a b rest h; subst h; rfl

/-- **The remaining commands.**  `addAlias`, `declareOptions`, `print`, `prodDir`, `setupEnv` keep the arguments
written (no arity rule); `sourceRequired` is skipped by design; `envUnset` (= `unsetenv` = `pathRemove`) of the
product's own directory variable — written as `PRODUCT_DIR` or by its name — is kept with the variable's name as
its argument, of any other variable it is skipped; the reader refuses (`BadTableContent`) `envUnset` with other
than one argument, `envSet` with fewer than two, `envAppend`/`envPrepend` with fewer than two or more than three. -/
theorem C11_command_kinds_rest (pdir : Option Str) (args : List Str) :
    normalise pdir .addAlias args = .act ⟨Cmd.addAlias.name, dropF args, .none⟩ ∧
    normalise pdir .declareOptions args = .act ⟨Cmd.declareOptions.name, dropF args, .none⟩ ∧
    normalise pdir .doPrint args = .act ⟨Cmd.doPrint.name, dropF args, .none⟩ ∧
    normalise pdir .prodDir args = .act ⟨Cmd.prodDir.name, dropF args, .none⟩ ∧
    normalise pdir .setupEnv args = .act ⟨Cmd.setupEnv.name, dropF args, .none⟩ ∧
    normalise pdir .sourceRequired args = .skip ∧
    (∀ pv a, pdir = some pv → (a = sProductDir ∨ a = pv) →
      normalise pdir .envUnset [a] = .act ⟨Cmd.envUnset.name, dropF [pv], .none⟩) ∧
    (∀ pv a, pdir = some pv → a ≠ sProductDir → a ≠ pv → normalise pdir .envUnset [a] = .skip) ∧
    (∀ a, pdir = none → a ≠ sProductDir → normalise pdir .envUnset [a] = .skip) ∧
    (args.length ≠ 1 → normalise pdir .envUnset args = .bad) ∧
    (args.length < 2 → normalise pdir .envSet args = .bad) ∧
    ((args.length < 2 ∨ 3 < args.length) →
      normalise pdir .envPrepend args = .bad ∧ normalise pdir .envAppend args = .bad) := by
  refine ⟨rfl, rfl, rfl, rfl, rfl, rfl, ?_, ?_, ?_, ?_, ?_, ?_⟩
  · intro pv a hp h; subst hp
    rcases h with h | h <;> subst h <;> simp [normalise]
  · intro pv a hp h1 h2; subst hp; simp [normalise, h1, h2]
  · intro a hp h1; subst hp; simp [normalise, h1]
  · intro h
    match args, h with
    | [], _ => rfl
    | [_], h => simp at h
    | _ :: _ :: _, _ => rfl
  · intro h
    match args, h with
    | [], _ => rfl
    | [_], _ => rfl
    | _ :: _ :: _, h => simp at h; omega
  · intro h
    have : (decide (args.length < 2) || decide (args.length > 3)) = true := by
      rcases h with h | h <;> simp [h]
    simp [normalise, this]

/-- **The documented command words.**  The reader's dictionary maps the lower-cased command word to the command:
`pathAppend`/`pathPrepend`/`pathSet`/`setenv` are `envAppend`/`envPrepend`/`envSet`/`envSet`,
`unsetenv`/`pathRemove` are `envUnset`; every other word stands for itself; anything else is no command. -/
theorem C11_command_words :
    (∀ c ∈ allCmds, cmdTable.lookup (Str.lower c.name) = some c) ∧
    cmdTable.lookup (Str.ofString "pathappend") = some .envAppend ∧
    cmdTable.lookup (Str.ofString "pathprepend") = some .envPrepend ∧
    cmdTable.lookup (Str.ofString "pathset") = some .envSet ∧
    cmdTable.lookup (Str.ofString "setenv") = some .envSet ∧
    cmdTable.lookup (Str.ofString "unsetenv") = some .envUnset ∧
    cmdTable.lookup (Str.ofString "pathremove") = some .envUnset ∧
    cmdTable.length = 20 := by decide +kernel

/-- **C11_written_command.**  A command line as written — indentation, the command word in any letter case, blanks
before `(`, a written argument list (`C11_args`), `)`, an optional `;`, blanks, a trailing comment — whose
arguments hold no `#` and none of the seven old variable names `_rewrite` replaces, is one of the lines
`C11_blocks_text` quantifies over, standing for the action that its command and the arguments written denote
(`normalise`: aliases, append/prepend, required/optional, `envSet` join, `-f` removal), or for nothing when the
reader skips that command by design.  Together with `C11_blocks_text`: a table text made of such command lines
and of chains in any layout yields, for every flavor and list of setup types, exactly the actions written. -/
theorem C11_written_command (pdir : Option Str) (c : WCmd) (hok : c.ok = true) (hd : (c.denote pdir).isSome = true) :
    (c.line pdir).ok pdir = true := by
  cases h : c.denote pdir with
  | none => rw [h] at hd; cases hd
  | some res =>
    have := wcmd_body hok h
    simpa [WCmd.line, h] using this

/-! ### non-vacuity -/

/-- `\tENVAPPEND (PATH, "${PRODUCT_DIR}/my bin", ;) ;  # c` -/
def sampleCmd : WCmd :=
  { wrap := ⟨[9], Str.ofString "# c"⟩, name := Str.ofString "ENVAPPEND", cmd := .envAppend, gap := [32],
    args := .some [] ⟨Str.ofString "PATH", false⟩
      [(Str.ofString ", ", ⟨Str.ofString "${PRODUCT_DIR}/my bin", true⟩), (Str.ofString ", ", ⟨[59], false⟩)] [],
    tl := Str.ofString " ;  " }

example : sampleCmd.raw = Str.ofString "\tENVAPPEND (PATH, \"${PRODUCT_DIR}/my bin\", ;) ;  # c" := by decide +kernel
example : sampleCmd.ok = true := by decide +kernel
example : sampleCmd.denote none = some (some ⟨Str.ofString "envPrepend",
    [Str.ofString "PATH", Str.ofString "${PRODUCT_DIR}/my bin", [59]], .append true⟩) := by decide +kernel

/-- ` PATH , "a b, c" ,"say \"hi\"" "" x ` -/
example : argsText [32] ⟨Str.ofString "PATH", false⟩
      [(Str.ofString " , ", ⟨Str.ofString "a b, c", true⟩), (Str.ofString " ,", ⟨Str.ofString "say \"hi\"", true⟩),
       ([32], ⟨[], true⟩), ([32], ⟨Str.ofString "x", false⟩)] [32]
    = Str.ofString " PATH , \"a b, c\" ,\"say \\\"hi\\\"\" \"\" x " := by decide +kernel
example : (⟨Str.ofString "a b, c", true⟩ : WArg).ok = true ∧ (⟨[], true⟩ : WArg).ok = true ∧
    (⟨Str.ofString "PATH", false⟩ : WArg).ok = true ∧ sepOK (Str.ofString " , ") = true := by decide +kernel
example : parseArgs repaired (Str.ofString " PATH , \"a b, c\" ,\"say \\\"hi\\\"\" \"\" x ")
    = [Str.ofString "PATH", Str.ofString "a b, c", Str.ofString "say \"hi\"", [], Str.ofString "x"] := by decide +kernel
example : commandLine repaired none (Str.ofString "ENVAPPEND (PATH, \"a b\") ; ")
    = .act ⟨Str.ofString "envPrepend", [Str.ofString "PATH", Str.ofString "a b"], .append true⟩ := by decide +kernel

/-! ### the argument tokeniser as pinned (before the repairs of D20, D32, D33) -/

/-- **D20 as pinned.**  `print("1.2", "-j a")`: the pinned tokeniser strips the first and the last quote of the
argument text as if they were one pair; the repaired one keeps the two arguments written. -/
theorem C11_args_quote_pair_witness :
    parseArgs { repaired with d20 := false } (Str.ofString "\"1.2\", \"-j a\"") =
      [Str.ofString "1.2\", \"-j", Str.ofString "a"] ∧
    parseArgs repaired (Str.ofString "\"1.2\", \"-j a\"") = [Str.ofString "1.2", Str.ofString "-j a"] ∧
    parseArgs repaired (Str.ofString "\"foo -j 1.2\"") = [Str.ofString "foo", Str.ofString "-j", Str.ofString "1.2"] := by
  decide +kernel

/-- **D32 as pinned.**  The special case `,\s*"(\s)"` fires on the comma *inside* the first argument of
`print("a, " "b")` (it takes the closing quote, the blank and the next opening quote for `" "`). -/
theorem C11_args_comma_blank_witness :
    parseArgs { repaired with d32 := false } (Str.ofString "\"a, \" \"b\"") = [Str.ofString "a \" \"b"] ∧
    parseArgs repaired (Str.ofString "\"a, \" \"b\"") = [Str.ofString "a, ", Str.ofString "b"] := by
  decide +kernel

/-- **D33 as pinned.**  `"[^"]+"` cannot match the empty argument of `print("", "a b")`; its closing quote pairs
with the next opening quote and the separator is protected instead of the blank inside `"a b"`. -/
theorem C11_args_empty_quoted_witness :
    parseArgs { repaired with d33 := false } (Str.ofString "\"\", \"a b\"")
      = [Str.ofString "\"\", \"a", Str.ofString "b\""] ∧
    parseArgs repaired (Str.ofString "\"\", \"a b\"") = [[], Str.ofString "a b"] := by
  decide +kernel

/-! ## the headline on a stated grammar of table texts -/

/-- **C11_table_text (the headline, on a stated grammar of texts, no hypothesis about the reader).**  For every table
of the grammar of `Spec/C11Grammar.lean` — items that are command lines as written (indentation, command word in any
letter case, blanks, a written argument list with quoted and unquoted arguments and any separators, optional `;`,
trailing comment), blank or comment lines, and `if` / `else if` / `else` chains of any length written with any layout
whose branches hold such lines, conditions in any written form — for every product, flavor (not one of the
evaluator's four special tokens) and list of setup types:
`Table(text, product).actions(flavor, types)` is exactly what the table denotes (`gDenote`): the actions of the
commands outside chains, of each chain those of the first branch whose condition is true, else of the else branch,
in the order written, each command with the arguments written (`WCmd.denote`).
The well-formedness conditions are all syntactic (`GItem.ok`: blanks are blanks, words are words, no `#` or old
variable name inside a command, the number of arguments is one the reader accepts). -/
theorem C11_table_text (env : Env) (hfl : flavorOK env.flavor = true) (pdir : Option Str) (t : List GItem)
    (hok : t.all (GItem.ok pdir) = true) (nl : Bool) :
    tableActions repaired pdir env (gText t nl) = .ok (gDenote pdir env t) := by
  rw [gText_eq pdir, C11_blocks_text env hfl pdir _ (gtable_ok hok) nl, gtable_denote env hok]

def cmdSetA : WCmd :=
  { wrap := ⟨[9], []⟩, name := Str.ofString "envSet", cmd := .envSet, gap := [],
    args := .some [] ⟨Str.ofString "A", false⟩ [(Str.ofString ", ", ⟨Str.ofString "1", false⟩)] [], tl := [] }
def cmdSetB : WCmd :=
  { wrap := ⟨Str.ofString "      ", Str.ofString "# comment"⟩, name := Str.ofString "SETENV", cmd := .envSet, gap := [32],
    args := .some [] ⟨Str.ofString "B", false⟩ [(Str.ofString ", ", ⟨Str.ofString "x y", true⟩)] [], tl := Str.ofString ";  " }
def cmdUnset : WCmd :=
  { wrap := ⟨[], []⟩, name := Str.ofString "pathRemove", cmd := .envUnset, gap := [],
    args := .some [] ⟨Str.ofString "PATH", false⟩ [] [], tl := [] }

def sampleGTable : List GItem :=
  [ .line (.note (Str.ofString "# a table")),
    .line (.cmd sampleCmd),
    .chain
      ⟨⟨Str.ofString "  ", Str.ofString "# only there"⟩, ⟨Str.ofString "IF", [32], [32], [32, 32, 32]⟩,
        .atom ⟨Str.ofString "FLAVOR", .flavor, false, Str.ofString "Linux", none, [32], [32], [32]⟩, [32],
        [.cmd cmdSetA, .note []]⟩
      [(⟨[32], Str.ofString "Else", [32]⟩, ⟨⟨Str.ofString "  ", []⟩, ⟨Str.ofString "if", [32], [], []⟩, condBuild, [], []⟩)]
      (some ⟨⟨Str.ofString "  ", Str.ofString "# otherwise"⟩, ⟨[], Str.ofString "else", []⟩, [32],
        [.cmd cmdUnset, .cmd cmdSetB]⟩)
      ⟨Str.ofString "  ", []⟩ [] ]

example : gText sampleGTable true = Str.ofString
    "# a table\n\tENVAPPEND (PATH, \"${PRODUCT_DIR}/my bin\", ;) ;  # c\n  IF ( FLAVOR == Linux ) {   # only there\n\tenvSet(A, 1)\n\n  } Else if (TYPE == build){\n  }else{ # otherwise\npathRemove(PATH)\n      SETENV (B, \"x y\");  # comment\n  }\n" := by
  decide +kernel
example : sampleGTable.all (GItem.ok none) = true := by decide +kernel
example : gDenote none envLinux sampleGTable = [⟨Str.ofString "envPrepend",
    [Str.ofString "PATH", Str.ofString "${PRODUCT_DIR}/my bin", [59]], .append true⟩, actA] ∧
    gDenote none ⟨Str.ofString "Darwin", []⟩ sampleGTable = [⟨Str.ofString "envPrepend",
    [Str.ofString "PATH", Str.ofString "${PRODUCT_DIR}/my bin", [59]], .append true⟩, actB] := by decide +kernel

/-- **C11_legacy_denotes (legacy `Flavor=` groups mean what the corresponding `if` blocks mean).**  For every legacy
table of the grammar — command / blank / comment lines, then groups, each one or more `Flavor = f` lines (keyword in
any letter case, blanks, indentation, comments; `f` a plain word) followed by a command line and further command /
blank / comment lines up to the next group — for every product, flavor and list of setup types:
`Table(text, product).actions(flavor, types)` is the actions of the lines before the first group followed, for each
group in order, by the actions of its lines when the flavor is one of the group's flavors (and nothing otherwise).
Composition of `_rewrite` (`C11_legacy_groups`), the two patterns of `_read`, the block state machine,
`Table.actions` and the condition evaluator on `FLAVOR == f1 || FLAVOR == f2 …`. -/
theorem C11_legacy_denotes (env : Env) (hfl : flavorOK env.flavor = true) (pdir : Option Str) (pre : List GLine)
    (gs : List LGroup) (hpre : pre.all (GLine.ok pdir) = true) (hgs : gs.all (LGroup.ok pdir) = true) (nl : Bool) :
    tableActions repaired pdir env (lText pre gs nl) = .ok (lDenote pdir env pre gs) :=
  legacy_denotes env hfl pdir pre gs hpre hgs nl

/-! ### non-vacuity -/

def sampleLGroups : List LGroup :=
  [ ⟨⟨⟨[], []⟩, Str.ofString "Flavor", [32], [32], Str.ofString "Linux", []⟩,
     [⟨⟨[32], Str.ofString "# too"⟩, Str.ofString "FLAVOR", [], [], Str.ofString "Linux64", [32]⟩],
     cmdSetA, [.note (Str.ofString "# c"), .cmd cmdSetB]⟩,
    ⟨⟨⟨[], []⟩, Str.ofString "flavor", [32], [], Str.ofString "Darwin", []⟩, [], cmdUnset, []⟩ ]

example : lText [.cmd sampleCmd] sampleLGroups true = Str.ofString
    "\tENVAPPEND (PATH, \"${PRODUCT_DIR}/my bin\", ;) ;  # c\nFlavor = Linux\n FLAVOR=Linux64 # too\n\tenvSet(A, 1)\n# c\n      SETENV (B, \"x y\");  # comment\nflavor =Darwin\npathRemove(PATH)\n" := by
  decide +kernel
example : [GLine.cmd sampleCmd].all (GLine.ok none) = true ∧ sampleLGroups.all (LGroup.ok none) = true := by decide +kernel
example : lDenote none ⟨Str.ofString "Linux64", []⟩ [.cmd sampleCmd] sampleLGroups = [⟨Str.ofString "envPrepend",
      [Str.ofString "PATH", Str.ofString "${PRODUCT_DIR}/my bin", [59]], .append true⟩, actA, actB] ∧
    lDenote none ⟨Str.ofString "SunOS", []⟩ [.cmd sampleCmd] sampleLGroups = [⟨Str.ofString "envPrepend",
      [Str.ofString "PATH", Str.ofString "${PRODUCT_DIR}/my bin", [59]], .append true⟩] := by decide +kernel

/-- **C11_legacy_denotes_old (`Group:` … `End:`).**  The same for old-style tables — an optional header
`File = Table` / `Product = …`, command / blank / comment lines, then groups `Group:` / one or more `Flavor = f` /
optionally `Qualifiers = "…"` / `Common:` / optionally `Action = setup` / command, blank and comment lines / `End:` /
further such lines — whose flavors are plain words other than `ANY`: `Table.actions` gives the lines outside the
groups always and a group's lines exactly when the flavor is one of the group's flavors, in the order written. -/
theorem C11_legacy_denotes_old (env : Env) (hfl : flavorOK env.flavor = true) (pdir : Option Str) (h : Option OHeader)
    (pre : List GLine) (gs : List OLGroup) (hh : ∀ x, h = some x → x.ok = true) (hpre : pre.all (GLine.ok pdir) = true)
    (hgs : gs.all (OLGroup.ok pdir) = true) (nl : Bool) :
    tableActions repaired pdir env (olText h pre gs nl) = .ok (olDenote pdir env pre gs) :=
  old_legacy_denotes env hfl pdir h pre gs hh hpre hgs nl

def sampleOLGroups : List OLGroup :=
  [ { group := ⟨⟨[], []⟩, Str.ofString "Group:", []⟩,
      f := ⟨⟨[32, 32], []⟩, Str.ofString "Flavor", [32], [32], Str.ofString "Linux", []⟩,
      more := [⟨⟨[32, 32], []⟩, Str.ofString "FLAVOR", [], [], Str.ofString "Linux64", []⟩],
      qual := some ⟨⟨[32, 32], []⟩, Str.ofString "Qualifiers", [32], [32], Str.ofString "\"\"", []⟩,
      common := ⟨⟨[], []⟩, Str.ofString "COMMON:", [32]⟩,
      action := some ⟨⟨[32, 32], []⟩, Str.ofString "Action", [32], [32], Str.ofString "Setup", []⟩,
      body := [.cmd cmdSetA, .note (Str.ofString "  # two")],
      end_ := ⟨⟨[], []⟩, Str.ofString "End:", []⟩,
      after := [.cmd cmdSetB] } ]

example : olText (some oldHeader) [.cmd sampleCmd] sampleOLGroups true = Str.ofString
    "FILE=table\nProduct = foo\n\tENVAPPEND (PATH, \"${PRODUCT_DIR}/my bin\", ;) ;  # c\nGroup:\n  Flavor = Linux\n  FLAVOR=Linux64\n  Qualifiers = \"\"\nCOMMON: \n  Action = Setup\n\tenvSet(A, 1)\n  # two\nEnd:\n      SETENV (B, \"x y\");  # comment\n" := by
  decide +kernel
example : sampleOLGroups.all (OLGroup.ok none) = true := by decide +kernel
example : olDenote none ⟨Str.ofString "Linux64", []⟩ [] sampleOLGroups = [actA, actB] ∧
    olDenote none ⟨Str.ofString "Darwin", []⟩ [] sampleOLGroups = [actB] := by decide +kernel

/-! ## `declareOptions` (what `eups declare` reads from the table) -/

/-- **C11_declare_options_selection.**  `Table.getDeclareOptions(flavor, types)` — a second copy of the branch
selection loop — reads its options off exactly the actions `Table.actions(flavor, types)` returns, for every table
text, reader variant, product and environment (errors included). -/
theorem C11_declare_options_selection (v : Variant) (pdir : Option Str) (env : Env) (text : Str) :
    tableDeclOpts v pdir env text = (tableActions v pdir env text).bind fun as => .ok (blockOpts [] as) :=
  tableDeclOpts_actions v pdir env text

/-- **C11_declare_options_text.**  For every written table (`C11_blocks_text`): the options `eups declare` sees are
those of the `declareOptions` commands among the actions the table denotes — unconditional ones and those of the
one applicable branch of every chain, in order, a later option replacing an earlier one with the same key. -/
theorem C11_declare_options_text (env : Env) (hfl : flavorOK env.flavor = true) (pdir : Option Str) (t : List TItemT)
    (hok : t.all (TItemT.ok pdir) = true) (nl : Bool) :
    tableDeclOpts repaired pdir env (tableText t nl) = .ok (blockOpts [] (denoteTable env (tableAbs t))) := by
  rw [tableDeclOpts_actions, C11_blocks_text env hfl pdir t hok nl]; rfl

/-- the same on the grammar of `C11_table_text`: the options `eups declare` sees are those of the `declareOptions`
commands among the actions the table denotes -/
theorem C11_table_declare_options (env : Env) (hfl : flavorOK env.flavor = true) (pdir : Option Str) (t : List GItem)
    (hok : t.all (GItem.ok pdir) = true) (nl : Bool) :
    tableDeclOpts repaired pdir env (gText t nl) = .ok (blockOpts [] (gDenote pdir env t)) := by
  rw [tableDeclOpts_actions, C11_table_text env hfl pdir t hok nl]; rfl

/-- **C11_declare_option_words.**  `=` separates the words of `declareOptions` like blanks and commas do: for
arguments without white space inside (every unquoted argument) the words are the non-empty pieces between `=`
signs — so `k=v`, `k = v`, `k =v`, `k= v` all give the words `k`, `v`; and one option written `k = v` inside a quoted
argument, with any white space around the `=`, gives `k`, `v` too. -/
theorem C11_declare_option_words :
    (∀ args : List Str, (∀ a ∈ args, noSpace a = true) →
      optWords args = (args.flatMap (splitOn 61 [])).filter (fun w => !w.isEmpty)) ∧
    (∀ k s1 s2 v : Str, 61 ∉ k → 61 ∉ v → blank s1 = true → blank s2 = true →
      (k.getLast?.map Str.isSpace).getD false = false → (v.head?.map Str.isSpace).getD false = false →
      splitEq (k ++ s1 ++ 61 :: (s2 ++ v)) = [k, v]) := by
  refine ⟨?_, fun k s1 s2 v hk hv h1 h2 hkl hvh => splitEq_written hk hv h1 h2 hkl hvh⟩
  intro args h
  simp only [optWords]
  congr 1
  induction args with
  | nil => rfl
  | cons a rest ih =>
    simp only [List.flatMap_cons, splitEq_noSpace (h a (by simp)), ih (fun x hx => h x (by simp [hx]))]

/-- **C11_declare_options_written.**  The docstring's example in general: a `declareOptions` command whose arguments
are options `k = v`, each written in any of the four unquoted styles (`k=v`, `k = v`, `k =v`, `k= v`; keys and values
non-empty, without `=` and white space), declares exactly the pairs written, in order — `getDeclareOptions` folds
them into its dictionary, a later pair replacing an earlier one with the same key. -/
theorem C11_declare_options_written (os : List (Str × Str × OptStyle))
    (h : ∀ o ∈ os, optWord o.1 = true ∧ optWord o.2.1 = true) (d : Dict) :
    blockOpts d [⟨Cmd.declareOptions.name, os.flatMap fun o => optArgs o.1 o.2.1 o.2.2, .none⟩]
      = (os.map fun o => (o.1, o.2.1)).foldl (fun o p => dictSet o p.1 p.2) d := by
  simp [blockOpts, pairUp_written os h]

example : optArgs (Str.ofString "flavor") (Str.ofString "NULL") .joined ++ optArgs (Str.ofString "name") (Str.ofString "foo") .spaced
    = [Str.ofString "flavor=NULL", Str.ofString "name", [61], Str.ofString "foo"] ∧
    optWord (Str.ofString "flavor") = true ∧ optWord (Str.ofString "1.2") = true := by decide

/-! ### non-vacuity -/

/-- `declareOptions(flavor=NULL, name = foo, "x_y  =1.2", flavor= Linux, version)` as tokenised -/
def optsAction : Action :=
  ⟨Cmd.declareOptions.name, [Str.ofString "flavor=NULL", Str.ofString "name", [61], Str.ofString "foo", Str.ofString "x_y  =1.2",
    Str.ofString "flavor=", Str.ofString "Linux", Str.ofString "version"], .none⟩

example : parseArgs repaired (Str.ofString "flavor=NULL, name = foo, \"x_y  =1.2\", flavor= Linux, version") = optsAction.args := by
  decide +kernel
example : blockOpts [] [actA, optsAction] =
    [(Str.ofString "flavor", Str.ofString "Linux"), (Str.ofString "name", Str.ofString "foo"),
     (Str.ofString "x_y", Str.ofString "1.2")] := by decide +kernel

/-! ### `getDeclareOptions` as pinned (before the repair of D111) -/

/-- an `if` / `else if` chain of eight branches, each declaring a flavor -/
def longChainText : Str := Str.ofString "if (FLAVOR == F0) {\n  declareOptions(flavor=G0)\n} else if (FLAVOR == F1) {\n  declareOptions(flavor=G1)\n} else if (FLAVOR == F2) {\n  declareOptions(flavor=G2)\n} else if (FLAVOR == F3) {\n  declareOptions(flavor=G3)\n} else if (FLAVOR == F4) {\n  declareOptions(flavor=G4)\n} else if (FLAVOR == F5) {\n  declareOptions(flavor=G5)\n} else if (FLAVOR == F6) {\n  declareOptions(flavor=G6)\n} else if (FLAVOR == F7) {\n  declareOptions(flavor=G7)\n}\n"

/-- what the reader makes of it: one entry of `_actions` with 17 elements -/
def longChain : Chain :=
  (List.range 8).flatMap (fun i => [Item.cond (Str.ofString "FLAVOR == F" ++ [48 + i]),
    Item.blk [⟨Cmd.declareOptions.name, [Str.ofString "flavor=G" ++ [48 + i]], .none⟩]]) ++ [Item.blk []]

/-- **D111 as pinned.**  On a chain of more than seven branches the loop of `getDeclareOptions` stops in the debugger
(`pdb.set_trace()`, left in the library) before it evaluates anything — for every flavor and setup type;
`Table.actions` on the same table is fine, and so is the repaired loop. -/
theorem C11_declare_options_debugger_witness :
    parse repaired none longChainText = .ok [longChain] ∧
    (∀ env d, declOptsGoPinned repaired env d [longChain] = .ok none) ∧
    actions repaired ⟨Str.ofString "F7", []⟩ [longChain]
      = .ok [⟨Cmd.declareOptions.name, [Str.ofString "flavor=G7"], .none⟩] ∧
    declOptsGo repaired ⟨Str.ofString "F7", []⟩ [] [longChain] = .ok [(Str.ofString "flavor", Str.ofString "G7")] ∧
    declOptsGo repaired ⟨Str.ofString "SunOS", []⟩ [] [longChain] = .ok [] := by
  refine ⟨by decide +kernel, fun env d => ?_, by decide +kernel, by decide +kernel, by decide +kernel⟩
  have : longChain.length > 15 := by decide
  simp [declOptsGoPinned, this]

/-! ## the setup type: from the command line to `Table.actions` -/

open EupsModel.SetupType in
/-- **C11_setup_type_option.**  `setup --type "<words>"` (the option string reaches `Eups(setupType=…)` as it is):
words separated by non-empty runs of blanks and commas, every word a valid setup type, name exactly those words, in
order; `--exact` adds `exact` when it is not among them; `Eups.exact_version` says whether `exact` is among the
types.  These are the types `Eups.setup` hands to `Table.actions(flavor, setupType)`, i.e. the `env.types` of
`C11_cond` / `C11_table_text`: `TYPE == w` holds iff `w` is one of the words (or `exact` under `--exact`).
A word that is not a valid setup type is refused (`EupsException`). -/
theorem C11_setup_type_option (valid : List Str) (first : Str) (rest : List (Str × Str)) (exactOpt : Bool)
    (hf : SetupType.wordOK first = true) (hr : ∀ p ∈ rest, SetupType.sepOK p.1 = true ∧ SetupType.wordOK p.2 = true) :
    normTypes valid (setupArg (first ++ rest.flatMap fun p => p.1 ++ p.2)) exactOpt =
      (let words := first :: rest.map (·.2)
       let ts := if exactOpt && !words.contains sExact then words ++ [sExact] else words
       if words.all (fun t => valid.contains t) then some (ts, ts.contains sExact) else none) := by
  simp only [normTypes, setupArg, argTypes_words first rest hf hr]

open EupsModel.SetupType in
/-- **C11_setup_type_cmd_option.**  `eups <cmd> -T "<words>"` (`cmd.py` passes `str.split()` of the option): words
separated by runs of white space, with or without white space before the first and after the last, name exactly those
words (a comma is part of a word on this path). -/
theorem C11_setup_type_cmd_option (valid : List Str) (pad1 first : Str) (rest : List (Str × Str)) (pad2 : Str)
    (exactOpt : Bool) (h1 : pad1.all Str.isSpace = true) (hf : wsWord first = true)
    (hr : ∀ p ∈ rest, wsSep p.1 = true ∧ wsWord p.2 = true) (h2 : pad2.all Str.isSpace = true) :
    normTypes valid (cmdArg (pad1 ++ first ++ (rest.flatMap fun p => p.1 ++ p.2) ++ pad2)) exactOpt =
      (let words := first :: rest.map (·.2)
       let ts := if exactOpt && !words.contains sExact then words ++ [sExact] else words
       if words.all (fun t => valid.contains t) then some (ts, ts.contains sExact) else none) := by
  simp only [cmdArg_words pad1 first rest pad2 h1 hf hr h2, normTypes, argTypes]

open EupsModel.SetupType in
/-- **C11_setup_type_sequence.**  Evaluations of a table through one live `Eups` object — dependency walks
(`Table.dependencies(Eups, followExact)`, inexact ones included) and evaluations as `Eups.setup` makes them
(`table.actions(flavor, setupType=self.setupType)`), in any order and number — never change `Eups.setupType`: every
step is evaluated for the initial types (an inexact walk reads the table without `exact`, on a list of its own), so a
later `if (type == exact) {A} else {B}` keeps taking the branch the option named. -/
theorem C11_setup_type_sequence (ex : Bool) (pdir : Option Str) (fl text : Str) (ts : List Str) (steps : List Step) :
    runSeq ex pdir fl text ts steps = (steps.map fun st => (stepOut ex pdir fl text ts st).1) ∧
    (∀ o ∈ runSeq ex pdir fl text ts steps, o.state = ts) ∧
    (stepOut ex pdir fl text ts .acts).1.actions = some (tableActions repaired pdir ⟨fl, ts⟩ text) ∧
    (∀ fe, (stepOut ex pdir fl text ts (.deps fe)).1.asked = some (depTypes (fe.getD ex) ts)) := by
  refine ⟨runSeq_stable ex pdir fl text steps ts, ?_, rfl, fun _ => rfl⟩
  intro o ho
  rw [runSeq_stable] at ho
  obtain ⟨st, _, rfl⟩ := List.mem_map.mp ho
  exact (stepOut_state ex pdir fl text ts st).2

open EupsModel.SetupType in
/-- **C11_dependencies_types.**  `Table.dependencies` reads the table for the same types when it follows exact
versions, and for the types other than `exact` (order kept) when it does not. -/
theorem C11_dependencies_types (ts : List Str) :
    depTypes true ts = ts ∧ ∀ w, (depTypes false ts).contains w = (ts.contains w && w != sExact) :=
  ⟨rfl, fun w => by simp only [depTypes, Bool.false_eq_true, if_false]; exact contains_filter_ne ts sExact w⟩

open EupsModel.SetupType in
example : normTypes [sExact, Str.ofString "build"] (setupArg (Str.ofString "build, exact")) false
    = some ([Str.ofString "build", sExact], true) ∧
    normTypes [sExact, Str.ofString "build"] (setupArg (Str.ofString "build")) true
    = some ([Str.ofString "build", sExact], true) ∧
    normTypes [sExact, Str.ofString "build"] (cmdArg (Str.ofString " build  exact ")) false
    = some ([Str.ofString "build", sExact], true) ∧
    normTypes [sExact, Str.ofString "build"] (setupArg (Str.ofString "build bogus")) false = none ∧
    -- not claimed either way: a separator at an end of the option names the empty type, which is refused
    normTypes [sExact, Str.ofString "build"] (setupArg (Str.ofString "build ")) false = none := by decide +kernel
open EupsModel.SetupType in
example : SetupType.wordOK (Str.ofString "build") = true ∧ SetupType.sepOK (Str.ofString ", ") = true := by decide

/-! ## the default product -/

/-- **C11_default_product.**  With a default product configured (`hooks.config.Eups.defaultProduct`, usually
`toolchain`; `addDefaultProduct` not `False`) `Table(text, product).actions(flavor, types)` is what it is without one
followed by one implicit, silent `setupOptional` of the default product (its name, the version and `--tag tag` when
configured) — unconditional, after everything the text denotes, for every text, flavor and list of setup types, errors
included; without one (`none`) nothing is added.  With `C11_table_text`: the actions written, then the implicit one. -/
theorem C11_default_product (pdir : Option Str) (env : Env) (text : Str) :
    (∀ d, tableActionsD repaired pdir (some d) env text
      = (tableActions repaired pdir env text).bind fun as => .ok (as ++ [implicitAction d])) ∧
    (∀ v, tableActionsD v pdir none env text = tableActions v pdir env text) :=
  ⟨fun d => tableActionsD_some pdir d env text, fun v => tableActionsD_none v pdir env text⟩

example : implicitAction ⟨Str.ofString "toolchain", none, none⟩ = ⟨Str.ofString "setupRequired", [Str.ofString "toolchain"], .implicit⟩ ∧
    implicitAction ⟨Str.ofString "base", some (Str.ofString "1.0"), some (Str.ofString "stable")⟩
      = ⟨Str.ofString "setupRequired", [Str.ofString "base", Str.ofString "1.0", Str.ofString "--tag", Str.ofString "stable"], .implicit⟩ := by
  decide

end EupsModel.C11
