import EupsModel.Lemmas.LockRStale
import EupsModel.Lemmas.LockRKill
/-! C09 — stale locks and `eups admin clearLocks` (property theorems).  "Released locks leave no residue that blocks
later commands" is about RELEASED locks.  The lock of a process that was killed outright is never released: the protocol
keeps honouring it — safely, under every schedule — until the administrator clears it; `clearLocks` frees the lock, and
is outside the protocol (it does not spare live holders). -/
namespace EupsModel.C09
open EupsModel.Lock (Pid Kind Err)
open EupsModel.LockR

/-- **A stale lock blocks** every request incompatible with it, of every process that is not the dead owner's child,
under every schedule and for ever: that process never gets into its command body. -/
theorem C09_stale_lock_blocks (kind : Pid → Kind) (lp : Pid → Option Pid) (tries : Pid → Nat)
    (k : Kind) (g i : Pid) (hgi : g ≠ i) (hlp : lp i ≠ some g) (hinc : kind i = .ex ∨ k = .ex) (sched : List Pid) :
    (run (initStale kind lp tries [(k, g)]) sched).pc i ≠ .hold ∧
    (k, g) ∈ (run (initStale kind lp tries [(k, g)]) sched).files := by
  have h0 : Blocked (initStale kind lp tries [(k, g)]) (k, g) i := by
    refine ⟨by simp [initStale], by simp [initStale], by simp [initStale], ?_⟩
    simp only [initStale]
    split <;> simp
  have := blocked_run _ (k, g) i sched hgi (by simpa [initStale] using hlp) (by simpa [initStale] using hinc) h0
  exact ⟨this.noHold, this.file⟩

/-- **`clearLocks` frees the lock**: whatever state the lock directory is in (stale files, an empty directory), after
`eups admin clearLocks` a request of either kind made while the other processes are at rest is granted in three calls. -/
theorem C09_clearLocks_frees (s : St) (i : Pid) (l : Nat) (hpc : s.pc i = .mkdir l) :
    (run (clearLocks s) [i, i, i]).pc i = .hold :=
  grant_free (s := clearLocks s) (by simpa [clearLocks] using hpc) rfl rfl

/-- … and on a stack where nothing is going on it changes nothing (every configuration, every schedule). -/
theorem C09_clearLocks_idle_is_identity (kind : Pid → Kind) (lp : Pid → Option Pid) (tries : Pid → Nat)
    (sched : List Pid) (hq : ∀ i, engaged ((run (init kind lp tries) sched).pc i) = false) :
    clearLocks (run (init kind lp tries) sched) = run (init kind lp tries) sched := by
  have h := inv_run _ sched (inv_init kind lp tries)
  have hd : (run (init kind lp tries) sched).dir = false := by
    cases hd : (run (init kind lp tries) sched).dir with
    | false => rfl
    | true =>
      obtain ⟨q, hq'⟩ := h.resp hd
      rw [hq q] at hq'; cases hq'
  have hf : (run (init kind lp tries) sched).files = [] := by
    cases hf : (run (init kind lp tries) sched).files with
    | nil => rfl
    | cons x xs =>
      have := h.inDir (by rw [hf]; simp)
      rw [hd] at this; cases this
  generalize run (init kind lp tries) sched = s at *
  cases s; simp_all [clearLocks]

/-- `clearLocks` is the administrator's override, not part of the protocol: run while a command holds the lock, it lets
the next requester in beside it (negation witness, by design). -/
theorem C09_clearLocks_overrides_holders_witness :
    let s := run (clearLocks (run (init (fun _ => .ex) (fun _ => none) (fun _ => 0)) [0, 0, 0])) [1, 1, 1]
    s.pc 0 = .hold ∧ s.pc 1 = .hold ∧ ¬ related s 0 1 := by decide

/-- non-vacuity: the ghost E₉ blocks the reader 0 (refused) and the updater 1 (two attempts, refused); after
`clearLocks` a later reader 2 is granted the lock -/
example :
    let kind : Pid → Kind := fun i => if i = 1 ∨ i = 9 then .ex else .sh
    let s := run (initStale kind (fun _ => none) (fun i => if i = 1 then 1 else 0) [(.ex, 9)])
      [0, 0, 0, 0, 0, 0, 0, 0, 1, 1, 1, 1, 1, 1, 9]
    s.pc 0 = .failedAcq .runtime ∧ s.pc 1 = .failedAcq .runtime ∧ s.files = [(.ex, 9)] ∧
    (run (clearLocks s) [2, 2, 2]).pc 2 = .hold := by decide

/-- **Exclusion survives kills**: every configuration, every schedule of file-system calls, of SIGINT/SIGTERM delivered
to command bodies, and of SIGKILLs that stop any process dead at ANY point of its `takeLocks`, body or `giveLocks`
(leaving whatever it had put into the lock directory): never two unrelated processes in their command bodies with one
of them holding an exclusive lock. -/
theorem C09_mutex_with_kills (kind : Pid → Kind) (lp : Pid → Option Pid) (tries : Pid → Nat) (evs : List KEv) :
    Mutex (runK (init kind lp tries) evs) := by
  have h := minv_runK _ evs (minv_init kind lp tries)
  intro i j hij hnr hi hk
  cases hb : inBody ((runK (init kind lp tries) evs).pc j) with
  | false => rfl
  | true =>
    have hj : (runK (init kind lp tries) evs).pc j = .hold := by
      cases hpc : (runK (init kind lp tries) evs).pc j <;> simp_all [inBody]
    exact absurd (h.excl i j hij hi hj hnr (Or.inl hk)) id

/-- non-vacuity: E₀ is killed between `create` and its look — its file stays; E₁ is turned away at the gate for good -/
example :
    let s := runK (init (fun _ => .ex) (fun _ => none) (fun _ => 1))
      [.call 0, .call 0, .kill 0, .call 1, .call 1, .call 1, .call 1, .call 1, .call 1, .call 0]
    s.pc 0 = .killed ∧ s.pc 1 = .failedAcq .runtime ∧ s.files = [(.ex, 0)] := by decide

end EupsModel.C09
