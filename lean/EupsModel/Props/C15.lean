import EupsModel.Lemmas.Cache
import EupsModel.Lemmas.DryRun
/-! C15 — dry-run (-n) commands change nothing.  Property theorems only.

The model threads `noaction` through `Model/Db.lean` exactly where `Eups.py` tests it: in `declare` around
the version record (l.2651) and around the tag move (l.2686), in `unassignTag` before the database update
(l.2235), in `undeclare` before `Database.undeclare` (l.2816), in `remove` around `rmtree` (l.3291).  The
theorem is therefore a statement about that guard structure; the tie to the code is the correspondence of
`harness/c15.py` (byte hash of the stacks around every dry run + the static guard map of the four methods). -/
namespace EupsModel.C15
open EupsModel.Db EupsModel.Cache

/-- A dry run emits no effect at all, whatever the state of the database, of the in-memory stacks and of the
directories, and whatever the arguments: `declare` (new declaration, redeclaration, conflicting redeclaration,
tag move, tag only, `tablefile="none"`, forced, with external files), `undeclare` (with or without version, tag only,
version-and-tag), `unassignTag`, `remove`. -/
theorem C15_noaction_emits_nothing (nst : Nat) (c : Cmd) (h : c.noaction = true) (p : Proc) :
    (run nst c p).2 = p := run_noaction nst c h p

/-- For every state of the world and every listed command run with `noaction` by any user (killed anywhere
or not): the database a fresh reader sees, the modification time of every record (no version or chain file is
rewritten), the installation directories and the files of the extra directories (`-L`) are exactly what they
were.  Only cache files may differ: loading
the stacks may have rebuilt a stale cache, which the property excludes. -/
theorem C15_noaction_is_identity (w : World) (u : User) (c : Cmd) (crash : Option Nat) (h : c.noaction = true) :
    (step w (.run u c crash)).db = w.db ∧ (step w (.run u c crash)).dirs = w.dirs ∧
      (step w (.run u c crash)).touch = w.touch ∧ (step w (.run u c crash)).extras = w.extras :=
  step_of_empty_trace true w u c crash (fun p hp => by rw [run_noaction w.nst c h p]; exact hp)

/-- what one process of a history does when its command is a dry run: it loads the stacks, and that is all -/
theorem stepG_noaction (fixed : Bool) (w : World) (u : User) (c : Cmd) (crash : Option Nat) (h : c.noaction = true) :
    (stepG fixed w (.run u c crash)).w = (load w u c.self).2.2 ∧ (stepG fixed w (.run u c crash)).trace = [] := by
  simp only [stepG]
  generalize load w u c.self = l
  obtain ⟨m, fl, w1⟩ := l
  dsimp only
  rw [run_noaction w.nst c h]
  have hc : ∀ k, cutAt [] k = ([], none) := cutAt_nil
  cases crash with
  | none => exact ⟨rfl, rfl⟩
  | some k => dsimp only; rw [hc k]; exact ⟨rfl, rfl⟩

/-- **A dry run is a query.**  For every state of the world — database, record modification times, directories,
extra files, the cache files of every user — every user, every one of the listed commands run with `noaction`,
killed anywhere or not: the world afterwards is, field for field, the world after a command that only *reads* the
stacks with the same flavor (`eups list`).  Whatever a dry run does to cache files is what loading the stacks does
(a stale cache is rebuilt); nothing else is written anywhere. -/
theorem C15_noaction_is_query (w : World) (u : User) (c : Cmd) (crash : Option Nat) (h : c.noaction = true) :
    step w (.run u c crash) = step w (.run u (.query c.self) none) := by
  unfold step
  rw [(stepG_noaction true w u c crash h).1, (stepG_noaction true w u (.query c.self) none rfl).1]
  rfl

/-- **Byte level.**  The same on the record files of `Model/DbFile.lean` (`ups_db/<product>/<version>.version`
with one block per flavor, `<tag>.chain`): after a dry run, from any files `F` and any world — related to `F` or
not — the files are the same list of files, each with the same blocks in the same order; no file is created,
rewritten, reordered or removed. -/
theorem C15_noaction_files_identical (F : DbFile.FileDb) (w : World) (u : User) (c : Cmd) (crash : Option Nat)
    (h : c.noaction = true) :
    (stepF (F, w) (.run u c crash)).1 = F ∧ (stepF (F, w) (.run u c crash)).2 = step w (.run u (.query c.self) none) := by
  refine ⟨?_, ?_⟩
  · simp only [stepF]; rw [(stepG_noaction true w u c crash h).2]; rfl
  · exact C15_noaction_is_query w u c crash h

/-- **After every history.**  From the empty stacks, after any history of commands (processes of any user and
flavor, killed anywhere, cache files deleted, directories deleted by hand), a dry run of any listed command leaves
the record files (byte level), the database a fresh reader sees, the installation directories and the extra files
exactly as the history left them. -/
theorem C15_noaction_after_history (nst : Nat) (dirs : List DirEnt) (tfiles : List TFile) (hist : List WCmd)
    (u : User) (c : Cmd) (crash : Option Nat) (h : c.noaction = true) :
    (runHistoryF nst dirs (hist ++ [.run u c crash]) tfiles).1 = (runHistoryF nst dirs hist tfiles).1 ∧
    (runHistoryF nst dirs (hist ++ [.run u c crash]) tfiles).2.db = (runHistoryF nst dirs hist tfiles).2.db ∧
    (runHistoryF nst dirs (hist ++ [.run u c crash]) tfiles).2.dirs = (runHistoryF nst dirs hist tfiles).2.dirs ∧
    (runHistoryF nst dirs (hist ++ [.run u c crash]) tfiles).2.extras = (runHistoryF nst dirs hist tfiles).2.extras := by
  simp only [runHistoryF, List.foldl_append, List.foldl_cons, List.foldl_nil]
  generalize List.foldl stepF (DbFile.FileDb.empty, World.init nst dirs tfiles) hist = Fw
  obtain ⟨F, w⟩ := Fw
  obtain ⟨h1, h2⟩ := C15_noaction_files_identical F w u c crash h
  obtain ⟨k1, k2, _, k4⟩ := C15_noaction_is_identity w u c crash h
  refine ⟨h1, ?_, ?_, ?_⟩
  · show (stepG true w (.run u c crash)).w.db = w.db; exact k1
  · show (stepG true w (.run u c crash)).w.dirs = w.dirs; exact k2
  · show (stepG true w (.run u c crash)).w.extras = w.extras; exact k4

/-- **"... report what they would do".**  For every state of the world, every user and each of declare, undeclare,
tag removal and remove: the process that runs the command with `noaction` and the process that runs it for real
load the same view; read as announcements (`Eff.msg`: "Declaring ...", "Assigning tag ...", "eups undeclare --tag
...", "Removing ... from version list", "rm -rf ...", "cp ..."; the purge of a tag's old occurrences inside declare
has none of its own), the effects of the real run are a prefix of what the dry run reports — and exactly what it
reports whenever the real run ends well.  (`rest` is what a real run that fails half way no longer gets to:
`Database` finds nothing to undeclare, the tag cannot be assigned, the directory is gone.) -/
theorem C15_report_is_what_the_real_run_does (w : World) (u : User) (c : Cmd) (hc : c.dryable = true) :
    let dry := stepG true w (.run u (c.withNoaction true) none)
    let real := stepG true w (.run u (c.withNoaction false) none)
    dry.view = real.view ∧ dry.flavs = real.flavs ∧
    ∃ rest, dry.would = msgs c.isDeclare real.trace ++ rest ∧ (real.out = .ok → rest = []) := by
  simp only [stepG, Cmd.withNoaction_self]
  generalize load w u c.self = l
  obtain ⟨m, fl, w1⟩ := l
  dsimp only
  refine ⟨trivial, trivial, ?_⟩
  obtain ⟨es, rest, h1, h2, h3⟩ := run_report w.nst c hc ⟨w1.db, m, w1.dirs, [], w1.extras, w.tfiles⟩
  refine ⟨rest, ?_, ?_⟩
  · rw [wouldDo_withNoaction, h2, h1]; simp
  · intro k; exact h3 k

/-- **A dry run that is refused, or does not find what it is asked about, shows how the real run ends**: the
outcome of the dry run is the outcome of the real run unless the dry run ends well; and a command that would
succeed never fails as a dry run. -/
theorem C15_dry_outcome_is_real_outcome (w : World) (u : User) (c : Cmd) (crash : Option Nat) :
    let dry := stepG true w (.run u (c.withNoaction true) crash)
    let real := stepG true w (.run u (c.withNoaction false) crash)
    (dry.out ≠ .ok → real.out = dry.out) ∧ (real.out = .ok → dry.out = .ok) := by
  simp only [stepG, Cmd.withNoaction_self]
  generalize load w u c.self = l
  obtain ⟨m, fl, w1⟩ := l
  dsimp only
  exact ⟨run_dry_outcome w.nst c _, run_real_ok_dry_ok w.nst c _⟩

/-- the converse fails, and has to: `remove` of a product whose directory somebody deleted by hand is announced
("rm -rf <dir>") by the dry run, which ends well, while the real run undeclares the product and then fails in
`rmtree` — the dry run does not look whether the directory is there (Eups.py l.3291 prints, l.3294 acts). -/
theorem C15_dry_ok_real_fails_witness :
    let p : Name := [112]; let L : Flav := [76]
    let d : Dir := ⟨0, relDir L p [49]⟩
    let w0 := step (World.init 2 [⟨d, p⟩])
      (.run 0 (.declare ⟨L, p, [49], some d, none, .dflt, none, false, false, []⟩) none)
    let w := step w0 (.envRmDir d)
    let c : Cmd := .remove L p [49] false false false none
    (stepG true w (.run 0 (c.withNoaction true) none)).out = .ok ∧
    (stepG true w (.run 0 (c.withNoaction true) none)).would = [.removing [49] 0, .rmrf d] ∧
    (stepG true w (.run 0 (c.withNoaction false) none)).out = .failed ∧
    msgs false (stepG true w (.run 0 (c.withNoaction false) none)).trace = [.removing [49] 0] := by
  decide

/-- non-vacuity of the report theorem: `declare p 2 <dir> -t current` when `p 1` is current — the real run writes the
version record, takes the tag from `p 1`, assigns it; the dry run announces the record and the tag -/
example :
    let p : Name := [112]; let L : Flav := [76]
    let d1 : Dir := ⟨0, relDir L p [49]⟩; let d2 : Dir := ⟨0, relDir L p [50]⟩
    let w := step (World.init 2 [⟨d1, p⟩, ⟨d2, p⟩])
      (.run 0 (.declare ⟨L, p, [49], some d1, none, .dflt, none, false, false, []⟩) none)
    let c : Cmd := .declare ⟨L, p, [50], some d2, none, .dflt, some current, false, true, []⟩
    c.dryable = true ∧
    (stepG true w (.run 0 (c.withNoaction true) none)).would = [.declaring 0 (some current), .assigning current] ∧
    (stepG true w (.run 0 (c.withNoaction false) none)).trace =
      [.declare ⟨0, p, [50], L, d2, .default⟩ (some current), .unassign 0 current p L, .assign 0 current p L [50]] := by
  decide

/-! ### non-vacuity: the same commands without `noaction` do change the database -/

/-- `declare p 1 <dir>` on the empty database: the dry run leaves it empty, the real run declares and tags -/
example :
    let p : Name := [112]; let L : Flav := [76]
    let dirs : List DirEnt := [⟨⟨0, relDir L p [49]⟩, p⟩]
    let dry := step (World.init 2 dirs)
      (.run 0 (.declare ⟨L, p, [49], some ⟨0, relDir L p [49]⟩, none, .dflt, none, false, true, []⟩) none)
    let real := step (World.init 2 dirs)
      (.run 0 (.declare ⟨L, p, [49], some ⟨0, relDir L p [49]⟩, none, .dflt, none, false, false, []⟩) none)
    (dry.db.decls.length, dry.db.tags.length, real.db.decls.length, real.db.tags.length) = (0, 0, 1, 1) := by
  decide

/-- `remove p 1`: the dry run keeps declaration and directory, the real run removes both -/
example :
    let p : Name := [112]; let L : Flav := [76]
    let dirs : List DirEnt := [⟨⟨0, relDir L p [49]⟩, p⟩]
    let w := step (World.init 2 dirs)
      (.run 0 (.declare ⟨L, p, [49], some ⟨0, relDir L p [49]⟩, none, .dflt, none, false, false, []⟩) none)
    let dry := step w (.run 0 (.remove L p [49] false true false none) none)
    let real := step w (.run 0 (.remove L p [49] false false false none) none)
    (dry.db.decls.length, dry.dirs.length, real.db.decls.length, real.dirs.length) = (1, 1, 0, 0) := by
  decide

/-- `declare p 1 <dir> -L doc/a.txt`: the dry run copies nothing, the real run saves the file -/
example :
    let p : Name := [112]; let L : Flav := [76]
    let dirs : List DirEnt := [⟨⟨0, relDir L p [49]⟩, p⟩]
    let dry := step (World.init 2 dirs)
      (.run 0 (.declare ⟨L, p, [49], some ⟨0, relDir L p [49]⟩, none, .dflt, none, false, true, [([100], 1)]⟩) none)
    let real := step (World.init 2 dirs)
      (.run 0 (.declare ⟨L, p, [49], some ⟨0, relDir L p [49]⟩, none, .dflt, none, false, false, [([100], 1)]⟩) none)
    (dry.extras.length, real.extras.length) = (0, 1) := by decide

end EupsModel.C15
