import EupsModel.Lemmas.Cache
/-! C15 — dry-run (-n) commands change nothing.  Property theorems only.

The model threads `noaction` through `Model/Db.lean` exactly where `Eups.py` tests it: in `declare` around
the version record (l.2651) and around the tag move (l.2686), in `unassignTag` before the database update
(l.2235), in `undeclare` before `Database.undeclare` (l.2816), in `remove` around `rmtree` (l.3291).  The
theorem is therefore a statement about that guard structure; the tie to the code is the correspondence of
`harness/c15.py` (byte hash of the stacks around every dry run + the static guard map of the four methods). -/
namespace EupsModel.C15
open EupsModel.Db EupsModel.Cache

/-- A dry run emits no effect at all, whatever the state of the database, of the in-memory stacks and of the
directories, and whatever the arguments: `declare` (new declaration, redeclaration, conflicting redeclaration,
tag move, tag only, `tablefile="none"`, forced, with external files), `undeclare` (with or without version, tag only,
version-and-tag), `unassignTag`, `remove`. -/
theorem C15_noaction_emits_nothing (nst : Nat) (c : Cmd) (h : c.noaction = true) (p : Proc) :
    (run nst c p).2 = p := run_noaction nst c h p

/-- For every state of the world and every listed command run with `noaction` by any user (killed anywhere
or not): the database a fresh reader sees, the modification time of every record (no version or chain file is
rewritten), the installation directories and the files of the extra directories (`-L`) are exactly what they
were.  Only cache files may differ: loading
the stacks may have rebuilt a stale cache, which the property excludes. -/
theorem C15_noaction_is_identity (w : World) (u : User) (c : Cmd) (crash : Option Nat) (h : c.noaction = true) :
    (step w (.run u c crash)).db = w.db ∧ (step w (.run u c crash)).dirs = w.dirs ∧
      (step w (.run u c crash)).touch = w.touch ∧ (step w (.run u c crash)).extras = w.extras :=
  step_of_empty_trace true w u c crash (fun p hp => by rw [run_noaction w.nst c h p]; exact hp)

/-! ### non-vacuity: the same commands without `noaction` do change the database -/

/-- `declare p 1 <dir>` on the empty database: the dry run leaves it empty, the real run declares and tags -/
example :
    let p : Name := [112]; let L : Flav := [76]
    let dirs : List DirEnt := [⟨⟨0, relDir L p [49]⟩, p⟩]
    let dry := step (World.init 2 dirs)
      (.run 0 (.declare ⟨L, p, [49], some ⟨0, relDir L p [49]⟩, none, .dflt, none, false, true, []⟩) none)
    let real := step (World.init 2 dirs)
      (.run 0 (.declare ⟨L, p, [49], some ⟨0, relDir L p [49]⟩, none, .dflt, none, false, false, []⟩) none)
    (dry.db.decls.length, dry.db.tags.length, real.db.decls.length, real.db.tags.length) = (0, 0, 1, 1) := by
  decide

/-- `remove p 1`: the dry run keeps declaration and directory, the real run removes both -/
example :
    let p : Name := [112]; let L : Flav := [76]
    let dirs : List DirEnt := [⟨⟨0, relDir L p [49]⟩, p⟩]
    let w := step (World.init 2 dirs)
      (.run 0 (.declare ⟨L, p, [49], some ⟨0, relDir L p [49]⟩, none, .dflt, none, false, false, []⟩) none)
    let dry := step w (.run 0 (.remove L p [49] false true false none) none)
    let real := step w (.run 0 (.remove L p [49] false false false none) none)
    (dry.db.decls.length, dry.dirs.length, real.db.decls.length, real.dirs.length) = (1, 1, 0, 0) := by
  decide

/-- `declare p 1 <dir> -L doc/a.txt`: the dry run copies nothing, the real run saves the file -/
example :
    let p : Name := [112]; let L : Flav := [76]
    let dirs : List DirEnt := [⟨⟨0, relDir L p [49]⟩, p⟩]
    let dry := step (World.init 2 dirs)
      (.run 0 (.declare ⟨L, p, [49], some ⟨0, relDir L p [49]⟩, none, .dflt, none, false, true, [([100], 1)]⟩) none)
    let real := step (World.init 2 dirs)
      (.run 0 (.declare ⟨L, p, [49], some ⟨0, relDir L p [49]⟩, none, .dflt, none, false, false, [([100], 1)]⟩) none)
    (dry.extras.length, real.extras.length) = (0, 1) := by decide

end EupsModel.C15
