/-! C15 — property theorems (placeholder until the model exists). -/
