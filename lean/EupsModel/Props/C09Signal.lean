import EupsModel.Lemmas.LockR
import EupsModel.Lemmas.LockPathRMutex
import EupsModel.Lemmas.LockPathROwed
import EupsModel.Lemmas.LockStep
/-! C09 — signals (property theorems).  `takeLocks` installs a handler for SIGINT / SIGTERM that gives the locks up.
The pinned handler then RETURNED, so the command carried on in its body without its locks (and could not be
interrupted at all): `C09_signal_handler_witness_Pinned` (D12g).  Repaired: the handler lets the process die of the
signal; every exclusion / residue theorem holds for schedules with signals delivered to command bodies. -/
namespace EupsModel.C09
open EupsModel.Lock (Pid Kind Err)

/-! ### the pinned handler (model: `Model/Lock.lean`) -/

/-- SIGINT / SIGTERM under the pinned handler: in its command body the process runs `giveLocks` (here: to its end —
isdir, exists, remove, count, rmdir) and then RESUMES the body, without a lock -/
def interruptPinned (s : Lock.St) (i : Pid) : Lock.St :=
  match s.pc i with
  | .hold => Lock.setPC (Lock.run (Lock.setPC s i .isdir) [i, i, i, i, i]) i .unlocked
  | _ => s

/-- D12g: E₀ holds; a signal arrives: it gives the lock up and carries on; E₁ takes the lock: two updaters in their
bodies. -/
theorem C09_signal_handler_witness_Pinned :
    let s := Lock.run (interruptPinned (Lock.run (Lock.init (fun _ => .ex) (fun _ => none) (fun _ => 0)) [0, 0, 0]) 0)
      [1, 1, 1]
    s.pc 1 = .hold ∧ s.kind 1 = .ex ∧ Lock.inBody (s.pc 0) = true ∧ ¬ Lock.related s 1 0 ∧ s.files = [(.ex, 1)] := by
  decide

/-! ### the repaired handler -/

open EupsModel.LockR

/-- **Mutual exclusion, in full, with signals**: every configuration, every schedule of file-system calls and of
signals delivered to command bodies. -/
theorem C09_mutex_with_signals (kind : Pid → Kind) (lp : Pid → Option Pid) (tries : Pid → Nat) (evs : List Ev) :
    Mutex (runE (init kind lp tries) evs) := by
  have h := inv_runE _ evs (inv_init kind lp tries)
  intro i j hij hnr hi hk
  cases hb : inBody ((runE (init kind lp tries) evs).pc j) with
  | false => rfl
  | true =>
    have hj : (runE (init kind lp tries) evs).pc j = .hold := by
      cases hpc : (runE (init kind lp tries) evs).pc j <;> simp_all [inBody]
    exact absurd (h.excl i j hij hi hj hnr (Or.inl hk)) id

/-- … and nothing is left when nobody is engaged, with signals. -/
theorem C09_no_residue_with_signals (kind : Pid → Kind) (lp : Pid → Option Pid) (tries : Pid → Nat) (evs : List Ev)
    (hq : ∀ i, engaged ((runE (init kind lp tries) evs).pc i) = false) :
    (runE (init kind lp tries) evs).dir = false ∧ (runE (init kind lp tries) evs).files = [] := by
  have h := inv_runE _ evs (inv_init kind lp tries)
  have hd : (runE (init kind lp tries) evs).dir = false := by
    cases hd : (runE (init kind lp tries) evs).dir with
    | false => rfl
    | true =>
      obtain ⟨q, hq'⟩ := h.resp hd
      rw [hq q] at hq'; cases hq'
  refine ⟨hd, ?_⟩
  cases hf : (runE (init kind lp tries) evs).files with
  | nil => rfl
  | cons x xs =>
    have := h.inDir (by rw [hf]; simp)
    rw [hd] at this; cases this

/-- A signal ends the command: delivered in the body (in any reachable state), it takes the process out of its body at
once, and four calls of the handler's `giveLocks` later its lock file is gone and the process is dead — it never
resumes. -/
theorem C09_signal_ends_command (kind : Pid → Kind) (lp : Pid → Option Pid) (tries : Pid → Nat) (evs : List Ev)
    (i : Pid) (hi : (runE (init kind lp tries) evs).pc i = .hold) :
    inBody ((interrupt (runE (init kind lp tries) evs) i).pc i) = false ∧
    (run (interrupt (runE (init kind lp tries) evs) i) [i, i, i, i]).pc i = .killed ∧
    (kind i, i) ∉ (run (interrupt (runE (init kind lp tries) evs) i) [i, i, i, i]).files := by
  have h := inv_runE _ evs (inv_init kind lp tries)
  have hk : (runE (init kind lp tries) evs).kind i = kind i := by
    have : ∀ (s : St) (l : List Ev), (runE s l).kind = s.kind := by
      intro s l
      induction l generalizing s with
      | nil => rfl
      | cons e r ih =>
        rw [runE_cons, ih]
        cases e with
        | call p => exact step_kind s p
        | intr p => simp only [stepE, interrupt]; split <;> rfl
    rw [this]; rfl
  generalize runE (init kind lp tries) evs = s at *
  have hf : (s.kind i, i) ∈ s.files := h.own i (by simp [hi, hasFile])
  have hd : s.dir = true := h.inDir (by intro e; rw [e] at hf; simp at hf)
  rw [← hk]
  refine ⟨by simp [interrupt, hi, setPC, inBody], ?_, ?_⟩
  · simp [interrupt, hi, run, step, setPC, hd, hf, afterPC]
    split <;> simp [afterPC]
  · simp [interrupt, hi, run, step, setPC, hd, hf, afterPC]
    split <;> simp [List.mem_filter]

/-! ### several stacks -/

open EupsModel.LockPathR

/-- Mutual exclusion with several stacks and signals.  Hypothesis: the elements of each path are distinct. -/
theorem C09_path_mutex_with_signals (kind : Pid → Kind) (lp : Pid → Option Pid) (tries : Pid → Nat)
    (path : Pid → List Dir) (explicit : Pid → Bool) (hnd : ∀ p, (path p).Nodup) (evs : List MEv) :
    MutexM (mrunE (minit kind lp tries path explicit) evs) :=
  mutexM_mrunE kind lp tries path explicit hnd evs

/-- When every command has finished or died of a signal caught in its body, nothing is left on any stack; and no
release fails.  Every configuration, every schedule with signals. -/
theorem C09_path_no_residue_with_signals (kind : Pid → Kind) (lp : Pid → Option Pid) (tries : Pid → Nat)
    (path : Pid → List Dir) (explicit : Pid → Bool) (evs : List MEv)
    (hfin : ∀ p, finished ((mrunE (minit kind lp tries path explicit) evs).ctl p) = true) (d : Dir) :
    ((mrunE (minit kind lp tries path explicit) evs).comp d).dir = false ∧
    ((mrunE (minit kind lp tries path explicit) evs).comp d).files = [] ∧
    ∀ p e, (mrunE (minit kind lp tries path explicit) evs).ctl p ≠ .fin (.failedRel e) := by
  have h := pinv_mrunE _ evs (pinv_minit kind lp tries path explicit)
  generalize mrunE (minit kind lp tries path explicit) evs = S at *
  have hne : ∀ i, engaged ((S.comp d).pc i) = false := by
    intro i
    cases he : engaged ((S.comp d).pc i) with
    | false => rfl
    | true =>
      have := h.owe i d he
      have hf := hfin i
      cases hc : S.ctl i <;> simp [hc, finished] at hf
      rw [hc] at this; simp [owed] at this
  have hinv := h.inv d
  have hd : (S.comp d).dir = false := by
    cases hd : (S.comp d).dir with
    | false => rfl
    | true =>
      obtain ⟨q, hq'⟩ := hinv.resp hd
      rw [hne q] at hq'; cases hq'
  refine ⟨hd, ?_, ?_⟩
  · cases hf : (S.comp d).files with
    | nil => rfl
    | cons x xs =>
      have := hinv.inDir (by rw [hf]; simp)
      rw [hd] at this; cases this
  · intro p e hc
    have := h.ok p
    rw [hc] at this
    exact this

/-- non-vacuity: X (stacks [0,1], exclusive) is in its body when SIGTERM arrives; the handler releases both stacks and
X is dead; Y, refused before, takes both on its second attempt. -/
example :
    let S := mrunE (minit (fun _ => .ex) (fun _ => none) (fun _ => 1) (fun _ => [0, 1]) (fun _ => true))
      ([.call 0, .call 0, .call 0, .call 0, .call 0, .call 0, .call 1, .call 1, .call 1, .intr 0] ++
       [.call 0, .call 0, .call 0, .call 0, .call 0, .call 0, .call 0, .call 0] ++
       [.call 1, .call 1, .call 1, .call 1, .call 1, .call 1])
    S.ctl 0 = .fin .killed ∧ inBodyM (S.ctl 1) = true ∧ (S.comp 0).files = [(.ex, 1)] := by decide

/-- **No residue with interrupts during acquisition** (D12h): a command that has died of SIGINT / SIGTERM — caught in
its command body, or during `takeLocks` between two stacks or in the retry wait for a contended later stack, with the
locks on the earlier stacks already taken — and whose handler has run to its end is engaged with NO stack: nothing of
it is left anywhere.  More generally this holds of every finished command.  Every configuration, every schedule. -/
theorem C09_path_interrupted_command_leaves_nothing (kind : Pid → Kind) (lp : Pid → Option Pid) (tries : Pid → Nat)
    (path : Pid → List Dir) (explicit : Pid → Bool) (evs : List MEv) (p : Pid)
    (hfin : finished ((mrunE (minit kind lp tries path explicit) evs).ctl p) = true) (d : Dir) :
    engaged (((mrunE (minit kind lp tries path explicit) evs).comp d).pc p) = false ∧
    ∀ k, (k, p) ∉ ((mrunE (minit kind lp tries path explicit) evs).comp d).files := by
  have h := pinv_mrunE _ evs (pinv_minit kind lp tries path explicit)
  generalize mrunE (minit kind lp tries path explicit) evs = S at *
  have hne : engaged ((S.comp d).pc p) = false := by
    cases he : engaged ((S.comp d).pc p) with
    | false => rfl
    | true =>
      have := h.owe p d he
      cases hc : S.ctl p <;> simp [hc, finished] at hfin
      rw [hc] at this; simp [owed] at this
  refine ⟨hne, ?_⟩
  intro k hm
  have := ((h.inv d).owner _ hm).2
  have he := hasFile_engaged this
  simp only at he
  rw [hne] at he; cases he

/-- the scenario: X holds stack 1 exclusively.  Y (path [0,1], three attempts) takes stack 0, is turned away at the gate
of stack 1 and waits; SIGINT arrives in the retry wait: the handler gives stack 0 up, Y dies.  The reader Z then gets
its shared lock on stack 0. -/
example :
    let kind : Pid → Kind := fun i => if i = 2 then .sh else .ex
    let S := mrunE (minit kind (fun _ => none) (fun _ => 2)
        (fun i => if i = 0 then [1] else if i = 1 then [0, 1] else [0]) (fun _ => true))
      ([.call 0, .call 0, .call 0] ++ [.call 1, .call 1, .call 1, .call 1, .call 1, .call 1] ++ [.intr 1] ++
       [.call 1, .call 1, .call 1, .call 1] ++ [.call 2, .call 2, .call 2])
    S.ctl 1 = .fin .killed ∧ inBodyM (S.ctl 2) = true ∧ (S.comp 0).files = [(.sh, 2)] ∧
    (S.comp 1).files = [(.ex, 0)] := by decide

/-- D12i: X (stacks [0,1], exclusive) has left its body and its `giveLocks` has released stack 0; SIGTERM arrives as it
is about to start on stack 1: the handler's pass releases stack 1 (it is still on the list), X dies, nothing is left —
Y then takes both stacks. -/
example :
    let S := mrunE (minit (fun _ => .ex) (fun _ => none) (fun _ => 0) (fun _ => [0, 1]) (fun _ => true))
      ([.call 0, .call 0, .call 0, .call 0, .call 0, .call 0] ++ [.call 0, .call 0, .call 0, .call 0, .call 0] ++
       [.intr 0] ++ [.call 0, .call 0, .call 0, .call 0] ++ [.call 1, .call 1, .call 1, .call 1, .call 1, .call 1])
    S.ctl 0 = .fin .killed ∧ inBodyM (S.ctl 1) = true ∧ (S.comp 0).files = [(.ex, 1)] ∧
    (S.comp 1).files = [(.ex, 1)] := by decide

end EupsModel.C09
