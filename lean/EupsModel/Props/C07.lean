/-! C07 — property theorems (placeholder until the model exists). -/
