import EupsModel.Lemmas.CacheInv
import EupsModel.Lemmas.CacheSync
/-! C07 — answers served from the product cache equal the answers in the database files.
Property theorems only; model `Model/Cache.lean` over `Model/Db.lean`, lemmas in `Lemmas/Agree.lean`
(commutation) and `Lemmas/CacheInv.lean` (the invariant and its preservation).

A *history* is any list of `WCmd`: processes of any user (each user has his own cache files) and flavor
running any command, each optionally killed between the database update and the cache update of its k-th
`Database` mutation, and deletions of cache files, in any order.  `viaCache w u f` is what a fresh process of
user `u` and flavor `f` holds in memory after `Eups.__init__` (accepted cache files or rebuilt stacks);
`w.db` is what the files say. -/
namespace EupsModel.C07
open EupsModel.Db EupsModel.Cache

/-- **Commutation, per operation.**  If the in-memory stacks agree with the database on a (stack, flavor,
product) slice, then after `addProduct` / `removeProduct` / `assignTag` / `unassignTag` they agree with the
database after `Database.declare` / `undeclare` / `assignTag` / `unassignTag`. -/
theorem C07_commute (e : Eff) (m db : Spec) (hdb : NoDangling db) (s : Nat) (f : Flav) (n : Name)
    (h : AgreeOnN m db s f n) : AgreeOnN (applyMem e m) (applyDb e db) s f n :=
  commute_all e m db hdb s f n h

/-- On the pinned tree the commutation lemma is false for `removeProduct`: the tag of the removed version
stays in the in-memory stack (D1, repaired). -/
theorem C07_commute_fails_pinned :
    let m : Spec := ⟨[⟨0, [112], [49], [76], ⟨0, []⟩, .default⟩, ⟨0, [112], [50], [76], ⟨0, []⟩, .default⟩],
                     [⟨0, current, [112], [76], [49]⟩]⟩
    (applyMemPinned (.undeclare 0 [112] [49] [76]) m).hasTag 0 current [112] [76] = true ∧
    (applyDb (.undeclare 0 [112] [49] [76]) m).hasTag 0 current [112] [76] = false :=
  commute_fails_pinned

/-- **`CacheInv` holds after every history**: in particular every cache file of a stack of the path that is
at least as new as a product directory agrees with the database on that product. -/
theorem C07_cache_inv (nst : Nat) (dirs : List DirEnt) (tfs : List TFile) (h : List WCmd) :
    CacheInv (runHistory (World.init nst dirs tfs) h) := history_inv nst dirs tfs h

/-- **A cache file that the load rule accepts agrees with the files**, after every history, for every user,
stack of the path and flavor (the fallback flavor's file too, when a process of that flavor reads it). -/
theorem C07_accepted_cache_agrees (nst : Nat) (dirs : List DirEnt) (tfs : List TFile) (h : List WCmd) (cf : CacheFile)
    (hc : cf ∈ (runHistory (World.init nst dirs tfs) h).caches) (hs : cf.stack < nst)
    (ha : accepts (runHistory (World.init nst dirs tfs) h) cf = true) :
    AgreeOn cf.c (runHistory (World.init nst dirs tfs) h).db cf.stack cf.flav := by
  have hinv := history_inv nst dirs tfs h
  have hn : (runHistory (World.init nst dirs tfs) h).nst = nst := history_nst _ h
  exact accepts_agree hinv hc (by rw [hn]; exact hs) ha

/-- **C07.**  After every history, what a fresh process of any user `u` and flavor `self` holds in memory after
`Eups.__init__` — accepted cache files or rebuilt stacks — is what the files say, for every flavor the process can
see (its native flavor and the fallback flavor), in every stack of the path; and it shows no declaration that the
files do not hold. -/
theorem C07_agree (nst : Nat) (dirs : List DirEnt) (tfs : List TFile) (h : List WCmd) (u : User) (self : Flav)
    (s : Nat) (hs : s < (runHistory (World.init nst dirs tfs) h).nst) (f : Flav) (hf : f ∈ fallbacks self) :
    AgreeOn (viaCache (runHistory (World.init nst dirs tfs) h) u self) (runHistory (World.init nst dirs tfs) h).db s f ∧
    ∀ d ∈ (viaCache (runHistory (World.init nst dirs tfs) h) u self).decls,
      d ∈ (runHistory (World.init nst dirs tfs) h).db.decls := by
  obtain ⟨_, hv, hfb, hsub⟩ := load_inv (history_inv nst dirs tfs h) u self
  exact ⟨hv s hs f (hfb s hs f hf), hsub⟩

/-- **The four queries of the property**, any user, any stack of the path, any flavor `f` the querying process
can see, after any history: *is (n, v) declared*, *where is it* (the declaration found: directory and table),
*which tags does it carry*, *which version has tag t* — through the cache and through the files. -/
theorem C07_queries_agree (nst : Nat) (dirs : List DirEnt) (tfs : List TFile) (h : List WCmd) (u : User) (self : Flav)
    (s : Nat) (hs : s < (runHistory (World.init nst dirs tfs) h).nst) (f : Flav) (hf : f ∈ fallbacks self)
    (n : Name) (v : Ver) (t : Tag) :
    let w := runHistory (World.init nst dirs tfs) h
    (viaCache w u self).hasDecl s n v f = w.db.hasDecl s n v f ∧
    (viaCache w u self).findDecl s n v f = w.db.findDecl s n v f ∧
    (∀ d : Decl, d.stack = s → d.flav = f → d.name = n →
        ∀ t', t' ∈ (viaCache w u self).tagsOf d ↔ t' ∈ w.db.tagsOf d) ∧
    (viaCache w u self).tagVer s t n f = w.db.tagVer s t n f := by
  intro w
  have hag := (C07_agree nst dirs tfs h u self s hs f hf).1 n
  have hku := (history_inv nst dirs tfs h).dbinv.ku
  refine ⟨hag.hasDecl v, findDecl_agree hag hku v, ?_, tagVer_agree hag hku t⟩
  intro d h1 h2 h3 t'
  simp only [Spec.tagsOf, List.mem_map, List.mem_filter]
  constructor
  · rintro ⟨r, ⟨hr, hp⟩, rfl⟩
    have k := TagRec.pointsAt_iff.mp hp
    exact ⟨r, ⟨(hag.2 r (k.1.trans h1) (k.2.2.1.trans h2) (k.2.1.trans h3)).mp hr, hp⟩, rfl⟩
  · rintro ⟨r, ⟨hr, hp⟩, rfl⟩
    have k := TagRec.pointsAt_iff.mp hp
    exact ⟨r, ⟨(hag.2 r (k.1.trans h1) (k.2.2.1.trans h2) (k.2.1.trans h3)).mpr hr, hp⟩, rfl⟩

/-! ### a missing, older or crash-orphaned cache is rebuilt, not believed -/

/-- a cache directory in which a needed cache file is missing (the native flavor's or the fallback flavor's) is not
accepted -/
theorem tryCache_missing (w : World) (u : User) (self : Flav) (s : Nat)
    (h : findCaches w u s (needed self) = none) : tryCache w u self s = none := by
  unfold tryCache; simp [h]

/-- a cache directory in which one of the needed cache files is older than a version file, chain file or product
directory of the stack, or names a product the database does not have, is not accepted -/
theorem tryCache_older (w : World) (u : User) (self : Flav) (s : Nat) (cfs : List CacheFile)
    (h : findCaches w u s (needed self) = some cfs) (cf : CacheFile) (hcf : cf ∈ cfs) (hold : accepts w cf = false) :
    tryCache w u self s = none := by
  unfold tryCache
  have : cfs.all (accepts w) = false := by
    rw [Bool.eq_false_iff]
    intro hall
    have := List.all_eq_true.mp hall cf hcf
    rw [hold] at this; cases this
  simp [h, this]

/-- when neither the user's cache directory nor the one inside `ups_db/` is accepted, the in-memory stack is rebuilt
from the database (`refreshFromDatabase`) -/
theorem C07_not_accepted_rebuilt (w : World) (u : User) (self : Flav) (s : Nat)
    (h1 : tryCache w u self s = none) (h2 : tryCache w sysUser self s = none) :
    (loadStack w u self s).view = snapshot w.db s := by
  unfold loadStack; simp [h1, h2]

/-- a needed cache file of the user is missing, and the cache directory inside `ups_db/` is not accepted either:
rebuilt -/
theorem C07_stale_cache_rebuilt_missing (w : World) (u : User) (self : Flav) (s : Nat)
    (h : findCaches w u s (needed self) = none) (hsys : tryCache w sysUser self s = none) :
    (loadStack w u self s).view = snapshot w.db s :=
  C07_not_accepted_rebuilt w u self s (tryCache_missing w u self s h) hsys

/-- one of the user's cache files is older than a version file, chain file or product directory of the stack, or
names a product the database does not have, and the cache directory inside `ups_db/` is not accepted either:
rebuilt -/
theorem C07_stale_cache_rebuilt_older (w : World) (u : User) (self : Flav) (s : Nat) (cfs : List CacheFile)
    (h : findCaches w u s (needed self) = some cfs) (cf : CacheFile) (hcf : cf ∈ cfs) (hold : accepts w cf = false)
    (hsys : tryCache w sysUser self s = none) :
    (loadStack w u self s).view = snapshot w.db s :=
  C07_not_accepted_rebuilt w u self s (tryCache_older w u self s cfs h cf hcf hold) hsys

/-- **The stack-wide cache.**  After any history, when the user's own cache directory is not accepted and the one
inside `ups_db/` (`eups admin buildCache -A`) is: what is loaded is the content of the files that were validated —
the stack-wide ones —, it agrees with the database files on every flavor the process can see, and nothing is
written (the user's stale files stay as they are). -/
theorem C07_stack_wide_cache_agrees (nst : Nat) (dirs : List DirEnt) (tfs : List TFile) (h : List WCmd) (u : User)
    (self : Flav) (s : Nat) (hs : s < nst) (view : Spec)
    (h1 : tryCache (runHistory (World.init nst dirs tfs) h) u self s = none)
    (h2 : tryCache (runHistory (World.init nst dirs tfs) h) sysUser self s = some view) :
    (loadStack (runHistory (World.init nst dirs tfs) h) u self s).view = view ∧
    (loadStack (runHistory (World.init nst dirs tfs) h) u self s).w = runHistory (World.init nst dirs tfs) h ∧
    ∀ f ∈ fallbacks self, AgreeOn view (runHistory (World.init nst dirs tfs) h).db s f := by
  have hinv := history_inv nst dirs tfs h
  have hn : (runHistory (World.init nst dirs tfs) h).nst = nst := history_nst _ h
  generalize runHistory (World.init nst dirs tfs) h = w at hinv hn h1 h2
  refine ⟨by unfold loadStack; simp [h1, h2], by unfold loadStack; simp [h1, h2], ?_⟩
  intro f hf
  exact (tryCache_inv hinv sysUser self (hn ▸ hs) h2).1 f ((mem_dedup _ f).mpr hf)

/-- a rebuilt stack is the database: every flavor of the stack, exactly -/
theorem C07_rebuilt_is_database (db : Spec) (hdb : NoDangling db) (s : Nat) (f : Flav) :
    AgreeOn (snapshot db s) db s f := snapshot_agree hdb s f

/-- crash-orphaned cache: after the `Database` mutation of an effect (the process dies before its cache
update) no cache file of the stack is accepted as long as the product directory written to exists — whoever
wrote the cache file, whenever -/
theorem C07_crash_orphaned_cache_rejected (w : World) (h : CacheInv w) (e : Eff) (s : Nat) (n : Name)
    (hk : effKey e = some (s, n)) (hw : effWrites w.db e = true)
    (hex : ((applyDb e w.db).decls.any fun d => d.stack == s && d.name == n) = true)
    (cf : CacheFile) (hc : cf ∈ (applyDbW w e).caches) (hs : cf.stack = s) :
    accepts (applyDbW w e) cf = false := by
  have hcaches : (applyDbW w e).caches = w.caches := by simp [applyDbW, hk, hw]
  have htouch : (⟨s, n, w.now⟩ : Touch) ∈ (applyDbW w e).touch := by
    simp only [applyDbW, hk, hw, if_true, hex]
    exact mem_setTouch.mpr (Or.inl ⟨w.now, rfl, rfl⟩)
  have hlt := h.cache_time cf (hcaches ▸ hc)
  cases hacc : accepts (applyDbW w e) cf with
  | false => rfl
  | true =>
    exfalso
    simp only [accepts, Bool.and_eq_true] at hacc
    have := (upToDate_iff _ _ _).mp hacc.1 _ htouch hs.symm
    exact Nat.lt_irrefl _ (Nat.lt_of_le_of_lt this hlt)

/-! ### witnesses -/

def p : Name := [112]
def L : Flav := [76]
def dir (f : Flav) (v : Ver) : Dir := ⟨0, relDir f p v⟩
def dirs : List DirEnt := [⟨dir L [49], p⟩, ⟨dir L [50], p⟩, ⟨dir generic [49], p⟩]
def declareCmd (f : Flav) (v : Ver) : Cmd := .declare ⟨f, p, v, some (dir f v), none, .dflt, none, false, false, []⟩

/-- the history of D1: `declare p 1` (becomes current), `declare p 2`, `undeclare p 1`, `declare p 1`, four
processes of one user -/
def staleTagHistory : List WCmd :=
  [.run 1 (declareCmd L [49]) none, .run 1 (declareCmd L [50]) none,
   .run 1 (.undeclare ⟨L, p, some [49], none, none, false, false, false, none⟩) none, .run 1 (declareCmd L [49]) none]

/-- **D1 (repaired).**  With the pinned `removeVersion` the cache answers "p 1 is current" after that history
while no chain file exists; with the repair the two agree. -/
theorem C07_stale_tag_witness :
    let wp := staleTagHistory.foldl stepPinned (World.init 1 dirs)
    let wf := runHistory (World.init 1 dirs) staleTagHistory
    ((viaCache wp 1 L).tagVer 0 current p L = some [49] ∧ wp.db.tagVer 0 current p L = none) ∧
    ((viaCache wf 1 L).tagVer 0 current p L = none ∧ wf.db.tagVer 0 current p L = none) := by decide

/-- **D16 (repaired).**  On the pinned tree — fallback flavors installed after the cache was read, `save` of the
native flavor only — `declare p 1` by a Linux process, `declare p 1` by a generic process, one Linux query (it
rebuilds and saves both flavors): the next fresh Linux process accepts the cache, loads the native flavor only and
does not see the `generic` declaration that the files hold.  With the repair it loads both and sees it. -/
theorem C07_fallback_flavor_witness :
    let h : List WCmd := [.run 1 (declareCmd L [49]) none, .run 1 (declareCmd generic [49]) none, .run 1 (.query L) none]
    let wp := h.foldl stepPinnedD16 (World.init 1 dirs)
    let wf := runHistory (World.init 1 dirs) h
    ((viaCachePinnedD16 wp 1 L).hasDecl 0 p [49] generic = false ∧ wp.db.hasDecl 0 p [49] generic = true ∧
      (loadPinned wp 1 L).2.1 = [(0, [L])]) ∧
    ((viaCache wf 1 L).hasDecl 0 p [49] generic = true ∧ wf.db.hasDecl 0 p [49] generic = true ∧
      (load wf 1 L).2.1 = [(0, [L, generic])]) := by decide

/-- the load rule with the directory argument of `reload` lost (seeded change C07-m3): the cache directory inside
`ups_db/` is validated, the user's own files — just found not acceptable — are what is read -/
def loadStackWrongDir (w : World) (u : User) (self : Flav) (s : Nat) : Spec :=
  match tryCache w u self s with
  | some view => view
  | none =>
    match tryCache w sysUser self s, findCaches w u s (needed self) with
    | some _, some mine => unionAll (mine.map (·.c))
    | some view, none => view
    | none, _ => snapshot w.db s

/-- **The validated files are the ones to load** (negation witness for the rule above).  User 1 declares `p 1`
(current), user 2 declares `p 2`, `eups admin buildCache -A` refreshes the cache inside `ups_db/`: user 1's own cache
is older than the database, the stack-wide one is accepted.  The model's rule answers "p 2 is declared" as the files
do; validating the stack-wide files and reading user 1's does not. -/
theorem C07_validated_directory_is_loaded_witness :
    let w := runHistory (World.init 1 dirs) [.run 1 (declareCmd L [49]) none, .run 2 (declareCmd L [50]) none, .adminBuild 2 L]
    (tryCache w 1 L 0 = none ∧ (tryCache w sysUser L 0).isSome = true) ∧
    ((loadStack w 1 L 0).view.hasDecl 0 p [50] L = true ∧ w.db.hasDecl 0 p [50] L = true) ∧
    (loadStackWrongDir w 1 L 0).hasDecl 0 p [50] L = false := by decide

/-! ### non-vacuity -/

/-- the hypotheses of `C07_accepted_cache_agrees` are met by real cache files: after `declare p 1` the user's Linux
and generic caches of stack 0 exist and are accepted -/
example :
    let w := runHistory (World.init 1 dirs) [.run 1 (declareCmd L [49]) none]
    (w.caches.any fun cf => cf.stack == 0 && accepts w cf) = true := by decide

/-- a crash leaves the orphaned cache rejected: `declare p 1`, then `declare p 2` killed after
`Database.declare`: the cache of stack 0 is not accepted, and the rebuilt view holds both versions -/
example :
    let w := runHistory (World.init 1 dirs) [.run 1 (declareCmd L [49]) none, .run 1 (declareCmd L [50]) (some 1)]
    (w.caches.all fun cf => !(accepts w cf)) = true ∧ (viaCache w 1 L).hasDecl 0 p [50] L = true := by decide

/-! ## two `ProductStack` objects alive in one process (round 3; `Model/CacheSync.lean`) -/

/-- **The staleness test between live instances keeps the cache complete.**  From any world as single-process
histories leave it (`Start`: a cache file that is not older than the database is complete — `C07_cache_inv`), whichever
way each of the two instances is filled (the user's file, the stack-wide cache inside ups_db/, the database), and for
EVERY interleaving of their write-throughs (`Database` mutation, `ensureInSync`, write-through, `save`), their
`ensureInSync` calls and the commands of other well-behaved processes of the user — as long as nobody deletes the cache
file under them —: a cache file that is not older than the database holds the whole database.  So whatever a later
process accepts is complete.  With the rule of the tree before c9cb3dd this is false (next theorem). -/
theorem C07_live_instances_safe (s : CacheSync.St) (h : CacheSync.Start s) (sysOk : Bool) (evs : List CacheSync.Ev)
    (hnd : ∀ e ∈ evs, e ≠ .delete) :
    CacheSync.Safe (CacheSync.run true (CacheSync.load true sysOk (CacheSync.load true sysOk s false) true) evs) :=
  ((CacheSync.load2_inv h sysOk).run evs hnd).safe

/-- non-vacuity: the scenarios the check enumerates start from such a world -/
example : CacheSync.Start ⟨4, List.range 2, 2, none, ⟨none, []⟩, ⟨none, []⟩⟩ :=
  ⟨(by intro f hf; cases hf), (by decide), (by intro f hf; cases hf)⟩
example : CacheSync.Start ⟨4, List.range 2, 2, some ⟨1, List.range 1⟩, ⟨none, []⟩, ⟨none, []⟩⟩ :=
  ⟨(by intro f hf hfr; cases hf; exact absurd hfr (by decide)), (by decide), (by intro f hf; cases hf; decide)⟩

/-- **D60 (fixed c9cb3dd), the rule before the repair.**  Both instances read the stack-wide cache (no file of the
user yet); instance 1 writes, instance 0 writes: with the old rule instance 0 does not know the file instance 1 created
(`if file not in self.modtimes: return True`), saves its stale stack over it, and the file — newer than the database —
lacks the change of instance 1.  With the repaired rule the same schedule ends with the complete file. -/
theorem C07_live_instances_pinned_witness :
    let old := CacheSync.run false (CacheSync.init false 2 0 true) [.write true, .write false]
    let new := CacheSync.run true (CacheSync.init true 2 0 true) [.write true, .write false]
    (CacheSync.fresh old = true ∧ old.db = [0, 1, 2, 3] ∧ old.file.map (·.content) = some [0, 1, 3]) ∧
    (CacheSync.fresh new = true ∧ new.file.map (·.content) = some [0, 1, 2, 3]) := by decide

/-- **D61 (open): the hypothesis "nobody deletes the cache file under a live instance" is needed**, also with the
repaired rule: instance 1 writes, the file is deleted (`eups admin clearCache` elsewhere), instance 0 writes:
`FileNotFoundError` counts as "in sync", the stale stack is written through and saved as a fresh cache file that lacks
the change of instance 1. -/
theorem C07_live_instances_delete_witness :
    let s := CacheSync.run true (CacheSync.init true 2 2 false) [.write true, .delete, .write false]
    CacheSync.fresh s = true ∧ s.db = [0, 1, 2, 3] ∧ s.file.map (·.content) = some [0, 1, 3] := by decide

/-- **Two unserialised writers: another writer's whole command inside `ProductStack.reload`.**  Instance 1 reads the
user's up-to-date cache file while another process of the user changes the database and saves the file — before or
after instance 1's read (`readLate`), in any case after instance 1 has noted the file's time, which is the order of the
code.  Whatever follows (every interleaving of write-throughs, `ensureInSync` calls and other processes' commands, no
deletion): a cache file that is not older than the database is complete. -/
theorem C07_writer_inside_reload_safe (s : CacheSync.St) (h : CacheSync.Start s) (sysOk readLate : Bool)
    (f : CacheSync.File) (hf : s.file = some f) (hfr : s.dbTime ≤ f.mtime) (evs : List CacheSync.Ev)
    (hnd : ∀ e ∈ evs, e ≠ .delete) :
    CacheSync.Safe (CacheSync.run true (CacheSync.loadGate true readLate (CacheSync.load true sysOk s false)) evs) :=
  ((CacheSync.loadGate_inv h sysOk readLate f hf hfr).run evs hnd).safe

/-- the order matters: a `reload` that notes the time AFTER unpickling holds the old content under the other writer's
time; its next write-through is judged in sync and saved over the other writer's change (what `corpus/C07/
race_writer_inside_reload.json` exhibits on such a tree) -/
theorem C07_time_noted_after_read_witness :
    let s0 : CacheSync.St := ⟨4, List.range 2, 2, some ⟨3, List.range 2⟩, ⟨none, []⟩, ⟨none, []⟩⟩
    let bad := CacheSync.run true (CacheSync.loadGate false false (CacheSync.load true false s0 false)) [.write true]
    let good := CacheSync.run true (CacheSync.loadGate true false (CacheSync.load true false s0 false)) [.write true]
    (CacheSync.fresh bad = true ∧ bad.db = [0, 1, 2, 3] ∧ bad.file.map (·.content) = some [0, 1, 3]) ∧
    (CacheSync.fresh good = true ∧ good.file.map (·.content) = some [0, 1, 2, 3]) := by decide

/-- **Another writer inside a constructor that rebuilds.**  Instance 0 finds no usable cache (the user's file is missing
or older than the database, no stack-wide cache), scans the database, another process of the user declares and saves its
cache file, then instance 0 gets to its `save()` — which leaves the file alone, because its time was noted before the
scan (repair 03a1e94).  Instance 1 is constructed next.  Whatever follows (no deletion): a cache file that is not older
than the database is complete. -/
theorem C07_writer_inside_rebuild_safe (s : CacheSync.St) (h : CacheSync.Start s)
    (hstale : ∀ f, s.file = some f → f.mtime < s.dbTime) (evs : List CacheSync.Ev) (hnd : ∀ e ∈ evs, e ≠ .delete) :
    CacheSync.Safe (CacheSync.run true (CacheSync.load true false (CacheSync.rebuildGate true s) true) evs) :=
  ((CacheSync.rebuildGate_inv h hstale).run evs hnd).safe

/-- **D62 (fixed 03a1e94), the constructor before the repair**: the files `save()` replaces are unknown to a stack that
was just created, so the scan of before the other writer's change goes over the other writer's file — newer than the
database, incomplete — and instance 1, constructed next, accepts it.  With the repair the same schedule keeps the
complete file. -/
theorem C07_writer_inside_rebuild_witness :
    let old := CacheSync.initRebuildGate false 2 0
    let new := CacheSync.initRebuildGate true 2 0
    (CacheSync.fresh old = true ∧ old.db = [0, 1, 2] ∧ old.file.map (·.content) = some [0, 1] ∧ old.i1.mem = [0, 1]) ∧
    (CacheSync.fresh new = true ∧ new.file.map (·.content) = some [0, 1, 2] ∧ new.i1.mem = [0, 1, 2]) := by decide

end EupsModel.C07
