import EupsModel.Model.Setup
/-! C01 — setup yields a consistent environment with no residue of superseded versions.
Model: `EupsModel/Model/Setup.lean`. -/
namespace EupsModel.C01
open EupsModel EupsModel.Setup

/-! ## D17: the full statement is false when a product name is reachable from one of its own versions -/

def nTop : Name := [116]
def nA : Name := [97]
def nB : Name := [98]
def nC : Name := [99]
def v1 : Ver := [49]
def v2 : Ver := [50]
def PATH : Str := [80]
def ALATE : Str := [76]

/-- `top → a` (current `a 1`) `→ b → a 2`: the product-version graph is a DAG, the name graph has a cycle.
`a 1`: `envPrepend(PATH, $DIR/1); setupRequired(b); envPrepend(PATH, $DIR/2); envSet(L, $DIR)` -/
def dbD17 : Db :=
  { decls := [
      ⟨nTop, v1, [1], [(.always, .dep nA false false none none)]⟩,
      ⟨nA, v1, [2], [(.always, .prepend PATH (.own [1]) false), (.always, .dep nB false false none none),
                     (.always, .prepend PATH (.own [2]) false), (.always, .set ALATE (.own []))]⟩,
      ⟨nB, v1, [3], [(.always, .dep nA false false (some (.explicit v2)) none)]⟩,
      ⟨nA, v2, [4], [(.always, .prepend PATH (.own [1]) false)]⟩ ],
    tags := [(tagCurrent, nTop, v1), (tagCurrent, nA, v1), (tagCurrent, nB, v1)] }

def reqTop : Request := ⟨nTop, none, false, none, false, []⟩

def envOf : Res → Option Setup.Env
  | .ok s => some s.env
  | _ => none

/-- From the empty environment `setup top` succeeds and ends with `SETUP_A = a 2`, while `PATH` still holds
`dir(a 1)/2`, `L = dir(a 1)`, and `b` — required by the set-up `a`… of version 1 — is not set up. -/
theorem C01_nested_switch_witness :
    envOf (runSetup dbD17 20 reqTop Setup.Env.empty) =
      some ⟨[(nA, v2), (nTop, v1)], [(nA, .own (nA, v2) []), (nTop, .own (nTop, v1) [])],
            [(PATH, [.own (nA, v1) [2], .own (nA, v2) [1]])], [(ALATE, .own (nA, v1) [])]⟩ := by
  decide +kernel

/-! ## non-vacuity: a diamond that switches `c 1 → c 2` inside one request -/

/-- `top → a → c 1`, `top → b → c 2` -/
def dbDiamond : Db :=
  { decls := [
      ⟨nTop, v1, [1], [(.always, .dep nA false false none none), (.always, .dep nB false false none none)]⟩,
      ⟨nA, v1, [2], [(.always, .prepend PATH (.own [1]) false), (.always, .dep nC false false (some (.explicit v1)) none)]⟩,
      ⟨nB, v1, [3], [(.always, .prepend PATH (.own [1]) false), (.always, .dep nC false false (some (.explicit v2)) none)]⟩,
      ⟨nC, v1, [4], [(.always, .prepend PATH (.own [1]) false)]⟩,
      ⟨nC, v2, [5], [(.always, .prepend PATH (.own [1]) false)]⟩ ],
    tags := [(tagCurrent, nTop, v1), (tagCurrent, nA, v1), (tagCurrent, nB, v1), (tagCurrent, nC, v1)] }

/-- the request succeeds, `c` ends at version 2 and no element of `c 1` is left -/
theorem C01_nonvacuous :
    envOf (runSetup dbDiamond 20 reqTop Setup.Env.empty) =
      some ⟨[(nC, v2), (nB, v1), (nA, v1), (nTop, v1)],
            [(nC, .own (nC, v2) []), (nB, .own (nB, v1) []), (nA, .own (nA, v1) []), (nTop, .own (nTop, v1) [])],
            [(PATH, [.own (nC, v2) [1], .own (nB, v1) [1], .own (nA, v1) [1]])], []⟩ := by
  decide +kernel

end EupsModel.C01
