import EupsModel.Lemmas.SetupFrame
import EupsModel.Lemmas.SetupPresent
import EupsModel.Lemmas.SetupClear
import EupsModel.Lemmas.SetupLines
/-! C01 — setup yields a consistent environment with no residue of superseded versions.
Model: `EupsModel/Model/Setup.lean`; lemmas: `EupsModel/Lemmas/Setup*.lean`.

`EnvOK`: (a) `DirOK` — every record names a declared version and `<P>_DIR` is its directory; (b) `Present` — every own path
contribution (`envPrepend`/`envAppend` of `${PRODUCT_DIR}…`) of the table of every recorded version is in its variable;
(c) `NoResidue Empty` — every own element / envSet value / directory variable belongs to the recorded version of its
product; `WellOwned` — the environment is one eups produced under the request's setup type (every own element comes
from a line of its product's table).  Own `envSet` values are covered by (c) but not by (b): two lines of one table, or
two products, may set the same variable, and the last one wins (oracle (ii) checks them under the generator's
one-variable-per-product discipline). -/
namespace EupsModel.C01
open EupsModel EupsModel.Setup

/-! ## clause (a): `<P>_DIR` is the declared directory of the recorded version — every database, both directions -/

theorem C01_dir_preserved (db : Db) (fuel : Nat) (fwd : Bool) (r : Request) (e : Setup.Env) (s' : St)
    (hok : DirOK db e)
    (h : (if fwd then runSetup db fuel r e else runUnsetup db fuel r e) = .ok s') : DirOK db s'.env := by
  have key := setup_subjInv (r.cfg db) (fun _ _ => True) (DirOK db) (fun _ _ _ _ _ _ _ _ _ _ _ _ _ _ => trivial)
    (dirOK_subjInv (r.cfg db)) fuel
  cases fwd with
  | true => exact key true 0 false r.vro r.name r.version none (St.init e) s' trivial (by intro n d x h; simp [St.init, aget] at h) hok h
  | false => exact key false 0 false r.vro r.name none none (St.init e) s' trivial (by intro n d x h; simp [St.init, aget] at h) hok h

/-! ## clause (c): no residue -/

/-- unsetup direction: full (every database — name cycles included —, every fuel, every flag combination) -/
theorem C01_unsetup_no_residue (db : Db) (fuel : Nat) (r : Request) (e : Setup.Env) (s' : St)
    (hown : WellOwned (r.cfg db) e) (hres : NoResidue Empty e) (h : runUnsetup db fuel r e = .ok s') :
    NoResidue Empty s'.env ∧ WellOwned (r.cfg db) s'.env ∧ s'.env.rec? r.name = none := by
  obtain ⟨h1, h2⟩ := setup_false_spec (r.cfg db) fuel Empty 0 false r.vro r.name none none (St.init e) s' hown hres h
  exact ⟨h1, hown.of_sub h2, setup_false_unsets (r.cfg db) fuel 0 false r.vro r.name none none (St.init e) s' hown h⟩

/-- forward direction under `NameDag` (D17 is the excluded class): from every residue-free environment eups produced
— populated ones, other versions of the same products set up, included — a successful request, whatever its flags
(keep, max-depth, tags, inexact) and whatever the fuel, ends residue-free.  Diamonds, version conflicts between siblings and
failing optional dependencies are inside the claim. -/
theorem C01_no_residue_partial (db : Db) (rank : Name → Nat) (hdag : NameDag db rank) (fuel : Nat) (r : Request)
    (e : Setup.Env) (s' : St) (hown : WellOwned (r.cfg db) e) (hres : NoResidue Empty e)
    (h : runSetup db fuel r e = .ok s') : NoResidue Empty s'.env ∧ WellOwned (r.cfg db) s'.env :=
  (setup_recOK (r.cfg db) rank hdag fuel).spec true 0 false r.vro r.name r.version none (St.init e) s'
    (by intro n d x h; simp [St.init, aget] at h) hown hres h

/-! ## clause (b): the own path contributions of every set-up product are present -/

/-- every set-up product has each own `envPrepend`/`envAppend` contribution of its table in place -/
def ContribsPresent (cfg : Cfg) (e : Setup.Env) : Prop := Present cfg (fun _ => False) e

theorem C01_contributions_present_partial (db : Db) (rank : Name → Nat) (hdag : NameDag db rank) (fuel : Nat)
    (fwd : Bool) (r : Request) (e : Setup.Env) (s' : St) (hown : WellOwned (r.cfg db) e) (hres : NoResidue Empty e)
    (hpres : ContribsPresent (r.cfg db) e)
    (h : (if fwd then runSetup db fuel r e else runUnsetup db fuel r e) = .ok s') :
    ContribsPresent (r.cfg db) s'.env := by
  have key := setup_presSpec (r.cfg db) rank hdag fuel (fun _ => False)
  have ha : AlreadyOK (r.cfg db).db (St.init e).already := by intro n d x h; simp [St.init, aget] at h
  cases fwd with
  | true => exact key true 0 false r.vro r.name r.version none (St.init e) s' (fun _ h => h.elim) ha hown hres hpres h
  | false => exact key false 0 false r.vro r.name none none (St.init e) s' (fun _ h => h.elim) ha hown hres hpres h

/-- `EnvOK` = clauses (a), (b), (c) (+ the environment is one eups produced) -/
structure EnvOK (cfg : Cfg) (e : Setup.Env) : Prop where
  dir : DirOK cfg.db e
  present : ContribsPresent cfg e
  noResidue : NoResidue Empty e
  wellOwned : WellOwned cfg e

/-- clauses 1–3 of C01: a successful setup request preserves `EnvOK` — under `NameDag` -/
theorem C01_envOK_preserved_partial (db : Db) (rank : Name → Nat) (hdag : NameDag db rank) (fuel : Nat) (r : Request)
    (e : Setup.Env) (s' : St) (hok : EnvOK (r.cfg db) e) (h : runSetup db fuel r e = .ok s') :
    EnvOK (r.cfg db) s'.env := by
  obtain ⟨h1, h2⟩ := C01_no_residue_partial db rank hdag fuel r e s' hok.wellOwned hok.noResidue h
  exact ⟨C01_dir_preserved db fuel true r e s' hok.dir h,
         C01_contributions_present_partial db rank hdag fuel true r e s' hok.wellOwned hok.noResidue hok.present h, h1, h2⟩

/-! ## clause 4: an explicitly named version is the one set up -/

/-- Clause 4, under the weakest static form of the property's own proviso: the requested *name* is not reachable from
itself through dependency lines (`NoSelfReach` — nothing is assumed about the rest of the database; `NameDag` implies it
for every name: `noSelfReach_of_nameDag`).  Without it the statement is false: `C01_explicit_version_self_witness`. -/
theorem C01_explicit_version_partial (db : Db) (fuel : Nat) (r : Request) (hself : NoSelfReach db r.name)
    (v : VStr) (hv : r.version = some (.explicit v)) (e : Setup.Env) (s' : St)
    (h : runSetup db fuel r e = .ok s') : ∃ k, s'.env.rec? r.name = some (v, k) := by
  unfold runSetup at h
  cases fuel with
  | zero => simp [setup_zero] at h
  | succ k =>
    rw [setup_succ_true] at h
    have ha0 : AlreadyOK (r.cfg db).db (St.init e).already := by intro n d x h; simp [St.init, aget] at h
    cases hres : resolve (r.cfg db).db (r.cfg db).path (r.cfg db).keep (St.init e).already r.name r.version none 0 r.vro.length r.vro with
    | none => rw [hres] at h; cases h
    | error => rw [hres] at h; cases h
    | found d reason =>
      rw [hres] at h
      obtain ⟨hc, hname⟩ := resolve_spec _ _ _ _ ha0 _ _ _ _ _ _ _ _ hres
      simp only at h
      have hpd : pickDecl (r.cfg db).db (St.init e).cache d = d := rfl
      rw [hpd] at h
      rw [hv] at hres
      have hver := resolve_explicit _ _ _ _ _ _ _ _ _ _ _ hres
      have := install_top_record_noSelf (r.cfg db) k false r.vro d reason hc (by rw [hname]; exact hself) _ s'
        (register_already (r.cfg db) 0 d reason
          ((St.init e).afterResolve (r.cfg db) 0 r.vro r.name r.version none) ha0 hc) h
      refine ⟨d.ver.2, ?_⟩
      rw [← hname, ← hver]; exact this

/-- the `NameDag` form of clause 4 (as stated in the earlier rounds) is a corollary -/
theorem C01_explicit_version_nameDag (db : Db) (rank : Name → Nat) (hdag : NameDag db rank) (fuel : Nat)
    (r : Request) (v : VStr) (hv : r.version = some (.explicit v)) (e : Setup.Env) (s' : St)
    (h : runSetup db fuel r e = .ok s') : ∃ k, s'.env.rec? r.name = some (v, k) :=
  C01_explicit_version_partial db fuel r (noSelfReach_of_nameDag db rank hdag r.name) v hv e s' h

/-! ## D17: the full statement is false when a product name is reachable from one of its own versions -/

def nTop : Name := [116]
def nA : Name := [97]
def nB : Name := [98]
def nC : Name := [99]
def v1 : Ver := ([49], 0)
def v2 : Ver := ([50], 0)
def PATH : Str := [80]
def ALATE : Str := [76]

/-- `top → a` (current `a 1`) `→ b → a 2`: the product-version graph is a DAG, the name graph has a cycle.
`a 1`: `envPrepend(PATH, $DIR/1); setupRequired(b); envPrepend(PATH, $DIR/2); envSet(L, $DIR)` -/
def dbD17 : Db :=
  { decls := [
      ⟨nTop, v1, [1], [(.always, .dep nA false false none none [] false)]⟩,
      ⟨nA, v1, [2], [(.always, .prepend PATH [.own [1]] false), (.always, .dep nB false false none none [] false),
                     (.always, .prepend PATH [.own [2]] false), (.always, .set ALATE (.own []))]⟩,
      ⟨nB, v1, [3], [(.always, .dep nA false false (some (.explicit v2.1)) none [] false)]⟩,
      ⟨nA, v2, [4], [(.always, .prepend PATH [.own [1]] false)]⟩ ],
    tags := [(tagCurrent, nTop, v1), (tagCurrent, nA, v1), (tagCurrent, nB, v1)] }

def reqTop : Request := ⟨nTop, none, false, none, false, [], [0]⟩

def envOf : Res → Option Setup.Env
  | .ok s => some s.env
  | _ => none

/-- From the empty environment `setup top` succeeds and ends with `SETUP_A = a 2`, while `PATH` still holds
`dir(a 1)/2`, `L = dir(a 1)`, and `b` — required by the set-up `a`… of version 1 — is not set up. -/
theorem C01_nested_switch_witness :
    envOf (runSetup dbD17 20 reqTop Setup.Env.empty) =
      some ⟨[(nA, v2), (nTop, v1)], [(nA, .own (nA, v2) []), (nTop, .own (nTop, v1) [])],
            [(PATH, [.own (nA, v1) [2], .own (nA, v2) [1]])], [(ALATE, .own (nA, v1) [])]⟩ := by
  decide +kernel

def tagBeta : Str := [98]

/-- `a 1`: `setupRequired(b)`; `b 1`: `setupRequired(a -t beta)`; `beta` names `a 2` (a line's own `-t` tag outranks the
version given on the command line) -/
def dbSelf : Db :=
  { decls := [⟨nA, v1, [2], [(.always, .dep nB false false none none [] false)]⟩,
              ⟨nB, v1, [3], [(.always, .dep nA false false none none [tagBeta] false)]⟩,
              ⟨nA, v2, [4], []⟩],
    tags := [(tagCurrent, nA, v1), (tagCurrent, nB, v1), (tagBeta, nA, v2)] }

/-- `NoSelfReach` cannot be dropped from clause 4: in `dbSelf` the name `a` reaches itself (`a 1 → b → a`); from the empty
environment `setup a 1` succeeds and ends with `SETUP_A = a 2` and nothing else set up (D17's class seen from clause 4). -/
theorem C01_explicit_version_self_witness :
    Within dbSelf nA 2 nA ∧
    (envOf (runSetup dbSelf 20 ⟨nA, some (.explicit v1.1), false, none, false, [], [0]⟩ Setup.Env.empty)).map
      (fun e => e.recs) = some [(nA, v2)] := by
  refine ⟨?_, by decide +kernel⟩
  have h1 : Within dbSelf nA 1 nB :=
    Within.step (d := ⟨nA, v1, [2], [(.always, .dep nB false false none none [] false)]⟩) (g := .always)
      (o := false) (j := false) (v := none) (x := none) (t := []) (kl := false) Within.root (by simp [dbSelf]) rfl (by simp)
  exact Within.step (d := ⟨nB, v1, [3], [(.always, .dep nA false false none none [tagBeta] false)]⟩) (g := .always)
    (o := false) (j := false) (v := none) (x := none) (t := [tagBeta]) (kl := false) h1 (by simp [dbSelf]) rfl (by simp)

/-! ## D34: an environment produced under one setup type is not `WellOwned` for a request of the other type -/

def AX : Str := [88]

/-- `a 1`: `envPrepend(PATH, $DIR/1); if (type == exact) { envPrepend(PATH, $DIR/2); envSet(X, $DIR) } else { envPrepend(PATH, $DIR/3) }` -/
def dbD34 : Db :=
  { decls := [
      ⟨nA, v1, [2], [(.always, .prepend PATH [.own [1]] false), (.exact, .prepend PATH [.own [2]] false),
                     (.exact, .set AX (.own [])), (.inexact, .prepend PATH [.own [3]] false)]⟩,
      ⟨nA, v2, [4], [(.always, .prepend PATH [.own [1]] false)]⟩ ],
    tags := [(tagCurrent, nA, v1)] }

/-- `setup a` (exact), then `setup --inexact a 2`: `a 1` is unwound under the inexact reading of its table; `dir(a 1)/2`
and `X = dir(a 1)` stay behind although `SETUP_A = a 2`.  The theorems' hypothesis `WellOwned (r.cfg db) e` (the prior
environment was produced under the request's setup type) is what excludes this history. -/
theorem C01_mixed_type_witness :
    ∃ e1, envOf (runSetup dbD34 10 ⟨nA, none, false, none, false, [], [0]⟩ Setup.Env.empty) = some e1 ∧
      envOf (runSetup dbD34 10 ⟨nA, some (.explicit v2.1), false, none, true, [], [0]⟩ e1) =
        some ⟨[(nA, v2)], [(nA, .own (nA, v2) [])], [(PATH, [.own (nA, v2) [1], .own (nA, v1) [2]])],
              [(AX, .own (nA, v1) [])]⟩ := by
  refine ⟨⟨[(nA, v1)], [(nA, .own (nA, v1) [])], [(PATH, [.own (nA, v1) [2], .own (nA, v1) [1]])],
           [(AX, .own (nA, v1) [])]⟩, ?_, ?_⟩ <;> decide +kernel

/-! ## D35: a replaced version unwinds a dependency the same request has just set up -/

/-- `top 1`: `setupRequired(c 2); setupRequired(a 2)`; `a 1`: `setupRequired(c)`; `a 2`, `c 1`, `c 2`: empty tables -/
def dbD35 : Db :=
  { decls := [
      ⟨nTop, v1, [1], [(.always, .dep nC false false (some (.explicit v2.1)) none [] false),
                       (.always, .dep nA false false (some (.explicit v2.1)) none [] false)]⟩,
      ⟨nA, v1, [2], [(.always, .dep nC false false none none [] false)]⟩,
      ⟨nA, v2, [3], []⟩,
      ⟨nC, v1, [4], []⟩,
      ⟨nC, v2, [5], []⟩ ],
    tags := [(tagCurrent, nTop, v1), (tagCurrent, nA, v1), (tagCurrent, nC, v1)] }

/-- With `a 1` and `c 1` set up, `setup top` switches `c` to 2 (first line), then replaces `a 1` by `a 2` (second line):
unwinding `a 1` unsets `c` — the `c 2` the first line has just set up — and the request succeeds without any `c`, although
`top`'s table requires it.  `C01_required_closure_partial` excludes this by `OneVersion` (no name of the closure has two
declared versions, so nothing is ever replaced). -/
theorem C01_replaced_version_witness :
    envOf (runSetup dbD35 20 reqTop
        ⟨[(nA, v1), (nC, v1)], [(nA, .own (nA, v1) []), (nC, .own (nC, v1) [])], [], []⟩) =
      some ⟨[(nA, v2), (nTop, v1)], [(nA, .own (nA, v2) []), (nTop, .own (nTop, v1) [])], [], []⟩ := by
  decide +kernel

/-! ## non-vacuity: a diamond that switches `c 1 → c 2` inside one request -/

/-- `top → a → c 1`, `top → b → c 2` -/
def dbDiamond : Db :=
  { decls := [
      ⟨nTop, v1, [1], [(.always, .dep nA false false none none [] false), (.always, .dep nB false false none none [] false)]⟩,
      ⟨nA, v1, [2], [(.always, .prepend PATH [.own [1]] false), (.always, .dep nC false false (some (.explicit v1.1)) none [] false)]⟩,
      ⟨nB, v1, [3], [(.always, .prepend PATH [.own [1]] false), (.always, .dep nC false false (some (.explicit v2.1)) none [] false)]⟩,
      ⟨nC, v1, [4], [(.always, .prepend PATH [.own [1]] false)]⟩,
      ⟨nC, v2, [5], [(.always, .prepend PATH [.own [1]] false)]⟩ ],
    tags := [(tagCurrent, nTop, v1), (tagCurrent, nA, v1), (tagCurrent, nB, v1), (tagCurrent, nC, v1)] }

/-- the request succeeds, `c` ends at version 2 and no element of `c 1` is left -/
theorem C01_nonvacuous :
    envOf (runSetup dbDiamond 20 reqTop Setup.Env.empty) =
      some ⟨[(nC, v2), (nB, v1), (nA, v1), (nTop, v1)],
            [(nC, .own (nC, v2) []), (nB, .own (nB, v1) []), (nA, .own (nA, v1) []), (nTop, .own (nTop, v1) [])],
            [(PATH, [.own (nC, v2) [1], .own (nB, v1) [1], .own (nA, v1) [1]])], []⟩ := by
  decide +kernel

/-! ## clause 5 (closure): the two halves that are theorems

The full clause (the set of products set up is *exactly* the dependency closure, each at its designated version, when no
product is requested in two versions) is evaluated on the implementation by oracle (ii); what is proved: nothing outside
the closure is set up, and the requested product is set up in the version resolution designates. -/

/-- from an environment with nothing set up, every product set up after a successful request is reachable from the
requested product through dependency lines — every database, every flag, every fuel -/
theorem C01_closure_sound (db : Db) (fuel : Nat) (r : Request) (e : Setup.Env) (s' : St)
    (hclean : ∀ n, e.rec? n = none) (h : runSetup db fuel r e = .ok s') :
    ∀ m v, s'.env.rec? m = some v → ∃ k, Within db r.name k m := by
  intro m v hm
  apply Classical.byContradiction
  intro hno
  have hsame := setup_subjInv (r.cfg db) (fun _ n => ∃ k, Within db r.name k n) (SameFor m e)
    (within_closedAt_unbounded (r.cfg db) r.name)
    (sameFor_subjInv (r.cfg db) _ m (fun _ h => hno h) e) fuel true 0 false r.vro r.name r.version none (St.init e) s'
    ⟨0, Within.root⟩ (by intro n d x h; simp [St.init, aget] at h) (SameFor.refl m e) h
  rw [hsame.record, hclean m] at hm
  cases hm

/-- the "exact closure" half for every prior environment: whatever was set up before, a product that is set up after a
successful request either was set up before in that very version, or is reachable from the requested product through
dependency lines — nothing outside the closure is *newly* set up or switched.  Every database, flag, fuel. -/
theorem C01_closure_sound_populated (db : Db) (fuel : Nat) (r : Request) (e : Setup.Env) (s' : St)
    (h : runSetup db fuel r e = .ok s') :
    ∀ m v, s'.env.rec? m = some v → e.rec? m = some v ∨ ∃ k, Within db r.name k m := by
  intro m v hm
  by_cases hno : ∃ k, Within db r.name k m
  · exact Or.inr hno
  · left
    have hsame := setup_subjInv (r.cfg db) (fun _ n => ∃ k, Within db r.name k n) (SameFor m e)
      (within_closedAt_unbounded (r.cfg db) r.name)
      (sameFor_subjInv (r.cfg db) _ m (fun _ h => hno h) e) fuel true 0 false r.vro r.name r.version none (St.init e) s'
      ⟨0, Within.root⟩ (by intro n d x h; simp [St.init, aget] at h) (SameFor.refl m e) h
    rw [← hsame.record]; exact hm

/-- the requested product is set up in the version the resolution order designates for the request (resolution run on
an empty `alreadySetupProducts`, as the top-level call does) — provided the requested name is not reachable from itself
(`NoSelfReach`: the weakest static form of "not requested in two versions along the traversal" for the requested
product; the rest of the database is arbitrary) -/
theorem C01_requested_version_partial (db : Db) (fuel : Nat) (r : Request) (hself : NoSelfReach db r.name)
    (e : Setup.Env) (s' : St) (h : runSetup db fuel r e = .ok s') :
    ∃ d reason, resolve db r.path r.keep [] r.name r.version none 0 r.vro.length r.vro = .found d reason ∧
      s'.env.rec? r.name = some d.ver := by
  unfold runSetup at h
  cases fuel with
  | zero => simp [setup_zero] at h
  | succ k =>
    rw [setup_succ_true] at h
    have ha0 : AlreadyOK (r.cfg db).db (St.init e).already := by intro n d x h; simp [St.init, aget] at h
    cases hres : resolve (r.cfg db).db (r.cfg db).path (r.cfg db).keep (St.init e).already r.name r.version none 0 r.vro.length r.vro with
    | none => rw [hres] at h; cases h
    | error => rw [hres] at h; cases h
    | found d reason =>
      rw [hres] at h
      obtain ⟨hc, hname⟩ := resolve_spec _ _ _ _ ha0 _ _ _ _ _ _ _ _ hres
      simp only at h
      have hpd : pickDecl (r.cfg db).db (St.init e).cache d = d := rfl
      rw [hpd] at h
      have := install_top_record_noSelf (r.cfg db) k false r.vro d reason hc (by rw [hname]; exact hself) _ s'
        (register_already (r.cfg db) 0 d reason
          ((St.init e).afterResolve (r.cfg db) 0 r.vro r.name r.version none) ha0 hc) h
      exact ⟨d, reason, hres, by rw [← hname]; exact this⟩

/-- the required half of the closure: when no dependency line of the closure carries `-j`, every name of the closure has
one declared version (no version conflict is possible) and `max_depth` is not set, then after a successful request for a
product that was not set up, every `setupRequired` line of the table of every set-up product of the closure has its target
set up (from an environment where this held — e.g. one with nothing of the closure set up), and the requested product is
set up.  Together with `C01_closure_sound`: the products set up lie between the required closure and the reach of the
request; which *optional* dependencies are in is decided by whether they can be resolved (oracle (ii)). -/
theorem C01_required_closure_partial (db : Db) (fuel : Nat) (r : Request) (e : Setup.Env) (s' : St)
    (hmd : r.maxDepth = none) (hnj : NoJust db (fun n => ∃ k, Within db r.name k n))
    (hone : OneVersion db (fun n => ∃ k, Within db r.name k n))
    (hdecl : RecsDeclared db e) (hnot : setupProd db e r.name = none)
    (hsat : ReqSat (r.cfg db) (fun n => ∃ k, Within db r.name k n) (fun _ => False) e)
    (h : runSetup db fuel r e = .ok s') :
    ReqSat (r.cfg db) (fun n => ∃ k, Within db r.name k n) (fun _ => False) s'.env ∧ ∃ w, s'.env.rec? r.name = some w := by
  have hcl : Closed (r.cfg db).db (fun n => ∃ k, Within db r.name k n) :=
    fun d hd ⟨k, hk⟩ g n o j v x t kl hg => ⟨k + 1, Within.step hk hd rfl hg⟩
  obtain ⟨h1, _, _, h4⟩ := setup_req (r.cfg db) _ hmd hcl hnj hone fuel (fun _ => False) 0 r.vro r.name r.version none
    (St.init e) s' ⟨0, Within.root⟩ (Or.inr hnot) (by intro n d x h; simp [St.init, aget] at h) hdecl hsat h
  exact ⟨h1, h4⟩

/-! ## the hypotheses are satisfiable: the diamond database is a `NameDag`, the empty environment is `EnvOK` -/

def rankDiamond (n : Name) : Nat := if n = nTop then 3 else if n = nA ∨ n = nB then 2 else if n = nC then 1 else 0

example : NameDag dbDiamond rankDiamond := nameDag_of_check _ _ (by decide +kernel)

example (cfg : Cfg) : EnvOK cfg Setup.Env.empty :=
  ⟨by intro n v h; simp [Setup.Env.empty, Setup.Env.rec?, aget] at h,
   by intro n v _ h; simp [Setup.Env.empty, Setup.Env.rec?, aget] at h,
   ⟨by intro v p r h; simp [Setup.Env.empty, Setup.Env.pathOf, aget] at h,
    by intro v p r h; simp [Setup.Env.empty, aget] at h, by intro n p r h; simp [Setup.Env.empty, aget] at h⟩,
   ⟨by intro v p r h; simp [Setup.Env.empty, Setup.Env.pathOf, aget] at h,
    by intro v p r h; simp [Setup.Env.empty, aget] at h, by intro n p r h; simp [Setup.Env.empty, aget] at h⟩⟩

end EupsModel.C01
