/-! C01 — property theorems (placeholder until the model exists). -/
