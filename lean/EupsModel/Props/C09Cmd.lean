import EupsModel.Model.LockCmd
import EupsModel.Lemmas.LockPathRMutex
/-! C09 — the lock bracket of the command line (property theorems): "a command that updates the database (exclusive)
…" — every command that writes into a stack takes an exclusive lock, on every stack it works on. -/
namespace EupsModel.C09
open EupsModel.Lock (Pid Kind Err)
open EupsModel.LockCmd

/-- Every command that updates a stack (database, stack-wide cache, installed products) is registered with an
exclusive lock. -/
theorem C09_updaters_lock_exclusively (c : Cmd) (h : updates c = true) : lockType c = some .ex := by
  cases c <;> simp_all [updates, lockType]

/-- … and its command line does take that lock unless the user switches locking off (`--nolocks`, or
`lockDirectoryBase = None`) or only asks for help. -/
theorem C09_updaters_bracket (c : Cmd) (o : Opts) (h : updates c = true) (hn : o.nolocks = false)
    (he : o.enabled = true) (hh : o.help = false) : bracket c o = some .ex := by
  simp [bracket, hn, he, hh, C09_updaters_lock_exclusively c h]

/-- The bracket takes no lock only for the commands registered without one, or at the user's request. -/
theorem C09_bracket_none (c : Cmd) (o : Opts) (h : bracket c o = none) :
    lockType c = none ∨ o.nolocks = true ∨ o.enabled = false ∨ o.help = true := by
  unfold bracket at h
  cases hn : o.nolocks <;> cases he : o.enabled <;> cases hh : o.help <;> simp_all

/-- readers share: every command registered with a lock that is not an updater takes a shared one, except
`distrib path` / `distrib tags`, which keep the default (exclusive) though they only read — conservative. -/
theorem C09_readers_lock_shared (c : Cmd) (h : updates c = false) (hl : lockType c ≠ none)
    (h1 : c ≠ .distribPath) (h2 : c ≠ .distribTags) : lockType c = some .sh := by
  cases c <;> simp_all [updates, lockType]

theorem mem_dedup (l : List Nat) (x : Nat) : x ∈ dedup l ↔ x ∈ l := by
  induction l with
  | nil => simp [dedup]
  | cons d r ih =>
    simp only [dedup, List.mem_cons, List.mem_filter, ih]
    constructor
    · rintro (h | ⟨h, _⟩)
      · exact Or.inl h
      · exact Or.inr h
    · intro h
      by_cases hx : x = d
      · exact Or.inl hx
      · rcases h with h | h
        · exact absurd h hx
        · exact Or.inr ⟨h, by simpa using hx⟩

theorem nodup_dedup (l : List Nat) : (dedup l).Nodup := by
  induction l with
  | nil => simp [dedup]
  | cons d r ih =>
    simp only [dedup]
    refine List.nodup_cons.2 ⟨?_, ih.filter _⟩
    simp [List.mem_filter]

/-- The stacks a command line locks are exactly the stacks it works on (`-Z` replaces `$EUPS_PATH`, `-z` selects),
each once. -/
theorem C09_locked_stacks (envPath : List Nat) (optZ : Option (List Nat)) (optz : Option Nat) (d : Nat) :
    (lockedStacks envPath optZ optz).Nodup ∧
    (d ∈ lockedStacks envPath optZ optz ↔
      d ∈ (match optZ with | some l => l | none => envPath) ∧ (match optz with | some z => d = z | none => True)) := by
  refine ⟨nodup_dedup _, ?_⟩
  unfold lockedStacks
  rw [mem_dedup]
  cases optz <;> cases optZ <;> simp

/-- **Mutual exclusion for command lines, no hypothesis left**: commands whose paths are what `setEupsPath` makes of
`$EUPS_PATH`, `-Z` and `-z` — any number of them, any kinds, `EUPS_LOCK_PID` maps, retry counts, every schedule —
are never in their bodies together, unrelated, one of them holding an exclusive lock on a stack both work on. -/
theorem C09_cmdline_mutex (kind : Pid → Kind) (lp : Pid → Option Pid) (tries : Pid → Nat)
    (envPath : Pid → List Nat) (optZ : Pid → Option (List Nat)) (optz : Pid → Option Nat)
    (explicit : Pid → Bool) (sched : List Pid) :
    LockPathR.MutexM (LockPathR.mrun (LockPathR.minit kind lp tries
      (fun p => lockedStacks (envPath p) (optZ p) (optz p)) explicit) sched) :=
  LockPathR.mutexM_mrun kind lp tries _ explicit (fun _ => nodup_dedup _) sched

/-- … the same with signals delivered to command bodies. -/
theorem C09_cmdline_mutex_with_signals (kind : Pid → Kind) (lp : Pid → Option Pid) (tries : Pid → Nat)
    (envPath : Pid → List Nat) (optZ : Pid → Option (List Nat)) (optz : Pid → Option Nat)
    (explicit : Pid → Bool) (evs : List LockPathR.MEv) :
    LockPathR.MutexM (LockPathR.mrunE (LockPathR.minit kind lp tries
      (fun p => lockedStacks (envPath p) (optZ p) (optz p)) explicit) evs) :=
  LockPathR.mutexM_mrunE kind lp tries _ explicit (fun _ => nodup_dedup _) evs

/-- **A command in its body holds every stack it works on**: for command lines (paths as `setEupsPath` makes them),
in every reachable state — signals included — a command whose `takeLocks` has returned holds its lock on every stack
of its path: an updater an exclusive one on every stack it may write to. -/
theorem C09_cmdline_body_holds_every_stack (kind : Pid → Kind) (lp : Pid → Option Pid) (tries : Pid → Nat)
    (envPath : Pid → List Nat) (optZ : Pid → Option (List Nat)) (optz : Pid → Option Nat)
    (explicit : Pid → Bool) (evs : List LockPathR.MEv) (p : Pid) (d : Nat)
    (hb : LockPathR.inBodyM ((LockPathR.mrunE (LockPathR.minit kind lp tries
      (fun p => lockedStacks (envPath p) (optZ p) (optz p)) explicit) evs).ctl p) = true)
    (hd : d ∈ lockedStacks (envPath p) (optZ p) (optz p)) :
    ((LockPathR.mrunE (LockPathR.minit kind lp tries
      (fun p => lockedStacks (envPath p) (optZ p) (optz p)) explicit) evs).comp d).pc p = .hold ∧
    (kind p, p) ∈ ((LockPathR.mrunE (LockPathR.minit kind lp tries
      (fun p => lockedStacks (envPath p) (optZ p) (optz p)) explicit) evs).comp d).files :=
  LockPathR.body_holds kind lp tries _ explicit (fun _ => nodup_dedup _) evs p d hb hd

/-- non-vacuity: `-Z 2:0:2 -z …` style selections -/
example : lockedStacks [0, 1] (some [2, 0, 2]) none = [2, 0] ∧ lockedStacks [0, 1, 1] none (some 1) = [1] ∧
    bracket .declare {} = some .ex ∧ bracket .declare { help := true } = none ∧
    bracket .adminBuildCache { help := true } = some .ex ∧ bracket .list { nolocks := true } = none := by decide

end EupsModel.C09
