import EupsModel.Spec.C11
/-! C11, specification side: the *grammar of table texts* for which the headline theorem `C11_table_text` is stated
without any hypothesis about what the reader's patterns do.

A table is a list of items; an item is a line or an `if` / `else if` / `else` chain; a line is a command line as
written (`WCmd`: indentation, command word in any letter case, blanks, written argument list, optional `;`,
trailing comment) or a note (a blank line or a comment line).  The layout of every line of the block structure is
part of the tree (`Wrap`, `IfLay`, `ElseLay`), conditions are written conditions (`CExpr`).

The denotation (`gDenote`) is defined on this tree directly: commands outside chains always, of every chain the
lines of the first branch whose condition holds, else those of the else branch; a command line stands for the
action `WCmd.denote` gives it (or for nothing when the reader skips the command by design). -/
namespace EupsModel.C11Spec
open EupsModel.Cond EupsModel.TableParse

/-- a line that is not part of the block structure -/
inductive GLine
  | cmd (c : WCmd)
  | note (raw : Str)
  deriving Repr

/-- a command line is well written and not refused by the reader (number of arguments); a note is one line that is
empty once indentation and comment are removed -/
def GLine.ok (pdir : Option Str) : GLine → Bool
  | .cmd c => c.ok && (c.denote pdir).isSome
  | .note raw => raw.all (· != 10) && (strip raw).isEmpty

def GLine.raw : GLine → Str
  | .cmd c => c.raw
  | .note raw => raw

/-- the actions the line stands for: at most one -/
def GLine.acts (pdir : Option Str) : GLine → List Action
  | .cmd c => match c.denote pdir with
    | some (some a) => [a]
    | _ => []
  | .note _ => []

def gBody (pdir : Option Str) (b : List GLine) : List Action := b.flatMap (GLine.acts pdir)

structure GBranch where
  wrap : Wrap
  lay : IfLay
  cond : CExpr
  trail : Str
  body : List GLine
  deriving Repr

def GBranch.ok (pdir : Option Str) (b : GBranch) : Bool :=
  b.wrap.ok && b.lay.ok && b.cond.okAt 0 && blank b.trail && (b.cond.str ++ b.trail).all (· != 10)
    && b.body.all (GLine.ok pdir)

structure GElse where
  wrap : Wrap
  lay : ElseLay
  after : Str
  body : List GLine
  deriving Repr

def GElse.ok (pdir : Option Str) (e : GElse) : Bool :=
  e.wrap.ok && e.lay.ok && hblank e.after && e.body.all (GLine.ok pdir)

inductive GItem
  | line (l : GLine)
  | chain (first : GBranch) (elifs : List (ElseLay × GBranch)) (els : Option GElse) (closeWrap : Wrap) (closeAfter : Str)
  deriving Repr

def GItem.ok (pdir : Option Str) : GItem → Bool
  | .line l => l.ok pdir
  | .chain f es els cw ca =>
    f.ok pdir && es.all (fun p => p.1.ok && p.2.ok pdir) && (match els with | some e => e.ok pdir | none => true)
      && cw.ok && hblank ca

/-- the first branch whose condition is true, else the else branch -/
def gBranches (env : Env) : List (BExpr × List Action) → List Action → List Action
  | [], e => e
  | (c, as) :: r, e => if denote env c then as else gBranches env r e

def gDenoteItem (pdir : Option Str) (env : Env) : GItem → List Action
  | .line l => l.acts pdir
  | .chain f es els _ _ =>
    gBranches env ((f :: es.map (·.2)).map fun b => (b.cond.abs, gBody pdir b.body))
      (match els with | some e => gBody pdir e.body | none => [])

/-- what a table of the grammar denotes for a product, a flavor and a list of setup types -/
def gDenote (pdir : Option Str) (env : Env) (t : List GItem) : List Action := t.flatMap (gDenoteItem pdir env)

/-! ### the text -/

def GLine.line (pdir : Option Str) : GLine → BodyLineT
  | .cmd c => c.line pdir
  | .note raw => ⟨raw, none⟩

def GBranch.toT (pdir : Option Str) (b : GBranch) : BranchT :=
  ⟨b.wrap, b.lay, b.cond, b.trail, b.body.map (GLine.line pdir)⟩

def GElse.toT (pdir : Option Str) (e : GElse) : ElseT := ⟨e.wrap, e.lay, e.after, e.body.map (GLine.line pdir)⟩

def GItem.toT (pdir : Option Str) : GItem → TItemT
  | .line l => .line (l.line pdir)
  | .chain f es els cw ca => .chain (f.toT pdir) (es.map fun p => (p.1, p.2.toT pdir)) (els.map (GElse.toT pdir)) cw ca

/-- the text of a table of the grammar (the product only matters for what the lines stand for, not for the text);
`nl`: the file ends with a newline -/
def gText (t : List GItem) (nl : Bool) : Str := tableText (t.map (GItem.toT none)) nl

end EupsModel.C11Spec
