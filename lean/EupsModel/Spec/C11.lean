import EupsModel.Model.TableParse
/-! Specification side of C11: what a condition and a table *denote*, and how they are written.

* `BExpr`, `denote` — boolean expressions over `FLAVOR` and `TYPE` with `==`, `!=`, `&&`, `||`, by their truth tables
  (`FLAVOR == w`: the flavor is `w`; `TYPE == w`: `w` is one of the setup types).
* `CExpr` — a condition *as written*: spelling of the keyword, quoting of the word, redundant parentheses and the
  blanks before every token are part of the tree, so that a theorem quantified over `CExpr` covers every layout.
  `CExpr.str` is the text, `CExpr.abs` the expression it stands for, `CExpr.okAt p` says that parentheses are
  present wherever the usual precedence (`&&` above `||`, both left-associative) needs them.
* `render` — a canonical way of writing a `BExpr` (minimal parentheses, single blanks).

Nothing here is executed by the driver; the definitions are used by the theorems of `Props/C11.lean` only. -/
namespace EupsModel.C11Spec
open EupsModel.Cond EupsModel.TableParse

inductive Var | flavor | type
  deriving DecidableEq, Repr

inductive BExpr
  | atom (v : Var) (neg : Bool) (w : Str)
  | and (a b : BExpr)
  | or (a b : BExpr)
  deriving Repr

/-- the truth value of a condition for a flavor and a list of setup types -/
def denote (env : Env) : BExpr → Bool
  | .atom .flavor neg w => (env.flavor == w) != neg
  | .atom .type neg w => (env.types.contains w) != neg
  | .and a b => denote env a && denote env b
  | .or a b => denote env a || denote env b

/-- a comparison as written -/
structure Atom where
  kw : Str                 -- the keyword as spelled (`FLAVOR`, `flavor`, `Type`, …)
  var : Var
  neg : Bool               -- `!=` rather than `==`
  word : Str
  quote : Option Nat       -- the quote character around the word, if any
  sp1 : Str                -- blanks before the keyword,
  sp2 : Str                -- before the operator,
  sp3 : Str                -- before the word
  deriving Repr

inductive CExpr
  | atom (a : Atom)
  | and (a b : CExpr) (sp : Str)            -- `sp`: blanks before `&&`
  | or (a b : CExpr) (sp : Str)
  | paren (a : CExpr) (sp1 sp2 : Str)       -- blanks before `(` and before `)`
  deriving Repr

def opStr (neg : Bool) : Str := if neg then sNe else sEq
def quoted (q : Option Nat) (w : Str) : Str :=
  match q with
  | none => w
  | some c => c :: w ++ [c]

/-- the text of a written condition (every token carries the blanks before it) -/
def CExpr.str : CExpr → Str
  | .atom a => a.sp1 ++ a.kw ++ a.sp2 ++ opStr a.neg ++ a.sp3 ++ quoted a.quote a.word
  | .and a b sp => a.str ++ sp ++ sAndAnd ++ b.str
  | .or a b sp => a.str ++ sp ++ sOrOr ++ b.str
  | .paren a sp1 sp2 => sp1 ++ sLp ++ a.str ++ sp2 ++ sRp

/-- its tokens -/
def CExpr.toks : CExpr → List Str
  | .atom a => [a.kw, opStr a.neg, a.word]
  | .and a b _ => a.toks ++ sAndAnd :: b.toks
  | .or a b _ => a.toks ++ sOrOr :: b.toks
  | .paren a _ _ => sLp :: a.toks ++ [sRp]

/-- the expression it stands for -/
def CExpr.abs : CExpr → BExpr
  | .atom a => .atom a.var a.neg a.word
  | .and a b _ => .and a.abs b.abs
  | .or a b _ => .or a.abs b.abs
  | .paren a _ _ => a.abs

def blank (s : Str) : Bool := s.all Str.isSpace

/-- a word that can be compared with: made of `[\w.+]`, not a number, not a keyword of the evaluator -/
def plainWord (w : Str) : Bool :=
  !w.isEmpty && w.all isTokCh && (parseInt w).isNone && Str.lower w != sFlavor && Str.lower w != sType
    && w != sTrue && w != sFalse && w != sEOF && w != sNot

def Var.kw : Var → Str
  | .flavor => sFlavor
  | .type => sType

def Atom.ok (a : Atom) : Bool :=
  Str.lower a.kw == a.var.kw && plainWord a.word
    && (a.quote == none || a.quote == some 39 || a.quote == some 34)
    && blank a.sp1 && blank a.sp2 && blank a.sp3

/-- well-formed at precedence `p` (0: operand of `||` or the whole condition, 1: operand of `&&`, 2: primary) -/
def CExpr.okAt : Nat → CExpr → Bool
  | _, .atom a => a.ok
  | _, .paren a sp1 sp2 => a.okAt 0 && blank sp1 && blank sp2
  | p, .and a b sp => decide (p ≤ 1) && a.okAt 1 && b.okAt 2 && blank sp
  | p, .or a b sp => decide (p = 0) && a.okAt 0 && b.okAt 1 && blank sp

/-- flavors that the evaluator would take for one of its own symbols -/
def flavorOK (fl : Str) : Bool := fl != sEOF && fl != sLp && fl != sBang && fl != sNot

/-- canonical rendering of an expression at precedence `p`: minimal parentheses, one blank before every token -/
def render : Nat → BExpr → CExpr
  | _, .atom v neg w =>
    .atom { kw := (match v with | .flavor => [70, 76, 65, 86, 79, 82] | .type => [84, 89, 80, 69]), var := v, neg := neg,
            word := w, quote := none, sp1 := [32], sp2 := [32], sp3 := [32] }
  | p, .and a b =>
    let c := CExpr.and (render 1 a) (render 2 b) [32]
    if p > 1 then .paren c [32] [32] else c
  | p, .or a b =>
    let c := CExpr.or (render 0 a) (render 1 b) [32]
    if p > 0 then .paren c [32] [32] else c

/-- every word compared with is plain -/
def BExpr.wordsOK : BExpr → Bool
  | .atom _ _ w => plainWord w
  | .and a b => a.wordsOK && b.wordsOK
  | .or a b => a.wordsOK && b.wordsOK

/-! ## tables

A table is a list of items: single lines outside any block, and if / else-if / else chains.  A line is what the
reader makes of it — an action, or nothing (a comment, a blank line, an unknown or unsupported command) — so that
the block clause is stated for *arbitrary* lines between the lines of the block structure; how a command line
becomes its action is the argument clause. -/

/-- the lines of a block: `some a` a command line (with its action), `none` a line the reader skips -/
abbrev Body := List (Option Action)

def Body.acts (b : Body) : List Action := b.filterMap id

structure Branch where
  cond : CExpr
  trail : Str                -- blanks between the condition and the closing parenthesis
  body : Body
  deriving Repr

/-- the condition text between the parentheses of `if (…) {` -/
def Branch.text (b : Branch) : Str := b.cond.str ++ b.trail
def Branch.ok (b : Branch) : Bool := b.cond.okAt 0 && blank b.trail

inductive TItem
  | line (l : Option Action)                                                   -- a line outside any block
  | chain (first : Branch) (elifs : List Branch) (els : Option Body) (lowerElse : Bool)
      -- `lowerElse`: the keyword of `} else {` is written in lower case (immaterial after the repair of D4)
  deriving Repr

def TItem.ok : TItem → Bool
  | .line _ => true
  | .chain f es _ _ => f.ok && es.all Branch.ok

/-- the first branch whose condition is true, else the else branch -/
def denoteBranches (env : Env) : List Branch → List Action → List Action
  | [], e => e
  | b :: bs, e => if denote env b.cond.abs then b.body.acts else denoteBranches env bs e

def denoteItem (env : Env) : TItem → List Action
  | .line l => l.toList
  | .chain f es els _ =>
    denoteBranches env (f :: es) (match els with | some b => b.acts | none => [])

/-- what a table denotes for a flavor and a list of setup types: unconditional commands always, one branch of
every chain, in the order written -/
def denoteTable (env : Env) (t : List TItem) : List Action := t.flatMap (denoteItem env)

def Body.lines (b : Body) : List Line := b.map fun
  | some a => .act a
  | none => .skip

/-- the classified lines of an item, as the reader meets them -/
def TItem.lines : TItem → List Line
  | .line l => Body.lines [l]
  | .chain f es els lw =>
    .blk (.ifOpen f.text) :: f.body.lines
      ++ es.flatMap (fun b => .blk (.elseIf b.text) :: b.body.lines)
      ++ (match els with | some b => .blk (.elseOpen lw) :: Body.lines b | none => [])
      ++ [.blk .close]

def tableLines (t : List TItem) : List Line := t.flatMap TItem.lines

/-! ## tables as text

The same tables with their layout: indentation and trailing comment of every line of the block structure,
spelling of `if` / `else`, blanks around parentheses and braces.  A line between the lines of the block structure
is any raw text, together with what the reader makes of it. -/

/-- blanks inside a line: spaces and tabs -/
def hblank (s : Str) : Bool := s.all (fun c => c == 32 || c == 9)

/-- empty or starting with something that is not white space -/
def nsp : Str → Bool
  | [] => true
  | c :: _ => !Str.isSpace c

/-- layout of `if (…) {`: the keyword as spelled, blanks before `(`, before `{` and after it -/
structure IfLay where
  kw : Str
  a : Str
  b : Str
  c : Str
  deriving Repr

def IfLay.ok (L : IfLay) : Bool := Str.lower L.kw == sIf && hblank L.a && hblank L.b && hblank L.c

def ifCore (L : IfLay) (cond : Str) : Str := L.kw ++ L.a ++ [40] ++ cond ++ [41] ++ L.b ++ [123] ++ L.c

/-- layout of `} else`: blanks after `}`, the keyword as spelled, blanks after it -/
structure ElseLay where
  s1 : Str
  kw : Str
  s2 : Str
  deriving Repr

def ElseLay.ok (E : ElseLay) : Bool := hblank E.s1 && Str.lower E.kw == sElse && hblank E.s2

def elifCore (E : ElseLay) (L : IfLay) (cond : Str) : Str := [125] ++ E.s1 ++ E.kw ++ E.s2 ++ ifCore L cond
def elseCore (E : ElseLay) (c : Str) : Str := [125] ++ E.s1 ++ E.kw ++ E.s2 ++ [123] ++ c
def closeCore (c : Str) : Str := [125] ++ c

/-- a stripped line that none of the patterns of `_rewrite` matches -/
def neutral (l : Str) : Bool :=
  !l.isEmpty && (kwEqCap sFile isWordCh l).isNone && (synonyms.foldl (fun l p => replaceAll p.1 p.2 l) l == l)
    && (kwEqCap sAction isTokCh l).isNone && !qualLine l && !kwLine sGroupC l && (kwEqCap sFlavorKw isTokCh l).isNone
    && !kwLine sCommonC l && !kwLine sEndC l && (kwEqCap sProduct isWordCh l).isNone

/-- indentation and trailing comment of a line -/
structure Wrap where
  indent : Str
  tail : Str
  deriving Repr

def Wrap.ok (w : Wrap) : Bool :=
  hblank w.indent && w.tail.all (· != 10) && (w.tail.isEmpty || w.tail.head? == some 35)

def Wrap.around (w : Wrap) (core : Str) : Str := w.indent ++ core ++ w.tail

/-- what a stripped line must be to survive the stripping as itself -/
def coreOK (core : Str) : Bool := nsp core && core.all (fun c => c != 10 && c != 35)


/-- a line between the lines of the block structure: its text, and the action it stands for (if any) -/
structure BodyLineT where
  raw : Str
  res : Option Action
  deriving Repr

def lineOf : Option Action → Line
  | some a => .act a
  | none => .skip

/-- the text is one line; stripped of indentation and comment it is either empty, or a line that `_rewrite`
passes on unchanged and that the patterns of `_read` classify as `res` (executable: for a concrete line, `decide`) -/
def BodyLineT.ok (pdir : Option Str) (b : BodyLineT) : Bool :=
  b.raw.all (· != 10) &&
    (if (strip b.raw).isEmpty then b.res.isNone
     else neutral (strip b.raw) && decide (classify repaired pdir (strip b.raw) = .ok (lineOf b.res)))

/-- the lines that reach the reader -/
def bodyAbs (body : List BodyLineT) : Body := (body.filter (fun l => !(strip l.raw).isEmpty)).map (·.res)

structure BranchT where
  wrap : Wrap
  lay : IfLay
  cond : CExpr
  trail : Str
  body : List BodyLineT
  deriving Repr

def BranchT.abs (b : BranchT) : Branch := ⟨b.cond, b.trail, bodyAbs b.body⟩

def BranchT.ok (pdir : Option Str) (b : BranchT) : Bool :=
  b.wrap.ok && b.lay.ok && b.cond.okAt 0 && blank b.trail && (b.cond.str ++ b.trail).all (· != 10)
    && b.body.all (BodyLineT.ok pdir)

structure ElseT where
  wrap : Wrap
  lay : ElseLay
  after : Str                -- blanks after `{`
  body : List BodyLineT
  deriving Repr

def ElseT.ok (pdir : Option Str) (e : ElseT) : Bool :=
  e.wrap.ok && e.lay.ok && hblank e.after && e.body.all (BodyLineT.ok pdir)

inductive TItemT
  | line (b : BodyLineT)
  | chain (first : BranchT) (elifs : List (ElseLay × BranchT)) (els : Option ElseT) (closeWrap : Wrap) (closeAfter : Str)
  deriving Repr

def TItemT.ok (pdir : Option Str) : TItemT → Bool
  | .line b => b.ok pdir
  | .chain f es els cw ca =>
    f.ok pdir && es.all (fun p => p.1.ok && p.2.ok pdir) && (match els with | some e => e.ok pdir | none => true)
      && cw.ok && hblank ca

/-- the table the text stands for (a line that is empty once stripped stands for nothing) -/
def TItemT.abs : TItemT → List TItem
  | .line b => if (strip b.raw).isEmpty then [] else [.line b.res]
  | .chain f es els _ _ =>
    [.chain f.abs (es.map (·.2.abs)) (els.map fun e => bodyAbs e.body)
      (match els with | some e => e.lay.kw == sElse | none => true)]

def tableAbs (t : List TItemT) : List TItem := t.flatMap TItemT.abs

/-- the text lines of an item -/
def TItemT.rawLines : TItemT → List Str
  | .line b => [b.raw]
  | .chain f es els cw ca =>
    f.wrap.around (ifCore f.lay f.abs.text) :: f.body.map (·.raw)
      ++ es.flatMap (fun p => p.2.wrap.around (elifCore p.1 p.2.lay p.2.abs.text) :: p.2.body.map (·.raw))
      ++ (match els with | some e => e.wrap.around (elseCore e.lay e.after) :: e.body.map (·.raw) | none => [])
      ++ [cw.around (closeCore ca)]

/-- lines joined by newlines -/
def joinNL : List Str → Str
  | [] => []
  | [l] => l
  | l :: l' :: ls => l ++ 10 :: joinNL (l' :: ls)

/-- the text of a table; `nl`: the file ends with a newline -/
def tableText (t : List TItemT) (nl : Bool) : Str :=
  joinNL (t.flatMap TItemT.rawLines) ++ (if nl then [10] else [])

/-! ## legacy `Flavor=` groups

New style: one or more `Flavor = f` lines open a block that runs to the next `Flavor =` line or to the end of the
file.  Old style: `Group:` / `Flavor = f`… / `Common:` / … / `End:`. -/

/-- `Flavor = f` as written -/
structure FlavLine where
  wrap : Wrap
  kw : Str                 -- the keyword as spelled
  s1 : Str                 -- blanks before `=`
  s2 : Str                 -- and after it
  flavor : Str
  after : Str              -- blanks after the name
  deriving Repr

def FlavLine.core (f : FlavLine) : Str := f.kw ++ f.s1 ++ [61] ++ f.s2 ++ f.flavor ++ f.after
def FlavLine.raw (f : FlavLine) : Str := f.wrap.around f.core
def FlavLine.ok (f : FlavLine) : Bool :=
  f.wrap.ok && Str.lower f.kw == sFlavorKw && hblank f.s1 && hblank f.s2 && !f.flavor.isEmpty && f.flavor.all isTokCh
    && hblank f.after

/-- `FLAVOR == f1 || FLAVOR == f2 || …`, the condition `_rewrite` builds for a run of `Flavor=` lines -/
def flavCond (f : Str) (gs : List Str) : Str :=
  gs.foldl (fun c g => c ++ sBarBar ++ sFlavorEq ++ g) (sFlavorEq ++ f)

/-- a new-style group: its `Flavor=` lines, then lines up to the next group (the first of them not empty) -/
structure FGroup where
  f : FlavLine
  more : List FlavLine
  first : Str
  rest : List Str
  deriving Repr

/-- a raw line `_rewrite` drops or passes on, and that is one line -/
def passesLine (raw : Str) : Bool :=
  raw.all (· != 10) && ((strip raw).isEmpty || neutral (strip raw))

def FGroup.ok (g : FGroup) : Bool :=
  g.f.ok && g.more.all FlavLine.ok && g.first.all (· != 10) && !(strip g.first).isEmpty && neutral (strip g.first)
    && g.rest.all passesLine

def FGroup.raws (g : FGroup) : List Str := g.f.raw :: g.more.map FlavLine.raw ++ g.first :: g.rest

/-- the `if` line `_rewrite` writes for the group -/
def FGroup.ifLine (g : FGroup) : Str := sIfOpen ++ flavCond g.f.flavor (g.more.map FlavLine.flavor) ++ sIfClose

/-- the block the group is equivalent to -/
def FGroup.block (g : FGroup) : List Str :=
  g.ifLine :: ((g.first :: g.rest).map strip).filter (fun l => !l.isEmpty) ++ [sClose]

/-- a legacy table (new style): lines outside any group, then the groups -/
def legacyText (pre : List Str) (gs : List FGroup) (nl : Bool) : Str :=
  joinNL (pre ++ gs.flatMap FGroup.raws) ++ (if nl then [10] else [])

/-- the same table with every group written as the `if` block it stands for -/
def legacyAsIfText (pre : List Str) (gs : List FGroup) (nl : Bool) : Str :=
  joinNL (pre ++ gs.flatMap FGroup.block) ++ (if nl then [10] else [])

/-! ### old-style groups: `Group:` / `Flavor = f`… / `Qualifiers = "…"` / `Common:` / `Action = setup` / … / `End:` -/

/-- a keyword line such as `Group:` — the keyword as spelled, colon included, and the blanks after it -/
structure KwLine where
  wrap : Wrap
  kw : Str
  after : Str
  deriving Repr

def KwLine.core (k : KwLine) : Str := k.kw ++ k.after
def KwLine.raw (k : KwLine) : Str := k.wrap.around k.core
def KwLine.ok (target : Str) (k : KwLine) : Bool := k.wrap.ok && Str.lower k.kw == target && hblank k.after

/-- `key = value` lines: `File = Table`, `Product = foo`, `Action = setup`, `Qualifiers = "…"` (the value of the
last one between quotes) -/
structure EqLine where
  wrap : Wrap
  kw : Str
  s1 : Str
  s2 : Str
  value : Str
  after : Str
  deriving Repr

def EqLine.core (e : EqLine) : Str := e.kw ++ e.s1 ++ [61] ++ e.s2 ++ e.value ++ e.after
def EqLine.raw (e : EqLine) : Str := e.wrap.around e.core
/-- well-formed for keyword `target`, value made of characters `cls` -/
def EqLine.ok (target : Str) (cls : Nat → Bool) (e : EqLine) : Bool :=
  e.wrap.ok && Str.lower e.kw == target && hblank e.s1 && hblank e.s2 && !e.value.isEmpty && e.value.all cls
    && hblank e.after

/-- `Qualifiers = "text"`: the value is the quoted text -/
def qualOK (e : EqLine) : Bool :=
  e.wrap.ok && Str.lower e.kw == sQualifiers && hblank e.s1 && hblank e.s2 && hblank e.after &&
    (match e.value with
     | 34 :: r => r.getLast? == some 34 && r.dropLast.all (fun c => c != 34 && c != 10 && c != 35 && c != 36)
     | _ => false)

/-- the piece of the condition a flavor contributes in an old-style group -/
def flavPiece (f : Str) : Str := if Str.lower f == sAny then sFlavorAny else sFlavorEq ++ f

def ogCond (f : Str) (gs : List Str) : Str := gs.foldl (fun c g => c ++ sBarBar ++ flavPiece g) (flavPiece f)

structure OGroup where
  group : KwLine
  f : FlavLine
  more : List FlavLine
  qual : Option EqLine
  common : KwLine
  action : Option EqLine
  body : List Str            -- the lines of the group
  end_ : KwLine
  after : List Str           -- lines between `End:` and the next group
  deriving Repr

def OGroup.ok (g : OGroup) : Bool :=
  g.group.ok sGroupC && g.f.ok && g.more.all FlavLine.ok && (match g.qual with | some q => qualOK q | none => true)
    && g.common.ok sCommonC
    && (match g.action with
        | some a => a.ok sAction isTokCh && isInfix sSetup (Str.lower a.value)
        | none => true)
    && g.body.all passesLine && g.end_.ok sEndC && g.after.all passesLine

def optLine (o : Option EqLine) : List Str :=
  match o with
  | some e => [e.raw]
  | none => []

def OGroup.raws (g : OGroup) : List Str :=
  g.group.raw :: g.f.raw :: g.more.map FlavLine.raw ++ optLine g.qual ++ [g.common.raw] ++ optLine g.action ++ g.body
    ++ [g.end_.raw] ++ g.after

def OGroup.ifLine (g : OGroup) : Str := sIfOpen ++ ogCond g.f.flavor (g.more.map FlavLine.flavor) ++ sIfClose

def stripped (ls : List Str) : List Str := (ls.map strip).filter (fun l => !l.isEmpty)

/-- the block the group is equivalent to, and the lines after it -/
def OGroup.block (g : OGroup) : List Str := g.ifLine :: stripped g.body ++ [sClose] ++ stripped g.after

/-- the header of an old-style table -/
structure OHeader where
  file : EqLine
  product : EqLine
  deriving Repr

def OHeader.ok (h : OHeader) : Bool :=
  h.file.ok sFile isWordCh && Str.lower h.file.value == sTable && h.product.ok sProduct isWordCh

def hdrLines (h : Option OHeader) : List Str :=
  match h with
  | some h => [h.file.raw, h.product.raw]
  | none => []

/-- an old-style legacy table -/
def oldLegacyText (h : Option OHeader) (pre : List Str) (gs : List OGroup) (nl : Bool) : Str :=
  joinNL (hdrLines h ++ pre ++ gs.flatMap OGroup.raws) ++ (if nl then [10] else [])

/-- the same table with every group written as the `if` block it stands for (and no header) -/
def oldLegacyAsIfText (pre : List Str) (gs : List OGroup) (nl : Bool) : Str :=
  joinNL (pre ++ gs.flatMap OGroup.block) ++ (if nl then [10] else [])

/-! ## arguments as written -/

/-- an argument as written: its value, and whether it is written between double quotes -/
structure WArg where
  val : Str
  quoted : Bool
  deriving Repr

/-- inside quotes a double quote is written `\"` -/
def escQ (v : Str) : Str := v.flatMap fun c => if c == 34 then [92, 34] else [c]

def WArg.text (a : WArg) : Str := if a.quoted then 34 :: escQ a.val ++ [34] else a.val

/-- an unquoted argument: not empty; no white space, comma, quote or backslash; none of the tokeniser's three
protection characters -/
def plainVal (v : Str) : Bool :=
  !v.isEmpty && v.all fun c => !Str.isSpace c && c != 44 && c != 34 && c != 92 && c != 1 && c != 2 && c != 3

/-- a quoted argument: anything — blanks, commas, double quotes, nothing at all — except a backslash and the
three protection characters -/
def quotedVal (v : Str) : Bool := v.all fun c => c != 92 && c != 1 && c != 2 && c != 3

def WArg.ok (a : WArg) : Bool := if a.quoted then quotedVal a.val else plainVal a.val

/-- between two arguments: blanks and commas, at least one -/
def sepOK (s : Str) : Bool := !s.isEmpty && s.all fun c => c == 32 || c == 44
/-- before the first and after the last argument: blanks -/
def padOK (s : Str) : Bool := s.all (· == 32)

/-- the text between the parentheses of a command -/
def argsText (pad1 : Str) (first : WArg) (rest : List (Str × WArg)) (pad2 : Str) : Str :=
  pad1 ++ first.text ++ rest.flatMap (fun p => p.1 ++ p.2.text) ++ pad2

/-- the whole list is one quoted string with no quote inside: the classic spelling of a word list -/
def wholeQuoted (pad1 : Str) (first : WArg) (rest : List (Str × WArg)) (pad2 : Str) : Bool :=
  pad1.isEmpty && pad2.isEmpty && rest.isEmpty && first.quoted && !first.val.contains 34

/-! ## command lines as written -/

/-- what may follow the closing parenthesis: blanks, an optional semicolon, blanks -/
def cmdTail (t : Str) : Bool :=
  match dropSpaces t with
  | [] => true
  | 59 :: u => allSpace u
  | _ => false


/-- the argument list between the parentheses: nothing but blanks, or arguments -/
inductive WArgs
  | none (pad : Str)
  | some (pad1 : Str) (first : WArg) (rest : List (Str × WArg)) (pad2 : Str)
  deriving Repr

def WArgs.text : WArgs → Str
  | .none pad => pad
  | .some p1 f r p2 => argsText p1 f r p2

def WArgs.ok : WArgs → Bool
  | .none pad => padOK pad
  | .some p1 f r p2 => padOK p1 && padOK p2 && f.ok && r.all (fun p => sepOK p.1 && p.2.ok)

/-- the arguments the list denotes (a wholly quoted quote-free list: its words) -/
def WArgs.vals : WArgs → List Str
  | .none _ => []
  | .some p1 f r p2 => if wholeQuoted p1 f r p2 then splitArgs [] f.val else f.val :: r.map (·.2.val)

/-- a command line as written -/
structure WCmd where
  wrap : Wrap              -- indentation and trailing comment
  name : Str               -- the command word as spelled
  cmd : Cmd                -- the command the word stands for
  gap : Str                -- blanks before `(`
  args : WArgs
  tl : Str                 -- after `)`: blanks, an optional `;`, blanks
  deriving Repr

def WCmd.core (c : WCmd) : Str := c.name ++ c.gap ++ [40] ++ c.args.text ++ [41] ++ c.tl
def WCmd.raw (c : WCmd) : Str := c.wrap.around c.core

/-- the text of a command line holds no newline, no `#`, and none of the seven old variable names that
`_rewrite` replaces -/
def WCmd.textOK (c : WCmd) : Bool :=
  c.args.text.all (fun x => x != 10 && x != 35) && synonyms.all (fun p => !isInfix p.1 c.core)

def WCmd.ok (c : WCmd) : Bool :=
  c.wrap.ok && !c.name.isEmpty && c.name.all isWordCh && cmdTable.lookup (Str.lower c.name) == some c.cmd
    && hblank c.gap && c.args.ok && c.tl.all (fun x => x == 32 || x == 9 || x == 59) && cmdTail c.tl && c.textOK

/-- what the command denotes for a product whose directory variable is `pdir`: an action, nothing (commands the
reader skips by design), or `none` when the reader refuses the line (wrong number of arguments) -/
def WCmd.denote (pdir : Option Str) (c : WCmd) : Option (Option Action) :=
  match normalise pdir c.cmd c.args.vals with
  | .act a => some (some a)
  | .skip => some none
  | _ => none

/-- the command line as a line of a written table -/
def WCmd.line (pdir : Option Str) (c : WCmd) : BodyLineT :=
  ⟨c.raw, match c.denote pdir with | some r => r | none => none⟩

end EupsModel.C11Spec
