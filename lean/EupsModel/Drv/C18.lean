import EupsModel.Drv.Util
namespace EupsModel.Drv.C18
open Lean EupsModel EupsModel.Drv
/-- placeholder until the C18 model exists -/
def handle : Handler := fun _ => throw "model C18 not built"
end EupsModel.Drv.C18
