import EupsModel.Drv.Util
import EupsModel.Model.Manifest
namespace EupsModel.Drv.C18
open Lean EupsModel EupsModel.Drv EupsModel.Manifest

def depOfJson (j : Json) : Except String Dep := do
  pure { product := ← jstr j "product", version := ← jstr j "version", flavor := ← jstrOpt j "flavor",
         tablefile := ← jstrOpt j "tablefile", instDir := ← jstrOpt j "instDir", distId := ← jstrOpt j "distId",
         isOpt := ← jbool j "isOpt", recurse := ← jbool j "recurse", extra := ← jstrs j "extra" }

def depToJson (d : Dep) : Json :=
  Json.mkObj [("product", ofStr d.product), ("version", ofStr d.version), ("flavor", ofStrOpt d.flavor),
    ("tablefile", ofStrOpt d.tablefile), ("instDir", ofStrOpt d.instDir), ("distId", ofStrOpt d.distId),
    ("isOpt", d.isOpt), ("recurse", d.recurse), ("extra", ofStrs d.extra)]

def errName : ReadErr → String
  | .header => "header"
  | .line => "line"

def tagListOf (j : Json) : Except String TagList := do
  let mut t := TagList.empty (← jstr j "tag") (← jstrOpt j "defFlavor")
  for a in (← jarr j "adds") do
    t := t.addProduct (← jstr a "product") (← jstr a "version") (← jstrOpt a "flavor") (← jstrs a "extra")
  pure t

def mappingOf (adds : List Json) : Except String Mapping := do
  let mut m : Mapping := {}
  for a in adds do
    m := m.add (← jstr a "inP") (← jstr a "inV") (← jstrOpt a "outP") (← jstrOpt a "outV") (← jstr a "flavor")
      (← jbool a "overwrite")
  pure m

def dumpTable (t : MapTable) : Json :=
  Json.arr (t.flatMap fun (f, byP) => byP.flatMap fun (p, byV) =>
    if byV.isEmpty then [Json.arr #[ofStr f, ofStr p, Json.null, Json.null, Json.null]]
    else byV.map fun (v, (op, ov)) => Json.arr #[ofStr f, ofStr p, ofStr v, ofStr op, ofStrOpt ov]).toArray

def pairToJson (r : Str × Option Str) : Json := Json.arr #[ofStr r.1, ofStrOpt r.2]

/-- ops (see harness/c18.py):
`mwrite` `mread` (manifest), `twrite` `tread` (tag list), `mapping` (adds, queries, inverse), `remap` -/
def handle : Handler := fun j => do
  let op ← (← j.getObjVal? "op").getStr?
  match op with
  | "mwrite" =>
    let deps ← (← jarr j "deps").mapM depOfJson
    let m : Manifest := { product := ← jstrOpt j "product", version := ← jstrOpt j "version", deps := deps }
    let o : WriteOpts := { noOptional := ← jbool j "noOptional", flavor := ← jstrOpt j "flavor", native := ← jstr j "native" }
    let text := if (← jbool j "pinned") then writePinned o [] m else write o [] m
    pure (Json.mkObj [("text", ofStr text)])
  | "dwrite" =>
    -- a manifest written by a distrib type's writeManifest (flavor keyword as Repository.create passes it) and read back
    let deps ← (← jarr j "deps").mapM depOfJson
    let m : Manifest := { product := ← jstrOpt j "product", version := ← jstrOpt j "version", deps := deps }
    let o : WriteOpts := { noOptional := false, flavor := ← jstrOpt j "flavor", native := ← jstr j "native" }
    let w := if (← (← j.getObjVal? "writer").getStr?) == "tarball" then Writer.tarball else Writer.default
    let text := distribWriteManifest w o m
    match read false false text with
    | .error e => pure (Json.mkObj [("text", ofStr text), ("error", errName e)])
    | .ok r => pure (Json.mkObj [("text", ofStr text), ("deps", Json.arr (r.deps.map depToJson).toArray)])
  | "mread" =>
    match read (← jbool j "pinned") (← jbool j "recurse") (← jstr j "text") with
    | .error e => pure (Json.mkObj [("error", errName e)])
    | .ok m => pure (Json.mkObj [("product", ofStrOpt m.product), ("version", ofStrOpt m.version),
                                 ("deps", Json.arr (m.deps.map depToJson).toArray)])
  | "twrite" =>
    let t ← tagListOf j
    pure (Json.mkObj [("text", ofStr (t.write (← jstrOpt j "flavor") [])),
                      ("products", Json.arr (t.getProducts.map ofStrs).toArray)])
  | "tread" =>
    let t ← tagListOf j
    match t.read (← jstr j "text") with
    | .error e => pure (Json.mkObj [("error", errName e)])
    | .ok t' => pure (Json.mkObj [("products", Json.arr (t'.getProducts.map ofStrs).toArray)])
  | "mapping" =>
    let m ← mappingOf (← jarr j "adds")
    let qs ← (← jarr j "queries").mapM fun q => do
      match (← q.getArr?).toList with
      | [p, v, f] => pure (Str.ofString (← p.getStr?), Str.ofString (← v.getStr?), Str.ofString (← f.getStr?))
      | _ => throw "query: [product, version, flavor]"
    let fwd := qs.map fun (p, v, f) => m.apply p v f
    let invJ : Json := match m.inverse with
      | none => Json.str "RuntimeError"
      | some inv =>
        Json.mkObj [("dump", dumpTable inv.map),
          ("back", Json.arr ((qs.zip fwd).map fun ((_, _, f), (p, v)) =>
            match v with
            | none => Json.null
            | some v => pairToJson (inv.apply p v f)).toArray)]
    pure (Json.mkObj [("dump", dumpTable m.map), ("noReinstall", dumpTable m.noReinstall),
                      ("applied", Json.arr (fwd.map pairToJson).toArray), ("inverse", invJ)])
  | "createdeps" =>
    let deps ← (← jarr j "deps").mapM fun d => do
      pure ({ name := ← jstr d "name", version := ← jstr d "version", optional := ← jbool d "optional",
              depth := ← jnat d "depth", found := ← jstrOpt d "found" } : DepReq)
    match createDepsOrder (← jstr j "top", ← jstr j "topVersion") deps with
    | none => pure (Json.mkObj [("error", "ProductNotFound")])
    | some l => pure (Json.mkObj [("order", Json.arr (l.map fun (n, v, o) => Json.arr #[ofStr n, ofStr v, Json.bool o]).toArray)])
  | "srvfile" =>
    -- {server: [[path, content]..], reqs: [[path, dest]..], pinned}
    let pair := fun (f : Json) => do
      match (← f.getArr?).toList with
      | [a, b] => pure (Str.ofString (← a.getStr?), Str.ofString (← b.getStr?))
      | _ => throw "pair expected"
    let srv ← (← jarr j "server").mapM pair
    let reqs ← (← jarr j "reqs").mapM pair
    let ans := getFiles (← jbool j "pinned") srv {} reqs
    pure (Json.mkObj [("answers", Json.arr (ans.map fun a => match a with
      | .content t => Json.mkObj [("content", ofStr t)]
      | .notFound => Json.mkObj [("error", "notfound")]
      | .sameFile => Json.mkObj [("error", "samefile")]).toArray)])
  | "manseq" =>
    -- a sequence of operations on one live Manifest object
    let mut m : Manifest := { product := ← jstrOpt j "product", version := ← jstrOpt j "version", deps := [] }
    let mut mb : Manifest := { product := some (Str.ofString "other"), version := some (Str.ofString "9.9"), deps := [] }
    let mut out : Array Json := #[]
    let native ← jstr j "native"
    let dump := fun (m : Manifest) => Json.mkObj [("product", ofStrOpt m.product), ("version", ofStrOpt m.version),
                                                  ("deps", Json.arr (m.deps.map depToJson).toArray)]
    for o in (← jarr j "ops") do
      let k ← (← o.getObjVal? "op").getStr?
      if k == "add" then
        m := { m with deps := m.deps ++ [← depOfJson (← o.getObjVal? "dep")] }
        out := out.push (dump m)
      else if k == "reverse" then
        m := m.reverse
        out := out.push (dump m)
      else if k == "roll" then
        m := m.roll (← jint o "n")
        out := out.push (dump m)
      else if k == "getdep" then
        let r := m.getDependency (← jstr o "product") (← jstrOpt o "version") (← jstrOpt o "flavor") (← jint o "which")
        out := out.push (match r with | none => Json.null | some d => depToJson d)
      else if k == "roundtrip" then
        let wo : WriteOpts := { noOptional := ← jbool o "noOptional", flavor := ← jstrOpt o "flavor", native := native }
        let text := write wo [] m
        let into := (← (← o.getObjVal? "into").getStr?)
        let sp ← jbool o "setproduct"
        let reader : Manifest := if into == "live" then m else if into == "B" then mb
          else { product := none, version := none, deps := [] }
        match reader.readInto sp false text with
        | .error e => out := out.push (Json.mkObj [("error", errName e)])
        | .ok r =>
          let written := dump m
          if into == "live" then m := r
          if into == "B" then mb := r
          out := out.push (Json.mkObj [("written", written), ("before", dump reader), ("read", dump r)])
      else throw s!"manseq: unknown op {k}"
    pure (Json.mkObj [("out", Json.arr out)])
  | "tagseq" =>
    -- a sequence of operations on two live TaggedProductList objects A and B
    let mut ta := TagList.empty (← jstr j "tag") (← jstrOpt j "flavorA")
    let mut tb := TagList.empty (← jstr j "tag") (← jstrOpt j "flavorB")
    let mut out : Array Json := #[]
    let rows := fun (t : TagList) => Json.arr (t.getProducts.map ofStrs).toArray
    for o in (← jarr j "ops") do
      let k ← (← o.getObjVal? "op").getStr?
      let onA := (← (← o.getObjVal? "on").getStr?) == "A"
      if k == "add" then
        let f := fun (t : TagList) (p v : Str) (fl : Option Str) (ex : List Str) => t.addProduct p v fl ex
        let p ← jstr o "product"; let v ← jstr o "version"; let fl ← jstrOpt o "flavor"; let ex ← jstrs o "extra"
        if onA then ta := f ta p v fl ex else tb := f tb p v fl ex
        out := out.push Json.null
      else if k == "delete" then
        let p ← jstr o "product"
        if onA then ta := ta.deleteProduct p else tb := tb.deleteProduct p
        out := out.push Json.null
      else if k == "merge" then
        let before := rows ta
        ta := ta.mergeProductList tb
        out := out.push (Json.mkObj [("before", before), ("other", rows tb), ("after", rows ta)])
      else if k == "get" then
        if (← jbool o "sort") then
          if onA then ta := ta.sortInPlace else tb := tb.sortInPlace
        out := out.push (rows (if onA then ta else tb))
      else if k == "info" then
        let t := if onA then ta else tb
        let i : Json := match t.getProductInfo (← jstr o "product") with
          | none => Json.arr #[Json.null, Json.null]
          | some i => ofStrs i
        out := out.push (Json.mkObj [("info", i), ("rows", rows t)])
      else if k == "roundtrip" then
        let text := ta.write (← jstrOpt o "writeFlavor") []
        let into := (← (← o.getObjVal? "into").getStr?)
        let before := rows tb
        let tagS ← jstr j "tag"
        let rf ← jstrOpt o "readFlavor"
        let reader := if into == "B" then tb else TagList.empty tagS rf
        match reader.read text with
        | .error e => out := out.push (Json.mkObj [("written", rows ta), ("error", errName e)])
        | .ok r =>
          if into == "B" then tb := r
          out := out.push (Json.mkObj [("written", rows ta), ("before", before), ("read", rows r)])
      else throw s!"tagseq: unknown op {k}"
    pure (Json.mkObj [("out", Json.arr out)])
  | "mapseq" =>
    -- a sequence of operations on ONE live Mapping: add / merge (a fresh mapping built from `adds`) / inverse / apply
    let mut m : Mapping := {}
    let mut out : Array Json := #[]
    for o in (← jarr j "ops") do
      let k ← (← o.getObjVal? "op").getStr?
      if k == "add" then
        m := m.add (← jstr o "inP") (← jstr o "inV") (← jstrOpt o "outP") (← jstrOpt o "outV") (← jstr o "flavor")
          (← jbool o "overwrite")
        out := out.push Json.null
      else if k == "merge" then
        let before := dumpTable m.map
        m := m.merge (← mappingOf (← jarr o "adds")) (← jbool o "overwrite")
        out := out.push (Json.mkObj [("before", before), ("after", dumpTable m.map)])
      else if k == "apply" then
        match (← jarr o "q") with
        | [p, v, f] => out := out.push (pairToJson (m.apply (Str.ofString (← p.getStr?)) (Str.ofString (← v.getStr?))
                                                       (Str.ofString (← f.getStr?))))
        | _ => throw "apply: q = [product, version, flavor]"
      else if k == "inverse" then
        let rows := m.map.flatMap fun (f, byP) => byP.flatMap fun (p, byV) => byV.map fun (v, _) => (f, p, v)
        let invJ : Json := match m.inverse with
          | none => Json.str "RuntimeError"
          | some inv =>
            Json.mkObj [("dump", dumpTable inv.map),
              ("checks", Json.arr (rows.map fun (f, p, v) =>
                let r := m.apply p v f
                Json.arr #[ofStr f, ofStr p, ofStr v, pairToJson r,
                           match r.2 with
                           | none => Json.null
                           | some w => pairToJson (inv.apply r.1 w f)]).toArray)]
        out := out.push (Json.mkObj [("dump", dumpTable m.map), ("inverse", invJ)])
      else throw s!"mapseq: unknown op {k}"
    pure (Json.mkObj [("out", Json.arr out)])
  | "remap" =>
    let m0 ← mappingOf (← jarr j "adds")
    let files ← (← jarr j "files").mapM fun f => do (← f.getArr?).toList.mapM fun l => do pure (Str.ofString (← l.getStr?))
    let mode ← jstrOpt j "mode"
    let pinned ← jbool j "pinned"
    match (if pinned then readRemapFilesPinned mode files else readRemapFiles mode files) with
    | none => pure (Json.mkObj [("error", "parse")])
    | some fromFiles =>
      let m := m0.merge fromFiles false
      let deps ← (← jarr j "deps").mapM depOfJson
      let known := (jstrs j "known").toOption.getD []
      pure (Json.mkObj [("deps", Json.arr ((remapDeps m (← jstr j "flavor") deps).map depToJson).toArray),
                        ("dump", dumpTable m.map),
                        ("declared", ofStrs (dummyDeclares m (← jstr j "flavor") known deps))])
  | "server" =>
    -- {files: [[tag, text]..], reqs: [{op: list|info|tagsfor, tag, flavor|null, product, version}], byTagOnly}
    let files ← (← jarr j "files").mapM fun f => do
      match (← f.getArr?).toList with
      | [t, x] => pure (Str.ofString (← t.getStr?), Str.ofString (← x.getStr?))
      | _ => throw "file: [tag, text]"
    let byTag ← jbool j "byTagOnly"
    let mut cache : TagCache := []
    let mut out : Array Json := #[]
    for rq in (← jarr j "reqs") do
      let k ← (← rq.getObjVal? "op").getStr?
      let tag ← jstr rq "tag"
      let fl ← jstrOpt rq "flavor"
      let prod : Str := (jstr rq "product").toOption.getD []
      let req := if k == "list" then Req.list tag fl else Req.info tag fl prod
      let (a, c') := serve1 byTag files cache req
      cache := c'
      let errJ (e : ServeErr) : Json := match e with
        | .notFound => Json.mkObj [("error", "notfound")]
        | .read e => Json.mkObj [("error", errName e)]
      let ver : Str := (jstr rq "version").toOption.getD []
      let aj : Json := match a with
        | .err e => errJ e
        | .products l => Json.mkObj [("products", Json.arr (l.map ofStrs).toArray)]
        | .info i =>
          if k == "tagsfor" then
            -- getTagNamesFor(product, version, flavor, tags=[tag]): the tag iff the listed version is that version
            let hit := match i with
              | some (_ :: _ :: v :: _) => v == ver
              | _ => false
            Json.mkObj [("tags", Json.arr (if hit then #[ofStr tag] else #[]))]
          else Json.mkObj [("info", match i with | none => Json.null | some l => ofStrs l)]
      out := out.push aj
    pure (Json.mkObj [("answers", Json.arr out)])
  | _ => throw s!"unknown op {op}"

end EupsModel.Drv.C18
