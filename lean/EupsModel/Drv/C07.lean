import EupsModel.Drv.Util
namespace EupsModel.Drv.C07
open Lean EupsModel EupsModel.Drv
/-- placeholder until the C07 model exists -/
def handle : Handler := fun _ => throw "model C07 not built"
end EupsModel.Drv.C07
