import EupsModel.Drv.C06
namespace EupsModel.Drv.C07
open Lean EupsModel EupsModel.Drv
/-- C07 runs the same world model as C06 (`Drv/C06.lean`): histories with two users, crashes and cache
deletions. -/
def handle : Handler := C06.handle
end EupsModel.Drv.C07
