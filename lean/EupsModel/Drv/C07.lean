import EupsModel.Drv.C06
import EupsModel.Model.CacheSync
namespace EupsModel.Drv.C07
open Lean EupsModel EupsModel.Drv EupsModel.CacheSync

def ofNats (l : List Nat) : Json := Json.arr (l.map fun (n : Nat) => (Json.num n : Json)).toArray
def ofNatOpt : Option Nat → Json
  | none => Json.null
  | some n => Json.num n
def ofInst (x : Inst) : Json := Json.mkObj [("mod", ofNatOpt x.mod), ("mem", ofNats x.mem)]
def ofSt (s : St) : Json :=
  Json.mkObj [("now", Json.num s.now), ("db", ofNats s.db), ("dbTime", Json.num s.dbTime),
    ("file", match s.file with
      | none => Json.null
      | some f => Json.mkObj [("mtime", Json.num f.mtime), ("content", ofNats f.content)]),
    ("fresh", Json.bool (fresh s)), ("i0", ofInst s.i0), ("i1", ofInst s.i1)]

def evOfJson (j : Json) : Except String Ev := do
  match j with
  | Json.arr a =>
    let k ← (a[0]?.getD Json.null).getStr?
    let i := (a[1]?.getD (Json.num 0)).getNat?.toOption.getD 0
    match k with
    | "write" => pure (.write (i != 0))
    | "check" => pure (.check (i != 0))
    | "other" => pure .other
    | "delete" => pure .delete
    | _ => throw s!"unknown event {k}"
  | _ => throw "event: array expected"

/-- op "sync": the staleness protocol between two live instances (`Model/CacheSync.lean`): the state after the two
constructors and after every event -/
def handleSync (j : Json) : Except String Json := do
  let fixed ← jbool j "fixed"
  let n ← jnat j "n"
  let kind ← jnat j "fileKind"
  let sysOk ← jbool j "sysOk"
  let evs ← (← jarr j "evs").mapM evOfJson
  let gate := match j.getObjVal? "gate" with
    | .ok (Json.str g) => g
    | _ => ""
  let s0 := if gate == "rebuild0" && !sysOk && kind < 2 then initRebuildGate fixed n kind else init fixed n kind sysOk
  let (_, states) := evs.foldl (fun (acc : St × List St) e => let s' := step fixed acc.1 e; (s', acc.2 ++ [s'])) (s0, [s0])
  pure (Json.mkObj [("states", Json.arr (states.map ofSt).toArray)])

/-- C07 runs the same world model as C06 (`Drv/C06.lean`): histories with two users, crashes and cache
deletions; op "sync" runs the model of the staleness test between live instances. -/
def handle : Handler := fun j =>
  match j.getObjVal? "op" with
  | .ok (Json.str "sync") => handleSync j
  | _ => C06.handle j
end EupsModel.Drv.C07
