import EupsModel.Drv.Util
import EupsModel.Model.VersionCmp
namespace EupsModel.Drv.C10
open Lean EupsModel EupsModel.Drv EupsModel.VersionCmp

/-- observable of one comparison: sign, or how it failed -/
def resCode : Except Err Int → String
  | .ok r => if r < 0 then "<" else if r > 0 then ">" else "="
  | .error .unsortable => "U"
  | .error .malformed => "M"
  | .error .indexError => "I"
  | .error .outOfFuel => "F"

def cmpL (pinned strict : Bool) (a b : Except Err Lexed) : Except Err Int :=
  match a with
  | .error e => .error e
  | .ok la => match b with
    | .error e => .error e
    | .ok lb => if pinned then cmpLexedPinned strict la lb else cmpLexed strict la lb

partial def lexedToJson : Lexed → Json
  | .absent => Json.null
  | .node p s t => Json.mkObj [("prim", ofStr p), ("comps", ofStrs (splitSep p)), ("sec", lexedToJson s), ("ter", lexedToJson t)]

def flag (j : Json) (k : String) : Bool :=
  match j.getObjVal? k with
  | .ok (Json.bool b) => b
  | _ => false

/-- Requests (`"m":"c10"`, `"op"` selects):
* `cmp`     `{a,b,strict,pinned?}` → `{"r": "<"|"="|">"|"U"|"M"}`
* `matrix`  `{names:[..],strict,pinned?}` → `{"rows":[one string per name, one character per column], "conv":[..], "conventional":[..]}`
* `lex`     `{a}` → the split name and the class flags
* `match`   `{v,expr}` → `{"r": "match"|"nomatch"|"M"|"I", "tokens":[..]}`
* `legal`   `{expr}` → `{"r": "relational"|"plain"|"bad"}` (`Eups.isLegalRelativeVersion`)
* `list`    `{version, tags:[..], stacks:[[{ver,tags:[..]}..]..]}` → `{"products": [[stack, version]..] | {"err"}, "find": .., "entry": ..}` (`Eups.findProducts`; with `preferred:[..]` also `findProduct(name, version)` for a relational argument and `findProductFromVRO(name, version, vro=[version, versionExpr])`)
* `repos`   `{repos:[[..]..],pinned?}` → `{"r": [repository, version] | null | {"err"}}` (`distrib.Repositories.findPackage(product, Tag latest)`)
* `latest`  `{names:[..]}` → `{"idx": n | null}` or `{"err": ..}`
* `stacks` / `stacksboth` (`{"cache":..,"db":..}`)  `{stacks:[[..]..],expr,minver?,db?}` → `{"latest", "latest_min", "preferred": [stack, version] | null | {"err"},
             "matches": [[stack, version]..] | {"err"}}`; `db`: the database branch (each stack in string order) -/
def handle : Handler := fun j => do
  let op ← (← j.getObjVal? "op").getStr?
  let pinned := flag j "pinned"
  match op with
  | "cmp" =>
    let a ← jstr j "a"
    let b ← jstr j "b"
    let strict ← jbool j "strict"
    let r := if pinned then stdComparePinned strict a b else stdCompare strict a b
    pure (Json.mkObj [("r", resCode r)])
  | "matrix" =>
    let names ← jstrs j "names"
    let strict ← jbool j "strict"
    let ls := (names.map lex).toArray
    let rows := ls.map fun la =>
      Json.str (String.join (ls.toList.map fun lb => resCode (cmpL pinned strict la lb)))
    let cls (f : Lexed → Bool) := Json.arr (ls.map fun l => match l with | .ok x => Json.bool (f x) | .error _ => Json.bool false)
    pure (Json.mkObj [("rows", Json.arr rows), ("conv", cls convLexed), ("conventional", cls conventional)])
  | "lex" =>
    let a ← jstr j "a"
    match lex a with
    | .error e => pure (Json.mkObj [("err", e.name)])
    | .ok l => pure (Json.mkObj [("lexed", lexedToJson l), ("conv", convLexed l), ("conventional", conventional l)])
  | "match" =>
    let v ← jstr j "v"
    let e ← jstr j "expr"
    let toks := ofStrs (tokenize e)
    match versionMatch v e with
    | .ok true => pure (Json.mkObj [("r", "match"), ("tokens", toks)])
    | .ok false => pure (Json.mkObj [("r", "nomatch"), ("tokens", toks)])
    | .error er => pure (Json.mkObj [("r", resCode (.error er)), ("tokens", toks)])
  | "legal" =>
    let e ← jstr j "expr"
    pure (Json.mkObj [("r", match isLegalRelativeVersion e with
      | .relational => "relational" | .plain => "plain" | .badSyntax => "bad")])
  | "list" =>
    let verArg ← jstr j "version"
    let tags ← jstrs j "tags"
    let stacks ← (← jarr j "stacks").mapM fun st => do
      (← st.getArr?).toList.mapM fun d => do
        pure ({ ver := ← jstr d "ver", tags := ← jstrs d "tags" } : Decl)
    let preferred := match jstrs j "preferred" with | .ok l => l | .error _ => []
    let ref (i : Nat) (v : Str) : Json := Json.arr #[Json.num i, ofStr v]
    let products : Json := match listProducts verArg tags stacks with
      | .error er => Json.mkObj [("err", er.name)]
      | .ok .badSyntax => Json.mkObj [("err", "BadExpr")]
      | .ok (.products l) => Json.arr (l.map fun (i, v) => ref i v).toArray
    let find : Json := match findProductExpr preferred verArg stacks with
      | .error er => Json.mkObj [("err", er.name)]
      | .ok none => Json.null
      | .ok (some (i, v)) => ref i v
    let entry : Json := match requestEntry verArg stacks with
      | .error er => Json.mkObj [("err", er.name)]
      | .ok .badSyntax => Json.mkObj [("err", "BadExpr")]
      | .ok .nothing => Json.arr #[Json.null, Json.null]
      | .ok (.found byExpr i v) => Json.arr #[ref i v, Json.str (if byExpr then "versionExpr" else "explicit")]
    -- `eups admin listCache -v`: the versions of every stack sorted by the comparator
    let sorted : Json := Json.arr ((versOf stacks).map fun vs => match lexPairs vs with
      | .error er => Json.mkObj [("err", er.name)]
      | .ok ps => ofStrs ((sortVers ps).map (·.1))).toArray
    pure (Json.mkObj [("products", products), ("find", find), ("entry", entry), ("sorted", sorted)])
  | "repos" =>
    let repos ← (← jarr j "repos").mapM fun st => do
      (← st.getArr?).toList.mapM fun v => do pure (Str.ofString (← v.getStr?))
    let passes := match j.getObjValAs? Nat "passes" with | .ok n => n | .error _ => 1
    match (if pinned then latestReposPinned passes repos else latestAcross repos) with
    | .error er => pure (Json.mkObj [("r", Json.mkObj [("err", er.name)])])
    | .ok none => pure (Json.mkObj [("r", Json.null)])
    | .ok (some (i, v)) => pure (Json.mkObj [("r", Json.arr #[Json.num i, ofStr v])])
  | "latest" =>
    let names ← jstrs j "names"
    match latest names with
    | .error e => pure (Json.mkObj [("err", e.name)])
    | .ok none => pure (Json.mkObj [("idx", Json.null)])
    | .ok (some i) => pure (Json.mkObj [("idx", Json.num i)])
  | "stacks" | "stacksboth" =>
    let raw ← (← jarr j "stacks").mapM fun st => do
      (← st.getArr?).toList.mapM fun v => do pure (Str.ofString (← v.getStr?))
    let e ← jstr j "expr"
    let minver := match jstrOpt j "minver" with
      | .ok (some mv) => if mv.isEmpty then none else some mv
      | _ => none
    let one (r : Except Err (Option (Nat × Str))) : Json := match r with
      | .error er => Json.mkObj [("err", er.name)]
      | .ok none => Json.null
      | .ok (some (i, v)) => Json.arr #[Json.num i, ofStr v]
    let answer (stacks : List (List Str)) : Json :=
      let mat := match matchesAcross e stacks with
        | .error er => Json.mkObj [("err", er.name)]
        | .ok l => Json.arr (l.map fun (i, v) => Json.arr #[Json.num i, ofStr v]).toArray
      Json.mkObj [("latest", one (latestAcross stacks)), ("latest_min", one (latestAcrossMin minver stacks)),
        ("matches", mat), ("preferred", one (preferredByExpr e stacks))]
    if op == "stacksboth" then
      pure (Json.mkObj [("cache", answer raw), ("db", answer (raw.map dbOrder))])
    else
      pure (answer (if flag j "db" then raw.map dbOrder else raw))
  | _ => throw s!"c10: unknown op {op}"

end EupsModel.Drv.C10
