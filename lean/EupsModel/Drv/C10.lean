import EupsModel.Drv.Util
namespace EupsModel.Drv.C10
open Lean EupsModel EupsModel.Drv
/-- placeholder until the C10 model exists -/
def handle : Handler := fun _ => throw "model C10 not built"
end EupsModel.Drv.C10
