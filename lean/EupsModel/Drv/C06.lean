import EupsModel.Drv.Util
namespace EupsModel.Drv.C06
open Lean EupsModel EupsModel.Drv
/-- placeholder until the C06 model exists -/
def handle : Handler := fun _ => throw "model C06 not built"
end EupsModel.Drv.C06
