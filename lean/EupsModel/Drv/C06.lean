import EupsModel.Drv.Util
import EupsModel.Model.Cache
import EupsModel.Model.DbFile
/-! Driver handler of the database family (C06, C15, C07): run a history of commands on `Cache.World`.

Request `{"m":"c06","nst":2,"dirs":[[root,rel,tname]..],"pinned":false,"cmds":[cmd..]}` with
`cmd = {"op":"declare"|"undeclare"|"assignTag"|"unassignTag"|"query"|"rmcache", "user":0, "self":"Linux", ...}`;
answer `{"steps":[{"out","crashed","flavs","view","trace","db","caches"}..]}` — the state after every command. -/
namespace EupsModel.Drv.C06
open Lean EupsModel EupsModel.Drv EupsModel.Db EupsModel.Cache EupsModel.DbFile

def jnatOpt (j : Json) (k : String) : Except String (Option Nat) :=
  match j.getObjVal? k with
  | .ok Json.null => pure none
  | .ok v => do pure (some (← v.getNat?))
  | .error _ => pure none

def jboolD (j : Json) (k : String) : Except String Bool :=
  match j.getObjVal? k with
  | .ok Json.null => pure false
  | .ok v => v.getBool?
  | .error _ => pure false

def dirOfJson (j : Json) : Except String Dir := do
  let a ← j.getArr?
  if h : a.size = 2 then
    pure ⟨← a[0].getNat?, Str.ofString (← a[1].getStr?)⟩
  else throw "dir: expected [root, rel]"

def jdirOpt (j : Json) (k : String) : Except String (Option Dir) :=
  match j.getObjVal? k with
  | .ok Json.null => pure none
  | .ok v => do pure (some (← dirOfJson v))
  | .error _ => pure none

def dirEntOfJson (j : Json) : Except String DirEnt := do
  let a ← j.getArr?
  if h : a.size = 3 then
    pure ⟨⟨← a[0].getNat?, Str.ofString (← a[1].getStr?)⟩, Str.ofString (← a[2].getStr?)⟩
  else throw "dirs: expected [root, rel, tname]"

/-- `"table"`: absent / null (tablefile=None), `"none"`, `["path", [root, rel]]`, `["stream", content]` -/
def tableArgOfJson (j : Json) : Except String TableArg :=
  match j.getObjVal? "table" with
  | .ok Json.null => pure .dflt
  | .ok (Json.str "none") => pure .none
  | .ok (Json.arr a) =>
    if h : a.size = 2 then do
      let k ← a[0].getStr?
      if k == "path" then pure (.path (← dirOfJson a[1]))
      else if k == "stream" then pure (.stream (← a[1].getNat?))
      else throw s!"table: unknown kind {k}"
    else throw "table: expected [kind, value]"
  | .ok _ => throw "table: expected null, \"none\" or [kind, value]"
  | .error _ => pure .dflt

def tfileOfJson (j : Json) : Except String TFile := do
  let a ← j.getArr?
  if h : a.size = 2 then pure ⟨← dirOfJson a[0], ← a[1].getNat?⟩ else throw "tfiles: expected [[root, rel], content]"

def declareOfJson (self : Flav) (j : Json) : Except String Cmd := do
  let name ← jstr j "name"
  let ver ← jstr j "version"
  let dir ← jdirOpt j "dir"
  let stack ← jnatOpt j "stack"
  let table ← tableArgOfJson j
  let tag ← jstrOpt j "tag"
  let force ← jboolD j "force"
  let noaction ← jboolD j "noaction"
  let ext ← match j.getObjVal? "ext" with
    | .ok (Json.arr a) => a.toList.mapM fun e => do
        let x ← e.getArr?
        if h : x.size = 2 then pure (Str.ofString (← x[0].getStr?), ← x[1].getNat?) else throw "ext: expected [path, content]"
    | _ => pure []
  pure (Cmd.declare ⟨self, name, ver, dir, stack, table, tag, force, noaction, ext⟩)

def setupOfJson (j : Json) : Except String (Option (Ver × Flav × Nat)) :=
  match j.getObjVal? "setup" with
  | .ok Json.null => pure none
  | .ok v => do
    let a ← v.getArr?
    if h : a.size = 3 then
      pure (some (Str.ofString (← a[0].getStr?), Str.ofString (← a[1].getStr?), ← a[2].getNat?))
    else throw "setup: expected [version, flavor, stack]"
  | .error _ => pure none

def undeclareOfJson (self : Flav) (j : Json) : Except String Cmd := do
  let name ← jstr j "name"
  let ver ← jstrOpt j "version"
  let stack ← jnatOpt j "stack"
  let tag ← jstrOpt j "tag"
  let vat ← jboolD j "vat"
  let noaction ← jboolD j "noaction"
  let force ← jboolD j "force"
  let setup ← setupOfJson j
  pure (Cmd.undeclare ⟨self, name, ver, stack, tag, vat, noaction, force, setup⟩)

def assignOfJson (self : Flav) (j : Json) : Except String Cmd := do
  let tag ← jstr j "tag"
  let name ← jstr j "name"
  let ver ← jstr j "version"
  let stack ← jnatOpt j "stack"
  pure (Cmd.assignTag self tag name ver stack)

def unassignOfJson (self : Flav) (j : Json) : Except String Cmd := do
  let tag ← jstr j "tag"
  let name ← jstr j "name"
  let ver ← jstrOpt j "version"
  let stack ← jnatOpt j "stack"
  let noaction ← jboolD j "noaction"
  pure (Cmd.unassignTag self tag name ver stack noaction)

def removeOfJson (self : Flav) (j : Json) : Except String Cmd := do
  let name ← jstr j "name"
  let ver ← jstr j "version"
  let noaction ← jboolD j "noaction"
  let recursive ← jboolD j "recursive"
  let force ← jboolD j "force"
  let setup ← setupOfJson j
  pure (Cmd.remove self name ver recursive noaction force setup)

def cmdOfJson (j : Json) : Except String WCmd := do
  let op ← (← j.getObjVal? "op").getStr?
  let user := (← jnatOpt j "user").getD 0
  if op == "clearcache" then
    pure (.clearCache user)
  else if op == "envrmdir" then
    pure (.envRmDir (← dirOfJson (← j.getObjVal? "dir")))
  else if op == "adminbuild" then
    pure (.adminBuild user (← jstr j "self"))
  else if op == "rmcache" then
    let s ← jnat j "stack"
    let f ← jstr j "flavor"
    pure (.rmCache user s f)
  else
    let self ← jstr j "self"
    let crash ← jnatOpt j "crash"
    let c : Cmd ←
      if op == "declare" then declareOfJson self j
      else if op == "undeclare" then undeclareOfJson self j
      else if op == "assignTag" then assignOfJson self j
      else if op == "unassignTag" then unassignOfJson self j
      else if op == "remove" then removeOfJson self j
      else if op == "query" then pure (Cmd.query self)
      else throw s!"unknown op {op}"
    pure (.run user c crash)

def ofDir (d : Dir) : Json := Json.arr #[Json.num d.root, ofStr d.rel]
def ofTable : Table → Json
  | .default => "default"
  | .none => "none"
  | .ext d => ofDir d
  | .interned => "interned"
def ofDecl (d : Decl) : Json :=
  Json.arr #[Json.num d.stack, ofStr d.name, ofStr d.ver, ofStr d.flav, ofDir d.dir, ofTable d.table]
def ofTagRec (r : TagRec) : Json :=
  Json.arr #[Json.num r.stack, ofStr r.tag, ofStr r.name, ofStr r.flav, ofStr r.ver]
def ofSpec (c : Spec) : Json :=
  Json.mkObj [("decls", Json.arr (c.decls.map ofDecl).toArray), ("tags", Json.arr (c.tags.map ofTagRec).toArray)]
def ofOutcome : Outcome → Json
  | .ok => "ok"
  | .refused => "Refused"
  | .notFound => "NotFound"
  | .failed => "Other:RuntimeError"
  | .tableMissing => "Other:TableFileNotFound"
def ofTagOpt : Option Tag → Json
  | none => Json.null
  | some t => ofStr t
def ofEff : Eff → Json
  | .declare d t => Json.arr #["declare", ofDecl d, ofTagOpt t]
  | .undeclare s n v f => Json.arr #["undeclare", Json.num s, ofStr n, ofStr v, ofStr f]
  | .assign s t n f v => Json.arr #["assign", Json.num s, ofStr t, ofStr n, ofStr f, ofStr v]
  | .unassign s t n f => Json.arr #["unassign", Json.num s, ofStr t, ofStr n, ofStr f]
  | .rmTree d => Json.arr #["rmTree", ofDir d]
  | .copyExtra x => Json.arr #["copyExtra", Json.num x.stack, ofStr x.flav, ofStr x.name, ofStr x.ver, ofStr x.path, Json.num x.content]
def ofMsg : Msg → Json
  | .declaring s t => Json.arr #["declaring", Json.num s, ofTagOpt t]
  | .assigning t => Json.arr #["assigning", ofStr t]
  | .untag t => Json.arr #["untag", ofStr t]
  | .removing v s => Json.arr #["removing", ofStr v, Json.num s]
  | .rmrf d => Json.arr #["rmrf", ofDir d]
  | .copy path => Json.arr #["copy", ofStr path]

def ofCache (c : CacheFile) : Json :=
  Json.mkObj [("user", Json.num c.user), ("stack", Json.num c.stack), ("flavor", ofStr c.flav),
              ("mtime", Json.num c.mtime), ("c", ofSpec c.c)]
def ofTouch (t : Touch) : Json := Json.arr #[Json.num t.stack, ofStr t.name, Json.num t.mtime]

def ofFileDb (F : FileDb) : Json :=
  Json.mkObj
    [("vfiles", Json.arr (F.vfiles.map fun x =>
        Json.arr #[Json.num x.key.1, ofStr x.key.2.1, ofStr x.key.2.2, ofStrs (x.recs.map (·.flav))]).toArray),
     ("cfiles", Json.arr (F.cfiles.map fun x =>
        Json.arr #[Json.num x.key.1, ofStr x.key.2.1, ofStr x.key.2.2, ofStrs (x.recs.map (·.flav))]).toArray),
     ("abs", ofSpec (DbFile.abs F))]

def handle : Handler := fun j => do
  let nst ← jnat j "nst"
  let dirs ← (← jarr j "dirs").mapM dirEntOfJson
  let pinned ← jboolD j "pinned"
  let tfiles ← match j.getObjVal? "tfiles" with
    | .ok (Json.arr a) => a.toList.mapM tfileOfJson
    | _ => pure []
  let mut w := World.init nst dirs tfiles
  let mut F := FileDb.empty
  let mut steps : Array Json := #[]
  for cj in (← jarr j "cmds") do
    let c ← cmdOfJson cj
    let r := stepG (!pinned) w c
    w := r.w
    F := r.trace.foldl (fun F e => applyF e F) F
    steps := steps.push <| Json.mkObj
      [("out", ofOutcome r.out), ("crashed", Json.bool r.crashed),
       ("flavs", Json.arr ((allStacks nst).map fun s => ofStrs (heldOf r.flavs s)).toArray), ("view", ofSpec r.view),
       ("trace", Json.arr (r.trace.map ofEff).toArray), ("would", Json.arr (r.would.map ofMsg).toArray),
       ("db", ofSpec w.db),
       ("caches", Json.arr (w.caches.map ofCache).toArray),
       ("touch", Json.arr (w.touch.map ofTouch).toArray),
       ("dirs", Json.arr (w.dirs.map fun d => ofDir d.dir).toArray),
       ("files", ofFileDb F),
       ("extras", Json.arr (w.extras.map fun x =>
          Json.arr #[Json.num x.stack, ofStr x.flav, ofStr x.name, ofStr x.ver, ofStr x.path, Json.num x.content]).toArray)]
  pure (Json.mkObj [("steps", Json.arr steps)])

end EupsModel.Drv.C06
