import EupsModel.Drv.Util
namespace EupsModel.Drv.C11
open Lean EupsModel EupsModel.Drv
/-- placeholder until the C11 model exists -/
def handle : Handler := fun _ => throw "model C11 not built"
end EupsModel.Drv.C11
