import EupsModel.Drv.Util
import EupsModel.Model.Cond
import EupsModel.Model.CondPinned
import EupsModel.Model.TableParse
import EupsModel.Model.SetupType
namespace EupsModel.Drv.C11
open Lean EupsModel EupsModel.Drv EupsModel.Cond EupsModel.TableParse

def errName : Err → String
  | .runtime => "RuntimeError"
  | .attribute => "AttributeError"
  | .typeErr => "TypeError"
  | .badTable => "BadTableContent"
  | .unmodelled => "unmodelled"

def resBool : Res Bool → Json
  | .ok b => Json.mkObj [("out", "ok"), ("value", b)]
  | .err e => Json.mkObj [("out", "err"), ("err", errName e)]
  | .fuel => Json.mkObj [("out", "fuel")]

def envOf (j : Json) : Except String Cond.Env := do
  pure { flavor := ← jstr j "flavor", types := ← jstrs j "types" }

def errJson (e : Err) : Json := Json.mkObj [("out", "err"), ("err", errName e)]

def extraJson : Extra → Json
  | .none => Json.mkObj []
  | .optional b => Json.mkObj [("optional", b)]
  | .append b => Json.mkObj [("append", b)]
  | .implicit => Json.mkObj [("optional", true), ("silent", true)]

def actionJson (a : Action) : Json :=
  Json.mkObj [("cmd", ofStr a.cmd), ("args", ofStrs a.args), ("extra", extraJson a.extra)]

def variantOf (j : Json) : Except String Variant :=
  match j.getObjVal? "variant" with
  | .error _ => pure repaired
  | .ok v => do
    let flag (k : String) : Except String Bool := do (← v.getObjVal? k).getBool?
    pure { d3 := ← flag "d3", d4 := ← flag "d4", d20 := ← flag "d20", d31 := ← flag "d31", d32 := ← flag "d32",
           d33 := ← flag "d33" }

def itemJson : Item → Json
  | .cond c => Json.mkObj [("cond", ofStr c)]
  | .blk as => Json.mkObj [("blk", Json.arr (as.map actionJson).toArray)]

/-- `{"m":"c11","op":"table","text":…,"flavor":…,"types":[…],"pdir":null|…[,"variant":{"d3","d4","d20","d31","d32","d33"}]}` →
the action list of `Table(file, topProduct).actions(flavor, setupType)`;
`"op":"parse"` → the chains of `_actions`; `"op":"rewrite"` → the lines `_rewrite` returns;
`"op":"args"` → the argument tokeniser on one argument text.
`{"m":"c11","op":"cond","text":…,"flavor":…,"types":[…]}` → truth value of the condition text;
`"op":"cond_pinned"` runs the evaluator as pinned (development aid for the witnesses);
`"op":"tokens"` → the token list. -/
def handle : Handler := fun j => do
  let op ← (← j.getObjVal? "op").getStr?
  match op with
  | "cond" =>
    let text ← jstr j "text"
    pure (resBool (evalCond (← envOf j) (fuelFor text) text))
  | "cond_pinned" =>
    let text ← jstr j "text"
    pure (resBool (CondPinned.evalCond (← envOf j) (fuelFor text) text))
  | "table" =>
    let v ← variantOf j
    -- optional "dflt": {"name": …, "version": null | …, "tag": null | …} = hooks.config.Eups.defaultProduct
    let dflt : Option DefaultProduct ← match j.getObjVal? "dflt" with
      | .ok (Json.obj _) => do
        let d ← j.getObjVal? "dflt"
        pure (some { name := ← jstr d "name", version := ← jstrOpt d "version", tag := ← jstrOpt d "tag" })
      | _ => pure none
    let pdir ← jstrOpt j "pdir"
    let env ← envOf j
    let text ← jstr j "text"
    let res := match dflt with
      | none => tableActions v pdir env text
      | some d => tableActionsD v pdir (some d) env text
    match res with
    | .ok as => pure (Json.mkObj [("out", "ok"), ("actions", Json.arr (as.map actionJson).toArray)])
    | .err e => pure (errJson e)
    | .fuel => pure (Json.mkObj [("out", "fuel")])
  | "declopts" =>
    let v ← variantOf j
    let dictJson (d : Dict) : Json := Json.arr (d.map fun p => Json.arr #[ofStr p.1, ofStr p.2]).toArray
    let trap := match j.getObjVal? "trap" with | .ok (Json.bool b) => b | _ => false
    if trap then
      match tableDeclOptsPinned v (← jstrOpt j "pdir") (← envOf j) (← jstr j "text") with
      | .ok (some d) => pure (Json.mkObj [("out", "ok"), ("opts", dictJson d)])
      | .ok none => pure (Json.mkObj [("out", "err"), ("err", "PdbTrap")])
      | .err e => pure (errJson e)
      | .fuel => pure (Json.mkObj [("out", "fuel")])
    else
      match tableDeclOpts v (← jstrOpt j "pdir") (← envOf j) (← jstr j "text") with
      | .ok d => pure (Json.mkObj [("out", "ok"), ("opts", dictJson d)])
      | .err e => pure (errJson e)
      | .fuel => pure (Json.mkObj [("out", "fuel")])
  | "setuptype" =>
    -- {"arg": null | "text" | ["t", …], "exact": bool, "valid": […], "via": "init" | "cmd" | "setup"}
    let valid ← jstrs j "valid"
    let exact := match j.getObjVal? "exact" with | .ok (Json.bool b) => b | _ => false
    let via := match j.getObjVal? "via" with | .ok (Json.str s) => s | _ => "init"
    let arg : SetupType.Arg ← match j.getObjVal? "arg" with
      | .ok (Json.str _) => do
        let s ← jstr j "arg"
        pure (if via == "cmd" then SetupType.cmdArg s else SetupType.Arg.str s)
      | .ok (Json.arr _) => do pure (SetupType.Arg.list (← jstrs j "arg"))
      | _ => pure SetupType.Arg.none
    match SetupType.normTypes valid arg exact with
    | some (ts, ex) => pure (Json.mkObj [("out", "ok"), ("types", ofStrs ts), ("exact", ex)])
    | none => pure (Json.mkObj [("out", "err"), ("err", "EupsException")])
  | "typeseq" =>
    -- {"types": […], "exact": bool, "steps": [{"k": "deps", "fe": null | bool} | {"k": "actions"}], "text", "flavor", "pdir"}
    let types ← jstrs j "types"
    let ex := match j.getObjVal? "exact" with | .ok (Json.bool b) => b | _ => false
    let stepsJ ← (← j.getObjVal? "steps").getArr?
    let steps : List SetupType.Step ← stepsJ.toList.mapM fun sj => do
      let k ← (← sj.getObjVal? "k").getStr?
      if k == "deps" then
        pure (SetupType.Step.deps (match sj.getObjVal? "fe" with | .ok (Json.bool b) => some b | _ => none))
      else pure SetupType.Step.acts
    let outs := SetupType.runSeq ex (← jstrOpt j "pdir") (← jstr j "flavor") (← jstr j "text") types steps
    let outJ (o : SetupType.StepOut) : Json :=
      Json.mkObj ([("state", ofStrs o.state)] ++
        (match o.asked with | some a => [("asked", ofStrs a)] | none => []) ++
        (match o.actions with
         | some (.ok as) => [("actions", Json.arr (as.map actionJson).toArray)]
         | some (.err e) => [("actions", errJson e)]
         | some .fuel => [("actions", Json.mkObj [("out", "fuel")])]
         | none => []))
    pure (Json.mkObj [("out", "ok"), ("seq", Json.arr (outs.map outJ).toArray)])
  | "deptypes" =>
    let fe := match j.getObjVal? "followExact" with | .ok (Json.bool b) => b | _ => false
    pure (Json.mkObj [("out", "ok"), ("types", ofStrs (SetupType.depTypes fe (← jstrs j "types")))])
  | "parse" =>
    let v ← variantOf j
    match parse v (← jstrOpt j "pdir") (← jstr j "text") with
    | .ok chains => pure (Json.mkObj [("out", "ok"), ("chains", Json.arr (chains.map fun c => Json.arr (c.map itemJson).toArray).toArray)])
    | .err e => pure (errJson e)
    | .fuel => pure (Json.mkObj [("out", "fuel")])
  | "rewrite" =>
    match rewrite (← jstr j "text") with
    | .ok ls => pure (Json.mkObj [("out", "ok"), ("lines", ofStrs ls)])
    | .err e => pure (errJson e)
    | .fuel => pure (Json.mkObj [("out", "fuel")])
  | "args" =>
    pure (Json.mkObj [("out", "ok"), ("args", ofStrs (parseArgs (← variantOf j) (← jstr j "text")))])
  | "tokens" =>
    match tokenize (← jstr j "text") with
    | none => pure (Json.mkObj [("out", "unmodelled")])
    | some ts => pure (Json.mkObj [("out", "ok"), ("tokens", ofStrs ts)])
  | _ => throw s!"unknown op {op}"

end EupsModel.Drv.C11
