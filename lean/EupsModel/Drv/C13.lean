import EupsModel.Drv.Util
namespace EupsModel.Drv.C13
open Lean EupsModel EupsModel.Drv
/-- placeholder until the C13 model exists -/
def handle : Handler := fun _ => throw "model C13 not built"
end EupsModel.Drv.C13
