import EupsModel.Drv.Util
import EupsModel.Model.Deps
namespace EupsModel.Drv.C13
open Lean EupsModel EupsModel.Drv EupsModel.Deps

/-! JSON <-> model values for C13 (also used by the C14 handler). -/

def depOfJson (tagged : List ((Str × Str) × Str)) (j : Json) : Except String Dep := do
  let k ← (← j.getObjVal? "k").getStr?
  let (uns, opt) ← match k with
    | "req" => pure (false, false)
    | "opt" => pure (false, true)
    | "unreq" => pure (true, false)
    | "unopt" => pure (true, true)
    | _ => throw s!"unknown dependency kind {k}"
  let j' := match j.getObjVal? "j" with
    | .ok (Json.bool b) => b
    | _ => false
  let flag (k : String) : Bool := match j.getObjVal? k with
    | .ok (Json.bool b) => b
    | _ => false
  let tag ← match j.getObjVal? "t" with
    | .ok (Json.str t) => pure (some (Str.ofString t))
    | _ => pure none
  let d : Dep := { unsetup := uns, optional := opt, name := ← jstr j "n", ver := ← jstrOpt j "v", noRec := j',
                   external := flag "external" }
  pure (applyLineTag tagged d tag)

def dbOfJsonWith (exactBranch : Bool) (g : Json) : Except String Db := do
  let ps ← jarr g "products"
  let mut decls : List Decl := []
  let mut cur : List (Str × Str) := []
  -- (product, tag) ↦ version, for the `-t TAG` lines
  let mut tagged : List ((Str × Str) × Str) := []
  for p in ps do
    let n ← jstr p "name"
    let v ← jstr p "version"
    let tags ← match p.getObjVal? "tags" with
      | .ok t => do pure ((← t.getArr?).toList)
      | .error _ => pure []
    for t in tags do
      tagged := tagged ++ [((n, Str.ofString (← t.getStr?)), v)]
  for p in ps do
    let n ← jstr p "name"
    let v ← jstr p "version"
    -- `"xdeps"`: the lines of the `if (type == exact)` branch of the table (`"deps"`: the else branch)
    let lines ← match (if exactBranch then p.getObjVal? "xdeps" else .error "") with
      | .ok (Json.arr a) => pure a.toList
      | _ => jarr p "deps"
    let deps ← lines.mapM (depOfJson tagged)
    let missing := match p.getObjVal? "missing" with
      | .ok (Json.bool b) => b
      | _ => false
    decls := decls ++ [{ name := n, ver := v, deps := deps, tableMissing := missing }]
    let tags ← match p.getObjVal? "tags" with
      | .ok t => do pure ((← t.getArr?).toList)
      | .error _ => pure []
    for t in tags do
      if (← t.getStr?) == "current" then cur := cur ++ [(n, v)]
  pure { decls := decls, current := cur }

def dbOfJson (g : Json) : Except String Db := dbOfJsonWith false g

def prodToJson (p : Prod) : List Json := [ofStr p.name, ofStrOpt p.ver, Json.bool p.real]

def entryToJson (e : Entry) : Json :=
  Json.arr (prodToJson e.prod ++ [Json.bool e.optional, match e.depth with | some d => (d : Json) | none => Json.null]).toArray

def outcomeToJson : Outcome → Json
  | .ok l => Json.mkObj [("out", "ok"), ("list", Json.arr (l.map entryToJson).toArray)]
  | .cycle => Json.mkObj [("out", "Cycle")]
  | .outOfFuel => Json.mkObj [("out", "Recursion")]

def userToJson (u : User) : Json :=
  Json.arr #[ofStr u.name, ofStr u.ver, ofStrOpt u.need, Json.bool u.optional, (u.depth : Json)]

def pairOfJson (j : Json) : Except String (Str × Option Str) := do
  let a ← j.getArr?
  match a.toList with
  | [n, v] =>
    let n ← n.getStr?
    let v ← match v with
      | Json.null => pure none
      | v => do pure (some (Str.ofString (← v.getStr?)))
    pure (Str.ofString n, v)
  | _ => throw "expected [name, version]"

/-- integer graphs for the direct tests of `topologicalSort` / the component specification -/
def natGraphOfJson (j : Json) : Except String (Topo.Graph Nat) := do
  (← jarr j "graph").mapM fun e => do
    let a ← e.getArr?
    match a.toList with
    | [k, vs] => do pure (← k.getNat?, ← (← vs.getArr?).toList.mapM (·.getNat?))
    | _ => throw "expected [node, [deps]]"

def natsToJson (l : List Nat) : Json := Json.arr (l.map fun (n : Nat) => (n : Json)).toArray

/-- ops:
* `all`  : `{"graph":G,"roots":[[n,v]..],"modes":[[topological,checkCycles]..],"queries":[[n,v|null]..]}` →
  every listing (roots × modes), the outcome of `uses()` and the answer to every `users` query;
* `topo` : `{"graph":[[node,[deps]]..],"cc":bool}` → layers of `topologicalSort` on an integer graph;
* `scc`  : `{"graph":[[node,[deps]]..]}` → the mutual-reachability classes. -/
def handle : Handler := fun j => do
  let op ← (← j.getObjVal? "op").getStr?
  match op with
  | "all" =>
    let db ← dbOfJson (← j.getObjVal? "graph")
    -- `"implicit": name`: the default (implicit) product is switched on
    let db := match j.getObjVal? "implicit" with
      | .ok (Json.str n) => db.withImplicit (Str.ofString n)
      | _ => db
    let fuel := db.fuel
    let roots ← (← jarr j "roots").mapM pairOfJson
    let modes ← (← jarr j "modes").mapM fun m => do
      let a ← m.getArr?
      match a.toList with
      | [t, c] => do pure (← t.getBool?, ← c.getBool?)
      | _ => throw "expected [topological, checkCycles]"
    let lists := roots.map fun (n, v) =>
      Json.arr (modes.map fun (t, c) => outcomeToJson (getDependentProducts db fuel ⟨n, v, true⟩ t c)).toArray
    let builds := roots.map fun (n, v) =>
      match createDeps db fuel ⟨n, v, true⟩ with
      | .ok l => Json.mkObj [("out", "ok"), ("list", Json.arr (l.map fun (a, b, c) =>
          Json.arr #[ofStr a, ofStrOpt b, Json.bool c]).toArray)]
      | .notFound => Json.mkObj [("out", "NotFound")]
      | .undetermined => Json.mkObj [("out", "Undetermined")]
    let queries ← (← jarr j "queries").mapM pairOfJson
    -- `"print":[[query index, showOptional, depth]..]`: what `eups uses` prints for these queries
    let prints ← match j.getObjVal? "print" with
      | .ok p => (← p.getArr?).toList.mapM fun x => do
          match (← x.getArr?).toList with
          | [qi, so, dp] => pure (← qi.getNat?, ← so.getBool?, ← dp.getNat?)
          | _ => throw "expected [query index, showOptional, depth]"
      | .error _ => pure []
    let usesPart : List (String × Json) :=
      if queries.isEmpty then [] else
      match usesInfo db fuel with
      | .outOfFuel => [("uses", "Recursion")]
      | .cycle => [("uses", "Cycle")]
      | .ok sb => [("uses", "ok"),
                   ("users", Json.arr (queries.map fun (n, v) => Json.arr ((users sb n v).map userToJson).toArray).toArray),
                   ("printed", Json.arr (prints.map fun (qi, so, dp) =>
                      match queries[qi]? with
                      | some (n, v) => Json.arr ((printUses (users sb n v) so dp).map fun (a, b, c, o) =>
                          Json.arr #[ofStr a, ofStr b, ofStrOpt c, Json.bool o]).toArray
                      | none => Json.null).toArray)]
    pure (Json.mkObj ([("lists", Json.arr lists.toArray), ("builds", Json.arr builds.toArray)] ++ usesPart))
  | "exact" =>
    -- `{"graph":G,"roots":[..],"modes":[..],"queries":[..]}`: the listings and `uses` of an object in exact mode
    let g ← j.getObjVal? "graph"
    let db ← dbOfJson g
    let dbE ← dbOfJsonWith true g
    let roots ← (← jarr j "roots").mapM pairOfJson
    let modes ← (← jarr j "modes").mapM fun m => do
      let a ← m.getArr?
      match a.toList with
      | [t, c] => do pure (← t.getBool?, ← c.getBool?)
      | _ => throw "expected [topological, checkCycles]"
    let lists := roots.map fun (n, v) =>
      Json.arr (modes.map fun (t, c) => outcomeToJson (getDependentProductsExact dbE db db.fuel ⟨n, v, true⟩ t c)).toArray
    let queries ← (← jarr j "queries").mapM pairOfJson
    let usesPart : List (String × Json) :=
      match usesInfoExact dbE db db.fuel with
      | .outOfFuel => [("uses", "Recursion")]
      | .cycle => [("uses", "Cycle")]
      | .ok sb => [("uses", "ok"),
                   ("users", Json.arr (queries.map fun (n, v) => Json.arr ((users sb n v).map userToJson).toArray).toArray)]
    pure (Json.mkObj ([("lists", Json.arr lists.toArray)] ++ usesPart))
  | "setup" =>
    -- `{"graph":G,"setup":[[n,v]..],"roots":[[n,v]..],"modes":[..]}`: `eups list -D --setup` listings
    let db ← dbOfJson (← j.getObjVal? "graph")
    let setup ← (← jarr j "setup").mapM fun x => do
      match (← x.getArr?).toList with
      | [a, b] => pure (Str.ofString (← a.getStr?), Str.ofString (← b.getStr?))
      | _ => throw "expected [name, version] in the set-up list"
    let roots ← (← jarr j "roots").mapM pairOfJson
    let modes ← (← jarr j "modes").mapM fun m => do
      let a ← m.getArr?
      match a.toList with
      | [t, c] => do pure (← t.getBool?, ← c.getBool?)
      | _ => throw "expected [topological, checkCycles]"
    let lists := roots.map fun (n, v) =>
      Json.arr (modes.map fun (t, c) => outcomeToJson (getDependentProductsSetup db db.fuel ⟨n, v, true⟩ setup t c)).toArray
    pure (Json.mkObj [("lists", Json.arr lists.toArray)])
  | "topo" =>
    let g ← natGraphOfJson j
    match Topo.topologicalSort g (← jbool j "cc") with
    | .ok ls => pure (Json.mkObj [("out", "ok"), ("layers", Json.arr (ls.map natsToJson).toArray)])
    | .cycle => pure (Json.mkObj [("out", "Cycle")])
    | .outOfFuel => pure (Json.mkObj [("out", "Recursion")])
  | "scc" =>
    let g := Topo.normalise (← natGraphOfJson j)
    match Topo.reachTable g with
    | none => pure (Json.mkObj [("out", "Recursion")])
    | some R => pure (Json.mkObj [("out", "ok"),
        ("comps", Json.arr ((Topo.components R (Topo.keys g)).map natsToJson).toArray)])
  | _ => throw s!"unknown op {op}"

end EupsModel.Drv.C13
