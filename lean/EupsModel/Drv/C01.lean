import EupsModel.Drv.Util
import EupsModel.Model.Setup
import EupsModel.Model.SetupEmit
/-! Driver handler "c01" (shared by the C01, C02 and C04 harnesses): ops "setup" and "unsetup".

Request
```
{"m":"c01","op":"setup"|"unsetup","fuel":N,
 "db":{"decls":[{"name","ver","stack":k,"dir","table":[ACT…]}…],"tags":[[tag,name,ver,k]…]},
 "env":{"recs":{name:[ver,k]},"dirs":{name:str},"paths":{var:[str…]},"vars":{var:str}},
 "req":{"name","ver":VERREQ|null,"keep":bool,"max_depth":int,"inexact":bool,"tags":[str…],"path":[k…]},
 "layout":{"roots":[dir…],"delims":{var:delim},"subst":[[placeholder,dir]…],"flavor":str}}     (optional: answer gets "sh")
ACT    = {"g":"always"|"exact"|"inexact"|"type:T"|"ntype:T","a":"prepend","var","vals":[{"own":bool,"val"}…],"append":bool}
       | {"g",…,"a":"set","var","own":bool,"val"} | {"g",…,"a":"alias","key","val"}
       | {"g",…,"a":"dep","name","opt":bool,"just":bool,"ver":VERREQ|null,"vexpr":EXPR|null,"tags":[str…],"keep":bool}
VERREQ = {"v":version} | {"e":EXPR}        EXPR = [[op,version]…]   (alternatives joined by ||)
```
Strings of the environment are tagged here (`own (name,version) rel` when the string is the directory of a
declared product or lies under it) and rendered back on output; this conversion is not part of any proof. -/
namespace EupsModel.Drv.C01
open Lean EupsModel EupsModel.Drv EupsModel.Setup

def relOp (s : String) : Except String RelOp :=
  match s with
  | "<" => pure .lt | "<=" => pure .le | "==" => pure .eq | ">=" => pure .ge | ">" => pure .gt
  | _ => throw s!"bad relational operator {s}"

def exprOf (j : Json) : Except String VExpr := do
  (← j.getArr?).toList.mapM fun t => do
    let a ← t.getArr?
    if a.size != 2 then throw "bad expression term"
    pure (← relOp (← a[0]!.getStr?), Str.ofString (← a[1]!.getStr?))

def optField (j : Json) (k : String) : Option Json :=
  match j.getObjVal? k with
  | .ok Json.null => none
  | .ok v => some v
  | .error _ => none

def verReqOf (j : Json) : Except String VerReq := do
  match optField j "v", optField j "e" with
  | some v, none => pure (.explicit (Str.ofString (← v.getStr?)))
  | none, some e => pure (.expr (← exprOf e))
  | _, _ => throw "bad version request"

def guardOf (s : String) : Except String Guard :=
  match s with
  | "always" => pure .always | "exact" => pure .exact | "inexact" => pure .inexact
  | _ =>
    if s.startsWith "type:" then pure (.isType (Str.ofString (s.drop 5).toString))
    else if s.startsWith "ntype:" then pure (.notType (Str.ofString (s.drop 6).toString))
    else throw s!"bad guard {s}"

def valOf (j : Json) : Except String Val := do
  let s ← jstr j "val"
  if ← jbool j "own" then pure (.own s) else pure (.lit s)

def actOf (j : Json) : Except String (Guard × Act) := do
  let g ← guardOf (← (← j.getObjVal? "g").getStr?)
  let a ← (← j.getObjVal? "a").getStr?
  match a with
  | "prepend" =>
    let vals ← (← jarr j "vals").mapM valOf
    if vals.isEmpty then throw "envPrepend without a value"
    pure (g, .prepend (← jstr j "var") vals (← jbool j "append"))
  | "set" => pure (g, .set (← jstr j "var") (← valOf j))
  | "alias" => pure (g, .alias (← jstr j "key") (← jstr j "val"))
  | "dep" =>
    let ver ← match optField j "ver" with
      | some v => pure (some (← verReqOf v))
      | none => pure none
    let vexpr ← match optField j "vexpr" with
      | some v => pure (some (← exprOf v))
      | none => pure none
    pure (g, .dep (← jstr j "name") (← jbool j "opt") (← jbool j "just") ver vexpr (← jstrs j "tags") (← jbool j "keep"))
  | _ => throw s!"unknown action {a}"

def declOf (j : Json) : Except String Decl := do
  pure ⟨← jstr j "name", (← jstr j "ver", ← jnat j "stack"), ← jstr j "dir", ← (← jarr j "table").mapM actOf⟩

def dbOf (j : Json) : Except String Db := do
  let decls ← (← jarr j "decls").mapM declOf
  let tags ← (← jarr j "tags").mapM fun t => do
    let a ← t.getArr?
    if a.size != 4 then throw "bad tag entry"
    pure (Str.ofString (← a[0]!.getStr?), Str.ofString (← a[1]!.getStr?), (Str.ofString (← a[2]!.getStr?), ← a[3]!.getNat?))
  -- the tagging of elements needs distinct, non-nested directories and unique (name, version) pairs
  for d in decls do
    for d' in decls do
      if d.prod == d'.prod && d != d' then throw "database declares a (name, version) pair twice"
      if d.prod != d'.prod && d.dir != noneDir && (d.dir == d'.dir || (d.dir ++ [47]).isPrefixOf d'.dir) then
        throw "product directories are not distinct and non-nested"
  pure ⟨decls, tags⟩

/-- string → tagged element -/
def tagElem (db : Db) (s : Str) : Elem :=
  match db.decls.find? (fun d => d.dir != noneDir && (s == d.dir || (d.dir ++ [47]).isPrefixOf s)) with
  | some d => .own d.prod (s.drop d.dir.length)
  | none => .foreign s

def renderElem (db : Db) : Elem → Str
  | .own p rel => (match db.lookup p with
    | some d => d.dir
    | none => Str.ofString "<undeclared>") ++ rel
  | .foreign s => s

def objList (j : Json) (k : String) : Except String (List (String × Json)) := do
  pure (← (← j.getObjVal? k).getObj?).toList

def envOf (db : Db) (j : Json) : Except String Setup.Env := do
  let recs ← (← objList j "recs").mapM fun (k, v) => do
    let a ← v.getArr?
    if a.size != 2 then throw "bad record"
    pure (Str.ofString k, ((Str.ofString (← a[0]!.getStr?), ← a[1]!.getNat?) : Ver))
  let dirs ← (← objList j "dirs").mapM fun (k, v) => do
    pure (Str.ofString k, tagElem db (Str.ofString (← v.getStr?)))
  let paths ← (← objList j "paths").mapM fun (k, v) => do
    let l ← (← v.getArr?).toList.mapM fun x => do pure (tagElem db (Str.ofString (← x.getStr?)))
    pure (Str.ofString k, l)
  let vars ← (← objList j "vars").mapM fun (k, v) => do
    pure (Str.ofString k, tagElem db (Str.ofString (← v.getStr?)))
  pure ⟨recs, dirs, paths, vars⟩

def mkObjS {β : Type} (l : List (Str × β)) (f : β → Json) : Json :=
  Json.mkObj (l.map fun (k, v) => (Str.toString k, f v))

def envToJson (db : Db) (e : Setup.Env) : Json :=
  let el := fun x => ofStr (renderElem db x)
  Json.mkObj [("recs", mkObjS e.recs (fun (v : Ver) => Json.arr #[ofStr v.1, Json.num v.2])), ("dirs", mkObjS e.dirs el),
              ("paths", mkObjS e.paths (fun l => Json.arr (l.map el).toArray)), ("vars", mkObjS e.vars el)]

def reqOf (j : Json) : Except String Request := do
  let ver ← match optField j "ver" with
    | some v => pure (some (← verReqOf v))
    | none => pure none
  let md ← jint j "max_depth"
  pure ⟨← jstr j "name", ver, ← jbool j "keep", if md < 0 then none else some md.toNat,
        ← jbool j "inexact", ← jstrs j "tags", ← (← jarr j "path").mapM fun x => x.getNat?⟩

def vroToJson (v : VroEnt) : Json :=
  match v with
  | .keep => "keep" | .typeExact => "type:exact" | .commandLine => "commandLine" | .version => "version"
  | .versionBang => "version!" | .versionExpr => "versionExpr" | .tag t => ofStr t
  | .path => "path" | .warn => "warn"

def cmdToJson (db : Db) (c : Cmd) : Json :=
  let el := fun x => ofStr (renderElem db x)
  match c with
  | .exportRec n v => Json.arr #["exportRec", ofStr n, ofStr v.1, Json.num v.2]
  | .exportDir n x => Json.arr #["exportDir", ofStr n, el x]
  | .exportPath var l => Json.arr #["exportPath", ofStr var, Json.arr (l.map el).toArray]
  | .exportVar var x => Json.arr #["exportVar", ofStr var, el x]
  | .unsetRec n => Json.arr #["unsetRec", ofStr n]
  | .unsetDir n => Json.arr #["unsetDir", ofStr n]
  | .unsetPath var => Json.arr #["unsetPath", ofStr var]
  | .unsetVar var => Json.arr #["unsetVar", ofStr var]
  | .aliasDef k v => Json.arr #["aliasDef", ofStr k, ofStr v]
  | .aliasUnset k => Json.arr #["aliasUnset", ofStr k]
  | .false_ => Json.arr #["false"]

def stFields (db : Db) (s : St) : List (String × Json) :=
  [("env", envToJson db s.env), ("aliases", mkObjS s.aliases ofStr), ("unaliased", ofStrs s.unaliased)]

/-- op "session": ONE `Eups` object serving several top-level `Eups.setup` calls (API use): keep / max_depth / VRO / path
are the object's, `alreadySetupProducts`, the product cache and the alias tables live on from call to call; the session
ends at the first call that does not succeed.  "steps": [{"op":"setup"|"unsetup","name","ver"}…] -/
def session (db : Db) (fuel : Nat) (req : Request) (j : Json) (env : Setup.Env) : Except String Json := do
  let steps ← (← jarr j "steps").mapM fun t => do
    let fwd ← match (← (← t.getObjVal? "op").getStr?) with
      | "setup" => pure true
      | "unsetup" => pure false
      | o => throw s!"unknown op {o}"
    let ver ← match optField t "ver" with
      | some v => pure (some (← verReqOf v))
      | none => pure none
    pure (fwd, ← jstr t "name", ver)
  let rec go (l : List (Bool × Setup.Name × Option VerReq)) (s : St) (acc : List Json) : List Json :=
    match l with
    | [] => acc.reverse
    | (fwd, name, ver) :: rest =>
      match setup (req.cfg db) fuel fwd 0 false req.vro name (if fwd then ver else none) none s with
      | .ok s' => go rest s' (Json.mkObj (("out", "ok") :: stFields db s') :: acc)
      | .notFound s' => (Json.mkObj (("out", "notfound") :: stFields db s') :: acc).reverse
      | .raised s' => (Json.mkObj (("out", "raised") :: stFields db s') :: acc).reverse
      | .fuel => (Json.mkObj [("out", "fuel")] :: acc).reverse
  pure <| Json.mkObj [("vro", Json.arr (req.vro.map vroToJson).toArray), ("steps", Json.arr (go steps (St.init env) []).toArray)]

def handle : Handler := fun j => do
  let op ← (← j.getObjVal? "op").getStr?
  if op == "session" then
    let db0 ← dbOf (← j.getObjVal? "db")
    let types ← match optField j "types" with
      | some _ => jstrs j "types"
      | none => pure []
    let db := db0.withTypes types
    return ← session db (← jnat j "fuel") (← reqOf (← j.getObjVal? "req")) j (← envOf db (← j.getObjVal? "env"))
  let fwd ← match op with
    | "setup" => pure true
    | "unsetup" => pure false
    | _ => throw s!"unknown op {op}"
  let db0 ← dbOf (← j.getObjVal? "db")
  -- `--type t…`: the tables are read under these setup types (absent = none)
  let types ← match optField j "types" with
    | some _ => jstrs j "types"
    | none => pure []
  let db := db0.withTypes types
  let env ← envOf db (← j.getObjVal? "env")
  let req ← reqOf (← j.getObjVal? "req")
  let fuel ← jnat j "fuel"
  let res := if fwd then runSetup db fuel req env else runUnsetup db fuel req env
  let emit : List (String × Json) := match appSetup db fuel fwd req env with
    | .cmds l => [("emit", if l == [Cmd.false_] then "false" else "cmds"), ("cmds", Json.arr (l.map (cmdToJson db)).toArray)]
    | .raised => [("emit", "raised")]
    | .fuel => [("emit", "fuel")]
  -- optional: the command strings of `eups.app.setup` (Model/Setup composed with Model/ShellEmit)
  let sh : List (String × Json) ← match optField j "layout" with
    | none => pure []
    | some lj => do
      let delims ← (← objList lj "delims").mapM fun (k, v) => do pure (Str.ofString k, Str.ofString (← v.getStr?))
      let subst ← (← jarr lj "subst").mapM fun t => do
        let a ← t.getArr?
        if a.size != 2 then throw "bad substitution"
        pure (Str.ofString (← a[0]!.getStr?), Str.ofString (← a[1]!.getStr?))
      let flavors ← match optField lj "flavors" with
        | some _ => (← objList lj "flavors").mapM fun (k, v) => do pure (Str.ofString k, Str.ofString (← v.getStr?))
        | none => pure []
      let L : SetupEmit.Layout := ⟨← jstrs lj "roots", delims, subst, ← jstr lj "flavor", flavors⟩
      pure [("sh", match SetupEmit.emitSh db L (appSetup db fuel fwd req env) with
        | some l => ofStrs l
        | none => Json.null)]
  let vro := ("vro", Json.arr (req.vro.map vroToJson).toArray)
  pure <| Json.mkObj <| vro :: emit ++ sh ++ match res with
    | .ok s => ("out", "ok") :: stFields db s
    | .notFound s => ("out", "notfound") :: stFields db s
    | .raised s => ("out", "raised") :: stFields db s
    | .fuel => [("out", "fuel")]

end EupsModel.Drv.C01
