import EupsModel.Drv.Util
namespace EupsModel.Drv.C01
open Lean EupsModel EupsModel.Drv
/-- placeholder until the C01 model exists -/
def handle : Handler := fun _ => throw "model C01 not built"
end EupsModel.Drv.C01
