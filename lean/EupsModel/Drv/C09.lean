import Std.Data.HashMap
import Std.Data.HashSet
import EupsModel.Drv.Util
import EupsModel.Drv.C09Pinned
import EupsModel.Model.LockR
import EupsModel.Model.LockPathR
import EupsModel.Model.LockCmd
/-! Driver handler of C09 (model `c09`): the repaired lock protocol (`Model/LockR.lean`, `Model/LockPathR.lean`).

* `{"m":"c09","op":"run","procs":[{"kind":"E"|"S","lp":null|n,"tries":n}..],"sched":[pid..]}` runs the schedule
  from the initial configuration with `LockR.step` and reports, per scheduled step, the call and its result class
  (`LockR.obs`; a schedule entry `-(i+1)` is a signal delivered to process `i`, `LockR.interrupt`), the pairs violating `Mutex` after the step, and at the end the program counters, the directory flag
  and the listing.
* `{"m":"c09","op":"runpath",..,"ndirs":n}` the same over several stacks (`LockPathR.mstep`).
* `{"m":"c09","op":"explore","procs":[..],"max":N}` enumerates the reachable states of the configuration (at most
  `N`) and returns a set of maximal schedules that takes every transition of the state graph at least once, plus
  statistics: states, transitions, states violating `Mutex` (the theorem says none), quiescent states with residue
  (none); with `"signals":true` the graph also has the signal transitions (a signal for a process in its body) and the
  schedules carry them as `-(i+1)`.  Exploration support for the correspondence check — not part of any proof.
* `{"m":"c09","op":"cmdtable"}` the lock bracket of the command line (`Model/LockCmd.lean`): per command the registered
  lock type, whether it updates a stack, who releases; `{"op":"cmdline","cmd":name,"help":b,"nolocks":b,"enabled":b,
  "env_path":[..],"Z":[..]|null,"z":n|null}` the lock one command line takes and the stacks it takes it on.
* `pinned_run`, `pinned_explore`, `pinned_runpath`, `pinned_racefree`: the same operations on the pinned protocol
  (`Drv/C09Pinned.lean`), model only. -/
namespace EupsModel.Drv.C09
open Lean EupsModel EupsModel.Drv EupsModel.LockR EupsModel.LockPathR
open EupsModel.Lock (Pid Kind Err)
open EupsModel.Drv.C09Pinned (Proc procOfJson kindOf lpOf triesOf kindStr fileStr)

def initOf (ps : Array Proc) : St := init (kindOf ps) (lpOf ps) (triesOf ps)

def errStr : Err → String
  | .runtime => "RuntimeError" | .index => "IndexError" | .enoent => "FileNotFoundError"
  | .enotempty => "OSError" | .stopIter => "StopIteration"

def callStr : Call → String
  | .mkdir => "mkdir" | .scanAll => "scan_all" | .scanEx => "scan_ex"
  | .create => "create" | .work => "work" | .isdir => "isdir" | .existsFile => "exists_file"
  | .remove => "remove" | .rmdir => "rmdir" | .none => "-"

def resStr : Res → String
  | .ok => "ok" | .eexist => "EEXIST" | .enoent => "ENOENT" | .enotempty => "ENOTEMPTY"
  | .yes => "True" | .no => "False"
  | .listing l => "[" ++ ",".intercalate (l.map fileStr) ++ "]"
  | .nothing => "-"

def pcStr (s : St) (i : Pid) : String :=
  match s.pc i with
  | .hold => "locked" | .done => "done" | .killed => "killed"
  | .failedAcq e => "failed:" ++ errStr e | .failedRel e => "failed_release:" ++ errStr e
  | _ => "pending:" ++ callStr (obs s i).1

/-- Unrelated pairs `(i, j)`, `i` an exclusive holder, `j` in its body: the violations of `Mutex` among pids `< n`. -/
def violators (n : Nat) (s : St) : List (Pid × Pid) :=
  (List.range n).flatMap fun i => (List.range n).filterMap fun j =>
    if i != j && !decide (related s i j) && s.pc i == .hold && s.kind i == .ex && inBody (s.pc j)
    then some (i, j) else none

def terminal : PC → Bool
  | .done | .failedAcq _ | .failedRel _ | .killed => true
  | _ => false

/-- `"stale": [["E", 9], ..]`: lock files left behind by killed processes (kind, pid ≥ number of live processes) -/
def ghostsOfJson (j : Json) : Except String (List (Kind × Pid)) :=
  match j.getObjVal? "stale" with
  | .ok (Json.arr a) => a.toList.mapM fun g => do
      let l ← g.getArr?
      let k ← match l[0]? with
        | some (Json.str "E") => pure Kind.ex
        | some (Json.str "S") => pure Kind.sh
        | _ => throw "stale: kind"
      let p ← match l[1]? with
        | some v => v.getNat?
        | none => throw "stale: pid"
      pure (k, p)
  | _ => pure []

/-- schedule entries: `i ≥ 0` the next call of process `i`; `-(i+1)` a signal for process `i`; `1000000`
`eups admin clearLocks`; `1000001` `eups admin listLocks` -/
def evClear : Int := 1000000
def evList : Int := 1000001
/-- `2000000 + i`: SIGKILL for process `i` -/
def evKill : Int := 2000000

/-- what `listLocks` shows: the lockers' pids (it prints user and pid, not the kind of lock) -/
def sortedListing (fs : List (Kind × Pid)) : String :=
  "[" ++ ",".intercalate (((fs.map (·.2)).toArray.qsort (· < ·)).toList.map toString) ++ "]"

def opRun (j : Json) : Except String Json := do
  let ps := (← (← jarr j "procs").mapM procOfJson).toArray
  let ghosts ← ghostsOfJson j
  -- a schedule entry i ≥ 0 is the next call of process i; an entry -(i+1) is a signal delivered to process i
  let sched ← (← jarr j "sched").mapM fun v => v.getInt?
  let n := ps.size
  let kind : Pid → Kind := fun i => match ghosts.find? (fun g => g.2 == i) with | some g => g.1 | none => kindOf ps i
  let mut s := if ghosts.isEmpty then initOf ps else initStale kind (lpOf ps) (triesOf ps) ghosts
  let mut steps : Array Json := #[]
  for e in sched do
    if e == evClear || e == evList then
      let rs := if e == evClear then "ok" else (if s.dir then sortedListing s.files else "-")
      s := if e == evClear then clearLocks s else s
      let v := violators n s
      steps := steps.push (Json.arr #[toJson (-1 : Int), (if e == evClear then "clearLocks" else "listLocks"), rs,
        Json.arr (v.map fun (a, b) => Json.arr #[toJson a, toJson b]).toArray])
    else if e ≥ evKill then
      let i := (e - evKill).toNat
      if i ≥ n then throw s!"pid {i} out of range"
      let rs := if terminal (s.pc i) then "gone" else "killed"
      s := if terminal (s.pc i) then s else crash s i
      let v := violators n s
      steps := steps.push (Json.arr #[toJson i, "sigkill", rs,
        Json.arr (v.map fun (a, b) => Json.arr #[toJson a, toJson b]).toArray])
    else
      let i := if e ≥ 0 then e.toNat else (-e - 1).toNat
      if i ≥ n then throw s!"pid {i} out of range"
      let (cs, rs) :=
        if e ≥ 0 then (let (c, r) := obs s i; (callStr c, resStr r))
        else ("signal", if s.pc i == .hold || s.pc i == .isdir .fin || (match s.pc i with | .mkdir _ => true | _ => false)
                        then "delivered" else "ignored")
      s := if e ≥ 0 then step s i else interrupt s i
      let v := violators n s
      steps := steps.push (Json.arr #[toJson i, cs, rs,
        Json.arr (v.map fun (a, b) => Json.arr #[toJson a, toJson b]).toArray])
  pure (Json.mkObj [
    ("steps", Json.arr steps),
    ("pcs", Json.arr ((List.range n).map fun i => Json.str (pcStr s i)).toArray),
    ("dir", s.dir),
    ("files", Json.arr (s.files.map fun f => Json.str (fileStr f)).toArray)])

/-! ### exploration -/

structure Snap where
  dir   : Bool
  files : List (Kind × Pid)
  pcs   : List PC
  deriving BEq, Hashable, Inhabited

def snapSt (ps : Array Proc) (x : Snap) : St :=
  { dir := x.dir, files := x.files, kind := kindOf ps, lp := lpOf ps,
    pc := fun i => x.pcs.getD i .done }

def snapStep (ps : Array Proc) (x : Snap) (p : Pid) : Snap :=
  let s' := step (snapSt ps x) p
  { dir := s'.dir, files := s'.files, pcs := (List.range ps.size).map s'.pc }

def snapIntr (ps : Array Proc) (x : Snap) (p : Pid) : Snap :=
  let s' := interrupt (snapSt ps x) p
  { dir := s'.dir, files := s'.files, pcs := (List.range ps.size).map s'.pc }

def snapInit (ps : Array Proc) : Snap :=
  { dir := false, files := [], pcs := (List.range ps.size).map fun i => PC.mkdir (triesOf ps i) }

structure Graph where
  snaps  : Array Snap
  parent : Array (Nat × Nat)          -- BFS tree: predecessor state and the event taken
  succ   : Array (Array (Option Nat)) -- per state, per event: successor (none = not enabled)
  full   : Bool                       -- false when the state bound was hit
  nev    : Nat                        -- events per state: n calls [+ n signals]

/-- event `q < n`: the next call of process `q`; event `n + p` (only with `sig`): a signal delivered to process `p`
in its command body -/
def evToInt (n q : Nat) : Int := if q < n then (q : Int) else -((q - n : Nat) : Int) - 1

def buildGraph (ps : Array Proc) (maxStates : Nat) (sig : Bool := false) : Graph := Id.run do
  let n := ps.size
  let nev := if sig then 2 * n else n
  let x0 := snapInit ps
  let mut idx : Std.HashMap Snap Nat := {}
  idx := idx.insert x0 0
  let mut snaps : Array Snap := #[x0]
  let mut parent : Array (Nat × Nat) := #[(0, 0)]
  let mut succ : Array (Array (Option Nat)) := #[]
  let mut full := true
  let mut u := 0
  while u < snaps.size do
    let x := snaps[u]!
    let mut row : Array (Option Nat) := #[]
    for q in [0:nev] do
      let p := if q < n then q else q - n
      if terminal (x.pcs.getD p .done) ||
         (q ≥ n && !(x.pcs.getD p .done == .hold || x.pcs.getD p .done == .isdir .fin ||
                     (match x.pcs.getD p .done with | .mkdir _ => true | _ => false))) then
        row := row.push none
      else
        let y := if q < n then snapStep ps x p else snapIntr ps x p
        match idx[y]? with
        | some v => row := row.push (some v)
        | none =>
          if snaps.size ≥ maxStates then
            full := false
            row := row.push none
          else
            let v := snaps.size
            idx := idx.insert y v
            snaps := snaps.push y
            parent := parent.push (u, q)
            row := row.push (some v)
    succ := succ.push row
    u := u + 1
  return { snaps, parent, succ, full, nev }

def pathTo (g : Graph) (u : Nat) : List Nat := Id.run do
  let mut acc : List Nat := []
  let mut v := u
  let mut fuel := g.snaps.size + 1
  while v != 0 && fuel > 0 do
    let (w, p) := g.parent[v]!
    acc := p :: acc
    v := w
    fuel := fuel - 1
  return acc

/-- maximal schedules covering every transition of the graph -/
def pathCover (g : Graph) (n : Nat) : Array (List Nat) := Id.run do
  let mut covered : Std.HashSet (Nat × Nat) := {}
  let mut out : Array (List Nat) := #[]
  for u in [0:g.snaps.size] do
    for p in [0:n] do
      if (g.succ[u]!)[p]!.isSome && !covered.contains (u, p) then
        let mut sched : Array Nat := (pathTo g u).toArray
        let mut cur := u
        let mut nxt : Option Nat := some p
        let mut fuel := 100000
        while nxt.isSome && fuel > 0 do
          let q := nxt.get!
          sched := sched.push q
          covered := covered.insert (cur, q)
          cur := ((g.succ[cur]!)[q]!).get!
          fuel := fuel - 1
          let row := g.succ[cur]!
          let mut fresh : Option Nat := none
          let mut anyp : Option Nat := none
          for r in [0:n] do
            if row[r]!.isSome then
              if anyp.isNone then anyp := some r
              if fresh.isNone && !covered.contains (cur, r) then fresh := some r
          nxt := if fresh.isSome then fresh else anyp
        out := out.push sched.toList
  return out

def opExplore (j : Json) : Except String Json := do
  let ps := (← (← jarr j "procs").mapM procOfJson).toArray
  let maxStates := (jnat j "max").toOption.getD 200000
  let wantSched := (jbool j "schedules").toOption.getD true
  let sig := (jbool j "signals").toOption.getD false
  let n := ps.size
  let g := buildGraph ps maxStates sig
  let mut edges : Nat := 0
  let mut viol : Nat := 0
  let mut residue : Nat := 0
  let mut quiescent : Nat := 0
  let mut holders2 : Nat := 0
  let mut violEx : Option (List Nat) := none
  let mut residueEx : Option (List Nat) := none
  for u in [0:g.snaps.size] do
    let x := g.snaps[u]!
    edges := edges + ((g.succ[u]!).filter (·.isSome)).size
    let s := snapSt ps x
    if !(violators n s).isEmpty then
      viol := viol + 1
      if violEx.isNone then violEx := some (pathTo g u)
    if (x.pcs.filter (· == .hold)).length ≥ 2 then holders2 := holders2 + 1
    if x.pcs.all (fun pc => !engaged pc) then
      quiescent := quiescent + 1
      if x.dir || !x.files.isEmpty then
        residue := residue + 1
        if residueEx.isNone then residueEx := some (pathTo g u)
  let scheds := if wantSched then pathCover g g.nev else #[]
  let ints := fun (l : List Nat) => toJson (l.map (evToInt n))
  pure (Json.mkObj [
    ("full", g.full), ("states", g.snaps.size), ("edges", edges), ("violating", viol),
    ("quiescent", quiescent), ("residue", residue), ("two_holders", holders2),
    ("violating_example", match violEx with | some l => ints l | none => Json.null),
    ("residue_example", match residueEx with | some l => ints l | none => Json.null),
    ("schedules", Json.arr (scheds.map fun l => ints l))])

/-! ### several stacks -/

structure PProc where
  base     : Proc
  path     : List Dir
  explicit : Bool

def pprocOfJson (j : Json) : Except String PProc := do
  let base ← procOfJson j
  let path ← (← jarr j "path").mapM fun v => v.getNat?
  let explicit := (jbool j "explicit").toOption.getD true
  pure { base, path, explicit }

def outStr : Out → String
  | .done => "done" | .failedAcq e => "failed:" ++ errStr e | .failedRel e => "failed_release:" ++ errStr e
  | .killed => "killed"

def ctlStr (S : PSt) (i : Pid) : String :=
  match S.ctl i with
  | .body n _ => if n = 0 then "unlocked" else "locked"
  | .fin o => outStr o
  | _ => let (_, c, _) := mobs S i; "pending:" ++ callStr c

/-- violating pairs of `MutexM` among pids `< n` over stacks `< nd` -/
def mviolators (n nd : Nat) (S : PSt) : List (Pid × Pid) :=
  ((List.range n).flatMap fun p => (List.range n).filterMap fun q =>
    if p != q && inBodyM (S.ctl p) && inBodyM (S.ctl q) &&
       (List.range nd).any (fun d => !decide (related (S.comp d) p q) && (S.path p).contains d && (S.path q).contains d &&
          (S.comp d).pc p == .hold && (S.comp d).kind p == .ex)
    then some (p, q) else none)

def opRunPath (j : Json) : Except String Json := do
  let ps := (← (← jarr j "procs").mapM pprocOfJson).toArray
  let sched ← (← jarr j "sched").mapM fun v => v.getInt?
  let nd ← jnat j "ndirs"
  let n := ps.size
  let base := ps.map (·.base)
  let mut S := minit (kindOf base) (lpOf base) (triesOf base)
    (fun i => match ps[i]? with | some p => p.path | none => [])
    (fun i => match ps[i]? with | some p => p.explicit | none => true)
  let mut steps : Array Json := #[]
  for e in sched do
    let i := if e ≥ 0 then e.toNat else (-e - 1).toNat
    if i ≥ n then throw s!"pid {i} out of range"
    let (cs, rs) :=
      if e ≥ 0 then
        (let (d, c, r) := mobs S i
         (match d with | some d => callStr c ++ "@" ++ toString d | none => callStr c, resStr r))
      else ("signal", if inBodyM (S.ctl i) || (match S.ctl i with
                          | .acq k => atRestAcq S i k
                          | .rel j _ _ o => o != .killed && (match (S.path i)[j]? with | some d => (S.comp d).pc i == .hold | none => false)
                          | _ => false)
                      then "delivered" else "ignored")
    S := if e ≥ 0 then mstep S i else mintr S i
    let v := mviolators n nd S
    steps := steps.push (Json.arr #[toJson i, cs, rs,
      Json.arr (v.map fun (a, b) => Json.arr #[toJson a, toJson b]).toArray])
  let listing := (List.range nd).map fun d =>
    let s := S.comp d
    Json.arr ((if s.dir then [Json.str ".lockDir"] else []) ++ (s.files.map fun f => Json.str (fileStr f))).toArray
  pure (Json.mkObj [
    ("steps", Json.arr steps),
    ("pcs", Json.arr ((List.range n).map fun i => Json.str (ctlStr S i)).toArray),
    ("held", Json.arr ((List.range n).map fun i =>
      match S.ctl i with
      | .body k _ => toJson ((S.path i).take k)
      | _ => Json.null).toArray),
    ("listing", Json.arr listing.toArray)])

/-! ### the lock bracket of the command line -/

open EupsModel.LockCmd in
def cmdName : Cmd → String
  | .flavor => "flavor" | .path => "path" | .startup => "startup" | .pkgroot => "pkgroot" | .flags => "flags"
  | .list => "list" | .pkgConfig => "pkg-config" | .uses => "uses" | .expandbuild => "expandbuild"
  | .expandtable => "expandtable" | .declare => "declare" | .undeclare => "undeclare" | .remove => "remove"
  | .admin => "admin" | .adminBuildCache => "admin buildCache" | .adminClearCache => "admin clearCache"
  | .adminClearServerCache => "admin clearServerCache" | .adminClearLocks => "admin clearLocks"
  | .adminListLocks => "admin listLocks" | .adminListCache => "admin listCache" | .adminInfo => "admin info"
  | .adminShow => "admin show" | .distrib => "distrib" | .distribClean => "distrib clean"
  | .distribCreate => "distrib create" | .distribDeclare => "distrib declare" | .distribInstall => "distrib install"
  | .distribList => "distrib list" | .distribPath => "distrib path" | .distribTags => "distrib tags"
  | .tags => "tags" | .vro => "vro" | .help => "help" | .setup => "setup"

def kindJson : Option Kind → Json
  | some k => Json.str (kindStr k)
  | none => Json.null

def opCmdTable (_ : Json) : Except String Json :=
  pure (Json.arr (LockCmd.Cmd.all.map fun c => Json.mkObj [
    ("name", cmdName c), ("lock", kindJson (LockCmd.lockType c)), ("updates", LockCmd.updates c),
    ("explicit", LockCmd.explicitRelease c), ("sub", LockCmd.isSub c)]).toArray)

def opCmdLine (j : Json) : Except String Json := do
  let nm ← (← j.getObjVal? "cmd").getStr?
  let c ← match LockCmd.Cmd.all.find? (fun c => cmdName c == nm) with
    | some c => pure c
    | none => throw s!"unknown command {nm}"
  let o : LockCmd.Opts := { help := (jbool j "help").toOption.getD false,
                            nolocks := (jbool j "nolocks").toOption.getD false,
                            enabled := (jbool j "enabled").toOption.getD true }
  let env ← (← jarr j "env_path").mapM fun v => v.getNat?
  let z ← match j.getObjVal? "Z" with
    | .ok (Json.arr a) => do pure (some (← a.toList.mapM fun v => v.getNat?))
    | _ => pure none
  let zz ← match j.getObjVal? "z" with
    | .ok Json.null => pure none
    | .ok v => do pure (some (← v.getNat?))
    | .error _ => pure none
  let k := LockCmd.bracket c o
  pure (Json.mkObj [
    ("kind", kindJson k),
    ("stacks", toJson (match k with | some _ => LockCmd.lockedStacks env z zz | none => [])),
    ("explicit", LockCmd.explicitRelease c), ("updates", LockCmd.updates c)])

def handle : Handler := fun j => do
  let op ← (← j.getObjVal? "op").getStr?
  match op with
  | "run" => opRun j
  | "explore" => opExplore j
  | "runpath" => opRunPath j
  | "cmdtable" => opCmdTable j
  | "cmdline" => opCmdLine j
  | "pinned_run" => C09Pinned.opRun j
  | "pinned_explore" => C09Pinned.opExplore j
  | "pinned_runpath" => C09Pinned.opRunPath j
  | "pinned_racefree" => C09Pinned.opRaceFree j
  | _ => throw s!"unknown op {op}"

end EupsModel.Drv.C09
