import EupsModel.Drv.Util
namespace EupsModel.Drv.C09
open Lean EupsModel EupsModel.Drv
/-- placeholder until the C09 model exists -/
def handle : Handler := fun _ => throw "model C09 not built"
end EupsModel.Drv.C09
