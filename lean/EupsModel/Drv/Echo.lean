import EupsModel.Drv.Util
namespace EupsModel.Drv.Echo
open Lean EupsModel.Drv
/-- Self-test of the bridge: returns the lower-cased string and its length in code points. -/
def handle : Handler := fun j => do
  let s ← jstr j "s"
  pure (Json.mkObj [("lower", ofStr (Str.lower s)), ("len", Json.num s.length)])
end EupsModel.Drv.Echo
