import EupsModel.Drv.Util
namespace EupsModel.Drv.C16
open Lean EupsModel EupsModel.Drv
/-- placeholder until the C16 model exists -/
def handle : Handler := fun _ => throw "model C16 not built"
end EupsModel.Drv.C16
