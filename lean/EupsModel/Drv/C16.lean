import EupsModel.Drv.Util
import EupsModel.Model.Record
namespace EupsModel.Drv.C16
open Lean EupsModel EupsModel.Drv EupsModel.Record

def errName : Err → String
  | .unexpectedLine => "UnexpectedLine" | .badFile => "BadFile" | .keyError => "KeyError"
  | .typeError => "TypeError" | .noMatch => "NoMatch" | .notFound => "NotFound"
  | .unbound => "Unbound" | .unmodelled => "unmodelled"

def errJson (e : Err) : Json := Json.mkObj [("err", Json.str (errName e))]

def fldToJson (k : String) : Fld → List (String × Json)
  | .absent => []
  | .pyNone => [(k, Json.null)]
  | .val s => [(k, ofStr s)]

def fldOfJson (j : Json) (k : String) : Except String Fld :=
  match j.getObjVal? k with
  | .error _ => pure .absent
  | .ok Json.null => pure .pyNone
  | .ok v => do pure (.val (Str.ofString (← v.getStr?)))

def infoToJson (i : Info) : Json :=
  Json.mkObj (fldToJson "declarer" i.declarer ++ fldToJson "declared" i.declared ++
    fldToJson "modifier" i.modifier ++ fldToJson "modified" i.modified ++
    fldToJson "productDir" i.productDir ++ fldToJson "ups_dir" i.upsDir ++ fldToJson "table_file" i.tableFile)

def infoOfJson (j : Json) : Except String Info := do
  pure { declarer := ← fldOfJson j "declarer", declared := ← fldOfJson j "declared",
         modifier := ← fldOfJson j "modifier", modified := ← fldOfJson j "modified",
         productDir := ← fldOfJson j "productDir", upsDir := ← fldOfJson j "ups_dir",
         tableFile := ← fldOfJson j "table_file" }

def cinfoToJson (i : CInfo) : Json :=
  Json.mkObj (fldToJson "version" i.version ++ fldToJson "declarer" i.declarer ++ fldToJson "declared" i.declared ++
    fldToJson "modifier" i.modifier ++ fldToJson "modified" i.modified)

def cinfoOfJson (j : Json) : Except String CInfo := do
  pure { version := ← fldOfJson j "version", declarer := ← fldOfJson j "declarer", declared := ← fldOfJson j "declared",
         modifier := ← fldOfJson j "modifier", modified := ← fldOfJson j "modified" }

def flavorsToJson {α : Type} (f : α → Json) (l : List (Str × α)) : Json :=
  Json.arr (l.map fun (k, v) => Json.arr #[ofStr k, f v]).toArray

def flavorsOfJson {α : Type} (f : Json → Except String α) (j : Json) : Except String (List (Str × α)) := do
  (← j.getArr?).toList.mapM fun e => do
    let a ← e.getArr?
    match a.toList with
    | [k, v] => pure (Str.ofString (← k.getStr?), ← f v)
    | _ => throw "flavor entry"

def vrecToJson (r : VRec) : Json :=
  Json.mkObj [("name", ofStrOpt r.name), ("version", ofStrOpt r.version), ("flavors", flavorsToJson infoToJson r.flavors)]

def vrecOfJson (j : Json) : Except String VRec := do
  pure { name := ← jstrOpt j "name", version := ← jstrOpt j "version",
         flavors := ← flavorsOfJson infoOfJson (← j.getObjVal? "flavors") }

def crecToJson (r : CRec) : Json :=
  Json.mkObj [("name", ofStrOpt r.name), ("tag", ofStrOpt r.tag), ("flavors", flavorsToJson cinfoToJson r.flavors)]

def crecOfJson (j : Json) : Except String CRec := do
  pure { name := ← jstrOpt j "name", tag := ← jstrOpt j "tag",
         flavors := ← flavorsOfJson cinfoOfJson (← j.getObjVal? "flavors") }

def pvalOfJson (j : Json) (k : String) : Except String PVal := do
  pure (PVal.ofOpt (← jstrOpt j k))

def pvalToJson (v : PVal) : Json := ofStrOpt v.toStr

def prodOfJson (j : Json) : Except String Prod := do
  pure { name := ← jstr j "name", version := ← jstr j "version", flavor := ← jstr j "flavor",
         dir := ← pvalOfJson j "dir", table := ← pvalOfJson j "table", upsDir := ← pvalOfJson j "ups_dir",
         db := Path.ofStr (← jstr j "db") }

def prodToJson (p : Prod) : Json :=
  Json.mkObj [("name", ofStr p.name), ("version", ofStr p.version), ("flavor", ofStr p.flavor),
    ("dir", pvalToJson p.dir), ("table", pvalToJson p.table), ("ups_dir", pvalToJson p.upsDir),
    ("db", ofStr p.db.toStr), ("extra", ofStr (extraDir p).toStr)]

def exOfJson (j : Json) : Except String (Path → Bool) := do
  let l := (← jstrs j "ex").map Path.ofStr
  pure fun p => l.contains p

def optText : Option Str → Json
  | none => Json.null
  | some s => ofStr s

def segsOfJson (j : Json) (k : String) : Except String (List Str) := do
  pure (Path.ofStr (← jstr j k)).segs

def dirPlOfJson (j : Json) : Except String DirPl := do
  match ← (← j.getObjVal? "kind").getStr? with
  | "inside" => pure (.inside (← segsOfJson j "rel"))
  | "outside" => pure (.outside (← segsOfJson j "path"))
  | "none" => pure .none
  | k => throw s!"dir placement {k}"

def tabPlOfJson (j : Json) : Except String TabPl := do
  match ← (← j.getObjVal? "kind").getStr? with
  | "ups" => pure .inUps
  | "abs_inside" => pure (.absInside (← segsOfJson j "rel"))
  | "abs_outside" => pure (.absOutside (← segsOfJson j "path"))
  | "interned" => pure .interned
  | "none" => pure .none
  | k => throw s!"table placement {k}"

/-- Requests `{"m":"c16","op":...}`:
* `vparse {name?,version?,text}` / `cparse {name?,tag?,text}` → `{"rec":…}` or `{"err":…}`
* `vprint {rec}` / `cprint {rec}` → `{"text": string|null}` or `{"err":…}`
* `declare {prod, ex, who, now, old_text|null}` → the version record after `Database.declare` and its text
* `resolve {text, name, version, flavor, db, ex}` → the product a reader of that text builds
* `resolveprod {prod, ex}` → `Product(...).resolvePaths()` (what `ProductStack.addProduct` caches)
* `glue {root, name, version, flavor, dir:{kind,..}, table:{kind,..}}` → the Product `Eups.declare` builds, and
  the locations a reader at `new_root` must report
* `dbop {name, versions:[[v,text]..], chains:[[tag,text]..], dbop:{kind: undeclare|unassign|assign|retag, flavor, version?, tag?, who?, now?}}`
  → the texts of the product's records after `Database.undeclare / unassignTag / assignTag`
* `chainset {old_text|null, name, tag, flavor, version, who, now}` / `chainremove {old_text, name, tag, flavor}` -/
def handle : Handler := fun j => do
  let op ← (← j.getObjVal? "op").getStr?
  match op with
  | "vparse" =>
    match parseVersion (← jstrOpt j "name") (← jstrOpt j "version") (← jstr j "text") with
    | .ok r => pure (Json.mkObj [("rec", vrecToJson r)])
    | .error e => pure (errJson e)
  | "cparse" =>
    match parseChain (← jstrOpt j "name") (← jstrOpt j "tag") (← jstr j "text") with
    | .ok r => pure (Json.mkObj [("rec", crecToJson r)])
    | .error e => pure (errJson e)
  | "vprint" =>
    match printVersion (← vrecOfJson (← j.getObjVal? "rec")) with
    | .ok t => pure (Json.mkObj [("text", optText t)])
    | .error e => pure (errJson e)
  | "cprint" =>
    match printChain (← crecOfJson (← j.getObjVal? "rec")) with
    | .ok t => pure (Json.mkObj [("text", optText t)])
    | .error e => pure (errJson e)
  | "declare" =>
    let p ← prodOfJson (← j.getObjVal? "prod")
    let ex ← exOfJson j
    let old : Except Err VRec := match ← jstrOpt j "old_text" with
      | some t => parseVersion (some p.name) (some p.version) t
      | none => .ok { name := some p.name, version := some p.version, flavors := [] }
    match old with
    | .error e => pure (errJson e)
    | .ok vr =>
      -- "links": [[link, target], ...]: the symbolic links of the tree (os.path.realpath in VersionFile.write)
      let links : List (Path × Path) ← match j.getObjVal? "links" with
        | .ok l => (← l.getArr?).toList.mapM fun e => do
            match (← e.getArr?).toList with
            | [a, b] => pure (Path.ofStr (Str.ofString (← a.getStr?)), Path.ofStr (Str.ofString (← b.getStr?)))
            | _ => throw "link entry"
        | .error _ => pure []
      match declareRecR (realOf links) ex (← jstr j "who") (← jstr j "now") vr p with
      | .error e => pure (errJson e)
      | .ok r =>
        match printVersion r with
        | .ok t => pure (Json.mkObj [("rec", vrecToJson r), ("text", optText t)])
        | .error e => pure (errJson e)
  | "resolve" =>
    let ex ← exOfJson j
    match parseVersion (← jstrOpt j "name") (← jstrOpt j "version") (← jstr j "text") with
    | .error e => pure (errJson e)
    | .ok vr =>
      match makeProduct ex vr (← jstr j "flavor") (Path.ofStr (← jstr j "db")) with
      | .ok p =>
        -- what the cache holds: `ProductStack.addProduct` clones the product and resolves it once more
        let again : Json := match resolvePaths ex (p.init ex) with
          | .ok p2 => prodToJson p2
          | .error e => errJson e
        pure (Json.mkObj [("prod", prodToJson p), ("cached", again)])
      | .error e => pure (errJson e)
  | "resolveprod" =>
    let ex ← exOfJson j
    let p ← prodOfJson (← j.getObjVal? "prod")
    match resolvePaths ex (p.init ex) with
    | .ok p => pure (Json.mkObj [("prod", prodToJson p)])
    | .error e => pure (errJson e)
  | "glue" =>
    let root ← segsOfJson j "root"
    let name ← jstr j "name"; let version ← jstr j "version"; let flavor ← jstr j "flavor"
    let d ← dirPlOfJson (← j.getObjVal? "dir")
    let t ← tabPlOfJson (← j.getObjVal? "table")
    let newRoot ← segsOfJson j "new_root"
    pure (Json.mkObj [("prod", prodToJson (declaredProd root name version flavor d t)),
      ("want_dir", pvalToJson (d.at newRoot)), ("want_table", pvalToJson (t.at newRoot name version flavor d))])
  | "chainset" =>
    let name ← jstr j "name"; let tag ← jstr j "tag"
    let old : Except Err CRec := match ← jstrOpt j "old_text" with
      | some t => parseChain (some name) (some tag) t
      | none => .ok { name := some name, tag := some tag, flavors := [] }
    match old with
    | .error e => pure (errJson e)
    | .ok cr =>
      let r := cr.setVersion (← jstr j "flavor") (← jstr j "version") (← jstr j "who") (← jstr j "now")
      match printChain r with
      | .ok t => pure (Json.mkObj [("rec", crecToJson r), ("text", optText t)])
      | .error e => pure (errJson e)
  | "chainremove" =>
    let name ← jstr j "name"; let tag ← jstr j "tag"
    match parseChain (some name) (some tag) (← jstr j "old_text") with
    | .error e => pure (errJson e)
    | .ok cr =>
      let r := cr.removeVersion (← jstr j "flavor")
      match printChain r with
      | .ok t => pure (Json.mkObj [("rec", crecToJson r), ("text", optText t)])
      | .error e => pure (errJson e)
  | "dbop" =>
    -- the records of one product directory as texts; one database-layer operation; the texts afterwards
    let parseAll {α : Type} (f : Str → Except Err α) (k : String) : Except String (Except Err (List (Str × α))) := do
      let items ← jarr j k
      let mut out : List (Str × α) := []
      for e in items do
        match (← e.getArr?).toList with
        | [n, t] =>
          match f (Str.ofString (← t.getStr?)) with
          | .ok r => out := out ++ [(Str.ofString (← n.getStr?), r)]
          | .error er => return .error er
        | _ => throw "record entry"
      return .ok out
    match ← parseAll (parseVersion none none) "versions", ← parseAll (parseChain none none) "chains" with
    | .error e, _ => pure (errJson e)
    | _, .error e => pure (errJson e)
    | .ok vs, .ok cs =>
      let d : PDir := { versions := vs, chains := cs }
      let o ← j.getObjVal? "dbop"
      let kind ← (← o.getObjVal? "kind").getStr?
      let flavor ← jstr o "flavor"
      let d' ← match kind with
        | "undeclare" => pure (d.undeclare (← jstr o "version") flavor)
        | "unassign" => pure (d.unassignTag (← jstr o "tag") flavor)
        | "assign" => pure (d.assignTag (← jstr j "name") (← jstr o "tag") (← jstr o "version") flavor (← jstr o "who") (← jstr o "now"))
        | "retag" => pure ((d.unassignTag (← jstr o "tag") flavor).assignTag (← jstr j "name") (← jstr o "tag")
                            (← jstr o "version") flavor (← jstr o "who") (← jstr o "now"))
        | k => throw s!"dbop {k}"
      let vt := d'.versions.map fun (n, r) => match printVersion r with
        | .ok (some t) => Json.arr #[ofStr n, ofStr t]
        | .ok none => Json.arr #[ofStr n, Json.null]
        | .error e => Json.arr #[ofStr n, errJson e]
      let ct := d'.chains.map fun (n, r) => match printChain r with
        | .ok (some t) => Json.arr #[ofStr n, ofStr t]
        | .ok none => Json.arr #[ofStr n, Json.null]
        | .error e => Json.arr #[ofStr n, errJson e]
      pure (Json.mkObj [("versions", Json.arr vt.toArray), ("chains", Json.arr ct.toArray)])
  | _ => throw s!"unknown op {op}"

end EupsModel.Drv.C16
