import EupsModel.Drv.Util
namespace EupsModel.Drv.C04
open Lean EupsModel EupsModel.Drv
/-- placeholder until the C04 model exists -/
def handle : Handler := fun _ => throw "model C04 not built"
end EupsModel.Drv.C04
