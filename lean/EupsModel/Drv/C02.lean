import EupsModel.Drv.C01
namespace EupsModel.Drv.C02
open Lean EupsModel EupsModel.Drv
/-- C02 shares the setup model with C01: same ops ("setup", "unsetup"), same request format. -/
def handle : Handler := C01.handle
end EupsModel.Drv.C02
