import EupsModel.Drv.Util
namespace EupsModel.Drv.C02
open Lean EupsModel EupsModel.Drv
/-- placeholder until the C02 model exists -/
def handle : Handler := fun _ => throw "model C02 not built"
end EupsModel.Drv.C02
