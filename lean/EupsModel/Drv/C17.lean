import EupsModel.Drv.Util
namespace EupsModel.Drv.C17
open Lean EupsModel EupsModel.Drv
/-- placeholder until the C17 model exists -/
def handle : Handler := fun _ => throw "model C17 not built"
end EupsModel.Drv.C17
