import EupsModel.Drv.Util
import EupsModel.Model.Expand
import EupsModel.Model.ExpandTable
namespace EupsModel.Drv.C17
open Lean EupsModel EupsModel.Drv EupsModel.Expand

def pairs (j : Json) (k : String) : Except String (List (Str × Str)) := do
  (← jarr j k).mapM fun p => do
    match (← p.getArr?).toList with
    | [a, b] => pure (Str.ofString (← a.getStr?), Str.ofString (← b.getStr?))
    | _ => throw s!"{k}: expected [name, version]"

def depsOf (j : Json) : Except String (List ((Str × Str) × Option (List Dep))) := do
  (← jarr j "deps").mapM fun e => do
    match (← e.getArr?).toList with
    | [n, v, r] =>
      let key := (Str.ofString (← n.getStr?), Str.ofString (← v.getStr?))
      match r with
      | Json.null => pure (key, none)
      | _ =>
        let l ← (← r.getArr?).toList.mapM fun d => do
          match (← d.getArr?).toList with
          | [dn, dv, dopt] => pure (Dep.mk (Str.ofString (← dn.getStr?)) (Str.ofString (← dv.getStr?)) (← dopt.getBool?))
          | _ => throw "deps: expected [name, version, optional]"
        pure (key, some l)
    | _ => throw "deps: expected [name, version, null | list]"

/-- a line as Python's file iteration yields it: no newline except possibly as last character -/
def wellFormedLine (l : Str) : Bool := !(l.dropLast.contains 10)

def errName : Err → String
  | .flagNeedsArg => "FlagNeedsArg"
  | .badRelop => "BadRelop"
  | .notSetup => "NotSetup"
  | .depsRaised => "DepsRaised"
  | .indexError => "IndexError"
  | .missingAnswer => "MissingAnswer"

def kindName : LKind → String
  | .blank => "blank" | .setup => "setup" | .other => "other"

def itemJson : Item → Json
  | .orig ind k t => Json.mkObj [("t", "orig"), ("ind", Json.num ind), ("kind", kindName k), ("text", ofStr t)]
  | .gen ind t => Json.mkObj [("t", "gen"), ("ind", Json.num ind), ("text", ofStr t)]
  | .pin ind opt n v => Json.mkObj [("t", "pin"), ("ind", Json.num ind), ("optional", opt), ("name", ofStr n), ("version", ofStr v)]
  | .fin t => Json.mkObj [("t", "fin"), ("text", ofStr t)]

def extraJson : TableParse.Extra → Json
  | .none => Json.mkObj []
  | .optional b => Json.mkObj [("optional", b)]
  | .append b => Json.mkObj [("append", b)]
  | .implicit => Json.mkObj [("optional", true), ("silent", true)]

def actionJson (a : TableParse.Action) : Json :=
  Json.mkObj [("cmd", ofStr a.cmd), ("args", ofStrs a.args), ("extra", extraJson a.extra)]

/-- the expanded table read by the model of the table reader in exact mode (`C17_exact_actions_text`): the hypotheses
`itemOK` / `inertItem` evaluated on the items, the action list composed from the items (`exactActs`) and the one the
reader's model computes from the text itself -/
def exactJson (flavor : Str) (A : Answers) (o : Opts) (lines : List Str) (items : List Item) : Json :=
  let env : Cond.Env := ⟨flavor, [ExpandTable.sExactW]⟩
  let directR := TableParse.tableActions TableParse.repaired none env (ExpandTable.expandedText items true)
  let direct := match directR with
    | .ok acts => Json.arr (acts.map actionJson).toArray
    | .err _ => Json.str "error"
    | .fuel => Json.str "fuel"
  -- `toPin` (= Action.processArgs on a pin action) on every setup command of that list: [optional, product, version] or null
  let pins := match directR with
    | .ok acts => Json.arr ((acts.filter fun a => a.cmd == TableParse.Cmd.setupRequired.name).map fun a =>
        match ExpandTable.toPin a with
        | some (opt, n, v) => Json.arr #[Json.bool opt, ofStr n, ofStr v]
        | none => Json.null).toArray
    | _ => Json.null
  -- inexact mode (setup type `build`): C17_inexact_actions_text
  let envB : Cond.Env := ⟨flavor, [Str.ofString "build"]⟩
  let directB := match TableParse.tableActions TableParse.repaired none envB (ExpandTable.expandedText items true) with
    | .ok acts => Json.arr (acts.map actionJson).toArray
    | .err _ => Json.str "error"
    | .fuel => Json.str "fuel"
  let composed2 := match ExpandTable.expandParts A o lines with
    | .ok p => Json.arr ((C11Spec.denoteTable env (C11Spec.tableAbs (ExpandTable.tableOf none p))).map actionJson).toArray
    | .error _ => Json.null
  Json.mkObj [("itemOK", items.all (ExpandTable.itemOK none)), ("inert", items.all (ExpandTable.inertItem none)),
              ("flavorOK", C11Spec.flavorOK flavor),
              ("acts", Json.arr ((items.flatMap (ExpandTable.exactActs none)).map actionJson).toArray),
              -- C17_exact_actions_blocks: non-setup lines grouped into lines and `if` chains (checked grouping)
              ("blocksOK", ExpandTable.expandOK2 none A o lines), ("inert2", ExpandTable.expandInert2 none env A o lines),
              ("composed2", composed2),
              ("pins", pins), ("direct", direct), ("direct_build", directB),
              ("acts_build", Json.arr ((items.flatMap (ExpandTable.inexactActs none)).map actionJson).toArray)]

/-- `{"m":"c17","op":"expand","lines":[..],"pins":[[n,v]..],"toplevel":s|null,"force":b,"expandVersions":b,
"addExactBlock":b,"recurse":b,"spv":[[n,v]..],"sv":[[n,v]..],"deps":[[n,v,null|[[n,v,opt]..]]..]}` →
`{"out":"ok","lines":[..],"items":[..]}` or `{"out":"error","err":kind}`.
`{"m":"c17","op":"classify","lines":[..]}` → per line: blank / setup / other after comment stripping (no substitution). -/
def handle : Handler := fun j => do
  let op := match j.getObjVal? "op" >>= Json.getStr? with
    | .ok s => s
    | .error _ => "expand"
  let lines ← jstrs j "lines"
  if !lines.all wellFormedLine then throw "a line contains an interior newline"
  match op with
  | "classify" =>
    pure (Json.mkObj [("kinds", Json.arr (lines.map fun l =>
      if isBlankOrComment l then Json.str "blank"
      else match searchRex (stripComment l) with
        | some m => Json.mkObj [("optional", m.optional), ("args", ofStr m.args), ("len", Json.num m.len), ("unsetup", m.unsetup)]
        | none => Json.str "other").toArray)])
  | "re" =>
    -- the hand-translated regular expressions and string helpers, one answer per line, for the differential test against `re`
    pure (Json.mkObj [("res", Json.arr (lines.map fun l =>
      Json.mkObj [("blank", isBlankOrComment l), ("nocomment", ofStr (stripComment l)),
        ("rex", match searchRex l with
          | some m => Json.mkObj [("optional", m.optional), ("args", ofStr m.args), ("len", Json.num m.len), ("unsetup", m.unsetup)]
          | none => Json.null),
        ("preExact", preExactRe l), ("openBrace", endsWithOpenBrace l), ("closeBrace", isCloseBrace l),
        ("split", ofStrs (splitWs l)), ("strip", ofStr (strip l)), ("relop", hasRelop l),
        ("badrelop", badRelop l), ("first", ofStr (firstField l)), ("bracket", ofStrs (splitBracket l)),
        ("external", contains sExternal l)]).toArray)])
  | "setupversion" =>
    -- `{"recognised":[tag..], "lines":[], "cases":[{"recorded":s, "declared":b, "tagged":s|null}..]}` → the version reported
    let recognised ← jstrs j "recognised"
    let cases ← jarr j "cases"
    let vs ← cases.mapM fun c => do
      let recorded ← jstr c "recorded"
      let declared ← jbool c "declared"
      let tagged ← jstrOpt c "tagged"
      pure (ofStr (setupVersion recognised (fun _ => declared) (fun _ => tagged) recorded))
    pure (Json.mkObj [("versions", Json.arr vs.toArray)])
  | "expand" =>
    let pins ← pairs j "pins"
    let spv ← pairs j "spv"
    let sv ← pairs j "sv"
    let deps ← depsOf j
    let D : AnswerData := { pins := pins, spv := spv, sv := sv, deps := deps }
    let A : Answers := D.toAnswers
    let o : Opts := { force := ← jbool j "force", expandVersions := ← jbool j "expandVersions",
                      addExactBlock := ← jbool j "addExactBlock", recurse := ← jbool j "recurse",
                      toplevel := ← jstrOpt j "toplevel" }
    match expandItems A o lines with
    | .error .missingAnswer => throw "missing answer: the request lacks a deps entry the model consulted"
    | .error e => pure (Json.mkObj [("out", "error"), ("err", errName e)])
    | .ok items =>
      pure (Json.mkObj [("out", "ok"), ("lines", ofStrs (items.map renderItem)),
                        ("items", Json.arr (items.map itemJson).toArray),
                        -- the hypotheses of C17_exact_reproduces_partial evaluated on these answers
                        ("hyps", Json.mkObj [("depsSound", D.depsSound), ("pinsAgree", D.pinsAgree),
                                             ("covered", D.covered o lines), ("noExactLine", noExactLine A o lines)]),
                        -- with "flavor": the expanded table read in exact mode (C17_exact_actions_text)
                        ("exact", match jstr j "flavor" with
                          | .ok fl => exactJson fl A o lines items
                          | .error _ => Json.null)])
  | _ => throw s!"unknown op {op}"

end EupsModel.Drv.C17
