import Lean.Data.Json
import EupsModel.Model.Str
/-! Helpers shared by the driver handlers (JSON <-> model values).  Not part of any proof. -/
namespace EupsModel.Drv
open Lean

def jstr (j : Json) (k : String) : Except String Str := do
  let s ← (← j.getObjVal? k).getStr?
  pure (Str.ofString s)

def jstrOpt (j : Json) (k : String) : Except String (Option Str) :=
  match j.getObjVal? k with
  | .ok Json.null => pure none
  | .ok v => do pure (some (Str.ofString (← v.getStr?)))
  | .error _ => pure none

def jbool (j : Json) (k : String) : Except String Bool := do (← j.getObjVal? k).getBool?
def jnat (j : Json) (k : String) : Except String Nat := do (← j.getObjVal? k).getNat?
def jint (j : Json) (k : String) : Except String Int := do (← j.getObjVal? k).getInt?
def jarr (j : Json) (k : String) : Except String (List Json) := do
  pure (← (← j.getObjVal? k).getArr?).toList
def jstrs (j : Json) (k : String) : Except String (List Str) := do
  (← jarr j k).mapM fun v => do pure (Str.ofString (← v.getStr?))

def ofStr (s : Str) : Json := Json.str (Str.toString s)
def ofStrs (l : List Str) : Json := Json.arr (l.map ofStr).toArray
def ofStrOpt : Option Str → Json
  | none => Json.null
  | some s => ofStr s

abbrev Handler := Json → Except String Json

end EupsModel.Drv
