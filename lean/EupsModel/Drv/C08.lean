import EupsModel.Drv.Util
namespace EupsModel.Drv.C08
open Lean EupsModel EupsModel.Drv
/-- placeholder until the C08 model exists -/
def handle : Handler := fun _ => throw "model C08 not built"
end EupsModel.Drv.C08
