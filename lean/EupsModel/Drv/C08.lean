import EupsModel.Drv.Util
import EupsModel.Model.FsEff
import EupsModel.Model.FsTab
import EupsModel.Model.FsCache
namespace EupsModel.Drv.C08
open Lean EupsModel EupsModel.Drv EupsModel.FsEff

def natOf (j : Json) : Except String Nat := j.getNat?
def jn (n : Nat) : Json := Json.num n

def rpathOfList : List Json → Except String RPath
  | [k, p, x] => do
    match ← k.getStr? with
    | "v" => pure (.vfile (← natOf p) (← natOf x))
    | "c" => pure (.cfile (← natOf p) (← natOf x))
    | s => throw s!"record kind {s}"
  | _ => throw "record path"

/-- `["main"|"tmp", "v"|"c", p, x]` or `["stale", "v"|"c", p, x, i]` -/
def fpathOfJson (j : Json) : Except String FPath := do
  match (← j.getArr?).toList with
  | k :: rest =>
    match ← k.getStr? with
    | "main" => pure (.main (← rpathOfList rest))
    | "tmp" => pure (.tmp (← rpathOfList rest))
    | "stale" =>
      match rest with
      | [a, b, c, i] => pure (.stale (← rpathOfList [a, b, c]) (← natOf i))
      | _ => throw "stale path"
    | s => throw s!"path kind {s}"
  | [] => throw "empty path"

def rpathToList : RPath → List Json
  | .vfile p v => [Json.str "v", jn p, jn v]
  | .cfile p t => [Json.str "c", jn p, jn t]

def fpathToJson : FPath → Json
  | .main r => Json.arr (Json.str "main" :: rpathToList r).toArray
  | .tmp r => Json.arr (Json.str "tmp" :: rpathToList r).toArray
  | .stale r i => Json.arr (Json.str "stale" :: rpathToList r ++ [jn i]).toArray

def contentOfJson (j : Json) : Except String FileC := do
  match j with
  | Json.str "empty" => pure .empty
  | Json.str "part" => pure .part
  | _ =>
    match j.getObjVal? "ver" with
    | .ok a =>
      let es ← (← a.getArr?).toList.mapM fun e => do
        match (← e.getArr?).toList with
        | [f, m] => pure ({ flavor := ← natOf f, modified := ← m.getBool? } : VEntry)
        | _ => throw "ver entry"
      pure (.complete (.ver es))
    | .error _ =>
      let a ← j.getObjVal? "chain"
      let es ← (← a.getArr?).toList.mapM fun e => do
        match (← e.getArr?).toList with
        | [f, v, m] => pure ({ flavor := ← natOf f, version := ← natOf v, modified := ← m.getBool? } : CEntry)
        | _ => throw "chain entry"
      pure (.complete (.chain es))

def contentToJson : FileC → Json
  | .empty => Json.str "empty"
  | .part => Json.str "part"
  | .complete (.ver es) => Json.mkObj [("ver", Json.arr (es.map fun e => Json.arr #[jn e.flavor, Json.bool e.modified]).toArray)]
  | .complete (.chain es) =>
    Json.mkObj [("chain", Json.arr (es.map fun e => Json.arr #[jn e.flavor, jn e.version, Json.bool e.modified]).toArray)]

def fsOfJson (j : Json) : Except String Fs := do
  let dirs ← (← jarr j "dirs").mapM natOf
  let files ← (← jarr j "files").mapM fun e => do
    match (← e.getArr?).toList with
    | [p, c] => pure (← fpathOfJson p, ← contentOfJson c)
    | _ => throw "file entry"
  pure { dirs := dirs, files := files }

def fsToJson (fs : Fs) : Json :=
  Json.mkObj [("dirs", Json.arr (fs.dirs.map jn).toArray),
    ("files", Json.arr (fs.files.map fun (p, c) => Json.arr #[fpathToJson p, contentToJson c]).toArray)]

def optNat (j : Json) (k : String) : Except String (Option Nat) :=
  match j.getObjVal? k with
  | .ok Json.null => pure none
  | .ok v => do pure (some (← natOf v))
  | .error _ => pure none

def cmdOfJson (j : Json) : Except String Cmd := do
  match ← (← j.getObjVal? "op").getStr? with
  | "declare" => pure (.declare (← jnat j "p") (← jnat j "v") (← jnat j "f") (← optNat j "tag") (← jbool j "force"))
  | "untag" => pure (.untag (← jnat j "t") (← jnat j "p") (← jnat j "f") (← optNat j "v"))
  | "undeclare" =>
    match ← optNat j "v" with
    | some v => pure (.undeclare (← jnat j "p") v (← jnat j "f"))
    | none => pure (.undeclareAny (← jnat j "p") (← jnat j "f"))
  | s => throw s!"unknown command {s}"

def effToJson : Eff → Json
  | .mkdir p => Json.arr #[Json.str "mkdir", jn p]
  | .rmdir p => Json.arr #[Json.str "rmdir", jn p]
  | .creat f => Json.arr #[Json.str "creat", fpathToJson f]
  | .trunc f => Json.arr #[Json.str "trunc", fpathToJson f]
  | .write f _ last => Json.arr #[Json.str "write", fpathToJson f, Json.bool last]
  | .close f => Json.arr #[Json.str "close", fpathToJson f]
  | .rename a b => Json.arr #[Json.str "rename", fpathToJson a, fpathToJson b]
  | .unlink f => Json.arr #[Json.str "unlink", fpathToJson f]

def seenToJson : Seen → Json
  | .absent => Json.str "absent"
  | .garbled => Json.str "garbled"
  | .flavors l => Json.mkObj [("flavors", Json.arr (l.map jn).toArray)]
  | .assigns l => Json.mkObj [("assigns", Json.arr (l.map fun (f, v) => Json.arr #[jn f, jn v]).toArray)]

def listingToJson : Option (List (Id × Id × List Id)) → Json
  | none => Json.null
  | some l => Json.arr (l.map fun (p, v, ts) => Json.arr #[jn p, jn v, Json.arr (ts.map jn).toArray]).toArray

def tkeyOfList : List Json → Except String TKey
  | [p, v, f] => do pure ⟨← natOf p, ← natOf v, ← natOf f⟩
  | _ => throw "table key"

/-- `["main"|"tmp", "t", p, v, f]` -/
def tpathOfJson (j : Json) : Except String TPath := do
  match (← j.getArr?).toList with
  | k :: _ :: rest =>
    match ← k.getStr? with
    | "main" => pure (.main (← tkeyOfList rest))
    | "tmp" => pure (.tmp (← tkeyOfList rest))
    | s => throw s!"table path kind {s}"
  | _ => throw "table path"

def tpathToJson : TPath → Json
  | .main k => Json.arr #[Json.str "main", Json.str "t", jn k.p, jn k.v, jn k.f]
  | .tmp k => Json.arr #[Json.str "tmp", Json.str "t", jn k.p, jn k.v, jn k.f]

def tfileOfJson (j : Json) : Except String TFile := do
  match j with
  | Json.str "empty" => pure .empty
  | Json.str "part" => pure .part
  | _ => pure (.full (← natOf (← j.getObjVal? "tab")))

def tfileToJson : TFile → Json
  | .empty => Json.str "empty"
  | .part => Json.str "part"
  | .full n => Json.mkObj [("tab", jn n)]

def tabsOfJson (j : Json) : Except String TabFs := do
  (← j.getArr?).toList.mapM fun e => do
    match (← e.getArr?).toList with
    | [p, c] => pure (← tpathOfJson p, ← tfileOfJson c)
    | _ => throw "table entry"

def tabsToJson (t : TabFs) : Json :=
  Json.arr (t.map fun (p, c) => Json.arr #[tpathToJson p, tfileToJson c]).toArray

def teffToJson : TEff → Json
  | .creat f => Json.arr #[Json.str "creat", tpathToJson f]
  | .write f _ last => Json.arr #[Json.str "write", tpathToJson f, Json.bool last]
  | .close f => Json.arr #[Json.str "close", tpathToJson f]
  | .rename a b => Json.arr #[Json.str "rename", tpathToJson a, tpathToJson b]
  | .unlink f => Json.arr #[Json.str "unlink", tpathToJson f]

def eff2ToJson : Eff2 → Json
  | .onRec e => effToJson e
  | .onTab e => teffToJson e

def cmd2OfJson (j : Json) : Except String Cmd2 := do
  match ← (← j.getObjVal? "op").getStr? with
  | "declaretab" =>
    pure (.declareTab (← jnat j "p") (← jnat j "v") (← jnat j "f") (← optNat j "tag") (← jnat j "tab"))
  | _ => pure (.plain (← cmdOfJson j))

/-- `{"m":"c08","atomic":bool,"fs":{dirs,files},"tabs":[…]?,"cmd":{…},"flavors":[…]}` → the effect list of the
command (records first, then the interned table file), the records it may touch, and for every crash point
`k = 0 … n` the state left behind (records and table files), what a reader makes of each targeted record, and the
listing of a fresh reader per flavor. -/
def handle : Handler := fun j => do
  let cfg : Cfg := { atomic := ← jbool j "atomic" }
  let fs ← fsOfJson (← j.getObjVal? "fs")
  let tabs ← match j.getObjVal? "tabs" with
    | .ok t => tabsOfJson t
    | .error _ => pure []
  let db : Db := { fs := fs, tabs := tabs }
  let cmd ← cmd2OfJson (← j.getObjVal? "cmd")
  let flavors ← (← jarr j "flavors").mapM natOf
  -- with "cache_flavors": the product cache is part of the state and of the effects
  match j.getObjVal? "cache_flavors" with
  | .ok cf =>
    let cfl ← (← cf.getArr?).toList.mapM natOf
    let cfg3 : Cfg3 := { atomic := cfg.atomic }
    let db3 : Db3 := { fs := fs, tabs := tabs, cache := cfl.map fun f => (CPath.main f, CFile.full 0) }
    let effs := effects3 cfg3 cfl db3 cmd
    let tg := targets fs cmd.onRecords
    let ctmp : Json := Json.arr #[Json.str "ctmp"]
    let cmain (f : Nat) : Json := Json.arr #[Json.str "cmain", jn f]
    let ceffToJson : CEff → Json
      | .creat _ => Json.arr #[Json.str "cache", Json.str "creat", ctmp]
      | .write _ => Json.arr #[Json.str "cache", Json.str "write", ctmp]
      | .fsync _ => Json.arr #[Json.str "cache", Json.str "fsync", ctmp]
      | .close _ _ => Json.arr #[Json.str "cache", Json.str "close", ctmp]
      | .rename _ f => Json.arr #[Json.str "cache", Json.str "rename", ctmp, cmain f]
    let eff3ToJson : Eff3 → Json
      | .onRec e => effToJson e
      | .onTab e => teffToJson e
      | .onCache e => ceffToJson e
    let cacheToJson (t : CacheFs) : Json :=
      Json.arr (t.filterMap fun (p, c) => match p, c with
        | .main f, .full _ => some (Json.arr #[jn f, Json.str "complete"])
        | .main f, .empty => some (Json.arr #[jn f, Json.str "empty"])
        | _, _ => none).toArray
    let states := (List.range (effs.length + 1)).map fun k =>
      let s := crashAt3 cfg3 cfl db3 cmd k
      Json.mkObj [("fs", fsToJson s.fs), ("tabs", tabsToJson s.tabs), ("cache", cacheToJson s.cache),
        ("seen", Json.arr (tg.map fun r => seenToJson (read s.fs r)).toArray),
        ("listing", Json.arr (flavors.map fun f => listingToJson (listing s.fs f)).toArray)]
    pure (Json.mkObj [("effects", Json.arr (effs.map eff3ToJson).toArray),
      ("targets", Json.arr (tg.map fun r => Json.arr (rpathToList r).toArray).toArray),
      ("states", Json.arr states.toArray)])
  | .error _ =>
  let effs := effects2 cfg db cmd
  let tg := targets fs cmd.onRecords
  let states := (List.range (effs.length + 1)).map fun k =>
    let s := crashAt2 cfg db cmd k
    Json.mkObj [("fs", fsToJson s.fs), ("tabs", tabsToJson s.tabs),
      ("seen", Json.arr (tg.map fun r => seenToJson (read s.fs r)).toArray),
      ("listing", Json.arr (flavors.map fun f => listingToJson (listing s.fs f)).toArray)]
  pure (Json.mkObj [("effects", Json.arr (effs.map eff2ToJson).toArray),
    ("targets", Json.arr (tg.map fun r => Json.arr (rpathToList r).toArray).toArray),
    ("states", Json.arr states.toArray)])

end EupsModel.Drv.C08
