import EupsModel.Drv.C06
namespace EupsModel.Drv.C15
open Lean EupsModel EupsModel.Drv
/-- C15 runs the same world model as C06 (`Drv/C06.lean`) with `noaction` set on the commands. -/
def handle : Handler := C06.handle
end EupsModel.Drv.C15
