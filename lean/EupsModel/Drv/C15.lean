import EupsModel.Drv.Util
namespace EupsModel.Drv.C15
open Lean EupsModel EupsModel.Drv
/-- placeholder until the C15 model exists -/
def handle : Handler := fun _ => throw "model C15 not built"
end EupsModel.Drv.C15
