import EupsModel.Drv.Util
import EupsModel.Drv.Echo
import EupsModel.Drv.C01
import EupsModel.Drv.C02
import EupsModel.Drv.C03
import EupsModel.Drv.C04
import EupsModel.Drv.C05
import EupsModel.Drv.C06
import EupsModel.Drv.C07
import EupsModel.Drv.C08
import EupsModel.Drv.C09
import EupsModel.Drv.C10
import EupsModel.Drv.C11
import EupsModel.Drv.C12
import EupsModel.Drv.C13
import EupsModel.Drv.C14
import EupsModel.Drv.C15
import EupsModel.Drv.C16
import EupsModel.Drv.C17
import EupsModel.Drv.C18
/-! Registry of driver handlers: model name ↦ handler.  Handler `cNN` belongs to property CNN and may
dispatch further on an "op" field of the request; "path" is the historical name of the C12 handler. -/
namespace EupsModel.Drv

def registry : List (String × Handler) :=
  [ ("echo", Echo.handle),
    ("path", C12.handle),
    ("c01", C01.handle),
    ("c02", C02.handle),
    ("c03", C03.handle),
    ("c04", C04.handle),
    ("c05", C05.handle),
    ("c06", C06.handle),
    ("c07", C07.handle),
    ("c08", C08.handle),
    ("c09", C09.handle),
    ("c10", C10.handle),
    ("c11", C11.handle),
    ("c12", C12.handle),
    ("c13", C13.handle),
    ("c14", C14.handle),
    ("c15", C15.handle),
    ("c16", C16.handle),
    ("c17", C17.handle),
    ("c18", C18.handle) ]

end EupsModel.Drv
