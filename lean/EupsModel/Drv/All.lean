import EupsModel.Drv.Util
import EupsModel.Drv.Echo
import EupsModel.Drv.C12
/-! Registry of driver handlers: model name ↦ handler.  One line per handler module. -/
namespace EupsModel.Drv

def registry : List (String × Handler) :=
  [ ("echo", Echo.handle),
    ("path", C12.handle) ]

end EupsModel.Drv
