import EupsModel.Drv.Util
namespace EupsModel.Drv.C03
open Lean EupsModel EupsModel.Drv
/-- placeholder until the C03 model exists -/
def handle : Handler := fun _ => throw "model C03 not built"
end EupsModel.Drv.C03
