import EupsModel.Drv.Util
import EupsModel.Model.Vro
import EupsModel.Model.VroC10
import EupsModel.Model.VroApi
import EupsModel.Model.VroPath
namespace EupsModel.Drv.C03
open Lean EupsModel EupsModel.Drv EupsModel.Vro

def strsOf (j : Json) : Except String (List Str) := do
  (← j.getArr?).toList.mapM fun v => do pure (Str.ofString (← v.getStr?))

def stackOfJson (j : Json) : Except String Stack := do
  let decls ← (← jarr j "decls").mapM fun d => do
    match ← strsOf d with
    | [n, v, f] => pure (⟨n, v, f⟩ : Decl)
    | _ => throw "decl: expected [name, version, flavor]"
  let tags ← (← jarr j "tags").mapM fun d => do
    match ← strsOf d with
    | [t, n, f, v] => pure (⟨t, n, f, v⟩ : TagRec)
    | _ => throw "tag: expected [tag, name, flavor, version]"
  pure ⟨decls, tags⟩

def modeOf : String → Except String Mode
  | "files" => pure .files
  | "cache" => pure .cache
  | "mixed" => pure .mixed
  | s => throw s!"unknown mode {s}"

def ctxOfJson (j : Json) : Except String Ctx := do
  let db ← (← jarr j "db").mapM stackOfJson
  let mode ← modeOf (← (← j.getObjVal? "mode").getStr?)
  let accepted ← (← jarr j "accepted").mapM fun b => b.getBool?
  let optStrs (k : String) : Except String (List Str) :=
    match j.getObjVal? k with
    | .ok Json.null => pure []
    | .error _ => pure []
    | .ok _ => jstrs j k
  pure ((mkCtx c10Ord (← jstrs j "globalTags") db mode (← jstrs j "loaded") accepted).withExtras
    (← optStrs "userTags") (← optStrs "dirs"))

/-- the guard of `Model/VroC10.lean`: the comparator accepts every declared version name and can
evaluate every expression of the request on it; otherwise the model does not answer -/
def guardOk (j : Json) (exprs : List (Option Str)) : Except String Bool := do
  let db ← (← jarr j "db").mapM stackOfJson
  let xs := exprs.filterMap fun x =>
    match x with
    | some v => (match isExpr v with | .ok true => some v | _ => none)
    | none => none
  pure (namesOk db xs)

def unsupportedAns : Json := Json.mkObj [("out", "err"), ("err", "unsupported")]

def reqOfJson (j : Json) : Except String Req := do
  let already ← (match j.getObjVal? "already" with
    | .ok Json.null => pure none
    | .error _ => pure none
    | .ok a => do
      pure (some (⟨← jstr a "version", ← jstr a "flavor", ← jnat a "stack"⟩, ← jstrOpt a "reason")) :
      Except String (Option (Prod × Option Str)))
  let setupEnv ← (match j.getObjVal? "setupEnv" with
    | .ok Json.null => pure none
    | .error _ => pure none
    | .ok a => do
      let st ← (match a.getObjVal? "stack" with
        | .ok Json.null => pure none
        | .error _ => pure none
        | .ok _ => do pure (some (← jnat a "stack")) : Except String (Option Nat))
      pure (some { version := ← jstr a "version", flavor := ← jstr a "flavor", stack := st }) :
      Except String (Option SetupRec))
  pure { name := ← jstr j "name", version := ← jstrOpt j "version", vexpr := ← jstrOpt j "vexpr",
         depth := ← jnat j "depth", flavor := ← jstr j "flavor", ignoreVersions := ← jbool j "ignore",
         already := already, setupEnv := setupEnv }

def errName : Err → String
  | .badExpr => "badExpr" | .indexError => "indexError" | .typeError => "typeError"
  | .valueError => "valueError" | .unboundLocal => "unboundLocal" | .runtimeError => "runtimeError"
  | .keyError => "keyError" | .outOfFuel => "outOfFuel" | .unsupported => "unsupported"

def fileErrName : FileErr → String
  | .suspicious => "suspicious" | .invalid => "invalid"

def apiErrName : ApiErr → String
  | .tagNotRecognized => "tagNotRecognized" | .badExpr => "badExpr" | .notFound => "notFound"
  | .file e => "file:" ++ fileErrName e | .unsupported => "unsupported" | .walk e => (match e with
    | .badExpr => "badExpr" | .indexError => "indexError" | .typeError => "typeError"
    | .valueError => "valueError" | .unboundLocal => "unboundLocal" | .runtimeError => "runtimeError"
    | .keyError => "keyError" | .outOfFuel => "outOfFuel" | .unsupported => "unsupported")

def apiAnswer (r : Except ApiErr (Option Prod)) : Json :=
  match r with
  | .ok none => Json.mkObj [("out", "ok"), ("prod", Json.null)]
  | .ok (some p) => Json.mkObj [("out", "ok"), ("prod", Json.mkObj [("version", ofStr p.version), ("flavor", ofStr p.flavor),
      ("stack", (p.stack : Nat))])]
  | .error e => Json.mkObj [("out", "err"), ("err", apiErrName e)]

def apiReqOfJson (j : Json) : Except String ApiReq := do
  pure { name := ← jstr j "name", flavor := ← jstr j "flavor", ignoreVersions := ← jbool j "ignore",
         preferred := ← jstrs j "preferred", force := ← jbool j "force" }

def hitToJson : Option Hit → Json
  | none => Json.null
  | some h => Json.mkObj [("version", ofStr h.prod.version), ("flavor", ofStr h.prod.flavor),
      ("stack", (h.prod.stack : Nat)), ("reason", ofStr h.reason), ("entry", ofStr h.entry)]

def answer (r : Except Err (Option Hit)) : Json :=
  match r with
  | .ok h => Json.mkObj [("out", "ok"), ("hit", hitToJson h)]
  | .error e => Json.mkObj [("out", "err"), ("err", errName e)]

def vroValOf (j : Json) : Except String VroVal :=
  match j with
  | Json.arr _ => do pure (.flat (← strsOf j))
  | _ => do
    let o ← j.getObj?
    pure (.byDbz (← o.toList.mapM fun (k, v) => do pure (Str.ofString k, ← strsOf v)))

/-- dictionaries arrive as arrays of `[key, value]` pairs so that the order is the caller's -/
def pairsOf (j : Json) (k : String) : Except String (List (Str × Json)) := do
  (← jarr j k).mapM fun p => do
    match (← p.getArr?).toList with
    | [a, b] => pure (Str.ofString (← a.getStr?), b)
    | _ => throw "expected [key, value]"

def cfgOfJson (j : Json) : Except String VroCfg := do
  let dict ← (← pairsOf j "vroDict").mapM fun (k, v) => do
    match v with
    | Json.arr a =>
      match a.toList with
      | (Json.arr _) :: _ => do
        let d ← a.toList.mapM fun p => do
          match (← p.getArr?).toList with
          | [x, y] => pure (Str.ofString (← x.getStr?), ← strsOf y)
          | _ => throw "expected [dbz, vro]"
        pure (k, VroVal.byDbz d)
      | _ => do pure (k, VroVal.flat (← strsOf v))
    | _ => throw "vroDict value"
  pure { vroDict := dict, userVRO := ← jbool j "userVRO", keep := ← jbool j "keep", exact := ← jbool j "exact",
         globalTags := ← jstrs j "globalTags", cmdTags := ← jstrs j "cmdTags",
         prevPreferred := ← jstrs j "prevPreferred" }

def argsOfJson (j : Json) : Except String VroArgs := do
  pure { tags := ← jstrs j "tags", productDir := ← jbool j "productDir", versionName := ← jbool j "versionName",
         dbz := ← jstrOpt j "dbz", inexact := ← jbool j "inexact", postTags := ← jstrs j "postTags" }

/-- `{"m":"c03","op":...}`:
* `find`      ctx fields + `req`, `vro`                     -> `findProductFromVRO`
* `resolve`   ctx fields + `req`, `vro`, `keep`, `flavors`  -> the flavor loop of `Eups.setup`
* `selectVRO` `cfg`, `args`                                 -> the VRO list and the exact flag
* `cmp` / `match`                                           -> the local order used for the runs -/
def handle : Handler := fun j => do
  let op ← (← j.getObjVal? "op").getStr?
  match op with
  | "find" =>
    let C ← ctxOfJson j
    let r ← reqOfJson (← j.getObjVal? "req")
    if !(← guardOk j [r.version, r.vexpr]) then return unsupportedAns
    pure (answer (find C r (← jstrs j "vro")))
  | "resolve" =>
    let C ← ctxOfJson j
    let r ← reqOfJson (← j.getObjVal? "req")
    if !(← guardOk j [r.version, r.vexpr]) then return unsupportedAns
    pure (answer (resolve C r (← jbool j "keep") (← jstrs j "vro") (← jstrs j "flavors")))
  | "selectVRO" | "selectVROTwice" =>
    match (if op == "selectVRO" then selectVRO else selectVROTwice) (← cfgOfJson (← j.getObjVal? "cfg")) (← argsOfJson (← j.getObjVal? "args")) with
    | .ok o => pure (Json.mkObj [("out", "ok"), ("vro", ofStrs o.vro), ("exact", o.exact)])
    | .error e => pure (Json.mkObj [("out", "err"), ("err", errName e)])
  | "vroCmd" | "setupCmdVro" | "vroCmdPinned" =>
    -- `toks`: [["t", tag] | ["T", tag] | ["c"]] in command-line order
    let toks ← (← jarr j "toks").mapM fun t => do
      match (← t.getArr?).toList with
      | [k, v] =>
        let ks ← k.getStr?
        let vs ← v.getStr?
        if ks == "t" then pure (CliTok.tag (Str.ofString vs))
        else if ks == "T" then pure (CliTok.postTag (Str.ofString vs))
        else throw "tok"
      | [_] => pure CliTok.current
      | _ => throw "tok"
    let dj ← j.getObjVal? "defaults"
    let d : DefaultTags := { pre := ← jstrs dj "pre", post := ← jstrs dj "post" }
    let k : CliCmd := { toks := toks, version := ← jbool j "version", exact := ← jbool j "exact", dbz := ← jstrOpt j "dbz" }
    let c ← cfgOfJson (← j.getObjVal? "cfg")
    match (if op == "vroCmd" then vroCmd else if op == "setupCmdVro" then setupCmdVro else vroCmdPinned) c d k with
    | .ok o => pure (Json.mkObj [("out", "ok"), ("vro", ofStrs o.vro), ("exact", o.exact)])
    | .error e => pure (Json.mkObj [("out", "err"), ("err", errName e)])
  | "setEupsPath" =>
    let dirs ← jstrs j "dirs"
    match setEupsPath (fun p => dirs.contains p) (← jstr j "path") (← jstrOpt j "dbz") with
    | .ok l => pure (Json.mkObj [("out", "ok"), ("path", ofStrs l)])
    | .error _ => pure unsupportedAns
  | "normpath" => pure (Json.mkObj [("norm", ofStr (normpath (← jstr j "p")))])
  | "tagFileVersion" =>
    match tagFileVersion (← jstr j "content") (← jstr j "name") with
    | .ok none => pure (Json.mkObj [("out", "ok"), ("version", Json.null)])
    | .ok (some v) => pure (Json.mkObj [("out", "ok"), ("version", ofStr v)])
    | .error e => pure (Json.mkObj [("out", "err"), ("err", fileErrName e)])
  | "findF" =>
    -- `files`: [[name, text]] — the VRO entries that name existing files
    let C ← ctxOfJson j
    let r ← reqOfJson (← j.getObjVal? "req")
    let q ← apiReqOfJson (← j.getObjVal? "q")
    let files ← (← jarr j "files").mapM fun p => do
      match ← strsOf p with
      | [n, t] => pure (n, t)
      | _ => throw "file: expected [name, text]"
    let listed := files.filterMap fun f => match tagFileVersion f.2 q.name with | .ok (some v) => some (some v) | _ => none
    if !(← guardOk j ([r.version, r.vexpr] ++ listed)) then return unsupportedAns
    match findF C files q r (← jstrs j "vro") with
    | .ok h => pure (Json.mkObj [("out", "ok"), ("hit", hitToJson h)])
    | .error e => pure (Json.mkObj [("out", "err"), ("err", apiErrName e)])
  | "findProductApi" =>
    let C ← ctxOfJson j
    let v ← jstrOpt j "version"
    if !(← guardOk j [v]) then return unsupportedAns
    pure (apiAnswer (findProductApi C (← apiReqOfJson (← j.getObjVal? "q")) v))
  | "findTaggedFromFile" =>
    let C ← ctxOfJson j
    let q ← apiReqOfJson (← j.getObjVal? "q")
    let content ← jstr j "content"
    let v := match tagFileVersion content q.name with | .ok (some v) => some v | _ => none
    if !(← guardOk j [v]) then return unsupportedAns
    pure (apiAnswer (findTaggedFromFile C q content))
  | "runHistory" =>
    -- `cmds`: [{name, version, unsetup, lines:[{name, version, vexpr, lineVro, lineTags, lineKeep, optional}]}] on ONE Eups object;
    -- `env`: [[name, {version, flavor, stack}]] set up beforehand.  Answer: per command the outcome and the environment after it.
    let C ← ctxOfJson j
    let keep ← jbool j "keep"
    let flavors ← jstrs j "flavors"
    let vro ← jstrs j "vro"
    let prodOf (a : Json) : Except String Prod := do pure ⟨← jstr a "version", ← jstr a "flavor", ← jnat a "stack"⟩
    let env0 ← (← jarr j "env").mapM fun p => do
      match (← p.getArr?).toList with
      | [n, a] => pure (Str.ofString (← n.getStr?), ← prodOf a)
      | _ => throw "env: expected [name, product]"
    let cmds ← (← jarr j "cmds").mapM fun c => do
      let lines ← (← jarr c "lines").mapM fun l => do
        let lv ← (match l.getObjVal? "lineVro" with
          | .ok Json.null => pure none
          | .error _ => pure none
          | .ok v => do pure (some (← strsOf v)) : Except String (Option (List Str)))
        pure ({ name := ← jstr l "name", version := ← jstrOpt l "version", vexpr := ← jstrOpt l "vexpr", lineVro := lv,
                lineTags := ← jstrs l "lineTags", lineKeep := ← jbool l "lineKeep", optional := ← jbool l "optional" } : LineSpec)
      pure ({ name := ← jstr c "name", version := ← jstrOpt c "version", lines := lines, unsetup := ← jbool c "unsetup" } : HistCmd)
    if !(← guardOk j (cmds.flatMap fun c => c.version :: c.lines.flatMap fun l => [l.version, l.vexpr])) then return unsupportedAns
    let prodJ (p : Prod) : Json := Json.mkObj [("version", ofStr p.version), ("flavor", ofStr p.flavor), ("stack", (p.stack : Nat))]
    let rec go (s : HistState) (cs : List HistCmd) (acc : List Json) : List Json :=
      match cs with
      | [] => acc.reverse
      | c :: rest =>
        let (s1, o) := histStep C keep flavors vro s c
        let oj := match o with
          | .ok p raised => Json.mkObj [("out", "ok"), ("top", prodJ p), ("raised", raised)]
          | .failed => Json.mkObj [("out", "failed")]
        let ej := Json.arr (s1.env.map fun kv => Json.arr #[ofStr kv.1, prodJ kv.2]).toArray
        go s1 rest (Json.mkObj [("result", oj), ("env", ej)] :: acc)
    pure (Json.mkObj [("steps", Json.arr (go ⟨env0, []⟩ cmds []).toArray)])
  | "tableLineVro" =>
    let lv ← (match j.getObjVal? "lineVro" with
      | .ok Json.null => pure none
      | .error _ => pure none
      | .ok v => do pure (some (← strsOf v)) : Except String (Option (List Str)))
    pure (Json.mkObj [("vro", ofStrs (tableLineVro (← jstrs j "vro") lv (← jstrs j "lineTags") (← jbool j "lineKeep")))])
  | "runTable" =>
    let C ← ctxOfJson j
    let lines ← (← jarr j "lines").mapM fun l => do
      let lv ← (match l.getObjVal? "lineVro" with
        | .ok Json.null => pure none
        | .error _ => pure none
        | .ok v => do pure (some (← strsOf v)) : Except String (Option (List Str)))
      let already ← (match l.getObjVal? "already" with
        | .ok Json.null => pure none
        | .error _ => pure none
        | .ok a => do
          pure (some (⟨← jstr a "version", ← jstr a "flavor", ← jnat a "stack"⟩, ← jstrOpt a "reason")) :
          Except String (Option (Prod × Option Str)))
      pure ({ name := ← jstr l "name", version := ← jstrOpt l "version", vexpr := ← jstrOpt l "vexpr",
              lineVro := lv, lineTags := ← jstrs l "lineTags", lineKeep := ← jbool l "lineKeep",
              optional := ← jbool l "optional", already := already } : TableLine)
    if !(← guardOk j (lines.flatMap fun l => [l.version, l.vexpr])) then return unsupportedAns
    let r := runTable C (← jbool j "keep") (← jstrs j "flavors") (← jstrs j "vro") lines
    let outJ := r.outs.map fun o => match o with
      | .setUp h => hitToJson (some h)
      | .failed => Json.null
    pure (Json.mkObj [("outs", Json.arr outJ.toArray), ("raised", r.raised), ("vro", ofStrs r.vro)])
  | "cmp" =>
    let a ← jstr j "a"
    let b ← jstr j "b"
    pure (Json.mkObj [("cmp", (c10Cmp a b : Int)), ("simple", (simpleCmp a b : Int)),
      ("conv", VersionCmp.convName a && VersionCmp.convName b)])
  | "match" =>
    let v ← jstr j "v"
    let x ← jstr j "x"
    pure (Json.mkObj [("match", c10Match v x), ("simple", simpleMatch v x),
      ("ok", match VersionCmp.versionMatch v x with | .ok _ => true | .error _ => false)])
  | _ => throw s!"unknown op {op}"

end EupsModel.Drv.C03
