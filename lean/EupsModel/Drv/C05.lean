import EupsModel.Drv.Util
import EupsModel.Model.ShellEmit
namespace EupsModel.Drv.C05
open Lean EupsModel EupsModel.Drv EupsModel.ShellEmit

/-- ordered environment: `[[k, v], ...]` -/
def envOfJson (j : Json) : Except String Env := do
  (← j.getArr?).toList.mapM fun p => do
    match (← p.getArr?).toList with
    | [k, v] => pure (Str.ofString (← k.getStr?), Str.ofString (← v.getStr?))
    | _ => throw "pair expected"

def envToJson (e : Env) : Json := Json.arr (e.map fun (k, v) => Json.arr #[ofStr k, ofStr v]).toArray

def optOfJson (j : Json) : Except String (List (Str × Option Str)) := do
  (← j.getArr?).toList.mapM fun p => do
    match (← p.getArr?).toList with
    | [k, Json.null] => pure (Str.ofString (← k.getStr?), none)
    | [k, v] => pure (Str.ofString (← k.getStr?), some (Str.ofString (← v.getStr?)))
    | _ => throw "pair expected"

def optToJson (e : OldEnv) : Json := Json.arr (e.map fun (k, v) => Json.arr #[ofStr k, ofStrOpt v]).toArray

def optsOfJson (j : Json) : Except String Opts := do
  let sh ← (← j.getObjVal? "shell").getStr?
  let shell ← match sh with
    | "sh" => pure Shell.sh
    | "zsh" => pure Shell.zsh
    | "csh" => pure Shell.csh
    | _ => throw s!"unknown shell {sh}"
  pure { shell := shell, noaction := ← jbool j "noaction", verbose2 := ← jbool j "verbose2",
         isEups := ← jbool j "isEups", fwd := ← jbool j "fwd" }

def actOfJson (j : Json) : Except String Act := do
  let op ← (← j.getObjVal? "op").getStr?
  if op == "push" then return Act.push
  if op == "pop" then return Act.pop
  if op == "drop" then return Act.drop
  let k ← jstr j "k"
  match op with
  | "envSet" => pure (Act.envSet (← jbool j "force") (← jbool j "fwd") k (← jstr j "v"))
  | "path" => pure (Act.path (← jbool j "force") k (← jstr j "v"))
  | "unset" => pure (Act.unset k)
  | "alias" => pure (Act.alias (← jbool j "force") (← jbool j "fwd") k (← jstr j "v"))
  | _ => throw s!"unknown act {op}"

/-- ops:
* `emit`   `{old,new,aliases,oldAliases,opts}` → `{cmds:[..], text}` | `{unmodelled:true}`
* `sheval` `{env,text}` → `{env}` | `{none:true}`
* `shevalf` `{env,funcs,text}` → `{env,funcs,out,status}` | `{none:true}` (functions, echo, double quotes, status)
* `acts`   `{base,acts,pinned}` → `{old,cur}` -/
def handle : Handler := fun j => do
  let op ← (← j.getObjVal? "op").getStr?
  match op with
  | "emit" =>
    let old ← optOfJson (← j.getObjVal? "old")
    let new ← envOfJson (← j.getObjVal? "new")
    let al ← envOfJson (← j.getObjVal? "aliases")
    let oal ← optOfJson (← j.getObjVal? "oldAliases")
    let o ← optsOfJson (← j.getObjVal? "opts")
    match emit o old new al oal with
    | none => pure (Json.mkObj [("unmodelled", true)])
    | some cmds => pure (Json.mkObj [("cmds", ofStrs cmds), ("text", ofStr (join cmds)),
                                     ("final", envToJson (finalEnv o new))])
  | "sheval" =>
    let env ← envOfJson (← j.getObjVal? "env")
    match shEval env (← jstr j "text") with
    | none => pure (Json.mkObj [("none", true)])
    | some e => pure (Json.mkObj [("env", envToJson e)])
  | "shevalf" =>
    let env ← envOfJson (← j.getObjVal? "env")
    let fs ← envOfJson (← j.getObjVal? "funcs")
    match shEvalF env fs (← jstr j "text") with
    | none => pure (Json.mkObj [("none", true)])
    | some r => pure (Json.mkObj [("env", envToJson r.sh.env), ("funcs", envToJson r.funcs), ("out", ofStrs r.out),
                                  ("status", Json.num (JsonNumber.fromNat r.status))])
  | "csh" =>
    -- the csh reading (spec from the manual) of the variable commands emitted for {old, new, opts}, applied to `base`
    let old ← optOfJson (← j.getObjVal? "old")
    let new ← envOfJson (← j.getObjVal? "new")
    let base ← envOfJson (← j.getObjVal? "base")
    let o ← optsOfJson (← j.getObjVal? "opts")
    match cshApplyAll (emitVars o old new) base with
    | none => pure (Json.mkObj [("none", true)])
    | some e => pure (Json.mkObj [("env", envToJson e)])
  | "cli" =>
    let o ← j.getObjVal? "cli"
    let w ← j.getObjVal? "world"
    let c : Cli := { help := ← jbool o "help", version := ← jbool o "version", list := ← jbool o "list",
                     unsetup := ← jbool o "unsetup", nodepend := ← jbool o "nodepend",
                     maxDepth := (← (← o.getObjVal? "maxDepth").getInt?),
                     tablefile := ← jstrOpt o "tablefile", productDir := ← jstrOpt o "productDir",
                     args := ← jstrs o "args" }
    let wd : CliWorld := { tablefileExists := ← jbool w "tablefileExists", upsIsDir := ← jbool w "upsIsDir",
                           tables := ← jstrs w "tables", found := ← jbool w "found" }
    let inner ← match (← (← j.getObjVal? "inner").getStr?) with
      | "returned" => pure (Inner.returned (← jstrs j "cmds"))
      | "EupsException" => pure Inner.eupsException
      | _ => pure Inner.otherException
    let r := runCli c wd inner
    pure (Json.mkObj [("stdout", ofStrOpt r.stdout), ("status", Json.num (JsonNumber.fromNat r.status))])
  | "acts" =>
    let base ← envOfJson (← j.getObjVal? "base")
    let acts ← (← jarr j "acts").mapM actOfJson
    let s := runActs (← jbool j "pinned") acts base
    let o ← optsOfJson (← j.getObjVal? "opts")
    match emit o s.old s.cur s.aliases s.oldAliases with
    | none => pure (Json.mkObj [("unmodelled", true)])
    | some cmds => pure (Json.mkObj [("old", optToJson s.old), ("cur", envToJson (finalEnv o s.cur)),
                                     ("cmds", ofStrs cmds), ("text", ofStr (join cmds)),
                                     ("aliases", envToJson s.aliases), ("oldAliases", optToJson s.oldAliases)])
  | _ => throw s!"unknown op {op}"

end EupsModel.Drv.C05
