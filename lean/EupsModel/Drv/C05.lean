import EupsModel.Drv.Util
namespace EupsModel.Drv.C05
open Lean EupsModel EupsModel.Drv
/-- placeholder until the C05 model exists -/
def handle : Handler := fun _ => throw "model C05 not built"
end EupsModel.Drv.C05
