import EupsModel.Drv.Util
import EupsModel.Model.PathAct
namespace EupsModel.Drv.C12
open Lean EupsModel EupsModel.Drv EupsModel.PathAlg EupsModel.PathAct

def envOfJson (j : Json) : Except String Env := do
  let o ← j.getObj?
  o.toList.mapM fun (k, v) => do pure (Str.ofString k, Str.ofString (← v.getStr?))

def envToJson (e : Env) : Json :=
  Json.mkObj (e.map fun (k, v) => (Str.toString k, ofStr v))

def omapOfJson (j : Json) : Except String OMap := do
  let o ← j.getObj?
  o.toList.mapM fun (k, v) => do
    match v with
    | Json.null => pure (Str.ofString k, none)
    | _ => pure (Str.ofString k, some (Str.ofString (← v.getStr?)))

def omapToJson (m : OMap) : Json :=
  Json.mkObj (m.map fun (k, v) => (Str.toString k, ofStrOpt v))

def optObj (j : Json) (k : String) : Option Json :=
  match j.getObjVal? k with
  | .ok Json.null => none
  | .ok v => some v
  | .error _ => none

/-- `{"root","dir","extraDir","extraExists","name","flavor","version","upsDir"}` -/
def prodOfJson (j : Json) : Except String ProdInfo := do
  pure { root := ← jstrOpt j "root", dir := ← jstrOpt j "dir", extraDir := ← jstr j "extraDir",
         extraExists := ← jbool j "extraExists", name := ← jstr j "name", flavor := ← jstrOpt j "flavor",
         version := ← jstrOpt j "version", upsDir := ← jstr j "upsDir" }

def actOfJson (a : Json) : Except String (Bool × Act) := do
  let op ← (← a.getObjVal? "op").getStr?
  let fwd ← jbool a "fwd"
  let var ← jstr a "var"
  match op with
  | "prepend" | "append" =>
    let delim ← jstr a "delim"
    if delim.isEmpty then throw "empty delimiter"
    pure (fwd, .path (op == "append") var (← jstr a "value") delim)
  | "set" => pure (fwd, .set var (← jstr a "value"))
  | "unset" => pure (fwd, .unset var)
  | "alias" => pure (fwd, .alias var (← jstrs a "words"))
  | _ => throw s!"unknown op {op}"

/-- `{"m":"path","env":{..},"acts":[{"op","fwd","var","value","delim"|"words"}..],
     "product":{..}?, "fromfile":bool?, "eupspath":str|null, "force":bool?, "oldenv":{..}?, "aliases":{..}?, "oldaliases":{..}?}`:
macro-expand the actions' arguments when a product is given, run them in order, stop at the first error.
`{"m":"path","macro":"text","product":{..}}` expands one argument. -/
def handle : Handler := fun j => do
  let prod ← match optObj j "product" with
    | some p => do pure (some (← prodOfJson p))
    | none => pure none
  match optObj j "macro", prod with
  | some (Json.str t), some p =>
    return Json.mkObj [("out", ofStr (PathAct.expandArg p (← jstrOpt j "eupspath") (Str.ofString t)))]
  | _, _ => pure ()
  let env ← envOfJson (← j.getObjVal? "env")
  let force := match optObj j "force" with | some (Json.bool b) => b | _ => false
  let oldEnv ← match optObj j "oldenv" with | some o => omapOfJson o | none => pure []
  let aliases ← match optObj j "aliases" with | some o => envOfJson o | none => pure []
  let oldAliases ← match optObj j "oldaliases" with | some o => omapOfJson o | none => pure []
  let acts ← (← jarr j "acts").mapM actOfJson
  let fromFile := match optObj j "fromfile" with | some (Json.bool b) => b | _ => false
  let eupsPath ← jstrOpt j "eupspath"
  let acts := match prod with
    | some p => if fromFile then PathAct.fromFile p eupsPath acts else acts.map fun (f, a) => (f, a.expandAll p eupsPath)
    | none => acts
  match run acts { env, oldEnv, aliases, oldAliases, force } with
  | .ok s => pure (Json.mkObj [("out", "ok"), ("env", envToJson s.env), ("aliases", envToJson s.aliases),
      ("oldenv", omapToJson s.oldEnv), ("oldaliases", omapToJson s.oldAliases)])
  | .runtimeError => pure (Json.mkObj [("out", "RuntimeError")])

end EupsModel.Drv.C12
