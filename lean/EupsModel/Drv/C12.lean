import EupsModel.Drv.Util
import EupsModel.Model.PathAlg
namespace EupsModel.Drv.C12
open Lean EupsModel EupsModel.Drv EupsModel.PathAlg

def envOfJson (j : Json) : Except String Env := do
  let o ← j.getObj?
  o.toList.mapM fun (k, v) => do pure (Str.ofString k, Str.ofString (← v.getStr?))

def envToJson (e : Env) : Json :=
  Json.mkObj (e.map fun (k, v) => (Str.toString k, ofStr v))

def runAct (env : Env) (a : Json) : Except String Outcome := do
  let op ← (← a.getObjVal? "op").getStr?
  let fwd ← jbool a "fwd"
  let var ← jstr a "var"
  match op with
  | "prepend" | "append" =>
    let delim ← jstr a "delim"
    if delim.isEmpty then throw "empty delimiter"
    pure (envPrepend (op == "append") fwd var (← jstr a "value") delim env)
  | "set" => pure (envSet fwd var (← jstr a "value") env)
  | "unset" => pure (envUnset fwd var env)
  | _ => throw s!"unknown op {op}"

/-- `{"m":"path","env":{..},"acts":[{"op","fwd","var","value","delim"}..]}`: run the actions in order,
stop at the first error. -/
def handle : Handler := fun j => do
  let mut env ← envOfJson (← j.getObjVal? "env")
  for a in (← jarr j "acts") do
    match ← runAct env a with
    | .ok e => env := e
    | .runtimeError => return Json.mkObj [("out", "RuntimeError")]
  pure (Json.mkObj [("out", "ok"), ("env", envToJson env)])

end EupsModel.Drv.C12
