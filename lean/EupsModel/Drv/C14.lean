import EupsModel.Drv.Util
namespace EupsModel.Drv.C14
open Lean EupsModel EupsModel.Drv
/-- placeholder until the C14 model exists -/
def handle : Handler := fun _ => throw "model C14 not built"
end EupsModel.Drv.C14
