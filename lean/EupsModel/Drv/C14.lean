import EupsModel.Drv.Util
import EupsModel.Drv.C13
import EupsModel.Model.Remove
namespace EupsModel.Drv.C14
open Lean EupsModel EupsModel.Drv EupsModel.Deps EupsModel.Remove

def stateOfJson (g : Json) : Except String State := do
  let db ← C13.dbOfJson g
  let mut tags : List (Str × Str × Str) := []
  let mut dirs : List (Str × Str) := []
  for p in (← jarr g "products") do
    let n ← jstr p "name"
    let v ← jstr p "version"
    dirs := dirs ++ [(n, v)]
    match p.getObjVal? "tags" with
    | .ok t => for x in (← t.getArr?).toList do tags := tags ++ [(n, Str.ofString (← x.getStr?), v)]
    | .error _ => pure ()
  pure { decls := db.decls, tags := tags, dirs := dirs }

def outcomeName : Remove.Outcome → String
  | .ok => "ok"
  | .failed .refused => "Refused"
  | .failed .notFound => "NotFound"
  | .failed .cycle => "Cycle"
  | .failed .outOfFuel => "Recursion"
  | .failed .tableError => "TableError"
  | .failed .isSetup => "IsSetup"
  | .failed .noPermission => "NoPermission"
  | .failed .tagNotFound => "NoSuchTag"
  | .failed .eof => "EOF"

def pairJson (p : Str × Str) : Json := Json.arr #[ofStr p.1, ofStr p.2]

def stateToJson (s : State) : List (String × Json) :=
  [("decl", Json.arr (s.decls.map fun d => pairJson (d.name, d.ver)).toArray),
   ("tags", Json.arr (s.tags.map fun t => Json.arr #[ofStr t.1, ofStr t.2.1, ofStr t.2.2]).toArray),
   ("dirs", Json.arr (s.dirs.map pairJson).toArray)]

/-- `{"m":"c14","graph":G,["declare":P,]"default":name|null,"cases":[[name,version,recursive,check,force,[[n,v]..],readOnlyDb,how]..]}` (how = "version" | "tag:T" | "untag:T") →
for every case the outcome, the state afterwards and the products removed (each case starts from G). -/
def handle : Handler := fun j => do
  let s ← stateOfJson (← j.getObjVal? "graph")
  -- a history: `declare` of one more product before the cases (the commands before it are not part of the request:
  -- the model of `remove` is a function of the current state)
  let s ← match j.getObjVal? "declare" with
    | .ok (Json.obj o) => do
      let p := Json.obj o
      let deps ← (← jarr p "deps").mapM (C13.depOfJson [])
      pure (declare s { name := ← jstr p "name", ver := ← jstr p "version", deps := deps })
    | _ => pure s
  let dflt ← jstrOpt j "default"
  let cases ← jarr j "cases"
  let needUses ← cases.anyM fun c => do
    match (← c.getArr?).toList with
    | [_, _, _, chk, _, _, _, _] => chk.getBool?
    | _ => throw "expected [name, version, recursive, check, force, set-up products, read-only database, how]"
  let uses : UsesOutcome := if needUses then usesInfo s.db s.db.fuel else .ok []
  let outs ← cases.mapM fun c => do
    match (← c.getArr?).toList with
    | [n, v, r, chk, f, su, ro, how] =>
      let how ← how.getStr?
      let setup ← (← su.getArr?).toList.mapM fun x => do
        match (← x.getArr?).toList with
        | [a, b] => pure (Str.ofString (← a.getStr?), Str.ofString (← b.getStr?))
        | _ => throw "expected [name, version] in the set-up list"
      let s0 : State := { s with setup := setup, dbWritable := !(← ro.getBool?) }
      let nm := Str.ofString (← n.getStr?)
      let (o, s', rm) ←
        if how == "version" then
          pure (removeWith s0 uses nm (Str.ofString (← v.getStr?)) (← r.getBool?) (← chk.getBool?) (← f.getBool?) dflt)
        else if how.startsWith "tag:" then
          pure (removeByTag s0 uses nm (Str.ofString (how.drop 4).toString) (← r.getBool?) (← chk.getBool?) (← f.getBool?) dflt)
        else if how.startsWith "ask:" then
          -- `eups remove -i`: the answers typed, one letter each (y n q ! e = empty line, x = anything else)
          let answers := (how.drop 4).toString.toList.map fun c =>
            match c with
            | 'y' => Ans.y | 'n' => Ans.n | 'q' => Ans.q | '!' => Ans.bang | 'e' => Ans.empty | _ => Ans.other
          pure (removeWithI s0 uses nm (Str.ofString (← v.getStr?)) (← r.getBool?) (← chk.getBool?) (← f.getBool?) dflt answers)
        else if how.startsWith "untag:" then
          pure (Remove.Outcome.ok, untag s0 (Str.ofString (how.drop 6).toString), ([] : List Deps.Prod))
        else throw s!"unknown form {how}"
      pure (Json.mkObj ([("out", Json.str (outcomeName o)),
        ("removed", Json.arr (rm.map fun p => Json.arr #[ofStr p.name, ofStrOpt p.ver]).toArray)] ++ stateToJson s'))
    | _ => throw "expected [name, version, recursive, check, force, set-up products, read-only database, how]"
  pure (Json.mkObj [("answers", Json.arr outs.toArray)])

end EupsModel.Drv.C14
