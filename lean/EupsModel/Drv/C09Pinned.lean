import Std.Data.HashMap
import Std.Data.HashSet
import EupsModel.Drv.Util
import EupsModel.Model.Lock
import EupsModel.Model.LockPath
import EupsModel.Model.LockRace
/-! Driver operations on the PINNED lock protocol (`Model/Lock.lean`; the tree before the repair of D12a/b/c), reached
through the handler of C09 as `pinned_run`, `pinned_explore`, `pinned_runpath`, `pinned_racefree`.  Model only: the code
no longer behaves like this.  Original header:

Driver handler of C09 (model `c09`).

* `{"m":"c09","op":"run","procs":[{"kind":"E"|"S","lp":null|n,"tries":n}..],"sched":[pid..]}` runs the schedule
  from the initial configuration with `Lock.step` and reports, per scheduled step, the call and its result class
  (`Lock.obs`), whether `Mutex` holds after the step, and at the end the program counters, the directory flag and
  the listing.
* `{"m":"c09","op":"explore","procs":[..],"max":N}` enumerates the reachable states of the configuration (at most
  `N`) and returns a set of maximal schedules that takes every transition of the state graph at least once, plus
  statistics: states, transitions, states violating `Mutex`, quiescent states with residue, and the number of
  violating states that none of the three race monitors (D12a/b/c) explains.  Exploration support for the
  correspondence check — not part of any proof. -/
namespace EupsModel.Drv.C09Pinned
open Lean EupsModel EupsModel.Drv EupsModel.Lock EupsModel.LockPath

structure Proc where
  kind  : Kind
  lp    : Option Pid
  tries : Nat

def procOfJson (j : Json) : Except String Proc := do
  let k ← (← j.getObjVal? "kind").getStr?
  let kind ← match k with
    | "E" => pure Kind.ex
    | "S" => pure Kind.sh
    | _ => throw s!"kind {k}"
  let lp ← match j.getObjVal? "lp" with
    | .ok Json.null => pure none
    | .ok v => do pure (some (← v.getNat?))
    | .error _ => pure none
  let tries ← jnat j "tries"
  pure { kind, lp, tries }

def kindOf (ps : Array Proc) (i : Pid) : Kind := match ps[i]? with | some p => p.kind | none => .sh
def lpOf (ps : Array Proc) (i : Pid) : Option Pid := match ps[i]? with | some p => p.lp | none => none
def triesOf (ps : Array Proc) (i : Pid) : Nat := match ps[i]? with | some p => p.tries | none => 0

def initOf (ps : Array Proc) : St := init (kindOf ps) (lpOf ps) (triesOf ps)

def kindStr : Kind → String | .ex => "E" | .sh => "S"
def fileStr (f : Kind × Pid) : String := kindStr f.1 ++ toString f.2
def errStr : Err → String
  | .runtime => "RuntimeError" | .index => "IndexError" | .enoent => "FileNotFoundError"
  | .enotempty => "OSError" | .stopIter => "StopIteration"

def callStr : Call → String
  | .mkdir => "mkdir" | .existsDir => "exists_dir" | .scanAll => "scan_all" | .scanEx => "scan_ex"
  | .create => "create" | .work => "work" | .isdir => "isdir" | .existsFile => "exists_file"
  | .remove => "remove" | .count => "count" | .rmdir => "rmdir" | .none => "-"

def resStr : Res → String
  | .ok => "ok" | .eexist => "EEXIST" | .enoent => "ENOENT" | .enotempty => "ENOTEMPTY"
  | .stopIter => "StopIteration" | .yes => "True" | .no => "False"
  | .listing l => "[" ++ ",".intercalate (l.map fileStr) ++ "]"
  | .num n => toString n
  | .nothing => "-"

def pcStr : PC → String
  | .mkdir _ => "pending:mkdir" | .existsChk => "pending:exists_dir" | .scanAll _ => "pending:scan_all"
  | .scanMsg _ => "pending:scan_all" | .scan => "pending:scan_ex" | .scan2 => "pending:scan_ex"
  | .create => "pending:create" | .hold => "locked" | .unlocked => "unlocked"
  | .isdir => "pending:isdir" | .rexists => "pending:exists_file" | .remove => "pending:remove"
  | .count => "pending:count" | .rmdir => "pending:rmdir" | .done => "done"
  | .failedAcq e => "failed:" ++ errStr e | .failedRel e => "failed_release:" ++ errStr e

/-- Unrelated pairs `(i, j)`, `i` an exclusive holder, `j` in its body: the violations of `Mutex` among pids `< n`. -/
def violators (n : Nat) (s : St) : List (Pid × Pid) :=
  (List.range n).flatMap fun i => (List.range n).filterMap fun j =>
    if i != j && !decide (related s i j) && s.pc i == .hold && s.kind i == .ex && inBody (s.pc j)
    then some (i, j) else none

def opRun (j : Json) : Except String Json := do
  let ps := (← (← jarr j "procs").mapM procOfJson).toArray
  let sched ← (← jarr j "sched").mapM fun v => v.getNat?
  let n := ps.size
  let mut s := initOf ps
  let mut steps : Array Json := #[]
  for i in sched do
    if i ≥ n then throw s!"pid {i} out of range"
    let (c, r) := obs s i
    s := step s i
    let v := violators n s
    steps := steps.push (Json.arr #[toJson i, callStr c, resStr r,
      Json.arr (v.map fun (a, b) => Json.arr #[toJson a, toJson b]).toArray])
  pure (Json.mkObj [
    ("steps", Json.arr steps),
    ("pcs", Json.arr ((List.range n).map fun i => Json.str (pcStr (s.pc i))).toArray),
    ("dir", s.dir),
    ("files", Json.arr (s.files.map fun f => Json.str (fileStr f)).toArray)])

/-! ### exploration -/

/-- hashable image of a state, with the race monitors: per process "my last exclusive-file scan passed while an
unrelated requester was in flight, one of us exclusive" (`a`) and "a directory was removed while I was in flight" (`b`) -/
structure Snap where
  dir   : Bool
  files : List (Kind × Pid)
  pcs   : List PC
  a     : List Bool
  b     : List Bool
  deriving BEq, Hashable, Inhabited

def snapSt (ps : Array Proc) (x : Snap) : St :=
  { dir := x.dir, files := x.files, kind := kindOf ps, lp := lpOf ps,
    pc := fun i => x.pcs.getD i .done }

def inflight : PC → Bool
  | .scan | .scan2 | .create => true
  | _ => false

def terminal : PC → Bool
  | .done | .failedAcq _ | .failedRel _ => true
  | _ => false

def snapStep (ps : Array Proc) (mon : Bool) (x : Snap) (p : Pid) : Snap :=
  let n := ps.size
  let s := snapSt ps x
  let s' := step s p
  let pc := s.pc p
  let pc' := s'.pc p
  -- an admission test: the parent test of an exclusive request (scanAll -> scan) or an "exclusive*" listing that passes
  let isScan := pc == .scan || pc == .scan2 || (match pc with | .scanAll _ => true | _ => false)
  let passed := pc' == .scan2 || pc' == .create || (pc' == .scan && pc != .scan)
  let seesRace := (List.range n).any fun q =>
    q != p && !decide (related s p q) && inflight (s.pc q) && (s.kind p == .ex || s.kind q == .ex)
  let a := (List.range n).map fun q =>
    if q == p then
      (match pc with
       | .mkdir _ => false
       | _ => if isScan && passed && seesRace then true else x.a.getD q false)
    else x.a.getD q false
  let rmOk := pc == .rmdir && s.dir && !s'.dir
  let b := (List.range n).map fun q =>
    if q == p then (match pc with | .mkdir _ => false | _ => x.b.getD q false)
    else if rmOk && inflight (s.pc q) then true else x.b.getD q false
  { dir := s'.dir, files := s'.files, pcs := (List.range n).map s'.pc,
    a := if mon then a else [], b := if mon then b else [] }

def snapInit (ps : Array Proc) (mon : Bool) : Snap :=
  let n := ps.size
  { dir := false, files := [], pcs := (List.range n).map fun i => PC.mkdir (triesOf ps i),
    a := if mon then List.replicate n false else [], b := if mon then List.replicate n false else [] }

/-- classification of the violating pairs of a state: none left unexplained? -/
def unexplained (ps : Array Proc) (x : Snap) : List (Pid × Pid) :=
  let s := snapSt ps x
  (violators ps.size s).filter fun (i, j) =>
    !(s.pc j == .unlocked) && !(x.b.getD i false || x.b.getD j false) && !(x.a.getD i false || x.a.getD j false)

def raceClass (ps : Array Proc) (x : Snap) : List String :=
  let s := snapSt ps x
  (violators ps.size s).map fun (i, j) =>
    if s.pc j == .unlocked then "c"
    else if x.b.getD i false || x.b.getD j false then "b"
    else if x.a.getD i false || x.a.getD j false then "a"
    else "none"

structure Graph where
  snaps  : Array Snap
  parent : Array (Nat × Pid)          -- BFS tree: predecessor state and the pid stepped
  succ   : Array (Array (Option Nat)) -- per state, per pid: successor (none = process terminated)
  full   : Bool                       -- false when the state bound was hit

def buildGraph (ps : Array Proc) (mon : Bool) (maxStates : Nat) : Graph := Id.run do
  let n := ps.size
  let x0 := snapInit ps mon
  let mut idx : Std.HashMap Snap Nat := {}
  idx := idx.insert x0 0
  let mut snaps : Array Snap := #[x0]
  let mut parent : Array (Nat × Pid) := #[(0, 0)]
  let mut succ : Array (Array (Option Nat)) := #[]
  let mut full := true
  let mut u := 0
  -- `snaps` grows while we scan it: plain BFS
  while u < snaps.size do
    let x := snaps[u]!
    let mut row : Array (Option Nat) := #[]
    for p in [0:n] do
      if terminal (x.pcs.getD p .done) then
        row := row.push none
      else
        let y := snapStep ps mon x p
        match idx[y]? with
        | some v => row := row.push (some v)
        | none =>
          if snaps.size ≥ maxStates then
            full := false
            row := row.push none
          else
            let v := snaps.size
            idx := idx.insert y v
            snaps := snaps.push y
            parent := parent.push (u, p)
            row := row.push (some v)
    succ := succ.push row
    u := u + 1
  return { snaps, parent, succ, full }

def pathTo (g : Graph) (u : Nat) : List Pid := Id.run do
  let mut acc : List Pid := []
  let mut v := u
  let mut fuel := g.snaps.size + 1
  while v != 0 && fuel > 0 do
    let (w, p) := g.parent[v]!
    acc := p :: acc
    v := w
    fuel := fuel - 1
  return acc

/-- maximal schedules covering every transition of the graph -/
def pathCover (g : Graph) (n : Nat) : Array (List Pid) := Id.run do
  let mut covered : Std.HashSet (Nat × Pid) := {}
  let mut out : Array (List Pid) := #[]
  for u in [0:g.snaps.size] do
    for p in [0:n] do
      if (g.succ[u]!)[p]!.isSome && !covered.contains (u, p) then
        -- reach u, take p, then walk on, preferring transitions not yet taken, until nothing is enabled
        let mut sched : Array Pid := (pathTo g u).toArray
        let mut cur := u
        let mut nxt : Option Pid := some p
        let mut fuel := 100000
        while nxt.isSome && fuel > 0 do
          let q := nxt.get!
          sched := sched.push q
          covered := covered.insert (cur, q)
          cur := ((g.succ[cur]!)[q]!).get!
          fuel := fuel - 1
          let row := g.succ[cur]!
          let mut fresh : Option Pid := none
          let mut anyp : Option Pid := none
          for r in [0:n] do
            if row[r]!.isSome then
              if anyp.isNone then anyp := some r
              if fresh.isNone && !covered.contains (cur, r) then fresh := some r
          nxt := if fresh.isSome then fresh else anyp
        out := out.push sched.toList
  return out

def opExplore (j : Json) : Except String Json := do
  let ps := (← (← jarr j "procs").mapM procOfJson).toArray
  let maxStates := (jnat j "max").toOption.getD 200000
  let wantSched := (jbool j "schedules").toOption.getD true
  let mon := (jbool j "monitors").toOption.getD false
  let n := ps.size
  let g := buildGraph ps mon maxStates
  let mut edges : Nat := 0
  let mut viol : Nat := 0
  let mut unexpl : Nat := 0
  let mut residue : Nat := 0
  let mut quiescent : Nat := 0
  let mut classes : Std.HashMap String Nat := {}
  let mut unexplEx : Option (List Pid) := none
  let mut residueEx : Option (List Pid) := none
  for u in [0:g.snaps.size] do
    let x := g.snaps[u]!
    edges := edges + ((g.succ[u]!).filter (·.isSome)).size
    let s := snapSt ps x
    if !(violators n s).isEmpty then
      viol := viol + 1
      for c in (if mon then raceClass ps x else []) do
        classes := classes.insert c (classes.getD c 0 + 1)
      if mon && !(unexplained ps x).isEmpty then
        unexpl := unexpl + 1
        if unexplEx.isNone then unexplEx := some (pathTo g u)
    if x.pcs.all (fun pc => !engaged pc) then
      quiescent := quiescent + 1
      if x.dir || !x.files.isEmpty then
        residue := residue + 1
        if residueEx.isNone then residueEx := some (pathTo g u)
  let scheds := if wantSched then pathCover g n else #[]
  pure (Json.mkObj [
    ("full", g.full), ("states", g.snaps.size), ("edges", edges), ("violating", viol),
    ("unexplained", unexpl), ("quiescent", quiescent), ("residue", residue),
    ("classes", Json.mkObj (classes.toList.map fun (k, v) => (k, toJson v))),
    ("unexplained_example", match unexplEx with | some l => toJson l | none => Json.null),
    ("residue_example", match residueEx with | some l => toJson l | none => Json.null),
    ("schedules", Json.arr (scheds.map fun l => toJson l))])

/-! ### several stacks -/

structure PProc where
  base     : Proc
  path     : List Dir
  explicit : Bool

def pprocOfJson (j : Json) : Except String PProc := do
  let base ← procOfJson j
  let path ← (← jarr j "path").mapM fun v => v.getNat?
  let explicit := (jbool j "explicit").toOption.getD true
  pure { base, path, explicit }

def outStr : Out → String
  | .done => "done" | .failedAcq e => "failed:" ++ errStr e | .failedRel e => "failed_release:" ++ errStr e

def ctlStr (S : PSt) (i : Pid) : String :=
  match S.ctl i with
  | .body n _ => if n = 0 then "unlocked" else "locked"
  | .fin o => outStr o
  | _ => let (_, c, _) := mobs S i; "pending:" ++ callStr c

/-- violating pairs of `MutexM` among pids `< n` over stacks `< nd` -/
def mviolators (n nd : Nat) (S : PSt) : List (Pid × Pid) :=
  ((List.range n).flatMap fun p => (List.range n).filterMap fun q =>
    if p != q && inBodyM (S.ctl p) && inBodyM (S.ctl q) &&
       (List.range nd).any (fun d => !decide (related (S.comp d) p q) && (S.path p).contains d && (S.path q).contains d &&
          (S.comp d).pc p == .hold && (S.comp d).kind p == .ex)
    then some (p, q) else none)

def opRunPath (j : Json) : Except String Json := do
  let ps := (← (← jarr j "procs").mapM pprocOfJson).toArray
  let sched ← (← jarr j "sched").mapM fun v => v.getNat?
  let nd ← jnat j "ndirs"
  let n := ps.size
  let base := ps.map (·.base)
  let mut S := minit (kindOf base) (lpOf base) (triesOf base)
    (fun i => match ps[i]? with | some p => p.path | none => [])
    (fun i => match ps[i]? with | some p => p.explicit | none => true)
  let mut steps : Array Json := #[]
  for i in sched do
    if i ≥ n then throw s!"pid {i} out of range"
    let (d, c, r) := mobs S i
    S := mstep S i
    let v := mviolators n nd S
    let cs := match d with | some d => callStr c ++ "@" ++ toString d | none => callStr c
    steps := steps.push (Json.arr #[toJson i, cs, resStr r,
      Json.arr (v.map fun (a, b) => Json.arr #[toJson a, toJson b]).toArray])
  let listing := (List.range nd).map fun d =>
    let s := S.comp d
    Json.arr ((if s.dir then [Json.str ".lockDir"] else []) ++ (s.files.map fun f => Json.str (fileStr f))).toArray
  pure (Json.mkObj [
    ("steps", Json.arr steps),
    ("pcs", Json.arr ((List.range n).map fun i => Json.str (ctlStr S i)).toArray),
    ("held", Json.arr ((List.range n).map fun i =>
      match S.ctl i with
      | .body k _ => toJson ((S.path i).take k)
      | _ => Json.null).toArray),
    ("listing", Json.arr listing.toArray)])

/-! ### race-free exploration (development aid for `C09_classification`): only steps that are none of the three races;
every candidate invariant evaluated on every reachable state, bounded to the pids of the configuration -/

def admitsB (s : St) (p : Pid) : Bool :=
  (match s.pc p with | .scanAll _ => parentHolds (s.lp p) s.files | _ => false)
  || (s.pc p == .scan && (exFiles s.files).length == 0)
  || (s.pc p == .scan2 && (match (exFiles s.files).head? with | some f => s.lp p == some f.2 | none => false))

def racyB (n : Nat) (s : St) (p : Pid) : Bool :=
  (admitsB s p && (List.range n).any fun q =>
      q != p && !decide (related s p q) && Lock.inflight (s.pc q) && (s.kind p == .ex || s.kind q == .ex))
  || (s.pc p == .rmdir && s.dir && s.files.isEmpty && (List.range n).any fun q => q != p && Lock.inflight (s.pc q))
  || (s.pc p == .existsChk && !s.dir)

def pastB : PC → Bool
  | .create | .hold | .isdir | .rexists | .remove => true
  | _ => false

def inAdmB : PC → Bool
  | .scan | .scan2 | .create | .hold | .isdir | .rexists | .remove => true
  | _ => false

def hasFileB : PC → Bool
  | .hold | .isdir | .rexists | .remove => true
  | _ => false

/-- index of an entry in the listing -/
def posOf (fs : List (Kind × Pid)) (f : Kind × Pid) : Option Nat := fs.findIdx? (· == f)

def invChecks (n : Nat) (s : St) : List (String × Bool) :=
  let ids := List.range n
  [ ("dirIn", ids.all fun p => !Lock.inflight (s.pc p) || s.dir),
    ("noUnl", ids.all fun p => !(s.pc p == .unlocked)),
    ("k1", ids.all fun p => !(s.pc p == .existsChk) || s.kind p == .sh),
    ("exsh", ids.all fun p => ids.all fun q =>
      p == q || decide (related s p q) || !(s.kind p == .ex) || !(s.kind q == .sh) || !inAdmB (s.pc p) || !pastB (s.pc q)),
    ("exex", ids.all fun p => ids.all fun q =>
      p == q || decide (related s p q) || !(s.kind p == .ex) || !(s.kind q == .ex) || !pastB (s.pc p) || !pastB (s.pc q)),
    ("order", ids.all fun p => ids.all fun r =>
      !(s.lp p == some r) ||
        (match posOf s.files (.ex, p), posOf s.files (.ex, r) with
         | some a, some b => a < b
         | _, _ => true)),
    ("rootIn", ids.all fun r => ids.all fun p =>
      !(Lock.inflight (s.pc r)) || !(s.kind r == .ex) || !(s.lp p == some r) || !(s.kind p == .ex) || !inAdmB (s.pc p)),
    ("mutex", (violators n s).isEmpty) ]

def opRaceFree (j : Json) : Except String Json := do
  let ps := (← (← jarr j "procs").mapM procOfJson).toArray
  let maxStates := (jnat j "max").toOption.getD 2000000
  let n := ps.size
  let x0 := snapInit ps false
  let mut idx : Std.HashSet Snap := {}
  idx := idx.insert x0
  let mut todo : Array Snap := #[x0]
  let mut bad : Std.HashMap String Nat := {}
  let mut states : Nat := 0
  let mut skipped : Nat := 0
  let mut u := 0
  while u < todo.size do
    let x := todo[u]!
    u := u + 1
    states := states + 1
    let s := snapSt ps x
    for (nm, ok) in invChecks n s do
      if !ok then bad := bad.insert nm (bad.getD nm 0 + 1)
    for p in [0:n] do
      if !terminal (x.pcs.getD p .done) then
        if racyB n s p then
          skipped := skipped + 1
        else
          let y := snapStep ps false x p
          if !idx.contains y && todo.size < maxStates then
            idx := idx.insert y
            todo := todo.push y
  pure (Json.mkObj [("states", states), ("racy_steps_skipped", skipped),
    ("violated", Json.mkObj (bad.toList.map fun (k, v) => (k, toJson v)))])

def handle : Handler := fun j => do
  let op ← (← j.getObjVal? "op").getStr?
  match op with
  | "run" => opRun j
  | "explore" => opExplore j
  | "runpath" => opRunPath j
  | "racefree" => opRaceFree j
  | _ => throw s!"unknown op {op}"

end EupsModel.Drv.C09Pinned
