import EupsModel.Model.FsEff
/-! Helper lemmas about the file-system effect model (C08). -/
namespace EupsModel.FsEff

/-! ## Association-list facts -/

theorem get_files_cons (d : List Id) (g : FPath) (c : FileC) (r : List (FPath × FileC)) (f : FPath) :
    Fs.get ⟨d, (g, c) :: r⟩ f = if g = f then some c else Fs.get ⟨d, r⟩ f := by
  simp only [Fs.get, List.find?_cons]
  by_cases h : g = f <;> simp [h]

theorem get_setFile_same (d : List Id) (l : List (FPath × FileC)) (f : FPath) (c : FileC) :
    Fs.get ⟨d, setFile l f c⟩ f = some c := by
  induction l with
  | nil => simp [setFile, get_files_cons]
  | cons x r ih =>
    obtain ⟨g, e⟩ := x
    by_cases h : g = f
    · simp [setFile, h, get_files_cons]
    · simp [setFile, h, get_files_cons, ih]

theorem get_setFile_other (d : List Id) (l : List (FPath × FileC)) (f g : FPath) (c : FileC) (h : g ≠ f) :
    Fs.get ⟨d, setFile l f c⟩ g = Fs.get ⟨d, l⟩ g := by
  induction l with
  | nil =>
    have : ¬ f = g := fun e => h e.symm
    simp [setFile, get_files_cons, this, Fs.get]
  | cons x r ih =>
    obtain ⟨g', e⟩ := x
    by_cases h' : g' = f
    · subst h'
      have : ¬ g' = g := fun e => h e.symm
      simp [setFile, get_files_cons, this]
    · simp only [setFile, h', if_false, get_files_cons, ih]

theorem get_set_same (fs : Fs) (f : FPath) (c : FileC) : (fs.set f c).get f = some c :=
  get_setFile_same fs.dirs fs.files f c

theorem get_set_other (fs : Fs) (f g : FPath) (c : FileC) (h : g ≠ f) : (fs.set f c).get g = fs.get g :=
  get_setFile_other fs.dirs fs.files f g c h

theorem get_del_other (fs : Fs) (f g : FPath) (h : g ≠ f) : (fs.del f).get g = fs.get g := by
  obtain ⟨d, l⟩ := fs
  simp only [Fs.del]
  induction l with
  | nil => simp [delFile]
  | cons x r ih =>
    obtain ⟨g', e⟩ := x
    by_cases h' : g' = f
    · subst h'
      have : ¬ g' = g := fun e => h e.symm
      simp [delFile, get_files_cons, this, ih]
    · simp [delFile, h', get_files_cons, ih]

theorem get_del_same (fs : Fs) (f : FPath) : (fs.del f).get f = none := by
  obtain ⟨d, l⟩ := fs
  simp only [Fs.del]
  induction l with
  | nil => simp [delFile, Fs.get]
  | cons x r ih =>
    obtain ⟨g', e⟩ := x
    by_cases h' : g' = f
    · simp [delFile, h', ih]
    · simp [delFile, h', get_files_cons, ih]

/-! ## Which files an effect can change -/

def Eff.touched : Eff → List FPath
  | .mkdir _ => []
  | .rmdir _ => []
  | .creat f => [f]
  | .trunc f => [f]
  | .write f _ _ => [f]
  | .close _ => []
  | .rename a b => [a, b]
  | .unlink f => [f]

theorem get_applyEff (fs : Fs) (e : Eff) (g : FPath) (h : g ∉ e.touched) : (applyEff fs e).get g = fs.get g := by
  cases e with
  | mkdir p => simp only [applyEff]; split <;> rfl
  | rmdir p => simp only [applyEff]; split <;> rfl
  | creat f => exact get_set_other fs f g _ (by simpa [Eff.touched] using h)
  | trunc f => exact get_set_other fs f g _ (by simpa [Eff.touched] using h)
  | write f c l => exact get_set_other fs f g _ (by simpa [Eff.touched] using h)
  | close f => rfl
  | rename a b =>
    simp only [Eff.touched, List.mem_cons, List.not_mem_nil, or_false, not_or] at h
    simp only [applyEff]
    cases fs.get a with
    | none => rfl
    | some c => rw [get_set_other _ _ _ _ h.2, get_del_other _ _ _ h.1]
  | unlink f => exact get_del_other fs f g (by simpa [Eff.touched] using h)

theorem get_applyAll (fs : Fs) (es : List Eff) (g : FPath) (h : ∀ e ∈ es, g ∉ e.touched) :
    (applyAll fs es).get g = fs.get g := by
  induction es generalizing fs with
  | nil => rfl
  | cons e r ih =>
    simp only [applyAll, List.foldl_cons]
    have := ih (applyEff fs e) (fun e' he' => h e' (by simp [he']))
    simp only [applyAll] at this
    rw [this, get_applyEff fs e g (h e (by simp))]

/-- the record a step writes or removes -/
def Step.record : Step → Option RPath
  | .put r _ => some r
  | .remove r => some r
  | _ => none

theorem touched_writes (f : FPath) (c : Content) : ∀ (n : Nat), ∀ e ∈ writes f c n, e.touched = [f]
  | 0, e, he => by simp [writes] at he
  | 1, e, he => by simp [writes] at he; subst he; rfl
  | n + 2, e, he => by
    simp only [writes, List.mem_cons] at he
    rcases he with h | h
    · subst h; rfl
    · exact touched_writes f c (n + 1) e h

/-- the effects of a step touch only the record's own file and its temporary file -/
theorem touched_expand (atomic : Bool) (fs : Fs) (s : Step) :
    ∀ e ∈ expand atomic fs s, ∀ g ∈ e.touched, ∃ r, s.record = some r ∧ (g = .main r ∨ g = .tmp r) := by
  intro e he g hg
  cases s with
  | mkdir p => simp [expand] at he; subst he; simp [Eff.touched] at hg
  | rmdir p => simp [expand] at he; subst he; simp [Eff.touched] at hg
  | remove r =>
    simp [expand] at he; subst he; simp [Eff.touched] at hg
    exact ⟨r, rfl, Or.inl hg⟩
  | put r c =>
    refine ⟨r, rfl, ?_⟩
    cases atomic with
    | true =>
      simp only [expand, if_true, List.mem_append, List.mem_cons, List.mem_singleton, List.not_mem_nil, or_false] at he
      rcases he with (h | h) | h | h
      · subst h; simp [Eff.touched] at hg; exact Or.inr hg
      · rw [touched_writes _ _ _ e h] at hg; simp at hg; exact Or.inr hg
      · subst h; simp [Eff.touched] at hg
      · subst h; simp [Eff.touched] at hg; rcases hg with h | h
        · exact Or.inr h
        · exact Or.inl h
    | false =>
      simp only [expand, Bool.false_eq_true, if_false, List.mem_append, List.mem_cons, List.mem_singleton,
        List.not_mem_nil, or_false] at he
      rcases he with (h | h) | h
      · subst h; split at hg <;> (simp [Eff.touched] at hg; exact Or.inl hg)
      · rw [touched_writes _ _ _ e h] at hg; simp at hg; exact Or.inl hg
      · subst h; simp [Eff.touched] at hg

theorem touched_expandAll (atomic : Bool) (fs : Fs) (ss : List Step) :
    ∀ e ∈ expandAll atomic fs ss, ∀ g ∈ e.touched, ∃ s ∈ ss, ∃ r, s.record = some r ∧ (g = .main r ∨ g = .tmp r) := by
  induction ss generalizing fs with
  | nil => simp [expandAll]
  | cons s rest ih =>
    intro e he g hg
    simp only [expandAll, List.mem_append] at he
    rcases he with h | h
    · obtain ⟨r, hr, hgr⟩ := touched_expand atomic fs s e h g hg
      exact ⟨s, by simp, r, hr, hgr⟩
    · obtain ⟨s', hs', r, hr, hgr⟩ := ih (applyStep fs s) e h g hg
      exact ⟨s', by simp [hs'], r, hr, hgr⟩

/-! ## The steps of a command write only its targets -/

def Within (S : List RPath) (ss : List Step) : Prop := ∀ s ∈ ss, ∀ r, s.record = some r → r ∈ S

theorem Within.nil (S : List RPath) : Within S [] := by simp [Within]

theorem Within.append {S : List RPath} {a b : List Step} (ha : Within S a) (hb : Within S b) : Within S (a ++ b) := by
  intro s hs r hr
  rcases List.mem_append.mp hs with h | h
  · exact ha s h r hr
  · exact hb s h r hr

theorem Within.ite {S : List RPath} (c : Prop) [Decidable c] {a b : List Step} (ha : Within S a) (hb : Within S b) :
    Within S (if c then a else b) := by
  split
  · exact ha
  · exact hb

theorem within_single (S : List RPath) (s : Step) (h : s.record = none) : Within S [s] := by
  intro s' hs r hr
  simp at hs; subst hs; rw [h] at hr; cases hr

theorem within_single_rec (S : List RPath) (s : Step) (r : RPath) (h : s.record = some r) (hr : r ∈ S) : Within S [s] := by
  intro s' hs r' hr'
  simp at hs; subst hs; rw [h] at hr'; cases hr'; exact hr

theorem within_writeRec (S : List RPath) (fs : Fs) (r : RPath) (c : Content) (h : r ∈ S) : Within S (writeRec fs r c) := by
  unfold writeRec
  exact Within.ite _ (Within.ite _ (within_single_rec S _ r rfl h) (Within.nil S)) (within_single_rec S _ r rfl h)

theorem within_dbAssignTag (S : List RPath) (fs : Fs) (t p v f : Id) (h : RPath.cfile p t ∈ S) :
    Within S (dbAssignTag fs t p v f) := by
  unfold dbAssignTag
  exact Within.ite _ (Within.nil S) (within_writeRec S _ _ _ h)

theorem within_dbUnassignTag (S : List RPath) (fs : Fs) (t p f : Id) (h : RPath.cfile p t ∈ S) :
    Within S (dbUnassignTag fs t p f) := by
  unfold dbUnassignTag
  exact Within.ite _ (Within.nil S) (within_writeRec S _ _ _ h)

theorem within_dbDeclare (S : List RPath) (fs : Fs) (p v f : Id) (tag : Option Id) (hv : RPath.vfile p v ∈ S)
    (ht : ∀ t, tag = some t → RPath.cfile p t ∈ S) : Within S (dbDeclare fs p v f tag) := by
  unfold dbDeclare
  refine Within.append (Within.append ?_ (within_writeRec S _ _ _ hv)) ?_
  · exact Within.ite _ (Within.nil S) (within_single S _ rfl)
  · cases tag with
    | none => exact Within.nil S
    | some t => exact within_dbAssignTag S _ t p v f (ht t rfl)

theorem within_unassignAll (S : List RPath) (p f : Id) (fs : Fs) (ts : List Id)
    (h : ∀ t ∈ ts, RPath.cfile p t ∈ S) : Within S (unassignAll p f fs ts) := by
  induction ts generalizing fs with
  | nil => exact Within.nil S
  | cons t r ih =>
    simp only [unassignAll]
    exact Within.append (within_dbUnassignTag S fs t p f (h t (by simp))) (ih _ (fun t' ht' => h t' (by simp [ht'])))

theorem within_dbUndeclare (S : List RPath) (fs : Fs) (p v f : Id) (hv : RPath.vfile p v ∈ S)
    (ht : ∀ t ∈ findTags fs p v f, RPath.cfile p t ∈ S) : Within S (dbUndeclare fs p v f) := by
  unfold dbUndeclare
  refine Within.ite _ (Within.nil S) ?_
  refine Within.append (Within.append ?_ ?_) ?_
  · exact Within.ite _ (within_unassignAll S p f fs _ ht) (Within.nil S)
  · exact Within.ite _ (within_writeRec S _ _ _ hv) (Within.nil S)
  · exact Within.ite _ (within_single S _ rfl) (Within.nil S)

/-- every record a command writes or removes is one of its `targets` -/
theorem steps_within (fs : Fs) (c : Cmd) : Within (targets fs c) (steps fs c) := by
  cases c with
  | declare p v f tag force =>
    cases htag : declareTag fs p f tag with
    | none =>
      simp only [steps, targets, htag]
      refine Within.append ?_ (Within.nil _)
      exact Within.ite _ (within_dbDeclare _ fs p v f none (by simp) (by intro t ht; cases ht)) (Within.nil _)
    | some t =>
      simp only [steps, targets, htag]
      have hc : RPath.cfile p t ∈ [RPath.vfile p v] ++ [RPath.cfile p t] := by simp
      refine Within.append ?_ (Within.append ?_ (within_dbAssignTag _ _ t p v f hc))
      · exact Within.ite _ (within_dbDeclare _ fs p v f (some t) (by simp) (by intro t' ht'; cases ht'; exact hc))
          (Within.nil _)
      · cases taggedVersion _ t p f with
        | none => exact Within.nil _
        | some _ => exact within_dbUnassignTag _ _ t p f hc
  | untag t p f v =>
    have hc : RPath.cfile p t ∈ [RPath.cfile p t] := by simp
    cases v with
    | none =>
      simp only [steps, targets]
      cases taggedVersion fs t p f with
      | none => exact Within.nil _
      | some _ => exact within_dbUnassignTag _ _ t p f hc
    | some v =>
      simp only [steps, targets]
      exact Within.ite _ (Within.nil _) (Within.ite _ (within_dbUnassignTag _ _ t p f hc) (Within.nil _))
  | undeclare p v f =>
    simp only [steps, targets]
    refine Within.ite _ (Within.nil _) (within_dbUndeclare _ fs p v f (by simp) ?_)
    intro t ht
    simp only [List.mem_append, List.mem_singleton, List.mem_map]
    exact Or.inr ⟨t, ht, rfl⟩

end EupsModel.FsEff
