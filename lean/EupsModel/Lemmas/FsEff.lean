import EupsModel.Model.FsEff
set_option linter.unusedSimpArgs false
set_option linter.unusedVariables false
/-! Helper lemmas about the file-system effect model (C08). -/
namespace EupsModel.FsEff

/-! ## Association-list facts -/

theorem get_files_cons (d : List Id) (g : FPath) (c : FileC) (r : List (FPath × FileC)) (f : FPath) :
    Fs.get ⟨d, (g, c) :: r⟩ f = if g = f then some c else Fs.get ⟨d, r⟩ f := by
  simp only [Fs.get, List.find?_cons]
  by_cases h : g = f <;> simp [h]

theorem get_setFile_same (d : List Id) (l : List (FPath × FileC)) (f : FPath) (c : FileC) :
    Fs.get ⟨d, setFile l f c⟩ f = some c := by
  induction l with
  | nil => simp [setFile, get_files_cons]
  | cons x r ih =>
    obtain ⟨g, e⟩ := x
    by_cases h : g = f
    · simp [setFile, h, get_files_cons]
    · simp [setFile, h, get_files_cons, ih]

theorem get_setFile_other (d : List Id) (l : List (FPath × FileC)) (f g : FPath) (c : FileC) (h : g ≠ f) :
    Fs.get ⟨d, setFile l f c⟩ g = Fs.get ⟨d, l⟩ g := by
  induction l with
  | nil =>
    have : ¬ f = g := fun e => h e.symm
    simp [setFile, get_files_cons, this, Fs.get]
  | cons x r ih =>
    obtain ⟨g', e⟩ := x
    by_cases h' : g' = f
    · subst h'
      have : ¬ g' = g := fun e => h e.symm
      simp [setFile, get_files_cons, this]
    · simp only [setFile, h', if_false, get_files_cons, ih]

theorem get_set_same (fs : Fs) (f : FPath) (c : FileC) : (fs.set f c).get f = some c :=
  get_setFile_same fs.dirs fs.files f c

theorem get_set_other (fs : Fs) (f g : FPath) (c : FileC) (h : g ≠ f) : (fs.set f c).get g = fs.get g :=
  get_setFile_other fs.dirs fs.files f g c h

theorem get_del_other (fs : Fs) (f g : FPath) (h : g ≠ f) : (fs.del f).get g = fs.get g := by
  obtain ⟨d, l⟩ := fs
  simp only [Fs.del]
  induction l with
  | nil => simp [delFile]
  | cons x r ih =>
    obtain ⟨g', e⟩ := x
    by_cases h' : g' = f
    · subst h'
      have : ¬ g' = g := fun e => h e.symm
      simp [delFile, get_files_cons, this, ih]
    · simp [delFile, h', get_files_cons, ih]

theorem get_del_same (fs : Fs) (f : FPath) : (fs.del f).get f = none := by
  obtain ⟨d, l⟩ := fs
  simp only [Fs.del]
  induction l with
  | nil => simp [delFile, Fs.get]
  | cons x r ih =>
    obtain ⟨g', e⟩ := x
    by_cases h' : g' = f
    · simp [delFile, h', ih]
    · simp [delFile, h', get_files_cons, ih]

/-! ## Which files an effect can change -/

def Eff.touched : Eff → List FPath
  | .mkdir _ => []
  | .rmdir _ => []
  | .creat f => [f]
  | .trunc f => [f]
  | .write f _ _ => [f]
  | .close _ => []
  | .rename a b => [a, b]
  | .unlink f => [f]

theorem get_applyEff (fs : Fs) (e : Eff) (g : FPath) (h : g ∉ e.touched) : (applyEff fs e).get g = fs.get g := by
  cases e with
  | mkdir p => simp only [applyEff]; split <;> rfl
  | rmdir p => simp only [applyEff]; split <;> rfl
  | creat f => exact get_set_other fs f g _ (by simpa [Eff.touched] using h)
  | trunc f => exact get_set_other fs f g _ (by simpa [Eff.touched] using h)
  | write f c l => exact get_set_other fs f g _ (by simpa [Eff.touched] using h)
  | close f => rfl
  | rename a b =>
    simp only [Eff.touched, List.mem_cons, List.not_mem_nil, or_false, not_or] at h
    simp only [applyEff]
    cases fs.get a with
    | none => rfl
    | some c => rw [get_set_other _ _ _ _ h.2, get_del_other _ _ _ h.1]
  | unlink f => exact get_del_other fs f g (by simpa [Eff.touched] using h)

theorem get_applyAll (fs : Fs) (es : List Eff) (g : FPath) (h : ∀ e ∈ es, g ∉ e.touched) :
    (applyAll fs es).get g = fs.get g := by
  induction es generalizing fs with
  | nil => rfl
  | cons e r ih =>
    simp only [applyAll, List.foldl_cons]
    have := ih (applyEff fs e) (fun e' he' => h e' (by simp [he']))
    simp only [applyAll] at this
    rw [this, get_applyEff fs e g (h e (by simp))]

/-- the record a step writes or removes -/
def Step.record : Step → Option RPath
  | .put r _ => some r
  | .remove r => some r
  | _ => none

theorem touched_writes (f : FPath) (c : Content) : ∀ (n : Nat), ∀ e ∈ writes f c n, e.touched = [f]
  | 0, e, he => by simp [writes] at he
  | 1, e, he => by simp [writes] at he; subst he; rfl
  | n + 2, e, he => by
    simp only [writes, List.mem_cons] at he
    rcases he with h | h
    · subst h; rfl
    · exact touched_writes f c (n + 1) e h

/-- the effects of a step touch only the record's own file and its temporary file -/
theorem touched_expand (atomic : Bool) (fs : Fs) (s : Step) :
    ∀ e ∈ expand atomic fs s, ∀ g ∈ e.touched, ∃ r, s.record = some r ∧ (g = .main r ∨ g = .tmp r) := by
  intro e he g hg
  cases s with
  | mkdir p => simp [expand] at he; subst he; simp [Eff.touched] at hg
  | rmdir p => simp [expand] at he; subst he; simp [Eff.touched] at hg
  | remove r =>
    simp [expand] at he; subst he; simp [Eff.touched] at hg
    exact ⟨r, rfl, Or.inl hg⟩
  | put r c =>
    refine ⟨r, rfl, ?_⟩
    cases atomic with
    | true =>
      simp only [expand, if_true, List.mem_append, List.mem_cons, List.mem_singleton, List.not_mem_nil, or_false] at he
      rcases he with (h | h) | h | h
      · subst h; simp [Eff.touched] at hg; exact Or.inr hg
      · rw [touched_writes _ _ _ e h] at hg; simp at hg; exact Or.inr hg
      · subst h; simp [Eff.touched] at hg
      · subst h; simp [Eff.touched] at hg; rcases hg with h | h
        · exact Or.inr h
        · exact Or.inl h
    | false =>
      simp only [expand, Bool.false_eq_true, if_false, List.mem_append, List.mem_cons, List.mem_singleton,
        List.not_mem_nil, or_false] at he
      rcases he with (h | h) | h
      · subst h; split at hg <;> (simp [Eff.touched] at hg; exact Or.inl hg)
      · rw [touched_writes _ _ _ e h] at hg; simp at hg; exact Or.inl hg
      · subst h; simp [Eff.touched] at hg

theorem touched_expandAll (atomic : Bool) (fs : Fs) (ss : List Step) :
    ∀ e ∈ expandAll atomic fs ss, ∀ g ∈ e.touched, ∃ s ∈ ss, ∃ r, s.record = some r ∧ (g = .main r ∨ g = .tmp r) := by
  induction ss generalizing fs with
  | nil => simp [expandAll]
  | cons s rest ih =>
    intro e he g hg
    simp only [expandAll, List.mem_append] at he
    rcases he with h | h
    · obtain ⟨r, hr, hgr⟩ := touched_expand atomic fs s e h g hg
      exact ⟨s, by simp, r, hr, hgr⟩
    · obtain ⟨s', hs', r, hr, hgr⟩ := ih (applyStep fs s) e h g hg
      exact ⟨s', by simp [hs'], r, hr, hgr⟩

/-! ## The steps of a command write only its targets -/

def Within (S : List RPath) (ss : List Step) : Prop := ∀ s ∈ ss, ∀ r, s.record = some r → r ∈ S

theorem Within.nil (S : List RPath) : Within S [] := by simp [Within]

theorem Within.append {S : List RPath} {a b : List Step} (ha : Within S a) (hb : Within S b) : Within S (a ++ b) := by
  intro s hs r hr
  rcases List.mem_append.mp hs with h | h
  · exact ha s h r hr
  · exact hb s h r hr

theorem Within.ite {S : List RPath} (c : Prop) [Decidable c] {a b : List Step} (ha : Within S a) (hb : Within S b) :
    Within S (if c then a else b) := by
  split
  · exact ha
  · exact hb

theorem within_single (S : List RPath) (s : Step) (h : s.record = none) : Within S [s] := by
  intro s' hs r hr
  simp at hs; subst hs; rw [h] at hr; cases hr

theorem within_single_rec (S : List RPath) (s : Step) (r : RPath) (h : s.record = some r) (hr : r ∈ S) : Within S [s] := by
  intro s' hs r' hr'
  simp at hs; subst hs; rw [h] at hr'; cases hr'; exact hr

theorem within_writeRec (S : List RPath) (fs : Fs) (r : RPath) (c : Content) (h : r ∈ S) : Within S (writeRec fs r c) := by
  unfold writeRec
  exact Within.ite _ (Within.ite _ (within_single_rec S _ r rfl h) (Within.nil S)) (within_single_rec S _ r rfl h)

theorem within_dbAssignTag (S : List RPath) (fs : Fs) (t p v f : Id) (h : RPath.cfile p t ∈ S) :
    Within S (dbAssignTag fs t p v f) := by
  unfold dbAssignTag
  exact Within.ite _ (Within.nil S) (within_writeRec S _ _ _ h)

theorem within_dbUnassignTag (S : List RPath) (fs : Fs) (t p f : Id) (h : RPath.cfile p t ∈ S) :
    Within S (dbUnassignTag fs t p f) := by
  unfold dbUnassignTag
  exact Within.ite _ (Within.nil S) (within_writeRec S _ _ _ h)

theorem within_dbDeclare (S : List RPath) (fs : Fs) (p v f : Id) (tag : Option Id) (hv : RPath.vfile p v ∈ S)
    (ht : ∀ t, tag = some t → RPath.cfile p t ∈ S) : Within S (dbDeclare fs p v f tag) := by
  unfold dbDeclare
  refine Within.append (Within.append ?_ (within_writeRec S _ _ _ hv)) ?_
  · exact Within.ite _ (Within.nil S) (within_single S _ rfl)
  · cases tag with
    | none => exact Within.nil S
    | some t => exact within_dbAssignTag S _ t p v f (ht t rfl)

theorem within_unassignAll (S : List RPath) (p f : Id) (fs : Fs) (ts : List Id)
    (h : ∀ t ∈ ts, RPath.cfile p t ∈ S) : Within S (unassignAll p f fs ts) := by
  induction ts generalizing fs with
  | nil => exact Within.nil S
  | cons t r ih =>
    simp only [unassignAll]
    exact Within.append (within_dbUnassignTag S fs t p f (h t (by simp))) (ih _ (fun t' ht' => h t' (by simp [ht'])))

theorem within_dbUndeclare (S : List RPath) (fs : Fs) (p v f : Id) (hv : RPath.vfile p v ∈ S)
    (ht : ∀ t ∈ findTags fs p v f, RPath.cfile p t ∈ S) : Within S (dbUndeclare fs p v f) := by
  unfold dbUndeclare
  refine Within.ite _ (Within.nil S) ?_
  refine Within.append (Within.append ?_ ?_) ?_
  · exact Within.ite _ (within_unassignAll S p f fs _ ht) (Within.nil S)
  · exact Within.ite _ (within_writeRec S _ _ _ hv) (Within.nil S)
  · exact Within.ite _ (within_single S _ rfl) (Within.nil S)

/-- every record a command writes or removes is one of its `targets` -/
theorem steps_within (fs : Fs) (c : Cmd) : Within (targets fs c) (steps fs c) := by
  cases c with
  | declare p v f tag force =>
    cases htag : declareTag fs p f tag with
    | none =>
      simp only [steps, targets, htag]
      refine Within.append ?_ (Within.nil _)
      exact Within.ite _ (within_dbDeclare _ fs p v f none (by simp) (by intro t ht; cases ht)) (Within.nil _)
    | some t =>
      simp only [steps, targets, htag]
      have hc : RPath.cfile p t ∈ [RPath.vfile p v] ++ [RPath.cfile p t] := by simp
      refine Within.append ?_ (Within.append ?_ (within_dbAssignTag _ _ t p v f hc))
      · exact Within.ite _ (within_dbDeclare _ fs p v f (some t) (by simp) (by intro t' ht'; cases ht'; exact hc))
          (Within.nil _)
      · cases taggedVersion _ t p f with
        | none => exact Within.nil _
        | some _ => exact within_dbUnassignTag _ _ t p f hc
  | untag t p f v =>
    have hc : RPath.cfile p t ∈ [RPath.cfile p t] := by simp
    cases v with
    | none =>
      simp only [steps, targets]
      cases taggedVersion fs t p f with
      | none => exact Within.nil _
      | some _ => exact within_dbUnassignTag _ _ t p f hc
    | some v =>
      simp only [steps, targets]
      exact Within.ite _ (Within.nil _) (Within.ite _ (within_dbUnassignTag _ _ t p f hc) (Within.nil _))
  | undeclare p v f =>
    simp only [steps, targets]
    refine Within.ite _ (Within.nil _) (within_dbUndeclare _ fs p v f (by simp) ?_)
    intro t ht
    simp only [List.mem_append, List.mem_singleton, List.mem_map]
    exact Or.inr ⟨t, ht, rfl⟩
  | undeclareAny p f =>
    simp only [steps, targets]
    cases soleVersion fs p f with
    | none => exact Within.nil _
    | some v =>
      simp only
      refine Within.ite _ (Within.nil _) (within_dbUndeclare _ fs p v f (by simp) ?_)
      intro t ht
      simp only [List.mem_append, List.mem_singleton, List.mem_map]
      exact Or.inr ⟨t, ht, rfl⟩

/-! ## Commit points of the repaired writers -/

/-- no file in the state carries the name of a temporary file of the command about to run -/
def NoTmp (fs : Fs) : Prop := ∀ x ∈ fs.files, ∀ r, x.1 ≠ FPath.tmp r

theorem setFile_notin (l : List (FPath × FileC)) (f : FPath) (c : FileC) (h : ∀ x ∈ l, x.1 ≠ f) :
    setFile l f c = l ++ [(f, c)] := by
  induction l with
  | nil => rfl
  | cons x r ih =>
    obtain ⟨g, e⟩ := x
    have hg : g ≠ f := h (g, e) (by simp)
    simp [setFile, hg, ih (fun y hy => h y (by simp [hy]))]

theorem setFile_append_last (l : List (FPath × FileC)) (f : FPath) (a c : FileC) (h : ∀ x ∈ l, x.1 ≠ f) :
    setFile (l ++ [(f, a)]) f c = l ++ [(f, c)] := by
  induction l with
  | nil => simp [setFile]
  | cons x r ih =>
    obtain ⟨g, e⟩ := x
    have hg : g ≠ f := h (g, e) (by simp)
    simp [setFile, hg, ih (fun y hy => h y (by simp [hy]))]

theorem delFile_append_last (l : List (FPath × FileC)) (f : FPath) (a : FileC) (h : ∀ x ∈ l, x.1 ≠ f) :
    delFile (l ++ [(f, a)]) f = l := by
  induction l with
  | nil => simp [delFile]
  | cons x r ih =>
    obtain ⟨g, e⟩ := x
    have hg : g ≠ f := h (g, e) (by simp)
    simp [delFile, hg, ih (fun y hy => h y (by simp [hy]))]

theorem get_append_last (d : List Id) (l : List (FPath × FileC)) (f : FPath) (a : FileC) (h : ∀ x ∈ l, x.1 ≠ f) :
    Fs.get ⟨d, l ++ [(f, a)]⟩ f = some a := by
  induction l with
  | nil => simp [get_files_cons]
  | cons x r ih =>
    obtain ⟨g, e⟩ := x
    have hg : g ≠ f := h (g, e) (by simp)
    simp [get_files_cons, hg, ih (fun y hy => h y (by simp [hy]))]

/-- the `print`s of a writer into a file that is last in the listing -/
theorem applyAll_writes (d : List Id) (l : List (FPath × FileC)) (f : FPath) (c : Content) (h : ∀ x ∈ l, x.1 ≠ f) :
    ∀ (n : Nat) (a : FileC), applyAll ⟨d, l ++ [(f, a)]⟩ (writes f c n) =
      ⟨d, l ++ [(f, if n = 0 then a else .complete c)]⟩
  | 0, a => by simp [writes, applyAll]
  | 1, a => by simp [writes, applyAll, applyEff, Fs.set, setFile_append_last l f _ _ h]
  | n + 2, a => by
    have := applyAll_writes d l f c h (n + 1) .part
    simp only [writes, applyAll, List.foldl_cons, applyEff, Fs.set, setFile_append_last l f _ _ h] at this ⊢
    simpa using this

theorem chunks_pos (c : Content) : chunks c ≠ 0 := by
  cases c <;> simp [chunks] <;> omega

/-- a completed step of the repaired writers has exactly the effect of the record-level step -/
theorem expand_net (fs : Fs) (hnt : NoTmp fs) (s : Step) : applyAll fs (expand true fs s) = applyStep fs s := by
  cases s with
  | mkdir p => rfl
  | rmdir p => rfl
  | remove r => rfl
  | put r c =>
    obtain ⟨d, l⟩ := fs
    have h : ∀ x ∈ l, x.1 ≠ FPath.tmp r := fun x hx => hnt x hx r
    simp only [expand, if_true, applyAll, List.foldl_append, List.foldl_cons, List.foldl_nil]
    simp only [applyEff, Fs.set, setFile_notin l _ _ h]
    have hw := applyAll_writes d l (.tmp r) c h (chunks c) .empty
    simp only [applyAll] at hw
    rw [hw]
    simp only [chunks_pos c, if_false, get_append_last d l _ _ h, Fs.del, delFile_append_last l _ _ h, Fs.set, applyStep]

theorem mem_setFile (l : List (FPath × FileC)) (f : FPath) (c : FileC) (x : FPath × FileC) (hx : x ∈ setFile l f c) :
    x ∈ l ∨ x = (f, c) := by
  induction l with
  | nil => simp [setFile] at hx; exact Or.inr hx
  | cons y r ih =>
    obtain ⟨g, e⟩ := y
    by_cases hg : g = f
    · simp only [setFile, hg, if_true, List.mem_cons] at hx
      rcases hx with h | h
      · exact Or.inr h
      · exact Or.inl (by simp [h])
    · simp only [setFile, hg, if_false, List.mem_cons] at hx
      rcases hx with h | h
      · exact Or.inl (by simp [h])
      · rcases ih h with h' | h'
        · exact Or.inl (by simp [h'])
        · exact Or.inr h'

theorem mem_delFile (l : List (FPath × FileC)) (f : FPath) (x : FPath × FileC) (hx : x ∈ delFile l f) : x ∈ l := by
  induction l with
  | nil => simp [delFile] at hx
  | cons y r ih =>
    obtain ⟨g, e⟩ := y
    by_cases hg : g = f
    · simp only [delFile, hg, if_true] at hx
      exact List.mem_cons_of_mem _ (ih hx)
    · simp only [delFile, hg, if_false, List.mem_cons] at hx
      rcases hx with h | h
      · simp [h]
      · exact List.mem_cons_of_mem _ (ih h)

theorem NoTmp_applyStep (fs : Fs) (h : NoTmp fs) (s : Step) : NoTmp (applyStep fs s) := by
  cases s with
  | mkdir p => simp only [applyStep, applyEff]; split <;> exact h
  | rmdir p => simp only [applyStep, applyEff]; split <;> exact h
  | put r c =>
    intro x hx r'
    rcases mem_setFile _ _ _ _ hx with h' | h'
    · exact h x h' r'
    · subst h'; simp
  | remove r =>
    intro x hx r'
    exact h x (mem_delFile _ _ _ hx) r'

/-- before its last effect a step of the repaired writers has changed no record file -/
theorem main_view_prefix (fs : Fs) (s : Step) (k : Nat) (hk : k < (expand true fs s).length) (r' : RPath) :
    (applyAll fs ((expand true fs s).take k)).get (.main r') = fs.get (.main r') := by
  apply get_applyAll
  intro e he
  cases s with
  | mkdir p => simp [expand] at hk; subst hk; simp at he
  | rmdir p => simp [expand] at hk; subst hk; simp at he
  | remove r => simp [expand] at hk; subst hk; simp at he
  | put r c =>
    simp only [expand, if_true] at hk he
    -- the effects are A ++ [close, rename]; a proper prefix lies within A ++ [close]
    have hsplit : [Eff.creat (.tmp r)] ++ writes (.tmp r) c (chunks c) ++ [Eff.close (.tmp r), Eff.rename (.tmp r) (.main r)]
        = ([Eff.creat (.tmp r)] ++ writes (.tmp r) c (chunks c) ++ [Eff.close (.tmp r)]) ++ [Eff.rename (.tmp r) (.main r)] := by
      simp
    rw [hsplit] at hk he
    have hk' : k ≤ ([Eff.creat (.tmp r)] ++ writes (.tmp r) c (chunks c) ++ [Eff.close (.tmp r)]).length := by
      simp at hk ⊢; omega
    rw [List.take_append_of_le_length hk'] at he
    have he' := List.mem_of_mem_take he
    simp only [List.mem_append, List.mem_cons, List.mem_singleton, List.not_mem_nil, or_false] at he'
    rcases he' with (h | h) | h
    · subst h; simp [Eff.touched]
    · rw [touched_writes _ _ _ e h]; simp
    · subst h; simp [Eff.touched]

theorem applyAll_append (fs : Fs) (a b : List Eff) : applyAll fs (a ++ b) = applyAll (applyAll fs a) b := by
  simp [applyAll, List.foldl_append]

/-- **Commit points.**  With the repaired writers, a kill at any point leaves every record file as it is after
some whole number of record-level steps of the command. -/
theorem commit_points (ss : List Step) : ∀ (fs : Fs), NoTmp fs → ∀ (k : Nat),
    ∃ j, j ≤ ss.length ∧ ∀ r', (applyAll fs ((expandAll true fs ss).take k)).get (.main r')
      = (applySteps fs (ss.take j)).get (.main r') := by
  induction ss with
  | nil => intro fs _ k; exact ⟨0, by simp, fun r' => by simp [expandAll, applyAll, applySteps]⟩
  | cons s rest ih =>
    intro fs hnt k
    simp only [expandAll]
    by_cases hk : k < (expand true fs s).length
    · refine ⟨0, by simp, fun r' => ?_⟩
      rw [List.take_append_of_le_length (Nat.le_of_lt hk)]
      simpa [applySteps] using main_view_prefix fs s k hk r'
    · have hk' : (expand true fs s).length ≤ k := Nat.le_of_not_lt hk
      obtain ⟨j, hj, hview⟩ := ih (applyStep fs s) (NoTmp_applyStep fs hnt s) (k - (expand true fs s).length)
      refine ⟨j + 1, by simp [hj], fun r' => ?_⟩
      rw [List.take_append, List.take_of_length_le hk', applyAll_append, expand_net fs hnt s]
      simpa [applySteps] using hview r'

/-! ## Record-level analysis: which steps write a given record -/

theorem view_applyStep_other (fs : Fs) (s : Step) (r : RPath) (h : s.record ≠ some r) :
    (applyStep fs s).get (.main r) = fs.get (.main r) := by
  cases s with
  | mkdir p => simp only [applyStep, applyEff]; split <;> rfl
  | rmdir p => simp only [applyStep, applyEff]; split <;> rfl
  | put r' c =>
    have : r ≠ r' := fun e => h (by simp [Step.record, e])
    exact get_set_other fs _ _ _ (by simpa using this)
  | remove r' =>
    have : r ≠ r' := fun e => h (by simp [Step.record, e])
    exact get_del_other fs _ _ (by simpa using this)

theorem view_applySteps_none (ss : List Step) (r : RPath) (h : ∀ s ∈ ss, s.record ≠ some r) :
    ∀ fs : Fs, (applySteps fs ss).get (.main r) = fs.get (.main r) := by
  induction ss with
  | nil => intro fs; rfl
  | cons s rest ih =>
    intro fs
    simp only [applySteps, List.foldl_cons]
    have := ih (fun s' hs' => h s' (by simp [hs'])) (applyStep fs s)
    simp only [applySteps] at this
    rw [this, view_applyStep_other fs s r (h s (by simp))]

/-- number of steps that write or remove record `r` -/
def cnt (r : RPath) (ss : List Step) : Nat := (ss.filter fun s => s.record = some r).length

theorem cnt_append (r : RPath) (a b : List Step) : cnt r (a ++ b) = cnt r a + cnt r b := by
  simp [cnt, List.filter_append]

theorem cnt_nil (r : RPath) : cnt r [] = 0 := rfl

theorem cnt_zero_iff (r : RPath) (ss : List Step) : cnt r ss = 0 ↔ ∀ s ∈ ss, s.record ≠ some r := by
  simp [cnt, List.filter_eq_nil_iff]

theorem cnt_cons (r : RPath) (s : Step) (ss : List Step) :
    cnt r (s :: ss) = (if s.record = some r then 1 else 0) + cnt r ss := by
  simp only [cnt, List.filter_cons]
  by_cases h : s.record = some r <;> simp [h]; omega

/-- a record written by at most one step of a list is, after any prefix of the list, as before or as after the
whole list -/
theorem single_writer (r : RPath) (ss : List Step) : cnt r ss ≤ 1 → ∀ (fs : Fs) (j : Nat),
    (applySteps fs (ss.take j)).get (.main r) = fs.get (.main r) ∨
    (applySteps fs (ss.take j)).get (.main r) = (applySteps fs ss).get (.main r) := by
  induction ss with
  | nil => intro _ fs j; left; simp [applySteps]
  | cons s rest ih =>
    intro hc fs j
    cases j with
    | zero => left; simp [applySteps]
    | succ j =>
      simp only [List.take_succ_cons, applySteps, List.foldl_cons]
      rw [cnt_cons] at hc
      by_cases hs : s.record = some r
      · -- the one writer: nothing after it touches `r`
        have h0 : cnt r rest = 0 := by simp [hs] at hc; omega
        have hnone := (cnt_zero_iff r rest).mp h0
        right
        have h1 := view_applySteps_none (rest.take j) r (fun s' hs' => hnone s' (List.mem_of_mem_take hs')) (applyStep fs s)
        have h2 := view_applySteps_none rest r hnone (applyStep fs s)
        simp only [applySteps] at h1 h2
        rw [h1, h2]
      · have hc' : cnt r rest ≤ 1 := by simp [hs] at hc; exact hc
        have := ih hc' (applyStep fs s) j
        simp only [applySteps] at this
        rw [view_applyStep_other fs s r hs] at this
        exact this

theorem cnt_writeRec_le (r r' : RPath) (fs : Fs) (c : Content) : cnt r (writeRec fs r' c) ≤ 1 := by
  unfold writeRec
  split
  · split <;> simp [cnt, List.filter_cons] <;> split <;> simp
  · simp [cnt, List.filter_cons]; split <;> simp

theorem cnt_writeRec_other (r r' : RPath) (fs : Fs) (c : Content) (h : r ≠ r') : cnt r (writeRec fs r' c) = 0 := by
  have h' : ¬ r' = r := fun e => h e.symm
  unfold writeRec
  split
  · split <;> simp [cnt, List.filter_cons, Step.record, h']
  · simp [cnt, List.filter_cons, Step.record, h']

theorem cnt_dbAssignTag_le (r : RPath) (fs : Fs) (t p v f : Id) : cnt r (dbAssignTag fs t p v f) ≤ 1 := by
  unfold dbAssignTag; split
  · simp [cnt]
  · exact cnt_writeRec_le _ _ _ _

theorem cnt_dbAssignTag_other (r : RPath) (fs : Fs) (t p v f : Id) (h : r ≠ .cfile p t) :
    cnt r (dbAssignTag fs t p v f) = 0 := by
  unfold dbAssignTag; split
  · simp [cnt]
  · exact cnt_writeRec_other _ _ _ _ h

theorem cnt_dbUnassignTag_le (r : RPath) (fs : Fs) (t p f : Id) : cnt r (dbUnassignTag fs t p f) ≤ 1 := by
  unfold dbUnassignTag; simp only; split
  · simp [cnt]
  · exact cnt_writeRec_le _ _ _ _

theorem cnt_dbUnassignTag_other (r : RPath) (fs : Fs) (t p f : Id) (h : r ≠ .cfile p t) :
    cnt r (dbUnassignTag fs t p f) = 0 := by
  unfold dbUnassignTag; simp only; split
  · simp [cnt]
  · exact cnt_writeRec_other _ _ _ _ h

theorem cnt_unassignAll (r : RPath) (p f : Id) (ts : List Id) : ∀ fs : Fs,
    cnt r (unassignAll p f fs ts) ≤ (ts.filter fun t => r = .cfile p t).length := by
  induction ts with
  | nil => intro fs; simp [unassignAll, cnt]
  | cons t rest ih =>
    intro fs
    simp only [unassignAll, cnt_append, List.filter_cons]
    have h2 := ih (applySteps fs (dbUnassignTag fs t p f))
    by_cases h : r = .cfile p t
    · have h1 := cnt_dbUnassignTag_le r fs t p f
      simp [h] at h1 h2 ⊢; omega
    · have h1 := cnt_dbUnassignTag_other r fs t p f h
      simp [h] at h2 ⊢; omega

theorem cnt_single_none (r : RPath) (s : Step) (h : s.record = none) : cnt r [s] = 0 := by
  simp [cnt, List.filter_cons, h]

theorem cnt_ite_le (r : RPath) (c : Prop) [Decidable c] (a b : List Step) (n : Nat) (ha : cnt r a ≤ n) (hb : cnt r b ≤ n) :
    cnt r (if c then a else b) ≤ n := by
  split <;> assumption

theorem cnt_dbDeclare_vfile (r : RPath) (fs : Fs) (p v f : Id) (tag : Option Id) (h : ∀ t, r ≠ .cfile p t) :
    cnt r (dbDeclare fs p v f tag) ≤ 1 := by
  unfold dbDeclare
  simp only [cnt_append]
  have h0 : cnt r (if p ∈ fs.dirs then [] else [Step.mkdir p]) = 0 := by
    split
    · rfl
    · exact cnt_single_none r _ rfl
  have h1 := cnt_writeRec_le r (.vfile p v) (applySteps fs (if p ∈ fs.dirs then [] else [Step.mkdir p]))
    (.ver (addFlavorV (vread (applySteps fs (if p ∈ fs.dirs then [] else [Step.mkdir p])) p v) f))
  cases tag with
  | none => simp only [cnt_nil]; omega
  | some t =>
    have h2 := cnt_dbAssignTag_other r (applySteps (applySteps fs (if p ∈ fs.dirs then [] else [Step.mkdir p]))
      (writeRec (applySteps fs (if p ∈ fs.dirs then [] else [Step.mkdir p])) (RPath.vfile p v)
        (Content.ver (addFlavorV (vread (applySteps fs (if p ∈ fs.dirs then [] else [Step.mkdir p])) p v) f)))) t p v f (h t)
    simp only [h2]; omega

/-! ### Lists of chain entries -/

theorem chainVersion_none_iff (es : List CEntry) (f : Id) : chainVersion es f = none ↔ ∀ e ∈ es, e.flavor ≠ f := by
  unfold chainVersion
  cases h : es.find? (·.flavor = f) with
  | none => simp [List.find?_eq_none] at h; simp; exact h
  | some e =>
    simp
    have := List.find?_some h
    exact ⟨e, List.mem_of_find?_eq_some h, by simpa using this⟩

theorem chainVersion_setVersionC (es : List CEntry) (f v : Id) : chainVersion (setVersionC es f v) f = some v := by
  induction es with
  | nil => simp [setVersionC, chainVersion]
  | cons e r ih =>
    by_cases h : e.flavor = f
    · simp [setVersionC, h, chainVersion]
    · simp only [setVersionC, h, if_false]
      unfold chainVersion at ih ⊢
      simp only [List.find?_cons, h, decide_false]
      exact ih

theorem dropFlavorC_setVersionC (es : List CEntry) (f v : Id) (h : ∀ e ∈ es, e.flavor ≠ f) :
    dropFlavorC (setVersionC es f v) f = es := by
  induction es with
  | nil => simp [setVersionC, dropFlavorC]
  | cons e r ih =>
    have he : e.flavor ≠ f := h e (by simp)
    simp [setVersionC, dropFlavorC, he, ih (fun e' he' => h e' (by simp [he']))]

theorem setVersionC_ne_nil (es : List CEntry) (f v : Id) : setVersionC es f v ≠ [] := by
  cases es with
  | nil => simp [setVersionC]
  | cons e r => simp only [setVersionC]; split <;> simp

theorem applySteps_append (fs : Fs) (a b : List Step) : applySteps fs (a ++ b) = applySteps (applySteps fs a) b := by
  simp [applySteps, List.foldl_append]

theorem mem_writeRec (fs : Fs) (r : RPath) (c : Content) (s : Step) (h : s ∈ writeRec fs r c) : s.record = some r := by
  unfold writeRec at h
  split at h
  · split at h
    · simp at h; subst h; rfl
    · simp at h
  · simp at h; subst h; rfl

/-- `dbDeclare … (some t)` = steps that do not touch any chain record, followed by the tag assignment -/
theorem dbDeclare_shape (fs : Fs) (p v f t : Id) :
    ∃ A : List Step, dbDeclare fs p v f (some t) = A ++ dbAssignTag (applySteps fs A) t p v f ∧
      (∀ s ∈ A, ∀ p' t', s.record ≠ some (.cfile p' t')) := by
  refine ⟨(if p ∈ fs.dirs then [] else [Step.mkdir p]) ++
    writeRec (applySteps fs (if p ∈ fs.dirs then [] else [Step.mkdir p])) (.vfile p v)
      (.ver (addFlavorV (vread (applySteps fs (if p ∈ fs.dirs then [] else [Step.mkdir p])) p v) f)), ?_, ?_⟩
  · simp only [dbDeclare, applySteps_append]
  · intro s hs p' t'
    simp only [List.mem_append] at hs
    rcases hs with h | h
    · split at h
      · simp at h
      · simp at h; subst h; simp [Step.record]
    · rw [mem_writeRec _ _ _ _ h]; simp

/-- prefixes of a concatenation -/
theorem stays_append (P : Fs → Prop) (A B : List Step) (fs : Fs)
    (hA : ∀ j, P (applySteps fs (A.take j))) (hB : ∀ j, P (applySteps (applySteps fs A) (B.take j))) :
    ∀ j, P (applySteps fs ((A ++ B).take j)) := by
  intro j
  rw [List.take_append]
  by_cases h : j ≤ A.length
  · have : j - A.length = 0 := by omega
    simp only [this, List.take_zero, List.append_nil]
    exact hA j
  · have h' : A.length ≤ j := by omega
    rw [List.take_of_length_le h', applySteps_append]
    exact hB _

theorem stays_single (P : Fs → Prop) (s : Step) (fs : Fs) (h0 : P fs) (h1 : P (applyStep fs s)) :
    ∀ j, P (applySteps fs ([s].take j)) := by
  intro j
  cases j with
  | zero => simpa [applySteps] using h0
  | succ j => simpa [applySteps] using h1

theorem cread_congr (fs fs' : Fs) (p t : Id) (h : fs'.get (.main (.cfile p t)) = fs.get (.main (.cfile p t))) :
    cread fs' p t = cread fs p t := by
  simp [cread, h]

theorem vread_congr (fs fs' : Fs) (p v : Id) (h : fs'.get (.main (.vfile p v)) = fs.get (.main (.vfile p v))) :
    vread fs' p v = vread fs p v := by
  simp [vread, h]

/-! ### Well-formed states -/

def RecOK : FPath × FileC → Prop
  | (.main (.vfile _ _), .complete (.ver es)) => es ≠ []
  | (.main (.cfile _ _), .complete (.chain es)) => es ≠ []
  | (.main _, _) => False
  | _ => True

/-- a database state as eups leaves it: no temporary file of the command about to run, one entry per path,
every record file complete, of its kind, with at least one flavor -/
structure WF (fs : Fs) : Prop where
  noTmp : NoTmp fs
  nodup : (fs.files.map (·.1)).Nodup
  recs : ∀ x ∈ fs.files, RecOK x

theorem get_some_mem (fs : Fs) (f : FPath) (c : FileC) (h : fs.get f = some c) : (f, c) ∈ fs.files := by
  unfold Fs.get at h
  cases hf : fs.files.find? (·.1 = f) with
  | none => simp [hf] at h
  | some x =>
    simp [hf] at h
    have h1 := List.mem_of_find?_eq_some hf
    have h2 := List.find?_some hf
    simp at h2
    obtain ⟨a, b⟩ := x
    simp at h h2
    subst h h2
    exact h1

theorem wf_chain_view (fs : Fs) (hwf : WF fs) (p t : Id) :
    fs.get (.main (.cfile p t)) = none ∨
    ∃ es, es ≠ [] ∧ fs.get (.main (.cfile p t)) = some (.complete (.chain es)) := by
  cases h : fs.get (.main (.cfile p t)) with
  | none => left; rfl
  | some c =>
    right
    have := hwf.recs _ (get_some_mem fs _ _ h)
    cases c with
    | empty => simp [RecOK] at this
    | part => simp [RecOK] at this
    | complete c =>
      cases c with
      | ver es => simp [RecOK] at this
      | chain es => exact ⟨es, by simpa [RecOK] using this, rfl⟩

/-- assign, undo, assign again: the record is seen as before or as after, provided the undoing step restores
what a reader saw before -/
theorem assign_unassign_assign (fs : Fs) (c : RPath) (A : List Step) (hA : ∀ s ∈ A, s.record ≠ some c)
    (c1 : Content) (X : Step)
    (hX : ∀ fs' : Fs, seenOf ((applyStep fs' X).get (.main c)) = seenOf (fs.get (.main c))) (j : Nat) :
    seenOf ((applySteps fs ((A ++ [Step.put c c1] ++ ([X] ++ [Step.put c c1])).take j)).get (.main c))
        = seenOf (fs.get (.main c)) ∨
    seenOf ((applySteps fs ((A ++ [Step.put c c1] ++ ([X] ++ [Step.put c c1])).take j)).get (.main c))
        = seenOf ((applySteps fs (A ++ [Step.put c c1] ++ ([X] ++ [Step.put c c1]))).get (.main c)) := by
  have hfinal : (applySteps fs (A ++ [Step.put c c1] ++ ([X] ++ [Step.put c c1]))).get (.main c)
      = some (.complete c1) := by
    simp only [applySteps_append]
    simp only [applySteps, List.foldl_cons, List.foldl_nil, applyStep]
    exact get_set_same _ _ _
  rw [hfinal]
  have hput : ∀ fs' : Fs, (applyStep fs' (Step.put c c1)).get (.main c) = some (.complete c1) :=
    fun fs' => get_set_same _ _ _
  let P : Fs → Prop := fun s => seenOf (s.get (.main c)) = seenOf (fs.get (.main c)) ∨
      seenOf (s.get (.main c)) = seenOf (some (.complete c1))
  have key : ∀ j, P (applySteps fs ((A ++ [Step.put c c1] ++ ([X] ++ [Step.put c c1])).take j)) := by
    refine stays_append P _ _ fs ?_ ?_
    · refine stays_append P _ _ fs ?_ ?_
      · intro j'
        show _ ∨ _
        left
        rw [view_applySteps_none (A.take j') c (fun s hs => hA s (List.mem_of_mem_take hs)) fs]
      · refine stays_single P _ _ ?_ ?_
        · show _ ∨ _
          left; rw [view_applySteps_none A c hA fs]
        · show _ ∨ _
          right; rw [hput]
    · refine stays_append P _ _ _ ?_ ?_
      · refine stays_single P _ _ ?_ ?_
        · show _ ∨ _
          right
          rw [applySteps_append]
          simp only [applySteps, List.foldl_cons, List.foldl_nil]
          rw [hput]
        · show _ ∨ _
          left; exact hX _
      · refine stays_single P _ _ ?_ ?_
        · show _ ∨ _
          left
          simp only [applySteps, List.foldl_cons, List.foldl_nil]
          exact hX _
        · show _ ∨ _
          right; rw [hput]
  exact key j

/-- The chain record of a `declare` that assigns a tag not yet assigned for the flavor: after every prefix of the
steps it reads as before or as after the completed command. -/
theorem declare_chain_fresh (fs : Fs) (hwf : WF fs) (p v f : Id) (tag : Option Id) (force : Bool) (t : Id)
    (htag : declareTag fs p f tag = some t) (hfresh : chainVersion (cread fs p t) f = none) (j : Nat) :
    seenOf ((applySteps fs ((steps fs (.declare p v f tag force)).take j)).get (.main (.cfile p t)))
        = seenOf (fs.get (.main (.cfile p t))) ∨
    seenOf ((applySteps fs ((steps fs (.declare p v f tag force)).take j)).get (.main (.cfile p t)))
        = seenOf ((applySteps fs (steps fs (.declare p v f tag force))).get (.main (.cfile p t))) := by
  have hsw : ∀ ss : List Step, cnt (.cfile p t) ss ≤ 1 →
      seenOf ((applySteps fs (ss.take j)).get (.main (.cfile p t))) = seenOf (fs.get (.main (.cfile p t))) ∨
      seenOf ((applySteps fs (ss.take j)).get (.main (.cfile p t))) = seenOf ((applySteps fs ss).get (.main (.cfile p t))) := by
    intro ss hc
    rcases single_writer _ ss hc fs j with h | h
    · left; rw [h]
    · right; rw [h]
  simp only [steps, htag]
  by_cases hD : (!hasFlavorV (vread fs p v) f || force) = true
  · -- a full declaration
    simp only [hD, if_true]
    obtain ⟨A, hA, hAc⟩ := dbDeclare_shape fs p v f t
    rw [hA]
    have hAnone : ∀ s ∈ A, s.record ≠ some (.cfile p t) := fun s hs => hAc s hs p t
    have hviewA : (applySteps fs A).get (.main (.cfile p t)) = fs.get (.main (.cfile p t)) :=
      view_applySteps_none A _ hAnone fs
    have hcreadA : cread (applySteps fs A) p t = cread fs p t := cread_congr _ _ p t hviewA
    by_cases hdecl : hasFlavorV (vread (applySteps fs A) p v) f = true
    · -- the interesting case: assign, unassign, assign again
      have hc1ne : (Content.chain (setVersionC (cread fs p t) f v)).isEmpty = false := by
        simp [Content.isEmpty, setVersionC_ne_nil]
      have hea1 : dbAssignTag (applySteps fs A) t p v f = [.put (.cfile p t) (.chain (setVersionC (cread fs p t) f v))] := by
        simp [dbAssignTag, hdecl, writeRec, hcreadA, hc1ne]
      rw [hea1]
      -- the state after the first assignment
      have hfs1 : applySteps fs (A ++ [Step.put (.cfile p t) (.chain (setVersionC (cread fs p t) f v))])
          = (applySteps fs A).set (.main (.cfile p t)) (.complete (.chain (setVersionC (cread fs p t) f v))) := by
        simp [applySteps_append, applySteps, applyStep]
      rw [hfs1]
      generalize hfs1def : (applySteps fs A).set (.main (.cfile p t)) (.complete (.chain (setVersionC (cread fs p t) f v))) = fs1
      have hview1 : fs1.get (.main (.cfile p t)) = some (.complete (.chain (setVersionC (cread fs p t) f v))) := by
        rw [← hfs1def]; exact get_set_same _ _ _
      have hcread1 : cread fs1 p t = setVersionC (cread fs p t) f v := by simp [cread, hview1]
      have hvread1 : vread fs1 p v = vread (applySteps fs A) p v := by
        apply vread_congr; rw [← hfs1def]; exact get_set_other _ _ _ _ (by simp)
      have htv : taggedVersion fs1 t p f = some v := by
        simp [taggedVersion, hcread1, chainVersion_setVersionC, hvread1, hdecl]
      have hfr : ∀ e ∈ cread fs p t, e.flavor ≠ f := (chainVersion_none_iff _ _).mp hfresh
      have heu : dbUnassignTag fs1 t p f = writeRec fs1 (.cfile p t) (.chain (cread fs p t)) := by
        simp [dbUnassignTag, hcread1, chainVersion_setVersionC, dropFlavorC_setVersionC _ _ _ hfr]
      simp only [htv, heu]
      -- what the old record was
      rcases wf_chain_view fs hwf p t with hold | ⟨es, hes, hold⟩
      · -- the tag was assigned to no flavor: the chain file is removed again in between
        have hes0 : cread fs p t = [] := by simp [cread, hold]
        have hX : writeRec fs1 (.cfile p t) (.chain (cread fs p t)) = [.remove (.cfile p t)] := by
          simp [writeRec, hes0, Content.isEmpty, hview1]
        rw [hX]
        generalize hfs2def : applySteps fs1 [Step.remove (.cfile p t)] = fs2
        have hfs2 : fs2 = fs1.del (.main (.cfile p t)) := by rw [← hfs2def]; simp [applySteps, applyStep]
        have hview2 : fs2.get (.main (.cfile p t)) = none := by rw [hfs2]; exact get_del_same _ _
        have hvread2 : vread fs2 p v = vread fs1 p v := by
          apply vread_congr; rw [hfs2]; exact get_del_other _ _ _ (by simp)
        have hcread2 : cread fs2 p t = [] := by simp [cread, hview2]
        have hea : dbAssignTag fs2 t p v f = [.put (.cfile p t) (.chain (setVersionC (cread fs p t) f v))] := by
          simp [dbAssignTag, hvread2, hvread1, hdecl, writeRec, hcread2, hes0, Content.isEmpty, setVersionC_ne_nil]
        rw [hea]
        refine assign_unassign_assign fs _ A hAnone _ _ ?_ j
        intro fs'
        simp only [applyStep, get_del_same, hold]
      · -- the tag was assigned to other flavors: the chain file is rewritten without this flavor in between
        have hes0 : cread fs p t = es := by simp [cread, hold]
        have hX : writeRec fs1 (.cfile p t) (.chain (cread fs p t)) = [.put (.cfile p t) (.chain es)] := by
          simp [writeRec, hes0, Content.isEmpty, hes]
        rw [hX]
        generalize hfs2def : applySteps fs1 [Step.put (.cfile p t) (.chain es)] = fs2
        have hfs2 : fs2 = fs1.set (.main (.cfile p t)) (.complete (.chain es)) := by
          rw [← hfs2def]; simp [applySteps, applyStep]
        have hview2 : fs2.get (.main (.cfile p t)) = some (.complete (.chain es)) := by rw [hfs2]; exact get_set_same _ _ _
        have hvread2 : vread fs2 p v = vread fs1 p v := by
          apply vread_congr; rw [hfs2]; exact get_set_other _ _ _ _ (by simp)
        have hcread2 : cread fs2 p t = es := by simp [cread, hview2]
        have hea : dbAssignTag fs2 t p v f = [.put (.cfile p t) (.chain (setVersionC (cread fs p t) f v))] := by
          simp [dbAssignTag, hvread2, hvread1, hdecl, writeRec, hcread2, hes0, Content.isEmpty, setVersionC_ne_nil]
        rw [hea]
        refine assign_unassign_assign fs _ A hAnone _ _ ?_ j
        intro fs'
        simp only [applyStep, get_set_same, hold]
    · -- the version record does not declare the flavor after all: no tag is assigned
      have hea1 : dbAssignTag (applySteps fs A) t p v f = [] := by simp [dbAssignTag, hdecl]
      rw [hea1, List.append_nil]
      have htv : taggedVersion (applySteps fs A) t p f = none := by
        simp [taggedVersion, hcreadA, hfresh]
      have hea : dbAssignTag (applySteps fs A) t p v f = [] := hea1
      simp only [htv, List.nil_append, applySteps_append, applySteps, List.foldl_nil] at *
      simp only [hea, List.append_nil]
      apply hsw
      rw [(cnt_zero_iff _ _).mpr hAnone]; omega
  · -- only the tag is (re)assigned
    have hD' : (!hasFlavorV (vread fs p v) f || force) = false := by simpa using hD
    have htv : taggedVersion fs t p f = none := by simp [taggedVersion, hfresh]
    simp only [hD', Bool.false_eq_true, if_false, List.nil_append, applySteps, List.foldl_nil, htv]
    apply hsw
    exact cnt_dbAssignTag_le _ _ _ _ _ _

/-! ### The other records and the other commands: at most one step writes them -/

theorem cnt_dbDeclare_cfile_other (fs : Fs) (p v f t p' t' : Id) (h : RPath.cfile p' t' ≠ .cfile p t) :
    cnt (.cfile p' t') (dbDeclare fs p v f (some t)) = 0 := by
  obtain ⟨A, hA, hAc⟩ := dbDeclare_shape fs p v f t
  rw [hA, cnt_append, (cnt_zero_iff _ _).mpr (fun s hs => hAc s hs p' t'), cnt_dbAssignTag_other _ _ _ _ _ _ h]

theorem cnt_dbDeclare_none_cfile (fs : Fs) (p v f p' t' : Id) : cnt (.cfile p' t') (dbDeclare fs p v f none) = 0 := by
  rw [cnt_zero_iff]
  intro s hs
  unfold dbDeclare at hs
  simp only [List.append_nil, List.mem_append] at hs
  rcases hs with h | h
  · split at h
    · simp at h
    · simp at h; subst h; simp [Step.record]
  · rw [mem_writeRec _ _ _ _ h]; simp

/-- a `declare` writes every record other than the chain of the tag it assigns at most once -/
theorem cnt_steps_declare (fs : Fs) (p v f : Id) (tag : Option Id) (force : Bool) (r : RPath)
    (h : ∀ t, declareTag fs p f tag = some t → r ≠ .cfile p t) :
    cnt r (steps fs (.declare p v f tag force)) ≤ 1 := by
  simp only [steps]
  cases htag : declareTag fs p f tag with
  | none =>
    simp only [List.append_nil]
    cases r with
    | vfile p' v' =>
      apply cnt_ite_le
      · exact cnt_dbDeclare_vfile _ fs p v f none (by intro t; simp)
      · simp [cnt]
    | cfile p' t' =>
      apply cnt_ite_le
      · rw [cnt_dbDeclare_none_cfile]; omega
      · simp [cnt]
  | some t =>
    have hr : r ≠ .cfile p t := h t htag
    simp only [cnt_append]
    have h3 := fun fs' => cnt_dbAssignTag_other r fs' t p v f hr
    have h1 : cnt r (if (!hasFlavorV (vread fs p v) f || force) = true then dbDeclare fs p v f (some t) else []) ≤ 1 := by
      apply cnt_ite_le
      · cases r with
        | vfile p' v' => exact cnt_dbDeclare_vfile _ fs p v f (some t) (by intro t; simp)
        | cfile p' t' => rw [cnt_dbDeclare_cfile_other fs p v f t p' t' hr]; omega
      · simp [cnt]
    generalize (applySteps fs (if (!hasFlavorV (vread fs p v) f || force) = true then dbDeclare fs p v f (some t) else [])) = fs1
    cases taggedVersion fs1 t p f with
    | none => simp only [cnt_nil, h3]; omega
    | some _ => simp only [cnt_dbUnassignTag_other r fs1 t p f hr, h3]; omega

theorem cnt_steps_untag (fs : Fs) (t p f : Id) (v : Option Id) (r : RPath) : cnt r (steps fs (.untag t p f v)) ≤ 1 := by
  simp only [steps]
  cases v with
  | none =>
    simp only
    cases taggedVersion fs t p f with
    | none => simp [cnt]
    | some _ => exact cnt_dbUnassignTag_le _ _ _ _ _
  | some v =>
    simp only
    apply cnt_ite_le
    · simp [cnt]
    · apply cnt_ite_le
      · exact cnt_dbUnassignTag_le _ _ _ _ _
      · simp [cnt]

theorem tagOf_some (p v f t : Id) (x : FPath × FileC) (h : tagOf p v f x = some t) : x.1 = .main (.cfile p t) := by
  obtain ⟨path, c⟩ := x
  cases path with
  | main r =>
    cases r with
    | vfile _ _ => simp [tagOf] at h
    | cfile p' t' =>
      cases c with
      | empty => simp [tagOf] at h
      | part => simp [tagOf] at h
      | complete c =>
        cases c with
        | ver _ => simp [tagOf] at h
        | chain es =>
          simp only [tagOf] at h
          split at h
          · rename_i hc
            simp at hc h
            subst h
            simp [hc.1]
          · simp at h
  | tmp _ => simp [tagOf] at h
  | stale _ _ => simp [tagOf] at h

theorem mem_findTags (d : List Id) (l : List (FPath × FileC)) (p v f t : Id) (h : t ∈ findTags ⟨d, l⟩ p v f) :
    FPath.main (.cfile p t) ∈ l.map (·.1) := by
  simp only [findTags, List.mem_filterMap] at h
  obtain ⟨x, hx, hxt⟩ := h
  rw [← tagOf_some p v f t x hxt]
  exact List.mem_map_of_mem hx

theorem findTags_nodup (fs : Fs) (hn : (fs.files.map (·.1)).Nodup) (p v f : Id) : (findTags fs p v f).Nodup := by
  obtain ⟨d, l⟩ := fs
  simp only at hn
  induction l with
  | nil => simp [findTags]
  | cons x r ih =>
    simp only [List.map_cons, List.nodup_cons] at hn
    have ihr := ih hn.2
    simp only [findTags, List.filterMap_cons] at ihr ⊢
    cases hx : tagOf p v f x with
    | none => simpa using ihr
    | some t =>
      simp only [List.nodup_cons]
      refine ⟨?_, ihr⟩
      intro hmem
      have := mem_findTags d r p v f t (by simpa [findTags] using hmem)
      apply hn.1
      rw [tagOf_some p v f t x hx]
      exact this

theorem filter_eq_length_le_one (l : List Id) (hn : l.Nodup) (P : Id → Bool) (a : Id) (hP : ∀ t, P t = true → t = a) :
    (l.filter P).length ≤ 1 := by
  induction l with
  | nil => simp
  | cons x r ih =>
    simp only [List.nodup_cons] at hn
    simp only [List.filter_cons]
    split
    · rename_i hx
      have hxa := hP x hx
      have : r.filter P = [] := by
        rw [List.filter_eq_nil_iff]
        intro y hy hpy
        have := hP y hpy
        exact hn.1 (hxa ▸ this ▸ hy)
      simp [this]
    · exact ih hn.2

theorem cnt_steps_undeclare (fs : Fs) (hn : (fs.files.map (·.1)).Nodup) (p v f : Id) (r : RPath) :
    cnt r (steps fs (.undeclare p v f)) ≤ 1 := by
  simp only [steps]
  apply cnt_ite_le
  · simp [cnt]
  unfold dbUndeclare
  apply cnt_ite_le
  · simp [cnt]
  simp only [cnt_append]
  have h3 : ∀ (c : Prop) [Decidable c], cnt r (if c then [Step.rmdir p] else []) = 0 := by
    intro c _
    split
    · exact cnt_single_none r _ rfl
    · rfl
  rw [h3]
  cases r with
  | vfile p' v' =>
    have h1 : ∀ (c : Prop) [Decidable c], cnt (.vfile p' v') (if c then unassignAll p f fs (findTags fs p v f) else []) = 0 := by
      intro c _
      split
      · have := cnt_unassignAll (.vfile p' v') p f (findTags fs p v f) fs
        have h0 : (List.filter (fun t => decide (RPath.vfile p' v' = RPath.cfile p t)) (findTags fs p v f)).length = 0 := by
          simp
        omega
      · rfl
    rw [h1]
    have h2 : ∀ (c : Prop) [Decidable c] fs' cc, cnt (.vfile p' v') (if c then writeRec fs' (.vfile p v) cc else []) ≤ 1 := by
      intro c _ fs' cc
      apply cnt_ite_le
      · exact cnt_writeRec_le _ _ _ _
      · simp [cnt]
    have := h2 (hasFlavorV (vread fs p v) f = true)
      (applySteps fs (if hasFlavorV (vread fs p v) f = true then unassignAll p f fs (findTags fs p v f) else []))
      (.ver (dropFlavorV (vread fs p v) f))
    omega
  | cfile p' t' =>
    have h2 : ∀ (c : Prop) [Decidable c] fs' cc, cnt (.cfile p' t') (if c then writeRec fs' (.vfile p v) cc else []) = 0 := by
      intro c _ fs' cc
      split
      · exact cnt_writeRec_other _ _ _ _ (by simp)
      · rfl
    rw [h2]
    have h1 : ∀ (c : Prop) [Decidable c], cnt (.cfile p' t') (if c then unassignAll p f fs (findTags fs p v f) else []) ≤ 1 := by
      intro c _
      apply cnt_ite_le
      · refine Nat.le_trans (cnt_unassignAll (.cfile p' t') p f (findTags fs p v f) fs) ?_
        apply filter_eq_length_le_one _ (findTags_nodup fs hn p v f) _ t'
        intro t ht
        simp at ht
        exact ht.2.symm
      · simp [cnt]
    have := h1 (hasFlavorV (vread fs p v) f = true)
    omega

/-- the completed command, effect by effect, ends in the state the record-level steps describe -/
theorem expandAll_net (ss : List Step) : ∀ fs : Fs, NoTmp fs → applyAll fs (expandAll true fs ss) = applySteps fs ss := by
  induction ss with
  | nil => intro fs _; rfl
  | cons s rest ih =>
    intro fs hnt
    simp only [expandAll, applyAll_append, expand_net fs hnt s, ih _ (NoTmp_applyStep fs hnt s)]
    simp [applySteps]

/-! ### Assembling: every record after every prefix of the steps -/

theorem retag_false_fresh (fs : Fs) (p v f : Id) (tag : Option Id) (force : Bool) (t : Id)
    (hnr : retag fs (.declare p v f tag force) = false) (htag : declareTag fs p f tag = some t) :
    chainVersion (cread fs p t) f = none := by
  simp only [retag, htag] at hnr
  cases h : chainVersion (cread fs p t) f with
  | none => rfl
  | some x => simp [h] at hnr

/-- after every prefix of the record-level steps of a command that is not a re-tag, every record reads as before
or as after all the steps -/
theorem steps_atomic (fs : Fs) (hwf : WF fs) (c : Cmd) (hnr : retag fs c = false) (r : RPath) (j : Nat) :
    seenOf ((applySteps fs ((steps fs c).take j)).get (.main r)) = seenOf (fs.get (.main r)) ∨
    seenOf ((applySteps fs ((steps fs c).take j)).get (.main r)) = seenOf ((applySteps fs (steps fs c)).get (.main r)) := by
  have hsw : cnt r (steps fs c) ≤ 1 →
      seenOf ((applySteps fs ((steps fs c).take j)).get (.main r)) = seenOf (fs.get (.main r)) ∨
      seenOf ((applySteps fs ((steps fs c).take j)).get (.main r)) = seenOf ((applySteps fs (steps fs c)).get (.main r)) := by
    intro hc
    rcases single_writer r _ hc fs j with h | h
    · left; rw [h]
    · right; rw [h]
  cases c with
  | declare p v f tag force =>
    by_cases h : ∃ t, declareTag fs p f tag = some t ∧ r = .cfile p t
    · obtain ⟨t, htag, hr⟩ := h
      subst hr
      exact declare_chain_fresh fs hwf p v f tag force t htag (retag_false_fresh fs p v f tag force t hnr htag) j
    · apply hsw
      apply cnt_steps_declare
      intro t ht hr
      exact h ⟨t, ht, hr⟩
  | untag t p f v => exact hsw (cnt_steps_untag fs t p f v r)
  | undeclare p v f => exact hsw (cnt_steps_undeclare fs hwf.nodup p v f r)
  | undeclareAny p f =>
    apply hsw
    simp only [steps]
    cases soleVersion fs p f with
    | none => simp [cnt]
    | some v =>
      have := cnt_steps_undeclare fs hwf.nodup p v f r
      simpa only [steps] using this

/-! ### No record is ever seen empty or truncated -/

theorem seenOf_complete_ne_garbled (c : Content) : seenOf (some (.complete c)) ≠ .garbled := by
  cases c <;> simp [seenOf]

theorem not_garbled_applyStep (fs : Fs) (s : Step) (h : ∀ r, seenOf (fs.get (.main r)) ≠ .garbled) :
    ∀ r, seenOf ((applyStep fs s).get (.main r)) ≠ .garbled := by
  intro r
  by_cases hs : s.record = some r
  · cases s with
    | mkdir p => simp [Step.record] at hs
    | rmdir p => simp [Step.record] at hs
    | put r' c =>
      simp [Step.record] at hs; subst hs
      simp only [applyStep, get_set_same]
      exact seenOf_complete_ne_garbled c
    | remove r' =>
      simp [Step.record] at hs; subst hs
      simp [applyStep, get_del_same, seenOf]
  · rw [view_applyStep_other fs s r hs]; exact h r

theorem not_garbled_applySteps (ss : List Step) : ∀ fs : Fs, (∀ r, seenOf (fs.get (.main r)) ≠ .garbled) →
    ∀ r, seenOf ((applySteps fs ss).get (.main r)) ≠ .garbled := by
  induction ss with
  | nil => intro fs h; simpa [applySteps] using h
  | cons s rest ih =>
    intro fs h
    simp only [applySteps, List.foldl_cons]
    exact ih _ (not_garbled_applyStep fs s h)

theorem wf_not_garbled (fs : Fs) (hwf : WF fs) (r : RPath) : seenOf (fs.get (.main r)) ≠ .garbled := by
  cases h : fs.get (.main r) with
  | none => simp [seenOf]
  | some c =>
    have := hwf.recs _ (get_some_mem fs _ _ h)
    cases c with
    | empty => cases r <;> simp [RecOK] at this
    | part => cases r <;> simp [RecOK] at this
    | complete c => exact seenOf_complete_ne_garbled c

/-! ## The shape of a crash state, and the reader's listing -/

/-- effects that only write to / close the temporary file of `r` -/
def TmpOnly (r : RPath) (e : Eff) : Prop := (∃ c l, e = .write (.tmp r) c l) ∨ e = .close (.tmp r)

theorem tmp_effects_shape (d : List Id) (l : List (FPath × FileC)) (r : RPath) (h : ∀ x ∈ l, x.1 ≠ FPath.tmp r)
    (es : List Eff) (hes : ∀ e ∈ es, TmpOnly r e) :
    ∀ a : FileC, ∃ y, applyAll ⟨d, l ++ [(.tmp r, a)]⟩ es = ⟨d, l ++ [(.tmp r, y)]⟩ := by
  induction es with
  | nil => intro a; exact ⟨a, rfl⟩
  | cons e rest ih =>
    intro a
    have hrest := ih (fun e' he' => hes e' (by simp [he']))
    rcases hes e (by simp) with ⟨c, lst, he⟩ | he
    · subst he
      obtain ⟨y, hy⟩ := hrest (if lst then .complete c else .part)
      refine ⟨y, ?_⟩
      simp only [applyAll, List.foldl_cons, applyEff, Fs.set, setFile_append_last l _ _ _ h] at hy ⊢
      exact hy
    · subst he
      obtain ⟨y, hy⟩ := hrest a
      exact ⟨y, by simpa [applyAll, applyEff] using hy⟩

theorem writes_tmpOnly (r : RPath) (c : Content) : ∀ n, ∀ e ∈ writes (.tmp r) c n, TmpOnly r e
  | 0, e, he => by simp [writes] at he
  | 1, e, he => by simp [writes] at he; subst he; exact Or.inl ⟨_, _, rfl⟩
  | n + 2, e, he => by
    simp only [writes, List.mem_cons] at he
    rcases he with h | h
    · subst h; exact Or.inl ⟨_, _, rfl⟩
    · exact writes_tmpOnly r c (n + 1) e h

/-- before its last effect, a step of the repaired writers has left the state as it was, except possibly for its
own temporary file at the end of the listing -/
theorem prefix_shape (fs : Fs) (hnt : NoTmp fs) (s : Step) (k : Nat) (hk : k < (expand true fs s).length) :
    applyAll fs ((expand true fs s).take k) = fs ∨
    ∃ r y, applyAll fs ((expand true fs s).take k) = ⟨fs.dirs, fs.files ++ [(.tmp r, y)]⟩ := by
  cases s with
  | mkdir p => simp [expand] at hk; subst hk; left; rfl
  | rmdir p => simp [expand] at hk; subst hk; left; rfl
  | remove r => simp [expand] at hk; subst hk; left; rfl
  | put r c =>
    cases k with
    | zero => left; rfl
    | succ k' =>
      right
      obtain ⟨d, l⟩ := fs
      have h : ∀ x ∈ l, x.1 ≠ FPath.tmp r := fun x hx => hnt x hx r
      simp only [expand, if_true] at hk ⊢
      have hsplit : [Eff.creat (.tmp r)] ++ writes (.tmp r) c (chunks c) ++ [Eff.close (.tmp r), Eff.rename (.tmp r) (.main r)]
          = Eff.creat (.tmp r) :: ((writes (.tmp r) c (chunks c) ++ [Eff.close (.tmp r)]) ++ [Eff.rename (.tmp r) (.main r)]) := by
        simp
      rw [hsplit] at hk ⊢
      simp only [List.take_succ_cons, applyAll, List.foldl_cons, applyEff, Fs.set, setFile_notin l _ _ h]
      have hk' : k' ≤ (writes (.tmp r) c (chunks c) ++ [Eff.close (.tmp r)]).length := by
        simp at hk ⊢; omega
      rw [List.take_append_of_le_length hk']
      have hto : ∀ e ∈ (writes (.tmp r) c (chunks c) ++ [Eff.close (.tmp r)]).take k', TmpOnly r e := by
        intro e he
        have := List.mem_of_mem_take he
        rcases List.mem_append.mp this with h1 | h1
        · exact writes_tmpOnly r c _ e h1
        · simp at h1; subst h1; exact Or.inr rfl
      obtain ⟨y, hy⟩ := tmp_effects_shape d l r h _ hto .empty
      exact ⟨r, y, by simpa [applyAll] using hy⟩

/-- **Shape of a crash state**: the state after some whole number of record-level steps, plus possibly the
temporary file of the step that was under way. -/
theorem crash_shape (ss : List Step) : ∀ (fs : Fs), NoTmp fs → ∀ (k : Nat),
    ∃ j, j ≤ ss.length ∧
      (applyAll fs ((expandAll true fs ss).take k) = applySteps fs (ss.take j) ∨
       ∃ r y, applyAll fs ((expandAll true fs ss).take k) =
         ⟨(applySteps fs (ss.take j)).dirs, (applySteps fs (ss.take j)).files ++ [(.tmp r, y)]⟩) := by
  induction ss with
  | nil => intro fs _ k; exact ⟨0, by simp, Or.inl (by simp [expandAll, applyAll, applySteps])⟩
  | cons s rest ih =>
    intro fs hnt k
    simp only [expandAll]
    by_cases hk : k < (expand true fs s).length
    · refine ⟨0, by simp, ?_⟩
      rw [List.take_append_of_le_length (Nat.le_of_lt hk)]
      simpa [applySteps] using prefix_shape fs hnt s k hk
    · have hk' : (expand true fs s).length ≤ k := Nat.le_of_not_lt hk
      obtain ⟨j, hj, hshape⟩ := ih (applyStep fs s) (NoTmp_applyStep fs hnt s) (k - (expand true fs s).length)
      refine ⟨j + 1, by simp [hj], ?_⟩
      rw [List.take_append, List.take_of_length_le hk', applyAll_append, expand_net fs hnt s]
      simpa [applySteps] using hshape

/-- every record file is complete and of its kind -/
def EntryGood : FPath × FileC → Prop
  | (.main (.vfile _ _), .complete (.ver _)) => True
  | (.main (.cfile _ _), .complete (.chain _)) => True
  | (.main _, _) => False
  | _ => True

def MainGood (fs : Fs) : Prop := ∀ x ∈ fs.files, EntryGood x

theorem recordsComplete_of_mainGood (fs : Fs) (h : MainGood fs) : recordsComplete fs = true := by
  unfold recordsComplete
  rw [List.all_eq_true]
  intro x hx
  have := h x hx
  obtain ⟨path, c⟩ := x
  cases path with
  | main r =>
    cases r with
    | vfile p v =>
      cases c with
      | empty => simp [EntryGood] at this
      | part => simp [EntryGood] at this
      | complete cc => cases cc <;> simp_all [EntryGood]
    | cfile p t =>
      cases c with
      | empty => simp [EntryGood] at this
      | part => simp [EntryGood] at this
      | complete cc => cases cc <;> simp_all [EntryGood]
  | tmp r => rfl
  | stale r i => rfl

theorem mainGood_of_wf (fs : Fs) (h : WF fs) : MainGood fs := by
  intro x hx
  have := h.recs x hx
  obtain ⟨path, c⟩ := x
  cases path with
  | main r =>
    cases r with
    | vfile p v =>
      cases c with
      | empty => simp [RecOK] at this
      | part => simp [RecOK] at this
      | complete cc => cases cc <;> simp_all [RecOK, EntryGood]
    | cfile p t =>
      cases c with
      | empty => simp [RecOK] at this
      | part => simp [RecOK] at this
      | complete cc => cases cc <;> simp_all [RecOK, EntryGood]
  | tmp r => simp [EntryGood]
  | stale r i => simp [EntryGood]

/-- a step writes content of the record's kind -/
def StepKindOK : Step → Prop
  | .put (.vfile _ _) (.ver _) => True
  | .put (.cfile _ _) (.chain _) => True
  | .put _ _ => False
  | _ => True

def KindsOK (ss : List Step) : Prop := ∀ s ∈ ss, StepKindOK s

theorem KindsOK.nil : KindsOK [] := by simp [KindsOK]
theorem KindsOK.append {a b : List Step} (ha : KindsOK a) (hb : KindsOK b) : KindsOK (a ++ b) := by
  intro s hs
  rcases List.mem_append.mp hs with h | h
  · exact ha s h
  · exact hb s h
theorem KindsOK.ite (c : Prop) [Decidable c] {a b : List Step} (ha : KindsOK a) (hb : KindsOK b) :
    KindsOK (if c then a else b) := by
  split <;> assumption
theorem kinds_single (s : Step) (h : StepKindOK s) : KindsOK [s] := by
  intro s' hs; simp at hs; subst hs; exact h

theorem kinds_writeRec_v (fs : Fs) (p v : Id) (es : List VEntry) : KindsOK (writeRec fs (.vfile p v) (.ver es)) := by
  unfold writeRec
  exact KindsOK.ite _ (KindsOK.ite _ (kinds_single _ (by simp [StepKindOK])) KindsOK.nil) (kinds_single _ (by simp [StepKindOK]))

theorem kinds_writeRec_c (fs : Fs) (p t : Id) (es : List CEntry) : KindsOK (writeRec fs (.cfile p t) (.chain es)) := by
  unfold writeRec
  exact KindsOK.ite _ (KindsOK.ite _ (kinds_single _ (by simp [StepKindOK])) KindsOK.nil) (kinds_single _ (by simp [StepKindOK]))

theorem kinds_dbAssignTag (fs : Fs) (t p v f : Id) : KindsOK (dbAssignTag fs t p v f) := by
  unfold dbAssignTag; exact KindsOK.ite _ KindsOK.nil (kinds_writeRec_c _ _ _ _)

theorem kinds_dbUnassignTag (fs : Fs) (t p f : Id) : KindsOK (dbUnassignTag fs t p f) := by
  unfold dbUnassignTag; exact KindsOK.ite _ KindsOK.nil (kinds_writeRec_c _ _ _ _)

theorem kinds_dbDeclare (fs : Fs) (p v f : Id) (tag : Option Id) : KindsOK (dbDeclare fs p v f tag) := by
  unfold dbDeclare
  refine KindsOK.append (KindsOK.append ?_ (kinds_writeRec_v _ _ _ _)) ?_
  · exact KindsOK.ite _ KindsOK.nil (kinds_single _ (by simp [StepKindOK]))
  · cases tag with
    | none => exact KindsOK.nil
    | some t => exact kinds_dbAssignTag _ _ _ _ _

theorem kinds_unassignAll (p f : Id) (ts : List Id) : ∀ fs : Fs, KindsOK (unassignAll p f fs ts) := by
  induction ts with
  | nil => intro fs; exact KindsOK.nil
  | cons t r ih => intro fs; simp only [unassignAll]; exact KindsOK.append (kinds_dbUnassignTag _ _ _ _) (ih _)

theorem kinds_dbUndeclare (fs : Fs) (p v f : Id) : KindsOK (dbUndeclare fs p v f) := by
  unfold dbUndeclare
  refine KindsOK.ite _ KindsOK.nil ?_
  refine KindsOK.append (KindsOK.append ?_ ?_) ?_
  · exact KindsOK.ite _ (kinds_unassignAll _ _ _ _) KindsOK.nil
  · exact KindsOK.ite _ (kinds_writeRec_v _ _ _ _) KindsOK.nil
  · exact KindsOK.ite _ (kinds_single _ (by simp [StepKindOK])) KindsOK.nil

theorem kinds_steps (fs : Fs) (c : Cmd) : KindsOK (steps fs c) := by
  cases c with
  | declare p v f tag force =>
    simp only [steps]
    refine KindsOK.append (KindsOK.ite _ (kinds_dbDeclare _ _ _ _ _) KindsOK.nil) ?_
    cases declareTag fs p f tag with
    | none => exact KindsOK.nil
    | some t =>
      simp only
      refine KindsOK.append ?_ (kinds_dbAssignTag _ _ _ _ _)
      cases taggedVersion _ t p f with
      | none => exact KindsOK.nil
      | some _ => exact kinds_dbUnassignTag _ _ _ _
  | untag t p f v =>
    simp only [steps]
    cases v with
    | none =>
      simp only
      cases taggedVersion fs t p f with
      | none => exact KindsOK.nil
      | some _ => exact kinds_dbUnassignTag _ _ _ _
    | some v =>
      simp only
      exact KindsOK.ite _ KindsOK.nil (KindsOK.ite _ (kinds_dbUnassignTag _ _ _ _) KindsOK.nil)
  | undeclare p v f =>
    simp only [steps]
    exact KindsOK.ite _ KindsOK.nil (kinds_dbUndeclare _ _ _ _)
  | undeclareAny p f =>
    simp only [steps]
    cases soleVersion fs p f with
    | none => exact KindsOK.nil
    | some v =>
      simp only
      exact KindsOK.ite _ KindsOK.nil (kinds_dbUndeclare _ _ _ _)

theorem mainGood_applyStep (fs : Fs) (s : Step) (h : MainGood fs) (hs : StepKindOK s) : MainGood (applyStep fs s) := by
  cases s with
  | mkdir p => simp only [applyStep, applyEff]; split <;> exact h
  | rmdir p => simp only [applyStep, applyEff]; split <;> exact h
  | put r c =>
    intro x hx
    rcases mem_setFile _ _ _ _ hx with h' | h'
    · exact h x h'
    · subst h'
      cases r <;> cases c <;> simp_all [StepKindOK, EntryGood]
  | remove r =>
    intro x hx
    exact h x (mem_delFile _ _ _ hx)

theorem mainGood_applySteps (ss : List Step) : ∀ fs : Fs, MainGood fs → KindsOK ss → MainGood (applySteps fs ss) := by
  induction ss with
  | nil => intro fs h _; exact h
  | cons s rest ih =>
    intro fs h hk
    simp only [applySteps, List.foldl_cons]
    exact ih _ (mainGood_applyStep fs s h (hk s (by simp))) (fun s' hs' => hk s' (by simp [hs']))

/-- in every crash state of the repaired writers every record file is complete and of its kind -/
theorem mainGood_crash (fs : Fs) (hwf : WF fs) (c : Cmd) (k : Nat) : MainGood (crashAt { atomic := true } fs c k) := by
  obtain ⟨j, _, hshape⟩ := crash_shape (steps fs c) fs hwf.noTmp k
  have hS : MainGood (applySteps fs ((steps fs c).take j)) :=
    mainGood_applySteps _ fs (mainGood_of_wf fs hwf) (fun s hs => kinds_steps fs c s (List.mem_of_mem_take hs))
  unfold crashAt effects
  rcases hshape with h | ⟨r, y, h⟩
  · rw [h]; exact hS
  · rw [h]
    intro x hx
    simp only [List.mem_append, List.mem_singleton] at hx
    rcases hx with h1 | h1
    · exact hS x h1
    · subst h1; simp [EntryGood]

end EupsModel.FsEff
