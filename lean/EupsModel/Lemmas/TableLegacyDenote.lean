import EupsModel.Lemmas.TableGrammar
import EupsModel.Lemmas.TableLegacy
import EupsModel.Lemmas.TableBlocks
/-! C11: what a legacy table (runs of `Flavor = f` lines followed by command lines) *denotes*: the commands before
the first group always, and of every group its commands when the flavor is one of the group's flavors.  Composition
of `rewrite_legacy` (the text is rewritten to `if` blocks), the classification of the rewritten lines, and
`blocks_lines`. -/
namespace EupsModel.C11Spec
open EupsModel.Cond EupsModel.TableParse

/-- `FLAVOR == f` as `_rewrite` writes it (`first`: nothing before the keyword, else one blank) -/
def flavAtom (first : Bool) (f : Str) : Atom :=
  ⟨[70, 76, 65, 86, 79, 82], .flavor, false, f, none, if first then [] else [32], [32], [32]⟩

/-- `FLAVOR == f || FLAVOR == g1 || …` as a written condition -/
def flavCExpr (f : Str) (gs : List Str) : CExpr :=
  gs.foldl (fun c g => .or c (.atom (flavAtom false g)) [32]) (.atom (flavAtom true f))

/-- a legacy group of the grammar: its `Flavor =` lines, a command line, further command / blank / comment lines -/
structure LGroup where
  f : FlavLine
  more : List FlavLine
  first : WCmd
  rest : List GLine
  deriving Repr

def LGroup.flavors (g : LGroup) : List Str := g.f.flavor :: g.more.map (·.flavor)

def LGroup.lines (g : LGroup) : List GLine := .cmd g.first :: g.rest

def LGroup.ok (pdir : Option Str) (g : LGroup) : Bool :=
  g.f.ok && g.more.all FlavLine.ok && g.flavors.all plainWord && g.lines.all (GLine.ok pdir)

def LGroup.toF (g : LGroup) : FGroup := ⟨g.f, g.more, g.first.raw, g.rest.map GLine.raw⟩

/-- the text of a legacy table of the grammar -/
def lText (pre : List GLine) (gs : List LGroup) (nl : Bool) : Str :=
  legacyText (pre.map GLine.raw) (gs.map LGroup.toF) nl

/-- what it denotes: the lines before the first group always, a group's lines for the group's flavors -/
def lDenote (pdir : Option Str) (env : Env) (pre : List GLine) (gs : List LGroup) : List Action :=
  gBody pdir pre ++ gs.flatMap fun g => if g.flavors.contains env.flavor then gBody pdir g.lines else []

/-- the `if` chain a group stands for -/
def LGroup.item (pdir : Option Str) (g : LGroup) : TItem :=
  .chain ⟨flavCExpr g.f.flavor (g.more.map (·.flavor)), [], bodyAbs (g.lines.map (GLine.line pdir))⟩ [] none true

end EupsModel.C11Spec

namespace EupsModel.TableParse
open EupsModel.Cond EupsModel.C11Spec

/-! ### the condition of a group -/

theorem flavCExpr_str_go : ∀ (gs : List Str) (c : CExpr) (acc : Str), c.str = acc →
    (gs.foldl (fun c g => CExpr.or c (.atom (flavAtom false g)) [32]) c).str
      = gs.foldl (fun c g => c ++ sBarBar ++ sFlavorEq ++ g) acc := by
  intro gs
  induction gs with
  | nil => intro c acc h; exact h
  | cons g rest ih =>
    intro c acc h
    simp only [List.foldl_cons]
    apply ih
    simp [CExpr.str, flavAtom, opStr, quoted, sOrOr, sEq, sBarBar, sFlavorEq, h, List.append_assoc]

theorem flavCExpr_str (f : Str) (gs : List Str) : (flavCExpr f gs).str = flavCond f gs := by
  apply flavCExpr_str_go
  simp [CExpr.str, flavAtom, opStr, quoted, sEq, sFlavorEq]

theorem flavAtom_ok {b : Bool} {f : Str} (h : plainWord f = true) : (flavAtom b f).ok = true := by
  cases b <;> simp [Atom.ok, flavAtom, h, Var.kw, blank, Str.isSpace] <;> decide

theorem flavCExpr_ok_go : ∀ (gs : List Str) (c : CExpr), c.okAt 0 = true → gs.all plainWord = true →
    (gs.foldl (fun c g => CExpr.or c (.atom (flavAtom false g)) [32]) c).okAt 0 = true := by
  intro gs
  induction gs with
  | nil => intro c h _; exact h
  | cons g rest ih =>
    intro c h hg
    simp only [List.all_cons, Bool.and_eq_true] at hg
    simp only [List.foldl_cons]
    apply ih _ _ hg.2
    simp [CExpr.okAt, h, flavAtom_ok hg.1, blank, Str.isSpace]

theorem flavCExpr_ok {f : Str} {gs : List Str} (h : (f :: gs).all plainWord = true) : (flavCExpr f gs).okAt 0 = true := by
  simp only [List.all_cons, Bool.and_eq_true] at h
  exact flavCExpr_ok_go gs _ (by simp [CExpr.okAt, flavAtom_ok h.1]) h.2

theorem flavCExpr_denote_go (env : Env) : ∀ (gs : List Str) (c : CExpr),
    denote env (gs.foldl (fun c g => CExpr.or c (.atom (flavAtom false g)) [32]) c).abs
      = (denote env c.abs || gs.contains env.flavor) := by
  intro gs
  induction gs with
  | nil => intro c; simp
  | cons g rest ih =>
    intro c
    simp only [List.foldl_cons]
    rw [ih]
    have : (env.flavor == g) = decide (env.flavor = g) := by by_cases h : env.flavor = g <;> simp [h]
    simp [CExpr.abs, denote, flavAtom, Bool.or_assoc, this]

theorem flavCExpr_denote (env : Env) (f : Str) (gs : List Str) :
    denote env (flavCExpr f gs).abs = (f :: gs).contains env.flavor := by
  unfold flavCExpr
  rw [flavCExpr_denote_go]
  have : (env.flavor == f) = decide (env.flavor = f) := by by_cases h : env.flavor = f <;> simp [h]
  simp [CExpr.abs, denote, flavAtom, this]

/-! ### a group of the grammar is a group `_rewrite` handles -/

theorem wcmd_strip_ne {c : WCmd} (hok : c.ok = true) : (strip c.raw).isEmpty = false := by
  simp only [WCmd.ok, Bool.and_eq_true, Bool.not_eq_true', List.isEmpty_eq_false_iff, beq_iff_eq] at hok
  obtain ⟨⟨⟨⟨⟨⟨⟨⟨hw, hne⟩, hn⟩, _⟩, hg⟩, _⟩, htl⟩, _⟩, htext⟩ := hok
  simp only [WCmd.textOK, Bool.and_eq_true] at htext
  obtain ⟨hargs, _⟩ := htext
  obtain ⟨c0, cs0, hname⟩ : ∃ c0 cs0, c.name = c0 :: cs0 := by
    cases hnm : c.name with
    | nil => exact absurd hnm hne
    | cons a as => exact ⟨a, as, rfl⟩
  have hc0 : isWordCh c0 = true := by
    have := List.all_eq_true.mp hn c0 (by rw [hname]; exact List.mem_cons_self ..); exact this
  obtain ⟨hsp0, _, _⟩ := wordCh_facts hc0
  have e : c.core = c.name ++ (c.gap ++ 40 :: (c.args.text ++ 41 :: c.tl)) := by simp [WCmd.core, List.append_assoc]
  have ecore : c.core = c0 :: (cs0 ++ (c.gap ++ 40 :: (c.args.text ++ 41 :: c.tl))) := by rw [e, hname]; rfl
  have htl' : ∀ x ∈ c.tl, x = 32 ∨ x = 9 ∨ x = 59 := fun x hx => by
    have := List.all_eq_true.mp htl x hx; simpa [or_assoc] using this
  have hall : c.core.all (fun x => x != 10 && x != 35) = true := by
    have a1 : c.name.all (fun x => x != 10 && x != 35) = true := List.all_eq_true.mpr fun x hx => by
      have := (wordCh_facts (List.all_eq_true.mp hn x hx)).2.2
      simp only [lineCh, Bool.and_eq_true] at this; simp [this.1.1, this.1.2]
    have a2 : c.gap.all (fun x => x != 10 && x != 35) = true := List.all_eq_true.mpr fun x hx => by
      have := List.all_eq_true.mp (lineCh_of_hblank hg) x hx
      simp only [lineCh, Bool.and_eq_true] at this; simp [this.1.1, this.1.2]
    have a3 : c.tl.all (fun x => x != 10 && x != 35) = true := List.all_eq_true.mpr fun x hx => by
      rcases htl' x hx with h | h | h <;> subst h <;> decide
    simp [e, List.all_append, a1, a2, a3, hargs]
  have hcoreOK : coreOK c.core = true := by
    simp only [coreOK, Bool.and_eq_true]
    exact ⟨by rw [ecore]; simp [nsp, hsp0], hall⟩
  rw [show strip c.raw = c.core from strip_wrap hw hcoreOK, ecore]; rfl

theorem passesLine_of_ok {pdir : Option Str} {b : BodyLineT} (h : b.ok pdir = true) : passesLine b.raw = true := by
  simp only [BodyLineT.ok, Bool.and_eq_true] at h
  cases hs : (strip b.raw).isEmpty with
  | true => simp [passesLine, h.1, hs]
  | false =>
    have := h.2
    simp only [hs, Bool.false_eq_true, if_false, Bool.and_eq_true] at this
    simp [passesLine, h.1, this.1]

theorem glines_pass {pdir : Option Str} {ls : List GLine} (h : ls.all (GLine.ok pdir) = true) :
    (ls.map GLine.raw).all passesLine = true := by
  simp only [List.all_map, List.all_eq_true, Function.comp] at h ⊢
  intro l hl
  have := passesLine_of_ok (gline_ok (h l hl))
  rwa [gline_raw] at this

theorem lgroup_toF_ok {pdir : Option Str} {g : LGroup} (h : g.ok pdir = true) : g.toF.ok = true := by
  simp only [LGroup.ok, LGroup.lines, List.all_cons, Bool.and_eq_true] at h
  obtain ⟨⟨⟨hf, hm⟩, _⟩, hfirst, hrest⟩ := h
  have hb := gline_ok hfirst
  have hne : (strip g.first.raw).isEmpty = false := by
    simp only [GLine.ok, Bool.and_eq_true] at hfirst; exact wcmd_strip_ne hfirst.1
  have hraw : (GLine.line pdir (.cmd g.first)).raw = g.first.raw := gline_raw pdir _
  simp only [BodyLineT.ok, hraw, hne, Bool.false_eq_true, if_false, Bool.and_eq_true] at hb
  simp [FGroup.ok, LGroup.toF, hf, hm, hb.1, hne, hb.2.1, glines_pass hrest]

/-! ### the rewritten lines are the lines of the `if` chains -/

theorem tableLines_lines (b : Body) : tableLines (b.map TItem.line) = Body.lines b := by
  induction b with
  | nil => rfl
  | cons l ls ih =>
    simp only [tableLines, List.map_cons, List.flatMap_cons] at ih ⊢
    rw [ih]; rfl

theorem classify_ifLine (pdir : Option Str) (cond : Str) :
    classify repaired pdir (sIfOpen ++ cond ++ sIfClose) = .ok (.blk (.ifOpen cond)) := by
  have h := blockLine_if (L := ⟨sIf, [32], [32], []⟩) (by decide) cond
  have e : ifCore ⟨sIf, [32], [32], []⟩ cond = sIfOpen ++ cond ++ sIfClose := by
    simp [ifCore, sIf, sIfOpen, sIfClose]
  rw [e] at h
  simp only [classify, h]

theorem classify_close (pdir : Option Str) : classify repaired pdir sClose = .ok (.blk .close) := by
  have h := blockLine_close (c := []) rfl
  have e : closeCore [] = sClose := rfl
  rw [e] at h
  simp only [classify, h]

theorem lgroup_classified {pdir : Option Str} {g : LGroup} (h : g.ok pdir = true) :
    classifyAll repaired pdir g.toF.block = .ok (g.item pdir).lines := by
  simp only [LGroup.ok, Bool.and_eq_true] at h
  have hbody := good_body (gbody_ok h.2)
  have hraws : (g.lines.map (GLine.line pdir)).map (·.raw) = g.first.raw :: g.rest.map GLine.raw := by
    simp [LGroup.lines, List.map_map, Function.comp_def, gline_raw, GLine.raw]
  rw [hraws] at hbody
  have hcl := hbody.2.2
  simp only [coresOf] at hcl
  have h1 := classify_ifLine pdir (flavCond g.f.flavor (g.more.map FlavLine.flavor))
  have h3 : classifyAll repaired pdir [sClose] = .ok [.blk .close] := by
    simp [classifyAll, classify_close, Res.bind]
  have := classifyAll_cons h1 (classifyAll_append hcl h3)
  simpa [FGroup.block, FGroup.ifLine, LGroup.toF, LGroup.item, TItem.lines, Branch.text, flavCExpr_str] using this

theorem lgroups_classified {pdir : Option Str} : ∀ {gs : List LGroup}, gs.all (LGroup.ok pdir) = true →
    classifyAll repaired pdir ((gs.map LGroup.toF).flatMap FGroup.block) = .ok (tableLines (gs.map (LGroup.item pdir))) := by
  intro gs
  induction gs with
  | nil => intro _; rfl
  | cons g rest ih =>
    intro h
    simp only [List.all_cons, Bool.and_eq_true] at h
    simp only [List.map_cons, List.flatMap_cons, tableLines]
    exact classifyAll_append (lgroup_classified h.1) (ih h.2)

/-! ### what the chains denote -/

theorem lines_denote (env : Env) (b : Body) : (b.map TItem.line).flatMap (denoteItem env) = b.acts := by
  induction b with
  | nil => rfl
  | cons l ls ih =>
    simp only [List.map_cons, List.flatMap_cons, ih, denoteItem, Body.acts]
    cases l <;> simp

theorem lgroup_denote {pdir : Option Str} (env : Env) {g : LGroup} (h : g.ok pdir = true) :
    denoteItem env (g.item pdir) = if g.flavors.contains env.flavor then gBody pdir g.lines else [] := by
  simp only [LGroup.ok, Bool.and_eq_true] at h
  simp only [LGroup.item, denoteItem, denoteBranches, flavCExpr_denote, gbody_acts h.2, LGroup.flavors]
  rfl

theorem lgroup_item_ok {pdir : Option Str} {g : LGroup} (h : g.ok pdir = true) : (g.item pdir).ok = true := by
  simp only [LGroup.ok, Bool.and_eq_true] at h
  simp [LGroup.item, TItem.ok, Branch.ok, flavCExpr_ok h.1.2, blank]

theorem flatMap_congr' {α β : Type} {l : List α} {f g : α → List β} (h : ∀ a ∈ l, f a = g a) :
    l.flatMap f = l.flatMap g := by
  induction l with
  | nil => rfl
  | cons a as ih => simp [List.flatMap_cons, h a (by simp), ih (fun x hx => h x (by simp [hx]))]

/-- **legacy tables denote.** -/
theorem legacy_denotes (env : Env) (hfl : flavorOK env.flavor = true) (pdir : Option Str) (pre : List GLine)
    (gs : List LGroup) (hpre : pre.all (GLine.ok pdir) = true) (hgs : gs.all (LGroup.ok pdir) = true) (nl : Bool) :
    tableActions repaired pdir env (lText pre gs nl) = .ok (lDenote pdir env pre gs) := by
  have hF : (gs.map LGroup.toF).all FGroup.ok = true := by
    simp only [List.all_map, List.all_eq_true, Function.comp] at hgs ⊢
    exact fun g hg => lgroup_toF_ok (hgs g hg)
  have hrw := rewrite_legacy (pre.map GLine.raw) (gs.map LGroup.toF) nl (glines_pass hpre) hF
  have hpreG := good_body (gbody_ok hpre)
  have hraws : (pre.map (GLine.line pdir)).map (·.raw) = pre.map GLine.raw := by
    simp [List.map_map, Function.comp_def, gline_raw]
  rw [hraws] at hpreG
  let t : List TItem := (bodyAbs (pre.map (GLine.line pdir))).map TItem.line ++ gs.map (LGroup.item pdir)
  have hcl : classifyAll repaired pdir (coresOf (pre.map GLine.raw) ++ (gs.map LGroup.toF).flatMap FGroup.block)
      = .ok (tableLines t) := by
    have := classifyAll_append hpreG.2.2 (lgroups_classified hgs)
    simpa [t, tableLines, List.flatMap_append, ← tableLines_lines] using this
  have htok : t.all TItem.ok = true := by
    simp only [t, List.all_append, Bool.and_eq_true, List.all_map, List.all_eq_true, Function.comp]
    refine ⟨fun _ _ => rfl, fun g hg => lgroup_item_ok (List.all_eq_true.mp hgs g hg)⟩
  have hfin : tableActions repaired pdir env (lText pre gs nl) = .ok (denoteTable env t) := by
    simp only [tableActions, parse, lText, hrw, Res.bind]
    have hrl : ∀ (lines : List Str) (ls : List Line) (st : RdState),
        classifyAll repaired pdir lines = .ok ls → readLines repaired pdir st lines = .ok (runL repaired st ls) := by
      intro lines
      induction lines with
      | nil => intro ls st h; simp only [classifyAll] at h; cases h; rfl
      | cons l rest ih =>
        intro ls st h
        simp only [classifyAll] at h
        cases hc : classify repaired pdir l with
        | ok c =>
          rw [hc] at h; simp only [Res.bind] at h
          cases hr : classifyAll repaired pdir rest with
          | ok cs =>
            rw [hr] at h; simp only [Res.bind] at h; cases h
            simp [readLines, readLine, hc, Res.bind, runL, ih cs _ hr]
          | err e => rw [hr] at h; simp [Res.bind] at h
          | fuel => rw [hr] at h; simp [Res.bind] at h
        | err e => rw [hc] at h; simp [Res.bind] at h
        | fuel => rw [hc] at h; simp [Res.bind] at h
    rw [hrl _ _ _ hcl]
    exact blocks_lines hfl t htok
  rw [hfin]
  congr 1
  simp only [t, denoteTable, List.flatMap_append, lines_denote, gbody_acts hpre, lDenote]
  congr 1
  rw [List.flatMap_map]
  apply flatMap_congr'
  intro g hg
  exact lgroup_denote env (List.all_eq_true.mp hgs g hg)

end EupsModel.TableParse
