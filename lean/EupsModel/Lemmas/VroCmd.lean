import EupsModel.Lemmas.VroSelectGen
/-! `eups vro ARGS` reports the VRO `setup ARGS` resolves with (default configuration): the second
`selectVRO` of `selectVROTwice`, which starts from the dictionary list the first call modified in
place, leaves the same VRO as a single call. -/
namespace EupsModel.Vro

/-! ## `dedupe`: a repeated segment disappears -/

theorem dedupe_seen (seen A rest : List Str) (hA : NoWarn A) (hs : ∀ x ∈ A, x ∈ seen) :
    dedupe seen (A ++ rest) = dedupe seen rest := by
  induction A with
  | nil => rfl
  | cons e A ih =>
    obtain ⟨he, hA'⟩ := noWarn_cons.mp hA
    have hc : seen.contains e = true := by simpa using hs e (by simp)
    rw [List.cons_append, dedupe_cons_noWarn he, hc]
    simp only [if_true]
    exact ih hA' (fun x hx => hs x (List.mem_cons_of_mem _ hx))

theorem dedupe_dup (seen P A rest : List Str) (hP : NoWarn P) (hA : NoWarn A) (hs : ∀ x ∈ A, x ∈ P) :
    dedupe seen (P ++ A ++ rest) = dedupe seen (P ++ rest) := by
  rw [List.append_assoc, dedupe_append seen P _ hP, dedupe_append seen P _ hP,
    dedupe_seen _ A rest hA (fun x hx => (mem_seenAfter x seen P).mpr (Or.inr (hs x hx)))]

theorem uniqFirst_dedupe (seen l : List Str) (hl : NoWarn l) : uniqFirst (dedupe seen l) = dedupe seen l := by
  induction l generalizing seen with
  | nil => simp [dedupe, uniqFirst]
  | cons e rest ih =>
    obtain ⟨he, hr⟩ := noWarn_cons.mp hl
    rw [dedupe_cons_noWarn he]
    by_cases hc : seen.contains e = true
    · simp only [hc, if_true]; exact ih seen hr
    · have hc' : seen.contains e = false := by simpa using hc
      simp only [hc', Bool.false_eq_true, if_false, uniqFirst]
      rw [ih (e :: seen) hr]
      congr 1
      apply List.filter_eq_self.mpr
      intro x hx
      have := ((mem_dedupe x _ rest hr).mp hx).2
      have hne : x ≠ e := fun h => this (by simp [h])
      simpa using hne

/-! ## `makeVroExact` on a list whose moved entries already stand at the end -/

theorem any_dropWhile_false (p q : Str → Bool) (M : List Str) (h : ∀ x ∈ M, q x = false) :
    (M.dropWhile p).any q = false := by
  induction M with
  | nil => rfl
  | cons x xs ih =>
    have hx := h x (by simp)
    have hxs := ih (fun y hy => h y (List.mem_cons_of_mem _ hy))
    have hall : xs.any q = false := by
      apply List.any_eq_false.mpr
      intro y hy
      simp [h y (List.mem_cons_of_mem _ hy)]
    simp only [List.dropWhile]
    split
    · exact hxs
    · simp [hx, hall]

theorem any_dropWhile_append (p q : Str → Bool) (K M : List Str) (hK : ∀ x ∈ K, p x = true)
    (hM : ∀ x ∈ M, q x = false) : ((K ++ M).dropWhile p).any q = false := by
  induction K with
  | nil => exact any_dropWhile_false p q M hM
  | cons x K ih =>
    simp only [List.cons_append, List.dropWhile, hK x (by simp)]
    exact ih (fun y hy => hK y (List.mem_cons_of_mem _ hy))

/-- kept entries, then moved entries without repetition: `makeVroExact` changes nothing -/
theorem makeVroExact_split (c : VroCfg) (cmd K M : List Str) (hu : c.userVRO = false)
    (hK : ∀ x ∈ K, movedByExact c cmd x = false) (hM : ∀ x ∈ M, movedByExact c cmd x = true)
    (hun : uniqFirst M = M) : makeVroExact c cmd (K ++ M) = K ++ M := by
  have f1 : (K ++ M).filter (movedByExact c cmd) = M := by
    rw [List.filter_append, List.filter_eq_nil_iff.mpr (by intro x hx; simp [hK x hx]),
      List.filter_eq_self.mpr hM]
    rfl
  have f2 : (K ++ M).filter (fun e => !movedByExact c cmd e) = K := by
    rw [List.filter_append, List.filter_eq_self.mpr (by intro x hx; simp [hK x hx]),
      List.filter_eq_nil_iff.mpr (by intro x hx; simp [hM x hx])]
    simp
  have f3 : ((K ++ M).dropWhile (fun e => !movedByExact c cmd e)).any (fun e => !movedByExact c cmd e) = false :=
    any_dropWhile_append _ _ K M (by intro x hx; simp [hK x hx]) (by intro x hx; simp [hM x hx])
  unfold makeVroExact
  simp only [hu, Bool.false_eq_true, if_false, f1, f2, f3, hun]
  cases M <;> simp

/-! ## the list with the tags placed: `makeVroExact` leaves its deduplicated form alone -/

theorem placed_split (keep : Bool) (tags post : List Str) :
    placed keep tags post =
      (keepPart keep ++ [kTypeExact, kCommandLine] ++ tags ++ [kVersion, kVersionExpr]) ++ (post ++ [kCurrent]) := by
  simp [placed]

/-- In `dedupe (placed ..)` the entries `--exact` would move — the -T tags not given with -t, and
`current` — already stand at the end, once each. -/
theorem makeVroExact_placed {c : VroCfg} (d : DefaultCfg c) (keep : Bool) {tags post : List Str}
    (ht : ∀ t ∈ tags, GoodTag c t) (hp : ∀ t ∈ post, GoodTag c t) :
    makeVroExact c tags (dedupe [] (placed keep tags post)) = dedupe [] (placed keep tags post) := by
  have hnw := noWarn_placed (keep := keep) ht hp
  rw [placed_split] at hnw ⊢
  obtain ⟨hnH, hnT⟩ := noWarn_append.mp hnw
  rw [dedupe_append [] _ _ hnH]
  apply makeVroExact_split c tags _ _ d.user
  · intro x hx
    have hxH := ((mem_dedupe x [] _ hnH).mp hx).1
    simp only [List.mem_append, List.mem_cons, List.not_mem_nil, or_false] at hxH
    rcases hxH with ((hx | hx) | hx) | hx
    · cases keep
      · simp [keepPart] at hx
      · have : x = kKeep := by simpa [keepPart] using hx
        rw [this]; exact fixed_not_moved d tags (by simp [fixedWords])
    · rcases hx with rfl | rfl <;> exact fixed_not_moved d tags (by simp [fixedWords])
    · rw [(ht x hx).moved]; simp [hx]
    · rcases hx with rfl | rfl <;> exact fixed_not_moved d tags (by simp [fixedWords])
  · intro x hx
    obtain ⟨hxT, hxS⟩ := (mem_dedupe x _ _ hnT).mp hx
    have hnt : x ∉ tags := by
      intro hm
      apply hxS
      rw [mem_seenAfter]
      right
      simp [hm]
    have gx : GoodTag c x := by
      rcases List.mem_append.mp hxT with h | h
      · exact hp x h
      · have : x = kCurrent := by simpa using h
        rw [this]; exact goodTag_current d
    rw [gx.moved]; simp [hnt]
  · exact uniqFirst_dedupe _ _ hnT

/-! ## configurations that differ only in state (`exact`, `cmdTags`, dictionary, `prevPreferred`) -/

theorem makeVroExact_congr {c c' : VroCfg} (hu : c'.userVRO = c.userVRO) (hg : c'.globalTags = c.globalTags)
    (cmd l : List Str) : makeVroExact c' cmd l = makeVroExact c cmd l := by
  have hm : movedByExact c' cmd = movedByExact c cmd := by
    funext e
    simp only [movedByExact, VroCfg.recognized, VroCfg.isGlobal, hg]
  simp only [makeVroExact, hm, hu]

theorem kindlyOne_congr {c c' : VroCfg} (hg : c'.globalTags = c.globalTags) (t : Str) :
    kindlyOne c' t = kindlyOne c t := by
  simp only [kindlyOne, VroCfg.recognized, hg]

/-- the `--inexact` filter of `cleanVro` -/
def inexF (inexact : Bool) (x : List Str) : List Str := if inexact then x.filter (· != kTypeExact) else x

/-- `cleanVro` of any list that deduplicates to `dedupe (placed ..)`, whatever `exact` is -/
theorem cleanVro_placed {c c' : VroCfg} (d : DefaultCfg c) (hu : c'.userVRO = c.userVRO)
    (hg : c'.globalTags = c.globalTags) (keep inexact : Bool) {tags post : List Str}
    (ht : ∀ t ∈ tags, GoodTag c t) (hp : ∀ t ∈ post, GoodTag c t) {v3 : List Str} (hnw : NoWarn v3)
    (hd : dedupe [] v3 = dedupe [] (placed keep tags post)) :
    cleanVro c' tags inexact v3 = inexF inexact (dedupe [] (placed keep tags post)) := by
  rw [cleanVro_noWarn' (hu.trans d.user) tags inexact hnw, hd, makeVroExact_congr hu hg,
    makeVroExact_placed d keep ht hp]
  simp [inexF]

theorem kindly_placed {c c' : VroCfg} (d : DefaultCfg c) (hg : c'.globalTags = c.globalTags)
    (keep inexact : Bool) {tags post : List Str}
    (ht : ∀ t ∈ tags, GoodTag c t) (hp : ∀ t ∈ post, GoodTag c t) :
    kindly c' (inexF inexact (dedupe [] (placed keep tags post)))
      = .ok (inexF inexact (dedupe [] (placed keep tags post))) := by
  have hnw := noWarn_placed (keep := keep) ht hp
  have hsub : ∀ x ∈ inexF inexact (dedupe [] (placed keep tags post)), x ∈ placed keep tags post := by
    intro x hx
    have : x ∈ dedupe [] (placed keep tags post) := by
      cases inexact
      · simpa [inexF] using hx
      · simp only [inexF, if_true] at hx
        exact (List.mem_filter.mp hx).1
    exact ((mem_dedupe x [] _ hnw).mp this).1
  apply kindly_all_ok
  · have hv : kVersion ∈ dedupe [] (placed keep tags post) :=
      (mem_dedupe _ [] _ hnw).mpr ⟨(kVersion_mem_placed keep tags post).1, by simp⟩
    have : kVersion ∈ inexF inexact (dedupe [] (placed keep tags post)) := by
      cases inexact
      · simpa [inexF] using hv
      · simp only [inexF, if_true]
        exact List.mem_filter.mpr ⟨hv, by decide⟩
    intro h; rw [h] at this; cases this
  · intro x hx
    rw [kindlyOne_congr hg]
    rcases mem_placed (hsub x hx) with h | h | h | h
    · exact fixed_kindly h
    · exact (ht x h).kindly
    · exact (hp x h).kindly
    · rw [h]; exact (goodTag_current d).kindly

/-! ## placing the tags in a list that starts `.. type:exact commandLine` and ends `version versionExpr current` -/

theorem withPretags_head (K R tags : List Str) (hR : ∀ x ∈ R, (x == kCommandLine || isType x) = false) :
    withPretags (K ++ [kTypeExact, kCommandLine] ++ R) tags = K ++ [kTypeExact, kCommandLine] ++ tags ++ R := by
  unfold withPretags pretagPos
  by_cases he : tags.isEmpty = true
  · have : tags = [] := by simpa using he
    subst this
    simp
  · simp only [he, Bool.false_eq_true, if_false]
    rw [afterLast_append_none 0 _ R hR]
    have h2 : afterLast (fun v => v == kCommandLine || isType v) (0 + K.length) [kTypeExact, kCommandLine]
        = some (K.length + 2) := by
      simp [afterLast]
    rw [afterLast_append_some K 0 h2]
    simp only [Option.getD_some]
    have : K.length + 2 = (K ++ [kTypeExact, kCommandLine]).length := by simp
    rw [this, insertAt_length]

theorem placeTags_head (keep : Bool) (K M tags post : List Str)
    (hM : ∀ x ∈ M, (x == kCommandLine || isType x) = false) :
    placeTags keep (K ++ [kTypeExact, kCommandLine] ++ M ++ [kVersion, kVersionExpr, kCurrent]) tags post
      = .ok (keepPart keep ++ K ++ [kTypeExact, kCommandLine] ++ tags ++ M ++ [kVersion, kVersionExpr] ++ post
              ++ [kCurrent]) := by
  unfold placeTags
  simp only [keep_cons]
  have hR : ∀ x ∈ M ++ [kVersion, kVersionExpr, kCurrent], (x == kCommandLine || isType x) = false := by
    intro x hx
    rcases List.mem_append.mp hx with h | h
    · exact hM x h
    · simp only [List.mem_cons, List.not_mem_nil, or_false] at h
      rcases h with rfl | rfl | rfl <;> decide
  have e1 : keepPart keep ++ (K ++ [kTypeExact, kCommandLine] ++ M ++ [kVersion, kVersionExpr, kCurrent])
      = (keepPart keep ++ K) ++ [kTypeExact, kCommandLine] ++ (M ++ [kVersion, kVersionExpr, kCurrent]) := by simp
  rw [e1, withPretags_head _ _ tags hR]
  by_cases hp : post.isEmpty = true
  · have : post = [] := by simpa using hp
    subst this
    simp
  · simp only [hp, Bool.false_eq_true, if_false]
    have e2 : keepPart keep ++ K ++ [kTypeExact, kCommandLine] ++ tags ++ (M ++ [kVersion, kVersionExpr, kCurrent])
        = (keepPart keep ++ K ++ [kTypeExact, kCommandLine] ++ tags ++ M) ++ [kVersion, kVersionExpr, kCurrent] := by
      simp
    rw [e2, afterLast_append_some (p := isVT) _ 0 (afterLast_tail _)]
    simp only
    have hsplit : (keepPart keep ++ K ++ [kTypeExact, kCommandLine] ++ tags ++ M) ++ [kVersion, kVersionExpr, kCurrent]
        = (keepPart keep ++ K ++ [kTypeExact, kCommandLine] ++ tags ++ M ++ [kVersion, kVersionExpr]) ++ [kCurrent] := by
      simp
    have hlen : 0 + (keepPart keep ++ K ++ [kTypeExact, kCommandLine] ++ tags ++ M).length + 2
        = (keepPart keep ++ K ++ [kTypeExact, kCommandLine] ++ tags ++ M ++ [kVersion, kVersionExpr]).length := by
      simp only [List.length_append, List.length_cons, List.length_nil]
      omega
    rw [hsplit, hlen, insertAt_length]

/-- the list the second `selectVRO` of `eups vro` builds: the dictionary's list already holds `keep`
and the -t tags, and they are put in once more -/
def placedTwice (keep : Bool) (tags post : List Str) : List Str :=
  keepPart keep ++ keepPart keep ++ [kTypeExact, kCommandLine] ++ tags ++ tags ++ [kVersion, kVersionExpr] ++ post
    ++ [kCurrent]

theorem placeTags_again {c : VroCfg} (keep : Bool) {tags : List Str} (post : List Str)
    (ht : ∀ t ∈ tags, GoodTag c t) :
    placeTags keep (placed keep tags []) tags post = .ok (placedTwice keep tags post) := by
  have e : placed keep tags [] = keepPart keep ++ [kTypeExact, kCommandLine] ++ tags ++ [kVersion, kVersionExpr, kCurrent] := by
    simp [placed]
  rw [e, placeTags_head keep (keepPart keep) tags tags post]
  · rfl
  · intro x hx
    have h1 : (x == kCommandLine) = false := by
      apply Bool.eq_false_iff.mpr; intro h
      exact (ht x hx).ne_pseudo (k := kCommandLine) (by decide) (by simpa using h)
    simp [h1, (ht x hx).isType]

theorem noWarn_keepPart (keep : Bool) : NoWarn (keepPart keep) := by
  cases keep <;> unfold NoWarn keepPart <;> decide

theorem dedupe_placedTwice {c : VroCfg} (keep : Bool) {tags post : List Str}
    (ht : ∀ t ∈ tags, GoodTag c t) :
    dedupe [] (placedTwice keep tags post) = dedupe [] (placed keep tags post) := by
  have hnt : NoWarn tags := fun x hx => (ht x hx).isWarn
  have hnk := noWarn_keepPart keep
  have hnP : NoWarn (keepPart keep ++ [kTypeExact, kCommandLine] ++ tags) := by
    apply noWarn_append.mpr
    refine ⟨noWarn_append.mpr ⟨hnk, by unfold NoWarn; decide⟩, hnt⟩
  have e1 : placedTwice keep tags post
      = keepPart keep ++ keepPart keep ++ ([kTypeExact, kCommandLine] ++ tags ++ tags ++ [kVersion, kVersionExpr] ++ post
          ++ [kCurrent]) := by
    simp [placedTwice]
  have e2 : keepPart keep ++ ([kTypeExact, kCommandLine] ++ tags ++ tags ++ [kVersion, kVersionExpr] ++ post ++ [kCurrent])
      = (keepPart keep ++ [kTypeExact, kCommandLine] ++ tags) ++ tags ++ ([kVersion, kVersionExpr] ++ post ++ [kCurrent]) := by
    simp
  have e3 : (keepPart keep ++ [kTypeExact, kCommandLine] ++ tags) ++ ([kVersion, kVersionExpr] ++ post ++ [kCurrent])
      = placed keep tags post := by
    simp [placed]
  rw [e1, dedupe_dup [] (keepPart keep) (keepPart keep) _ hnk hnk (fun x hx => hx), e2,
    dedupe_dup [] _ tags _ hnP hnt (fun x hx => by simp [hx]), e3]

theorem noWarn_placedTwice {c : VroCfg} (keep : Bool) {tags post : List Str}
    (ht : ∀ t ∈ tags, GoodTag c t) (hp : ∀ t ∈ post, GoodTag c t) : NoWarn (placedTwice keep tags post) := by
  intro x hx
  have hx' : x ∈ placed keep tags post := by
    simp only [placedTwice, placed, List.mem_append] at hx ⊢
    rcases hx with ((((((h | h) | h) | h) | h) | h) | h) | h
    · exact Or.inl (Or.inl (Or.inl (Or.inl (Or.inl h))))
    · exact Or.inl (Or.inl (Or.inl (Or.inl (Or.inl h))))
    · exact Or.inl (Or.inl (Or.inl (Or.inl (Or.inr h))))
    · exact Or.inl (Or.inl (Or.inl (Or.inr h)))
    · exact Or.inl (Or.inl (Or.inl (Or.inr h)))
    · exact Or.inl (Or.inl (Or.inr h))
    · exact Or.inl (Or.inr h)
    · exact Or.inr h
  exact noWarn_placed (keep := keep) ht hp x hx'

/-! ## `selectVRO` on a one-entry dictionary `default: <flat list>` -/

theorem chooseBase_flat (c : VroCfg) (a : VroArgs) (hu : c.userVRO = false) (b : List Str)
    (hd : c.vroDict = [(kDefault, .flat b)]) {tags : List Str} (ht : ∀ t ∈ tags, t ≠ kDefault) :
    chooseBase c a tags = .ok (b, fun l' => [(kDefault, .flat l')]) := by
  unfold chooseBase
  rw [hd]
  have hfind : tags.find? (fun t => [kDefault].contains t) = none := by
    apply List.find?_eq_none.mpr
    intro t htm
    simp [ht t htm]
  have h1 : [kDefault].contains kPath = false := by decide
  have h2 : [kDefault].contains kCommandLine = false := by decide
  have h3 : [kDefault].contains kDefault = true := by decide
  have n1 : kPath ≠ kDefault := by decide
  have n2 : kCommandLine ≠ kDefault := by decide
  simp only [hu, Bool.false_eq_true, if_false, List.map_cons, List.map_nil, hfind]
  cases a.productDir <;> cases a.versionName <;> simp [lookupKey, setKey, n1, n2]

/-- `selectVRO` spelled out once the placement and the cleaning are known -/
theorem selectVRO_eval (c : VroCfg) (a : VroArgs) (hu : c.userVRO = false) (b : List Str)
    (hd : c.vroDict = [(kDefault, .flat b)]) (ht : ∀ t ∈ a.tags, t ≠ kDefault)
    (v3 : List Str) (hpl : placeTags c.keep b a.tags a.postTags = .ok v3)
    (R : List Str) (hk : kindly c (cleanVro c (cmdOf c a) a.inexact v3) = .ok R) :
    selectVRO c a = .ok { vro := R, exact := c.exact || R.contains kTypeExact, cmdTags := cmdOf c a,
                          dict' := [(kDefault, .flat v3)] } := by
  unfold cmdOf at hk
  unfold selectVRO cmdOf
  simp only [hu, Bool.false_and, Bool.false_eq_true, if_false, chooseBase_flat c a hu b hd ht, hpl, hk]

theorem cmdOf_eq (c : VroCfg) (a : VroArgs) (h : c.cmdTags = [] ∨ c.cmdTags = a.tags) : cmdOf c a = a.tags := by
  unfold cmdOf
  cases hta : a.tags with
  | nil =>
    rcases h with h | h
    · simp [h]
    · simp [h, hta]
  | cons t ts => simp

/-! ## `eups vro` = `setup` -/

/-- what a single `selectVRO` leaves under the default configuration -/
theorem selectVRO_default_eq (c : VroCfg) (dc : DefaultCfg c) (a : VroArgs)
    (ht : ∀ t ∈ a.tags, GoodTag c t) (hp : ∀ t ∈ a.postTags, GoodTag c t) :
    selectVRO c a = .ok
      { vro := inexF a.inexact (dedupe [] (placed c.keep a.tags a.postTags)),
        exact := c.exact || (inexF a.inexact (dedupe [] (placed c.keep a.tags a.postTags))).contains kTypeExact,
        cmdTags := a.tags, dict' := [(kDefault, .flat (placed c.keep a.tags a.postTags))] } := by
  have hcmd : cmdOf c a = a.tags := cmdOf_eq c a (Or.inl dc.cmd)
  have h := selectVRO_eval c a dc.user defaultBase dc.dict (fun t h => (ht t h).notDefault) _
    (placeTags_default c.keep a.tags a.postTags) (inexF a.inexact (dedupe [] (placed c.keep a.tags a.postTags)))
    (by
      rw [hcmd, cleanVro_placed dc rfl rfl c.keep a.inexact ht hp (noWarn_placed ht hp) rfl]
      exact kindly_placed dc rfl c.keep a.inexact ht hp)
  rw [h, hcmd]

/-- the state a first `selectVRO` with the same -t tags left behind -/
def afterFirst (c : VroCfg) (tags : List Str) (e : Bool) (pp : List Str) : VroCfg :=
  { c with vroDict := [(kDefault, .flat (placed c.keep tags []))], exact := e, cmdTags := tags, prevPreferred := pp }

/-- the second `selectVRO` on the same instance, whatever exact mode and preferred tags the first left -/
theorem selectVRO_second (c : VroCfg) (dc : DefaultCfg c) (a : VroArgs) (e : Bool) (pp : List Str)
    (ht : ∀ t ∈ a.tags, GoodTag c t) (hp : ∀ t ∈ a.postTags, GoodTag c t) :
    selectVRO (afterFirst c a.tags e pp) a = .ok
      { vro := inexF a.inexact (dedupe [] (placed c.keep a.tags a.postTags)),
        exact := e || (inexF a.inexact (dedupe [] (placed c.keep a.tags a.postTags))).contains kTypeExact,
        cmdTags := a.tags, dict' := [(kDefault, .flat (placedTwice c.keep a.tags a.postTags))] } := by
  have hnw2 := noWarn_placedTwice (c := c) c.keep ht hp
  have hcmd : cmdOf (afterFirst c a.tags e pp) a = a.tags := cmdOf_eq _ a (Or.inr rfl)
  have h2 := selectVRO_eval (afterFirst c a.tags e pp)
    a dc.user (placed c.keep a.tags []) rfl (fun t h => (ht t h).notDefault) _
    (placeTags_again c.keep a.postTags ht) (inexF a.inexact (dedupe [] (placed c.keep a.tags a.postTags)))
    (by
      rw [hcmd, cleanVro_placed (c' := afterFirst c a.tags e pp) dc rfl rfl c.keep a.inexact ht hp hnw2
        (dedupe_placedTwice c.keep ht)]
      exact kindly_placed (c' := afterFirst c a.tags e pp) dc rfl c.keep a.inexact ht hp)
  rw [h2, hcmd]
  rfl

/-- **The VRO `eups vro` prints is the VRO `setup` uses** (core): the second `selectVRO` on the same
instance — starting from the dictionary list, the exact mode and the command-line tag names the first
call left — returns the VRO of a single call.  No hypothesis on `keep`, `exact`, `productDir`,
`versionName`, `inexact`, `dbz`. -/
theorem selectVROTwice_vro_eq (c : VroCfg) (dc : DefaultCfg c) (a : VroArgs)
    (ht : ∀ t ∈ a.tags, GoodTag c t) (hp : ∀ t ∈ a.postTags, GoodTag c t) :
    (selectVROTwice c a).map (·.vro) = (selectVRO c a).map (·.vro) := by
  have h1 := selectVRO_default_eq c dc { a with versionName := false, inexact := false, postTags := [] } ht
    (fun t h => by cases h)
  have hS := selectVRO_default_eq c dc a ht hp
  unfold selectVROTwice
  rw [h1, hS]
  exact congrArg (Except.map (·.vro)) (selectVRO_second c dc a _ _ ht hp)

/-! ## the two commands -/

/-- `DefaultCfg` does not look at the exact mode (`-e`) -/
theorem defaultCfg_exact {c : VroCfg} (dc : DefaultCfg c) (e : Bool) : DefaultCfg { c with exact := e } :=
  ⟨dc.dict, dc.user, dc.cmd, dc.current, dc.disjoint⟩

theorem goodTag_exact {c : VroCfg} {t : Str} (g : GoodTag c t) (e : Bool) : GoodTag { c with exact := e } t :=
  ⟨g.global, g.notPseudo, g.noColon, g.notDefault⟩

/-- what the two commands receive after `_processDefaultTags` is made of good tags -/
def GoodCli (c : VroCfg) (d : DefaultTags) (k : CliCmd) : Prop :=
  let tp := processDefaultTags c.userVRO d (cliTags k.toks) (cliPostInOrder k.toks)
  (∀ t ∈ tp.1, GoodTag c t) ∧ (∀ t ∈ tp.2, GoodTag c t)

/-- **`eups vro ARGS` prints the VRO `setup ARGS` resolves with** (default configuration, registered
tags; any `--keep` setting of the instance, `-e`, `-z`, with or without a version argument). -/
theorem vroCmd_eq_setupCmdVro (c : VroCfg) (dc : DefaultCfg c) (d : DefaultTags) (k : CliCmd)
    (hg : GoodCli c d k) :
    (vroCmd c d k).map (·.vro) = (setupCmdVro c d k).map (·.vro) := by
  obtain ⟨h1, h2⟩ := hg
  unfold vroCmd setupCmdVro
  exact selectVROTwice_vro_eq { c with exact := k.exact } (defaultCfg_exact dc k.exact) _
    (fun t h => goodTag_exact (h1 t h) k.exact) (fun t h => goodTag_exact (h2 t h) k.exact)

/-! ## the pinned `eups vro` (before fixes D90, D91) disagrees with `setup` -/

/-- the configuration of hooks.py with global tags `current stable beta`, a fresh instance -/
def cmdCfg : VroCfg := gCfg [(kDefault, .flat defaultBase)] false false [kCurrent, gStable, gBeta] []
/-- no default tags configured -/
def noDefaultTags : DefaultTags := ⟨[], []⟩

theorem cmdCfg_default : DefaultCfg cmdCfg := by
  refine ⟨rfl, rfl, rfl, by decide, ?_⟩
  intro t h
  have : t = kCurrent ∨ t = gStable ∨ t = gBeta := by simpa [cmdCfg, gCfg] using h
  rcases this with rfl | rfl | rfl <;> decide

theorem cmdCfg_good {t : Str} (h : t ∈ [kCurrent, gStable, gBeta]) : GoodTag cmdCfg t := by
  simp only [List.mem_cons, List.not_mem_nil, or_false] at h
  rcases h with rfl | rfl | rfl
  · exact ⟨by decide, by decide, by decide, by decide⟩
  · exact ⟨by decide, by decide, by decide, by decide⟩
  · exact ⟨by decide, by decide, by decide, by decide⟩

/-- `eups vro -t None p` -/
def cmdNone : CliCmd := { toks := [.tag kNone], version := false, exact := false, dbz := none }
/-- `eups vro -c -T beta p 1.0` -/
def cmdCurrentBeta : CliCmd := { toks := [.current, .postTag gBeta], version := true, exact := false, dbz := none }

/-- (D90) `-t None`: the pinned `eups vro` has run `selectVRO` with the raw tag `None` first; the VRO it
prints has lost `type:exact`, the one `setup -t None` uses has it — and the fixed `eups vro` agrees
with `setup`. -/
theorem vroCmdPinned_none_witness :
    (vroCmdPinned cmdCfg noDefaultTags cmdNone).map (·.vro)
      = .ok [kCommandLine, kVersion, kVersionExpr, kCurrent] ∧
    (setupCmdVro cmdCfg noDefaultTags cmdNone).map (·.vro)
      = .ok [kTypeExact, kCommandLine, kVersion, kVersionExpr, kCurrent] ∧
    (vroCmd cmdCfg noDefaultTags cmdNone).map (·.vro)
      = .ok [kTypeExact, kCommandLine, kVersion, kVersionExpr, kCurrent] ∧
    (vroCmdPinned cmdCfg noDefaultTags cmdNone).map (·.vro) ≠ (setupCmdVro cmdCfg noDefaultTags cmdNone).map (·.vro) := by
  refine ⟨by decide, by decide, by decide, by decide⟩

/-- (D91) `-c -T beta`: the pinned `eups vro` appends `current` after all `-T` values, `setup` where `-c`
stands. -/
theorem vroCmdPinned_current_order_witness :
    (vroCmdPinned cmdCfg noDefaultTags cmdCurrentBeta).map (·.vro)
      = .ok [kTypeExact, kCommandLine, kVersion, kVersionExpr, gBeta, kCurrent] ∧
    (setupCmdVro cmdCfg noDefaultTags cmdCurrentBeta).map (·.vro)
      = .ok [kTypeExact, kCommandLine, kVersion, kVersionExpr, kCurrent, gBeta] ∧
    (vroCmd cmdCfg noDefaultTags cmdCurrentBeta).map (·.vro)
      = .ok [kTypeExact, kCommandLine, kVersion, kVersionExpr, kCurrent, gBeta] ∧
    (vroCmdPinned cmdCfg noDefaultTags cmdCurrentBeta).map (·.vro)
      ≠ (setupCmdVro cmdCfg noDefaultTags cmdCurrentBeta).map (·.vro) := by
  refine ⟨by decide, by decide, by decide, by decide⟩

/-- the pinned command is not covered by the theorem because its *first* call is given `None`, which is
not a registered tag (the hypothesis `GoodCli` is about what both calls of the fixed command receive) -/
example : ¬ GoodTag cmdCfg kNone := fun g => by
  have := g.global
  revert this; decide

/-! ## non-vacuity -/

/-- `-t beta -c -T stable p 1.0` -/
def cmdBetaCurrentStable (exact : Bool) : CliCmd :=
  { toks := [.tag gBeta, .current, .postTag gStable], version := true, exact := exact, dbz := none }

theorem goodCli_of_eq {c : VroCfg} {d : DefaultTags} {k : CliCmd} {T P : List Str}
    (h : processDefaultTags c.userVRO d (cliTags k.toks) (cliPostInOrder k.toks) = (T, P))
    (hT : ∀ t ∈ T, GoodTag c t) (hP : ∀ t ∈ P, GoodTag c t) : GoodCli c d k := by
  unfold GoodCli
  rw [h]
  exact ⟨hT, hP⟩

theorem goodCli_betaCurrentStable (e : Bool) : GoodCli cmdCfg noDefaultTags (cmdBetaCurrentStable e) :=
  goodCli_of_eq (T := [gBeta]) (P := [kCurrent, gStable]) rfl
    (fun t h => cmdCfg_good (by simp only [List.mem_singleton] at h; simp [h]))
    (fun t h => cmdCfg_good (by
      simp only [List.mem_cons, List.not_mem_nil, or_false] at h
      rcases h with rfl | rfl <;> simp))

example : (vroCmd cmdCfg noDefaultTags (cmdBetaCurrentStable false)).map (·.vro)
    = .ok [kTypeExact, kCommandLine, gBeta, kVersion, kVersionExpr, kCurrent, gStable] := by decide
example : (vroCmd cmdCfg noDefaultTags (cmdBetaCurrentStable true)).map (·.vro)
    = .ok [kTypeExact, kCommandLine, gBeta, kVersion, kVersionExpr, kCurrent, gStable] := by decide
/-- the theorem applied -/
example (e : Bool) : (vroCmd cmdCfg noDefaultTags (cmdBetaCurrentStable e)).map (·.vro)
    = (setupCmdVro cmdCfg noDefaultTags (cmdBetaCurrentStable e)).map (·.vro) :=
  vroCmd_eq_setupCmdVro _ cmdCfg_default _ _ (goodCli_betaCurrentStable e)

/-- default tags `pre := [beta]`: `-t None` switches them off (nothing is left to check) ... -/
def betaDefault : DefaultTags := ⟨[gBeta], []⟩

theorem goodCli_none : GoodCli cmdCfg betaDefault cmdNone :=
  goodCli_of_eq (T := []) (P := []) rfl (fun t h => by cases h) (fun t h => by cases h)

example : (vroCmd cmdCfg betaDefault cmdNone).map (·.vro)
    = .ok [kTypeExact, kCommandLine, kVersion, kVersionExpr, kCurrent] := by decide

/-- ... and without `-t` / `-T` they are used -/
def cmdPlain : CliCmd := { toks := [], version := false, exact := false, dbz := none }

theorem goodCli_plain : GoodCli cmdCfg betaDefault cmdPlain :=
  goodCli_of_eq (T := [gBeta]) (P := []) rfl
    (fun t h => cmdCfg_good (by simp only [List.mem_singleton] at h; simp [h])) (fun t h => by cases h)

example : (vroCmd cmdCfg betaDefault cmdPlain).map (·.vro)
    = .ok [kTypeExact, kCommandLine, gBeta, kVersion, kVersionExpr, kCurrent] := by decide

/-- `--keep` on the instance: the first call leaves `keep` in the dictionary's list, the second puts
another one in front; the duplicate is dropped (`hk : c.keep = false` is not needed) -/
example : (selectVROTwice { cmdCfg with keep := true } (gArgs [gBeta] [gStable] none)).map (·.vro)
    = .ok [kKeep, kTypeExact, kCommandLine, gBeta, kVersion, kVersionExpr, gStable, kCurrent] := by decide

end EupsModel.Vro
