import EupsModel.Lemmas.TableBlocks
/-! C11: the default product's implicit action is appended after everything the table denotes. -/
namespace EupsModel.TableParse
open EupsModel.Cond

theorem bind_ok_id {α : Type} (x : Res α) : (x.bind fun b => .ok b) = x := by cases x <;> rfl

theorem actions_append_bind (v : Variant) (env : Env) : ∀ (c1 c2 : List Chain),
    actions v env (c1 ++ c2) = (actions v env c1).bind fun a => (actions v env c2).bind fun b => .ok (a ++ b) := by
  intro c1
  induction c1 with
  | nil => intro c2; simp only [List.nil_append, actions, Res.bind]; cases actions v env c2 <;> rfl
  | cons ch r ih =>
    intro c2
    simp only [List.cons_append, actions, ih]
    cases select v env ch <;> cases actions v env r <;> cases actions v env c2 <;> simp [Res.bind, List.append_assoc]

theorem tableActionsD_none (v : Variant) (pdir : Option Str) (env : Env) (text : Str) :
    tableActionsD v pdir none env text = tableActions v pdir env text := by
  simp only [tableActionsD, parseD, tableActions]
  cases parse v pdir text <;> rfl

/-- with a default product configured, `Table.actions` is what it is without one, followed by the implicit
`setupOptional` of the default product — for every text, flavor and list of setup types (errors included) -/
theorem tableActionsD_some (pdir : Option Str) (d : DefaultProduct) (env : Env) (text : Str) :
    tableActionsD repaired pdir (some d) env text
      = (tableActions repaired pdir env text).bind fun as => .ok (as ++ [implicitAction d]) := by
  simp only [tableActionsD, parseD, tableActions]
  cases parse repaired pdir text with
  | ok chains =>
    simp only [Res.bind, actions_append_bind]
    have : actions repaired env [unconditional [implicitAction d]] = .ok [implicitAction d] := by
      simp [actions, select_unconditional, Res.bind]
    rw [this]
  | err e => rfl
  | fuel => rfl

end EupsModel.TableParse
