import EupsModel.Lemmas.LockPathR
/-! C09, repaired protocol, several stacks — nothing is abandoned: a process is engaged with a stack only while its
control state still owes that stack a release (`Owe`), and no `giveLocks` call ever ends in an exception (`Clean`).
Together: when every command has finished, no stack holds a lock directory or a lock file, and no command ended with a
failed release — the pinned protocol's D12f (locks abandoned after a release that raised on a benign race, or after the
exit without the exit handler) is gone.  No hypothesis on the configuration (paths may even repeat elements). -/
namespace EupsModel.LockPathR
open EupsModel.Lock (Pid Kind Err)
open EupsModel.LockR

/-! ### list facts -/

theorem mem_take_succ_of_getElem? {α} {l : List α} {k : Nat} {a : α} (h : l[k]? = some a) : a ∈ l.take (k + 1) := by
  rw [List.take_add_one, h]; simp

theorem mem_take_of_mem_take_succ {α} {l : List α} {k : Nat} {a d : α} (h : l[k]? = some a) (hd : d ∈ l.take (k + 1))
    (hne : d ≠ a) : d ∈ l.take k := by
  rw [List.take_add_one, h] at hd
  simp at hd
  rcases hd with hd | hd
  · exact hd
  · exact absurd hd hne

theorem mem_take_mono {α} {l : List α} {k m : Nat} {d : α} (hkm : k ≤ m) (hd : d ∈ l.take k) : d ∈ l.take m := by
  rw [List.mem_iff_getElem?] at hd ⊢
  obtain ⟨n, hn⟩ := hd
  rw [List.getElem?_take] at hn
  split at hn
  · exact ⟨n, by rw [List.getElem?_take]; simp [show n < m by omega, hn]⟩
  · cases hn

theorem mem_drop_head {α} {l : List α} {j k : Nat} {a : α} (h : l[j]? = some a) (hjk : j < k) :
    a ∈ (l.take k).drop j := by
  rw [List.mem_iff_getElem?]
  exact ⟨0, by simp [List.getElem?_drop, hjk, h]⟩

theorem mem_drop_succ {α} {l : List α} {j k : Nat} {a d : α} (h : l[j]? = some a) (hd : d ∈ (l.take k).drop j)
    (hne : d ≠ a) : d ∈ (l.take k).drop (j + 1) := by
  rw [List.mem_iff_getElem?] at hd ⊢
  obtain ⟨n, hn⟩ := hd
  rw [List.getElem?_drop, List.getElem?_take] at hn
  split at hn
  · cases n with
    | zero => simp at hn; rw [h] at hn; exact absurd (Option.some.inj hn).symm hne
    | succ m =>
      refine ⟨m, ?_⟩
      rw [List.getElem?_drop, List.getElem?_take]
      have e : j + 1 + m = j + (m + 1) := by omega
      rw [e]; simp [*]
  · cases hn

/-- the last element of the part still owed -/
theorem eq_of_mem_drop_last {α} {l : List α} {j k : Nat} {a d : α} (h : l[j]? = some a) (hd : d ∈ (l.take k).drop j)
    (hjk : ¬ j + 1 < k) : d = a := by
  apply Classical.byContradiction
  intro hne
  have := mem_drop_succ h hd hne
  have hl : ((l.take k).drop (j + 1)).length = 0 := by simp; omega
  rw [List.length_eq_zero_iff.1 hl] at this; cases this

/-! ### the invariant -/

/-- stacks to which the control state still owes a release (or on which it is working) -/
def owed : Ctl → List Dir → List Dir
  | .acq k, path => path.take (k + 1)
  | .unw j k _, path => (path.take k).drop j
  | .body n _, path => path.take n
  | .rel j n _ _, path => (path.take n).drop j
  | .fin _, _ => []

def Owe (S : PSt) : Prop :=
  ∀ p d, engaged ((S.comp d).pc p) = true → d ∈ owed (S.ctl p) (S.path p)

/-- the recorded outcome is not a failed release -/
def okOut : Out → Prop
  | .failedRel _ => False
  | _ => True

/-- the control state is well formed, the exit handler is registered, and no release has failed -/
def CtlOk : Ctl → Prop
  | .acq _ => True
  | .unw j k _ => j < k
  | .body _ reg => reg = true
  | .rel j n _ o => j < n ∧ okOut o
  | .fin o => okOut o

structure PInv (S : PSt) : Prop where
  inv  : ∀ d, Inv (S.comp d)
  norf : ∀ d q e, (S.comp d).pc q ≠ .failedRel e
  ok   : ∀ p, CtlOk (S.ctl p)
  owe  : Owe S

theorem pinv_minit (kind : Pid → Kind) (lp : Pid → Option Pid) (tries : Pid → Nat) (path : Pid → List Dir)
    (explicit : Pid → Bool) : PInv (minit kind lp tries path explicit) := by
  refine ⟨fun _ => inv_init kind lp tries, ?_, ?_, ?_⟩
  · intro d q e; simp [minit, init]
  · intro p; simp only [minit]; split <;> simp [CtlOk, okOut]
  · intro p d he; simp [minit, init, engaged] at he

theorem relComp_pc_other (s : St) (i q : Pid) (h : q ≠ i) : (relComp s i).pc q = s.pc q := by
  unfold relComp
  split
  · rw [step_pc_other _ i q h, step_pc_other _ i q h]
  · rw [step_pc_other _ i q h]

/-- how `Owe` survives a transition of process `i` that touches stack `d0` only -/
theorem owe_of {S S' : PSt} {i : Pid} {d0 : Dir} (hO : Owe S) (hpath : S'.path = S.path)
    (hctl : ∀ q, q ≠ i → S'.ctl q = S.ctl q) (hcomp : ∀ d, d ≠ d0 → S'.comp d = S.comp d)
    (hpc : ∀ q, q ≠ i → (S'.comp d0).pc q = (S.comp d0).pc q)
    (h1 : engaged ((S'.comp d0).pc i) = true → d0 ∈ owed (S'.ctl i) (S.path i))
    (h2 : ∀ d, d ≠ d0 → d ∈ owed (S.ctl i) (S.path i) → d ∈ owed (S'.ctl i) (S.path i)) : Owe S' := by
  intro p d he
  rw [hpath]
  by_cases hp : p = i
  · subst hp
    by_cases hd : d = d0
    · subst hd; exact h1 he
    · rw [hcomp d hd] at he
      exact h2 d hd (hO p d he)
  · rw [hctl p hp]
    by_cases hd : d = d0
    · subst hd; rw [hpc p hp] at he; exact hO p d he
    · rw [hcomp d hd] at he; exact hO p d he

theorem ok_of {S S' : PSt} {i : Pid} (hok : ∀ p, CtlOk (S.ctl p)) (hctl : ∀ q, q ≠ i → S'.ctl q = S.ctl q)
    (h : CtlOk (S'.ctl i)) : ∀ p, CtlOk (S'.ctl p) := by
  intro p
  by_cases hp : p = i
  · subst hp; exact h
  · rw [hctl p hp]; exact hok p

theorem relComp_no_fail (S : PSt) (i : Pid) (h : PInv S) (d : Dir) (e : Err) :
    (relComp (S.comp d) i).pc i ≠ .failedRel e := by
  obtain ⟨n, hn⟩ := relComp_is_run (S.comp d) i
  rw [hn]; exact noRelFail_run _ _ (h.inv d) (h.norf d) i e

theorem ok_mstep (S : PSt) (i : Pid) (h : PInv S) : ∀ p, CtlOk ((mstep S i).ctl p) := by
  intro p
  by_cases hp : p = i
  · subst hp
    have hok := h.ok p
    cases hc : S.ctl p with
    | acq k =>
      unfold mstep; simp only [hc]
      split
      · rw [hc]; trivial
      · repeat' split
        all_goals simp [CtlOk, okOut, hc]
        all_goals omega
    | unw j k err =>
      rw [hc] at hok
      have hjk : j < k := hok
      unfold mstep; simp only [hc]
      split
      · rw [hc]; exact hjk
      · rename_i d0 _
        split
        · split
          · simp [CtlOk]; omega
          · simp [CtlOk, okOut]
        · rename_i e' hs; exact absurd hs (relComp_no_fail S p h d0 e')
        · simp [CtlOk, hc, hjk]
    | body n reg =>
      unfold mstep; simp only [hc]
      repeat' split
      all_goals simp [CtlOk, okOut]
      all_goals simp_all
      all_goals omega
    | rel j n more o =>
      rw [hc] at hok
      obtain ⟨hjn, ho⟩ : j < n ∧ okOut o := hok
      unfold mstep; simp only [hc]
      split
      · rw [hc]; exact ⟨hjn, ho⟩
      · rename_i d0 _
        split
        · split
          · simp [CtlOk, ho]; omega
          · simp [CtlOk, ho]
        · rename_i e' hs; exact absurd hs (relComp_no_fail S p h d0 e')
        · simp [CtlOk, hc, hjn, ho]
    | fin o =>
      unfold mstep; simp only [hc]
      rw [hc] at hok; exact hok
  · rw [(mstep_effect S i).ctlOther p hp]; exact h.ok p

theorem owe_mstep (S : PSt) (i : Pid) (h : PInv S) : Owe (mstep S i) := by
  cases hc : S.ctl i with
  | acq k =>
    unfold mstep; simp only [hc]
    split
    · exact h.owe
    · rename_i d0 hget
      have hpo : ∀ q, q ≠ i → (step (S.comp d0) i).pc q = (S.comp d0).pc q := fun q hq => step_pc_other _ i q hq
      split
      · -- hold
        split
        · refine owe_of (i := i) (d0 := d0) h.owe rfl (fun q hq => by simp [setCtl_ctl_other _ _ _ _ hq])
            (fun d hd => by simp [setComp_comp_other _ _ _ _ hd]) (by simpa using hpo) ?_ ?_
          · intro _; simp only [setCtl_ctl_same, owed]
            exact mem_take_mono (by omega) (mem_take_succ_of_getElem? hget)
          · intro d _ hd
            rw [hc] at hd; simp only [setCtl_ctl_same, owed] at hd ⊢; exact mem_take_mono (by omega) hd
        · refine owe_of (i := i) (d0 := d0) h.owe rfl (fun q hq => by simp [setCtl_ctl_other _ _ _ _ hq])
            (fun d hd => by simp [setComp_comp_other _ _ _ _ hd]) (by simpa using hpo) ?_ ?_
          · intro _; simp only [setCtl_ctl_same, owed]; exact mem_take_succ_of_getElem? hget
          · intro d _ hd
            rw [hc] at hd; simpa only [setCtl_ctl_same, owed] using hd
      · -- failedAcq
        rename_i err hs
        split
        · rename_i hk0
          refine owe_of (i := i) (d0 := d0) h.owe rfl (fun q hq => by simp [setCtl_ctl_other _ _ _ _ hq])
            (fun d hd => by simp [setComp_comp_other _ _ _ _ hd]) (by simpa using hpo) ?_ ?_
          · intro he; simp [hs, engaged] at he
          · intro d hne hd
            rw [hc] at hd; simp only [owed] at hd
            subst hk0
            exact absurd (mem_take_of_mem_take_succ hget hd hne) (by simp)
        · refine owe_of (i := i) (d0 := d0) h.owe rfl (fun q hq => by simp [setCtl_ctl_other _ _ _ _ hq])
            (fun d hd => by simp [setComp_comp_other _ _ _ _ hd]) (by simpa using hpo) ?_ ?_
          · intro he; simp [hs, engaged] at he
          · intro d hne hd
            rw [hc] at hd; simp only [setCtl_ctl_same, owed, List.drop_zero] at hd ⊢
            exact mem_take_of_mem_take_succ hget hd hne
      · -- still acquiring
        refine owe_of (i := i) (d0 := d0) h.owe rfl (fun q _ => rfl)
          (fun d hd => by simp [setComp_comp_other _ _ _ _ hd]) (by simpa using hpo) ?_ ?_
        · intro _; simp only [setComp_ctl, hc, owed]; exact mem_take_succ_of_getElem? hget
        · intro d _ hd; simpa only [setComp_ctl] using hd
  | unw j k err =>
    have hjk : j < k := by have := h.ok i; rw [hc] at this; exact this
    unfold mstep; simp only [hc]
    split
    · exact h.owe
    · rename_i d0 hget
      have hpo : ∀ q, q ≠ i → (relComp (S.comp d0) i).pc q = (S.comp d0).pc q := fun q hq => relComp_pc_other _ i q hq
      split
      · -- done
        rename_i hs
        split
        · refine owe_of (i := i) (d0 := d0) h.owe rfl (fun q hq => by simp [setCtl_ctl_other _ _ _ _ hq])
            (fun d hd => by simp [setComp_comp_other _ _ _ _ hd]) (by simpa using hpo) ?_ ?_
          · intro he; simp [hs, engaged] at he
          · intro d hne hd
            rw [hc] at hd; simp only [setCtl_ctl_same, owed] at hd ⊢
            exact mem_drop_succ hget hd hne
        · rename_i hlast
          refine owe_of (i := i) (d0 := d0) h.owe rfl (fun q hq => by simp [setCtl_ctl_other _ _ _ _ hq])
            (fun d hd => by simp [setComp_comp_other _ _ _ _ hd]) (by simpa using hpo) ?_ ?_
          · intro he; simp [hs, engaged] at he
          · intro d hne hd
            rw [hc] at hd; simp only [owed] at hd
            exact absurd (eq_of_mem_drop_last hget hd hlast) hne
      · rename_i e' hs; exact absurd hs (relComp_no_fail S i h d0 e')
      · refine owe_of (i := i) (d0 := d0) h.owe rfl (fun q _ => rfl)
          (fun d hd => by simp [setComp_comp_other _ _ _ _ hd]) (by simpa using hpo) ?_ ?_
        · intro _; simp only [setComp_ctl, hc, owed]; exact mem_drop_head hget hjk
        · intro d _ hd; simpa only [setComp_ctl] using hd
  | body n reg =>
    have hreg : reg = true := by have := h.ok i; rw [hc] at this; exact this
    subst hreg
    have key : ∀ c' : Ctl, (∀ d, d ∈ (S.path i).take n → d ∈ owed c' (S.path i)) → Owe (setCtl S i c') := by
      intro c' hsub p d he
      have := h.owe p d he
      by_cases hp : p = i
      · subst hp
        rw [hc] at this
        simp only [setCtl_ctl_same, setCtl_path]
        exact hsub d this
      · simpa [setCtl_ctl_other _ _ _ _ hp] using this
    unfold mstep; simp only [hc]
    repeat' split
    all_goals apply key
    all_goals intro d hd
    all_goals simp_all [owed]
  | rel j n more o =>
    have hjn : j < n := by have := h.ok i; rw [hc] at this; exact this.1
    unfold mstep; simp only [hc]
    split
    · exact h.owe
    · rename_i d0 hget
      have hpo : ∀ q, q ≠ i → (relComp (S.comp d0) i).pc q = (S.comp d0).pc q := fun q hq => relComp_pc_other _ i q hq
      split
      · -- done
        rename_i hs
        split
        · refine owe_of (i := i) (d0 := d0) h.owe rfl (fun q hq => by simp [setCtl_ctl_other _ _ _ _ hq])
            (fun d hd => by simp [setComp_comp_other _ _ _ _ hd]) (by simpa using hpo) ?_ ?_
          · intro he; simp [hs, engaged] at he
          · intro d hne hd
            rw [hc] at hd; simp only [setCtl_ctl_same, owed] at hd ⊢
            exact mem_drop_succ hget hd hne
        · rename_i hlast
          refine owe_of (i := i) (d0 := d0) h.owe rfl (fun q hq => by simp [setCtl_ctl_other _ _ _ _ hq])
            (fun d hd => by simp [setComp_comp_other _ _ _ _ hd]) (by simpa using hpo) ?_ ?_
          · intro he; simp [hs, engaged] at he
          · intro d hne hd
            rw [hc] at hd; simp only [owed] at hd
            exact absurd (eq_of_mem_drop_last hget hd hlast) hne
      · rename_i e' hs; exact absurd hs (relComp_no_fail S i h d0 e')
      · refine owe_of (i := i) (d0 := d0) h.owe rfl (fun q _ => rfl)
          (fun d hd => by simp [setComp_comp_other _ _ _ _ hd]) (by simpa using hpo) ?_ ?_
        · intro _; simp only [setComp_ctl, hc, owed]; exact mem_drop_head hget hjn
        · intro d _ hd; simpa only [setComp_ctl] using hd
  | fin o =>
    unfold mstep; simp only [hc]
    exact h.owe

theorem pinv_mstep (S : PSt) (i : Pid) (h : PInv S) : PInv (mstep S i) :=
  have e := mstep_effect S i
  ⟨e.inv h.inv, e.noRelFail h.inv h.norf, ok_mstep S i h, owe_mstep S i h⟩

theorem pinv_mrun (S : PSt) (sched : List Pid) (h : PInv S) : PInv (mrun S sched) := by
  induction sched generalizing S with
  | nil => exact h
  | cons i r ih => exact ih (mstep S i) (pinv_mstep S i h)

theorem pinv_mintr (S : PSt) (i : Pid) (h : PInv S) : PInv (mintr S i) := by
  have e := mintr_effect S i
  refine ⟨e.inv h.inv, e.noRelFail h.inv h.norf, ?_, ?_⟩
  · intro p
    by_cases hp : p = i
    · subst hp
      have hok := h.ok p
      unfold mintr
      cases hc : S.ctl p with
      | body n reg =>
        simp only []
        split
        · simp [CtlOk, okOut]
        · simp [CtlOk, okOut]; omega
      | acq k =>
        simp only []
        split
        · split
          · simp [CtlOk, okOut]
          · simp [CtlOk, okOut]; omega
        · rw [hc]; trivial
      | unw a b c => simp only []; rw [hc] at hok ⊢; exact hok
      | rel a b c o =>
        rw [hc] at hok
        simp only []
        repeat' split
        all_goals first
          | (simp only [setCtl_ctl_same, CtlOk]; exact ⟨hok.1, by simp [okOut]⟩)
          | (rw [hc]; exact hok)
      | fin o => simp only []; rw [hc] at hok ⊢; exact hok
    · rw [e.ctlOther p hp]; exact h.ok p
  · unfold mintr
    cases hc : S.ctl i with
    | body n reg =>
      have key : ∀ c' : Ctl, (∀ d, d ∈ (S.path i).take n → d ∈ owed c' (S.path i)) → Owe (setCtl S i c') := by
        intro c' hsub p d he
        have := h.owe p d he
        by_cases hp : p = i
        · subst hp
          rw [hc] at this
          simp only [setCtl_ctl_same, setCtl_path]
          exact hsub d this
        · simpa [setCtl_ctl_other _ _ _ _ hp] using this
      simp only []
      split
      all_goals apply key
      all_goals intro d hd
      all_goals simp_all [owed]
    | acq k =>
      simp only []
      split
      · rename_i hrest
        -- the process is about to call mkdir on path element k: it is not engaged with that stack
        have key : ∀ c' : Ctl, (∀ d, d ∈ (S.path i).take k → d ∈ owed c' (S.path i)) → Owe (setCtl S i c') := by
          intro c' hsub p d he
          have := h.owe p d he
          by_cases hp : p = i
          · subst hp
            rw [hc] at this
            simp only [setCtl_ctl_same, setCtl_path]
            simp only [owed] at this
            unfold atRestAcq at hrest
            cases hg : (S.path p)[k]? with
            | none => simp [hg] at hrest
            | some d0 =>
              by_cases hd : d = d0
              · subst hd
                simp only [hg] at hrest
                have he' : engaged ((S.comp d).pc p) = true := he
                cases hpc : (S.comp d).pc p <;> simp [hpc] at hrest <;> simp [hpc, engaged] at he'
              · exact hsub d (mem_take_of_mem_take_succ hg this hd)
          · simpa [setCtl_ctl_other _ _ _ _ hp] using this
        split
        · rename_i hk0
          apply key
          intro d hd
          subst hk0
          simp at hd
        · apply key
          intro d hd
          simpa [owed] using hd
      · exact h.owe
    | unw a b c => exact h.owe
    | rel a b c o =>
      simp only []
      repeat' split
      all_goals first
        | exact h.owe
        | (intro p d he
           have := h.owe p d he
           by_cases hp : p = i
           · subst hp
             rw [hc] at this
             simpa only [setCtl_ctl_same, setCtl_path, owed] using this
           · simpa [setCtl_ctl_other _ _ _ _ hp] using this)
    | fin o => exact h.owe

theorem pinv_mrunE (S : PSt) (evs : List MEv) (h : PInv S) : PInv (mrunE S evs) := by
  induction evs generalizing S with
  | nil => exact h
  | cons e r ih =>
    rw [mrunE_cons]
    refine ih (mstepE S e) ?_
    cases e with
    | call i => exact pinv_mstep S i h
    | intr i => exact pinv_mintr S i h

end EupsModel.LockPathR
