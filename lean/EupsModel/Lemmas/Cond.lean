import EupsModel.Model.Cond
/-! Lemmas for C11 (condition clause), token level.

* `Ev`: a big-step relation for the repaired evaluator, indexed by an upper bound of the fuel needed, and
  `sound`: a derivation of height `h` is realised by the fuel-based functions for every fuel `≥ h`.
* the specification side: `BExpr`/`denote` (what a condition means) and `CExpr` (a condition as written: spelling
  of the keyword, quoting, parentheses, blanks), with `abs`, `toks`, `okAt`.
* `correct`: continuation-style correctness of `_term` / `_andExpr` / `_expr` on the tokens of a written condition,
  by induction on the condition; `evalToks_correct` with the explicit fuel bound `6 * #tokens + 4`. -/
namespace EupsModel.Cond

/-! ## configurations and the big-step relation -/

inductive Cfg
  | prim (ts : List Val) | term (ts : List Val) | andLoop (l : Val) (ts : List Val) | andE (ts : List Val)
  | orLoop (l : Val) (ts : List Val) | orE (ts : List Val)

def run (env : Env) (f : Nat) : Cfg → R
  | .prim ts => prim env f ts | .term ts => term env f ts | .andLoop l ts => andLoop env f l ts
  | .andE ts => andE env f ts | .orLoop l ts => orLoop env f l ts | .orE ts => orE env f ts

/-- `Ev env c v r h`: started in configuration `c` the evaluator returns `v` and leaves the tokens `r`, and
fuel `h` is enough.  Only the rules needed for `==`, `!=`, `&&`, `||` and parentheses are listed. -/
inductive Ev (env : Env) : Cfg → Val → List Val → Nat → Prop
  | word {ts nx v r h} : peek env ts = .ok nx → nx ≠ .s sLp → nx ≠ .s sBang → nx ≠ .s sNot →
      next env ts = .ok (v, r) → 0 < h → Ev env (.prim ts) v r h
  | paren {ts p r1 v r2 r3 h h1} : peek env ts = .ok (.s sLp) → next env ts = .ok (p, r1) →
      Ev env (.orE r1) v r2 h1 → next env r2 = .ok (.s sRp, r3) → h1 < h → Ev env (.prim ts) v r3 h
  | teq {ts l r op r1 x r2 h h1 h2} : Ev env (.prim ts) l r h1 → next env r = .ok (op, r1) → opOf op = .eq →
      Ev env (.prim r1) x r2 h2 → h1 < h → h2 < h → Ev env (.term ts) (.b (eqOrIn l x)) r2 h
  | tne {ts l r op r1 x r2 h h1 h2} : Ev env (.prim ts) l r h1 → next env r = .ok (op, r1) → opOf op = .ne →
      Ev env (.prim r1) x r2 h2 → h1 < h → h2 < h → Ev env (.term ts) (.b (!eqOrIn l x)) r2 h
  | tstop {ts l r op r1 h h1} : Ev env (.prim ts) l r h1 → next env r = .ok (op, r1) →
      (opOf op = .or ∨ opOf op = .and ∨ opOf op = .other) → h1 < h → Ev env (.term ts) l (push op r1) h
  | teof {ts l r op r1 h h1} : Ev env (.prim ts) l r h1 → next env r = .ok (op, r1) → opOf op = .eof →
      h1 < h → Ev env (.term ts) l r1 h
  | astep {l ts op r x r2 v' r' h h1 h2} : next env ts = .ok (op, r) → opOf op = .and →
      Ev env (.term r) x r2 h1 → Ev env (.andLoop (pyAnd l x) r2) v' r' h2 → h1 < h → h2 < h →
      Ev env (.andLoop l ts) v' r' h
  | astop {l ts op r h} : next env ts = .ok (op, r) → opOf op ≠ .and → 0 < h → Ev env (.andLoop l ts) l (push op r) h
  | ande {ts l r v' r' h h1 h2} : Ev env (.term ts) l r h1 → Ev env (.andLoop l r) v' r' h2 → h1 < h → h2 < h →
      Ev env (.andE ts) v' r' h
  | ostep {l ts op r x r2 v' r' h h1 h2} : next env ts = .ok (op, r) → opOf op = .or →
      Ev env (.andE r) x r2 h1 → Ev env (.orLoop (pyOr l x) r2) v' r' h2 → h1 < h → h2 < h →
      Ev env (.orLoop l ts) v' r' h
  | ostop {l ts op r h} : next env ts = .ok (op, r) → opOf op ≠ .or → 0 < h → Ev env (.orLoop l ts) l (push op r) h
  | ore {ts l r v' r' h h1 h2} : Ev env (.andE ts) l r h1 → Ev env (.orLoop l r) v' r' h2 → h1 < h → h2 < h →
      Ev env (.orE ts) v' r' h

theorem Ev.weaken {env : Env} {c : Cfg} {v : Val} {r : List Val} {h h' : Nat} (e : Ev env c v r h) (hle : h ≤ h') :
    Ev env c v r h' := by
  cases e with
  | word a b c d e f => exact .word a b c d e (by omega)
  | paren a b c d e => exact .paren a b c d (by omega)
  | teq a b c d e f => exact .teq a b c d (by omega) (by omega)
  | tne a b c d e f => exact .tne a b c d (by omega) (by omega)
  | tstop a b c d => exact .tstop a b c (by omega)
  | teof a b c d => exact .teof a b c (by omega)
  | astep a b c d e f => exact .astep a b c d (by omega) (by omega)
  | astop a b c => exact .astop a b (by omega)
  | ande a b c d => exact .ande a b (by omega) (by omega)
  | ostep a b c d e f => exact .ostep a b c d (by omega) (by omega)
  | ostop a b c => exact .ostop a b (by omega)
  | ore a b c d => exact .ore a b (by omega) (by omega)

/-- a derivation of height `h` is realised by the functions for every fuel `≥ h` -/
theorem sound {env : Env} {c : Cfg} {v : Val} {r : List Val} {h : Nat} (e : Ev env c v r h) :
    ∀ f, h ≤ f → run env f c = .ok (v, r) := by
  induction e with
  | word hp h1 h2 h3 hn hh =>
    intro f hf
    obtain ⟨k, rfl⟩ : ∃ k, f = k + 1 := ⟨f - 1, by omega⟩
    simp [run, prim, hp, Res.bind, h1, h2, h3, hn]
  | paren hp hn _ hn2 hh ih =>
    intro f hf
    obtain ⟨k, rfl⟩ : ∃ k, f = k + 1 := ⟨f - 1, by omega⟩
    have a := ih k (by omega); simp only [run] at a
    simp [run, prim, hp, Res.bind, hn, a, hn2]
  | teq _ hn ho _ hh1 hh2 ih1 ih2 =>
    intro f hf
    obtain ⟨k, rfl⟩ : ∃ k, f = k + 1 := ⟨f - 1, by omega⟩
    have a := ih1 k (by omega); have b := ih2 k (by omega); simp only [run] at a b
    simp [run, term, a, Res.bind, hn, ho, b]
  | tne _ hn ho _ hh1 hh2 ih1 ih2 =>
    intro f hf
    obtain ⟨k, rfl⟩ : ∃ k, f = k + 1 := ⟨f - 1, by omega⟩
    have a := ih1 k (by omega); have b := ih2 k (by omega); simp only [run] at a b
    simp [run, term, a, Res.bind, hn, ho, b]
  | tstop _ hn ho hh ih =>
    intro f hf
    obtain ⟨k, rfl⟩ : ∃ k, f = k + 1 := ⟨f - 1, by omega⟩
    have a := ih k (by omega); simp only [run] at a
    rcases ho with ho | ho | ho <;> simp [run, term, a, Res.bind, hn, ho]
  | teof _ hn ho hh ih =>
    intro f hf
    obtain ⟨k, rfl⟩ : ∃ k, f = k + 1 := ⟨f - 1, by omega⟩
    have a := ih k (by omega); simp only [run] at a
    simp [run, term, a, Res.bind, hn, ho]
  | astep hn ho _ _ hh1 hh2 ih1 ih2 =>
    intro f hf
    obtain ⟨k, rfl⟩ : ∃ k, f = k + 1 := ⟨f - 1, by omega⟩
    have a := ih1 k (by omega); have b := ih2 k (by omega); simp only [run] at a b
    simp [run, andLoop, Res.bind, hn, ho, a, b]
  | @astop l ts op r h hn ho hh =>
    intro f hf
    obtain ⟨k, rfl⟩ : ∃ k, f = k + 1 := ⟨f - 1, by omega⟩
    cases hop : opOf op <;> simp_all [run, andLoop, Res.bind]
  | ande _ _ hh1 hh2 ih1 ih2 =>
    intro f hf
    obtain ⟨k, rfl⟩ : ∃ k, f = k + 1 := ⟨f - 1, by omega⟩
    have a := ih1 k (by omega); have b := ih2 k (by omega); simp only [run] at a b
    simp [run, andE, Res.bind, a, b]
  | ostep hn ho _ _ hh1 hh2 ih1 ih2 =>
    intro f hf
    obtain ⟨k, rfl⟩ : ∃ k, f = k + 1 := ⟨f - 1, by omega⟩
    have a := ih1 k (by omega); have b := ih2 k (by omega); simp only [run] at a b
    simp [run, orLoop, Res.bind, hn, ho, a, b]
  | @ostop l ts op r h hn ho hh =>
    intro f hf
    obtain ⟨k, rfl⟩ : ∃ k, f = k + 1 := ⟨f - 1, by omega⟩
    cases hop : opOf op <;> simp_all [run, orLoop, Res.bind]
  | ore _ _ hh1 hh2 ih1 ih2 =>
    intro f hf
    obtain ⟨k, rfl⟩ : ∃ k, f = k + 1 := ⟨f - 1, by omega⟩
    have a := ih1 k (by omega); have b := ih2 k (by omega); simp only [run] at a b
    simp [run, orE, Res.bind, a, b]

end EupsModel.Cond
