import EupsModel.Lemmas.PathAlg
/-! `${VAR}` references inside values (`Action.expandEnvironmentalVariable`): what one reference in a value denotes. -/
namespace EupsModel.PathAlg

/-- a variable name as it can stand in `${..}`: free of `-` and `}` -/
def GoodKey (key : Str) : Prop := ∀ ch ∈ key, ch ≠ 45 ∧ ch ≠ 125

theorem takeWhileNot_key (key rest : Str) (stop : Nat) (hk : GoodKey key) (hs : stop = 45 ∨ stop = 125) :
    takeWhileNot (fun c => c == 45 || c == 125) (key ++ stop :: rest) = (key, stop :: rest) := by
  induction key with
  | nil => rcases hs with h | h <;> simp [takeWhileNot, h]
  | cons a as ih =>
    have ha := hk a (by simp)
    have := ih (fun ch hch => hk ch (by simp [hch]))
    simp [takeWhileNot, ha.1, ha.2, this]

theorem takeWhileNot_brace (s rest : Str) (hs : 125 ∉ s) :
    takeWhileNot (fun c => c == 125) (s ++ 125 :: rest) = (s, 125 :: rest) := by
  induction s with
  | nil => simp [takeWhileNot]
  | cons a as ih =>
    have ha : a ≠ 125 := fun e => hs (by simp [e])
    have := ih (fun e => hs (by simp [e]))
    simp [takeWhileNot, ha, this]

/-- `${key}` at the head of a string -/
theorem varAt_plain (key rest : Str) (hk : GoodKey key) :
    varAt (36 :: 123 :: key ++ 125 :: rest) = some ⟨false, key, none, rest⟩ := by
  simp [varAt, takeWhileNot_key key rest 125 hk (Or.inr rfl)]

/-- `$?{key}` at the head of a string -/
theorem varAt_optional (key rest : Str) (hk : GoodKey key) :
    varAt (36 :: 63 :: 123 :: key ++ 125 :: rest) = some ⟨true, key, none, rest⟩ := by
  simp [varAt, takeWhileNot_key key rest 125 hk (Or.inr rfl)]

/-- `${key-dflt}` at the head of a string -/
theorem varAt_default (key dflt rest : Str) (hk : GoodKey key) (hd : dflt ≠ []) (hd2 : 125 ∉ dflt) :
    varAt (36 :: 123 :: key ++ 45 :: (dflt ++ 125 :: rest)) = some ⟨false, key, some dflt, rest⟩ := by
  cases dflt with
  | nil => exact absurd rfl hd
  | cons a as =>
    have h1 := takeWhileNot_key key ((a :: as) ++ 125 :: rest) 45 hk (Or.inl rfl)
    have h2 := takeWhileNot_brace (a :: as) rest hd2
    simp only [List.cons_append] at h1 h2
    simp [varAt, h1, h2]

/-- text before the first `$` is copied -/
theorem expandGo_pre (env : Env) (pre rest : Str) (f : Nat) (h : 36 ∉ pre) :
    expandGo env (f + pre.length) (pre ++ rest) =
      (match expandGo env f rest with
       | .value t => .value (pre ++ t)
       | o => o) := by
  induction pre with
  | nil =>
    simp only [List.length_nil, Nat.add_zero, List.nil_append]
    cases expandGo env f rest <;> rfl
  | cons c cs ih =>
    have hc : c ≠ 36 := fun e => h (by simp [e])
    have hcs : 36 ∉ cs := fun e => h (by simp [e])
    have : f + (c :: cs).length = (f + cs.length) + 1 := by simp [Nat.add_assoc]
    rw [this, List.cons_append]
    simp only [expandGo, varAt_ne c _ hc, ih hcs]
    cases expandGo env f rest <;> simp

/-- the general shape: `pre ++ <one reference> ++ post` with the reference recognised at its position -/
theorem expand_one_ref (env : Env) (pre ref post : Str) (m : VarMatch) (hpre : 36 ∉ pre) (hpost : 36 ∉ post)
    (hne : ref ≠ []) (hm : varAt (ref ++ post) = some m) (hrest : m.rest = post) :
    expand env (pre ++ ref ++ post) =
      (match (match env.get m.key with | some v => some v | none => m.default) with
       | some r => .value (pre ++ r ++ post)
       | none => if m.optional then .skip else .error) := by
  unfold expand
  have hlen : (pre ++ ref ++ post).length + 1 = ((ref ++ post).length + 1) + pre.length := by
    simp [List.length_append]; omega
  rw [hlen, List.append_assoc, expandGo_pre env pre (ref ++ post) _ hpre]
  cases href : ref ++ post with
  | nil => simp at href; exact absurd href.1 hne
  | cons c cs =>
    rw [href] at hm
    have hf : (c :: cs).length + 1 = cs.length + 1 + 1 := by simp
    rw [hf]
    simp only [expandGo, hm, hrest, expandGo_no_dollar env _ post hpost]
    cases hg : env.get m.key with
    | some v => simp
    | none =>
      cases hd : m.default with
      | some d => simp
      | none => cases m.optional <;> simp

/-- `${key}` with `key` defined is replaced by its value -/
theorem expand_defined (env : Env) (pre key post v : Str) (hpre : 36 ∉ pre) (hpost : 36 ∉ post)
    (hk : GoodKey key) (hv : env.get key = some v) :
    expand env (pre ++ (36 :: 123 :: key ++ [125]) ++ post) = .value (pre ++ v ++ post) := by
  have hm : varAt ((36 :: 123 :: key ++ [125]) ++ post) = some ⟨false, key, none, post⟩ := by
    have := varAt_plain key post hk
    simpa using this
  have := expand_one_ref env pre (36 :: 123 :: key ++ [125]) post _ hpre hpost (by simp) hm rfl
  simpa [hv] using this

/-- `${key}` with `key` undefined and no default is refused -/
theorem expand_undefined (env : Env) (pre key post : Str) (hpre : 36 ∉ pre) (hpost : 36 ∉ post)
    (hk : GoodKey key) (hv : env.get key = none) :
    expand env (pre ++ (36 :: 123 :: key ++ [125]) ++ post) = .error := by
  have hm : varAt ((36 :: 123 :: key ++ [125]) ++ post) = some ⟨false, key, none, post⟩ := by
    have := varAt_plain key post hk
    simpa using this
  have := expand_one_ref env pre (36 :: 123 :: key ++ [125]) post _ hpre hpost (by simp) hm rfl
  simpa [hv] using this

/-- `$?{key}` with `key` undefined skips the line, wherever the reference stands -/
theorem expand_optional_undefined (env : Env) (pre key post : Str) (hpre : 36 ∉ pre) (hpost : 36 ∉ post)
    (hk : GoodKey key) (hv : env.get key = none) :
    expand env (pre ++ (36 :: 63 :: 123 :: key ++ [125]) ++ post) = .skip := by
  have hm : varAt ((36 :: 63 :: 123 :: key ++ [125]) ++ post) = some ⟨true, key, none, post⟩ := by
    have := varAt_optional key post hk
    simpa using this
  have := expand_one_ref env pre (36 :: 63 :: 123 :: key ++ [125]) post _ hpre hpost (by simp) hm rfl
  simpa [hv] using this

/-- `${key-dflt}` with `key` undefined is replaced by the default -/
theorem expand_default (env : Env) (pre key dflt post : Str) (hpre : 36 ∉ pre) (hpost : 36 ∉ post)
    (hk : GoodKey key) (hd : dflt ≠ []) (hd2 : 125 ∉ dflt) (hv : env.get key = none) :
    expand env (pre ++ (36 :: 123 :: key ++ 45 :: dflt ++ [125]) ++ post) = .value (pre ++ dflt ++ post) := by
  have hm : varAt ((36 :: 123 :: key ++ 45 :: dflt ++ [125]) ++ post) = some ⟨false, key, some dflt, post⟩ := by
    have := varAt_default key dflt post hk hd hd2
    simpa using this
  have := expand_one_ref env pre (36 :: 123 :: key ++ 45 :: dflt ++ [125]) post _ hpre hpost (by simp) hm rfl
  simpa [hv] using this

theorem startsWith_not_mem (c : Nat) (s : Str) (h : c ∉ s) : startsWith s [c] = false := by
  cases s with
  | nil => simp [startsWith, List.isPrefixOf]
  | cons x xs =>
    have : (c == x) = false := by simp; intro e; exact h (by simp [e])
    simp [startsWith, List.isPrefixOf, this]

theorem endsWith_not_mem (c : Nat) (s : Str) (h : c ∉ s) : endsWith s [c] = false := by
  have h' : c ∉ s.reverse := by simpa using h
  simpa [endsWith, startsWith] using startsWith_not_mem c s.reverse h'

/-- `envPrepend_lifts` for a value that is written with references: what counts is the expanded value -/
theorem envPrepend_lifts_expand (c : Nat) (hc : c ≠ 36) (append fwd : Bool) (var value v : Str)
    (oldl : List Str) (env : Env)
    (hold : ∀ e ∈ oldl, GoodPiece c e) (hv : GoodPiece c v)
    (hsw : startsWith value [c] = false) (hew : endsWith value [c] = false)
    (hexp : expand env value = .value v)
    (henv : (env.get var).getD [] = join [c] oldl) :
    envPrepend append fwd var value [c] env = .ok (env.set var (join [c] (applyL append fwd [v] oldl))) := by
  have hsplitv : split [c] v = [v] := by
    have := split_join c [v] (by simp) (by intro e he; simp at he; subst he; exact hv.2.1)
    simpa [join] using this
  have hgood : ∀ e ∈ applyL append fwd [v] oldl, 36 ∉ e := by
    intro e he
    rcases applyL_mem append fwd v oldl e he with h | h
    · subst h; exact hv.2.2
    · exact (hold e h).2.2
  have hnd : (36 : Nat) ∉ join [c] (applyL append fwd [v] oldl) :=
    not_mem_join c 36 _ (Ne.symm hc) hgood
  unfold envPrepend
  simp [hsw, hew, henv, hexp, interp_no_dollar env _ v hv.2.2, hsplitv]
  rw [split_join_filter c oldl hold]

/-- an undefined `${VAR}` (no default) makes envPrepend / envAppend refuse in setup mode -/
theorem envPrepend_refuses (append : Bool) (var value delim : Str) (env : Env)
    (hsw : startsWith value delim = false) (hew : endsWith value delim = false)
    (hexp : expand env value = .error) :
    envPrepend append true var value delim env = .runtimeError := by
  unfold envPrepend
  simp [hsw, hew, hexp]

end EupsModel.PathAlg

namespace EupsModel.PathAlg

/-- pieces of the list a variable already holds: non-empty and free of the delimiter — they may hold `$` text -/
def OldPiece (c : Nat) (e : Str) : Prop := e ≠ [] ∧ c ∉ e

theorem split_join_filter_old (c : Nat) (l : List Str) (h : ∀ e ∈ l, OldPiece c e) :
    (split [c] (join [c] l)).filter (fun el => !decide (el = [])) = l := by
  cases l with
  | nil => simp [join, split, splitGo]
  | cons a rest =>
    rw [split_join c _ (by simp) (fun e he => (h e he).2)]
    apply List.filter_eq_self.mpr
    intro e he
    simpa using (h e he).1

/-- `envPrepend_lifts` with the weakest hypothesis on the elements the list already has (repair of D123: they are
stored as they are, whatever `${..}` text they hold) -/
theorem envPrepend_lifts_old (c : Nat) (append fwd : Bool) (var v : Str) (oldl : List Str) (env : Env)
    (hold : ∀ e ∈ oldl, OldPiece c e) (hv : GoodPiece c v)
    (henv : (env.get var).getD [] = join [c] oldl) :
    envPrepend append fwd var v [c] env = .ok (env.set var (join [c] (applyL append fwd [v] oldl))) := by
  have hsplitv : split [c] v = [v] := by
    have := split_join c [v] (by simp) (by intro e he; simp at he; subst he; exact hv.2.1)
    simpa [join] using this
  unfold envPrepend
  simp [startsWith_good c v hv, endsWith_good c v hv, henv,
    expand_no_dollar env v hv.2.2, interp_no_dollar env _ v hv.2.2, hsplitv]
  rw [split_join_filter_old c oldl hold]

end EupsModel.PathAlg
