import EupsModel.Spec.C11Grammar
import EupsModel.Lemmas.TableWritten
/-! C11: the tables of the grammar (`Spec/C11Grammar.lean`) are written tables in the sense of `C11_blocks_text`
(their command lines satisfy `BodyLineT.ok` by `wcmd_body`), and what they denote (`gDenote`) is what the written
table denotes. -/
namespace EupsModel.TableParse
open EupsModel.Cond EupsModel.C11Spec

theorem gline_ok {pdir : Option Str} {l : GLine} (h : l.ok pdir = true) : (l.line pdir).ok pdir = true := by
  cases l with
  | cmd c =>
    simp only [GLine.ok, Bool.and_eq_true] at h
    cases hd : c.denote pdir with
    | none => rw [hd] at h; simp at h
    | some res =>
      have := wcmd_body h.1 hd
      simpa [GLine.line, WCmd.line, hd] using this
  | note raw =>
    simp only [GLine.ok, Bool.and_eq_true] at h
    simp [GLine.line, BodyLineT.ok, h.1, h.2]

theorem gbody_ok {pdir : Option Str} {b : List GLine} (h : b.all (GLine.ok pdir) = true) :
    (b.map (GLine.line pdir)).all (BodyLineT.ok pdir) = true := by
  simp only [List.all_map, List.all_eq_true, Function.comp] at h ⊢
  exact fun l hl => gline_ok (h l hl)

theorem gitem_ok {pdir : Option Str} {g : GItem} (h : g.ok pdir = true) : (g.toT pdir).ok pdir = true := by
  cases g with
  | line l => exact gline_ok h
  | chain f es els cw ca =>
    simp only [GItem.ok, Bool.and_eq_true] at h
    obtain ⟨⟨⟨⟨hf, hes⟩, hels⟩, hcw⟩, hca⟩ := h
    have hb : ∀ b : GBranch, b.ok pdir = true → (b.toT pdir).ok pdir = true := by
      intro b hb
      simp only [GBranch.ok, Bool.and_eq_true] at hb
      simp [BranchT.ok, GBranch.toT, hb.1.1.1.1.1, hb.1.1.1.1.2, hb.1.1.1.2, hb.1.1.2, hb.1.2, gbody_ok hb.2]
    have hes' : (es.map fun p => (p.1, p.2.toT pdir)).all (fun p => p.1.ok && p.2.ok pdir) = true := by
      simp only [List.all_map, List.all_eq_true, Function.comp, Bool.and_eq_true] at hes ⊢
      exact fun p hp => ⟨(hes p hp).1, hb _ (hes p hp).2⟩
    have hels' : (match els.map (GElse.toT pdir) with | some e => e.ok pdir | none => true) = true := by
      cases els with
      | none => rfl
      | some e =>
        simp only [GElse.ok, Bool.and_eq_true] at hels
        simp [ElseT.ok, GElse.toT, hels.1.1.1, hels.1.1.2, hels.1.2, gbody_ok hels.2]
    simp only [GItem.toT, TItemT.ok, Bool.and_eq_true]
    exact ⟨⟨⟨⟨hb f hf, hes'⟩, hels'⟩, hcw⟩, hca⟩

theorem gtable_ok {pdir : Option Str} {t : List GItem} (h : t.all (GItem.ok pdir) = true) :
    (t.map (GItem.toT pdir)).all (TItemT.ok pdir) = true := by
  simp only [List.all_map, List.all_eq_true, Function.comp] at h ⊢
  exact fun g hg => gitem_ok (h g hg)

/-! ### the text does not depend on the product -/

theorem gline_raw (pdir : Option Str) (l : GLine) : (l.line pdir).raw = l.raw := by
  cases l <;> simp [GLine.line, GLine.raw, WCmd.line]

theorem gitem_rawLines (pdir : Option Str) (g : GItem) : (g.toT pdir).rawLines = (g.toT none).rawLines := by
  cases g with
  | line l => simp [GItem.toT, TItemT.rawLines, gline_raw]
  | chain f es els cw ca =>
    cases els <;>
      simp [GItem.toT, TItemT.rawLines, GBranch.toT, GElse.toT, BranchT.abs, Branch.text, List.map_map, Function.comp_def,
        gline_raw, List.flatMap_map]

theorem gText_eq (pdir : Option Str) (t : List GItem) (nl : Bool) : gText t nl = tableText (t.map (GItem.toT pdir)) nl := by
  simp only [gText, tableText, List.flatMap_map, gitem_rawLines pdir]

/-! ### the denotation -/

/-- the actions of the lines that reach the reader are the actions the lines stand for -/
theorem bodyAbs_acts {pdir : Option Str} : ∀ (body : List BodyLineT), body.all (BodyLineT.ok pdir) = true →
    (bodyAbs body).acts = body.flatMap (·.res.toList) := by
  intro body
  induction body with
  | nil => intro _; rfl
  | cons l ls ih =>
    intro h
    simp only [List.all_cons, Bool.and_eq_true] at h
    have ih' := ih h.2
    simp only [bodyAbs, Body.acts] at ih' ⊢
    simp only [List.filter_cons, List.flatMap_cons]
    cases hs : (strip l.raw).isEmpty with
    | true =>
      have : l.res = none := by
        have := h.1
        simp only [BodyLineT.ok, hs, if_true, Bool.and_eq_true, Option.isNone_iff_eq_none] at this
        exact this.2
      simp [this, ih']
    | false =>
      simp only [Bool.not_false, if_true, List.map_cons, List.filterMap_cons]
      cases l.res <;> simp [ih']

theorem gline_res (pdir : Option Str) (l : GLine) : (l.line pdir).res.toList = l.acts pdir := by
  cases l with
  | cmd c =>
    simp only [GLine.line, WCmd.line, GLine.acts]
    cases c.denote pdir with
    | none => rfl
    | some r => cases r <;> rfl
  | note raw => rfl

theorem gbody_acts {pdir : Option Str} {b : List GLine} (h : b.all (GLine.ok pdir) = true) :
    (bodyAbs (b.map (GLine.line pdir))).acts = gBody pdir b := by
  rw [bodyAbs_acts _ (gbody_ok h)]
  simp [gBody, List.flatMap_map, gline_res]

theorem denoteBranches_g (env : Env) (pdir : Option Str) : ∀ (bs : List GBranch) (e : List Action),
    (∀ b ∈ bs, b.body.all (GLine.ok pdir) = true) →
    denoteBranches env (bs.map fun b => (b.toT pdir).abs) e
      = gBranches env (bs.map fun b => (b.cond.abs, gBody pdir b.body)) e := by
  intro bs
  induction bs with
  | nil => intro e _; rfl
  | cons b rest ih =>
    intro e h
    have hb := h b (by simp)
    have e1 : ((b.toT pdir).abs).body.acts = gBody pdir b.body := gbody_acts hb
    have e2 : ((b.toT pdir).abs).cond = b.cond := rfl
    simp only [List.map_cons, denoteBranches, gBranches, ih e (fun x hx => h x (by simp [hx])), e1, e2]

theorem gitem_denote {pdir : Option Str} (env : Env) {g : GItem} (h : g.ok pdir = true) :
    (TItemT.abs (g.toT pdir)).flatMap (denoteItem env) = gDenoteItem pdir env g := by
  cases g with
  | line l =>
    have hok := gline_ok h
    simp only [GItem.toT, TItemT.abs, gDenoteItem]
    cases hs : (strip (l.line pdir).raw).isEmpty with
    | true =>
      have : (l.line pdir).res = none := by
        simp only [BodyLineT.ok, hs, if_true, Bool.and_eq_true, Option.isNone_iff_eq_none] at hok
        exact hok.2
      rw [← gline_res, this]; rfl
    | false => simp [denoteItem, gline_res]
  | chain f es els cw ca =>
    simp only [GItem.ok, Bool.and_eq_true] at h
    obtain ⟨⟨⟨⟨hf, hes⟩, hels⟩, _⟩, _⟩ := h
    have hbodies : ∀ b ∈ f :: es.map (·.2), b.body.all (GLine.ok pdir) = true := by
      intro b hb
      simp only [List.mem_cons, List.mem_map] at hb
      rcases hb with hb | ⟨p, hp, rfl⟩
      · subst hb; simp only [GBranch.ok, Bool.and_eq_true] at hf; exact hf.2
      · have := List.all_eq_true.mp hes p hp
        simp only [GBranch.ok, Bool.and_eq_true] at this; exact this.2.2
    have hd := fun e => denoteBranches_g env pdir (f :: es.map (·.2)) e hbodies
    cases els with
    | none =>
      simp only [GItem.toT, TItemT.abs, List.flatMap_cons, List.flatMap_nil, List.append_nil, denoteItem, gDenoteItem,
        List.map_map, Function.comp_def, Option.map_none]
      simpa [List.map_map, Function.comp_def] using hd []
    | some e =>
      simp only [GElse.ok, Bool.and_eq_true] at hels
      have he : (bodyAbs (e.toT pdir).body).acts = gBody pdir e.body := gbody_acts hels.2
      simp only [GItem.toT, TItemT.abs, List.flatMap_cons, List.flatMap_nil, List.append_nil, denoteItem, gDenoteItem,
        List.map_map, Function.comp_def, Option.map_some, he]
      simpa [List.map_map, Function.comp_def] using hd (gBody pdir e.body)

theorem gtable_denote {pdir : Option Str} (env : Env) : ∀ {t : List GItem}, t.all (GItem.ok pdir) = true →
    denoteTable env (tableAbs (t.map (GItem.toT pdir))) = gDenote pdir env t := by
  intro t
  induction t with
  | nil => intro _; rfl
  | cons g gs ih =>
    intro h
    simp only [List.all_cons, Bool.and_eq_true] at h
    have := ih h.2
    simp only [denoteTable, tableAbs, gDenote, List.map_cons, List.flatMap_cons, List.flatMap_append] at this ⊢
    rw [this, gitem_denote env h.1]

end EupsModel.TableParse
