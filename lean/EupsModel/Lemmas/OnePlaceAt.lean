import EupsModel.Lemmas.OnePlace
/-! The hypotheses of `C06_tag_unique_on_path_partial` weakened to what the proof needs (round 3).

`Plain` forbade every direct `Eups.assignTag` and every `declare` killed half way.  What breaks the uniqueness of a
tag on the path is narrower: such a command *while the tag is assigned in another stack* (D32; the kill window
between `Database.declare` and the purge).  `PlainAt w c` states exactly that about the world `w` the command starts
from: a direct `assignTag` is admitted when the (tag, product, flavor) is assigned nowhere but in the stack the
command names (nowhere at all when it names none); a killed `declare` is admitted when the tag it would assign (the
one given, else `current`) is assigned nowhere.  `PlainHist` threads the condition through a history.
`Plain` implies `PlainAt` in every world, so the round-1 theorems are corollaries. -/
namespace EupsModel.Cache
open EupsModel.Db

/-- the records of the key (t, n, f) lie in stack `s0` only -/
def OnlyIn (db : Spec) (t : Tag) (n : Name) (f : Flav) (s0 : Nat) : Prop :=
  ∀ r ∈ db.tags, r.tag = t → r.name = n → r.flav = f → r.stack = s0

/-- the effect adds tag records of the key (t, n, f) only, and only in stack `s0` -/
def AddsOnly (t : Tag) (n : Name) (f : Flav) (s0 : Nat) : Eff → Prop
  | .declare d (some t') => t' = t ∧ d.name = n ∧ d.flav = f ∧ d.stack = s0
  | .assign s t' n' f' _ => t' = t ∧ n' = n ∧ f' = f ∧ s = s0
  | _ => True

theorem applyDb_addsOnly {t : Tag} {n : Name} {f : Flav} {s0 : Nat} {e : Eff} (h : AddsOnly t n f s0 e) (db : Spec)
    (r : TagRec) (hr : r ∈ (applyDb e db).tags) :
    r ∈ db.tags ∨ (r.tag = t ∧ r.name = n ∧ r.flav = f ∧ r.stack = s0) := by
  cases e with
  | declare d tag =>
    cases tag with
    | none => exact Or.inl (by simpa [applyDb, Spec.addDecl, Spec.setDecl] using hr)
    | some t' =>
      obtain ⟨h1, h2, h3, h4⟩ := h
      simp only [applyDb, Spec.addDecl] at hr
      rcases Spec.mem_setTag.mp hr with rfl | ⟨hx, _⟩
      · exact Or.inr ⟨h1, h2, h3, h4⟩
      · exact Or.inl (by simpa [Spec.setDecl] using hx)
  | undeclare s n' v f' => exact Or.inl (Spec.mem_delDecl_tags.mp hr).1
  | assign s t' n' f' v =>
    obtain ⟨h1, h2, h3, h4⟩ := h
    simp only [applyDb, Spec.assign] at hr
    split at hr
    · rcases Spec.mem_setTag.mp hr with rfl | ⟨hx, _⟩
      · exact Or.inr ⟨h1, h2, h3, h4⟩
      · exact Or.inl hx
    · exact Or.inl hr
  | unassign s t' n' f' => exact Or.inl (Spec.mem_delTag.mp hr).1
  | rmTree _ => exact Or.inl hr
  | copyExtra _ => exact Or.inl hr

/-- what is kept along a trace that adds records of one key in one stack of the path -/
structure Kept (nst : Nat) (t : Tag) (n : Name) (f : Flav) (s0 : Nat) (db : Spec) : Prop where
  one : OnePlace db
  only : OnlyIn db t n f s0
  inPath : TagsInPath nst db

theorem Kept.apply {nst : Nat} {t : Tag} {n : Name} {f : Flav} {s0 : Nat} {db : Spec} (h : Kept nst t n f s0 db)
    (hs : s0 < nst) {e : Eff} (he : AddsOnly t n f s0 e) : Kept nst t n f s0 (applyDb e db) := by
  refine ⟨?_, ?_, ?_⟩
  · intro r hr q hq h1 h2 h3
    rcases applyDb_addsOnly he db r hr with hr' | ⟨a1, a2, a3, a4⟩
    · rcases applyDb_addsOnly he db q hq with hq' | ⟨b1, b2, b3, b4⟩
      · exact h.one r hr' q hq' h1 h2 h3
      · rw [b4]; exact h.only r hr' (h1.trans b1) (h2.trans b2) (h3.trans b3)
    · rcases applyDb_addsOnly he db q hq with hq' | ⟨b1, b2, b3, b4⟩
      · rw [a4]; exact (h.only q hq' (h1.symm.trans a1) (h2.symm.trans a2) (h3.symm.trans a3)).symm
      · rw [a4, b4]
  · intro r hr h1 h2 h3
    rcases applyDb_addsOnly he db r hr with hr' | ⟨_, _, _, a4⟩
    · exact h.only r hr' h1 h2 h3
    · exact a4
  · intro r hr
    rcases applyDb_addsOnly he db r hr with hr' | ⟨_, _, _, a4⟩
    · exact h.inPath r hr'
    · rw [a4]; exact hs

theorem Kept.foldl {nst : Nat} {t : Tag} {n : Name} {f : Flav} {s0 : Nat} (hs : s0 < nst) (es : List Eff)
    (he : ∀ e ∈ es, AddsOnly t n f s0 e) {db : Spec} (h : Kept nst t n f s0 db) :
    Kept nst t n f s0 (es.foldl (fun c e => applyDb e c) db) := by
  induction es generalizing db with
  | nil => exact h
  | cons e es ih =>
    simp only [List.foldl_cons]
    exact ih (fun e' he' => he e' (by simp [he'])) (h.apply hs (he e (by simp)))

/-! ## what the commands emit -/

theorem findIn_mem {c : Spec} {stacks : List Nat} {n : Name} {v : Ver} {f : Flav} {d : Decl}
    (h : c.findIn stacks n v f = some d) : d.stack ∈ stacks := by
  unfold Spec.findIn at h
  obtain ⟨s, hs, hd⟩ := List.exists_of_findSome?_eq_some h
  have := findIn_singleton (c := c) (s := s) (n := n) (v := v) (f := f) (d := d)
    (by simp [Spec.findIn, hd])
  rw [this]; exact hs

theorem assignTag_addsOnly {f : Flav} {t : Tag} {n : Name} {v : Ver} {stacks : List Nat} {s0 : Nat} {p : Proc}
    (hst : ∀ s ∈ stacks, s = s0) (h : TrOK (AddsOnly t n f s0) p) :
    TrOK (AddsOnly t n f s0) (assignTag f t n v stacks p).2 := by
  unfold assignTag
  split
  · exact h
  · rename_i prod hf
    split
    · exact h
    · exact h.emit ⟨rfl, rfl, rfl, hst _ (findIn_mem hf)⟩

theorem doUnassign_addsOnly {f' : Flav} {t' : Tag} {n' : Name} {s : Nat} {na : Bool} {t : Tag} {n : Name} {f : Flav}
    {s0 : Nat} {p : Proc} (h : TrOK (AddsOnly t n f s0) p) : TrOK (AddsOnly t n f s0) (doUnassign f' t' n' s na p).2 := by
  unfold doUnassign; split
  · exact h
  · exact h.emit trivial

theorem purge_addsOnly {f' : Flav} {t' : Tag} {n' : Name} (ds : List Decl) {t : Tag} {n : Name} {f : Flav} {s0 : Nat}
    {p : Proc} (h : TrOK (AddsOnly t n f s0) p) : TrOK (AddsOnly t n f s0) (purge f' t' n' ds p) := by
  induction ds generalizing p with
  | nil => exact h
  | cons d ds ih => simp only [purge]; exact ih (doUnassign_addsOnly h)

theorem purgeAll_addsOnly {nst : Nat} {f' : Flav} {t' : Tag} {n' : Name} (ss : List Nat) {t : Tag} {n : Name} {f : Flav}
    {s0 : Nat} {p : Proc} (h : TrOK (AddsOnly t n f s0) p) : TrOK (AddsOnly t n f s0) (purgeAll nst f' t' n' ss p) := by
  induction ss generalizing p with
  | nil => exact h
  | cons s ss ih => simp only [purgeAll]; exact ih (purge_addsOnly _ h)

/-- `declare` adds tag records only for the tag it was given — else `current` —, its product and flavor, in the
stack it resolved to -/
theorem declare_addsOnly {nst : Nat} {a : DeclareArgs} {p : Proc} {r : Resolved} (hr : resolveDeclare nst a p = some r)
    (h : TrOK (AddsOnly (a.tag.getD current) a.name a.self r.target) p) :
    TrOK (AddsOnly (a.tag.getD current) a.name a.self r.target) (declare nst a p).2 := by
  rcases declare_cases nst a p with hc | ⟨r', rd, hr', _, _, hc⟩
  · rw [hc]; exact h
  · rw [hr] at hr'; cases hr'
    rw [hc]
    have htag : ∀ t, declareTag nst a p.mem = some t → t = a.tag.getD current := by
      intro t ht
      unfold declareTag at ht
      cases hta : a.tag with
      | some t' => rw [hta] at ht; cases ht; rfl
      | none =>
        rw [hta] at ht
        dsimp only at ht
        split at ht
        · cases ht; rfl
        · cases ht
    generalize declareTag nst a p.mem = tag at htag
    have hsave : ∀ q, TrOK (AddsOnly (a.tag.getD current) a.name a.self r.target) q →
        TrOK (AddsOnly (a.tag.getD current) a.name a.self r.target) (saveExtras a r.target r.saveList q) :=
      fun q hq => saveExtras_trOK (Q := AddsOnly (a.tag.getD current) a.name a.self r.target) (fun _ => trivial) _ hq
    have hcore : TrOK (AddsOnly (a.tag.getD current) a.name a.self r.target) (declareCore nst a r tag rd p).2 := by
      unfold declareCore
      have h1 : TrOK (AddsOnly (a.tag.getD current) a.name a.self r.target)
          (if (rd == .write && !a.noaction) = true then
            p.emit (.declare ⟨r.target, a.name, a.ver, a.self, r.d, r.table⟩ tag) else p) := by
        split
        · refine h.emit ?_
          cases tag with
          | none => trivial
          | some t => exact ⟨htag t rfl, rfl, rfl, rfl⟩
        · exact h
      generalize (if (rd == .write && !a.noaction) = true then
            p.emit (.declare ⟨r.target, a.name, a.ver, a.self, r.d, r.table⟩ tag) else p) = p1 at h1
      cases tag with
      | none => exact h1
      | some t =>
        dsimp only
        split
        · exact h1
        · rw [← htag t rfl]
          exact assignTag_addsOnly (by intro s hs; simpa using hs) (by rw [htag t rfl]; exact purgeAll_addsOnly _ h1)
    unfold declareFinish
    generalize declareCore nst a r tag rd p = res at hcore
    obtain ⟨o, p3⟩ := res
    cases o
    · dsimp only
      split
      · exact hcore
      · exact hsave _ hcore
    all_goals exact hcore

/-! ## the weakened hypothesis -/

/-- What `C06_tag_unique_on_path` needs of a command, in the world `w` it starts from.  A direct `Eups.assignTag`: its
stack argument is on the path and the (tag, product, flavor) is assigned nowhere but in the stack the command names
(nowhere at all when it names none).  A `declare`: its stack argument is on the path, and it is not killed half way —
unless the tag it would assign (the one given, else `current`) is assigned nowhere.  Everything else — undeclare,
unassignTag, remove, queries, killed anywhere; cache deletions; directories deleted by hand — is admitted. -/
def PlainAt (w : World) : WCmd → Prop
  | .run _ (.assignTag f t n _ st) _ =>
      (∀ s, st = some s → s < w.nst) ∧ ∀ r ∈ w.db.tags, r.tag = t → r.name = n → r.flav = f → st = some r.stack
  | .run _ (.declare a) crash =>
      (∀ s, a.stack = some s → s < w.nst) ∧
      (crash = none ∨ ∀ r ∈ w.db.tags, r.tag = a.tag.getD current → r.name = a.name → r.flav = a.self → False)
  | _ => True

/-- the round-1 hypothesis is a special case, in every world -/
theorem PlainAt.of_plain {w : World} {c : WCmd} (h : Plain w.nst c) : PlainAt w c := by
  cases c with
  | run u c crash =>
    cases c with
    | assignTag f t n v st => exact absurd h (by simp [Plain])
    | declare a => exact ⟨h.2, Or.inl h.1⟩
    | undeclare a => trivial
    | unassignTag f t n v st na => trivial
    | remove f n v rc na fo su => trivial
    | query f => trivial
  | rmCache u s f => trivial
  | clearCache u => trivial
  | adminBuild u self => trivial
  | envRmDir d => trivial

/-- a history each of whose commands is admitted in the world it starts from -/
def PlainHist : World → List WCmd → Prop
  | _, [] => True
  | w, c :: cs => PlainAt w c ∧ PlainHist (step w c) cs

theorem PlainHist.of_plain {nst : Nat} {h : List WCmd} (hp : ∀ c ∈ h, Plain nst c) :
    ∀ w : World, w.nst = nst → PlainHist w h := by
  induction h with
  | nil => intro w _; trivial
  | cons c cs ih =>
    intro w hw
    exact ⟨PlainAt.of_plain (hw ▸ hp c (by simp)), ih (fun c' hc' => hp c' (by simp [hc'])) _ ((step_nst w c).trans hw)⟩

/-- one step of an admitted history keeps every tag in one stack of the path -/
theorem step_onePlaceAt {w : World} (hn : 0 < w.nst) (hinv : CacheInv w) (hone : OnePlace w.db)
    (hin : TagsInPath w.nst w.db) (c : WCmd) (hc : PlainAt w c) :
    OnePlace (step w c).db ∧ TagsInPath w.nst (step w c).db := by
  -- the commands `Plain` admits as well
  have hold : Plain w.nst c → OnePlace (step w c).db ∧ TagsInPath w.nst (step w c).db :=
    fun h => step_onePlace hn hinv hone hin c h
  cases c with
  | rmCache u s f => exact hold trivial
  | clearCache u => exact hold trivial
  | adminBuild u self => exact hold trivial
  | envRmDir d => exact hold trivial
  | run u c crash =>
    cases c with
    | undeclare a => exact hold trivial
    | unassignTag f t n v st na => exact hold trivial
    | remove f n v rc na fo su => exact hold trivial
    | query f => exact hold trivial
    | assignTag f t n v st =>
      obtain ⟨hst, honly⟩ := hc
      obtain ⟨m, dirs, ex, es, hs, he⟩ := step_db true w u (.assignTag f t n v st) crash
      unfold step
      rw [he]
      simp only [run] at hs
      -- the stack the tag goes to, if any
      cases hf : (⟨w.db, m, dirs, [], ex, w.tfiles⟩ : Proc).mem.findIn (stacksOf w.nst st) n v f with
      | none =>
        have : (assignTag f t n v (stacksOf w.nst st) ⟨w.db, m, dirs, [], ex, w.tfiles⟩).2.tr = [] := by
          unfold assignTag; rw [hf]
        rw [this] at hs
        rw [List.sublist_nil.mp hs]
        exact ⟨hone, hin⟩
      | some prod =>
        have hmem := findIn_mem hf
        have hlt : prod.stack < w.nst := by
          cases st with
          | some s => simp only [stacksOf, List.mem_singleton] at hmem; rw [hmem]; exact hst s rfl
          | none => simpa [stacksOf, allStacks] using hmem
        have hkept : Kept w.nst t n f prod.stack w.db := by
          refine ⟨hone, ?_, hin⟩
          intro r hr h1 h2 h3
          have := honly r hr h1 h2 h3
          rw [this] at hmem
          simp only [stacksOf, List.mem_singleton] at hmem
          exact hmem.symm
        have htr : TrOK (AddsOnly t n f prod.stack) (assignTag f t n v (stacksOf w.nst st) ⟨w.db, m, dirs, [], ex, w.tfiles⟩).2 := by
          unfold assignTag
          rw [hf]
          dsimp only
          split
          · intro e he'; simp at he'
          · intro e he'
            simp only [Proc.emit, List.nil_append, List.mem_singleton] at he'
            subst he'
            exact ⟨rfl, rfl, rfl, rfl⟩
        have := hkept.foldl hlt es (fun e he' => htr e (hs.subset he'))
        exact ⟨this.one, this.inPath⟩
    | declare a =>
      obtain ⟨hstack, hcr⟩ := hc
      rcases hcr with rfl | hnone
      · exact hold ⟨rfl, hstack⟩
      · obtain ⟨m, dirs, ex, es, hs, he⟩ := step_db true w u (.declare a) crash
        unfold step
        rw [he]
        simp only [run] at hs
        cases hr : resolveDeclare w.nst a ⟨w.db, m, dirs, [], ex, w.tfiles⟩ with
        | none =>
          have : (declare w.nst a ⟨w.db, m, dirs, [], ex, w.tfiles⟩).2.tr = [] := by
            unfold declare; rw [hr]
          rw [this] at hs
          rw [List.sublist_nil.mp hs]
          exact ⟨hone, hin⟩
        | some r =>
          have hlt := resolveDeclare_target_lt hn hstack hr
          have hkept : Kept w.nst (a.tag.getD current) a.name a.self r.target w.db :=
            ⟨hone, fun x hx h1 h2 h3 => absurd (hnone x hx h1 h2 h3) id, hin⟩
          have htr := declare_addsOnly hr (p := ⟨w.db, m, dirs, [], ex, w.tfiles⟩) (by intro e he'; simp at he')
          have := hkept.foldl hlt es (fun e he' => htr e (hs.subset he'))
          exact ⟨this.one, this.inPath⟩

theorem history_onePlaceAt (nst : Nat) (hn : 0 < nst) (dirs : List DirEnt) (tfs : List TFile) (h : List WCmd)
    (hp : PlainHist (World.init nst dirs tfs) h) :
    OnePlace (runHistory (World.init nst dirs tfs) h).db ∧ TagsInPath nst (runHistory (World.init nst dirs tfs) h).db := by
  unfold runHistory
  suffices ∀ w : World, w.nst = nst → CacheInv w → OnePlace w.db → TagsInPath nst w.db → PlainHist w h →
      OnePlace (h.foldl step w).db ∧ TagsInPath nst (h.foldl step w).db from
    this _ rfl (cacheInv_init nst dirs tfs) (by intro r hr; simp [World.init, Spec.empty] at hr)
      (by intro r hr; simp [World.init, Spec.empty] at hr) hp
  clear hp
  induction h with
  | nil => intro w _ _ h1 h2 _; exact ⟨h1, h2⟩
  | cons c cs ih =>
    intro w hw hinv h1 h2 hpl
    simp only [List.foldl_cons]
    obtain ⟨k1, k2⟩ := step_onePlaceAt (hw ▸ hn) hinv h1 (hw ▸ h2) c hpl.1
    exact ih _ ((step_nst w c).trans hw) (step_inv hinv c) k1 (hw ▸ k2) hpl.2

end EupsModel.Cache
