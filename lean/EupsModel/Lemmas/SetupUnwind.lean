import EupsModel.Lemmas.SetupResolve
/-! C01 clause (c), unsetup direction: unwinding a product preserves `NoResidue X` for any set `X` of products
in flux, never adds anything, and removes every element the product owns.  Every lemma about `acts` is generic in
the recursive call; the statement about `setup` is one induction on fuel. -/
namespace EupsModel.Setup

/-- the actions of a declared product under the request's setup type -/
def tableOf (cfg : Cfg) (p : Prod) : List Act :=
  match cfg.db.lookup p with
  | some d => d.actions cfg.exact
  | none => []

theorem tableOf_canon (cfg : Cfg) (d : Decl) (h : Canon cfg.db d) : tableOf cfg d.prod = d.actions cfg.exact := by
  unfold tableOf; unfold Canon at h; rw [h]

/-- every own element / value comes from a line of its product's table; `<P>_DIR` values are filed under `P` -/
structure WellOwned (cfg : Cfg) (e : Env) : Prop where
  path : ∀ var p rel, Elem.own p rel ∈ e.pathOf var →
    ∃ vals app, Act.prepend var vals app ∈ tableOf cfg p ∧ Val.own rel ∈ vals
  vars : ∀ var p rel, aget e.vars var = some (.own p rel) → Act.set var (.own rel) ∈ tableOf cfg p
  dirs : ∀ n p rel, aget e.dirs n = some (.own p rel) → p.1 = n

/-- clause (c): every own element / value / directory variable belongs to the recorded version of its product,
except for the products in `X` (those currently being unwound) -/
structure NoResidue (X : Prod → Prop) (e : Env) : Prop where
  path : ∀ var p rel, Elem.own p rel ∈ e.pathOf var → X p ∨ e.rec? p.1 = some p.2
  vars : ∀ var p rel, aget e.vars var = some (.own p rel) → X p ∨ e.rec? p.1 = some p.2
  dirs : ∀ n p rel, aget e.dirs n = some (.own p rel) → X p ∨ e.rec? p.1 = some p.2

/-- `e'` holds nothing that `e` does not hold -/
structure Sub (e' e : Env) : Prop where
  path : ∀ var x, x ∈ e'.pathOf var → x ∈ e.pathOf var
  vars : ∀ var x, aget e'.vars var = some x → aget e.vars var = some x
  dirs : ∀ n x, aget e'.dirs n = some x → aget e.dirs n = some x
  recs : ∀ n v, e'.rec? n = some v → e.rec? n = some v

theorem Sub.refl (e : Env) : Sub e e := ⟨fun _ _ h => h, fun _ _ h => h, fun _ _ h => h, fun _ _ h => h⟩

theorem Sub.trans {a b c : Env} (h1 : Sub a b) (h2 : Sub b c) : Sub a c :=
  ⟨fun v x h => h2.path v x (h1.path v x h), fun v x h => h2.vars v x (h1.vars v x h),
   fun n x h => h2.dirs n x (h1.dirs n x h), fun n v h => h2.recs n v (h1.recs n v h)⟩

theorem WellOwned.of_sub {cfg : Cfg} {e' e : Env} (h : WellOwned cfg e) (hs : Sub e' e) : WellOwned cfg e' :=
  ⟨fun v p r hm => h.path v p r (hs.path v _ hm), fun v p r hm => h.vars v p r (hs.vars v _ hm),
   fun n p r hm => h.dirs n p r (hs.dirs n _ hm)⟩

theorem NoResidue.of_sub {X : Prod → Prop} {e' e : Env} (h : NoResidue X e) (hs : Sub e' e)
    (hr : ∀ n, e'.rec? n = e.rec? n) : NoResidue X e' :=
  ⟨fun v p r hm => by rw [hr]; exact h.path v p r (hs.path v _ hm),
   fun v p r hm => by rw [hr]; exact h.vars v p r (hs.vars v _ hm),
   fun n p r hm => by rw [hr]; exact h.dirs n p r (hs.dirs n _ hm)⟩

/-! ### one non-dependency action, unsetup direction -/

theorem acts_cons_nondep (rec : Rec) (cfg : Cfg) (fwd : Bool) (depth : Nat) (noRec : Bool) (vro : List VroEnt)
    (d : Decl) (a : Act) (rest : List Act) (s : St) (ha : ∀ n o j v x t kl, a ≠ .dep n o j v x t kl) :
    acts rec cfg fwd depth noRec vro d (a :: rest) s = acts rec cfg fwd depth noRec vro d rest (a.apply fwd d.prod s) := by
  cases a with
  | dep n o j v x t kl => exact absurd rfl (ha n o j v x t kl)
  | prepend _ _ _ => simp only [acts]
  | set _ _ => simp only [acts]
  | alias _ _ => simp only [acts]

theorem apply_false_spec (p : Prod) (a : Act) (s : St) :
    Sub (a.apply false p s).env s.env ∧ (∀ n, (a.apply false p s).env.rec? n = s.env.rec? n) ∧
    (∀ var vals app, a = .prepend var vals app → ∀ val ∈ vals, val.elem p ∉ (a.apply false p s).env.pathOf var) ∧
    (∀ var val, a = .set var val → aget (a.apply false p s).env.vars var = none) := by
  cases a with
  | prepend var vals app =>
    refine ⟨⟨?_, fun _ _ h => h, fun _ _ h => h, fun _ _ h => h⟩, fun _ => rfl, ?_, ?_⟩
    · intro var2 x hx
      exact (mem_pathOf_removePath s.env var var2 (vals.map (Val.elem p)) x hx).1
    · intro var' vals' app' he val hval hm
      cases he
      exact ((mem_pathOf_removePath_same s.env var (vals.map (Val.elem p)) _).1 hm).2 (List.mem_map.2 ⟨val, hval, rfl⟩)
    · intro var' val' he; cases he
  | set var val =>
    refine ⟨⟨fun _ _ h => h, ?_, fun _ _ h => h, fun _ _ h => h⟩, fun _ => rfl, ?_, ?_⟩
    · intro var2 x hx
      exact (aget_aunset_some s.env.vars var var2 x hx).1
    · intro var' val' app' he; cases he
    · intro var' val' he; cases he
      exact aget_aunset_same s.env.vars var
  | alias key val =>
    refine ⟨Sub.refl _, fun _ => rfl, ?_, ?_⟩
    · intro _ _ _ he; cases he
    · intro _ _ he; cases he
  | dep n o j v x t kl =>
    refine ⟨Sub.refl _, fun _ => rfl, ?_, ?_⟩
    · intro _ _ _ he; cases he
    · intro _ _ he; cases he

/-! ### the table interpreter in unsetup direction, generic in the recursive call -/

def UnSpec (cfg : Cfg) (rec : Rec) : Prop :=
  ∀ (X : Prod → Prop) depth noRec vro n ver vexpr s s', WellOwned cfg s.env → NoResidue X s.env →
    rec false depth noRec vro n ver vexpr s = .ok s' → NoResidue X s'.env ∧ Sub s'.env s.env

theorem acts_false_spec (cfg : Cfg) (rec : Rec) (hrec : UnSpec cfg rec) (X : Prod → Prop) (depth : Nat)
    (noRec : Bool) (vro : List VroEnt) (d : Decl) (l : List Act) :
    ∀ s s', WellOwned cfg s.env → NoResidue X s.env → acts rec cfg false depth noRec vro d l s = .ok s' →
      NoResidue X s'.env ∧ Sub s'.env s.env ∧
      (∀ var vals app, Act.prepend var vals app ∈ l → ∀ val ∈ vals, val.elem d.prod ∉ s'.env.pathOf var) ∧
      (∀ var val, Act.set var val ∈ l → aget s'.env.vars var = none) := by
  induction l with
  | nil =>
    intro s s' _ hn h
    simp [acts] at h; subst h
    exact ⟨hn, Sub.refl _, by simp, by simp⟩
  | cons a rest ih =>
    intro s s' hw hn h
    by_cases hdep : ∃ n o j v x t kl, a = .dep n o j v x t kl
    · obtain ⟨n, o, j, v, x, t, kl, rfl⟩ := hdep
      have tail : ∀ s1 : St, WellOwned cfg s1.env → NoResidue X s1.env → Sub s1.env s.env →
          acts rec cfg false depth noRec vro d rest s1 = .ok s' →
          NoResidue X s'.env ∧ Sub s'.env s.env ∧
          (∀ var vals app, Act.prepend var vals app ∈ Act.dep n o j v x t kl :: rest →
            ∀ val ∈ vals, val.elem d.prod ∉ s'.env.pathOf var) ∧
          (∀ var val, Act.set var val ∈ Act.dep n o j v x t kl :: rest → aget s'.env.vars var = none) := by
        intro s1 hw1 hn1 hs1 h1
        obtain ⟨hn2, hs2, hp2, hv2⟩ := ih s1 s' hw1 hn1 h1
        exact ⟨hn2, hs2.trans hs1, fun var vals app hm => hp2 var vals app (by simpa using hm),
               fun var val hm => hv2 var val (by simpa using hm)⟩
      simp only [acts] at h
      split at h
      · exact tail s hw hn (Sub.refl _) h
      · split at h
        · rename_i s1 hr
          obtain ⟨hn1, hs1⟩ := hrec X _ _ _ _ _ _ _ _ hw hn hr
          exact tail s1 (hw.of_sub hs1) hn1 hs1 h
        · cases h
        · rename_i s1 hr
          simp only [Bool.false_and, Bool.false_eq_true, if_false] at h
          exact tail ⟨s.env, s.aliases, s.unaliased, s1.already, s1.cache⟩ hw hn (Sub.refl _) h
        · rename_i s1 hr
          simp only [Bool.false_and, Bool.false_eq_true, if_false] at h
          exact tail ⟨s.env, s.aliases, s.unaliased, s1.already, s1.cache⟩ hw hn (Sub.refl _) h
    · have ha : ∀ n o j v x t kl, a ≠ .dep n o j v x t kl := fun n o j v x t kl e => hdep ⟨n, o, j, v, x, t, kl, e⟩
      rw [acts_cons_nondep rec cfg false depth noRec vro d a rest s ha] at h
      obtain ⟨hs1, hr1, hp1, hv1⟩ := apply_false_spec d.prod a s
      obtain ⟨hn2, hs2, hp2, hv2⟩ := ih _ s' (hw.of_sub hs1) (hn.of_sub hs1 hr1) h
      refine ⟨hn2, hs2.trans hs1, ?_, ?_⟩
      · intro var vals app hm val hval
        simp only [List.mem_cons] at hm
        rcases hm with hm | hm
        · exact fun hx => hp1 var vals app hm.symm val hval (hs2.path var _ hx)
        · exact hp2 var vals app hm val hval
      · intro var val hm
        simp only [List.mem_cons] at hm
        rcases hm with hm | hm
        · have := hv1 var val hm.symm
          cases hg : aget s'.env.vars var with
          | none => rfl
          | some y => rw [hs2.vars var y hg] at this; cases this
        · exact hv2 var val hm

/-! ### `setup` in unsetup direction -/

theorem setup_zero (cfg : Cfg) (fwd : Bool) (depth : Nat) (noRec : Bool) (vro : List VroEnt) (name : Name)
    (version : Option VerReq) (vexpr : Option VExpr) (s : St) :
    setup cfg 0 fwd depth noRec vro name version vexpr s = .fuel := rfl

theorem setup_succ_false (cfg : Cfg) (fuel : Nat) (depth : Nat) (noRec : Bool) (vro : List VroEnt) (name : Name)
    (version : Option VerReq) (vexpr : Option VExpr) (s : St) :
    setup cfg (fuel + 1) false depth noRec vro name version vexpr s =
      match setupProd cfg.db s.env name with
      | none => .notFound s
      | some d =>
        acts (setup cfg fuel) cfg false depth noRec vro d (d.actions cfg.exact)
          { s with env := { s.env with dirs := aunset s.env.dirs d.name, recs := aunset s.env.recs d.name } } := by
  cases h : setupProd cfg.db s.env name <;> simp [setup, unwind, h]

theorem setup_succ_true (cfg : Cfg) (fuel : Nat) (depth : Nat) (noRec : Bool) (vro : List VroEnt) (name : Name)
    (version : Option VerReq) (vexpr : Option VExpr) (s : St) :
    setup cfg (fuel + 1) true depth noRec vro name version vexpr s =
      match resolve cfg.db cfg.path cfg.keep s.already name version vexpr depth vro.length vro with
      | .none => .notFound s
      | .error => .raised s
      | .found d reason => install (setup cfg fuel) cfg depth noRec vro (pickDecl cfg.db s.cache d) reason
          (register cfg depth (pickDecl cfg.db s.cache d) reason (s.afterResolve cfg depth vro name version vexpr)) := by
  cases h : resolve cfg.db cfg.path cfg.keep s.already name version vexpr depth vro.length vro <;> simp [setup, h]

@[simp] theorem afterResolve_env (s : St) (cfg : Cfg) (depth : Nat) (vro : List VroEnt) (n : Name) (ver : Option VerReq)
    (vexpr : Option VExpr) : (s.afterResolve cfg depth vro n ver vexpr).env = s.env := rfl
@[simp] theorem afterResolve_already (s : St) (cfg : Cfg) (depth : Nat) (vro : List VroEnt) (n : Name)
    (ver : Option VerReq) (vexpr : Option VExpr) : (s.afterResolve cfg depth vro n ver vexpr).already = s.already := rfl

/-- C01 clause (c), unsetup direction, for every database, fuel, flag combination and in-flux set -/
theorem setup_false_spec (cfg : Cfg) : ∀ fuel, UnSpec cfg (setup cfg fuel) := by
  intro fuel
  induction fuel with
  | zero => intro X depth noRec vro n ver vexpr s s' _ _ h; simp [setup_zero] at h
  | succ k ih =>
    intro X depth noRec vro n ver vexpr s s' hw hn h
    rw [setup_succ_false] at h
    split at h
    · cases h
    · rename_i d hd
      obtain ⟨hc, hname, hrec⟩ := setupProd_some cfg.db s.env n d hd
      let e0 : Env := { s.env with dirs := aunset s.env.dirs d.name, recs := aunset s.env.recs d.name }
      have hs0 : Sub e0 s.env :=
        ⟨fun _ _ h => h, fun _ _ h => h, fun n x h => (aget_aunset_some _ _ _ _ h).1,
         fun n v h => (aget_aunset_some _ _ _ _ h).1⟩
      let X' : Prod → Prop := fun p => X p ∨ p = d.prod
      have key : ∀ p : Prod, (X p ∨ s.env.rec? p.1 = some p.2) → X' p ∨ e0.rec? p.1 = some p.2 := by
        intro p hp
        rcases hp with hp | hp
        · exact Or.inl (Or.inl hp)
        · by_cases hpn : p.1 = d.name
          · left; right
            rw [hpn, hname, hrec] at hp
            have : d.ver = p.2 := Option.some.inj hp
            unfold Decl.prod; rw [← hpn, this]
          · right
            show aget (aunset s.env.recs d.name) p.1 = some p.2
            rw [aget_aunset_other _ _ _ hpn]; exact hp
      have hn0 : NoResidue X' e0 :=
        ⟨fun v p r hm => key p (hn.path v p r hm), fun v p r hm => key p (hn.vars v p r hm),
         fun n p r hm => key p (hn.dirs n p r (hs0.dirs n _ hm))⟩
      obtain ⟨hn1, hs1, hp1, hv1⟩ :=
        acts_false_spec cfg (setup cfg k) ih X' depth noRec vro d (d.actions cfg.exact) _ s' (hw.of_sub hs0) hn0 h
      have hw1 : WellOwned cfg s'.env := hw.of_sub (hs1.trans hs0)
      have htab := tableOf_canon cfg d hc
      refine ⟨⟨?_, ?_, ?_⟩, hs1.trans hs0⟩
      · intro var p rel hm
        rcases hn1.path var p rel hm with (hX | hpd) | hr
        · exact Or.inl hX
        · exfalso
          subst hpd
          obtain ⟨vals, app, hline, hval⟩ := hw1.path var _ rel hm
          rw [htab] at hline
          exact hp1 var vals app hline (.own rel) hval hm
        · exact Or.inr hr
      · intro var p rel hm
        rcases hn1.vars var p rel hm with (hX | hpd) | hr
        · exact Or.inl hX
        · exfalso
          subst hpd
          have hline := hw1.vars var _ rel hm
          rw [htab] at hline
          rw [hv1 var (.own rel) hline] at hm; cases hm
        · exact Or.inr hr
      · intro n' p rel hm
        rcases hn1.dirs n' p rel hm with (hX | hpd) | hr
        · exact Or.inl hX
        · exfalso
          subst hpd
          have hkey : d.name = n' := hw1.dirs n' _ rel hm
          have h0 := hs1.dirs n' _ hm
          subst hkey
          have : aget (aunset s.env.dirs d.name) d.name = some (Elem.own d.prod rel) := h0
          rw [aget_aunset_same] at this; cases this
        · exact Or.inr hr

/-- after unwinding `n`, `n` has no record (records are never created in this direction: `Sub.recs`) -/
theorem setup_false_unsets (cfg : Cfg) (fuel depth : Nat) (noRec : Bool) (vro : List VroEnt) (n : Name)
    (ver : Option VerReq) (vexpr : Option VExpr) (s s' : St) (hw : WellOwned cfg s.env)
    (h : setup cfg fuel false depth noRec vro n ver vexpr s = .ok s') : s'.env.rec? n = none := by
  cases fuel with
  | zero => simp [setup_zero] at h
  | succ k =>
    rw [setup_succ_false] at h
    split at h
    · cases h
    · rename_i d hd
      obtain ⟨hc, hname, hrec⟩ := setupProd_some cfg.db s.env n d hd
      let e0 : Env := { s.env with dirs := aunset s.env.dirs d.name, recs := aunset s.env.recs d.name }
      have hs0 : Sub e0 s.env :=
        ⟨fun _ _ h => h, fun _ _ h => h, fun n x h => (aget_aunset_some _ _ _ _ h).1,
         fun n v h => (aget_aunset_some _ _ _ _ h).1⟩
      have hn0 : NoResidue (fun _ => True) e0 := ⟨fun _ _ _ _ => Or.inl trivial, fun _ _ _ _ => Or.inl trivial, fun _ _ _ _ => Or.inl trivial⟩
      obtain ⟨_, hs1, _, _⟩ :=
        acts_false_spec cfg (setup cfg k) (setup_false_spec cfg k) (fun _ => True) depth noRec vro d
          (d.actions cfg.exact) _ s' (hw.of_sub hs0) hn0 h
      cases hg : s'.env.rec? n with
      | none => rfl
      | some v =>
        have := hs1.recs n v hg
        have h2 : aget (aunset s.env.recs d.name) n = some v := this
        rw [← hname, aget_aunset_same] at h2; cases h2

end EupsModel.Setup
