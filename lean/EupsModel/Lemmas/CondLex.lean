import EupsModel.Spec.C11
/-! C11, condition clause, lexical level: the tokeniser of `VersionParser.__init__` (quote stripping + split)
applied to the text of a well-formed written condition yields exactly its tokens. -/
namespace EupsModel.Cond
open EupsModel.C11Spec

/-! ## character classes -/

theorem tokCh_not_quote {c : Nat} (h : isTokCh c = true) : isQuote c = false := by
  simp only [isTokCh, isWordCh, Str.isAlnum, Str.isAlpha, Str.isUpper, Str.isLower, Str.isDigit, Bool.or_eq_true,
    Bool.and_eq_true, decide_eq_true_eq, beq_iff_eq] at h
  simp only [isQuote, Bool.or_eq_false_iff, beq_eq_false_iff_ne, ne_eq]
  omega

theorem space_not_quote {c : Nat} (h : Str.isSpace c = true) : isQuote c = false := by
  simp only [Str.isSpace, Bool.or_eq_true, Bool.and_eq_true, decide_eq_true_eq, beq_iff_eq] at h
  simp only [isQuote, Bool.or_eq_false_iff, beq_eq_false_iff_ne, ne_eq]
  omega

theorem space_not_tokCh {c : Nat} (h : Str.isSpace c = true) : isTokCh c = false := by
  simp only [Str.isSpace, Bool.or_eq_true, Bool.and_eq_true, decide_eq_true_eq, beq_iff_eq] at h
  simp only [isTokCh, isWordCh, Str.isAlnum, Str.isAlpha, Str.isUpper, Str.isLower, Str.isDigit, Bool.or_eq_false_iff,
    Bool.and_eq_false_iff, decide_eq_false_iff_not, beq_eq_false_iff_ne, ne_eq]
  omega

theorem space_ne_dollar {c : Nat} (h : Str.isSpace c = true) : (c == 36) = false := by
  simp only [Str.isSpace, Bool.or_eq_true, Bool.and_eq_true, decide_eq_true_eq, beq_iff_eq] at h
  simp only [beq_eq_false_iff_ne, ne_eq]; omega

theorem tokCh_ne_dollar {c : Nat} (h : isTokCh c = true) : (c == 36) = false := by
  simp only [isTokCh, isWordCh, Str.isAlnum, Str.isAlpha, Str.isUpper, Str.isLower, Str.isDigit, Bool.or_eq_true,
    Bool.and_eq_true, decide_eq_true_eq, beq_iff_eq] at h
  simp only [beq_eq_false_iff_ne, ne_eq]; omega

/-- quote-free strings -/
def NoQ (s : Str) : Prop := ∀ c ∈ s, isQuote c = false

theorem noQ_nil : NoQ [] := fun _ h => by cases h
theorem noQ_append {a b : Str} (ha : NoQ a) (hb : NoQ b) : NoQ (a ++ b) := fun c h => by
  rcases List.mem_append.mp h with h | h
  · exact ha c h
  · exact hb c h
theorem noQ_cons {c : Nat} {s : Str} (hc : isQuote c = false) (hs : NoQ s) : NoQ (c :: s) := fun d h => by
  rcases List.mem_cons.mp h with rfl | h
  · exact hc
  · exact hs d h

theorem noQ_of_blank {s : Str} (h : blank s = true) : NoQ s := fun c hc =>
  space_not_quote (List.all_eq_true.mp h c hc)

theorem noQ_of_tokChs {s : Str} (h : s.all isTokCh = true) : NoQ s := fun c hc =>
  tokCh_not_quote (List.all_eq_true.mp h c hc)

theorem noQ_of_lower {k : Str} (h : NoQ (Str.lower k)) : NoQ k := by
  intro c hc
  cases hq : isQuote c with
  | false => rfl
  | true =>
    have hu : Str.isUpper c = false := by
      simp only [isQuote, Bool.or_eq_true, beq_iff_eq] at hq
      simp only [Str.isUpper, Bool.and_eq_false_iff, decide_eq_false_iff_not]; omega
    have : c ∈ Str.lower k := by
      simp only [Str.lower, List.mem_map]
      exact ⟨c, hc, by simp [hu]⟩
    rw [h c this] at hq; cases hq

/-! ## the quote-stripping pass -/

theorem unq_noQ_append {a : Str} (ha : NoQ a) (b : Str) : unq none (a ++ b) = a ++ unq none b := by
  induction a with
  | nil => rfl
  | cons c cs ih =>
    have hc : isQuote c = false := ha c (List.mem_cons_self ..)
    have hcs : NoQ cs := fun d hd => ha d (List.mem_cons_of_mem _ hd)
    simp [unq, hc, ih hcs]

theorem unq_run {q : Nat} {run w : Str} (hw : NoQ w) (x : Str) :
    unq (some (q, run)) (w ++ x) = unq (some (q, run ++ w)) x := by
  induction w generalizing run with
  | nil => simp
  | cons c cs ih =>
    have hc : isQuote c = false := hw c (List.mem_cons_self ..)
    have hcs : NoQ cs := fun d hd => hw d (List.mem_cons_of_mem _ hd)
    simp [unq, hc, ih hcs]

/-- a quoted word loses its quotes -/
theorem unq_quoted {q q' : Nat} {w : Str} (hq : isQuote q = true) (hq' : isQuote q' = true) (hw : NoQ w) (hne : w ≠ [])
    (x : Str) : unq none (q :: w ++ q' :: x) = w ++ unq none x := by
  have h1 : unq none (q :: (w ++ q' :: x)) = unq (some (q, [])) (w ++ q' :: x) := by simp [unq, hq]
  have h2 := unq_run (q := q) (run := []) hw (q' :: x)
  simp only [List.nil_append] at h2
  rw [List.cons_append, h1, h2]
  cases w with
  | nil => exact absurd rfl hne
  | cons c cs => simp [unq, hq']

/-! ## unfolding `scan` one character at a time -/

theorem scan_tok_word {c : Nat} (h : isTokCh c = true) (w cs : Str) :
    scan (.word w) (c :: cs) = scan (.word (w ++ [c])) cs := by
  cases cs <;> simp [scan, h, tokCh_ne_dollar h, flush]

theorem scan_tok_gap {c : Nat} (h : isTokCh c = true) (g cs : Str) :
    scan (.gap g) (c :: cs) = (scan (.word [c]) cs).map (flush (.gap g) ++ ·) := by
  cases cs <;> simp [scan, h, tokCh_ne_dollar h, flush]

theorem scan_space {c : Nat} (h : Str.isSpace c = true) (st : St) (cs : Str) :
    scan st (c :: cs) = (scan (.gap []) cs).map (flush st ++ ·) := by
  cases cs <;> simp [scan, h, space_ne_dollar h, space_not_tokCh h, flush]

/-- `(` and `)` -/
theorem scan_paren {c : Nat} (h : c = 40 ∨ c = 41) (st : St) (cs : Str) :
    scan st (c :: cs) = (scan (.gap []) cs).map (flush st ++ [c] :: ·) := by
  rcases h with rfl | rfl <;> cases cs <;> simp [scan, isTokCh, isWordCh, Str.isAlnum, Str.isAlpha, Str.isUpper,
    Str.isLower, Str.isDigit, Str.isSpace, isTwoOp, isOneOp, flush]

/-- `==` and `!=` -/
theorem scan_cmp {c : Nat} (h : c = 61 ∨ c = 33) (st : St) (cs : Str) :
    scan st (c :: 61 :: cs) = (scan (.gap []) cs).map (flush st ++ [c, 61] :: ·) := by
  rcases h with rfl | rfl <;> simp [scan, isTokCh, isWordCh, Str.isAlnum, Str.isAlpha, Str.isUpper,
    Str.isLower, Str.isDigit, Str.isSpace, isTwoOp]

theorem flush_gap_ne {g : Str} (h : g ≠ []) : flush (.gap g) = [g] := by
  cases g with
  | nil => exact absurd rfl h
  | cons _ _ => rfl

/-- `|` and `&` join the current run of unmatched characters -/
theorem scan_gapch {c : Nat} (h : c = 124 ∨ c = 38) (g : Str) (cs : Str) :
    scan (.gap g) (c :: cs) = scan (.gap (g ++ [c])) cs := by
  rcases h with rfl | rfl <;> cases cs <;> simp [scan, isTokCh, isWordCh, Str.isAlnum, Str.isAlpha, Str.isUpper,
    Str.isLower, Str.isDigit, Str.isSpace, isTwoOp, isOneOp, flush_gap_ne]

/-! ## one token at a time -/

/-- the text continues with something that ends a word: nothing, or a character outside `[\w.+]` -/
def brk : Str → Bool
  | [] => true
  | d :: _ => !isTokCh d

theorem brk_blank_append {sp y : Str} (hsp : blank sp = true) (hy : brk y = true) : brk (sp ++ y) = true := by
  cases sp with
  | nil => simpa using hy
  | cons c cs =>
    have : Str.isSpace c = true := by simp only [blank, List.all_cons, Bool.and_eq_true] at hsp; exact hsp.1
    simp [brk, space_not_tokCh this]

/-- a word ends where the text breaks -/
theorem word_break {x : Str} (hx : brk x = true) (w : Str) :
    scan (.word w) x = (scan (.gap []) x).map ([w] ++ ·) := by
  rcases x with _ | ⟨d, _ | ⟨e, x⟩⟩
  · simp [scan, flush]
  · have hd : isTokCh d = false := by simpa [brk] using hx
    by_cases h36 : (d == 36) = true
    · simp [scan, h36]
    · by_cases hs : Str.isSpace d = true
      · simp [scan, h36, hd, hs, flush]
      · by_cases ho : isOneOp d = true <;> simp [scan, h36, hd, hs, ho, flush]
  · have hd : isTokCh d = false := by simpa [brk] using hx
    by_cases h36 : (d == 36) = true
    · simp [scan, h36]
    · by_cases hs : Str.isSpace d = true
      · simp [scan, h36, hd, hs, flush, Option.map_map, Function.comp_def]
      · by_cases ht : isTwoOp d e = true
        · simp [scan, h36, hd, hs, ht, flush, Option.map_map, Function.comp_def]
        · by_cases ho : isOneOp d = true <;>
            simp [scan, h36, hd, hs, ht, ho, flush, Option.map_map, Function.comp_def]

theorem scan_word_run {w' : Str} (h : w'.all isTokCh = true) (u x : Str) :
    scan (.word u) (w' ++ x) = scan (.word (u ++ w')) x := by
  induction w' generalizing u with
  | nil => simp
  | cons c cs ih =>
    simp only [List.all_cons, Bool.and_eq_true] at h
    rw [List.cons_append, scan_tok_word h.1, ih h.2]; simp

theorem map_nil_append {α} (o : Option (List α)) : o.map ([] ++ ·) = o := by cases o <;> simp

/-- a word token with the blanks before it -/
theorem scan_W {sp w x : Str} (hsp : blank sp = true) (hne : w ≠ []) (hw : w.all isTokCh = true) (hx : brk x = true)
    (g : Str) : scan (.gap g) (sp ++ w ++ x) = (scan (.gap []) x).map (flush (.gap g) ++ [w] ++ ·) := by
  induction sp generalizing g with
  | nil =>
    cases w with
    | nil => exact absurd rfl hne
    | cons c cs =>
      simp only [List.all_cons, Bool.and_eq_true] at hw
      simp only [List.nil_append, List.cons_append]
      rw [scan_tok_gap hw.1, scan_word_run hw.2, word_break hx]
      simp [Option.map_map, Function.comp_def]
  | cons c cs ih =>
    simp only [blank, List.all_cons, Bool.and_eq_true] at hsp
    simp only [List.cons_append]
    rw [scan_space hsp.1]
    rw [ih (by simpa [blank] using hsp.2) []]
    simp [Option.map_map, Function.comp_def, flush]

/-- `(` or `)` with the blanks before it -/
theorem scan_P {sp : Str} {c : Nat} (hsp : blank sp = true) (hc : c = 40 ∨ c = 41) (g x : Str) :
    scan (.gap g) (sp ++ [c] ++ x) = (scan (.gap []) x).map (flush (.gap g) ++ [[c]] ++ ·) := by
  induction sp generalizing g with
  | nil => simp [scan_paren hc]
  | cons d ds ih =>
    simp only [blank, List.all_cons, Bool.and_eq_true] at hsp
    simp only [List.cons_append]
    rw [scan_space hsp.1]
    rw [ih (by simpa [blank] using hsp.2) []]
    simp [Option.map_map, Function.comp_def, flush]

/-- `==` or `!=` with the blanks before it -/
theorem scan_C {sp : Str} {c : Nat} (hsp : blank sp = true) (hc : c = 61 ∨ c = 33) (g x : Str) :
    scan (.gap g) (sp ++ [c, 61] ++ x) = (scan (.gap []) x).map (flush (.gap g) ++ [[c, 61]] ++ ·) := by
  induction sp generalizing g with
  | nil => simp [scan_cmp hc]
  | cons d ds ih =>
    simp only [blank, List.all_cons, Bool.and_eq_true] at hsp
    simp only [List.cons_append]
    rw [scan_space hsp.1]
    rw [ih (by simpa [blank] using hsp.2) []]
    simp [Option.map_map, Function.comp_def, flush]

/-- `||` or `&&` with the blanks before it: the operator becomes the pending run of unmatched characters -/
theorem scan_G {sp : Str} {c : Nat} (hsp : blank sp = true) (hc : c = 124 ∨ c = 38) (x : Str) :
    scan (.gap []) (sp ++ [c, c] ++ x) = scan (.gap [c, c]) x := by
  induction sp with
  | nil => simp [scan_gapch hc]
  | cons d ds ih =>
    simp only [blank, List.all_cons, Bool.and_eq_true] at hsp
    simp only [List.cons_append]
    rw [scan_space hsp.1]
    rw [ih (by simpa [blank] using hsp.2)]
    simp [flush, map_nil_append]

theorem scan_blank_end {sp : Str} (hsp : blank sp = true) : scan (.gap []) sp = some [] := by
  induction sp with
  | nil => simp [scan, flush]
  | cons d ds ih =>
    simp only [blank, List.all_cons, Bool.and_eq_true] at hsp
    rw [scan_space hsp.1, ih (by simpa [blank] using hsp.2)]
    simp [flush]

/-! ## a whole written condition -/

theorem noQ_of_all {s : Str} (h : s.all (fun c => !isQuote c) = true) : NoQ s := fun c hc => by
  simpa using List.all_eq_true.mp h c hc

theorem tokCh_of_lower {k : Str} (h : (Str.lower k).all isTokCh = true) : k.all isTokCh = true := by
  induction k with
  | nil => rfl
  | cons c cs ih =>
    simp only [Str.lower, List.map_cons, List.all_cons, Bool.and_eq_true] at h
    simp only [List.all_cons, Bool.and_eq_true]
    refine ⟨?_, ih h.2⟩
    by_cases hu : Str.isUpper c = true
    · simp [isTokCh, isWordCh, Str.isAlnum, Str.isAlpha, hu]
    · simpa [hu] using h.1

theorem kw_facts_lex {a : Atom} (hok : a.ok = true) : a.kw ≠ [] ∧ a.kw.all isTokCh = true ∧ NoQ a.kw := by
  simp only [Atom.ok, Bool.and_eq_true, beq_iff_eq] at hok
  have hkw := hok.1.1.1.1.1
  have h1 : (Str.lower a.kw).all isTokCh = true := by rw [hkw]; cases a.var <;> decide
  have h2 : a.kw ≠ [] := by
    intro e; rw [e] at hkw; cases hv : a.var <;> rw [hv] at hkw <;> simp [Str.lower, Var.kw, sFlavor, sType] at hkw
  exact ⟨h2, tokCh_of_lower h1, noQ_of_tokChs (tokCh_of_lower h1)⟩

theorem word_facts_lex {a : Atom} (hok : a.ok = true) : a.word ≠ [] ∧ a.word.all isTokCh = true ∧ NoQ a.word := by
  simp only [Atom.ok, Bool.and_eq_true] at hok
  have hw := hok.1.1.1.1.2
  simp only [plainWord, Bool.and_eq_true, Bool.not_eq_true', List.isEmpty_eq_false_iff] at hw
  exact ⟨hw.1.1.1.1.1.1.1.1, hw.1.1.1.1.1.1.1.2, noQ_of_tokChs hw.1.1.1.1.1.1.1.2⟩

theorem noQ_opStr (neg : Bool) : NoQ (opStr neg) := by cases neg <;> exact noQ_of_all (by decide)

/-- the text of a written condition once the quotes around its words are gone -/
def ustr : CExpr → Str
  | .atom a => a.sp1 ++ a.kw ++ a.sp2 ++ opStr a.neg ++ a.sp3 ++ a.word
  | .and a b sp => ustr a ++ sp ++ sAndAnd ++ ustr b
  | .or a b sp => ustr a ++ sp ++ sOrOr ++ ustr b
  | .paren a sp1 sp2 => sp1 ++ sLp ++ ustr a ++ sp2 ++ sRp

/-- the quote-stripping pass on a written condition -/
theorem unq_expr (c : CExpr) : ∀ (p : Nat), c.okAt p = true → ∀ x, unq none (c.str ++ x) = ustr c ++ unq none x := by
  induction c with
  | atom a =>
    intro p hok x
    have hok' : a.ok = true := by simpa [CExpr.okAt] using hok
    obtain ⟨_, _, hk⟩ := kw_facts_lex hok'
    obtain ⟨hwne, _, hw⟩ := word_facts_lex hok'
    simp only [Atom.ok, Bool.and_eq_true] at hok'
    obtain ⟨⟨⟨⟨_, hq⟩, h1⟩, h2⟩, h3⟩ := hok'
    have hpre : NoQ (a.sp1 ++ a.kw ++ a.sp2 ++ opStr a.neg ++ a.sp3) :=
      noQ_append (noQ_append (noQ_append (noQ_append (noQ_of_blank h1) hk) (noQ_of_blank h2)) (noQ_opStr _)) (noQ_of_blank h3)
    have hqw : unq none (quoted a.quote a.word ++ x) = a.word ++ unq none x := by
      cases hqv : a.quote with
      | none => simp only [quoted]; rw [unq_noQ_append hw]
      | some q =>
        have hq' : isQuote q = true := by
          rw [hqv] at hq; simp only [Bool.or_eq_true, beq_iff_eq] at hq
          rcases hq with (hq | hq) | hq
          · cases hq
          · cases hq; decide
          · cases hq; decide
        simp only [quoted]
        have := unq_quoted hq' hq' hw hwne x
        simpa using this
    simp only [CExpr.str, ustr]
    rw [List.append_assoc _ (quoted a.quote a.word) x, unq_noQ_append hpre, hqw]
    simp only [List.append_assoc]
  | and a b sp iha ihb =>
    intro p hok x
    simp only [CExpr.okAt, Bool.and_eq_true] at hok
    obtain ⟨⟨⟨_, ha⟩, hb⟩, hsp⟩ := hok
    simp only [CExpr.str, ustr, List.append_assoc]
    rw [iha 1 ha, unq_noQ_append (noQ_of_blank hsp), unq_noQ_append (noQ_of_all (by decide) : NoQ sAndAnd), ihb 2 hb]
  | or a b sp iha ihb =>
    intro p hok x
    simp only [CExpr.okAt, Bool.and_eq_true] at hok
    obtain ⟨⟨⟨_, ha⟩, hb⟩, hsp⟩ := hok
    simp only [CExpr.str, ustr, List.append_assoc]
    rw [iha 0 ha, unq_noQ_append (noQ_of_blank hsp), unq_noQ_append (noQ_of_all (by decide) : NoQ sOrOr), ihb 1 hb]
  | paren a sp1 sp2 ih =>
    intro p hok x
    simp only [CExpr.okAt, Bool.and_eq_true] at hok
    obtain ⟨⟨ha, h1⟩, h2⟩ := hok
    simp only [CExpr.str, ustr, List.append_assoc]
    rw [unq_noQ_append (noQ_of_blank h1), unq_noQ_append (noQ_of_all (by decide) : NoQ sLp), ih 0 ha,
      unq_noQ_append (noQ_of_blank h2), unq_noQ_append (noQ_of_all (by decide) : NoQ sRp)]

theorem brk_op (neg : Bool) (x : Str) : brk (opStr neg ++ x) = true := by cases neg <;> rfl

/-- the split pattern on a written condition (quotes gone): its tokens, then the rest from a fresh start -/
theorem scan_expr (c : CExpr) : ∀ (p : Nat), c.okAt p = true → ∀ g x, brk x = true →
    scan (.gap g) (ustr c ++ x) = (scan (.gap []) x).map (flush (.gap g) ++ c.toks ++ ·) := by
  induction c with
  | atom a =>
    intro p hok g x hx
    have hok' : a.ok = true := by simpa [CExpr.okAt] using hok
    obtain ⟨hkne, hk, _⟩ := kw_facts_lex hok'
    obtain ⟨hwne, hw, _⟩ := word_facts_lex hok'
    simp only [Atom.ok, Bool.and_eq_true] at hok'
    obtain ⟨⟨⟨_, h1⟩, h2⟩, h3⟩ := hok'
    have e : ustr (.atom a) ++ x = a.sp1 ++ a.kw ++ (a.sp2 ++ opStr a.neg ++ (a.sp3 ++ a.word ++ x)) := by
      simp [ustr, List.append_assoc]
    have hb1 : brk (a.sp2 ++ opStr a.neg ++ (a.sp3 ++ a.word ++ x)) = true := by
      rw [List.append_assoc]; exact brk_blank_append h2 (brk_op _ _)
    have hop : opStr a.neg = [if a.neg then 33 else 61, 61] := by cases a.neg <;> rfl
    have hc : (if a.neg then 33 else 61) = 61 ∨ (if a.neg then 33 else 61) = 33 := by cases a.neg <;> simp
    rw [e, scan_W h1 hkne hk hb1, hop, scan_C h2 hc, scan_W h3 hwne hw hx]
    simp [Option.map_map, Function.comp_def, flush, CExpr.toks, hop]
  | and a b sp iha ihb =>
    intro p hok g x hx
    simp only [CExpr.okAt, Bool.and_eq_true] at hok
    obtain ⟨⟨⟨_, ha⟩, hb⟩, hsp⟩ := hok
    have e : ustr (.and a b sp) ++ x = ustr a ++ (sp ++ [38, 38] ++ (ustr b ++ x)) := by
      simp [ustr, sAndAnd, List.append_assoc]
    have hb1 : brk (sp ++ [38, 38] ++ (ustr b ++ x)) = true := by
      rw [List.append_assoc]; exact brk_blank_append hsp rfl
    rw [e, iha 1 ha g _ hb1, scan_G hsp (Or.inr rfl), ihb 2 hb _ x hx]
    simp [Option.map_map, Function.comp_def, flush, CExpr.toks, sAndAnd]
  | or a b sp iha ihb =>
    intro p hok g x hx
    simp only [CExpr.okAt, Bool.and_eq_true] at hok
    obtain ⟨⟨⟨_, ha⟩, hb⟩, hsp⟩ := hok
    have e : ustr (.or a b sp) ++ x = ustr a ++ (sp ++ [124, 124] ++ (ustr b ++ x)) := by
      simp [ustr, sOrOr, List.append_assoc]
    have hb1 : brk (sp ++ [124, 124] ++ (ustr b ++ x)) = true := by
      rw [List.append_assoc]; exact brk_blank_append hsp rfl
    rw [e, iha 0 ha g _ hb1, scan_G hsp (Or.inl rfl), ihb 1 hb _ x hx]
    simp [Option.map_map, Function.comp_def, flush, CExpr.toks, sOrOr]
  | paren a sp1 sp2 ih =>
    intro p hok g x hx
    simp only [CExpr.okAt, Bool.and_eq_true] at hok
    obtain ⟨⟨ha, h1⟩, h2⟩ := hok
    have e : ustr (.paren a sp1 sp2) ++ x = sp1 ++ [40] ++ (ustr a ++ (sp2 ++ [41] ++ x)) := by
      simp [ustr, sLp, sRp, List.append_assoc]
    have hb1 : brk (sp2 ++ [41] ++ x) = true := by
      rw [List.append_assoc]; exact brk_blank_append h2 rfl
    rw [e, scan_P h1 (Or.inl rfl), ih 0 ha _ _ hb1, scan_P h2 (Or.inr rfl)]
    simp [Option.map_map, Function.comp_def, flush, CExpr.toks, sLp, sRp]

/-- `VersionParser.__init__` on the text of a well-formed written condition (followed by blanks): its tokens -/
theorem tokenize_expr (c : CExpr) (hok : c.okAt 0 = true) (trail : Str) (ht : blank trail = true) :
    tokenize (c.str ++ trail) = some c.toks := by
  have ht' : unq none trail = trail := by simpa [unq] using unq_noQ_append (noQ_of_blank ht) []
  simp only [tokenize, unquote]
  rw [unq_expr c 0 hok, ht']
  rw [scan_expr c 0 hok [] trail (by cases trail with
    | nil => rfl
    | cons d _ =>
      have : Str.isSpace d = true := by simp only [blank, List.all_cons, Bool.and_eq_true] at ht; exact ht.1
      simp [brk, space_not_tokCh this]), scan_blank_end ht]
  simp [flush]

/-- every token occupies at least one character of the text -/
theorem toks_length_le (c : CExpr) : ∀ p, c.okAt p = true → c.toks.length ≤ c.str.length := by
  induction c with
  | atom a =>
    intro p hok
    have hok' : a.ok = true := by simpa [CExpr.okAt] using hok
    obtain ⟨hkne, _, _⟩ := kw_facts_lex hok'
    obtain ⟨hwne, _, _⟩ := word_facts_lex hok'
    have h1 : 1 ≤ a.kw.length := List.length_pos_iff.mpr hkne
    have h2 : 1 ≤ a.word.length := List.length_pos_iff.mpr hwne
    have h3 : a.word.length ≤ (quoted a.quote a.word).length := by cases a.quote <;> simp [quoted]; omega
    have h4 : (opStr a.neg).length = 2 := by cases a.neg <;> rfl
    simp only [CExpr.toks, CExpr.str, List.length_append, List.length_cons, List.length_nil]
    omega
  | and a b sp iha ihb =>
    intro p hok
    simp only [CExpr.okAt, Bool.and_eq_true] at hok
    have := iha 1 hok.1.1.2; have := ihb 2 hok.1.2
    simp only [CExpr.toks, CExpr.str, List.length_append, List.length_cons, sAndAnd, List.length_nil]; omega
  | or a b sp iha ihb =>
    intro p hok
    simp only [CExpr.okAt, Bool.and_eq_true] at hok
    have := iha 0 hok.1.1.2; have := ihb 1 hok.1.2
    simp only [CExpr.toks, CExpr.str, List.length_append, List.length_cons, sOrOr, List.length_nil]; omega
  | paren a sp1 sp2 ih =>
    intro p hok
    simp only [CExpr.okAt, Bool.and_eq_true] at hok
    have := ih 0 hok.1.1
    simp only [CExpr.toks, CExpr.str, List.length_append, List.length_cons, sLp, sRp, List.length_nil]; omega

end EupsModel.Cond
