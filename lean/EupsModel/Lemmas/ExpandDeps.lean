import EupsModel.Lemmas.Expand
import EupsModel.Model.Deps
/-! Bridge between the model of `expandTableFile` (`Model/Expand.lean`, property C17), which takes the answers of
`getDependencies(n, v, setup=True, shouldRaise=True)` as data, and the model of the dependency listing
(`Model/Deps.lean`, property C13): the answers computed by the C13 model satisfy C17's hypothesis `DepsSound`. -/
set_option linter.unusedSimpArgs false
namespace EupsModel.Expand
open EupsModel

/-- `eups.app.getDependencies(n, v, eupsenv, setup=True, shouldRaise=True)` over the C13 model:
`topProduct = findProduct(n, v)`, `[]` when it is not declared, otherwise
`getDependentProducts(topProduct, setup=True, shouldRaise=True)` — the C13 listing with every product replaced by the
version of it that is set up (`Deps.getDependentProductsSetup`, not topological).  `setup` is the environment's
`SETUP_<P>` records (name ↦ version).  `raises n v` stands for "`shouldRaise=True` raised" (a required product of the
listing is not set up); nothing below depends on which answers raise.  Out of fuel is "no answer". -/
def depsOfModel (db : Deps.Db) (fuel : Nat) (setup : List (Str × Str)) (raises : Str → Str → Bool) (n v : Str) : DepsAnswer :=
  match db.find n (some v) with
  | none => .ok []
  | some top =>
    if raises n v then .raised
    else match Deps.getDependentProductsSetup db fuel top setup false false with
      | .ok l => .ok (l.filterMap fun e => e.prod.ver.map fun ver => (⟨e.prod.name, ver, e.optional⟩ : Dep))
      | _ => .unknown

/-- every entry of a `setup=True` listing carries the version the environment records for its name -/
theorem adjustSetup_sound (db : Deps.Db) (setup : List (Str × Str)) (out : List Deps.Entry) :
    ∀ e ∈ Deps.adjustSetup db setup out, ∃ v, e.prod.ver = some v ∧ setup.lookup e.prod.name = some v := by
  intro e he
  unfold Deps.adjustSetup at he
  simp only [List.mem_filterMap] at he
  obtain ⟨e0, _, h⟩ := he
  cases hl : setup.lookup e0.prod.name with
  | none => simp [hl] at h
  | some v =>
    simp only [hl] at h
    split at h
    · simp at h; subst h; exact ⟨v, rfl, hl⟩
    · simp at h

theorem getDependentProductsSetup_sound (db : Deps.Db) (fuel : Nat) (top : Deps.Prod) (setup : List (Str × Str))
    (l : List Deps.Entry) (h : Deps.getDependentProductsSetup db fuel top setup false false = .ok l) :
    ∀ e ∈ l, ∃ v, e.prod.ver = some v ∧ setup.lookup e.prod.name = some v := by
  unfold Deps.getDependentProductsSetup at h
  split at h
  · cases h; simp
  · split at h
    · cases h
    · rename_i out st _
      simp [Deps.finishListing] at h
      subst h
      exact adjustSetup_sound db setup out

/-- **`DepsSound` discharged from the C13 model**: when the expander's `getSetupVersion` reads the same records as the
listing (`A.sv n = setup.lookup n`) and its `getDependencies` answers are those the C13 model computes, every `(n, v)`
a listing returns is the set-up version of `n`. -/
theorem depsSound_of_depsModel (db : Deps.Db) (fuel : Nat) (setup : List (Str × Str)) (raises : Str → Str → Bool)
    (A : Answers) (hsv : ∀ n, A.sv n = setup.lookup n)
    (hdeps : ∀ n v, A.deps n v = depsOfModel db fuel setup raises n v) : DepsSound A := by
  intro n v l hl d hd
  rw [hdeps, depsOfModel] at hl
  split at hl
  · cases hl; simp at hd
  · split at hl
    · cases hl
    · split at hl
      · rename_i lst hlst
        cases hl
        simp only [List.mem_filterMap] at hd
        obtain ⟨e, he, hmap⟩ := hd
        obtain ⟨ver, hver, hlook⟩ := getDependentProductsSetup_sound db fuel _ setup lst hlst e he
        simp [hver] at hmap
        subst hmap
        simpa [hsv] using hlook
      · cases hl

end EupsModel.Expand
