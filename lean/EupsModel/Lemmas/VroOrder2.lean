import EupsModel.Lemmas.VroOrder
/-! The complete reading of the VRO `selectVRO` builds (default configuration) for a request that NAMES a version or an
expression: the -t tags in command-line order, then the version entries — and nothing behind them. -/
namespace EupsModel.Vro

/-- what an entry's lookup can see of the rest of the VRO -/
def vtSame (l l' : List Str) : Prop :=
  l.contains kVersionExpr = l'.contains kVersionExpr ∧ l.any isVT = l'.any isVT

theorem vtSame_filter (q : Str → Bool) (hq : ∀ e, isVT e = true → q e = true) (l : List Str) : vtSame l (l.filter q) := by
  constructor
  · rw [Bool.eq_iff_iff]
    simp only [List.contains_iff_mem, List.mem_filter]
    constructor
    · intro h; exact ⟨h, hq _ isVT_versionExpr⟩
    · intro h; exact h.1
  · rw [Bool.eq_iff_iff]
    simp only [List.any_eq_true, List.mem_filter]
    constructor
    · rintro ⟨x, hx, hv⟩; exact ⟨x, ⟨hx, hq x hv⟩, hv⟩
    · rintro ⟨x, ⟨hx, _⟩, hv⟩; exact ⟨x, hx, hv⟩

/-- entries that always say "continue" and are not version entries can be struck from the VRO -/
theorem walk_filter_skips' (C : Ctx) (r : Req) (sk : Str → Bool) (l : List Str)
    (hs : ∀ e ∈ l, sk e = true → Skips C r e) (hvt : ∀ e, isVT e = true → sk e = false) :
    walk C r l = walk C r (l.filter (fun e => !sk e)) := by
  induction l with
  | nil => rfl
  | cons e rest ih =>
    have ih' := ih (fun x hx => hs x (List.mem_cons_of_mem _ hx))
    cases hsk : sk e with
    | true =>
      simp only [List.filter_cons, hsk, Bool.not_true, Bool.false_eq_true, if_false]
      rw [walk_cons_skip (hs e (by simp) hsk rest)]
      exact ih'
    | false =>
      simp only [List.filter_cons, hsk, Bool.not_false, if_true]
      have hsame := vtSame_filter (fun e => !sk e) (by intro x hx; simp [hvt x hx]) rest
      have hl : lookupEntry C r e rest = lookupEntry C r e (rest.filter (fun e => !sk e)) :=
        lookupEntry_congr C r e _ _ hsame.1 hsame.2
      cases ho : lookupEntry C r e rest with
      | error err => rw [walk_cons_error ho, walk_cons_error (hl ▸ ho)]
      | ok o =>
        cases o with
        | skip => rw [walk_cons_skip ho, walk_cons_skip (hl ▸ ho)]; exact ih'
        | abort => rw [walk_cons_abort ho, walk_cons_abort (hl ▸ ho)]
        | hit p reason => rw [walk_cons_hit ho, walk_cons_hit (hl ▸ ho)]

theorem vtSame_dedupe (l : List Str) (hnw : NoWarn l) (seen : List Str)
    (hvs : ∀ e ∈ l, isVT e = true → e ∉ seen) : vtSame l (dedupe seen l) := by
  constructor
  · rw [Bool.eq_iff_iff]
    simp only [List.contains_iff_mem, mem_dedupe _ seen l hnw]
    constructor
    · intro h; exact ⟨h, hvs _ h isVT_versionExpr⟩
    · intro h; exact h.1
  · rw [Bool.eq_iff_iff]
    simp only [List.any_eq_true, mem_dedupe _ seen l hnw]
    constructor
    · rintro ⟨x, hx, hv⟩; exact ⟨x, ⟨hx, hvs x hx hv⟩, hv⟩
    · rintro ⟨x, ⟨hx, _⟩, hv⟩; exact ⟨x, hx, hv⟩

/-- a repeated entry that is not a version entry can be struck from the VRO (`dedupe`), version entries being listed once -/
theorem walk_dedupe' (C : Ctx) (r : Req) (l : List Str) (hnw : NoWarn l)
    (hi : ∀ e ∈ l, isVT e = false → Indep C r e) (hnd : (l.filter isVT).Nodup) (seen : List Str)
    (hvs : ∀ e ∈ l, isVT e = true → e ∉ seen)
    (hseen : ∀ e ∈ seen, e ∈ l → lookupEntry C r e [] = .ok .skip) :
    walk C r (dedupe seen l) = walk C r l := by
  induction l generalizing seen with
  | nil => rfl
  | cons e rest ih =>
    obtain ⟨he, hr⟩ := noWarn_cons.mp hnw
    have hir : ∀ x ∈ rest, isVT x = false → Indep C r x := fun x hx => hi x (List.mem_cons_of_mem _ hx)
    have hndr : (rest.filter isVT).Nodup := by
      cases hv : isVT e
      · simpa [List.filter_cons, hv] using hnd
      · have : (e :: rest.filter isVT).Nodup := by simpa [List.filter_cons, hv] using hnd
        exact (List.nodup_cons.mp this).2
    rw [dedupe_cons_noWarn he]
    by_cases hs : seen.contains e = true
    · simp only [hs, if_true]
      have hmem : e ∈ seen := by simpa using hs
      have hnv : isVT e = false := by
        cases hv : isVT e
        · rfl
        · exact absurd hmem (hvs e (by simp) hv)
      have hsk : lookupEntry C r e rest = .ok .skip := (hi e (by simp) hnv rest []).trans (hseen e hmem (by simp))
      rw [walk_cons_skip hsk]
      exact ih hr hir hndr seen (fun x hx hv => hvs x (List.mem_cons_of_mem _ hx) hv)
        (fun x hx hxr => hseen x hx (List.mem_cons_of_mem _ hxr))
    · simp only [hs, Bool.false_eq_true, if_false]
      -- the version entries of `rest` are not in `e :: seen`
      have hvs' : ∀ x ∈ rest, isVT x = true → x ∉ e :: seen := by
        intro x hx hv hmem
        rcases List.mem_cons.mp hmem with rfl | hm
        · -- x = e is a version entry occurring in rest as well: contradicts Nodup
          have : (x :: rest.filter isVT).Nodup := by simpa [List.filter_cons, hv] using hnd
          exact (List.nodup_cons.mp this).1 (List.mem_filter.mpr ⟨hx, hv⟩)
        · exact hvs x (List.mem_cons_of_mem _ hx) hv hm
      have hsame := vtSame_dedupe rest hr (e :: seen) hvs'
      have hl : lookupEntry C r e rest = lookupEntry C r e (dedupe (e :: seen) rest) :=
        lookupEntry_congr C r e _ _ hsame.1 hsame.2
      cases ho : lookupEntry C r e rest with
      | error err => rw [walk_cons_error ho, walk_cons_error (hl ▸ ho)]
      | ok o =>
        cases o with
        | abort => rw [walk_cons_abort ho, walk_cons_abort (hl ▸ ho)]
        | hit p reason => rw [walk_cons_hit ho, walk_cons_hit (hl ▸ ho)]
        | skip =>
          rw [walk_cons_skip ho, walk_cons_skip (hl ▸ ho)]
          apply ih hr hir hndr (e :: seen) hvs'
          intro x hx hxr
          rcases List.mem_cons.mp hx with rfl | hx
          · -- x = e skipped at `rest`; it is not a version entry (it occurs again in rest), so its answer is the same at []
            have hnv : isVT x = false := by
              cases hv : isVT x
              · rfl
              · exact absurd (List.mem_cons_self) (hvs' x hxr hv)
            exact (hi x (by simp) hnv [] rest).trans ho
          · exact hseen x hx (List.mem_cons_of_mem _ hxr)

theorem walk_tags_append (C : Ctx) (r : Req) (key : Str → Str) (l rest : List Str)
    (h : ∀ t ∈ l, IsTagEntry C t (key t)) :
    walk C r (l ++ rest) =
      match firstDesignating C r key l with
      | some hit => .ok (some hit)
      | none => walk C r rest := by
  induction l with
  | nil => rfl
  | cons t ts ih =>
    have ht := h t (by simp)
    simp only [List.cons_append, firstDesignating]
    cases hl : lookupTag C.db (key t) r.name r.flavor with
    | none =>
      have : lookupEntry C r t (ts ++ rest) = .ok .skip := by rw [lookupEntry_tagKey _ ht, hl]
      rw [walk_cons_skip this]
      exact ih (fun x hx => h x (List.mem_cons_of_mem _ hx))
    | some p =>
      have : lookupEntry C r t (ts ++ rest) = .ok (.hit p t) := by rw [lookupEntry_tagKey _ ht, hl]
      rw [walk_cons_hit this]

/-- the words of the default VRO that are neither tags nor version entries -/
def fixedSkipN (e : Str) : Bool := e == kKeep || e == kTypeExact || e == kCommandLine

theorem fixedSkipN_goodTag {c : VroCfg} {t : Str} (g : GoodTag c t) : fixedSkipN t = false := by
  have h1 := g.ne_pseudo (k := kKeep) (by decide)
  have h3 := g.ne_pseudo (k := kCommandLine) (by decide)
  have h2 : t ≠ kTypeExact := by
    intro h; have := g.noColon; rw [h] at this; revert this; decide
  simp [fixedSkipN, h1, h2, h3]

theorem filter_fixedN_placed {c : VroCfg} (keep : Bool) {tags post : List Str}
    (ht : ∀ t ∈ tags, GoodTag c t) (hp : ∀ t ∈ post, GoodTag c t) (_hc : GoodTag c kCurrent) :
    (placed keep tags post).filter (fun e => !fixedSkipN e) = tags ++ ([kVersion, kVersionExpr] ++ (post ++ [kCurrent])) := by
  have hid : ∀ l : List Str, (∀ t ∈ l, GoodTag c t) → l.filter (fun e => !fixedSkipN e) = l := by
    intro l hl
    apply List.filter_eq_self.mpr
    intro x hx
    simp [fixedSkipN_goodTag (hl x hx)]
  have hk : (keepPart keep).filter (fun e => !fixedSkipN e) = [] := by
    cases keep <;> simp [keepPart, fixedSkipN]
  have hcur' : ¬kCurrent = kKeep ∧ ¬kCurrent = kTypeExact ∧ ¬kCurrent = kCommandLine := by decide
  simp only [placed, List.filter_append, hk, hid tags ht, hid post hp, List.nil_append]
  simp [fixedSkipN, hcur',
    show (kTypeExact == kKeep) = false by decide, show (kCommandLine == kKeep) = false by decide,
    show (kCommandLine == kTypeExact) = false by decide, show (kVersion == kKeep) = false by decide,
    show (kVersion == kTypeExact) = false by decide, show (kVersion == kCommandLine) = false by decide,
    show (kVersionExpr == kKeep) = false by decide, show (kVersionExpr == kTypeExact) = false by decide,
    show (kVersionExpr == kCommandLine) = false by decide]

theorem skips_fixedN {C : Ctx} {r : Req} (hr : r.already = none) {e : Str}
    (he : e = kTypeExact ∨ e = kCommandLine) : Skips C r e := by
  intro post
  rcases he with rfl | rfl
  · simp [lookupEntry, show (kTypeExact == kPath) = false by decide,
      show (kTypeExact == kKeep) = false by decide, show (kTypeExact == kCommandLine) = false by decide,
      show isVT kTypeExact = false by decide, show isWarn kTypeExact = false by decide,
      tagKey_typeExact C, show colon ∈ kTypeExact by decide, show isType kTypeExact = true by decide]
  · simp [lookupEntry, show (kCommandLine == kPath) = false by decide,
      show (kCommandLine == kKeep) = false by decide, hr]

/-- **The complete reading of the VRO for a request that names a version or an expression** (default configuration; keep /
exact / inexact / -r / -z in any combination; tags of any kind; nothing set up beforehand): the answer is that of the first
-t tag, in command-line order, that designates a version; when none does, that of the two version entries `version`,
`versionExpr` alone — the -T tags and `current` behind them are never consulted. -/
theorem versioned_request_reading (c : VroCfg) (a : VroArgs) (d : DefaultCfg c)
    (ht : ∀ t ∈ a.tags, GoodTag c t) (hp : ∀ t ∈ a.postTags, GoodTag c t)
    (out : VroOut) (hsel : selectVRO c a = .ok out)
    (C : Ctx) (r : Req) (hr : r.already = none) (hn : r.named.isSome = true)
    (hkeep : c.keep = false ∨ 0 < r.depth)
    (key : Str → Str) (htag : ∀ t ∈ a.tags ++ a.postTags ++ [kCurrent], IsTagEntry C t (key t)) :
    find C r out.vro =
      match firstDesignating C r key a.tags with
      | some hit => .ok (some hit)
      | none => walk C r [kVersion, kVersionExpr] := by
  rw [selectVRO_default_eq c d a ht hp] at hsel
  cases hsel
  simp only
  rw [find_eq_walk _ hr]
  have hc := goodTag_current d
  have hnw := noWarn_placed (keep := c.keep) ht hp
  have hvtN : ∀ e, isVT e = true → fixedSkipN e = false := by
    intro e he
    have h3 : (e = kVersion ∨ e = kVersionBang) ∨ e = kVersionExpr := by simpa [isVT] using he
    rcases h3 with (rfl | rfl) | rfl <;> decide
  -- classification of the entries of `placed`
  have hcls : ∀ e ∈ placed c.keep a.tags a.postTags,
      (fixedSkipN e = true → Skips C r e) ∧ (isVT e = false → Indep C r e) := by
    intro e he
    rcases mem_placed he with h | h | h | h
    · simp only [fixedWords, List.mem_cons, List.not_mem_nil, or_false] at h
      rcases h with rfl | rfl | rfl | rfl | rfl | rfl | rfl
      · have hk : c.keep = true := by
          cases hkk : c.keep
          · exfalso
            rw [hkk] at he
            simp only [placed, keepPart, Bool.false_eq_true, if_false, List.nil_append, List.mem_append, List.mem_cons,
              List.not_mem_nil, or_false] at he
            rcases he with (((h | h) | h) | h) | h
            · rcases h with h | h <;> revert h <;> decide
            · exact (ht _ h).ne_pseudo (k := kKeep) (by decide) rfl
            · rcases h with h | h <;> revert h <;> decide
            · exact (hp _ h).ne_pseudo (k := kKeep) (by decide) rfl
            · revert h; decide
          · rfl
        have hdep : 0 < r.depth := by
          rcases hkeep with h | h
          · rw [hk] at h; cases h
          · exact h
        exact ⟨fun _ => skips_keep hr hdep, fun _ => (skips_keep hr hdep).indep⟩
      · exact ⟨fun _ => skips_fixedN hr (Or.inl rfl), fun _ => (skips_fixedN hr (Or.inl rfl)).indep⟩
      · exact ⟨fun _ => skips_fixedN hr (Or.inr rfl), fun _ => (skips_fixedN hr (Or.inr rfl)).indep⟩
      · exact ⟨fun h => absurd h (by decide), fun h => absurd h (by decide)⟩
      · exact ⟨fun h => absurd h (by decide), fun h => absurd h (by decide)⟩
      · exact absurd (hnw _ he) (by decide)
      · exact ⟨fun h => absurd h (by decide), fun h => absurd h (by decide)⟩
    · have g := ht e h
      exact ⟨fun hf => (by rw [fixedSkipN_goodTag g] at hf; cases hf), fun _ => indep_tagEntry (htag e (by simp [h]))⟩
    · have g := hp e h
      exact ⟨fun hf => (by rw [fixedSkipN_goodTag g] at hf; cases hf), fun _ => indep_tagEntry (htag e (by simp [h]))⟩
    · subst h
      exact ⟨fun hf => (by rw [fixedSkipN_goodTag hc] at hf; cases hf), fun _ => indep_tagEntry (htag kCurrent (by simp))⟩
  -- the version entries of `placed` are listed once
  have hnd : ((placed c.keep a.tags a.postTags).filter isVT).Nodup := by
    have hid : ∀ l : List Str, (∀ t ∈ l, GoodTag c t) → l.filter isVT = [] := by
      intro l hl
      apply List.filter_eq_nil_iff.mpr
      intro x hx
      simp [(hl x hx).isVT]
    have hk : (keepPart c.keep).filter isVT = [] := by cases c.keep <;> decide
    simp only [placed, List.filter_append, hk, hid _ ht, hid _ hp, List.nil_append]
    decide
  -- (1) the inexact filter
  have h1 : walk C r (inexF a.inexact (dedupe [] (placed c.keep a.tags a.postTags)))
      = walk C r (dedupe [] (placed c.keep a.tags a.postTags)) := by
    unfold inexF
    cases a.inexact
    · rfl
    · simp only [if_true]
      have := walk_filter_skips' C r (fun e => e == kTypeExact) (dedupe [] (placed c.keep a.tags a.postTags))
        (by
          intro e _ he
          have : e = kTypeExact := by simpa using he
          subst this
          exact skips_fixedN hr (Or.inl rfl))
        (by
          intro e he
          have h3 : (e = kVersion ∨ e = kVersionBang) ∨ e = kVersionExpr := by simpa [isVT] using he
          rcases h3 with (rfl | rfl) | rfl <;> decide)
      exact this.symm
  rw [h1, walk_dedupe' C r _ hnw (fun e he => (hcls e he).2) hnd [] (by intro e _ _ h; cases h) (by intro e he; cases he),
    walk_filter_skips' C r fixedSkipN _ (fun e he => (hcls e he).1) hvtN,
    filter_fixedN_placed c.keep ht hp hc,
    walk_tags_append C r key a.tags _ (fun t h => htag t (by simp [h]))]
  cases firstDesignating C r key a.tags with
  | some hit => rfl
  | none =>
    simp only
    exact walk_cut C r [kVersion] kVersionExpr (a.postTags ++ [kCurrent]) hn (by decide)
      (by
        intro x hx
        rcases List.mem_append.mp hx with h | h
        · exact (hp x h).isVT
        · simp at h; rw [h]; decide)

end EupsModel.Vro
