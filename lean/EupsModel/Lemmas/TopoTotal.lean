import EupsModel.Lemmas.TopoSpec
/-! Totality of the model of `utils.topologicalSort`: the fuel of the reachability closure suffices, and the
layering loop never gets stuck on a condensation (so the second error exit of the code is unreachable when the
components are right). -/
namespace EupsModel.Topo

variable {α : Type} [DecidableEq α]

/-! ### fuel of `closure` -/

theorem frontier_nodup (g : Graph α) (S : List α) : (frontier g S).Nodup := dedup_nodup _

theorem closure_some (g : Graph α) (hcl : ∀ a b, b ∈ succs g a → b ∈ keys g) :
    ∀ f S, S.Nodup → (∀ s ∈ S, s ∈ keys g) → (keys g).length < S.length + f → (closure g f S).isSome := by
  intro f
  induction f with
  | zero =>
    intro S hnd hsub hlt
    have := List.Nodup.length_le_of_subset hnd (fun s hs => hsub s hs)
    omega
  | succ k ih =>
    intro S hnd hsub hlt
    unfold closure
    by_cases hf : frontier g S = []
    · simp [hf]
    · simp only [hf, if_false]
      apply ih
      · rw [List.nodup_append]
        refine ⟨hnd, frontier_nodup g S, ?_⟩
        intro a ha b hb hab
        subst hab
        exact (mem_frontier hb).1 ha
      · intro s hs
        simp only [List.mem_append] at hs
        rcases hs with hs | hs
        · exact hsub s hs
        · obtain ⟨_, x, _, hxs⟩ := mem_frontier hs
          exact hcl x s hxs
      · have : 0 < (frontier g S).length := List.length_pos_iff.mpr hf
        simp only [List.length_append]
        omega

theorem reachFrom_some (g : Graph α) (hcl : ∀ a b, b ∈ succs g a → b ∈ keys g) (a : α) (ha : a ∈ keys g) :
    (reachFrom g a).isSome := by
  unfold reachFrom
  exact closure_some g hcl _ [a] (by simp) (by simpa using ha) (by simp; omega)

theorem reachRows_some (g : Graph α) (hcl : ∀ a b, b ∈ succs g a → b ∈ keys g) :
    ∀ l : List α, (∀ a ∈ l, a ∈ keys g) → (reachRows g l).isSome := by
  intro l
  induction l with
  | nil => intro _; simp [reachRows]
  | cons a as ih =>
    intro h
    unfold reachRows
    have h1 := reachFrom_some g hcl a (h a (by simp))
    have h2 := ih (fun x hx => h x (by simp [hx]))
    obtain ⟨r, hr⟩ := Option.isSome_iff_exists.mp h1
    obtain ⟨rs, hrs⟩ := Option.isSome_iff_exists.mp h2
    simp [hr, hrs]

theorem reachTable_some (g : Graph α) (hcl : ∀ a b, b ∈ succs g a → b ∈ keys g) : (reachTable g).isSome :=
  reachRows_some g hcl _ (fun _ h => h)

/-! ### a ranked, closed graph is consumed completely by the layering loop -/

/-- every dependency has an entry -/
def DepsClosed (g : Graph α) : Prop := ∀ p ∈ g, ∀ d ∈ p.2, d ∈ keys g

/-- dependencies have strictly smaller rank -/
def Ranked (r : α → Nat) (g : Graph α) : Prop := ∀ p ∈ g, ∀ d ∈ p.2, r d < r p.1

theorem exists_min {β : Type} (r : β → Nat) : ∀ (l : List β), l ≠ [] → ∃ p ∈ l, ∀ q ∈ l, r p ≤ r q := by
  intro l
  induction l with
  | nil => intro h; exact absurd rfl h
  | cons a as ih =>
    intro _
    by_cases has : as = []
    · subst has; exact ⟨a, by simp, by simp⟩
    · obtain ⟨p, hp, hmin⟩ := ih has
      by_cases hap : r a ≤ r p
      · refine ⟨a, by simp, ?_⟩
        intro q hq
        simp only [List.mem_cons] at hq
        rcases hq with rfl | hq
        · exact Nat.le_refl _
        · exact Nat.le_trans hap (hmin q hq)
      · refine ⟨p, by simp [hp], ?_⟩
        intro q hq
        simp only [List.mem_cons] at hq
        rcases hq with rfl | hq
        · omega
        · exact hmin q hq

theorem ready_ne_nil {r : α → Nat} {g : Graph α} (hc : DepsClosed g) (hr : Ranked r g) (hne : g ≠ []) :
    ready g ≠ [] := by
  obtain ⟨p, hp, hmin⟩ := exists_min (fun p : α × List α => r p.1) g hne
  have hnil : p.2 = [] := by
    cases hd : p.2 with
    | nil => rfl
    | cons d ds =>
      exfalso
      have hdm : d ∈ p.2 := by rw [hd]; simp
      have hk := hc p hp d hdm
      simp only [keys, List.mem_map] at hk
      obtain ⟨q, hq, hqd⟩ := hk
      have h1 := hr p hp d hdm
      have h2 := hmin q hq
      rw [hqd] at h2
      omega
  intro hrd
  have : p.1 ∈ ready g := by
    simp only [ready, List.mem_map, List.mem_filter]
    exact ⟨p, ⟨hp, by simp [hnil]⟩, rfl⟩
  rw [hrd] at this; simp at this

theorem strip_ranked {r : α → Nat} {g : Graph α} (hr : Ranked r g) : Ranked r (strip g) := by
  intro p hp d hd
  simp only [strip, List.mem_map, List.mem_filter] at hp
  obtain ⟨q, ⟨hq, _⟩, rfl⟩ := hp
  simp only [List.mem_filter] at hd
  exact hr q hq d hd.1

theorem strip_closed {g : Graph α} (hc : DepsClosed g) : DepsClosed (strip g) := by
  intro p hp d hd
  simp only [strip, List.mem_map, List.mem_filter] at hp
  obtain ⟨q, ⟨hq, _⟩, rfl⟩ := hp
  simp only [List.mem_filter, Bool.not_eq_true', List.contains_eq_mem, decide_eq_false_iff_not] at hd
  obtain ⟨hdq, hnr⟩ := hd
  have hk := hc q hq d hdq
  simp only [keys, List.mem_map] at hk ⊢
  obtain ⟨e, he, hed⟩ := hk
  have hne : e.2 ≠ [] := by
    intro hnil
    apply hnr
    simp only [ready, List.mem_map, List.mem_filter]
    exact ⟨e, ⟨he, by simp [hnil]⟩, hed⟩
  exact ⟨_, strip_of_mem (u := e.1) (du := e.2) he hne, hed⟩

theorem layers_rest_nil {r : α → Nat} (f : Nat) : ∀ (g : Graph α) ls rest, DepsClosed g → Ranked r g →
    layers f g = some (ls, rest) → rest = [] := by
  induction f with
  | zero => intro g ls rest _ _ h; simp [layers] at h
  | succ k ih =>
    intro g ls rest hc hr h
    by_cases hrd : ready g = []
    · simp only [layers, hrd, if_true, Option.some.injEq, Prod.mk.injEq] at h
      rw [← h.2]
      apply Classical.byContradiction
      intro hne
      exact ready_ne_nil hc hr hne hrd
    · obtain ⟨ls', hl', _⟩ := layers_succ_of_ready hrd h
      exact ih _ _ _ (strip_closed hc) (strip_ranked hr) hl'

/-! ### the condensation is ranked by the number of reachable nodes -/

theorem countP_lt_of_witness {β : Type} (p q : β → Bool) : ∀ (l : List β), (∀ x ∈ l, p x = true → q x = true) →
    (∃ x ∈ l, q x = true ∧ p x = false) → l.countP p < l.countP q := by
  intro l
  induction l with
  | nil => intro _ h; simp at h
  | cons a as ih =>
    intro himp hex
    have himp' : ∀ x ∈ as, p x = true → q x = true := fun x hx => himp x (by simp [hx])
    have hle : as.countP p ≤ as.countP q := List.countP_mono_left (fun x hx h => himp' x hx h)
    obtain ⟨x, hx, hq, hp⟩ := hex
    simp only [List.mem_cons] at hx
    rcases hx with rfl | hx
    · simp only [List.countP_cons, hq, hp, if_true]
      simp; omega
    · have := ih himp' ⟨x, hx, hq, hp⟩
      simp only [List.countP_cons]
      by_cases hpa : p a = true
      · have := himp a (by simp) hpa
        simp [hpa, this]; omega
      · have hpa' : p a = false := by simpa using hpa
        simp only [hpa', Bool.false_eq_true, if_false]
        split <;> omega

/-- number of nodes reachable from a member of the component -/
def compRank (g : Graph α) (R : List (α × List α)) (c : List α) : Nat :=
  (keys g).countP fun x => c.any fun a => reaches R a x

theorem condense_closed (g : Graph α) (R : List (α × List α)) (hcl : ∀ a b, b ∈ succs g a → b ∈ keys g)
    (h : reachTable g = some R) : DepsClosed (condense g R) := by
  intro p hp d hd
  rw [keys_condense]
  unfold condense at hp
  simp only [List.mem_map] at hp
  obtain ⟨c, hc, rfl⟩ := hp
  simp only at hd
  rw [mem_dedup] at hd
  simp only [List.mem_filter, List.mem_map, List.mem_flatMap] at hd
  obtain ⟨⟨b, ⟨a, hac, hab⟩, rfl⟩, _⟩ := hd
  obtain ⟨w, hw, rfl⟩ := mem_components.mp hc
  have hak : a ∈ keys g := ((mem_sccOf h hw).mp hac).1
  exact mem_components.mpr ⟨b, hcl a b hab, rfl⟩

theorem condense_ranked (g : Graph α) (R : List (α × List α)) (hcl : ∀ a b, b ∈ succs g a → b ∈ keys g)
    (h : reachTable g = some R) : Ranked (compRank g R) (condense g R) := by
  intro p hp d hd
  unfold condense at hp
  simp only [List.mem_map] at hp
  obtain ⟨c, hc, rfl⟩ := hp
  simp only at hd ⊢
  rw [mem_dedup] at hd
  simp only [List.mem_filter, List.mem_map, List.mem_flatMap, bne_iff_ne, ne_eq] at hd
  obtain ⟨⟨b, ⟨a, hac, hab⟩, rfl⟩, hne⟩ := hd
  obtain ⟨w, hw, rfl⟩ := mem_components.mp hc
  have hak : a ∈ keys g := ((mem_sccOf h hw).mp hac).1
  have hbk : b ∈ keys g := hcl a b hab
  have hca : sccOf R (keys g) a = sccOf R (keys g) w := sccOf_eq_of_mem h hw hac
  unfold compRank
  apply countP_lt_of_witness
  · -- whatever a member of comp(b) reaches, a reaches
    intro x hx hreach
    simp only [List.any_eq_true] at hreach ⊢
    obtain ⟨b', hb', hb'x⟩ := hreach
    obtain ⟨hb'k, hbb', _⟩ := (mem_sccOf h hbk).mp hb'
    refine ⟨a, hac, ?_⟩
    apply (reachTable_spec h a hak x).mpr
    exact (Path.single hab).trans (hbb'.trans ((reachTable_spec h b' hb'k x).mp hb'x))
  · -- a is reached from comp(a) but not from comp(b)
    refine ⟨a, hak, ?_, ?_⟩
    · simp only [List.any_eq_true]
      exact ⟨a, hac, (reachTable_spec h a hak a).mpr (Path.refl a)⟩
    · cases hany : (sccOf R (keys g) b).any (fun a' => reaches R a' a) with
      | false => rfl
      | true =>
        exfalso
        simp only [List.any_eq_true] at hany
        obtain ⟨b', hb', hb'a⟩ := hany
        obtain ⟨hb'k, hbb', hb'b⟩ := (mem_sccOf h hbk).mp hb'
        have hpa : Path g b a := hbb'.trans ((reachTable_spec h b' hb'k a).mp hb'a)
        have : sccOf R (keys g) b = sccOf R (keys g) a :=
          (sccOf_eq_iff h hbk hak).mpr ⟨hpa, Path.single hab⟩
        exact hne (by rw [this, hca])

/-- **`topologicalSort` is total**: it never runs out of fuel, without `checkCycles` it always returns layers
(the "cyclic dependency exists" exit is unreachable), with `checkCycles` it returns layers or reports a cycle. -/
theorem topologicalSort_total (g0 : Graph α) (cc : Bool) :
    (∃ ls, topologicalSort g0 cc = .ok ls) ∨ (cc = true ∧ topologicalSort g0 cc = .cycle) := by
  have hcl : ∀ a b, b ∈ succs (normalise g0) a → b ∈ keys (normalise g0) := succs_normalise_closed g0
  obtain ⟨R, hR⟩ := Option.isSome_iff_exists.mp (reachTable_some _ hcl)
  unfold topologicalSort
  simp only [hR]
  split
  · rename_i hcc
    right
    simp only [Bool.and_eq_true] at hcc
    exact ⟨hcc.1, rfl⟩
  · left
    have hfuel := layers_fuel ((condense (normalise g0) R).length + 1) (condense (normalise g0) R) (Nat.lt_succ_self _)
    obtain ⟨⟨ls, rest⟩, hl⟩ := Option.isSome_iff_exists.mp hfuel
    have hrest : rest = [] :=
      layers_rest_nil _ _ _ _ (condense_closed _ R hcl hR) (condense_ranked _ R hcl hR) hl
    subst hrest
    simp [hl]

theorem succs_mem_keys {g : Graph α} {a b : α} (h : b ∈ succs g a) : a ∈ keys g := by
  unfold succs at h
  split at h
  · rename_i p hp
    have hm := List.mem_of_find?_eq_some hp
    have hk := List.find?_some hp
    simp only [keys, List.mem_map]
    exact ⟨p, hm, by simpa using hk⟩
  · simp at h

/-- **`checkCycles` characterised exactly**: `topologicalSort` ends in the cycle report precisely when
`checkCycles` is set and the graph has two different nodes that reach one another. -/
theorem topologicalSort_cycle_iff (g0 : Graph α) (cc : Bool) :
    topologicalSort g0 cc = .cycle ↔
      (cc = true ∧ ∃ a b, a ≠ b ∧ Path (normalise g0) a b ∧ Path (normalise g0) b a) := by
  constructor
  · intro h
    have hcl : ∀ a b, b ∈ succs (normalise g0) a → b ∈ keys (normalise g0) := succs_normalise_closed g0
    obtain ⟨R, hR⟩ := Option.isSome_iff_exists.mp (reachTable_some _ hcl)
    unfold topologicalSort at h
    simp only [hR] at h
    split at h
    · rename_i hcc
      simp only [Bool.and_eq_true, List.any_eq_true, decide_eq_true_eq] at hcc
      obtain ⟨hc, c, hck, hlen⟩ := hcc
      refine ⟨hc, ?_⟩
      rw [keys_condense] at hck
      obtain ⟨a, ha, rfl⟩ := mem_components.mp hck
      have hnd : (sccOf R (keys (normalise g0)) a).Nodup := by
        unfold sccOf; exact List.Pairwise.filter _ (keys_normalise_nodup g0)
      match hl : sccOf R (keys (normalise g0)) a, hnd, hlen with
      | x :: y :: rest, hnd', _ =>
        have hx : x ∈ sccOf R (keys (normalise g0)) a := by rw [hl]; simp
        have hy : y ∈ sccOf R (keys (normalise g0)) a := by rw [hl]; simp
        have hxy : x ≠ y := by
          intro he; subst he
          simp at hnd'
        obtain ⟨_, hax, hxa⟩ := (mem_sccOf hR ha).mp hx
        obtain ⟨_, hay, hya⟩ := (mem_sccOf hR ha).mp hy
        exact ⟨x, y, hxy, hxa.trans hay, hya.trans hax⟩
      | [_], _, hlen' => simp at hlen'
      | [], _, hlen' => simp at hlen'
    · exfalso
      have hfuel := layers_fuel ((condense (normalise g0) R).length + 1) (condense (normalise g0) R) (Nat.lt_succ_self _)
      obtain ⟨⟨ls, rest⟩, hl⟩ := Option.isSome_iff_exists.mp hfuel
      have hrest : rest = [] :=
        layers_rest_nil _ _ _ _ (condense_closed _ R hcl hR) (condense_ranked _ R hcl hR) hl
      subst hrest
      simp [hl] at h
  · rintro ⟨hcc, a, b, hne, hab, hba⟩
    rcases topologicalSort_total g0 cc with ⟨ls, hls⟩ | ⟨_, h⟩
    · exfalso
      obtain ⟨_, _, _, _, hcyc⟩ := topologicalSort_ok hls
      have hka : a ∈ keys (normalise g0) := by
        cases hab with
        | refl => exact absurd rfl hne
        | step h1 _ => exact succs_mem_keys h1
      have hkb : b ∈ keys (normalise g0) := by
        cases hba with
        | refl => exact absurd rfl hne
        | step h1 _ => exact succs_mem_keys h1
      exact hne (hcyc hcc a hka b hkb hab hba)
    · exact h

end EupsModel.Topo
