import EupsModel.Lemmas.CondCorrect
import EupsModel.Lemmas.CondLex
/-! C11, block clause on classified lines: the repaired block state machine of `Table._read` followed by
`Table.actions` selects, for every table, the actions the table denotes. -/
namespace EupsModel.TableParse
open EupsModel.Cond EupsModel.C11Spec

/-- the condition clause in the form the block clause uses it -/
theorem evalCond_branch {env : Env} (hfl : flavorOK env.flavor = true) {b : Branch} (hb : b.ok = true) :
    evalCond env (fuelFor b.text) b.text = .ok (denote env b.cond.abs) := by
  simp only [Branch.ok, Bool.and_eq_true] at hb
  have hl := toks_length_le b.cond 0 hb.1
  simp only [Branch.text, evalCond, tokenize_expr b.cond hb.1 b.trail hb.2]
  apply evalToks_correct hfl b.cond hb.1
  simp only [fuelFor, List.length_append]
  omega

theorem evalCond_true (env : Env) : evalCond env (fuelFor sTrue) sTrue = .ok true := by rfl

/-! ## `Table.actions` -/

theorem repaired_d3' : repaired.d3 = true := rfl

theorem select_unconditional (env : Env) (b : List Action) : select repaired env (unconditional b) = .ok b := by
  simp [select, unconditional, repaired_d3', evalCond_true, Res.bind]

theorem actions_append {env : Env} {xs ys : List Chain} {a b : List Action}
    (hx : actions repaired env xs = .ok a) (hy : actions repaired env ys = .ok b) :
    actions repaired env (xs ++ ys) = .ok (a ++ b) := by
  induction xs generalizing a with
  | nil => simp only [actions] at hx; cases hx; simpa using hy
  | cons c cs ih =>
    simp only [actions, List.cons_append] at hx ⊢
    cases hs : select repaired env c with
    | ok s =>
      rw [hs] at hx; simp only [Res.bind] at hx ⊢
      cases hc : actions repaired env cs with
      | ok t =>
        rw [hc] at hx; simp only [Res.bind] at hx; cases hx
        rw [ih hc]; simp [Res.bind]
      | err e => rw [hc] at hx; simp [Res.bind] at hx
      | fuel => rw [hc] at hx; simp [Res.bind] at hx
    | err e => rw [hs] at hx; simp [Res.bind] at hx
    | fuel => rw [hs] at hx; simp [Res.bind] at hx

theorem actions_single {env : Env} {c : Chain} {a : List Action} (h : select repaired env c = .ok a) :
    actions repaired env [c] = .ok a := by
  simp [actions, h, Res.bind]

theorem repaired_d3 : repaired.d3 = true := rfl
theorem repaired_d4 : repaired.d4 = true := rfl

theorem select_last (env : Env) (c : Str) (as e : List Action) :
    select repaired env [.cond c, .blk as, .blk e] =
      (evalCond env (fuelFor c) c).bind fun t => if t then .ok as else .ok e := by
  simp [select, repaired_d3]

theorem select_more (env : Env) (c : Str) (as : List Action) (i1 i2 i3 : Item) (rest : Chain) :
    select repaired env (.cond c :: .blk as :: i1 :: i2 :: i3 :: rest) =
      (evalCond env (fuelFor c) c).bind fun t => if t then .ok as else select repaired env (i1 :: i2 :: i3 :: rest) := by
  rw [select]; simp [repaired_d3]
  all_goals (intro _ h; simp at h)

/-- the Python list `[logical1, block1, …, logicalN, blockN, elseBlock]` of a chain -/
def chainItems (brs : List Branch) (e : List Action) : Chain :=
  brs.flatMap (fun b => [.cond b.text, .blk b.body.acts]) ++ [.blk e]

/-- the `while LBB` loop picks the first branch whose condition holds, else the else block -/
theorem select_chain {env : Env} (hfl : flavorOK env.flavor = true) (e : List Action) :
    ∀ (b : Branch) (bs : List Branch), b.ok = true → bs.all Branch.ok = true →
      select repaired env (chainItems (b :: bs) e) = .ok (denoteBranches env (b :: bs) e) := by
  intro b bs
  induction bs generalizing b with
  | nil =>
    intro hb _
    have : chainItems [b] e = [.cond b.text, .blk b.body.acts, .blk e] := by simp [chainItems]
    rw [this, select_last, evalCond_branch hfl hb]
    simp only [Res.bind, denoteBranches]
    split <;> rfl
  | cons b' bs ih =>
    intro hb hbs
    simp only [List.all_cons, Bool.and_eq_true] at hbs
    have hrec := ih b' hbs.1 hbs.2
    have h3 : ∃ i3 rest, chainItems (b' :: bs) e = .cond b'.text :: .blk b'.body.acts :: i3 :: rest := by
      cases bs with
      | nil => exact ⟨.blk e, [], by simp [chainItems]⟩
      | cons b'' bs' => exact ⟨.cond b''.text, _, by simp [chainItems]; rfl⟩
    obtain ⟨i3, rest, h3⟩ := h3
    have : chainItems (b :: b' :: bs) e = .cond b.text :: .blk b.body.acts :: chainItems (b' :: bs) e := by
      simp [chainItems]
    rw [this, h3, select_more, ← h3, hrec, evalCond_branch hfl hb]
    simp only [Res.bind, denoteBranches]
    split <;> rfl

/-! ## the state machine on classified lines -/

theorem runL_append (st : RdState) (a b : List Line) :
    runL repaired st (a ++ b) = runL repaired (runL repaired st a) b := by
  simp [runL, List.foldl_append]

theorem runL_body (st : RdState) (body : Body) :
    runL repaired st body.lines = { st with block := st.block ++ body.acts } := by
  induction body generalizing st with
  | nil => simp [runL, Body.lines, Body.acts]
  | cons l ls ih =>
    have : Body.lines (l :: ls) = Body.lines [l] ++ Body.lines ls := by simp [Body.lines]
    rw [this, runL_append, ih]
    cases l <;> simp [runL, Body.lines, stepL, Body.acts]

def elifLines (es : List Branch) : List Line := es.flatMap (fun b => .blk (.elseIf b.text) :: b.body.lines)
def elseLines (els : Option Body) (lw : Bool) : List Line :=
  match els with
  | some b => .blk (.elseOpen lw) :: Body.lines b
  | none => []
def elseActs (els : Option Body) : List Action :=
  match els with
  | some b => b.acts
  | none => []

/-- from inside the first branches of a chain to its closing brace -/
theorem runL_rest (els : Option Body) (lw : Bool) (es : List Branch) :
    ∀ (st : RdState) (ch : Chain), st.chain = some ch → st.sawElse = false →
      runL repaired st (elifLines es ++ elseLines els lw ++ [.blk .close]) =
        { st with chain := none, block := [], sawElse := els.isSome,
                  acts := st.acts ++ [ch ++ [.blk st.block]
                    ++ es.flatMap (fun b => [.cond b.text, .blk b.body.acts]) ++ [.blk (elseActs els)]] } := by
  induction es with
  | nil =>
    intro st ch hch hsw
    cases els with
    | none => simp [elifLines, elseLines, elseActs, runL, stepL, repaired_d4, blockStep, hch, hsw]
    | some b =>
      have e : elifLines [] ++ elseLines (some b) lw ++ [Line.blk .close] =
          [Line.blk (.elseOpen lw)] ++ (Body.lines b ++ [Line.blk .close]) := by simp [elifLines, elseLines]
      rw [e, runL_append, runL_append, runL_body]
      simp [runL, stepL, repaired_d4, blockStep, hch, elseActs]
  | cons e es ih =>
    intro st ch hch hsw
    have eq : elifLines (e :: es) ++ elseLines els lw ++ [Line.blk .close] =
        [Line.blk (.elseIf e.text)] ++ (e.body.lines ++ (elifLines es ++ elseLines els lw ++ [Line.blk .close])) := by
      simp [elifLines]
    rw [eq, runL_append, runL_append, runL_body]
    rw [ih _ (ch ++ [.blk st.block, .cond e.text]) (by simp [runL, stepL, repaired_d4, blockStep, hch])
      (by simp [runL, stepL, repaired_d4, blockStep, hch, hsw])]
    simp [runL, stepL, repaired_d4, blockStep, hch, List.append_assoc]

/-- the invariant between items: no chain is open, and what has been read so far yields `d` -/
def Done (env : Env) (st : RdState) (d : List Action) : Prop :=
  st.chain = none ∧ ∃ a, actions repaired env st.acts = .ok a ∧ d = a ++ st.block

theorem item_lines_chain (f : Branch) (es : List Branch) (els : Option Body) (lw : Bool) :
    (TItem.chain f es els lw).lines =
      [Line.blk (.ifOpen f.text)] ++ (f.body.lines ++ (elifLines es ++ elseLines els lw ++ [Line.blk .close])) := by
  cases els <;> simp [TItem.lines, elifLines, elseLines]

theorem done_item {env : Env} (hfl : flavorOK env.flavor = true) {st : RdState} {d : List Action}
    (hd : Done env st d) (it : TItem) (hok : it.ok = true) :
    Done env (runL repaired st it.lines) (d ++ denoteItem env it) := by
  obtain ⟨hch, a, ha, rfl⟩ := hd
  cases it with
  | line l =>
    cases l with
    | none => exact ⟨by simpa [TItem.lines, Body.lines, runL, stepL] using hch, a, by simpa [TItem.lines, Body.lines, runL, stepL] using ha,
        by simp [TItem.lines, Body.lines, runL, stepL, denoteItem]⟩
    | some x => exact ⟨by simpa [TItem.lines, Body.lines, runL, stepL] using hch, a, by simpa [TItem.lines, Body.lines, runL, stepL] using ha,
        by simp [TItem.lines, Body.lines, runL, stepL, denoteItem]⟩
  | chain f es els lw =>
    simp only [TItem.ok, Bool.and_eq_true] at hok
    -- the state after `if (…) {`
    let acts' := if st.block.isEmpty then st.acts else st.acts ++ [unconditional st.block]
    have hacts' : actions repaired env acts' = .ok (a ++ st.block) := by
      simp only [acts']
      split
      · rename_i he; rw [List.isEmpty_iff.mp he]; simpa using ha
      · exact actions_append ha (actions_single (select_unconditional env st.block))
    have h1 : runL repaired st [Line.blk (.ifOpen f.text)] =
        { st with chain := some [.cond f.text], sawElse := false, block := [], acts := acts' } := by
      simp only [runL, List.foldl_cons, List.foldl_nil, stepL, repaired_d4, if_true, blockStep, hch, acts']
      split <;> rfl
    rw [item_lines_chain, runL_append, h1, runL_append, runL_body,
      runL_rest els lw es _ [.cond f.text] rfl rfl]
    refine ⟨rfl, a ++ st.block ++ denoteItem env (.chain f es els lw), ?_, by simp⟩
    have hsel := select_chain hfl (elseActs els) f es hok.1 hok.2
    have hci : chainItems (f :: es) (elseActs els) =
        [Item.cond f.text] ++ [Item.blk ([] ++ f.body.acts)]
          ++ es.flatMap (fun b => [Item.cond b.text, Item.blk b.body.acts]) ++ [Item.blk (elseActs els)] := by
      simp [chainItems]
    have hden : denoteItem env (.chain f es els lw) = denoteBranches env (f :: es) (elseActs els) := by
      cases els <;> rfl
    rw [hden]
    exact actions_append hacts' (actions_single (hci ▸ hsel))

theorem done_items {env : Env} (hfl : flavorOK env.flavor = true) (t : List TItem) (hok : t.all TItem.ok = true) :
    ∀ {st : RdState} {d : List Action}, Done env st d →
      Done env (runL repaired st (tableLines t)) (d ++ denoteTable env t) := by
  induction t with
  | nil => intro st d hd; simpa [tableLines, denoteTable, runL] using hd
  | cons it its ih =>
    intro st d hd
    simp only [List.all_cons, Bool.and_eq_true] at hok
    have h1 := done_item hfl hd it hok.1
    have h2 := ih hok.2 h1
    simpa [tableLines, denoteTable, runL_append, List.append_assoc] using h2

theorem done_finish {env : Env} {st : RdState} {d : List Action} (hd : Done env st d) :
    actions repaired env (finish repaired st) = .ok d := by
  obtain ⟨hch, a, ha, rfl⟩ := hd
  simp only [finish, repaired_d4, if_true, hch]
  split
  · rename_i he; rw [List.isEmpty_iff.mp he]; simpa using ha
  · exact actions_append ha (actions_single (select_unconditional env st.block))

/-- Block clause on classified lines: reading the lines of a table and selecting branches for a flavor and a
list of setup types yields the actions the table denotes. -/
theorem blocks_lines {env : Env} (hfl : flavorOK env.flavor = true) (t : List TItem) (hok : t.all TItem.ok = true) :
    actions repaired env (finish repaired (runL repaired {} (tableLines t))) = .ok (denoteTable env t) := by
  have h0 : Done env {} [] := ⟨rfl, [], rfl, rfl⟩
  simpa using done_finish (done_items hfl t hok h0)

end EupsModel.TableParse
