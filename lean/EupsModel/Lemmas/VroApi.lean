import EupsModel.Model.VroApi
/-! Print/parse theorems for the tag-file reader `tagFileLine` / `tagFileVersion`
(`Eups._findTaggedProductFromFile`): the reader reads back what a writer wrote. -/
namespace EupsModel.Vro

/-- a word: non-empty, no blank -/
def IsWord (w : Str) : Prop := w ≠ [] ∧ ∀ c ∈ w, Str.isSpace c = false

/-- a run of blanks (possibly empty) -/
def IsBlank (bs : Str) : Prop := ∀ c ∈ bs, Str.isSpace c = true

/-- `r` is empty or starts with a blank -/
def BlankHead (r : Str) : Prop := ∀ c ∈ r.head?, Str.isSpace c = true

theorem blankHead_nil : BlankHead [] := by simp [BlankHead]

theorem blankHead_cons {c : Nat} {r : Str} (h : Str.isSpace c = true) : BlankHead (c :: r) := by
  simp [BlankHead, h]

theorem isSpace_ne {c d : Nat} (h : Str.isSpace c = true) (hd : Str.isSpace d = false) : c ≠ d := by
  rintro rfl; simp [h] at hd

theorem notSpace_ne {c d : Nat} (h : Str.isSpace c = false) (hd : Str.isSpace d = true) : c ≠ d := by
  rintro rfl; simp [h] at hd

/-! ## `stripLead`, `stripTrail` -/

theorem stripLead_append (lead s : Str) (h : ∀ c ∈ lead, (c == 124 || Str.isSpace c) = true) :
    stripLead (lead ++ s) = stripLead s := by
  induction lead with
  | nil => rfl
  | cons c cs ih =>
    have hc := h c (by simp)
    simp only [List.cons_append, stripLead, hc, if_true]
    exact ih (fun x hx => h x (List.mem_cons_of_mem _ hx))

theorem stripLead_cons {c : Nat} (cs : Str) (h : (c == 124 || Str.isSpace c) = false) :
    stripLead (c :: cs) = c :: cs := by
  simp [stripLead, h]

theorem skipSpaces_append_of_ne_nil (x y : Str) (h : skipSpaces x ≠ []) :
    skipSpaces (x ++ y) = skipSpaces x ++ y := by
  induction x with
  | nil => simp [skipSpaces] at h
  | cons c cs ih =>
    by_cases hc : Str.isSpace c = true
    · simp only [List.cons_append, skipSpaces, hc, if_true] at h ⊢
      exact ih h
    · simp [skipSpaces, hc]

theorem skipSpaces_blank (bs y : Str) (h : IsBlank bs) : skipSpaces (bs ++ y) = skipSpaces y := by
  induction bs with
  | nil => rfl
  | cons c cs ih =>
    simp only [List.cons_append, skipSpaces, h c (by simp), if_true]
    exact ih (fun x hx => h x (List.mem_cons_of_mem _ hx))

theorem stripTrail_nil : stripTrail [] = [] := rfl

theorem stripTrail_append_of_ne_nil (a r : Str) (h : stripTrail r ≠ []) :
    stripTrail (a ++ r) = a ++ stripTrail r := by
  unfold stripTrail at h ⊢
  have h' : skipSpaces r.reverse ≠ [] := by
    intro h0; rw [h0] at h; exact h rfl
  rw [List.reverse_append, skipSpaces_append_of_ne_nil _ _ h', List.reverse_append, List.reverse_reverse]

theorem stripTrail_cons {c : Nat} (r : Str) (h : Str.isSpace c = false) :
    stripTrail (c :: r) = c :: stripTrail r := by
  by_cases hr : stripTrail r = []
  · unfold stripTrail at hr ⊢
    have h0 : skipSpaces r.reverse = [] := by
      have := congrArg List.reverse hr; simpa using this
    rw [List.reverse_cons]
    by_cases hb : skipSpaces (r.reverse ++ [c]) = skipSpaces [c]
    · rw [hb, h0]; simp [skipSpaces, h]
    · exfalso; apply hb
      clear hr hb
      generalize r.reverse = x at h0
      induction x with
      | nil => rfl
      | cons d ds ih =>
        by_cases hd : Str.isSpace d = true
        · simp only [List.cons_append, skipSpaces, hd, if_true] at h0 ⊢
          exact ih h0
        · simp [skipSpaces, hd] at h0
  · exact stripTrail_append_of_ne_nil [c] r hr

theorem stripTrail_word_append (w r : Str) (hw : ∀ c ∈ w, Str.isSpace c = false) :
    stripTrail (w ++ r) = w ++ stripTrail r := by
  induction w with
  | nil => rfl
  | cons c cs ih =>
    rw [List.cons_append, stripTrail_cons _ (hw c (by simp)), ih (fun x hx => hw x (List.mem_cons_of_mem _ hx))]
    rfl

theorem stripTrail_blank (bs : Str) (h : IsBlank bs) : stripTrail bs = [] := by
  unfold stripTrail
  have : skipSpaces bs.reverse = [] := by
    have := skipSpaces_blank bs.reverse [] (fun c hc => h c (by simpa using hc))
    simpa [skipSpaces] using this
  rw [this]; rfl

/-- `stripTrail` removes a suffix -/
theorem stripTrail_prefix (r : Str) : ∃ bs, r = stripTrail r ++ bs := by
  unfold stripTrail
  have : ∀ x : Str, ∃ bs, x = bs ++ skipSpaces x := by
    intro x
    induction x with
    | nil => exact ⟨[], rfl⟩
    | cons c cs ih =>
      by_cases hc : Str.isSpace c = true
      · obtain ⟨bs, hbs⟩ := ih
        refine ⟨c :: bs, ?_⟩
        simp only [skipSpaces, hc, if_true, List.cons_append]
        rw [← hbs]
      · exact ⟨[], by simp [skipSpaces, hc]⟩
  obtain ⟨bs, hbs⟩ := this r.reverse
  refine ⟨bs.reverse, ?_⟩
  have := congrArg List.reverse hbs
  simpa using this

theorem blankHead_stripTrail {r : Str} (h : BlankHead r) : BlankHead (stripTrail r) := by
  obtain ⟨bs, hbs⟩ := stripTrail_prefix r
  cases hs : stripTrail r with
  | nil => exact blankHead_nil
  | cons c t =>
    rw [hs] at hbs
    rw [hbs] at h
    exact blankHead_cons (h c (by simp))

/-! ## `splitWs` -/

theorem splitWsGo_word (cur w r : Str) (hw : ∀ c ∈ w, Str.isSpace c = false) :
    splitWsGo cur (w ++ r) = splitWsGo (w.reverse ++ cur) r := by
  induction w generalizing cur with
  | nil => rfl
  | cons c cs ih =>
    simp only [List.cons_append, splitWsGo, hw c (by simp), Bool.false_eq_true, if_false]
    rw [ih _ (fun x hx => hw x (List.mem_cons_of_mem _ hx))]
    simp

theorem splitWs_blank_append (bs r : Str) (h : IsBlank bs) : splitWs (bs ++ r) = splitWs r := by
  unfold splitWs
  induction bs with
  | nil => rfl
  | cons c cs ih =>
    simp only [List.cons_append, splitWsGo, h c (by simp), if_true, flushTok]
    simpa using ih (fun x hx => h x (List.mem_cons_of_mem _ hx))

theorem splitWs_nil : splitWs [] = [] := rfl

theorem splitWs_blank (bs : Str) (h : IsBlank bs) : splitWs bs = [] := by
  have := splitWs_blank_append bs [] h
  rw [List.append_nil] at this
  exact this.trans splitWs_nil

/-- a word, followed by nothing or a blank, is the first field -/
theorem splitWs_word_append (w r : Str) (hw : IsWord w) (hr : BlankHead r) :
    splitWs (w ++ r) = w :: splitWs r := by
  unfold splitWs
  rw [splitWsGo_word [] w r hw.2]
  have hft : flushTok (w.reverse ++ []) = [w] := by simp [flushTok, hw.1]
  cases r with
  | nil => simp only [splitWsGo, hft]; rfl
  | cons b t =>
    have hb : Str.isSpace b = true := hr b (by simp)
    simp only [splitWsGo, hb, if_true, hft]
    rfl

theorem splitWs_two (p sep v r : Str) (hp : IsWord p) (hsep : IsBlank sep) (hsep0 : sep ≠ []) (hv : IsWord v)
    (hr : BlankHead r) : splitWs (p ++ sep ++ v ++ r) = p :: v :: splitWs r := by
  have hbh : BlankHead (sep ++ (v ++ r)) := by
    cases sep with
    | nil => exact absurd rfl hsep0
    | cons b t => exact blankHead_cons (hsep b (by simp))
  rw [List.append_assoc, List.append_assoc, splitWs_word_append p _ hp hbh, splitWs_blank_append _ _ hsep,
    splitWs_word_append v r hv hr]

/-! ## one line -/

theorem isPrefixOf_append_blank (k p r : Str) (b : Nat) (hb : b ∉ k) (h : k.isPrefixOf p = false) :
    k.isPrefixOf (p ++ b :: r) = false := by
  induction k generalizing p with
  | nil => simp at h
  | cons a k ih =>
    cases p with
    | nil =>
      have : a ≠ b := fun e => hb (by simp [e])
      simp [List.isPrefixOf, this]
    | cons c p =>
      simp only [List.cons_append, List.isPrefixOf, Bool.and_eq_false_iff] at h ⊢
      rcases h with h | h
      · exact Or.inl h
      · exact Or.inr (ih p (fun hm => hb (List.mem_cons_of_mem _ hm)) h)

theorem tagFileLineWith_plain (d : Str → Str) (line l p v : Str) (t : List Str)
    (hl : stripTrail (stripLead line) = l) (hne : l ≠ []) (hc : l.head? ≠ some 35)
    (hk : kSetupRequiredParen.isPrefixOf l = false) (hs : splitWs l = p :: v :: t) :
    tagFileLineWith d line = .ok (some (p, v)) := by
  unfold tagFileLineWith
  simp only [hl]
  have h1 : (l.isEmpty || l.head? == some 35) = false := by
    cases l with
    | nil => exact absurd rfl hne
    | cons a t => simpa using hc
  simp [h1, hk, hs]

/-! ## (T1) plain lines -/

/-- the side conditions on the product name of a plain `product version` line -/
structure PlainName (p : Str) : Prop where
  word : IsWord p
  notHash : p.head? ≠ some 35
  notBar : p.head? ≠ some 124
  notSetup : kSetupRequiredParen.isPrefixOf p = false

/-- what `^[|\s]*` removes -/
def IsLead (lead : Str) : Prop := ∀ c ∈ lead, (c == 124 || Str.isSpace c) = true

theorem kSetupRequiredParen_noBlank : ∀ c ∈ kSetupRequiredParen, Str.isSpace c = false := by decide

theorem tagFileLineWith_plain_gen (d : Str → Str) (lead p sep v rest : Str) (hp : PlainName p) (hv : IsWord v)
    (hlead : IsLead lead) (hsep : IsBlank sep) (hsep0 : sep ≠ []) (hrest : BlankHead rest) :
    tagFileLineWith d (lead ++ p ++ sep ++ v ++ rest) = .ok (some (p, v)) := by
  obtain ⟨hpw, hp35, hp124, hpk⟩ := hp
  have hr' := blankHead_stripTrail hrest
  have hvr : stripTrail (v ++ rest) = v ++ stripTrail rest := stripTrail_word_append v rest hv.2
  have hvne : stripTrail (v ++ rest) ≠ [] := by
    rw [hvr]; intro h; exact hv.1 (List.append_eq_nil_iff.mp h).1
  have hl : stripTrail (stripLead (lead ++ p ++ sep ++ v ++ rest)) = p ++ sep ++ v ++ stripTrail rest := by
    have e : lead ++ p ++ sep ++ v ++ rest = lead ++ (p ++ sep ++ v ++ rest) := by simp
    rw [e, stripLead_append _ _ hlead]
    cases p with
    | nil => exact absurd rfl hpw.1
    | cons a p' =>
      have ha : (a == 124 || Str.isSpace a) = false := by
        have h1 : a ≠ 124 := by simpa using hp124
        have h2 := hpw.2 a (by simp)
        simp [h1, h2]
      rw [show a :: p' ++ sep ++ v ++ rest = a :: (p' ++ sep ++ v ++ rest) by simp, stripLead_cons _ ha]
      rw [show a :: (p' ++ sep ++ v ++ rest) = (a :: p' ++ sep) ++ (v ++ rest) by simp,
        stripTrail_append_of_ne_nil _ _ hvne, hvr]
      simp
  apply tagFileLineWith_plain d _ _ p v (splitWs (stripTrail rest)) hl
  · intro h; simp at h; exact hpw.1 h.1
  · cases p with
    | nil => exact absurd rfl hpw.1
    | cons a p' => simpa using hp35
  · cases sep with
    | nil => exact absurd rfl hsep0
    | cons b sep' =>
      have hb : b ∉ kSetupRequiredParen := fun hm => by
        have := kSetupRequiredParen_noBlank b hm
        rw [hsep b (by simp)] at this; cases this
      have := isPrefixOf_append_blank kSetupRequiredParen p (sep' ++ v ++ stripTrail rest) b hb hpk
      simpa using this
  · exact splitWs_two p sep v _ hpw hsep hsep0 hv hr'

/-- (T1), general form: leading `|`/blanks, any blank run between the two words, anything behind a further blank -/
theorem tagFileLine_plain_gen (lead p sep v rest : Str) (hp : PlainName p) (hv : IsWord v)
    (hlead : IsLead lead) (hsep : IsBlank sep) (hsep0 : sep ≠ []) (hrest : BlankHead rest) :
    tagFileLine (lead ++ p ++ sep ++ v ++ rest) = .ok (some (p, v)) :=
  tagFileLineWith_plain_gen dropOptions lead p sep v rest hp hv hlead hsep hsep0 hrest

/-- (T1), simple form -/
theorem tagFileLine_plain (p v : Str) (hp : PlainName p) (hv : IsWord v) :
    tagFileLine (p ++ [32] ++ v) = .ok (some (p, v)) := by
  have := tagFileLine_plain_gen [] p [32] v [] hp hv (by simp [IsLead]) (by simp [IsBlank, Str.isSpace]) (by simp)
    blankHead_nil
  simpa using this

/-- the line as `tagFileVersion` sees it, with its newline -/
theorem tagFileLine_plain_nl (p v : Str) (hp : PlainName p) (hv : IsWord v) :
    tagFileLine (p ++ [32] ++ v ++ [10]) = .ok (some (p, v)) := by
  have := tagFileLine_plain_gen [] p [32] v [10] hp hv (by simp [IsLead]) (by simp [IsBlank, Str.isSpace]) (by simp)
    (blankHead_cons (by decide))
  simpa using this

/-! ## `dropOptions` -/

/-- the scanner is at a word start -/
def OptState.AtStart (s : OptState) : Prop := s = .start ∨ s = .inWs

/-- the scanner is copying (no option pending, none just removed) -/
def OptState.Plain (s : OptState) : Prop := s = .start ∨ s = .mid

theorem dropOptionsGo_mid_word (w r : Str) (hw : ∀ c ∈ w, Str.isSpace c = false) :
    dropOptionsGo .mid (w ++ r) = w ++ dropOptionsGo .mid r := by
  induction w with
  | nil => rfl
  | cons c cs ih =>
    simp only [List.cons_append, dropOptionsGo, hw c (by simp), Bool.false_eq_true, if_false]
    rw [ih (fun x hx => hw x (List.mem_cons_of_mem _ hx))]

/-- a word that does not start with `-` is copied -/
theorem dropOptionsGo_atStart_word (s : OptState) (hs : s.AtStart) (w r : Str) (hw : IsWord w)
    (h45 : w.head? ≠ some 45) : dropOptionsGo s (w ++ r) = w ++ dropOptionsGo .mid r := by
  cases w with
  | nil => exact absurd rfl hw.1
  | cons a w' =>
    have ha : (a == 45) = false := by simpa using h45
    have hsp := hw.2 a (by simp)
    have hw' : ∀ c ∈ w', Str.isSpace c = false := fun x hx => hw.2 x (List.mem_cons_of_mem _ hx)
    rcases hs with rfl | rfl <;>
      simp only [List.cons_append, dropOptionsGo, ha, hsp, Bool.false_eq_true, if_false] <;>
      rw [dropOptionsGo_mid_word w' r hw']

theorem dropOptionsGo_plain_blank (s : OptState) (hs : s.Plain) (b : Nat) (r : Str) (hb : Str.isSpace b = true) :
    dropOptionsGo s (b :: r) = b :: dropOptionsGo .start r := by
  have h45 : (b == 45) = false := by
    have : b ≠ 45 := isSpace_ne hb (by decide)
    simpa using this
  rcases hs with rfl | rfl <;> simp [dropOptionsGo, h45, hb]

theorem dropOptionsGo_start_blanks (bs r : Str) (hb : IsBlank bs) :
    dropOptionsGo .start (bs ++ r) = bs ++ dropOptionsGo .start r := by
  induction bs with
  | nil => rfl
  | cons b bs ih =>
    rw [List.cons_append, dropOptionsGo_plain_blank _ (Or.inl rfl) b _ (hb b (by simp)),
      ih (fun x hx => hb x (List.mem_cons_of_mem _ hx))]
    rfl

theorem dropOptionsGo_plain_blanks (s : OptState) (hs : s.Plain) (bs r : Str) (hb : IsBlank bs) :
    ∃ s' : OptState, s'.Plain ∧ dropOptionsGo s (bs ++ r) = bs ++ dropOptionsGo s' r := by
  cases bs with
  | nil => exact ⟨s, hs, rfl⟩
  | cons b bs =>
    refine ⟨.start, Or.inl rfl, ?_⟩
    rw [List.cons_append, dropOptionsGo_plain_blank _ hs b _ (hb b (by simp)),
      dropOptionsGo_start_blanks bs r (fun x hx => hb x (List.mem_cons_of_mem _ hx))]
    rfl

theorem dropOptionsGo_plain_blanks_ne (s : OptState) (hs : s.Plain) (bs r : Str) (hb : IsBlank bs) (h0 : bs ≠ []) :
    dropOptionsGo s (bs ++ r) = bs ++ dropOptionsGo .start r := by
  cases bs with
  | nil => exact absurd rfl h0
  | cons b bs =>
    rw [List.cons_append, dropOptionsGo_plain_blank _ hs b _ (hb b (by simp)),
      dropOptionsGo_start_blanks bs r (fun x hx => hb x (List.mem_cons_of_mem _ hx))]
    rfl

theorem dropOptionsGo_plain_nil (s : OptState) (hs : s.Plain) : dropOptionsGo s [] = [] := by
  rcases hs with rfl | rfl <;> rfl

theorem dropOptionsGo_inOpt_word (buf w r : Str) (b : Nat) (hw : ∀ c ∈ w, Str.isSpace c = false)
    (hb : Str.isSpace b = true) (hlen : 2 ≤ buf.length + w.length) :
    dropOptionsGo (.inOpt buf) (w ++ b :: r) = dropOptionsGo .inWs r := by
  induction w generalizing buf with
  | nil =>
    have : 2 ≤ buf.length := by simpa using hlen
    simp [dropOptionsGo, hb, this]
  | cons c cs ih =>
    simp only [List.cons_append, dropOptionsGo, hw c (by simp), Bool.false_eq_true, if_false]
    apply ih _ (fun x hx => hw x (List.mem_cons_of_mem _ hx))
    simp only [List.length_cons] at hlen ⊢
    omega

/-- an option word inside `setupRequired(...)`: starts with `-`, at least two characters, no blank, no `)` -/
structure IsOpt (o : Str) : Prop where
  dash : o.head? = some 45
  two : 2 ≤ o.length
  noBlank : ∀ c ∈ o, Str.isSpace c = false
  noParen : 41 ∉ o

/-- an option word and a blank behind it are removed -/
theorem dropOptionsGo_atStart_opt (s : OptState) (hs : s.AtStart) (o r : Str) (b : Nat) (ho : IsOpt o)
    (hb : Str.isSpace b = true) : dropOptionsGo s (o ++ b :: r) = dropOptionsGo .inWs r := by
  obtain ⟨hd, h2, hnb, _⟩ := ho
  cases o with
  | nil => simp at hd
  | cons a o' =>
    have ha : a = 45 := by simpa using hd
    subst ha
    have hw' : ∀ c ∈ o', Str.isSpace c = false := fun x hx => hnb x (List.mem_cons_of_mem _ hx)
    have hlen : 2 ≤ [45].length + o'.length := by simp only [List.length_cons] at h2 ⊢; simp; omega
    have h45 : Str.isSpace 45 = false := by decide
    rcases hs with rfl | rfl
    · simp only [List.cons_append, dropOptionsGo, beq_self_eq_true, if_true]
      exact dropOptionsGo_inOpt_word [45] o' r b hw' hb hlen
    · simp only [List.cons_append, dropOptionsGo, h45, Bool.false_eq_true, if_false, beq_self_eq_true, if_true]
      exact dropOptionsGo_inOpt_word [45] o' r b hw' hb hlen

/-- option words as a writer puts them: each followed by one space -/
def optsText (opts : List Str) : Str := opts.flatMap (· ++ [32])

theorem dropOptionsGo_optsText (s : OptState) (hs : s.AtStart) (opts : List Str) (r : Str)
    (ho : ∀ o ∈ opts, IsOpt o) :
    ∃ s' : OptState, s'.AtStart ∧ dropOptionsGo s (optsText opts ++ r) = dropOptionsGo s' r := by
  induction opts generalizing s with
  | nil => exact ⟨s, hs, rfl⟩
  | cons o os ih =>
    obtain ⟨s', hs', h'⟩ := ih .inWs (Or.inr rfl) (fun x hx => ho x (List.mem_cons_of_mem _ hx))
    refine ⟨s', hs', ?_⟩
    have e : optsText (o :: os) ++ r = o ++ 32 :: (optsText os ++ r) := by simp [optsText]
    rw [e, dropOptionsGo_atStart_opt s hs o _ 32 (ho o (by simp)) (by decide), h']

/-- option words in general: each followed by a non-empty run of blanks -/
inductive IsOptsText : Str → Prop
  | nil : IsOptsText []
  | cons (o bs rest : Str) : IsOpt o → IsBlank bs → bs ≠ [] → IsOptsText rest → IsOptsText (o ++ bs ++ rest)

theorem dropOptionsGo_inWs_blanks (bs r : Str) (hb : IsBlank bs) :
    dropOptionsGo .inWs (bs ++ r) = dropOptionsGo .inWs r := by
  induction bs with
  | nil => rfl
  | cons b bs ih =>
    simp only [List.cons_append, dropOptionsGo, hb b (by simp), if_true]
    exact ih (fun x hx => hb x (List.mem_cons_of_mem _ hx))

theorem dropOptionsGo_isOptsText (s : OptState) (hs : s.AtStart) (ot r : Str) (ho : IsOptsText ot) :
    ∃ s' : OptState, s'.AtStart ∧ dropOptionsGo s (ot ++ r) = dropOptionsGo s' r := by
  induction ho generalizing s with
  | nil => exact ⟨s, hs, rfl⟩
  | cons o bs rest hopt hbs hbs0 _ ih =>
    obtain ⟨s', hs', h'⟩ := ih .inWs (Or.inr rfl)
    refine ⟨s', hs', ?_⟩
    cases bs with
    | nil => exact absurd rfl hbs0
    | cons b bs' =>
      have e : o ++ b :: bs' ++ rest ++ r = o ++ b :: (bs' ++ (rest ++ r)) := by simp
      rw [e, dropOptionsGo_atStart_opt s hs o _ b hopt (hbs b (by simp)),
        dropOptionsGo_inWs_blanks bs' _ (fun x hx => hbs x (List.mem_cons_of_mem _ hx)), h']

theorem isOptsText_optsText (opts : List Str) (ho : ∀ o ∈ opts, IsOpt o) : IsOptsText (optsText opts) := by
  induction opts with
  | nil => exact .nil
  | cons o os ih =>
    have e : optsText (o :: os) = o ++ [32] ++ optsText os := by simp [optsText]
    rw [e]
    exact .cons o [32] _ (ho o (by simp)) (by simp [IsBlank, Str.isSpace]) (by simp)
      (ih (fun x hx => ho x (List.mem_cons_of_mem _ hx)))

theorem IsOptsText.noParen {ot : Str} (h : IsOptsText ot) : 41 ∉ ot := by
  induction h with
  | nil => simp
  | cons o bs rest hopt hbs _ _ ih =>
    have hbs41 : 41 ∉ bs := fun hm => isSpace_ne (hbs 41 hm) (by decide) rfl
    simp [hopt.noParen, hbs41, ih]

/-- whatever the scanner does to a text without `]`, a `]` at the very end stays at the end -/
theorem dropOptionsGo_close (s : OptState) (t : Str) (ht : 93 ∉ t) (hs : ∀ buf, s = .inOpt buf → 93 ∉ buf) :
    ∃ y, dropOptionsGo s (t ++ [93]) = y ++ [93] ∧ 93 ∉ y := by
  have h93 : Str.isSpace 93 = false := by decide
  induction t generalizing s with
  | nil =>
    cases s with
    | start => exact ⟨[], by simp [dropOptionsGo, h93], by simp⟩
    | mid => exact ⟨[], by simp [dropOptionsGo, h93], by simp⟩
    | inWs => exact ⟨[], by simp [dropOptionsGo, h93], by simp⟩
    | inOpt buf => exact ⟨buf.reverse, by simp [dropOptionsGo, h93], by simpa using hs buf rfl⟩
  | cons c t ih =>
    have hc : 93 ≠ c := fun e => ht (by simp [e])
    have ht' : 93 ∉ t := fun hm => ht (List.mem_cons_of_mem _ hm)
    have hplain : ∀ s' : OptState, s'.Plain → ∃ y, dropOptionsGo s' (t ++ [93]) = y ++ [93] ∧ 93 ∉ y := by
      intro s' hs'
      apply ih s' ht'
      intro buf hb; rcases hs' with rfl | rfl <;> cases hb
    have hif : ∃ y, dropOptionsGo (if Str.isSpace c = true then .start else .mid) (t ++ [93]) = y ++ [93] ∧ 93 ∉ y := by
      by_cases hsp : Str.isSpace c = true
      · simp only [hsp, if_true]; exact hplain _ (Or.inl rfl)
      · simp only [Bool.false_eq_true, hsp, if_false]; exact hplain _ (Or.inr rfl)
    have hopt : ∃ y, dropOptionsGo (.inOpt [45]) (t ++ [93]) = y ++ [93] ∧ 93 ∉ y := by
      apply ih _ ht'
      intro buf hb; cases hb; simp
    have hws : ∃ y, dropOptionsGo .inWs (t ++ [93]) = y ++ [93] ∧ 93 ∉ y := by
      apply ih _ ht'
      intro buf hb; cases hb
    cases s with
    | start =>
      by_cases h45 : (c == 45) = true
      · simp only [List.cons_append, dropOptionsGo, h45, if_true]; exact hopt
      · obtain ⟨y, hy, hy'⟩ := hif
        refine ⟨c :: y, ?_, by simp [hc, hy']⟩
        simp only [Bool.false_eq_true, List.cons_append, dropOptionsGo, h45, if_false, hy]
    | mid =>
      obtain ⟨y, hy, hy'⟩ := hif
      refine ⟨c :: y, ?_, by simp [hc, hy']⟩
      simp only [List.cons_append, dropOptionsGo, hy]
    | inWs =>
      by_cases hsp : Str.isSpace c = true
      · simp only [List.cons_append, dropOptionsGo, hsp, if_true]; exact hws
      · by_cases h45 : (c == 45) = true
        · simp only [Bool.false_eq_true, List.cons_append, dropOptionsGo, hsp, h45, if_true, if_false]; exact hopt
        · obtain ⟨y, hy, hy'⟩ := hplain .mid (Or.inr rfl)
          refine ⟨c :: y, ?_, by simp [hc, hy']⟩
          simp only [Bool.false_eq_true, List.cons_append, dropOptionsGo, hsp, h45, if_false, hy]
    | inOpt buf =>
      have hbuf : 93 ∉ buf := hs buf rfl
      by_cases hsp : Str.isSpace c = true
      · by_cases h2 : 2 ≤ buf.length
        · simp only [List.cons_append, dropOptionsGo, hsp, h2, if_true]; exact hws
        · obtain ⟨y, hy, hy'⟩ := hplain .start (Or.inl rfl)
          refine ⟨buf.reverse ++ c :: y, ?_, by simp [hc, hy', hbuf]⟩
          simp only [List.cons_append, dropOptionsGo, hsp, h2, if_true, if_false, hy]
          simp
      · simp only [Bool.false_eq_true, List.cons_append, dropOptionsGo, hsp, if_false]
        apply ih _ ht'
        intro buf' hb; cases hb; simp [hc, hbuf]

/-- a bracket `[x]` at the very end of the text keeps its brackets and a non-empty body -/
theorem dropOptionsGo_plain_bracket (s : OptState) (hs : s.Plain) (x : Str) (hx0 : x ≠ []) (hx : 93 ∉ x) :
    ∃ y, y ≠ [] ∧ 93 ∉ y ∧ dropOptionsGo s (91 :: x ++ [93]) = 91 :: y ++ [93] := by
  cases x with
  | nil => exact absurd rfl hx0
  | cons c t =>
    have hc : 93 ≠ c := fun e => hx (by simp [e])
    have ht' : 93 ∉ t := fun hm => hx (List.mem_cons_of_mem _ hm)
    have h91 : Str.isSpace 91 = false := by decide
    obtain ⟨y, hy, hy'⟩ : ∃ y, dropOptionsGo (if Str.isSpace c = true then .start else .mid) (t ++ [93])
        = y ++ [93] ∧ 93 ∉ y := by
      apply dropOptionsGo_close _ t ht'
      intro buf hb; by_cases hsp : Str.isSpace c = true <;> simp [hsp] at hb
    refine ⟨c :: y, by simp, by simp [hc, hy'], ?_⟩
    rcases hs with rfl | rfl <;> simp [dropOptionsGo, h91, hy]

/-! ## `dropBrackets` -/

theorem dropBracketsGo_char (ws : Str) (c : Nat) (r : Str) (hsp : Str.isSpace c = false) (h91 : c ≠ 91) :
    dropBracketsGo (.normal ws) (c :: r) = ws.reverse ++ c :: dropBracketsGo (.normal []) r := by
  have : (c == 91) = false := by simpa using h91
  simp [dropBracketsGo, hsp, this]

theorem dropBracketsGo_noBlank (w r : Str) (hw : ∀ c ∈ w, Str.isSpace c = false) (h91 : 91 ∉ w) :
    dropBracketsGo (.normal []) (w ++ r) = w ++ dropBracketsGo (.normal []) r := by
  induction w with
  | nil => rfl
  | cons c cs ih =>
    have hc : c ≠ 91 := fun e => h91 (by simp [e])
    rw [List.cons_append, dropBracketsGo_char [] c _ (hw c (by simp)) hc,
      ih (fun x hx => hw x (List.mem_cons_of_mem _ hx)) (fun hm => h91 (List.mem_cons_of_mem _ hm))]
    rfl

/-- a word without `[` is copied, with the blanks read before it -/
theorem dropBracketsGo_word (ws w r : Str) (hw : IsWord w) (h91 : 91 ∉ w) :
    dropBracketsGo (.normal ws) (w ++ r) = ws.reverse ++ w ++ dropBracketsGo (.normal []) r := by
  cases w with
  | nil => exact absurd rfl hw.1
  | cons c cs =>
    have hc : c ≠ 91 := fun e => h91 (by simp [e])
    rw [List.cons_append, dropBracketsGo_char ws c _ (hw.2 c (by simp)) hc,
      dropBracketsGo_noBlank cs r (fun x hx => hw.2 x (List.mem_cons_of_mem _ hx))
        (fun hm => h91 (List.mem_cons_of_mem _ hm))]
    simp

theorem dropBracketsGo_blanks (ws bs r : Str) (hb : IsBlank bs) :
    dropBracketsGo (.normal ws) (bs ++ r) = dropBracketsGo (.normal (bs.reverse ++ ws)) r := by
  induction bs generalizing ws with
  | nil => rfl
  | cons b bs ih =>
    simp only [List.cons_append, dropBracketsGo, hb b (by simp), if_true]
    rw [ih _ (fun x hx => hb x (List.mem_cons_of_mem _ hx))]
    simp

theorem dropBracketsGo_inBr (ws buf y r : Str) (hy : 93 ∉ y) (hlen : 2 ≤ buf.length + y.length) :
    dropBracketsGo (.inBr ws buf) (y ++ 93 :: r) = dropBracketsGo (.normal []) r := by
  induction y generalizing buf with
  | nil =>
    have : 2 ≤ buf.length := by simpa using hlen
    simp [dropBracketsGo, this]
  | cons c cs ih =>
    have hc : (c == 93) = false := by
      have : c ≠ 93 := fun e => hy (by simp [e])
      simpa using this
    simp only [List.cons_append, dropBracketsGo, hc, Bool.false_eq_true, if_false]
    apply ih _ (fun hm => hy (List.mem_cons_of_mem _ hm))
    simp only [List.length_cons] at hlen ⊢
    omega

/-- `[y]` with a non-empty body goes away, with the blanks before it -/
theorem dropBracketsGo_bracket (ws y r : Str) (hy0 : y ≠ []) (hy : 93 ∉ y) :
    dropBracketsGo (.normal ws) (91 :: y ++ 93 :: r) = dropBracketsGo (.normal []) r := by
  have h91 : Str.isSpace 91 = false := by decide
  have hlen : 2 ≤ [91].length + y.length := by
    cases y with
    | nil => exact absurd rfl hy0
    | cons a t => simp only [List.length_cons]; omega
  simp only [List.cons_append, dropBracketsGo, h91, Bool.false_eq_true, if_false, beq_self_eq_true, if_true]
  exact dropBracketsGo_inBr ws [91] y r hy hlen

/-! ## (T2) `setupRequired(...)` lines -/

/-- the side conditions on the product and the version inside `setupRequired(...)` -/
structure SetupWord (w : Str) : Prop where
  word : IsWord w
  notDash : w.head? ≠ some 45
  noParen : 41 ∉ w
  noBracket : 91 ∉ w

/-- what may stand behind the version: blanks, or blanks and a final `[x]` with `x` non-empty, without `]` -/
def BodyTail (tl : Str) : Prop :=
  IsBlank tl ∨ ∃ bs x, IsBlank bs ∧ x ≠ [] ∧ 93 ∉ x ∧ tl = bs ++ 91 :: x ++ [93]

theorem BodyTail.blanks {bs : Str} (h : IsBlank bs) : BodyTail bs := Or.inl h

theorem BodyTail.expr {bs x : Str} (hbs : IsBlank bs) (hx0 : x ≠ []) (hx : 93 ∉ x) :
    BodyTail (bs ++ 91 :: x ++ [93]) := Or.inr ⟨bs, x, hbs, hx0, hx, rfl⟩

/-- the three substitutions and the split on the text between the parentheses -/
theorem splitWs_setup_body (ot p sep v tl : Str) (ho : IsOptsText ot)
    (hp : SetupWord p) (hsep : IsBlank sep) (hsep0 : sep ≠ []) (hv : SetupWord v) (htl : BodyTail tl) :
    splitWs (dropBrackets (dropOptions (ot ++ p ++ sep ++ v ++ tl))) = [p, v] := by
  -- the options go, the rest is copied, the body of the bracket may change
  have hopt : ∃ tl', BodyTail tl' ∧
      dropOptions (ot ++ p ++ sep ++ v ++ tl) = p ++ sep ++ v ++ tl' := by
    unfold dropOptions
    obtain ⟨s1, hs1, e1⟩ := dropOptionsGo_isOptsText .start (Or.inl rfl) ot (p ++ sep ++ v ++ tl) ho
    have e0 : ot ++ p ++ sep ++ v ++ tl = ot ++ (p ++ sep ++ v ++ tl) := by simp
    have e2 : p ++ sep ++ v ++ tl = p ++ (sep ++ (v ++ tl)) := by simp
    rw [e0, e1, e2, dropOptionsGo_atStart_word s1 hs1 p _ hp.word hp.notDash,
      dropOptionsGo_plain_blanks_ne .mid (Or.inr rfl) sep _ hsep hsep0,
      dropOptionsGo_atStart_word .start (Or.inl rfl) v _ hv.word hv.notDash]
    rcases htl with hbs | ⟨bs, x, hbs, hx0, hx, rfl⟩
    · obtain ⟨s2, hs2, e3⟩ := dropOptionsGo_plain_blanks .mid (Or.inr rfl) tl [] hbs
      refine ⟨tl, .blanks hbs, ?_⟩
      rw [List.append_nil] at e3
      rw [e3, dropOptionsGo_plain_nil s2 hs2]
      simp
    · obtain ⟨s2, hs2, e3⟩ := dropOptionsGo_plain_blanks .mid (Or.inr rfl) bs (91 :: x ++ [93]) hbs
      obtain ⟨y, hy0, hy, e4⟩ := dropOptionsGo_plain_bracket s2 hs2 x hx0 hx
      refine ⟨bs ++ 91 :: y ++ [93], .expr hbs hy0 hy, ?_⟩
      have e5 : bs ++ 91 :: x ++ [93] = bs ++ (91 :: x ++ [93]) := by simp
      rw [e5, e3, e4]
      simp
  obtain ⟨tl', htl', e⟩ := hopt
  rw [e]
  -- the bracket goes, with the blanks before it
  have hbr : ∃ bs, IsBlank bs ∧ dropBrackets (p ++ sep ++ v ++ tl') = p ++ sep ++ v ++ bs := by
    unfold dropBrackets
    have e2 : p ++ sep ++ v ++ tl' = p ++ (sep ++ (v ++ tl')) := by simp
    rw [e2, dropBracketsGo_word [] p _ hp.word hp.noBracket, dropBracketsGo_blanks [] sep _ hsep,
      dropBracketsGo_word _ v _ hv.word hv.noBracket]
    rcases htl' with hbs | ⟨bs, y, hbs, hy0, hy, rfl⟩
    · refine ⟨tl', hbs, ?_⟩
      have := dropBracketsGo_blanks [] tl' [] hbs
      rw [List.append_nil] at this
      rw [this]
      simp [dropBracketsGo]
    · refine ⟨[], by simp [IsBlank], ?_⟩
      have e5 : bs ++ 91 :: y ++ [93] = bs ++ (91 :: y ++ 93 :: []) := by simp
      rw [e5, dropBracketsGo_blanks [] bs _ hbs, dropBracketsGo_bracket _ y [] hy0 hy]
      simp [dropBracketsGo]
  obtain ⟨bs, hbs, e'⟩ := hbr
  rw [e']
  have hbh : BlankHead bs := by
    cases bs with
    | nil => exact blankHead_nil
    | cons b t => exact blankHead_cons (hbs b (by simp))
  rw [splitWs_two p sep v bs hp.word hsep hsep0 hv.word hbh, splitWs_blank bs hbs]

theorem takeWhile_ne_append (body tail : Str) (hb : 41 ∉ body) :
    (body ++ 41 :: tail).takeWhile (· != 41) = body := by
  induction body with
  | nil => simp
  | cons c cs ih =>
    have hc : c ≠ 41 := fun e => hb (by simp [e])
    simp only [List.cons_append, List.takeWhile_cons, bne_iff_ne, ne_eq, hc, not_false_eq_true, if_true]
    rw [ih (fun hm => hb (List.mem_cons_of_mem _ hm))]

/-- a line whose stripped text is `setupRequired(` body `)` … : the fields come from the body -/
theorem tagFileLineWith_setup (d : Str → Str) (line body tail p v : Str)
    (hl : stripTrail (stripLead line) = kSetupRequiredParen ++ body ++ 41 :: tail) (hb0 : body ≠ [])
    (hb : 41 ∉ body) (hs : splitWs (dropBrackets (d body)) = [p, v]) :
    tagFileLineWith d line = .ok (some (p, v)) := by
  unfold tagFileLineWith
  simp only [hl]
  have e : kSetupRequiredParen ++ body ++ 41 :: tail = kSetupRequiredParen ++ (body ++ 41 :: tail) := by simp
  have h1 : ((kSetupRequiredParen ++ body ++ 41 :: tail).isEmpty
      || (kSetupRequiredParen ++ body ++ 41 :: tail).head? == some 35) = false := by
    simp [kSetupRequiredParen]
  have h2 : kSetupRequiredParen.isPrefixOf (kSetupRequiredParen ++ body ++ 41 :: tail) = true := by
    rw [e]; exact List.isPrefixOf_iff_prefix.mpr (List.prefix_append _ _)
  have h3 : (kSetupRequiredParen ++ body ++ 41 :: tail).drop kSetupRequiredParen.length = body ++ 41 :: tail := by
    rw [e]; exact List.drop_left
  have h4 : (!body.isEmpty && decide (body.length < (body ++ 41 :: tail).length)) = true := by
    cases body with
    | nil => exact absurd rfl hb0
    | cons a t => simp
  simp only [h1, h2, h3, takeWhile_ne_append body tail hb, h4, Bool.false_eq_true, if_false, if_true, hs]

/-- what may follow the version up to the `)`; the text between the parentheses contains no `)` -/
theorem tagFileLine_setup_core (lead ot p sep v tl tail : Str) (hlead : IsLead lead)
    (ho : IsOptsText ot) (hp : SetupWord p) (hsep : IsBlank sep) (hsep0 : sep ≠ []) (hv : SetupWord v)
    (htl : BodyTail tl) (htl41 : 41 ∉ tl) :
    tagFileLine (lead ++ kSetupRequiredParen ++ ot ++ p ++ sep ++ v ++ tl ++ 41 :: tail)
      = .ok (some (p, v)) := by
  apply tagFileLineWith_setup dropOptions _ (ot ++ p ++ sep ++ v ++ tl) (stripTrail tail) p v
  · have e : lead ++ kSetupRequiredParen ++ ot ++ p ++ sep ++ v ++ tl ++ 41 :: tail
        = lead ++ (115 :: ([101, 116, 117, 112, 82, 101, 113, 117, 105, 114, 101, 100, 40]
            ++ ot ++ p ++ sep ++ v ++ tl ++ 41 :: tail)) := by
      simp [kSetupRequiredParen]
    rw [e, stripLead_append _ _ hlead, stripLead_cons _ (by decide)]
    have e2 : (115 :: ([101, 116, 117, 112, 82, 101, 113, 117, 105, 114, 101, 100, 40]
            ++ ot ++ p ++ sep ++ v ++ tl ++ 41 :: tail))
        = (kSetupRequiredParen ++ (ot ++ p ++ sep ++ v ++ tl)) ++ 41 :: tail := by
      simp [kSetupRequiredParen]
    have h41 : stripTrail (41 :: tail) = 41 :: stripTrail tail := stripTrail_cons tail (by decide)
    rw [e2, stripTrail_append_of_ne_nil _ _ (by rw [h41]; simp), h41]
  · intro h; simp at h; exact hp.word.1 h.2.1
  · have ho41 : 41 ∉ ot := ho.noParen
    have hsep41 : 41 ∉ sep := fun hm => isSpace_ne (hsep 41 hm) (by decide) rfl
    simp only [List.mem_append, not_or]
    exact ⟨⟨⟨⟨ho41, hp.noParen⟩, hsep41⟩, hv.noParen⟩, htl41⟩
  · exact splitWs_setup_body ot p sep v tl ho hp hsep hsep0 hv htl

/-- (T2), general form without a relative expression: options, any blank run between product and version,
blanks before the `)`, leading `|`/blanks, anything behind the `)` -/
theorem tagFileLine_setup_gen (lead ot p sep v bs tail : Str) (hlead : IsLead lead)
    (ho : IsOptsText ot) (hp : SetupWord p) (hsep : IsBlank sep) (hsep0 : sep ≠ []) (hv : SetupWord v)
    (hbs : IsBlank bs) :
    tagFileLine (lead ++ kSetupRequiredParen ++ ot ++ p ++ sep ++ v ++ bs ++ 41 :: tail)
      = .ok (some (p, v)) :=
  tagFileLine_setup_core lead ot p sep v bs tail hlead ho hp hsep hsep0 hv (.blanks hbs)
    (fun hm => isSpace_ne (hbs 41 hm) (by decide) rfl)

/-- (T2), general form with a relative expression `[x]` directly before the `)` -/
theorem tagFileLine_setup_expr_gen (lead ot p sep v bs x tail : Str) (hlead : IsLead lead)
    (ho : IsOptsText ot) (hp : SetupWord p) (hsep : IsBlank sep) (hsep0 : sep ≠ []) (hv : SetupWord v)
    (hbs : IsBlank bs) (hx0 : x ≠ []) (hx93 : 93 ∉ x) (hx41 : 41 ∉ x) :
    tagFileLine (lead ++ kSetupRequiredParen ++ ot ++ p ++ sep ++ v ++ bs ++ 91 :: x ++ 93 :: 41 :: tail)
      = .ok (some (p, v)) := by
  have := tagFileLine_setup_core lead ot p sep v (bs ++ 91 :: x ++ [93]) tail hlead ho hp hsep hsep0 hv
    (.expr hbs hx0 hx93) (by
      have hbs41 : 41 ∉ bs := fun hm => isSpace_ne (hbs 41 hm) (by decide) rfl
      simp [hbs41, hx41])
  simpa using this

theorem isBlank_space : IsBlank [32] := by simp [IsBlank, Str.isSpace]

/-- (T2) `setupRequired(p v)` -/
theorem tagFileLine_setup (p v : Str) (hp : SetupWord p) (hv : SetupWord v) :
    tagFileLine (kSetupRequiredParen ++ p ++ [32] ++ v ++ [41]) = .ok (some (p, v)) := by
  have := tagFileLine_setup_gen [] [] p [32] v [] [] (by simp [IsLead]) .nil hp isBlank_space (by simp) hv
    (by simp [IsBlank])
  simpa [optsText] using this

/-- (T2) `setupRequired(p v [x])` — the statement D92 violated for `v = 2.0-rc1` -/
theorem tagFileLine_setup_expr (p v x : Str) (hp : SetupWord p) (hv : SetupWord v)
    (hx0 : x ≠ []) (hx93 : 93 ∉ x) (hx41 : 41 ∉ x) :
    tagFileLine (kSetupRequiredParen ++ p ++ [32] ++ v ++ [32, 91] ++ x ++ [93, 41]) = .ok (some (p, v)) := by
  have := tagFileLine_setup_expr_gen [] [] p [32] v [32] x [] (by simp [IsLead]) .nil hp isBlank_space
    (by simp) hv isBlank_space hx0 hx93 hx41
  simpa [optsText] using this

/-- (T2) `setupRequired(-o1 -o2 … p v)` -/
theorem tagFileLine_setup_opts (opts : List Str) (p v : Str) (ho : ∀ o ∈ opts, IsOpt o) (hp : SetupWord p)
    (hv : SetupWord v) :
    tagFileLine (kSetupRequiredParen ++ opts.flatMap (· ++ [32]) ++ p ++ [32] ++ v ++ [41]) = .ok (some (p, v)) := by
  have := tagFileLine_setup_gen [] (optsText opts) p [32] v [] [] (by simp [IsLead])
    (isOptsText_optsText opts ho) hp isBlank_space (by simp) hv (by simp [IsBlank])
  simpa [optsText] using this

/-- (T2) `setupRequired(-o1 -o2 … p v [x])` -/
theorem tagFileLine_setup_opts_expr (opts : List Str) (p v x : Str) (ho : ∀ o ∈ opts, IsOpt o) (hp : SetupWord p)
    (hv : SetupWord v) (hx0 : x ≠ []) (hx93 : 93 ∉ x) (hx41 : 41 ∉ x) :
    tagFileLine (kSetupRequiredParen ++ opts.flatMap (· ++ [32]) ++ p ++ [32] ++ v ++ [32, 91] ++ x ++ [93, 41])
      = .ok (some (p, v)) := by
  have := tagFileLine_setup_expr_gen [] (optsText opts) p [32] v [32] x [] (by simp [IsLead])
    (isOptsText_optsText opts ho) hp isBlank_space (by simp) hv isBlank_space hx0 hx93 hx41
  simpa [optsText] using this

/-! ## (T4) files -/

theorem splitLines_noNl (cur w r : Str) (hw : 10 ∉ w) :
    splitLines cur (w ++ r) = splitLines (w.reverse ++ cur) r := by
  induction w generalizing cur with
  | nil => rfl
  | cons c cs ih =>
    have hc : (c == 10) = false := by
      have : c ≠ 10 := fun e => hw (by simp [e])
      simpa using this
    simp only [List.cons_append, splitLines, hc, Bool.false_eq_true, if_false]
    rw [ih _ (fun hm => hw (List.mem_cons_of_mem _ hm))]
    simp

theorem splitLines_line (l r : Str) (hl : 10 ∉ l) :
    splitLines [] (l ++ 10 :: r) = (l ++ [10]) :: splitLines [] r := by
  rw [splitLines_noNl [] l _ hl]
  simp [splitLines]

/-- `readlines()` of newline-terminated lines without inner newlines -/
theorem splitLines_lines (ls : List Str) (h : ∀ l ∈ ls, 10 ∉ l) :
    splitLines [] (ls.flatMap (· ++ [10])) = ls.map (· ++ [10]) := by
  induction ls with
  | nil => rfl
  | cons l ls ih =>
    have e : (l :: ls).flatMap (· ++ [10]) = l ++ 10 :: ls.flatMap (· ++ [10]) := by simp
    rw [e, splitLines_line l _ (h l (by simp)), ih (fun x hx => h x (List.mem_cons_of_mem _ hx))]
    rfl

theorem word_noNl {w : Str} (hw : IsWord w) : 10 ∉ w :=
  fun hm => notSpace_ne (hw.2 10 hm) (by decide) rfl

/-- a tag file as a writer puts it: `product version` lines -/
def render (ps : List (Str × Str)) : Str := ps.flatMap (fun pv => pv.1 ++ [32] ++ pv.2 ++ [10])

/-- (T4) the reader finds the version of the first line that names the product -/
theorem tagFileVersion_render (ps : List (Str × Str)) (n : Str)
    (h : ∀ pv ∈ ps, PlainName pv.1 ∧ IsWord pv.2) :
    tagFileVersion (render ps) n = .ok ((ps.find? (·.1 == n)).map (·.2)) := by
  unfold tagFileVersion
  have e : render ps = (ps.map (fun pv => pv.1 ++ [32] ++ pv.2)).flatMap (· ++ [10]) := by
    simp [render, List.flatMap_map]
  have hnl : ∀ l ∈ ps.map (fun pv => pv.1 ++ [32] ++ pv.2), 10 ∉ l := by
    intro l hl
    obtain ⟨pv, hpv, rfl⟩ := List.mem_map.mp hl
    have h1 := word_noNl (h pv hpv).1.word
    have h2 := word_noNl (h pv hpv).2
    simp [h1, h2]
  rw [e, splitLines_lines _ hnl]
  clear e hnl
  induction ps with
  | nil => rfl
  | cons pv ps ih =>
    obtain ⟨hp, hv⟩ := h pv (by simp)
    simp only [List.map_cons, tagFileVersionGo, tagFileLine_plain_nl pv.1 pv.2 hp hv, List.find?_cons]
    by_cases hn : (pv.1 == n) = true
    · simp [hn]
    · simp only [hn, Bool.false_eq_true, if_false]
      exact ih (fun x hx => h x (List.mem_cons_of_mem _ hx))

/-! ### files with lines of every kind -/

theorem tagFileLine_comment (lead t : Str) (hlead : IsLead lead) : tagFileLine (lead ++ 35 :: t) = .ok none := by
  unfold tagFileLine tagFileLineWith
  rw [stripLead_append _ _ hlead, stripLead_cons _ (by decide), stripTrail_cons _ (by decide)]
  simp

theorem tagFileLine_blank (l : Str) (hl : IsLead l) : tagFileLine l = .ok none := by
  unfold tagFileLine tagFileLineWith
  have : stripLead l = [] := by
    have := stripLead_append l [] hl
    rw [List.append_nil] at this
    rw [this]; rfl
  rw [this, stripTrail_nil]
  simp

/-- lines whose reading is known: the file gives the version of the first one that names the product -/
theorem tagFileVersion_known (ls : List (Str × Option (Str × Str))) (n : Str)
    (h : ∀ e ∈ ls, 10 ∉ e.1 ∧ tagFileLine (e.1 ++ [10]) = .ok e.2) :
    tagFileVersion (ls.flatMap (fun e => e.1 ++ [10])) n
      = .ok (((ls.filterMap (·.2)).find? (·.1 == n)).map (·.2)) := by
  unfold tagFileVersion
  have e : ls.flatMap (fun e => e.1 ++ [10]) = (ls.map (·.1)).flatMap (· ++ [10]) := by
    simp [List.flatMap_map]
  have hnl : ∀ l ∈ ls.map (·.1), 10 ∉ l := by
    intro l hl
    obtain ⟨e, he, rfl⟩ := List.mem_map.mp hl
    exact (h e he).1
  rw [e, splitLines_lines _ hnl]
  clear e hnl
  induction ls with
  | nil => rfl
  | cons e ls ih =>
    obtain ⟨l, r⟩ := e
    have hl : tagFileLine (l ++ [10]) = .ok r := (h (l, r) (by simp)).2
    have ih' := ih (fun x hx => h x (List.mem_cons_of_mem _ hx))
    simp only [List.map_cons, tagFileVersionGo, hl]
    cases r with
    | none => simpa using ih'
    | some pv =>
      obtain ⟨p, v⟩ := pv
      by_cases hn : (p == n) = true
      · simp [hn]
      · simp only [hn, Bool.false_eq_true, if_false]
        simpa [List.find?_cons, hn] using ih'

/-- the lines a writer may put into a tag file -/
inductive Entry where
  | plain (p v : Str)
  | setup (opts : List Str) (p v : Str)
  | setupExpr (opts : List Str) (p v x : Str)
  | comment (t : Str)
  | blank

def Entry.text : Entry → Str
  | .plain p v => p ++ [32] ++ v
  | .setup opts p v => kSetupRequiredParen ++ optsText opts ++ p ++ [32] ++ v ++ [41]
  | .setupExpr opts p v x => kSetupRequiredParen ++ optsText opts ++ p ++ [32] ++ v ++ [32, 91] ++ x ++ [93, 41]
  | .comment t => 35 :: t
  | .blank => []

def Entry.pair : Entry → Option (Str × Str)
  | .plain p v => some (p, v)
  | .setup _ p v => some (p, v)
  | .setupExpr _ p v _ => some (p, v)
  | .comment _ => none
  | .blank => none

def Entry.Ok : Entry → Prop
  | .plain p v => PlainName p ∧ IsWord v
  | .setup opts p v => (∀ o ∈ opts, IsOpt o) ∧ SetupWord p ∧ SetupWord v
  | .setupExpr opts p v x =>
    (∀ o ∈ opts, IsOpt o) ∧ SetupWord p ∧ SetupWord v ∧ x ≠ [] ∧ 93 ∉ x ∧ 41 ∉ x ∧ 10 ∉ x
  | .comment t => 10 ∉ t
  | .blank => True

theorem optsText_noNl (opts : List Str) (ho : ∀ o ∈ opts, IsOpt o) : 10 ∉ optsText opts := by
  intro hm
  simp only [optsText, List.mem_flatMap, List.mem_append, List.mem_singleton] at hm
  obtain ⟨o, ho', h | h⟩ := hm
  · exact notSpace_ne ((ho o ho').noBlank 10 h) (by decide) rfl
  · cases h

theorem kSetupRequiredParen_noNl : 10 ∉ kSetupRequiredParen := by decide

theorem Entry.text_noNl (e : Entry) (he : e.Ok) : 10 ∉ e.text := by
  cases e with
  | plain p v =>
    have h1 := word_noNl he.1.word
    have h2 := word_noNl he.2
    simp [Entry.text, h1, h2]
  | setup opts p v =>
    obtain ⟨ho, hp, hv⟩ := he
    have h0 := optsText_noNl opts ho
    have h1 := word_noNl hp.word
    have h2 := word_noNl hv.word
    have hk := kSetupRequiredParen_noNl
    simp [Entry.text, h0, h1, h2, hk]
  | setupExpr opts p v x =>
    obtain ⟨ho, hp, hv, _, _, _, hx⟩ := he
    have h0 := optsText_noNl opts ho
    have h1 := word_noNl hp.word
    have h2 := word_noNl hv.word
    have hk := kSetupRequiredParen_noNl
    simp [Entry.text, h0, h1, h2, hk, hx]
  | comment t =>
    have : 10 ∉ t := he
    simp [Entry.text, this]
  | blank => simp [Entry.text]

theorem Entry.tagFileLine_text (e : Entry) (he : e.Ok) : tagFileLine (e.text ++ [10]) = .ok e.pair := by
  cases e with
  | plain p v => exact tagFileLine_plain_nl p v he.1 he.2
  | setup opts p v =>
    obtain ⟨ho, hp, hv⟩ := he
    have := tagFileLine_setup_gen [] (optsText opts) p [32] v [] [10] (by simp [IsLead])
      (isOptsText_optsText opts ho) hp isBlank_space (by simp) hv
      (by simp [IsBlank])
    simpa [Entry.text, Entry.pair] using this
  | setupExpr opts p v x =>
    obtain ⟨ho, hp, hv, hx0, hx93, hx41, _⟩ := he
    have := tagFileLine_setup_expr_gen [] (optsText opts) p [32] v [32] x [10] (by simp [IsLead])
      (isOptsText_optsText opts ho) hp isBlank_space
      (by simp) hv isBlank_space hx0 hx93 hx41
    simpa [Entry.text, Entry.pair] using this
  | comment t =>
    have := tagFileLine_comment [] (t ++ [10]) (by simp [IsLead])
    simpa [Entry.text, Entry.pair] using this
  | blank => exact tagFileLine_blank [10] (by simp [IsLead, Str.isSpace])

/-- (T4), general: a file of plain lines, `setupRequired(...)` lines, comments and blank lines -/
theorem tagFileVersion_entries (es : List Entry) (n : Str) (h : ∀ e ∈ es, e.Ok) :
    tagFileVersion (es.flatMap (fun e => e.text ++ [10])) n
      = .ok (((es.filterMap Entry.pair).find? (·.1 == n)).map (·.2)) := by
  have := tagFileVersion_known (es.map (fun e => (e.text, e.pair))) n (by
    intro x hx
    obtain ⟨e, he, rfl⟩ := List.mem_map.mp hx
    exact ⟨e.text_noNl (h e he), e.tagFileLine_text (h e he)⟩)
  simpa [List.flatMap_map, List.filterMap_map, Function.comp_def] using this

/-! ## (T3) examples; the side conditions are needed -/

/-- code points of a literal (examples only) -/
private abbrev s (x : String) : Str := Str.ofString x

/-- D92: the pinned pattern `-\S+\s+` cuts `-rc1 ` out of the version; the fixed one does not -/
theorem d92_pinned :
    tagFileLinePinned (s "setupRequired(p  2.0-rc1 [>= 1.0])") = .ok (some (s "p", s "2.0")) := by decide

theorem d92_fixed :
    tagFileLine (s "setupRequired(p  2.0-rc1 [>= 1.0])") = .ok (some (s "p", s "2.0-rc1")) := by decide

example : tagFileLine (s "# a comment") = .ok none := by decide
example : tagFileLine (s "   \n") = .ok none := by decide
example : tagFileLine (s "| |  q   1.0   current") = .ok (some (s "q", s "1.0")) := by decide
example : tagFileLine (s "setupRequired(-j -k\tp  2.0  [== 2.0 || > 3])  # trailing")
    = .ok (some (s "p", s "2.0")) := by decide
example : tagFileLine (s "onlyone") = .error .invalid := by decide
example : tagFileLine (s "setupRequired(a b c)") = .error .suspicious := by decide
example : tagFileVersion (s "# tags\np 1.0\nsetupRequired(-j q 2.0-rc1 [>= 2])\nq 3.0\n") (s "q")
    = .ok (some (s "2.0-rc1")) := by decide

-- (T1) `PlainName.notHash`: a name starting with `#` makes the line a comment
example : tagFileLine (s "#p 1.0") = .ok none := by decide
-- (T1) `PlainName.notBar`: a leading `|` is stripped from the name
example : tagFileLine (s "|p 1.0") = .ok (some (s "p", s "1.0")) := by decide
-- (T1) `PlainName.notSetup`: a name starting with `setupRequired(` is read as a setupRequired line
example : tagFileLine (s "setupRequired(a) 1.0") = .error .invalid := by decide
-- (T2) `SetupWord.notDash` for the version: `-2.0` followed by a blank is an option …
example : tagFileLine (s "setupRequired(p -2.0 [>= 1])") = .error .invalid := by decide
-- … (directly before the `)` it is not, the pattern wants a blank behind the option)
example : tagFileLine (s "setupRequired(p -2.0)") = .ok (some (s "p", s "-2.0")) := by decide
-- (T2) `SetupWord.notDash` for the product
example : tagFileLine (s "setupRequired(-p 2.0)") = .error .invalid := by decide
-- (T2) `SetupWord.noBracket`: `[…]` inside a word is cut out
example : tagFileLine (s "setupRequired(p[1] 2.0)") = .ok (some (s "p", s "2.0")) := by decide
example : tagFileLine (s "setupRequired(p 2.0[1])") = .ok (some (s "p", s "2.0")) := by decide
-- (T2) `SetupWord.noParen`: the first `)` ends the body
example : tagFileLine (s "setupRequired(p) 2.0)") = .error .invalid := by decide
-- (T2) `IsOpt.two`: a lone `-` is not an option
example : tagFileLine (s "setupRequired(- p 2.0)") = .error .suspicious := by decide
-- (T2) `IsOpt.noParen`
example : tagFileLine (s "setupRequired(-j) p 2.0)") = .error .invalid := by decide
-- (T2) the expression: non-empty, no `]`, no `)`, and the `]` directly before the `)`
example : tagFileLine (s "setupRequired(p 2.0 [])") = .error .suspicious := by decide
example : tagFileLine (s "setupRequired(p 2.0 [a]])") = .ok (some (s "p", s "2.0]")) := by decide
example : tagFileLine (s "setupRequired(p 2.0 [a)b])") = .error .suspicious := by decide
example : tagFileLine (s "setupRequired(p 2.0 [a -x] )") = .error .suspicious := by decide
-- the expression may contain option-like words and `[`
example : tagFileLine (s "setupRequired(p 2.0 [ -x [>= -1 ])") = .ok (some (s "p", s "2.0")) := by decide

end EupsModel.Vro
