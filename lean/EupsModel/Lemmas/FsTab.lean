import EupsModel.Model.FsTab
/-! Lemmas for database-held table files under a kill (C08): the record component of a crash state of the extended
commands is the crash state of `Model/FsEff.lean`; the table component is a prefix of `copyEffects`. -/
set_option linter.unusedSimpArgs false
set_option linter.unusedVariables false
namespace EupsModel.FsEff

theorem tget_tset (t : TabFs) (f g : TPath) (c : TFile) :
    tget (tset t f c) g = if g = f then some c else tget t g := by
  induction t with
  | nil =>
    by_cases h : g = f
    · subst h; simp [tset, tget]
    · have : ¬ f = g := fun e => h e.symm
      simp [tset, tget, h, this]
  | cons x r ih =>
    obtain ⟨a, d⟩ := x
    by_cases ha : a = f
    · subst ha
      by_cases h : g = a
      · subst h; simp [tset, tget]
      · have : ¬ a = g := fun e => h e.symm
        simp [tset, tget, h, this]
    · by_cases hg : a = g
      · subst hg
        have : ¬ a = f := ha
        simp [tset, tget, ha]
      · simp only [tset, ha, if_false]
        have e1 : tget ((a, d) :: tset r f c) g = tget (tset r f c) g := by simp [tget, hg]
        have e2 : tget ((a, d) :: r) g = tget r g := by simp [tget, hg]
        rw [e1, e2, ih]

theorem tget_tdel (t : TabFs) (f g : TPath) :
    tget (tdel t f) g = if g = f then none else tget t g := by
  induction t with
  | nil => by_cases h : g = f <;> simp [tdel, tget, h]
  | cons x r ih =>
    obtain ⟨a, d⟩ := x
    by_cases ha : a = f
    · subst ha
      simp only [tdel, if_true]
      rw [ih]
      by_cases h : g = a
      · simp [h]
      · have : ¬ a = g := fun e => h e.symm
        simp [h, tget, this]
    · simp only [tdel, ha, if_false]
      by_cases hg : a = g
      · subst hg
        simp [tget, ha]
      · have e1 : tget ((a, d) :: tdel r f) g = tget (tdel r f) g := by simp [tget, hg]
        have e2 : tget ((a, d) :: r) g = tget r g := by simp [tget, hg]
        rw [e1, e2, ih]

def applyTAll (t : TabFs) (es : List TEff) : TabFs := es.foldl applyTEff t

theorem applyAll2_rec (db : Db) (es : List Eff) :
    applyAll2 db (es.map .onRec) = { db with fs := applyAll db.fs es } := by
  induction es generalizing db with
  | nil => rfl
  | cons e r ih =>
    simp only [List.map_cons, applyAll2, List.foldl_cons, applyAll] at ih ⊢
    rw [ih]
    rfl

theorem applyAll2_tab (db : Db) (es : List TEff) :
    applyAll2 db (es.map .onTab) = { db with tabs := applyTAll db.tabs es } := by
  induction es generalizing db with
  | nil => rfl
  | cons e r ih =>
    simp only [List.map_cons, applyAll2, List.foldl_cons, applyTAll] at ih ⊢
    rw [ih]
    rfl

theorem applyAll2_append (db : Db) (a b : List Eff2) : applyAll2 db (a ++ b) = applyAll2 (applyAll2 db a) b := by
  simp [applyAll2, List.foldl_append]

/-- the crash state, component by component -/
theorem crashAt2_eq (cfg : Cfg) (db : Db) (c : Cmd2) (k : Nat) :
    crashAt2 cfg db c k =
      { fs := crashAt cfg db.fs c.onRecords k,
        tabs := applyTAll db.tabs ((tabEffects cfg c).take (k - (effects cfg db.fs c.onRecords).length)) } := by
  unfold crashAt2 effects2
  rw [List.take_append, applyAll2_append]
  rw [← List.map_take, ← List.map_take, applyAll2_rec, applyAll2_tab]
  simp [crashAt]

theorem crashAt2_fs (cfg : Cfg) (db : Db) (c : Cmd2) (k : Nat) :
    (crashAt2 cfg db c k).fs = crashAt cfg db.fs c.onRecords k := by rw [crashAt2_eq]

theorem crashAt2_tabs (cfg : Cfg) (db : Db) (c : Cmd2) (k : Nat) :
    (crashAt2 cfg db c k).tabs =
      applyTAll db.tabs ((tabEffects cfg c).take (k - (effects cfg db.fs c.onRecords).length)) := by rw [crashAt2_eq]

/-- the paths a copy touches -/
def touches (k : TKey) (f : TPath) : Prop := f = .main k ∨ f = .tmp k

theorem applyTEff_frame (t : TabFs) (e : TEff) (g : TPath)
    (h : match e with
      | .creat f => g ≠ f
      | .write f _ _ => g ≠ f
      | .close _ => True
      | .rename a b => g ≠ a ∧ g ≠ b
      | .unlink f => g ≠ f) :
    tget (applyTEff t e) g = tget t g := by
  cases e with
  | creat f => simp only at h; simp [applyTEff, tget_tset, h]
  | write f n last => simp only at h; simp [applyTEff, tget_tset, h]
  | close f => rfl
  | rename a b =>
    simp only at h
    simp only [applyTEff]
    cases tget t a with
    | none => rfl
    | some c => simp [tget_tset, tget_tdel, h.1, h.2]
  | unlink f => simp only at h; simp [applyTEff, tget_tdel, h]

/-- a copy (either writer), killed anywhere, leaves every other table file as it was -/
theorem copy_frame (atomic : Bool) (k : TKey) (n : Nat) (t : TabFs) (j : Nat) (g : TPath)
    (hg : g ≠ .main k) (hg' : g ≠ .tmp k) :
    tget (applyTAll t ((copyEffects atomic k n).take j)) g = tget t g := by
  have step : ∀ (es : List TEff), (∀ e ∈ es, match e with
      | .creat f => g ≠ f
      | .write f _ _ => g ≠ f
      | .close _ => True
      | .rename a b => g ≠ a ∧ g ≠ b
      | .unlink f => g ≠ f) → ∀ t : TabFs, tget (applyTAll t es) g = tget t g := by
    intro es
    induction es with
    | nil => intro _ t; rfl
    | cons e r ih =>
      intro h t
      simp only [applyTAll, List.foldl_cons]
      have := ih (fun e' he' => h e' (by simp [he'])) (applyTEff t e)
      simp only [applyTAll] at this
      rw [this, applyTEff_frame t e g (h e (by simp))]
  apply step
  intro e he
  have he' := List.mem_of_mem_take he
  cases atomic <;> simp only [copyEffects, if_true, if_false, Bool.false_eq_true, List.mem_cons, List.not_mem_nil, or_false] at he' <;>
    rcases he' with rfl | rfl | rfl | rfl <;> simp [hg, hg']

/-- the repaired copy, killed anywhere: the table file holds what it held, or the new content -/
theorem copy_atomic (k : TKey) (n : Nat) (t : TabFs) (j : Nat) :
    tget (applyTAll t ((copyEffects true k n).take j)) (.main k) = tget t (.main k) ∨
    tget (applyTAll t ((copyEffects true k n).take j)) (.main k) = some (.full n) := by
  have hne : TPath.main k ≠ TPath.tmp k := by intro e; cases e
  have hne' : TPath.tmp k ≠ TPath.main k := by intro e; cases e
  simp only [copyEffects, if_true]
  rcases j with _ | _ | _ | _ | j
  · left; rfl
  · left; simp [applyTAll, applyTEff, tget_tset, hne]
  · left; simp [applyTAll, applyTEff, tget_tset, hne]
  · left; simp [applyTAll, applyTEff, tget_tset, hne]
  · right
    simp [applyTAll, applyTEff, tget_tset, tget_tdel, hne]

/-- after the complete repaired copy the table file holds the new content -/
theorem copy_atomic_final (k : TKey) (n : Nat) (t : TabFs) :
    tget (applyTAll t (copyEffects true k n)) (.main k) = some (.full n) := by
  have hne : TPath.main k ≠ TPath.tmp k := by intro e; cases e
  simp [copyEffects, applyTAll, applyTEff, tget_tset, tget_tdel, hne]

end EupsModel.FsEff
