import EupsModel.Lemmas.VroSelect
/-! `selectVRO` on an ARBITRARY VRO dictionary: where the -t and -T tags end up, under a shape
hypothesis (`ShapedBase`) on the list `chooseBase` selects.  Generalises the default-dictionary
results of `Lemmas/VroSelect.lean` / `Props/C03.lean`. -/
namespace EupsModel.Vro

/-! ## `afterLast`: specification -/

theorem afterLast_none_iff {p : Str → Bool} (i : Nat) (l : List Str) :
    afterLast p i l = none ↔ ∀ x ∈ l, p x = false := by
  induction l generalizing i with
  | nil => simp [afterLast]
  | cons x xs ih =>
    cases h : afterLast p (i + 1) xs with
    | none =>
      have hxs := (ih (i + 1)).mp h
      cases hp : p x
      · simp only [afterLast, h, hp]
        simp only [Bool.false_eq_true, if_false, true_iff]
        intro y hy
        rcases List.mem_cons.mp hy with rfl | hy
        · exact hp
        · exact hxs y hy
      · simp only [afterLast, h, hp, if_true]
        simp only [reduceCtorEq, false_iff]
        intro hall
        have := hall x (by simp)
        rw [hp] at this; cases this
    | some j =>
      simp only [afterLast, h]
      simp only [reduceCtorEq, false_iff]
      intro hall
      have := (ih (i + 1)).mpr (fun y hy => hall y (List.mem_cons_of_mem _ hy))
      rw [h] at this; cases this

/-- `afterLast p i l = some j`: `j` is the index (counted from `i`) just behind the last entry
satisfying `p` -/
theorem afterLast_some_spec {p : Str → Bool} {i j : Nat} {l : List Str} (h : afterLast p i l = some j) :
    ∃ l1 x l2, l = l1 ++ x :: l2 ∧ j = i + l1.length + 1 ∧ p x = true ∧ ∀ y ∈ l2, p y = false := by
  induction l generalizing i with
  | nil => simp [afterLast] at h
  | cons x xs ih =>
    cases h' : afterLast p (i + 1) xs with
    | none =>
      simp only [afterLast, h'] at h
      cases hp : p x
      · simp [hp] at h
      · simp only [hp, if_true, Option.some.injEq] at h
        exact ⟨[], x, xs, rfl, by simp [h], hp, (afterLast_none_iff (i + 1) xs).mp h'⟩
    | some j' =>
      simp only [afterLast, h', Option.some.injEq] at h
      subst h
      obtain ⟨l1, e, l2, rfl, hj, he, hl2⟩ := ih h'
      refine ⟨x :: l1, e, l2, rfl, ?_, he, hl2⟩
      simp only [List.length_cons]
      omega

theorem afterLast_append_none {p : Str → Bool} (i : Nat) (A B : List Str) (hB : ∀ x ∈ B, p x = false) :
    afterLast p i (A ++ B) = afterLast p i A := by
  induction A generalizing i with
  | nil => simpa [afterLast] using (afterLast_none_iff i B).mpr hB
  | cons x A ih => simp [afterLast, ih]

/-! ## `insertAt` -/

theorem insertAt_nil (l : List Str) (i : Nat) : insertAt l i [] = l := by
  simp [insertAt]

theorem mem_insertAt {x : Str} {l Z : List Str} {i : Nat} : x ∈ insertAt l i Z ↔ x ∈ l ∨ x ∈ Z := by
  unfold insertAt
  constructor
  · intro h
    simp only [List.mem_append] at h
    rcases h with (h | h) | h
    · exact Or.inl (List.mem_of_mem_take h)
    · exact Or.inr h
    · exact Or.inl (List.mem_of_mem_drop h)
  · rintro (h | h)
    · have : x ∈ l.take i ++ l.drop i := by rw [List.take_append_drop]; exact h
      simp only [List.mem_append] at this ⊢
      rcases this with h | h
      · exact Or.inl (Or.inl h)
      · exact Or.inr h
    · simp only [List.mem_append]
      exact Or.inl (Or.inr h)

theorem beforeP_insertAt {P : Str → Prop} {t : Str} {l : List Str} (i : Nat) (Z : List Str)
    (hZ : ∀ x ∈ Z, P x) (h : BeforeP P t l) : BeforeP P t (insertAt l i Z) := by
  obtain ⟨pre, post, rfl, hpre⟩ := h
  unfold insertAt
  by_cases hi : i ≤ pre.length
  · refine ⟨pre.take i ++ Z ++ pre.drop i, post, ?_, ?_⟩
    · rw [List.take_append_of_le_length hi, List.drop_append_of_le_length hi]; simp
    · intro x hx
      simp only [List.mem_append] at hx
      rcases hx with (hx | hx) | hx
      · exact hpre x (List.mem_of_mem_take hx)
      · exact hZ x hx
      · exact hpre x (List.mem_of_mem_drop hx)
  · obtain ⟨k, rfl⟩ : ∃ k, i = (pre ++ [t]).length + k := ⟨i - (pre.length + 1), by simp; omega⟩
    refine ⟨pre, post.take k ++ Z ++ post.drop k, ?_, hpre⟩
    have e : pre ++ t :: post = (pre ++ [t]) ++ post := by simp
    rw [e, List.take_length_add_append, List.drop_length_add_append]
    simp

/-! ## the placement of the tags in a shaped list -/

theorem keep_cons (keep : Bool) (base : List Str) :
    (if keep then kKeep :: base else base) = keepPart keep ++ base := by
  cases keep <;> rfl

/-- the -t tags go into the part of the list in front of `T`, when `T` has no `commandLine` / `type:*` entry -/
theorem withPretags_shape (A T tags : List Str)
    (hT : ∀ x ∈ T, (x == kCommandLine || isType x) = false) :
    ∃ A1 A2, A = A1 ++ A2 ∧ withPretags (A ++ T) tags = A1 ++ tags ++ (A2 ++ T) ∧
      pretagPos (A ++ T) tags = if tags.isEmpty then none else some A1.length := by
  unfold withPretags pretagPos
  by_cases he : tags.isEmpty = true
  · have : tags = [] := by simpa using he
    subst this
    exact ⟨A, [], by simp, by simp, by simp⟩
  · simp only [he, Bool.false_eq_true, if_false]
    rw [afterLast_append_none 0 A T hT]
    cases h : afterLast (fun v => v == kCommandLine || isType v) 0 A with
    | none =>
      refine ⟨[], A, by simp, ?_, by simp⟩
      simp [insertAt]
    | some j =>
      obtain ⟨l1, x, l2, rfl, hj, _, _⟩ := afterLast_some_spec h
      have hj' : j = (l1 ++ [x]).length := by simp [hj]
      refine ⟨l1 ++ [x], l2, by simp, ?_, by simp [hj']⟩
      simp only [Option.getD_some]
      have e : l1 ++ x :: l2 ++ T = (l1 ++ [x]) ++ (l2 ++ T) := by simp
      rw [e, hj', insertAt_length]

/-- `placeTags` on a list `H ++ T` where `T` holds no `commandLine` / `type:*` entry: the -t tags are
put somewhere inside `keep ++ H`, the -T tags at an index `i` which, when the list has a version-type
entry, is the index just behind the last one. -/
theorem placeTags_shaped (keep : Bool) (H T tags postTags : List Str)
    (hT : ∀ x ∈ T, (x == kCommandLine || isType x) = false)
    (hpost : postTags = [] ∨ tags ≠ [] ∨ ∃ x ∈ H ++ T, isVT x = true) :
    ∃ A1 A2 i, keepPart keep ++ H = A1 ++ A2 ∧
      placeTags keep (H ++ T) tags postTags = .ok (insertAt (A1 ++ tags ++ (A2 ++ T)) i postTags) ∧
      ((∃ x ∈ H ++ T, isVT x = true) → ∃ l1 e l2, A1 ++ tags ++ (A2 ++ T) = l1 ++ e :: l2 ∧
          i = l1.length + 1 ∧ isVT e = true ∧ ∀ x ∈ l2, isVT x = false) := by
  obtain ⟨A1, A2, hA, hw, hpp⟩ := withPretags_shape (keepPart keep ++ H) T tags hT
  unfold placeTags
  simp only [keep_cons]
  rw [← List.append_assoc, hw, hpp]
  cases h : afterLast isVT 0 (A1 ++ tags ++ (A2 ++ T)) with
  | some j =>
    obtain ⟨l1, e, l2, hl, hj, he, hl2⟩ := afterLast_some_spec h
    refine ⟨A1, A2, j, hA, ?_, fun _ => ⟨l1, e, l2, hl, by omega, he, hl2⟩⟩
    by_cases hpe : postTags.isEmpty = true
    · have : postTags = [] := by simpa using hpe
      subst this
      simp [insertAt_nil]
    · simp [hpe]
  | none =>
    have hno := (afterLast_none_iff 0 _).mp h
    have hnobase : ¬ ∃ x ∈ H ++ T, isVT x = true := by
      rintro ⟨x, hx, hv⟩
      have hx' : x ∈ A1 ++ tags ++ (A2 ++ T) := by
        have h1 : x ∈ (keepPart keep ++ H) ++ T := by
          simp only [List.mem_append] at hx ⊢
          rcases hx with hx | hx
          · exact Or.inl (Or.inr hx)
          · exact Or.inr hx
        rw [hA] at h1
        simp only [List.mem_append] at h1 ⊢
        rcases h1 with (h1 | h1) | h1
        · exact Or.inl (Or.inl h1)
        · exact Or.inr (Or.inl h1)
        · exact Or.inr (Or.inr h1)
      rw [hno x hx'] at hv; cases hv
    by_cases hpe : postTags.isEmpty = true
    · have : postTags = [] := by simpa using hpe
      subst this
      exact ⟨A1, A2, 0, hA, by simp [insertAt_nil], fun hv => absurd hv hnobase⟩
    · have hpne : postTags ≠ [] := by simpa using hpe
      have htne : tags ≠ [] := by
        rcases hpost with h1 | h1 | h1
        · exact absurd h1 hpne
        · exact h1
        · exact absurd h1 hnobase
      have hte : tags.isEmpty = false := by simpa using htne
      refine ⟨A1, A2, A1.length, hA, ?_, fun hv => absurd hv hnobase⟩
      simp [hpe, hte]

/-! ## `cleanVro` on lists without warnings, for any dictionary (`userVRO = false`) -/

theorem cleanVro_noWarn' {c : VroCfg} (hu : c.userVRO = false) (cmd : List Str) (inexact : Bool) {l : List Str}
    (hl : NoWarn l) :
    cleanVro c cmd inexact l =
      (fun x => if inexact then x.filter (· != kTypeExact) else x)
        (if c.exact then makeVroExact c cmd (dedupe [] l) else dedupe [] l) := by
  unfold cleanVro
  simp only [hu, Bool.false_eq_true, if_false, mergeWarnings_noWarn _ (noWarn_dedupe hl)]

theorem mem_cleanVro' {c : VroCfg} (hu : c.userVRO = false) (cmd : List Str) (inexact : Bool) {l : List Str}
    (hl : NoWarn l) {x : Str} (hx : x ∈ cleanVro c cmd inexact l) : x ∈ l ∨ x = kWarn1 := by
  rw [cleanVro_noWarn' hu cmd inexact hl] at hx
  have h2 : ∀ x, x ∈ (if c.exact then makeVroExact c cmd (dedupe [] l) else dedupe [] l) → x ∈ l ∨ x = kWarn1 := by
    intro x hx
    cases hc : c.exact
    · simp only [hc, Bool.false_eq_true, if_false] at hx
      exact Or.inl ((mem_dedupe x [] l hl).mp hx).1
    · simp only [hc, if_true] at hx
      rcases mem_makeVroExact hu hx with h | h
      · exact Or.inl ((mem_dedupe x [] l hl).mp h).1
      · exact Or.inr h
  cases inexact
  · exact h2 x hx
  · exact h2 x (List.mem_filter.mp hx).1

theorem mem_cleanVro_of_mem' {c : VroCfg} (hu : c.userVRO = false) (cmd : List Str) (inexact : Bool) {l : List Str}
    (hl : NoWarn l) {x : Str} (hx : x ∈ l) (hne : x ≠ kTypeExact) : x ∈ cleanVro c cmd inexact l := by
  rw [cleanVro_noWarn' hu cmd inexact hl]
  have hd : x ∈ dedupe [] l := (mem_dedupe x [] l hl).mpr ⟨hx, by simp⟩
  have h2 : x ∈ (if c.exact then makeVroExact c cmd (dedupe [] l) else dedupe [] l) := by
    cases hc : c.exact
    · simpa [hc] using hd
    · simp only [if_true]
      cases hm : movedByExact c cmd x
      · exact mem_makeVroExact_of_kept hu hd hm
      · exact mem_makeVroExact_of_moved hu hd hm
  cases inexact
  · exact h2
  · exact List.mem_filter.mpr ⟨h2, by simpa using hne⟩

theorem beforeP_cleanVro' {c : VroCfg} (hu : c.userVRO = false) (cmd : List Str) (inexact : Bool) {l : List Str}
    (hl : NoWarn l) {P : Str → Prop} {t : Str} (hm : movedByExact c cmd t = false) (hne : t ≠ kTypeExact)
    (h : BeforeP P t l) : BeforeP P t (cleanVro c cmd inexact l) := by
  rw [cleanVro_noWarn' hu cmd inexact hl]
  have h1 := beforeP_dedupe hl h
  have h2 : BeforeP P t (if c.exact then makeVroExact c cmd (dedupe [] l) else dedupe [] l) := by
    cases hc : c.exact
    · simpa [hc] using h1
    · simpa [hc] using beforeP_makeVroExact c cmd hu hm h1
  cases inexact
  · exact h2
  · exact beforeP_filter _ (by simpa using hne) h2

/-! ## `kindly` when every entry is accepted -/

theorem kindly_all_ok' (c : VroCfg) (l : List Str) (h : ∀ x ∈ l, kindlyOne c x = .ok true) :
    kindly c l = .ok (if l.isEmpty then c.prevPreferred else l) := by
  unfold kindly
  rw [kindlyGo_all_ok c l h]
  cases l <;> simp

/-! ## the shape hypothesis -/

/-- shape of a dictionary list for which the placement clauses hold -/
structure ShapedBase (c : VroCfg) (base : List Str) : Prop where
  /-- no `warn` / `warn:N` entry (simplifying hypothesis: the cleaning lemmas are proved for such lists) -/
  noWarn : NoWarn base
  /-- every entry is accepted by `_kindlySetPreferredTags` -/
  kindly : ∀ x ∈ base, kindlyOne c x = .ok true
  /-- no version-type entry stands before the last `commandLine` / `type:*` entry -/
  split : ∃ H T, base = H ++ T ∧ (∀ x ∈ H, isVT x = false) ∧
    (∀ x ∈ T, (x == kCommandLine || isType x) = false)

structure GenCfg (c : VroCfg) : Prop where
  /-- no `Eups(vro=...)` -/
  user : c.userVRO = false
  /-- `Tags.registerTag` refuses a name that is already registered in another group -/
  disjoint : ∀ t, c.globalTags.contains t = true → pseudoTags.contains t = false

/-- the `commandLineTagNames` in force -/
def cmdOf (c : VroCfg) (a : VroArgs) : List Str := if a.tags.isEmpty then c.cmdTags else a.tags

/-- `selectVRO` once the tags are placed: it succeeds, and leaves the cleaned list (or the earlier
preferred tags when nothing is left) -/
theorem selectVRO_of_placed (c : VroCfg) (a : VroArgs) (hu : c.userVRO = false) (base : List Str)
    (store : List Str → List (Str × VroVal)) (hcb : chooseBase c a a.tags = .ok (base, store))
    (v3 : List Str) (hpl : placeTags c.keep base a.tags a.postTags = .ok v3)
    (hnw : NoWarn v3) (hk : ∀ x ∈ v3, kindlyOne c x = .ok true) :
    ∃ out, selectVRO c a = .ok out ∧
      out.vro = if (cleanVro c (cmdOf c a) a.inexact v3).isEmpty then c.prevPreferred
                else cleanVro c (cmdOf c a) a.inexact v3 := by
  have hok : ∀ x ∈ cleanVro c (cmdOf c a) a.inexact v3, kindlyOne c x = .ok true := by
    intro x hx
    rcases mem_cleanVro' hu _ a.inexact hnw hx with h | h
    · exact hk x h
    · rw [h]; exact fixed_kindly (by simp [fixedWords])
  have hkk := kindly_all_ok' c _ hok
  unfold cmdOf at hkk
  unfold selectVRO cmdOf
  simp only [hu, Bool.false_and, Bool.false_eq_true, if_false, hcb, hpl, hkk]
  exact ⟨_, rfl, rfl⟩

theorem mem_mid {x : Str} {A Z B : List Str} : x ∈ A ++ Z ++ B ↔ x ∈ A ++ B ∨ x ∈ Z := by
  simp only [List.mem_append]
  constructor
  · rintro ((h | h) | h)
    · exact Or.inl (Or.inl h)
    · exact Or.inr h
    · exact Or.inl (Or.inr h)
  · rintro ((h | h) | h)
    · exact Or.inl (Or.inl h)
    · exact Or.inr h
    · exact Or.inl (Or.inr h)

theorem GoodTag.ne_typeExact {c : VroCfg} {t : Str} (g : GoodTag c t) : t ≠ kTypeExact := by
  intro h; have := g.noColon; rw [h] at this; revert this; decide

theorem GoodTag.ne_warn1 {c : VroCfg} {t : Str} (g : GoodTag c t) : t ≠ kWarn1 := by
  intro h; have := g.noColon; rw [h] at this; revert this; decide

/-- everything the two placement theorems need about the list `placeTags` builds from a shaped base:
`keep ++ base = A1 ++ B`, the -t tags go between `A1` (no version-type entry) and `B`, the -T tags at
index `i`, which is the index just behind the last version-type entry when `base` has one. -/
theorem shaped_placed (c : VroCfg) (a : VroArgs) (base : List Str) (hs : ShapedBase c base)
    (ht : ∀ t ∈ a.tags, GoodTag c t) (hp : ∀ t ∈ a.postTags, GoodTag c t)
    (hpost : a.postTags = [] ∨ a.tags ≠ [] ∨ ∃ x ∈ base, isVT x = true) :
    ∃ A1 B i, keepPart c.keep ++ base = A1 ++ B ∧ (∀ x ∈ A1, isVT x = false) ∧
      placeTags c.keep base a.tags a.postTags = .ok (insertAt (A1 ++ a.tags ++ B) i a.postTags) ∧
      NoWarn (insertAt (A1 ++ a.tags ++ B) i a.postTags) ∧
      (∀ x ∈ insertAt (A1 ++ a.tags ++ B) i a.postTags, kindlyOne c x = .ok true) ∧
      ((∃ x ∈ base, isVT x = true) → ∃ l1 e l2, A1 ++ a.tags ++ B = l1 ++ e :: l2 ∧
          i = l1.length + 1 ∧ isVT e = true ∧ ∀ x ∈ l2, isVT x = false) := by
  obtain ⟨H, T, rfl, hH, hT⟩ := hs.split
  obtain ⟨A1, A2, i, hA, hpl, hlast⟩ := placeTags_shaped c.keep H T a.tags a.postTags hT hpost
  have hKB : keepPart c.keep ++ (H ++ T) = A1 ++ (A2 ++ T) := by
    rw [← List.append_assoc, hA, List.append_assoc]
  have hmem : ∀ x ∈ insertAt (A1 ++ a.tags ++ (A2 ++ T)) i a.postTags,
      x = kKeep ∨ x ∈ H ++ T ∨ x ∈ a.tags ∨ x ∈ a.postTags := by
    intro x hx
    rcases mem_insertAt.mp hx with h | h
    · rcases mem_mid.mp h with h | h
      · rw [← hKB] at h
        rcases List.mem_append.mp h with h | h
        · left
          cases hk : c.keep
          · simp [keepPart, hk] at h
          · simpa [keepPart, hk] using h
        · exact Or.inr (Or.inl h)
      · exact Or.inr (Or.inr (Or.inl h))
    · exact Or.inr (Or.inr (Or.inr h))
  refine ⟨A1, A2 ++ T, i, hKB, ?_, hpl, ?_, ?_, hlast⟩
  · intro x hx
    have : x ∈ keepPart c.keep ++ H := by rw [hA]; exact List.mem_append_left _ hx
    rcases List.mem_append.mp this with h | h
    · cases hk : c.keep
      · simp [keepPart, hk] at h
      · have : x = kKeep := by simpa [keepPart, hk] using h
        rw [this]; decide
    · exact hH x h
  · intro x hx
    rcases hmem x hx with h | h | h | h
    · rw [h]; decide
    · exact hs.noWarn x h
    · exact (ht x h).isWarn
    · exact (hp x h).isWarn
  · intro x hx
    rcases hmem x hx with h | h | h | h
    · rw [h]; exact fixed_kindly (by simp [fixedWords])
    · exact hs.kindly x h
    · exact (ht x h).kindly
    · exact (hp x h).kindly

/-! ## the two placement theorems -/

/-- **-t tags.**  On any dictionary list of the shape `ShapedBase`, `selectVRO` succeeds and every -t
tag stands on the resulting VRO in front of every version-type entry.  (Only `userVRO = false` is
needed of the configuration.) -/
theorem selectVRO_shaped_pretag' (c : VroCfg) (a : VroArgs) (hu : c.userVRO = false) (base : List Str)
    (store : List Str → List (Str × VroVal))
    (hcb : chooseBase c a a.tags = .ok (base, store)) (hs : ShapedBase c base)
    (ht : ∀ t ∈ a.tags, GoodTag c t) (hp : ∀ t ∈ a.postTags, GoodTag c t)
    (hpost : a.postTags = [] ∨ a.tags ≠ [] ∨ ∃ x ∈ base, isVT x = true) :
    ∃ out, selectVRO c a = .ok out ∧
      ∀ t ∈ a.tags, ∃ pre post, out.vro = pre ++ t :: post ∧ ∀ x ∈ pre, isVT x = false := by
  obtain ⟨A1, B, i, _, hA1, hpl, hnw, hk, _⟩ := shaped_placed c a base hs ht hp hpost
  obtain ⟨out, hsel, hvro⟩ := selectVRO_of_placed c a hu base store hcb _ hpl hnw hk
  refine ⟨out, hsel, ?_⟩
  intro t htm
  have hcmd : cmdOf c a = a.tags := by
    unfold cmdOf
    cases hta : a.tags with
    | nil => rw [hta] at htm; cases htm
    | cons t ts => simp
  rw [hcmd] at hvro
  have hm : movedByExact c a.tags t = false := by
    rw [(ht t htm).moved]; simp [htm]
  have hb2 : BeforeP (fun x => isVT x = false) t (A1 ++ a.tags ++ B) := by
    obtain ⟨ta, tb, htab⟩ := List.append_of_mem htm
    refine ⟨A1 ++ ta, tb ++ B, by rw [htab]; simp, ?_⟩
    intro x hx
    rcases List.mem_append.mp hx with h | h
    · exact hA1 x h
    · exact (ht x (by rw [htab]; simp [h])).isVT
  have hb3 := beforeP_insertAt i a.postTags (fun x hx => (hp x hx).isVT) hb2
  obtain ⟨pre, post, h1, h2⟩ := beforeP_cleanVro' hu a.tags a.inexact hnw hm (ht t htm).ne_typeExact hb3
  refine ⟨pre, post, ?_, h2⟩
  rw [hvro, h1]
  simp

/-- the same, stated with `GenCfg` -/
theorem selectVRO_shaped_pretag (c : VroCfg) (a : VroArgs) (g : GenCfg c) (base : List Str)
    (store : List Str → List (Str × VroVal))
    (hcb : chooseBase c a a.tags = .ok (base, store)) (hs : ShapedBase c base)
    (ht : ∀ t ∈ a.tags, GoodTag c t) (hp : ∀ t ∈ a.postTags, GoodTag c t)
    (hpost : a.postTags = [] ∨ a.tags ≠ [] ∨ ∃ x ∈ base, isVT x = true) :
    ∃ out, selectVRO c a = .ok out ∧
      ∀ t ∈ a.tags, ∃ pre post, out.vro = pre ++ t :: post ∧ ∀ x ∈ pre, isVT x = false :=
  selectVRO_shaped_pretag' c a g.user base store hcb hs ht hp hpost

/-! ## -T tags: what stands behind them -/

theorem split_left_of_not_mem {y : Str} {X Z pre post : List Str} (h : X ++ Z = pre ++ y :: post)
    (hZ : y ∉ Z) : ∃ R, X = pre ++ y :: R ∧ post = R ++ Z := by
  induction X generalizing pre with
  | nil =>
    exfalso; apply hZ
    simp only [List.nil_append] at h
    rw [h]; simp
  | cons x X1 ih =>
    cases pre with
    | nil =>
      simp only [List.cons_append, List.nil_append, List.cons.injEq] at h
      obtain ⟨rfl, h⟩ := h
      exact ⟨X1, rfl, h.symm⟩
    | cons p pre1 =>
      simp only [List.cons_append, List.cons.injEq] at h
      obtain ⟨rfl, h⟩ := h
      obtain ⟨R, rfl, hp⟩ := ih h
      exact ⟨R, rfl, hp⟩

/-- inserting entries that are neither `y` nor version-type entries keeps `NoVTBehind y` -/
theorem noVTBehind_insert_mid {y : Str} {X Y Z : List Str} (h : NoVTBehind y (X ++ Y)) (hyZ : y ∉ Z)
    (hZ : ∀ z ∈ Z, isVT z = false) : NoVTBehind y (X ++ Z ++ Y) := by
  intro pre post hsplit x hx
  rcases List.append_eq_append_iff.mp hsplit with ⟨a', hpre, hY⟩ | ⟨c', hXZ, hc⟩
  · exact h (X ++ a') post (by rw [hY]; simp) x hx
  · cases c' with
    | nil =>
      simp only [List.nil_append] at hc
      exact h X post (by rw [← hc]) x hx
    | cons d c'' =>
      simp only [List.cons_append, List.cons.injEq] at hc
      obtain ⟨hd, hpost⟩ := hc
      subst hd
      obtain ⟨R, hX, hc''⟩ := split_left_of_not_mem hXZ hyZ
      rw [hpost, hc''] at hx
      simp only [List.mem_append] at hx
      rcases hx with (hx | hx) | hx
      · exact h pre (R ++ Y) (by rw [hX]; simp) x (by simp [hx])
      · exact hZ x hx
      · exact h pre (R ++ Y) (by rw [hX]; simp) x (by simp [hx])

/-- version-type entries are never moved by `makeVroExact` (they are pseudo tags, hence not global) -/
theorem vt_not_moved {c : VroCfg}
    (hd : ∀ t, c.globalTags.contains t = true → pseudoTags.contains t = false)
    (cmd : List Str) {e : Str} (he : isVT e = true) : movedByExact c cmd e = false := by
  have key : ∀ k, pseudoTags.contains k = true → (k == kLatest) = false →
      (!c.recognized k || (!cmd.contains k && c.isGlobal k)) = false := by
    intro k hk hl
    have hkm : k ∈ pseudoTags := by simpa using hk
    have h1 : c.recognized k = true := by simp [VroCfg.recognized, hkm]
    have h2 : c.globalTags.contains k = false := by
      cases h : c.globalTags.contains k
      · rfl
      · rw [hd k h] at hk; cases hk
    have h2' : k ∉ c.globalTags := by simpa using h2
    simp [h1, VroCfg.isGlobal, h2', hl]
  have h3 : (e = kVersion ∨ e = kVersionBang) ∨ e = kVersionExpr := by simpa [isVT] using he
  unfold movedByExact
  rcases h3 with (rfl | rfl) | rfl
  · simpa [show splitColon0 kVersion = kVersion by decide] using key kVersion (by decide) (by decide)
  · simpa [show splitColon0 kVersionBang = kVersionBang by decide] using key kVersionBang (by decide) (by decide)
  · simpa [show splitColon0 kVersionExpr = kVersionExpr by decide] using key kVersionExpr (by decide) (by decide)

/-- an entry that `makeVroExact` keeps in place: what stands behind it afterwards are kept entries that
stood behind it before, perhaps `warn:1`, and the moved entries — none of them a version-type entry -/
theorem noVTBehind_makeVroExact_kept {y : Str} {l : List Str} (c : VroCfg) (cmd : List Str)
    (hu : c.userVRO = false) (hy : movedByExact c cmd y = false) (hy1 : y ≠ kWarn1)
    (hvt : ∀ x, isVT x = true → movedByExact c cmd x = false) (h : NoVTBehind y l) :
    NoVTBehind y (makeVroExact c cmd l) := by
  obtain ⟨W, hW, hW1⟩ := makeVroExact_shape c cmd l hu
  intro pre post hsplit x hx
  rw [hW, List.append_assoc] at hsplit
  have hnot : y ∉ W ++ uniqFirst (l.filter (movedByExact c cmd)) := by
    intro hm
    rcases List.mem_append.mp hm with hm | hm
    · exact hy1 (hW1 y hm)
    · have := (List.mem_filter.mp ((mem_uniqFirst y _).mp hm)).2
      rw [hy] at this; cases this
  obtain ⟨R, hX, hpost⟩ := split_left_of_not_mem hsplit hnot
  obtain ⟨A, B, hl, _, hB⟩ := filter_split hX
  rw [hpost] at hx
  rcases List.mem_append.mp hx with hx | hx
  · rw [← hB] at hx
    exact h A B hl x (List.mem_filter.mp hx).1
  · rcases List.mem_append.mp hx with hxw | hxm
    · rw [hW1 x hxw]; decide
    · have := (List.mem_filter.mp ((mem_uniqFirst x _).mp hxm)).2
      cases hv : isVT x
      · rfl
      · rw [hvt x hv] at this; cases this

/-- moved or kept, `makeVroExact` leaves no version-type entry behind `y` -/
theorem noVTBehind_makeVroExact_any {y : Str} {l : List Str} (c : VroCfg) (cmd : List Str)
    (hu : c.userVRO = false) (hy1 : y ≠ kWarn1)
    (hvt : ∀ x, isVT x = true → movedByExact c cmd x = false) (h : NoVTBehind y l) :
    NoVTBehind y (makeVroExact c cmd l) := by
  cases hy : movedByExact c cmd y
  · exact noVTBehind_makeVroExact_kept c cmd hu hy hy1 hvt h
  · exact noVTBehind_makeVroExact c cmd hu hy hvt

theorem noVTBehind_cleanVro' {c : VroCfg} (hu : c.userVRO = false) (cmd : List Str) (inexact : Bool)
    {l : List Str} (hl : NoWarn l) {y : Str} (hy1 : y ≠ kWarn1)
    (hvt : ∀ x, isVT x = true → movedByExact c cmd x = false)
    (h : NoVTBehind y l) : NoVTBehind y (cleanVro c cmd inexact l) := by
  rw [cleanVro_noWarn' hu cmd inexact hl]
  have h1 := noVTBehind_dedupe hl h
  have h2 : NoVTBehind y (if c.exact then makeVroExact c cmd (dedupe [] l) else dedupe [] l) := by
    cases hc : c.exact
    · simpa [hc] using h1
    · simpa [hc] using noVTBehind_makeVroExact_any c cmd hu hy1 hvt h1
  cases inexact
  · exact h2
  · exact noVTBehind_filter _ h2

/-- **-T tags.**  On any dictionary list of the shape `ShapedBase` that has a version-type entry,
`selectVRO` succeeds, the version-type entries of the list are on the resulting VRO, and a -T tag `y`
(not also given with -t) behind which no version-type entry stands in the dictionary list — in
particular one that does not occur in it — is on the resulting VRO with no version-type entry behind
it.  No hypothesis on `c.cmdTags` is needed. -/
theorem selectVRO_shaped_posttag' (c : VroCfg) (a : VroArgs) (g : GenCfg c) (base : List Str)
    (store : List Str → List (Str × VroVal))
    (hcb : chooseBase c a a.tags = .ok (base, store)) (hs : ShapedBase c base)
    (ht : ∀ t ∈ a.tags, GoodTag c t) (hp : ∀ t ∈ a.postTags, GoodTag c t)
    (hvt : ∃ x ∈ base, isVT x = true) :
    ∃ out, selectVRO c a = .ok out ∧ (∀ x ∈ base, isVT x = true → x ∈ out.vro) ∧
      ∀ y ∈ a.postTags, y ∉ a.tags → NoVTBehind y base →
        y ∈ out.vro ∧ ∀ pre post, out.vro = pre ++ y :: post → ∀ x ∈ post, isVT x = false := by
  obtain ⟨A1, B, i, hKB, hA1, hpl, hnw, hk, hlast⟩ :=
    shaped_placed c a base hs ht hp (Or.inr (Or.inr hvt))
  obtain ⟨out, hsel, hvro⟩ := selectVRO_of_placed c a g.user base store hcb _ hpl hnw hk
  obtain ⟨l1, e, l2, hv2, hi, he, hl2⟩ := hlast hvt
  have hbase : ∀ x ∈ base, x ∈ insertAt (A1 ++ a.tags ++ B) i a.postTags := by
    intro x hx
    apply mem_insertAt.mpr; left
    apply mem_mid.mpr; left
    rw [← hKB]; exact List.mem_append_right _ hx
  have hsurv : ∀ x ∈ base, isVT x = true → x ∈ cleanVro c (cmdOf c a) a.inexact (insertAt (A1 ++ a.tags ++ B) i a.postTags) := by
    intro x hx hv
    apply mem_cleanVro_of_mem' g.user _ a.inexact hnw (hbase x hx)
    intro h; rw [h] at hv; revert hv; decide
  have hne : (cleanVro c (cmdOf c a) a.inexact (insertAt (A1 ++ a.tags ++ B) i a.postTags)).isEmpty = false := by
    obtain ⟨x, hx, hv⟩ := hvt
    have := hsurv x hx hv
    cases hc : cleanVro c (cmdOf c a) a.inexact (insertAt (A1 ++ a.tags ++ B) i a.postTags) with
    | nil => rw [hc] at this; cases this
    | cons _ _ => rfl
  rw [hne] at hvro
  simp only [Bool.false_eq_true, if_false] at hvro
  refine ⟨out, hsel, ?_, ?_⟩
  · intro x hx hv; rw [hvro]; exact hsurv x hx hv
  · intro y hy hyt hyb
    have gy := hp y hy
    have hv3 : insertAt (A1 ++ a.tags ++ B) i a.postTags = (l1 ++ [e]) ++ a.postTags ++ l2 := by
      have e1 : l1 ++ e :: l2 = (l1 ++ [e]) ++ l2 := by simp
      have e2 : i = (l1 ++ [e]).length := by simp [hi]
      rw [hv2, e1, e2, insertAt_length]
    -- no version-type entry behind `y` in the list with the -t tags placed
    have hnv2 : NoVTBehind y (A1 ++ a.tags ++ B) := by
      apply noVTBehind_insert_mid _ hyt (fun z hz => (ht z hz).isVT)
      rw [← hKB]
      intro pre post hsplit x hx
      have hyk : y ∉ keepPart c.keep := by
        cases hkp : c.keep
        · simp [keepPart]
        · simp only [keepPart, if_true, List.mem_singleton]
          exact gy.ne_pseudo (by decide)
      obtain ⟨R, _, hb⟩ := suffix_of_not_mem hsplit hyk
      exact hyb R post hb x hx
    -- so `y` does not stand in front of (or at) the last version-type entry
    have hyl : y ∉ l1 ++ [e] := by
      intro hm
      rcases List.mem_append.mp hm with hm | hm
      · obtain ⟨p1, p2, rfl⟩ := List.append_of_mem hm
        have := hnv2 p1 (p2 ++ e :: l2) (by rw [hv2]; simp) e (by simp)
        rw [he] at this; cases this
      · simp only [List.mem_singleton] at hm
        have := gy.isVT
        rw [hm, he] at this; cases this
    have hnv3 : NoVTBehind y (insertAt (A1 ++ a.tags ++ B) i a.postTags) := by
      rw [hv3, List.append_assoc]
      intro pre post hsplit x hx
      obtain ⟨R, _, hrest⟩ := suffix_of_not_mem hsplit hyl
      have hxm : x ∈ a.postTags ++ l2 := by rw [hrest]; simp [hx]
      rcases List.mem_append.mp hxm with h | h
      · exact (hp x h).isVT
      · exact hl2 x h
    constructor
    · rw [hvro]
      apply mem_cleanVro_of_mem' g.user _ a.inexact hnw _ gy.ne_typeExact
      exact mem_insertAt.mpr (Or.inr hy)
    · rw [hvro]
      exact noVTBehind_cleanVro' g.user _ a.inexact hnw gy.ne_warn1
        (fun x hx => vt_not_moved g.disjoint _ hx) hnv3

/-- the -T theorem for a tag that does not occur in the dictionary list -/
theorem selectVRO_shaped_posttag (c : VroCfg) (a : VroArgs) (g : GenCfg c) (base : List Str)
    (store : List Str → List (Str × VroVal))
    (hcb : chooseBase c a a.tags = .ok (base, store)) (hs : ShapedBase c base)
    (ht : ∀ t ∈ a.tags, GoodTag c t) (hp : ∀ t ∈ a.postTags, GoodTag c t)
    (hvt : ∃ x ∈ base, isVT x = true) :
    ∃ out, selectVRO c a = .ok out ∧
      ∀ y ∈ a.postTags, y ∉ a.tags → y ∉ base →
        y ∈ out.vro ∧ ∀ pre post, out.vro = pre ++ y :: post → ∀ x ∈ post, isVT x = false := by
  obtain ⟨out, hsel, _, h⟩ := selectVRO_shaped_posttag' c a g base store hcb hs ht hp hvt
  refine ⟨out, hsel, ?_⟩
  intro y hy hyt hyb
  apply h y hy hyt
  intro pre post hsplit
  exact absurd (by rw [hsplit]; simp) hyb

/-! ## the default dictionary is an instance -/

theorem genCfg_of_default {c : VroCfg} (d : DefaultCfg c) : GenCfg c := ⟨d.user, d.disjoint⟩

theorem shapedBase_default {c : VroCfg} (d : DefaultCfg c) : ShapedBase c defaultBase := by
  refine ⟨?_, ?_, ⟨[kTypeExact, kCommandLine], [kVersion, kVersionExpr, kCurrent], rfl, by decide, by decide⟩⟩
  · unfold NoWarn; decide
  · intro x hx
    simp only [defaultBase, List.mem_cons, List.not_mem_nil, or_false] at hx
    rcases hx with rfl | rfl | rfl | rfl | rfl
    · exact fixed_kindly (by simp [fixedWords])
    · exact fixed_kindly (by simp [fixedWords])
    · exact fixed_kindly (by simp [fixedWords])
    · exact fixed_kindly (by simp [fixedWords])
    · exact (goodTag_current d).kindly

/-- no version-type entry stands behind a good tag in the default list (`current` is its last entry) -/
theorem noVTBehind_defaultBase {c : VroCfg} {y : Str} (gy : GoodTag c y) : NoVTBehind y defaultBase := by
  intro pre post hsplit x hx
  have hX : y ∉ [kTypeExact, kCommandLine, kVersion, kVersionExpr] := by
    simp only [List.mem_cons, List.not_mem_nil, or_false, not_or]
    exact ⟨gy.ne_typeExact, gy.ne_pseudo (by decide), gy.ne_pseudo (by decide), gy.ne_pseudo (by decide)⟩
  have hs : [kTypeExact, kCommandLine, kVersion, kVersionExpr] ++ [kCurrent] = pre ++ y :: post := by
    rw [← hsplit]; rfl
  obtain ⟨R, _, hrest⟩ := suffix_of_not_mem hs hX
  have hxm : x ∈ [kCurrent] := by rw [hrest]; simp [hx]
  simp only [List.mem_singleton] at hxm
  rw [hxm]; decide

/-- the default-dictionary -t theorem (the placement clause of `C03_pretag_before_version`) recovered
from the general one -/
theorem selectVRO_default_pretag_of_shaped (c : VroCfg) (a : VroArgs) (d : DefaultCfg c)
    (ht : ∀ t ∈ a.tags, GoodTag c t) (hp : ∀ t ∈ a.postTags, GoodTag c t) :
    ∃ out, selectVRO c a = .ok out ∧
      ∀ t ∈ a.tags, ∃ pre post, out.vro = pre ++ t :: post ∧ ∀ x ∈ pre, isVT x = false := by
  obtain ⟨store, hcb⟩ := chooseBase_default d a (tags := a.tags) (fun t htm => (ht t htm).notDefault)
  exact selectVRO_shaped_pretag c a (genCfg_of_default d) defaultBase store hcb (shapedBase_default d) ht hp
    (Or.inr (Or.inr ⟨kVersion, by decide, by decide⟩))

/-- the default-dictionary -T theorem (`C03_posttag_after_version`) recovered from the general one -/
theorem selectVRO_default_posttag_of_shaped (c : VroCfg) (a : VroArgs) (d : DefaultCfg c)
    (ht : ∀ t ∈ a.tags, GoodTag c t) (hp : ∀ t ∈ a.postTags, GoodTag c t) :
    ∃ out, selectVRO c a = .ok out ∧ kVersion ∈ out.vro ∧ kVersionExpr ∈ out.vro ∧
      ∀ y ∈ a.postTags, y ∉ a.tags →
        y ∈ out.vro ∧ ∀ pre post, out.vro = pre ++ y :: post → ∀ x ∈ post, isVT x = false := by
  obtain ⟨store, hcb⟩ := chooseBase_default d a (tags := a.tags) (fun t htm => (ht t htm).notDefault)
  obtain ⟨out, hsel, hv, h⟩ := selectVRO_shaped_posttag' c a (genCfg_of_default d) defaultBase store hcb
    (shapedBase_default d) ht hp ⟨kVersion, by decide, by decide⟩
  exact ⟨out, hsel, hv kVersion (by decide) (by decide), hv kVersionExpr (by decide) (by decide),
    fun y hy hyt => h y hy hyt (noVTBehind_defaultBase (hp y hy))⟩

/-! ## non-vacuity: dictionaries other than the default one -/

def gBeta : Str := [98, 101, 116, 97]  -- 'beta'
def gStable : Str := [115, 116, 97, 98, 108, 101]  -- 'stable'
def gRc : Str := [114, 99]  -- 'rc'
def gDbz : Str := [100, 98, 49]  -- 'db1'
def gFileX : Str := [102, 105, 108, 101, 58, 120]  -- 'file:x'
/-- global tags of the examples: `current stable beta rc` -/
def gGlobals : List Str := [kCurrent, gStable, gBeta, gRc]

def gCfg (dict : List (Str × VroVal)) (keep exact : Bool) (globals cmd : List Str) : VroCfg :=
  { vroDict := dict, userVRO := false, keep := keep, exact := exact, globalTags := globals,
    cmdTags := cmd, prevPreferred := [] }
/-- `setup -t tags -T postTags [-z dbz] product version` -/
def gArgs (tags postTags : List Str) (dbz : Option Str) : VroArgs :=
  { tags := tags, productDir := false, versionName := true, dbz := dbz, inexact := false, postTags := postTags }

theorem gGlobals_disjoint : ∀ t, gGlobals.contains t = true → pseudoTags.contains t = false := by
  intro t h
  have : t = kCurrent ∨ t = gStable ∨ t = gBeta ∨ t = gRc := by simpa [gGlobals] using h
  rcases this with rfl | rfl | rfl | rfl <;> decide

theorem gGenCfg (dict : List (Str × VroVal)) (keep exact : Bool) (cmd : List Str) :
    GenCfg (gCfg dict keep exact gGlobals cmd) := ⟨rfl, gGlobals_disjoint⟩

theorem gGoodTag (dict : List (Str × VroVal)) (keep exact : Bool) (cmd : List Str) {t : Str}
    (h : t ∈ [gStable, gBeta, gRc]) : GoodTag (gCfg dict keep exact gGlobals cmd) t := by
  simp only [List.mem_cons, List.not_mem_nil, or_false] at h
  rcases h with rfl | rfl | rfl
  · exact ⟨(by decide : gGlobals.contains gStable = true), by decide, by decide, by decide⟩
  · exact ⟨(by decide : gGlobals.contains gBeta = true), by decide, by decide, by decide⟩
  · exact ⟨(by decide : gGlobals.contains gRc = true), by decide, by decide, by decide⟩

/-- (1) a flat dictionary `default: commandLine beta version versionExpr current latest` -/
def gBase1 : List Str := [kCommandLine, gBeta, kVersion, kVersionExpr, kCurrent, kLatest]
def gCfg1 (keep exact : Bool) : VroCfg := gCfg [(kDefault, .flat gBase1)] keep exact gGlobals []

theorem gShaped1 (keep exact : Bool) : ShapedBase (gCfg1 keep exact) gBase1 :=
  ⟨by unfold NoWarn; decide, by cases keep <;> cases exact <;> decide,
    ⟨[kCommandLine, gBeta], [kVersion, kVersionExpr, kCurrent, kLatest], rfl, by decide, by decide⟩⟩

/-- the hypotheses of both theorems hold for `setup --keep -t rc -T stable p 1.0` on dictionary (1) ... -/
example : ∃ out, selectVRO (gCfg1 true false) (gArgs [gRc] [gStable] none) = .ok out ∧
    (∀ t ∈ [gRc], ∃ pre post, out.vro = pre ++ t :: post ∧ ∀ x ∈ pre, isVT x = false) ∧
    (∀ y ∈ [gStable], y ∉ [gRc] → y ∉ gBase1 →
      y ∈ out.vro ∧ ∀ pre post, out.vro = pre ++ y :: post → ∀ x ∈ post, isVT x = false) := by
  have ht : ∀ t ∈ (gArgs [gRc] [gStable] none).tags, GoodTag (gCfg1 true false) t :=
    fun t h => gGoodTag _ _ _ _ (by simp only [gArgs, List.mem_singleton] at h; simp [h])
  have hp : ∀ t ∈ (gArgs [gRc] [gStable] none).postTags, GoodTag (gCfg1 true false) t :=
    fun t h => gGoodTag _ _ _ _ (by simp only [gArgs, List.mem_singleton] at h; simp [h])
  obtain ⟨o1, h1, p1⟩ := selectVRO_shaped_pretag _ _ (gGenCfg _ true false []) gBase1 _ rfl (gShaped1 true false)
    ht hp (Or.inr (Or.inl (by decide)))
  obtain ⟨o2, h2, p2⟩ := selectVRO_shaped_posttag _ _ (gGenCfg _ true false []) gBase1 _ rfl (gShaped1 true false)
    ht hp ⟨kVersion, by decide, by decide⟩
  rw [h1] at h2
  cases h2
  exact ⟨o1, h1, p1, p2⟩

/-- ... and the VRO is `keep commandLine rc beta version versionExpr stable current latest` -/
example : (selectVRO (gCfg1 true false) (gArgs [gRc] [gStable] none)).map (·.vro)
    = .ok [kKeep, kCommandLine, gRc, gBeta, kVersion, kVersionExpr, gStable, kCurrent, kLatest] := by decide
/-- with `--exact`: `commandLine rc version versionExpr warn:1 beta stable current latest` -/
example : (selectVRO (gCfg1 false true) (gArgs [gRc] [gStable] none)).map (·.vro)
    = .ok [kCommandLine, gRc, kVersion, kVersionExpr, kWarn1, gBeta, gStable, kCurrent, kLatest] := by decide

/-- (2) a dictionary keyed by database: `default: {db1: type:exact version beta, default: versionExpr current}` -/
def gDict2 : List (Str × VroVal) :=
  [(kDefault, .byDbz [(gDbz, [kTypeExact, kVersion, gBeta]), (kDefault, [kVersionExpr, kCurrent])])]
def gCfg2 (keep exact : Bool) (cmd : List Str) : VroCfg := gCfg gDict2 keep exact gGlobals cmd

theorem gShaped2 (keep exact : Bool) (cmd : List Str) :
    ShapedBase (gCfg2 keep exact cmd) [kTypeExact, kVersion, gBeta] :=
  ⟨by unfold NoWarn; decide,
   by
    intro x hx
    simp only [List.mem_cons, List.not_mem_nil, or_false] at hx
    rcases hx with rfl | rfl | rfl
    · exact fixed_kindly (by simp [fixedWords])
    · exact fixed_kindly (by simp [fixedWords])
    · exact (gGoodTag gDict2 keep exact cmd (t := gBeta) (by simp)).kindly,
   ⟨[kTypeExact], [kVersion, gBeta], rfl, by decide, by decide⟩⟩

/-- `-z db1` selects the list `type:exact version beta` -/
example : ∃ store, chooseBase (gCfg2 false false []) (gArgs [gRc] [gStable] (some gDbz)) [gRc]
    = .ok ([kTypeExact, kVersion, gBeta], store) := ⟨_, rfl⟩
example : (selectVRO (gCfg2 false false []) (gArgs [gRc] [gStable] (some gDbz))).map (·.vro)
    = .ok [kTypeExact, gRc, kVersion, gStable, gBeta] := by decide

/-- without `-z`, with a version: `commandLine` is put in front of the `default` list; the instance
already has `stable` among its command-line tags, `--exact`: `stable` (given with -T) is *kept* in
place by `makeVroExact` and `current` is moved — the case `noVTBehind_makeVroExact_kept` covers -/
theorem gShaped2' (keep exact : Bool) (cmd : List Str) :
    ShapedBase (gCfg2 keep exact cmd) [kCommandLine, kVersionExpr, kCurrent] :=
  ⟨by unfold NoWarn; decide,
   by
    intro x hx
    simp only [List.mem_cons, List.not_mem_nil, or_false] at hx
    rcases hx with rfl | rfl | rfl
    · exact fixed_kindly (by simp [fixedWords])
    · exact fixed_kindly (by simp [fixedWords])
    · exact GoodTag.kindly ⟨(by decide : gGlobals.contains kCurrent = true), by decide, by decide, by decide⟩,
   ⟨[kCommandLine], [kVersionExpr, kCurrent], rfl, by decide, by decide⟩⟩

example : ∃ out, selectVRO (gCfg2 true true [gStable]) (gArgs [] [gStable] none) = .ok out ∧
    (∀ y ∈ [gStable], y ∉ ([] : List Str) → y ∉ [kCommandLine, kVersionExpr, kCurrent] →
      y ∈ out.vro ∧ ∀ pre post, out.vro = pre ++ y :: post → ∀ x ∈ post, isVT x = false) :=
  selectVRO_shaped_posttag _ _ (gGenCfg _ true true [gStable]) [kCommandLine, kVersionExpr, kCurrent] _ rfl
    (gShaped2' true true [gStable]) (fun t h => by cases h)
    (fun t h => gGoodTag _ _ _ _ (by simp only [gArgs, List.mem_singleton] at h; simp [h]))
    ⟨kVersionExpr, by decide, by decide⟩
example : (selectVRO (gCfg2 true true [gStable]) (gArgs [] [gStable] none)).map (·.vro)
    = .ok [kKeep, kCommandLine, kVersionExpr, gStable, kCurrent] := by decide

/-! ## negation witnesses: what fails without the hypotheses -/

/-- an entry that occurs once has one split; if a version-type entry stands before it, it is not
"before every version-type entry" -/
theorem not_before_of_unique {l X Y : List Str} {t v : Str} (hl : l = X ++ t :: Y) (hX : t ∉ X) (hY : t ∉ Y)
    (hv : v ∈ X) (hvt : isVT v = true) :
    ¬ ∃ pre post, l = pre ++ t :: post ∧ ∀ x ∈ pre, isVT x = false := by
  rintro ⟨pre, post, h, hpre⟩
  have : pre = X := unique_split (hl.symm.trans h) hX hY
  rw [this] at hpre
  rw [hpre v hv] at hvt; cases hvt

theorem vro_of_map {r : Except Err VroOut} {l : List Str} {out : VroOut} (h : r.map (·.vro) = .ok l)
    (ho : r = .ok out) : out.vro = l := by
  subst ho
  simpa [Except.map] using h

/-- (W1) `ShapedBase.split` is needed for the -t theorem: on `default: version commandLine current`
every other hypothesis holds, `selectVRO` succeeds, and `-t beta` ends up *behind* `version`. -/
def w1Base : List Str := [kVersion, kCommandLine, kCurrent]
def w1Cfg : VroCfg := gCfg [(kDefault, .flat w1Base)] false false gGlobals []
def w1Args : VroArgs := gArgs [gBeta] [] none

theorem W1_split_needed :
    GenCfg w1Cfg ∧ NoWarn w1Base ∧ (∀ x ∈ w1Base, kindlyOne w1Cfg x = .ok true) ∧
    (∃ store, chooseBase w1Cfg w1Args w1Args.tags = .ok (w1Base, store)) ∧
    (∀ t ∈ w1Args.tags, GoodTag w1Cfg t) ∧ (∀ t ∈ w1Args.postTags, GoodTag w1Cfg t) ∧
    (w1Args.postTags = [] ∨ w1Args.tags ≠ [] ∨ ∃ x ∈ w1Base, isVT x = true) ∧
    (selectVRO w1Cfg w1Args).map (·.vro) = .ok [kVersion, kCommandLine, gBeta, kCurrent] ∧
    -- the shape fails ...
    (¬ ∃ H T, w1Base = H ++ T ∧ (∀ x ∈ H, isVT x = false) ∧
        (∀ x ∈ T, (x == kCommandLine || isType x) = false)) ∧
    -- ... and so does the conclusion
    ¬ ∃ out, selectVRO w1Cfg w1Args = .ok out ∧
        ∀ t ∈ w1Args.tags, ∃ pre post, out.vro = pre ++ t :: post ∧ ∀ x ∈ pre, isVT x = false := by
  have hres : (selectVRO w1Cfg w1Args).map (·.vro) = .ok [kVersion, kCommandLine, gBeta, kCurrent] := by decide
  refine ⟨gGenCfg _ _ _ _, by unfold NoWarn; decide, by decide, ⟨_, rfl⟩, ?_, (fun t h => by cases h),
    Or.inl rfl, hres, ?_, ?_⟩
  · intro t h
    exact gGoodTag _ _ _ _ (by simp only [w1Args, gArgs, List.mem_singleton] at h; simp [h])
  · rintro ⟨H, T, hb, hH, hT⟩
    cases H with
    | nil =>
      simp only [List.nil_append] at hb
      have := hT kCommandLine (by rw [← hb]; decide)
      revert this; decide
    | cons h H' =>
      have hh : h = kVersion := by
        simp only [w1Base, List.cons_append, List.cons.injEq] at hb
        exact hb.1.symm
      have := hH h (by simp)
      rw [hh] at this; revert this; decide
  · rintro ⟨out, hsel, hall⟩
    have hv := vro_of_map hres hsel
    exact not_before_of_unique (X := [kVersion, kCommandLine]) (Y := [kCurrent]) (v := kVersion)
      hv (by decide) (by decide) (by decide) (by decide) (hall gBeta (by decide))

/-- (W2) the hypothesis on `y` (`y ∉ base`, or `NoVTBehind y base`) is needed for the -T theorem: on
`default: commandLine stable version versionExpr current` (a shaped list) `-T stable` leaves `stable`
where it already stood, in front of `version`. -/
def w2Base : List Str := [kCommandLine, gStable, kVersion, kVersionExpr, kCurrent]
def w2Cfg : VroCfg := gCfg [(kDefault, .flat w2Base)] false false gGlobals []
def w2Args : VroArgs := gArgs [] [gStable] none

theorem W2_posttag_in_base :
    GenCfg w2Cfg ∧ ShapedBase w2Cfg w2Base ∧
    (∃ store, chooseBase w2Cfg w2Args w2Args.tags = .ok (w2Base, store)) ∧
    (∀ t ∈ w2Args.tags, GoodTag w2Cfg t) ∧ (∀ t ∈ w2Args.postTags, GoodTag w2Cfg t) ∧
    (∃ x ∈ w2Base, isVT x = true) ∧
    (selectVRO w2Cfg w2Args).map (·.vro) = .ok [kCommandLine, gStable, kVersion, kVersionExpr, kCurrent] ∧
    ¬ ∃ out, selectVRO w2Cfg w2Args = .ok out ∧
        ∀ y ∈ w2Args.postTags, y ∉ w2Args.tags →
          y ∈ out.vro ∧ ∀ pre post, out.vro = pre ++ y :: post → ∀ x ∈ post, isVT x = false := by
  have hres : (selectVRO w2Cfg w2Args).map (·.vro)
      = .ok [kCommandLine, gStable, kVersion, kVersionExpr, kCurrent] := by decide
  refine ⟨gGenCfg _ _ _ _, ⟨by unfold NoWarn; decide, by decide,
      ⟨[kCommandLine, gStable], [kVersion, kVersionExpr, kCurrent], rfl, by decide, by decide⟩⟩,
    ⟨_, rfl⟩, (fun t h => by cases h), ?_, ⟨kVersion, by decide, by decide⟩, hres, ?_⟩
  · intro t h
    exact gGoodTag _ _ _ _ (by simp only [w2Args, gArgs, List.mem_singleton] at h; simp [h])
  · rintro ⟨out, hsel, hall⟩
    have hv := vro_of_map hres hsel
    have := (hall gStable (by decide) (by decide)).2 [kCommandLine] [kVersion, kVersionExpr, kCurrent]
      (by rw [hv]; rfl) kVersion (by decide)
    revert this; decide

/-- (W3) `hpost` is needed: -T without -t on a list without version-type entries: `where` is unbound -/
example : (selectVRO (gCfg [(kDefault, .flat [kCommandLine, kCurrent])] false false gGlobals [])
    (gArgs [] [gStable] none)).map (·.vro) = .error .unboundLocal := by decide

/-- (W4) `ShapedBase.kindly` is needed: an entry `file:x` makes `_kindlySetPreferredTags` fail
(outside the model: `Err.unsupported`) -/
example : (selectVRO (gCfg [(kDefault, .flat [kCommandLine, gFileX, kVersion, kCurrent])] false false gGlobals [])
    (gArgs [gBeta] [] none)).map (·.vro) = .error .unsupported := by decide

/-- (W5) `GenCfg.disjoint` is needed for the -T theorem: were `version` registered as a global tag,
`--exact` would move it to the end, behind a -T tag that is one of the instance's command-line tags -/
example : (selectVRO (gCfg [(kDefault, .flat [kCommandLine, kVersion, kCurrent])] false true (kVersion :: gGlobals) [gStable])
    (gArgs [] [gStable] none)).map (·.vro) = .ok [kCommandLine, gStable, kWarn1, kVersion, kCurrent] := by decide

/-- (W6) `GenCfg.user` is needed: with `Eups(vro=...)` a -t tag is refused -/
example : (selectVRO { gCfg1 false false with userVRO := true } (gArgs [gBeta] [] none)).map (·.vro)
    = .error .runtimeError := by decide

end EupsModel.Vro
