import EupsModel.Lemmas.Vro
import EupsModel.Lemmas.VroSelect
/-! "Pre-tags override table versions" for -t tags of any kind — user tags (`mine`, kept as `user:mine`) included — and
whatever the exact mode. -/
namespace EupsModel.Vro

/-- The placement half, as `C03_pretag_before_version` states it (repeated here to keep this file below Props). -/
theorem pretag_before_version_default (c : VroCfg) (a : VroArgs) (d : DefaultCfg c)
    (ht : ∀ t ∈ a.tags, GoodTag c t) (hp : ∀ t ∈ a.postTags, GoodTag c t) :
    ∃ out, selectVRO c a = .ok out ∧
      ∀ t ∈ a.tags, ∃ pre post, out.vro = pre ++ t :: post ∧
        ∀ x ∈ pre, (x ∈ [kKeep, kTypeExact, kCommandLine] ∨ x ∈ a.tags) ∧ isVT x = false := by
  obtain ⟨out, hsel, hvro⟩ := selectVRO_default d a ht hp
  refine ⟨out, hsel, ?_⟩
  intro t htm
  have hnw := noWarn_placed (keep := c.keep) ht hp
  have hm : movedByExact c a.tags t = false := by
    rw [(ht t htm).moved]; simp [htm]
  have hne : t ≠ kTypeExact := by
    intro h; have := (ht t htm).noColon; rw [h] at this; revert this; decide
  obtain ⟨pre, post, h1, h2⟩ := beforeP_cleanVro d a.tags a.inexact hnw hm hne (beforeP_placed c.keep a.tags a.postTags htm)
  refine ⟨pre, post, by rw [hvro, h1], ?_⟩
  intro x hx
  refine ⟨h2 x hx, ?_⟩
  rcases h2 x hx with h | h
  · simp only [List.mem_cons, List.not_mem_nil, or_false] at h
    rcases h with rfl | rfl | rfl <;> decide
  · exact (ht x h).isVT

/-- Below the top level, with nothing set up beforehand: if `x` is the only -t tag that designates a version of the
product, that version is the answer on the VRO `selectVRO` built — whatever version (or expression) the table names,
with or without `--exact`, for -t tags of any kind: `key t` is the name the chain records of tag `t` are kept under
(`user:mine` for the user tag `mine`). -/
theorem pretag_overrides_any_tag (c : VroCfg) (a : VroArgs) (d : DefaultCfg c)
    (ht : ∀ t ∈ a.tags, GoodTag c t) (hp : ∀ t ∈ a.postTags, GoodTag c t)
    (out : VroOut) (hsel : selectVRO c a = .ok out)
    (C : Ctx) (r : Req) (hr : r.already = none) (hdepth : 0 < r.depth)
    (key : Str → Str) (htag : ∀ t ∈ a.tags, IsTagEntry C t (key t))
    (x : Str) (hx : x ∈ a.tags) (p : Prod) (hxp : lookupTag C.db (key x) r.name r.flavor = some p)
    (hothers : ∀ t ∈ a.tags, t ≠ x → lookupTag C.db (key t) r.name r.flavor = none) :
    find C r out.vro = .ok (some ⟨p, x, x⟩) := by
  obtain ⟨out', hsel', hpos⟩ := pretag_before_version_default c a d ht hp
  rw [hsel] at hsel'
  cases hsel'
  obtain ⟨A, B, hAB, hxA, hA⟩ := beforeP_first (P := fun y => (y ∈ [kKeep, kTypeExact, kCommandLine] ∨ y ∈ a.tags) ∧ isVT y = false)
    (hpos x hx)
  rw [find_eq_walk _ hr]
  apply (walk_hit_iff C r out.vro ⟨p, x, x⟩).mpr
  refine ⟨A, B, hAB, ?_, ?_⟩
  · show lookupEntry C r x B = _
    rw [lookupEntry_tagKey B (htag x hx), hxp]
  · intro a0 e b hsplit
    have heA : e ∈ A := by rw [hsplit]; simp
    obtain ⟨hmem, _⟩ := hA e heA
    rcases hmem with h | h
    · simp only [List.mem_cons, List.not_mem_nil, or_false] at h
      rcases h with rfl | rfl | rfl
      · simp [lookupEntry, show (kKeep == kPath) = false by decide, hdepth, hr]
      · simp [lookupEntry, show (kTypeExact == kPath) = false by decide,
          show (kTypeExact == kKeep) = false by decide, show (kTypeExact == kCommandLine) = false by decide,
          show isVT kTypeExact = false by decide, show isWarn kTypeExact = false by decide,
          tagKey_typeExact C, show colon ∈ kTypeExact by decide, show isType kTypeExact = true by decide]
      · simp [lookupEntry, show (kCommandLine == kPath) = false by decide,
          show (kCommandLine == kKeep) = false by decide, hr]
    · have hne : e ≠ x := fun hc => hxA (hc ▸ heA)
      rw [lookupEntry_tagKey _ (htag e h), hothers e h hne]

/-- a -t tag stands in `placed` behind nothing but `keep`, `type:exact`, `commandLine` and the -t tags given *before it* -/
theorem beforeP_placed_split (keep : Bool) (ta tb postTags : List Str) (t : Str) :
    BeforeP (fun x => x ∈ [kKeep, kTypeExact, kCommandLine] ∨ x ∈ ta) t (placed keep (ta ++ t :: tb) postTags) := by
  refine ⟨keepPart keep ++ [kTypeExact, kCommandLine] ++ ta, tb ++ [kVersion, kVersionExpr] ++ postTags ++ [kCurrent],
    by simp [placed], ?_⟩
  intro x hx
  simp only [List.mem_append, List.mem_cons, List.not_mem_nil, or_false] at hx
  rcases hx with (hx | hx) | hx
  · cases keep
    · simp [keepPart] at hx
    · simp [keepPart] at hx; subst hx; simp
  · rcases hx with rfl | rfl <;> simp
  · right; exact hx

/-- **Precedence among pre-tags is left to right.**  Below the top level, with nothing set up beforehand, the answer on
the VRO `selectVRO` built is the version designated by the FIRST -t tag on the command line that designates one —
whatever the later -t tags designate, whatever version (or expression) the table names, with or without `--exact`, for
tags of any kind (`key t` = the name the chain records of `t` are kept under: `user:mine` for the user tag `mine`). -/
theorem pretag_first_designating (c : VroCfg) (a : VroArgs) (d : DefaultCfg c)
    (ht : ∀ t ∈ a.tags, GoodTag c t) (hp : ∀ t ∈ a.postTags, GoodTag c t)
    (out : VroOut) (hsel : selectVRO c a = .ok out)
    (C : Ctx) (r : Req) (hr : r.already = none) (hdepth : 0 < r.depth)
    (key : Str → Str) (htag : ∀ t ∈ a.tags, IsTagEntry C t (key t))
    (ta tb : List Str) (x : Str) (hsplit : a.tags = ta ++ x :: tb)
    (p : Prod) (hxp : lookupTag C.db (key x) r.name r.flavor = some p)
    (hbefore : ∀ t ∈ ta, lookupTag C.db (key t) r.name r.flavor = none) :
    find C r out.vro = .ok (some ⟨p, x, x⟩) := by
  have hx : x ∈ a.tags := by rw [hsplit]; simp
  have hta : ∀ t ∈ ta, t ∈ a.tags := by intro t h; rw [hsplit]; simp [h]
  obtain ⟨out', hsel', hvro⟩ := selectVRO_default d a ht hp
  rw [hsel] at hsel'
  cases hsel'
  have hnw := noWarn_placed (keep := c.keep) ht hp
  have hm : movedByExact c a.tags x = false := by
    rw [(ht x hx).moved]; simp [hx]
  have hne : x ≠ kTypeExact := by
    intro h; have := (ht x hx).noColon; rw [h] at this; revert this; decide
  have hbp : BeforeP (fun y => y ∈ [kKeep, kTypeExact, kCommandLine] ∨ y ∈ ta) x (placed c.keep a.tags a.postTags) := by
    rw [hsplit]; exact beforeP_placed_split c.keep ta tb a.postTags x
  have hpos := beforeP_cleanVro d a.tags a.inexact hnw hm hne hbp
  rw [← hvro] at hpos
  obtain ⟨A, B, hAB, hxA, hA⟩ := beforeP_first hpos
  rw [find_eq_walk _ hr]
  apply (walk_hit_iff C r out.vro ⟨p, x, x⟩).mpr
  refine ⟨A, B, hAB, ?_, ?_⟩
  · show lookupEntry C r x B = _
    rw [lookupEntry_tagKey B (htag x hx), hxp]
  · intro a0 e b hsp
    have heA : e ∈ A := by rw [hsp]; simp
    rcases hA e heA with h | h
    · simp only [List.mem_cons, List.not_mem_nil, or_false] at h
      rcases h with rfl | rfl | rfl
      · simp [lookupEntry, show (kKeep == kPath) = false by decide, hdepth, hr]
      · simp [lookupEntry, show (kTypeExact == kPath) = false by decide,
          show (kTypeExact == kKeep) = false by decide, show (kTypeExact == kCommandLine) = false by decide,
          show isVT kTypeExact = false by decide, show isWarn kTypeExact = false by decide,
          tagKey_typeExact C, show colon ∈ kTypeExact by decide, show isType kTypeExact = true by decide]
      · simp [lookupEntry, show (kCommandLine == kPath) = false by decide,
          show (kCommandLine == kKeep) = false by decide, hr]
    · rw [lookupEntry_tagKey _ (htag e (hta e h)), hbefore e h]

/-- ... and that is what the flavor loop of `Eups.setup` settles on: when the first designating -t tag designates a
version for the native flavor, the fallback flavors are not consulted, whatever they declare. -/
theorem pretag_first_designating_setup (c : VroCfg) (a : VroArgs) (d : DefaultCfg c)
    (ht : ∀ t ∈ a.tags, GoodTag c t) (hp : ∀ t ∈ a.postTags, GoodTag c t)
    (out : VroOut) (hsel : selectVRO c a = .ok out)
    (C : Ctx) (r : Req) (keep : Bool) (native : Str) (rest : List Str) (hr : r.already = none) (hdepth : 0 < r.depth)
    (key : Str → Str) (htag : ∀ t ∈ a.tags, IsTagEntry C t (key t))
    (ta tb : List Str) (x : Str) (hsplit : a.tags = ta ++ x :: tb)
    (p : Prod) (hxp : lookupTag C.db (key x) r.name native = some p)
    (hbefore : ∀ t ∈ ta, lookupTag C.db (key t) r.name native = none) :
    resolve C r keep out.vro (native :: rest) = .ok (some ⟨p, x, x⟩) := by
  have hf := pretag_first_designating c a d ht hp out hsel C { r with flavor := native } hr hdepth key htag ta tb x hsplit p
    hxp hbefore
  have hacc : acceptableB { r with flavor := native } ⟨p, x, x⟩ = .ok true := by
    unfold acceptableB
    cases hv : r.version with
    | none => rfl
    | some v =>
      have : (r.depth == 0) = false := by
        cases hd : r.depth with
        | zero => rw [hd] at hdepth; cases hdepth
        | succ n => rfl
      simp [this]
  unfold resolve
  rw [resolveFlavor_of_find_some hf hacc]

end EupsModel.Vro
