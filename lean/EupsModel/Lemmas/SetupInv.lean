import EupsModel.Lemmas.SetupSpec
/-! Invariants of `setup` that need no rank on names: `alreadySetupProducts` stays well formed (`setup_alOK`), and a
schema for environment invariants indexed by the *subjects* of the requests a run can make (`setup_subjInv`):
C01 clause (a), the C04 frame clause and the C04 depth clause are instances. -/
namespace EupsModel.Setup

/-! ### `alreadySetupProducts`, for every database -/

theorem install_alOK (cfg : Cfg) (rec : Rec) (hal : AlOK cfg rec) (depth : Nat) (noRec : Bool) (vro : List VroEnt)
    (d : Decl) (reason : Option VroEnt) (hc : Canon cfg.db d) (s s' : St) (ha : AlreadyOK cfg.db s.already)
    (h : (install rec cfg depth noRec vro d reason s).st? = some s') : AlreadyOK cfg.db s'.already := by
  have hrecd : ∀ s1 : St, AlreadyOK cfg.db s1.already → AlreadyOK cfg.db (record d reason s1).already :=
    fun s1 h1 => alreadyOK_aset cfg.db _ h1 d reason hc
  unfold install at h
  split at h
  · exact acts_already cfg rec hal true depth noRec vro d _ _ s' (hrecd s ha) h
  · split at h
    · simp [Res.st?] at h; subst h; exact ha
    · split at h
      · simp [Res.st?] at h
      · rename_i s1 hr
        exact acts_already cfg rec hal true depth noRec vro d _ _ s' (hrecd s1 (hal _ _ _ _ _ _ _ _ _ ha (by rw [hr]; rfl))) h
      · rename_i s1 hr
        exact acts_already cfg rec hal true depth noRec vro d _ _ s' (hrecd s1 (hal _ _ _ _ _ _ _ _ _ ha (by rw [hr]; rfl))) h
      · rename_i s1 hr
        exact acts_already cfg rec hal true depth noRec vro d _ _ s' (hrecd s1 (hal _ _ _ _ _ _ _ _ _ ha (by rw [hr]; rfl))) h

theorem setup_alOK (cfg : Cfg) : ∀ fuel, AlOK cfg (setup cfg fuel) := by
  intro fuel
  induction fuel with
  | zero => intro fwd depth noRec vro n ver vexpr s s' _ h; simp [setup_zero, Res.st?] at h
  | succ k ih =>
    intro fwd depth noRec vro n ver vexpr s s' ha h
    cases fwd with
    | true =>
      rw [setup_succ_true] at h
      cases hres : resolve cfg.db cfg.path cfg.keep s.already n ver vexpr depth vro.length vro with
      | none => rw [hres] at h; simp [Res.st?] at h; subst h; exact ha
      | error => rw [hres] at h; simp [Res.st?] at h; subst h; exact ha
      | found d reason =>
        rw [hres] at h
        obtain ⟨hc, hname⟩ := resolve_spec cfg.db cfg.path cfg.keep s.already ha n ver vexpr depth _ _ _ _ hres
        try simp only at h
        obtain ⟨hc, hname⟩ := pickDecl_spec cfg.db s.cache d _ hc hname
        revert h hc hname; generalize pickDecl cfg.db s.cache d = d; intro h hc hname
        exact install_alOK cfg (setup cfg k) ih depth noRec vro d reason hc _ s'
          (register_already cfg depth d reason (s.afterResolve cfg depth vro n ver vexpr) ha hc) h
    | false =>
      rw [setup_succ_false] at h
      cases hsp : setupProd cfg.db s.env n with
      | none => rw [hsp] at h; simp [Res.st?] at h; subst h; exact ha
      | some d =>
        rw [hsp] at h
        exact acts_already cfg (setup cfg k) ih false depth noRec vro d _
          ⟨{ s.env with dirs := aunset s.env.dirs d.name, recs := aunset s.env.recs d.name }, s.aliases, s.unaliased, s.already, s.cache⟩
          s' ha h

/-! ### invariants indexed by the subjects of requests -/

/-- `S k n`: a request for the name `n` may be made at depth `k`.  Closed under the dependency lines that
`Action.execute` does not cut off at that depth. -/
def ClosedAt (cfg : Cfg) (S : Nat → Name → Prop) : Prop :=
  ∀ d ∈ cfg.db.decls, ∀ k, S k d.name → cfg.maxDepth ≠ some k →
    ∀ g n o j v x t kl, (g, Act.dep n o j v x t kl) ∈ d.table → S (k + 1) n

/-- an environment invariant kept by everything done on behalf of a subject -/
structure SubjInv (cfg : Cfg) (S : Nat → Name → Prop) (P : Env → Prop) : Prop where
  apply : ∀ (fwd : Bool) (k : Nat) (d : Decl) (a : Act) (s : St), Canon cfg.db d → a ∈ d.actions cfg.exact → S k d.name →
    P s.env → P (a.apply fwd d.prod s).env
  record : ∀ (k : Nat) (d : Decl) (r : Option VroEnt) (s : St), Canon cfg.db d → S k d.name → P s.env → P (record d r s).env
  unrec : ∀ (k : Nat) (d : Decl) (e : Env), Canon cfg.db d → S k d.name → P e →
    P { e with dirs := aunset e.dirs d.name, recs := aunset e.recs d.name }

def SubjSpec (cfg : Cfg) (S : Nat → Name → Prop) (P : Env → Prop) (rec : Rec) : Prop :=
  ∀ fwd k noRec vro n ver vexpr s s', S k n → AlreadyOK cfg.db s.already → P s.env →
    rec fwd k noRec vro n ver vexpr s = .ok s' → P s'.env

theorem acts_subj (cfg : Cfg) (S : Nat → Name → Prop) (P : Env → Prop) (hcl : ClosedAt cfg S)
    (hP : SubjInv cfg S P) (rec : Rec) (hal : AlOK cfg rec) (hrec : SubjSpec cfg S P rec) (fwd : Bool) (k : Nat)
    (noRec : Bool) (vro : List VroEnt) (d : Decl) (hc : Canon cfg.db d) (hS : S k d.name) (l : List Act)
    (hl : ∀ a ∈ l, a ∈ d.actions cfg.exact) :
    ∀ s s', AlreadyOK cfg.db s.already → P s.env → acts rec cfg fwd k noRec vro d l s = .ok s' → P s'.env := by
  induction l with
  | nil => intro s s' _ hp h; simp [acts] at h; subst h; exact hp
  | cons a rest ih =>
    have hl' : ∀ a ∈ rest, a ∈ d.actions cfg.exact := fun a hm => hl a (List.mem_cons_of_mem _ hm)
    intro s s' ha hp h
    by_cases hdep : ∃ n o j v x t kl, a = .dep n o j v x t kl
    · obtain ⟨n, o, j, v, x, t, kl, rfl⟩ := hdep
      simp only [acts] at h
      split at h
      · exact ih hl' s s' ha hp h
      · rename_i hgo
        have hmd : cfg.maxDepth ≠ some k := by
          intro e; apply hgo; simp [e]
        obtain ⟨g, hg⟩ := mem_actions d cfg.exact _ (hl _ (List.mem_cons_self))
        have hSn : S (k + 1) n := hcl d (lookup_some cfg.db d.prod d hc).1 k hS hmd g n o j v x t kl hg
        split at h
        · rename_i s1 hr
          exact ih hl' s1 s' (hal _ _ _ _ _ _ _ _ _ ha (by rw [hr]; rfl)) (hrec _ _ _ _ _ _ _ _ _ hSn ha hp hr) h
        · cases h
        · rename_i s1 hr
          have h1 : AlreadyOK cfg.db s1.already := hal _ _ _ _ _ _ _ _ _ ha (by rw [hr]; rfl)
          split at h
          · cases h
          · exact ih hl' ⟨s.env, s.aliases, s.unaliased, s1.already, s1.cache⟩ s' h1 hp h
        · rename_i s1 hr
          have h1 : AlreadyOK cfg.db s1.already := hal _ _ _ _ _ _ _ _ _ ha (by rw [hr]; rfl)
          split at h
          · cases h
          · exact ih hl' ⟨s.env, s.aliases, s.unaliased, s1.already, s1.cache⟩ s' h1 hp h
    · have hnd : ∀ n o j v x t kl, a ≠ .dep n o j v x t kl := fun n o j v x t kl e => hdep ⟨n, o, j, v, x, t, kl, e⟩
      rw [acts_cons_nondep rec cfg fwd k noRec vro d a rest s hnd] at h
      exact ih hl' _ s' (by simpa using ha) (hP.apply fwd k d a s hc (hl a (List.mem_cons_self)) hS hp) h

theorem install_subj (cfg : Cfg) (S : Nat → Name → Prop) (P : Env → Prop) (hcl : ClosedAt cfg S)
    (hP : SubjInv cfg S P) (rec : Rec) (hal : AlOK cfg rec) (hrec : SubjSpec cfg S P rec) (k : Nat)
    (noRec : Bool) (vro : List VroEnt) (d : Decl) (reason : Option VroEnt) (hc : Canon cfg.db d) (hS : S k d.name)
    (hun : ∀ s s', rec false k noRec vro d.name none none s = .notFound s' ∨
      rec false k noRec vro d.name none none s = .raised s' → P s.env → P s'.env)
    (s s' : St) (ha : AlreadyOK cfg.db s.already) (hp : P s.env)
    (h : install rec cfg k noRec vro d reason s = .ok s') : P s'.env := by
  have tail : ∀ s1 : St, AlreadyOK cfg.db s1.already → P s1.env →
      acts rec cfg true k noRec vro d (d.actions cfg.exact) (record d reason s1) = .ok s' → P s'.env := by
    intro s1 h1 hp1 hacts
    exact acts_subj cfg S P hcl hP rec hal hrec true k noRec vro d hc hS _ (fun _ hm => hm) _ s'
      (alreadyOK_aset cfg.db _ h1 d reason hc) (hP.record k d reason s1 hc hS hp1) hacts
  unfold install at h
  split at h
  · exact tail s ha hp h
  · split at h
    · simp at h; subst h; exact hp
    · split at h
      · cases h
      · rename_i s1 hr1
        exact tail s1 (hal _ _ _ _ _ _ _ _ _ ha (by rw [hr1]; rfl)) (hrec _ _ _ _ _ _ _ _ _ hS ha hp hr1) h
      · rename_i s1 hr1
        exact tail s1 (hal _ _ _ _ _ _ _ _ _ ha (by rw [hr1]; rfl)) (hun s s1 (Or.inl hr1) hp) h
      · rename_i s1 hr1
        exact tail s1 (hal _ _ _ _ _ _ _ _ _ ha (by rw [hr1]; rfl)) (hun s s1 (Or.inr hr1) hp) h

/-- a successful request made for an admissible subject keeps the invariant — every database, every fuel -/
theorem setup_subjInv (cfg : Cfg) (S : Nat → Name → Prop) (P : Env → Prop) (hcl : ClosedAt cfg S)
    (hP : SubjInv cfg S P) : ∀ fuel, SubjSpec cfg S P (setup cfg fuel) := by
  intro fuel
  induction fuel with
  | zero => intro fwd k noRec vro n ver vexpr s s' _ _ _ h; simp [setup_zero] at h
  | succ f ih =>
    intro fwd k noRec vro n ver vexpr s s' hS ha hp h
    cases fwd with
    | true =>
      rw [setup_succ_true] at h
      cases hres : resolve cfg.db cfg.path cfg.keep s.already n ver vexpr k vro.length vro with
      | none => rw [hres] at h; cases h
      | error => rw [hres] at h; cases h
      | found d reason =>
        rw [hres] at h
        obtain ⟨hc, hname⟩ := resolve_spec cfg.db cfg.path cfg.keep s.already ha n ver vexpr k _ _ _ _ hres
        try simp only at h
        obtain ⟨hc, hname⟩ := pickDecl_spec cfg.db s.cache d _ hc hname
        revert h hc hname; generalize pickDecl cfg.db s.cache d = d; intro h hc hname
        refine install_subj cfg S P hcl hP (setup cfg f) (setup_alOK cfg f) ih k noRec vro d reason hc
          (by rw [hname]; exact hS) ?_ _ s' (register_already cfg k d reason (s.afterResolve cfg k vro n ver vexpr) ha hc)
          (by rw [register_env]; exact hp) h
        intro s0 s1 hr hp0
        rcases hr with hr | hr
        · -- "not found": the state is the one given
          cases f with
          | zero => simp [setup_zero] at hr
          | succ f' =>
            rw [setup_succ_false] at hr
            cases hsp : setupProd cfg.db s0.env d.name with
            | none => rw [hsp] at hr; simp at hr; subst hr; exact hp0
            | some d' =>
              rw [hsp] at hr
              exact absurd hr (acts_false_ne_fail (setup cfg f') cfg k noRec vro d' _ _ s1).2
        · exact absurd hr (setup_unfail cfg f k noRec vro d.name none none s0 s1).1
    | false =>
      rw [setup_succ_false] at h
      cases hsp : setupProd cfg.db s.env n with
      | none => rw [hsp] at h; cases h
      | some d =>
        rw [hsp] at h
        obtain ⟨hc, hname, _⟩ := setupProd_some cfg.db s.env n d hsp
        have hS' : S k d.name := by rw [hname]; exact hS
        exact acts_subj cfg S P hcl hP (setup cfg f) (setup_alOK cfg f) ih false k noRec vro d hc hS' _
          (fun _ hm => hm)
          ⟨{ s.env with dirs := aunset s.env.dirs d.name, recs := aunset s.env.recs d.name }, s.aliases, s.unaliased, s.already, s.cache⟩
          s' ha (hP.unrec k d s.env hc hS' hp) h

end EupsModel.Setup
