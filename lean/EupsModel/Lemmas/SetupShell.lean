import EupsModel.Lemmas.SetupInv
/-! What the caller's shell holds after it has evaluated the command list `eups.app.setup` returned (round 3, C02 second
sentence and the glue between `Model/Setup` and the emission of C05).

`Shell` is the caller's state as lookups (records, `<P>_DIR`, path variables, `envSet` variables, shell functions);
`Cmd.run` is what one command of `delta` does to it (`export` defines, `unset` removes, a function definition defines,
`unset -f` removes, `false` does nothing).  `runCmds_delta`: from the shell that holds the environment `eups` was started
in, the commands of a successful request produce exactly the environment `Eups.setup` computed (every lookup), and the
functions it defined / marked for removal. -/
namespace EupsModel.Setup

structure Shell where
  recs : Name → Option Ver
  dirs : Name → Option Elem
  paths : Str → Option (List Elem)
  vars : Str → Option Elem
  funcs : Str → Option Str

/-- the shell of a caller whose environment is `e` and whose functions are `f` -/
def Shell.of (e : Env) (f : Str → Option Str) : Shell :=
  ⟨aget e.recs, aget e.dirs, aget e.paths, aget e.vars, f⟩

def upd {β : Type} (f : Str → Option β) (k : Str) (x : Option β) : Str → Option β := fun m => if m = k then x else f m

def Cmd.run : Cmd → Shell → Shell
  | .exportRec n v, sh => { sh with recs := upd sh.recs n (some v) }
  | .exportDir n x, sh => { sh with dirs := upd sh.dirs n (some x) }
  | .exportPath var l, sh => { sh with paths := upd sh.paths var (some l) }
  | .exportVar var x, sh => { sh with vars := upd sh.vars var (some x) }
  | .unsetRec n, sh => { sh with recs := upd sh.recs n none }
  | .unsetDir n, sh => { sh with dirs := upd sh.dirs n none }
  | .unsetPath var, sh => { sh with paths := upd sh.paths var none }
  | .unsetVar var, sh => { sh with vars := upd sh.vars var none }
  | .aliasDef k v, sh => { sh with funcs := upd sh.funcs k (some v) }
  | .aliasUnset k, sh => { sh with funcs := upd sh.funcs k none }
  | .false_, sh => sh

def runCmds (l : List Cmd) (sh : Shell) : Shell := l.foldl (fun sh c => c.run sh) sh

/-- what the caller's shell holds after `eval $(eups_setup …)`: the commands are evaluated; an exception in `eups_setup`
prints nothing to evaluate -/
def Emitted.apply : Emitted → Shell → Shell
  | .cmds l, sh => runCmds l sh
  | .raised, sh => sh
  | .fuel, sh => sh

theorem runCmds_append (l1 l2 : List Cmd) (sh : Shell) : runCmds (l1 ++ l2) sh = runCmds l2 (runCmds l1 sh) := by
  simp [runCmds, List.foldl_append]

theorem runCmds_cons (c : Cmd) (l : List Cmd) (sh : Shell) : runCmds (c :: l) sh = runCmds l (c.run sh) := rfl

/-! ### a list of commands built from one constructor acts on one component -/

/-- a lens on one component of the shell together with the two constructors that write it -/
structure Comp (β : Type) where
  get : Shell → Str → Option β
  exp : Str → β → Cmd
  uns : Str → Cmd
  get_exp : ∀ k v sh, get ((exp k v).run sh) = upd (get sh) k (some v)
  get_uns : ∀ k sh, get ((uns k).run sh) = upd (get sh) k none

/-- commands that leave the component alone -/
def Comp.Inert {β : Type} (C : Comp β) (c : Cmd) : Prop := ∀ sh, C.get (c.run sh) = C.get sh

theorem runCmds_inert {β : Type} (C : Comp β) (l : List Cmd) (h : ∀ c ∈ l, C.Inert c) :
    ∀ sh, C.get (runCmds l sh) = C.get sh := by
  induction l with
  | nil => intro sh; rfl
  | cons c rest ih =>
    intro sh
    rw [runCmds_cons, ih (fun c hc => h c (List.mem_cons_of_mem _ hc)), h c List.mem_cons_self]

theorem mem_keysOf {β : Type} (l : List (Str × β)) (k : Str) : k ∈ keysOf l ↔ (aget l k).isSome = true := by
  unfold keysOf
  rw [List.mem_eraseDups]
  induction l with
  | nil => simp [aget]
  | cons p rest ih =>
    obtain ⟨k', v⟩ := p
    by_cases hk : k' = k
    · simp [aget, hk]
    · simp only [List.map_cons, List.mem_cons, aget, hk, if_false]
      rw [← ih]
      constructor
      · rintro (h | h)
        · exact absurd h.symm hk
        · exact h
      · exact Or.inr

/-- body of the `export` loop -/
def expF {β : Type} [DecidableEq β] (mk : Str → β → Cmd) (old new : List (Str × β)) (k : Str) : Option Cmd :=
  match aget new k with
  | some v => if aget old k = some v then none else some (mk k v)
  | none => none

theorem exports_eq {β : Type} [DecidableEq β] (mk : Str → β → Cmd) (old new : List (Str × β)) :
    exports mk old new = (keysOf new).filterMap (expF mk old new) := rfl

/-- the `export` loop over the keys `ks`: a key of `ks` whose new value differs from the old one gets the new value -/
theorem get_exports {β : Type} [DecidableEq β] (C : Comp β) (old new : List (Str × β)) (ks : List Str) :
    ∀ sh m, C.get (runCmds (ks.filterMap (expF C.exp old new)) sh) m =
      (if m ∈ ks then
        (match aget new m with
         | some v => if aget old m = some v then C.get sh m else some v
         | none => C.get sh m)
       else C.get sh m) := by
  induction ks with
  | nil => intro sh m; simp [runCmds]
  | cons k ks ih =>
    intro sh m
    rw [List.filterMap_cons]
    cases hn : aget new k with
    | none =>
      simp only [expF, hn]
      rw [ih]
      by_cases hm : m = k
      · subst hm; simp [hn]
      · simp [hm]
    | some v =>
      by_cases ho : aget old k = some v
      · simp only [expF, hn, ho, if_true]
        rw [ih]
        by_cases hm : m = k
        · subst hm; simp [hn, ho]
        · simp [hm]
      · simp only [expF, hn, ho, if_false]
        rw [runCmds_cons, ih, C.get_exp]
        by_cases hm : m = k
        · subst hm
          simp [upd, hn, ho]
        · simp [upd, hm]

/-- the `unset` loop over the keys `ks`: a key of `ks` that has no new value is removed -/
theorem get_unsets {β : Type} (C : Comp β) (new : List (Str × β)) (ks : List Str) :
    ∀ sh m, C.get (runCmds ((ks.filter (fun k => (aget new k).isNone)).map C.uns) sh) m =
      (if m ∈ ks ∧ aget new m = none then none else C.get sh m) := by
  induction ks with
  | nil => intro sh m; simp [runCmds]
  | cons k ks ih =>
    intro sh m
    rw [List.filter_cons]
    cases hn : aget new k with
    | some v =>
      simp only [Option.isNone_some, Bool.false_eq_true, if_false]
      rw [ih]
      by_cases hm : m = k
      · subst hm; simp [hn]
      · simp [hm]
    | none =>
      simp only [Option.isNone_none, if_true, List.map_cons]
      rw [runCmds_cons, ih, C.get_uns]
      by_cases hm : m = k
      · subst hm; simp [upd, hn]
      · simp [upd, hm]

/-- `exports` followed (possibly later) by `unsets` turns the lookups of `old` into the lookups of `new` -/
theorem get_exports_unsets {β : Type} [DecidableEq β] (C : Comp β) (old new : List (Str × β)) (sh : Shell)
    (h0 : C.get sh = aget old) (mid : List Cmd) (hmid : ∀ c ∈ mid, C.Inert c) (m : Str) :
    C.get (runCmds (unsets C.uns old new) (runCmds mid (runCmds (exports C.exp old new) sh))) m = aget new m := by
  rw [exports_eq]
  unfold unsets
  rw [get_unsets C new (keysOf old), runCmds_inert C mid hmid, get_exports C old new (keysOf new), h0]
  have hko := mem_keysOf old m
  have hkn := mem_keysOf new m
  cases hn : aget new m with
  | none =>
    cases ho : aget old m with
    | none =>
      have : m ∉ keysOf old := by rw [hko, ho]; simp
      simp [this, hn]
    | some w =>
      have : m ∈ keysOf old := by rw [hko, ho]; rfl
      simp [this]
  | some v =>
    have : m ∈ keysOf new := by rw [hkn, hn]; rfl
    by_cases ho : aget old m = some v
    · simp [this, ho]
    · simp [this, ho]

/-! ### the four components of the environment and the functions -/

def compRecs : Comp Ver := ⟨Shell.recs, Cmd.exportRec, Cmd.unsetRec, fun _ _ _ => rfl, fun _ _ => rfl⟩
def compDirs : Comp Elem := ⟨Shell.dirs, Cmd.exportDir, Cmd.unsetDir, fun _ _ _ => rfl, fun _ _ => rfl⟩
def compPaths : Comp (List Elem) := ⟨Shell.paths, Cmd.exportPath, Cmd.unsetPath, fun _ _ _ => rfl, fun _ _ => rfl⟩
def compVars : Comp Elem := ⟨Shell.vars, Cmd.exportVar, Cmd.unsetVar, fun _ _ _ => rfl, fun _ _ => rfl⟩

/-- the component a command writes: 0 records, 1 directories, 2 path variables, 3 `envSet` variables, 4 functions, 5 none -/
def Cmd.comp : Cmd → Nat
  | .exportRec _ _ | .unsetRec _ => 0
  | .exportDir _ _ | .unsetDir _ => 1
  | .exportPath _ _ | .unsetPath _ => 2
  | .exportVar _ _ | .unsetVar _ => 3
  | .aliasDef _ _ | .aliasUnset _ => 4
  | .false_ => 5

theorem inert_recs (c : Cmd) (h : c.comp ≠ 0) : compRecs.Inert c := by
  intro sh; cases c <;> first | rfl | exact absurd rfl h
theorem inert_dirs (c : Cmd) (h : c.comp ≠ 1) : compDirs.Inert c := by
  intro sh; cases c <;> first | rfl | exact absurd rfl h
theorem inert_paths (c : Cmd) (h : c.comp ≠ 2) : compPaths.Inert c := by
  intro sh; cases c <;> first | rfl | exact absurd rfl h
theorem inert_vars (c : Cmd) (h : c.comp ≠ 3) : compVars.Inert c := by
  intro sh; cases c <;> first | rfl | exact absurd rfl h

theorem comp_exports {β : Type} [DecidableEq β] (mk : Str → β → Cmd) (n : Nat) (hmk : ∀ k v, (mk k v).comp = n)
    (old new : List (Str × β)) : ∀ c ∈ exports mk old new, c.comp = n := by
  intro c hc
  unfold exports at hc
  rw [List.mem_filterMap] at hc
  obtain ⟨k, _, hk⟩ := hc
  split at hk
  · split at hk
    · cases hk
    · cases hk; exact hmk _ _
  · cases hk

theorem comp_unsets {β : Type} (mk : Str → Cmd) (n : Nat) (hmk : ∀ k, (mk k).comp = n)
    (old new : List (Str × β)) : ∀ c ∈ unsets mk old new, c.comp = n := by
  intro c hc
  unfold unsets at hc
  rw [List.mem_map] at hc
  obtain ⟨k, _, rfl⟩ := hc
  exact hmk k

/-- one component through a whole command list of the shape `pre ++ exports ++ mid ++ unsets ++ post` -/
theorem get_shape {β : Type} [DecidableEq β] (C : Comp β) (old new : List (Str × β)) (pre mid post : List Cmd)
    (hpre : ∀ c ∈ pre, C.Inert c) (hmid : ∀ c ∈ mid, C.Inert c) (hpost : ∀ c ∈ post, C.Inert c) (sh : Shell)
    (h0 : C.get sh = aget old) (m : Str) :
    C.get (runCmds (pre ++ exports C.exp old new ++ mid ++ unsets C.uns old new ++ post) sh) m = aget new m := by
  rw [runCmds_append, runCmds_append, runCmds_append, runCmds_append, runCmds_inert C post hpost]
  exact get_exports_unsets C old new (runCmds pre sh) (by rw [runCmds_inert C pre hpre, h0]) mid hmid m

/-! ### functions -/

theorem funcs_defs (l : List (Str × Str)) (hnd : (l.map (·.1)).Nodup) :
    ∀ sh m, (runCmds (l.map fun kv => Cmd.aliasDef kv.1 kv.2) sh).funcs m =
      (match aget l m with
       | some v => some v
       | none => sh.funcs m) := by
  induction l with
  | nil => intro sh m; rfl
  | cons p rest ih =>
    obtain ⟨k, v⟩ := p
    intro sh m
    simp only [List.map_cons, List.nodup_cons] at hnd
    rw [List.map_cons, runCmds_cons, ih hnd.2]
    by_cases hk : k = m
    · subst hk
      have : aget rest k = none := by
        cases hg : aget rest k with
        | none => rfl
        | some w => exact absurd (List.mem_map.2 ⟨(k, w), aget_mem rest k w hg, rfl⟩) hnd.1
      simp [aget, this, Cmd.run, upd]
    · have hk' : m ≠ k := fun e => hk e.symm
      simp [aget, hk, Cmd.run, upd, hk']

theorem funcs_unsets (ks : List Str) :
    ∀ sh m, (runCmds (ks.map Cmd.aliasUnset) sh).funcs m = if m ∈ ks then none else sh.funcs m := by
  induction ks with
  | nil => intro sh m; simp [runCmds]
  | cons k ks ih =>
    intro sh m
    rw [List.map_cons, runCmds_cons, ih]
    by_cases hm : m = k
    · subst hm; simp [Cmd.run, upd]
    · simp [Cmd.run, upd, hm]

theorem funcs_inert (l : List Cmd) (h : ∀ c ∈ l, c.comp ≠ 4) : ∀ sh, (runCmds l sh).funcs = sh.funcs := by
  induction l with
  | nil => intro sh; rfl
  | cons c rest ih =>
    intro sh
    rw [runCmds_cons, ih (fun c hc => h c (List.mem_cons_of_mem _ hc))]
    have := h c List.mem_cons_self
    cases c <;> first | rfl | exact absurd rfl this

/-! ### the whole command list of a successful request -/

/-- From the shell that holds the environment `old` in which eups was started, the commands `eups.app.setup` emits for
the state `s` produce exactly `s.env` (every record, `<P>_DIR`, path variable and `envSet` variable: defined with the
same value, or undefined), define the functions of `s.aliases` and remove those marked for `unset -f`. -/
theorem runCmds_delta (old : Env) (s : St) (f : Str → Option Str) (hnd : (s.aliases.map (·.1)).Nodup) :
    let sh := runCmds (delta old s) (Shell.of old f)
    (∀ n, sh.recs n = s.env.rec? n) ∧ (∀ n, sh.dirs n = aget s.env.dirs n) ∧
    (∀ var, sh.paths var = aget s.env.paths var) ∧ (∀ var, sh.vars var = aget s.env.vars var) ∧
    (∀ k, sh.funcs k = match aget s.aliases k with
      | some v => some v
      | none => if k ∈ s.unaliased then none else f k) := by
  have cER := comp_exports Cmd.exportRec 0 (fun _ _ => rfl) old.recs s.env.recs
  have cED := comp_exports Cmd.exportDir 1 (fun _ _ => rfl) old.dirs s.env.dirs
  have cEP := comp_exports Cmd.exportPath 2 (fun _ _ => rfl) old.paths s.env.paths
  have cEV := comp_exports Cmd.exportVar 3 (fun _ _ => rfl) old.vars s.env.vars
  have cUR := comp_unsets Cmd.unsetRec 0 (fun _ => rfl) old.recs s.env.recs
  have cUD := comp_unsets Cmd.unsetDir 1 (fun _ => rfl) old.dirs s.env.dirs
  have cUP := comp_unsets Cmd.unsetPath 2 (fun _ => rfl) old.paths s.env.paths
  have cUV := comp_unsets Cmd.unsetVar 3 (fun _ => rfl) old.vars s.env.vars
  have cAD : ∀ c ∈ s.aliases.map (fun kv => Cmd.aliasDef kv.1 kv.2), c.comp = 4 := by
    intro c hc; rw [List.mem_map] at hc; obtain ⟨_, _, rfl⟩ := hc; rfl
  have cAU : ∀ c ∈ (s.unaliased.filter (fun k => (aget s.aliases k).isNone)).map Cmd.aliasUnset, c.comp = 4 := by
    intro c hc; rw [List.mem_map] at hc; obtain ⟨_, _, rfl⟩ := hc; rfl
  refine ⟨?_, ?_, ?_, ?_, ?_⟩
  · intro n
    have hshape : delta old s = [] ++ exports compRecs.exp old.recs s.env.recs ++
        (exports Cmd.exportDir old.dirs s.env.dirs ++ exports Cmd.exportPath old.paths s.env.paths ++
          exports Cmd.exportVar old.vars s.env.vars) ++ unsets compRecs.uns old.recs s.env.recs ++
        (unsets Cmd.unsetDir old.dirs s.env.dirs ++ unsets Cmd.unsetPath old.paths s.env.paths ++
          unsets Cmd.unsetVar old.vars s.env.vars ++ s.aliases.map (fun kv => Cmd.aliasDef kv.1 kv.2) ++
          (s.unaliased.filter (fun k => (aget s.aliases k).isNone)).map Cmd.aliasUnset) := by
      simp [delta, compRecs, List.append_assoc]
    show compRecs.get (runCmds (delta old s) (Shell.of old f)) n = _
    rw [hshape]
    refine get_shape compRecs old.recs s.env.recs _ _ _ (by simp) ?_ ?_ _ rfl n
    · intro c hc
      simp only [List.mem_append] at hc
      apply inert_recs
      rcases hc with (hc | hc) | hc
      · rw [cED c hc]; decide
      · rw [cEP c hc]; decide
      · rw [cEV c hc]; decide
    · intro c hc
      simp only [List.mem_append] at hc
      apply inert_recs
      rcases hc with (((hc | hc) | hc) | hc) | hc
      · rw [cUD c hc]; decide
      · rw [cUP c hc]; decide
      · rw [cUV c hc]; decide
      · rw [cAD c hc]; decide
      · rw [cAU c hc]; decide
  · intro n
    have hshape : delta old s = exports Cmd.exportRec old.recs s.env.recs ++ exports compDirs.exp old.dirs s.env.dirs ++
        (exports Cmd.exportPath old.paths s.env.paths ++ exports Cmd.exportVar old.vars s.env.vars ++
          unsets Cmd.unsetRec old.recs s.env.recs) ++ unsets compDirs.uns old.dirs s.env.dirs ++
        (unsets Cmd.unsetPath old.paths s.env.paths ++
          unsets Cmd.unsetVar old.vars s.env.vars ++ s.aliases.map (fun kv => Cmd.aliasDef kv.1 kv.2) ++
          (s.unaliased.filter (fun k => (aget s.aliases k).isNone)).map Cmd.aliasUnset) := by
      simp [delta, compDirs, List.append_assoc]
    show compDirs.get (runCmds (delta old s) (Shell.of old f)) n = _
    rw [hshape]
    refine get_shape compDirs old.dirs s.env.dirs _ _ _ ?_ ?_ ?_ _ rfl n
    · intro c hc; apply inert_dirs; rw [cER c hc]; decide
    · intro c hc
      simp only [List.mem_append] at hc
      apply inert_dirs
      rcases hc with (hc | hc) | hc
      · rw [cEP c hc]; decide
      · rw [cEV c hc]; decide
      · rw [cUR c hc]; decide
    · intro c hc
      simp only [List.mem_append] at hc
      apply inert_dirs
      rcases hc with ((hc | hc) | hc) | hc
      · rw [cUP c hc]; decide
      · rw [cUV c hc]; decide
      · rw [cAD c hc]; decide
      · rw [cAU c hc]; decide
  · intro n
    have hshape : delta old s = (exports Cmd.exportRec old.recs s.env.recs ++ exports Cmd.exportDir old.dirs s.env.dirs) ++
        exports compPaths.exp old.paths s.env.paths ++
        (exports Cmd.exportVar old.vars s.env.vars ++
          unsets Cmd.unsetRec old.recs s.env.recs ++ unsets Cmd.unsetDir old.dirs s.env.dirs) ++
        unsets compPaths.uns old.paths s.env.paths ++
        (unsets Cmd.unsetVar old.vars s.env.vars ++ s.aliases.map (fun kv => Cmd.aliasDef kv.1 kv.2) ++
          (s.unaliased.filter (fun k => (aget s.aliases k).isNone)).map Cmd.aliasUnset) := by
      simp [delta, compPaths, List.append_assoc]
    show compPaths.get (runCmds (delta old s) (Shell.of old f)) n = _
    rw [hshape]
    refine get_shape compPaths old.paths s.env.paths _ _ _ ?_ ?_ ?_ _ rfl n
    · intro c hc
      simp only [List.mem_append] at hc
      apply inert_paths
      rcases hc with hc | hc
      · rw [cER c hc]; decide
      · rw [cED c hc]; decide
    · intro c hc
      simp only [List.mem_append] at hc
      apply inert_paths
      rcases hc with (hc | hc) | hc
      · rw [cEV c hc]; decide
      · rw [cUR c hc]; decide
      · rw [cUD c hc]; decide
    · intro c hc
      simp only [List.mem_append] at hc
      apply inert_paths
      rcases hc with (hc | hc) | hc
      · rw [cUV c hc]; decide
      · rw [cAD c hc]; decide
      · rw [cAU c hc]; decide
  · intro n
    have hshape : delta old s = (exports Cmd.exportRec old.recs s.env.recs ++ exports Cmd.exportDir old.dirs s.env.dirs ++
          exports Cmd.exportPath old.paths s.env.paths) ++
        exports compVars.exp old.vars s.env.vars ++
        (unsets Cmd.unsetRec old.recs s.env.recs ++ unsets Cmd.unsetDir old.dirs s.env.dirs ++
          unsets Cmd.unsetPath old.paths s.env.paths) ++
        unsets compVars.uns old.vars s.env.vars ++
        (s.aliases.map (fun kv => Cmd.aliasDef kv.1 kv.2) ++
          (s.unaliased.filter (fun k => (aget s.aliases k).isNone)).map Cmd.aliasUnset) := by
      simp [delta, compVars, List.append_assoc]
    show compVars.get (runCmds (delta old s) (Shell.of old f)) n = _
    rw [hshape]
    refine get_shape compVars old.vars s.env.vars _ _ _ ?_ ?_ ?_ _ rfl n
    · intro c hc
      simp only [List.mem_append] at hc
      apply inert_vars
      rcases hc with (hc | hc) | hc
      · rw [cER c hc]; decide
      · rw [cED c hc]; decide
      · rw [cEP c hc]; decide
    · intro c hc
      simp only [List.mem_append] at hc
      apply inert_vars
      rcases hc with (hc | hc) | hc
      · rw [cUR c hc]; decide
      · rw [cUD c hc]; decide
      · rw [cUP c hc]; decide
    · intro c hc
      simp only [List.mem_append] at hc
      apply inert_vars
      rcases hc with hc | hc
      · rw [cAD c hc]; decide
      · rw [cAU c hc]; decide
  · intro k
    have hshape : delta old s = (exports Cmd.exportRec old.recs s.env.recs ++ exports Cmd.exportDir old.dirs s.env.dirs ++
          exports Cmd.exportPath old.paths s.env.paths ++ exports Cmd.exportVar old.vars s.env.vars ++
          unsets Cmd.unsetRec old.recs s.env.recs ++ unsets Cmd.unsetDir old.dirs s.env.dirs ++
          unsets Cmd.unsetPath old.paths s.env.paths ++ unsets Cmd.unsetVar old.vars s.env.vars) ++
        (s.aliases.map (fun kv => Cmd.aliasDef kv.1 kv.2) ++
          (s.unaliased.filter (fun k => (aget s.aliases k).isNone)).map Cmd.aliasUnset) := by
      simp [delta, List.append_assoc]
    rw [hshape, runCmds_append, runCmds_append, funcs_unsets, funcs_defs s.aliases hnd, funcs_inert]
    · cases hg : aget s.aliases k with
      | some v => simp [hg]
      | none => simp [hg, Shell.of]
    · intro c hc
      simp only [List.mem_append] at hc
      rcases hc with ((((((hc | hc) | hc) | hc) | hc) | hc) | hc) | hc
      · rw [cER c hc]; decide
      · rw [cED c hc]; decide
      · rw [cEP c hc]; decide
      · rw [cEV c hc]; decide
      · rw [cUR c hc]; decide
      · rw [cUD c hc]; decide
      · rw [cUP c hc]; decide
      · rw [cUV c hc]; decide

/-! ### `Eups.aliases` is a dictionary: one binding per key, in every state a run produces -/

def AliasND (s : St) : Prop := (s.aliases.map (·.1)).Nodup

theorem nodup_aunset (l : List (Str × Str)) (k : Str) (h : (l.map (·.1)).Nodup) : ((aunset l k).map (·.1)).Nodup := by
  unfold aunset
  exact (List.nodup_iff_pairwise_ne.1 h |>.sublist (List.Sublist.map _ List.filter_sublist)) |> List.nodup_iff_pairwise_ne.2

theorem nodup_aset (l : List (Str × Str)) (k v : Str) (h : (l.map (·.1)).Nodup) : ((aset l k v).map (·.1)).Nodup := by
  unfold aset
  rw [List.map_cons, List.nodup_cons]
  refine ⟨?_, nodup_aunset l k h⟩
  intro hm
  rw [List.mem_map] at hm
  obtain ⟨p, hp, hk⟩ := hm
  unfold aunset at hp
  rw [List.mem_filter] at hp
  simp at hp
  exact hp.2 hk

theorem apply_aliasND (fwd : Bool) (p : Prod) (a : Act) (s : St) (h : AliasND s) : AliasND (a.apply fwd p s) := by
  cases a with
  | prepend var vals app => exact h
  | set var val => exact h
  | dep n o j v x t kl => exact h
  | alias key val =>
    cases fwd
    · exact nodup_aunset _ _ h
    · exact nodup_aset _ _ _ h

def NDSpec (rec : Rec) : Prop :=
  ∀ fwd depth noRec vro n ver vexpr s s', AliasND s → (rec fwd depth noRec vro n ver vexpr s).st? = some s' → AliasND s'

theorem acts_aliasND (cfg : Cfg) (rec : Rec) (hrec : NDSpec rec) (fwd : Bool) (depth : Nat)
    (noRec : Bool) (vro : List VroEnt) (d : Decl) (l : List Act) :
    ∀ s s', AliasND s → (acts rec cfg fwd depth noRec vro d l s).st? = some s' → AliasND s' := by
  induction l with
  | nil => intro s s' ha h; simp [acts, Res.st?] at h; subst h; exact ha
  | cons a rest ih =>
    intro s s' ha h
    by_cases hdep : ∃ n o j v x t kl, a = .dep n o j v x t kl
    · obtain ⟨n, o, j, v, x, t, kl, rfl⟩ := hdep
      simp only [acts] at h
      split at h
      · exact ih s s' ha h
      · split at h
        · rename_i s1 hr
          exact ih s1 s' (hrec _ _ _ _ _ _ _ _ _ ha (by rw [hr]; rfl)) h
        · simp [Res.st?] at h
        · rename_i s1 hr
          split at h
          · simp [Res.st?] at h; subst h; exact ha
          · exact ih ⟨s.env, s.aliases, s.unaliased, s1.already, s1.cache⟩ s' ha h
        · rename_i s1 hr
          split at h
          · simp [Res.st?] at h; subst h; exact ha
          · exact ih ⟨s.env, s.aliases, s.unaliased, s1.already, s1.cache⟩ s' ha h
    · have hnd : ∀ n o j v x t kl, a ≠ .dep n o j v x t kl := fun n o j v x t kl e => hdep ⟨n, o, j, v, x, t, kl, e⟩
      rw [acts_cons_nondep rec cfg fwd depth noRec vro d a rest s hnd] at h
      exact ih _ s' (apply_aliasND fwd d.prod a s ha) h

theorem setup_aliasND (cfg : Cfg) : ∀ fuel, NDSpec (setup cfg fuel) := by
  intro fuel
  induction fuel with
  | zero => intro fwd depth noRec vro n ver vexpr s s' _ h; simp [setup_zero, Res.st?] at h
  | succ k ih =>
    intro fwd depth noRec vro n ver vexpr s s' ha h
    cases fwd with
    | true =>
      rw [setup_succ_true] at h
      cases hres : resolve cfg.db cfg.path cfg.keep s.already n ver vexpr depth vro.length vro with
      | none => rw [hres] at h; simp [Res.st?] at h; subst h; exact ha
      | error => rw [hres] at h; simp [Res.st?] at h; subst h; exact ha
      | found d reason =>
        rw [hres] at h
        try simp only at h
        revert h; generalize pickDecl cfg.db s.cache d = d; intro h
        have ha0 : AliasND (register cfg depth d reason (s.afterResolve cfg depth vro n ver vexpr)) := by
          unfold register St.afterResolve; split <;> exact ha
        revert h ha0
        generalize register cfg depth d reason (s.afterResolve cfg depth vro n ver vexpr) = s0
        intro h ha0
        unfold install at h
        split at h
        · exact acts_aliasND cfg (setup cfg k) ih true depth noRec vro d _ (record d reason s0) s' ha0 h
        · split at h
          · simp [Res.st?] at h; subst h; exact ha0
          · split at h
            · simp [Res.st?] at h
            · rename_i s1 hr
              have h1 : AliasND s1 := ih _ _ _ _ _ _ _ _ _ ha0 (by rw [hr]; rfl)
              exact acts_aliasND cfg (setup cfg k) ih true depth noRec vro d _ (record d reason s1) s' h1 h
            · rename_i s1 hr
              have h1 : AliasND s1 := ih _ _ _ _ _ _ _ _ _ ha0 (by rw [hr]; rfl)
              exact acts_aliasND cfg (setup cfg k) ih true depth noRec vro d _ (record d reason s1) s' h1 h
            · rename_i s1 hr
              have h1 : AliasND s1 := ih _ _ _ _ _ _ _ _ _ ha0 (by rw [hr]; rfl)
              exact acts_aliasND cfg (setup cfg k) ih true depth noRec vro d _ (record d reason s1) s' h1 h
    | false =>
      rw [setup_succ_false] at h
      cases hsp : setupProd cfg.db s.env n with
      | none => rw [hsp] at h; simp [Res.st?] at h; subst h; exact ha
      | some d =>
        rw [hsp] at h
        exact acts_aliasND cfg (setup cfg k) ih false depth noRec vro d _
          ⟨{ s.env with dirs := aunset s.env.dirs d.name, recs := aunset s.env.recs d.name }, s.aliases, s.unaliased, s.already, s.cache⟩
          s' ha h

end EupsModel.Setup
