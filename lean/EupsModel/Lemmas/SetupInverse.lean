import EupsModel.Lemmas.SetupFrame
/-! Invariants for the C02 round trip over a set `S` of product names closed under dependency lines (the closure of
the request): what is *not* owned by `S` stays in every path variable, in order; variables that no table of `S` sets
stay; variables that tables of `S` set hold nothing or an `S`-owned value; `<P>_DIR` of an `S` name without a
record is unset.  All for databases whose tables contribute through their own `${PRODUCT_DIR}` (`OwnTables`). -/
namespace EupsModel.Setup

/-- every `envPrepend` / `envAppend` / `envSet` value is `${PRODUCT_DIR}…` -/
def OwnTables (db : Db) : Prop :=
  ∀ d ∈ db.decls, ∀ g a, (g, a) ∈ d.table →
    (∀ var vals app, a = Act.prepend var vals app → ∀ val ∈ vals, ∃ rel, val = Val.own rel) ∧
    (∀ var val, a = Act.set var val → ∃ rel, val = .own rel)

/-- `var` is the target of an `envSet` in the table of a declared version of a name in `S` -/
def SetVar (db : Db) (S : Name → Prop) (var : Str) : Prop :=
  ∃ d ∈ db.decls, S d.name ∧ ∃ g val, (g, Act.set var val) ∈ d.table

structure VarsInv (db : Db) (S : Name → Prop) (e0 e : Env) : Prop where
  other : ∀ var, ¬ SetVar db S var → aget e.vars var = aget e0.vars var
  mine : ∀ var, SetVar db S var → aget e.vars var = none ∨ ∃ p rel, aget e.vars var = some (.own p rel) ∧ S p.1

/-- an `S` name without a record has no `<P>_DIR` -/
def DirClean (S : Name → Prop) (e : Env) : Prop := ∀ n, S n → e.rec? n = none → aget e.dirs n = none

theorem canon_table_mem (db : Db) (d : Decl) (hc : Canon db d) (exact : Bool) (a : Act) (ha : a ∈ d.actions exact) :
    d ∈ db.decls ∧ ∃ g, (g, a) ∈ d.table :=
  ⟨(lookup_some db d.prod d hc).1, mem_actions d exact a ha⟩

/-- the part of every path variable selected by `f` (nothing owned by `S`) is never touched -/
theorem partBy_subjInv (cfg : Cfg) (S : Name → Prop) (hown : OwnTables cfg.db) (f : Elem → Bool)
    (hf : ∀ p rel, S p.1 → f (.own p rel) = false) (e0 : Env) :
    SubjInv cfg (fun _ n => S n) (fun e => ∀ var, partBy f e var = partBy f e0 var) := by
  refine ⟨?_, fun _ _ _ _ _ _ hp => hp, fun _ _ _ _ _ hp => hp⟩
  intro fwd k d a s hc ha hS hp var
  obtain ⟨hd, g, hg⟩ := canon_table_mem cfg.db d hc cfg.exact a ha
  rw [partBy_apply f fwd d.prod a s ?_ var]
  · exact hp var
  · intro v vals app he val hval
    obtain ⟨rel, rfl⟩ := (hown d hd g a hg).1 v vals app he val hval
    exact hf d.prod rel hS

theorem varsInv_subjInv (cfg : Cfg) (S : Name → Prop) (hown : OwnTables cfg.db) (e0 : Env) :
    SubjInv cfg (fun _ n => S n) (VarsInv cfg.db S e0) := by
  refine ⟨?_, fun _ _ _ _ _ _ hp => ⟨hp.other, hp.mine⟩, fun _ _ _ _ _ hp => ⟨hp.other, hp.mine⟩⟩
  intro fwd k d a s hc ha hS hp
  obtain ⟨hd, g, hg⟩ := canon_table_mem cfg.db d hc cfg.exact a ha
  cases a with
  | prepend v val app => cases fwd <;> exact ⟨hp.other, hp.mine⟩
  | alias k' v => cases fwd <;> exact ⟨hp.other, hp.mine⟩
  | dep n o j v x t kl => exact hp
  | set var val =>
    have hsv : SetVar cfg.db S var := ⟨d, hd, hS, g, val, hg⟩
    obtain ⟨rel, rfl⟩ := (hown d hd g _ hg).2 var val rfl
    cases fwd with
    | true =>
      constructor
      · intro var2 h2
        have hne : var2 ≠ var := fun e => h2 (e ▸ hsv)
        show aget (aset s.env.vars var _) var2 = _
        rw [aget_aset_other _ _ _ _ hne]; exact hp.other var2 h2
      · intro var2 h2
        by_cases hv : var2 = var
        · subst hv
          right
          exact ⟨d.prod, rel, by show aget (aset s.env.vars var2 _) var2 = _; rw [aget_aset_same]; rfl, hS⟩
        · show aget (aset s.env.vars var _) var2 = none ∨ ∃ p rel, aget (aset s.env.vars var _) var2 = _ ∧ _
          rw [aget_aset_other _ _ _ _ hv]; exact hp.mine var2 h2
    | false =>
      constructor
      · intro var2 h2
        have hne : var2 ≠ var := fun e => h2 (e ▸ hsv)
        show aget (aunset s.env.vars var) var2 = _
        rw [aget_aunset_other _ _ _ hne]; exact hp.other var2 h2
      · intro var2 h2
        by_cases hv : var2 = var
        · subst hv
          left
          exact aget_aunset_same _ _
        · show aget (aunset s.env.vars var) var2 = none ∨ ∃ p rel, aget (aunset s.env.vars var) var2 = _ ∧ _
          rw [aget_aunset_other _ _ _ hv]; exact hp.mine var2 h2

theorem dirClean_subjInv (cfg : Cfg) (S : Name → Prop) : SubjInv cfg (fun _ n => S n) (DirClean S) := by
  refine ⟨?_, ?_, ?_⟩
  · intro fwd k d a s _ _ _ hp n hn hr
    rw [apply_rec?] at hr
    rw [apply_dirs]; exact hp n hn hr
  · intro k d r s _ _ hp n hn hr
    have hne : n ≠ d.name := by
      intro e; subst e; rw [record_rec?_same] at hr; cases hr
    rw [record_rec?_other d r s n hne] at hr
    show aget (aset s.env.dirs d.name _) n = none
    rw [aget_aset_other _ _ _ _ hne]; exact hp n hn hr
  · intro k d e _ _ hp n hn hr
    by_cases hne : n = d.name
    · subst hne; exact aget_aunset_same _ _
    · have hr' : aget (aunset e.recs d.name) n = none := hr
      rw [aget_aunset_other _ _ _ hne] at hr'
      show aget (aunset e.dirs d.name) n = none
      rw [aget_aunset_other _ _ _ hne]; exact hp n hn hr'

/-- a set of names closed under the dependency lines of every declared version -/
def Closed (db : Db) (S : Name → Prop) : Prop :=
  ∀ d ∈ db.decls, S d.name → ∀ g n o j v x t kl, (g, Act.dep n o j v x t kl) ∈ d.table → S n

theorem closed_closedAt (cfg : Cfg) (S : Name → Prop) (h : Closed cfg.db S) : ClosedAt cfg (fun _ n => S n) :=
  fun d hd _ hS _ g n o j v x t kl hg => h d hd hS g n o j v x t kl hg

end EupsModel.Setup

namespace EupsModel.Setup

/-- executable check of `OwnTables` (for concrete databases) -/
def ownTablesB (db : Db) : Bool :=
  db.decls.all fun d => d.table.all fun ga =>
    match ga.2 with
    | .prepend _ vals _ => vals.all fun v => match v with
      | .own _ => true
      | .lit _ => false
    | .set _ (.lit _) => false
    | _ => true

theorem ownTables_of_check (db : Db) (h : ownTablesB db = true) : OwnTables db := by
  intro d hd g a hg
  unfold ownTablesB at h
  rw [List.all_eq_true] at h
  have h1 := h d hd
  rw [List.all_eq_true] at h1
  have h2 := h1 (g, a) hg
  constructor
  · intro var vals app he val hval
    subst he
    simp only [List.all_eq_true] at h2
    have h3 := h2 val hval
    cases val with
    | own rel => exact ⟨rel, rfl⟩
    | lit s => simp at h3
  · intro var val he
    subst he
    cases val with
    | own rel => exact ⟨rel, rfl⟩
    | lit s => simp at h2

end EupsModel.Setup

namespace EupsModel.Setup

/-- variables that no table of `S` sets are never touched (no hypothesis on the tables) -/
theorem varsOther_subjInv (cfg : Cfg) (S : Nat → Name → Prop) (e0 : Env) :
    SubjInv cfg S (fun e => ∀ var, ¬ SetVar cfg.db (fun n => ∃ k, S k n) var → aget e.vars var = aget e0.vars var) := by
  refine ⟨?_, fun _ _ _ _ _ _ hp => hp, fun _ _ _ _ _ hp => hp⟩
  intro fwd k d a s hc ha hS hp
  obtain ⟨hd, g, hg⟩ := canon_table_mem cfg.db d hc cfg.exact a ha
  cases a with
  | prepend v vals app => cases fwd <;> exact hp
  | alias k' v => cases fwd <;> exact hp
  | dep n o j v x t kl => exact hp
  | set var val =>
    have hsv : SetVar cfg.db (fun n => ∃ k, S k n) var := ⟨d, hd, ⟨k, hS⟩, g, val, hg⟩
    intro var2 h2
    have hne : var2 ≠ var := fun e => h2 (e ▸ hsv)
    cases fwd with
    | true =>
      show aget (aset s.env.vars var _) var2 = _
      rw [aget_aset_other _ _ _ _ hne]; exact hp var2 h2
    | false =>
      show aget (aunset s.env.vars var) var2 = _
      rw [aget_aunset_other _ _ _ hne]; exact hp var2 h2

end EupsModel.Setup
