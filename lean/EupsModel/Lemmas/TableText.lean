import EupsModel.Lemmas.TableBlocks
/-! C11, block clause at text level: the lines of the block structure, written with any layout, are classified by
the block pattern of `_read` as what they are, and pass through `_rewrite` unchanged. -/
namespace EupsModel.TableParse
open EupsModel.Cond EupsModel.C11Spec

/-! ## small string facts -/

theorem dropSpaces_append {sp x : Str} (hsp : blank sp = true) (hx : nsp x = true) : dropSpaces (sp ++ x) = x := by
  induction sp with
  | nil =>
    cases x with
    | nil => rfl
    | cons c cs => simp only [nsp, Bool.not_eq_true'] at hx; simp [dropSpaces, List.dropWhile, hx]
  | cons c cs ih =>
    simp only [blank, List.all_cons, Bool.and_eq_true] at hsp
    simp only [dropSpaces, List.cons_append, List.dropWhile, hsp.1]
    exact ih (by simpa [blank] using hsp.2)

theorem allSpace_of_blank {s : Str} (h : blank s = true) : allSpace s = true := h

theorem lower_length (k : Str) : (Str.lower k).length = k.length := by simp [Str.lower]

theorem lowerPrefix_of_lower {kw k : Str} (h : Str.lower k = kw) (rest : Str) :
    lowerPrefix kw (k ++ rest) = some rest := by
  have hl : kw.length = k.length := by rw [← h, lower_length]
  simp [lowerPrefix, hl, h]

/-- lower-casing of one character -/
def lowerCh (c : Nat) : Nat := if Str.isUpper c then c + 32 else c

theorem lowerPrefix_none_head {kw s : Str} {c d : Nat} {s' kw' : Str} (hs : s = c :: s') (hk : kw = d :: kw')
    (hne : lowerCh c ≠ d) : lowerPrefix kw s = none := by
  subst hs hk
  have : (Str.lower ((c :: s').take (d :: kw').length) == d :: kw') = false := by
    simp only [List.length_cons, List.take_succ_cons, Str.lower, List.map_cons, beq_eq_false_iff_ne, ne_eq,
      List.cons.injEq, not_and]
    intro h; exact absurd h hne
  unfold lowerPrefix
  rw [this]; rfl

theorem splitLast_none {c : Nat} {y : Str} (h : c ∉ y) : splitLast c y = none := by
  induction y with
  | nil => rfl
  | cons a as ih =>
    have h1 : a ≠ c := fun e => h (e ▸ List.mem_cons_self ..)
    have h2 : c ∉ as := fun m => h (List.mem_cons_of_mem _ m)
    simp [splitLast, ih h2, h1]

theorem splitLast_append {c : Nat} (x : Str) {y : Str} (h : c ∉ y) : splitLast c (x ++ c :: y) = some (x, y) := by
  induction x with
  | nil => simp [splitLast, splitLast_none h]
  | cons a as ih => simp [splitLast, ih]

/-- the first character of a spelling of a lower-case keyword is a letter -/
theorem head_of_lower {k : Str} {c0 : Nat} {r0 : Str} (h : Str.lower k = c0 :: r0) (hc : 97 ≤ c0 ∧ c0 ≤ 122) :
    ∃ c cs, k = c :: cs ∧ Str.isSpace c = false ∧ lowerCh c = c0 := by
  cases k with
  | nil => simp [Str.lower] at h
  | cons c cs =>
    simp only [Str.lower, List.map_cons, List.cons.injEq] at h
    refine ⟨c, cs, rfl, ?_, h.1⟩
    have := h.1
    simp only [Str.isSpace, Bool.or_eq_false_iff, beq_eq_false_iff_ne, ne_eq, Bool.and_eq_false_iff,
      decide_eq_false_iff_not]
    by_cases hu : Str.isUpper c = true
    · simp only [Str.isUpper, Bool.and_eq_true, decide_eq_true_eq] at hu; omega
    · simp only [hu] at this; simp only [Bool.false_eq_true, if_false] at this; omega

theorem nsp_of_lower {k : Str} {c0 : Nat} {r0 : Str} (h : Str.lower k = c0 :: r0) (hc : 97 ≤ c0 ∧ c0 ≤ 122) (rest : Str) :
    nsp (k ++ rest) = true := by
  obtain ⟨c, cs, rfl, hs, _⟩ := head_of_lower h hc
  simp [nsp, hs]

/-! ## the lines of the block structure, as written (comment and indentation already removed) -/

theorem blank_of_hblank {s : Str} (h : hblank s = true) : blank s = true :=
  List.all_eq_true.mpr fun c hc => by
    have := List.all_eq_true.mp h c hc
    simp only [Bool.or_eq_true, beq_iff_eq] at this
    rcases this with rfl | rfl <;> decide

theorem hblank_ne {s : Str} (h : hblank s = true) {d : Nat} (hd : d ≠ 32 ∧ d ≠ 9) : d ∉ s := fun hm => by
  have := List.all_eq_true.mp h d hm
  simp only [Bool.or_eq_true, beq_iff_eq] at this
  omega

theorem IfLay.ok_blank {L : IfLay} (h : L.ok = true) :
    Str.lower L.kw = sIf ∧ blank L.a = true ∧ blank L.b = true ∧ blank L.c = true := by
  simp only [IfLay.ok, Bool.and_eq_true, beq_iff_eq] at h
  exact ⟨h.1.1.1, blank_of_hblank h.1.1.2, blank_of_hblank h.1.2, blank_of_hblank h.2⟩

theorem ElseLay.ok_blank {E : ElseLay} (h : E.ok = true) :
    blank E.s1 = true ∧ Str.lower E.kw = sElse ∧ blank E.s2 = true := by
  simp only [ElseLay.ok, Bool.and_eq_true, beq_iff_eq] at h
  exact ⟨blank_of_hblank h.1.1, h.1.2, blank_of_hblank h.2⟩

theorem sIf_eq : sIf = 105 :: [102] := rfl
theorem sElse_eq : sElse = 101 :: [108, 115, 101] := rfl

theorem ifCond_ifCore {L : IfLay} (hL : L.ok = true) (cond : Str) (after : Str → Bool) :
    ifCond (ifCore L cond) after = if after (L.b ++ [123] ++ L.c) then some cond else none := by
  obtain ⟨hk, ha, hb, hc⟩ := IfLay.ok_blank hL
  have e1 : ifCore L cond = L.kw ++ (L.a ++ (40 :: (cond ++ 41 :: (L.b ++ [123] ++ L.c)))) := by
    simp [ifCore, List.append_assoc]
  have h41 : 41 ∉ L.b ++ [123] ++ L.c := by
    intro hm
    simp only [List.mem_append, List.mem_cons, List.mem_nil_iff, or_false] at hm
    rcases hm with (hm | hm) | hm
    · have := List.all_eq_true.mp hb 41 hm; revert this; decide
    · omega
    · have := List.all_eq_true.mp hc 41 hm; revert this; decide
  rw [e1]
  simp only [ifCond, lowerPrefix_of_lower hk, dropSpaces_append ha (by rfl : nsp (40 :: _) = true),
    splitLast_append cond h41]

theorem braceEnd_ok {b c : Str} (hb : blank b = true) (hc : blank c = true) : braceEnd repaired (b ++ [123] ++ c) = true := by
  have : dropSpaces (b ++ [123] ++ c) = 123 :: c := by
    rw [List.append_assoc]; exact dropSpaces_append hb (by rfl)
  rw [braceEnd, this]
  exact hc

theorem blockLine_if {L : IfLay} (hL : L.ok = true) (cond : Str) :
    blockLine repaired (ifCore L cond) = some (.ifOpen cond) := by
  obtain ⟨_, _, hb, hc⟩ := IfLay.ok_blank hL
  have hd : dropSpaces (L.b ++ [123] ++ L.c) = 123 :: L.c := by
    rw [List.append_assoc]; exact dropSpaces_append hb (by rfl)
  simp only [blockLine, ifCond_ifCore hL, hd]
  have : allSpace L.c = true := hc
  simp [this]

theorem lowerPrefix_brace (kw' : Str) (d : Nat) (hd : d ≠ 125) (r : Str) : lowerPrefix (d :: kw') (125 :: r) = none :=
  lowerPrefix_none_head rfl rfl (by simp [lowerCh, Str.isUpper]; omega)

theorem ifCond_brace (r : Str) (after : Str → Bool) : ifCond (125 :: r) after = none := by
  simp [ifCond, sIf_eq, lowerPrefix_brace]

theorem blockLine_elif {E : ElseLay} {L : IfLay} (hE : E.ok = true) (hL : L.ok = true) (cond : Str) :
    blockLine repaired (elifCore E L cond) = some (.elseIf cond) := by
  obtain ⟨h1, hk, h2⟩ := ElseLay.ok_blank hE
  obtain ⟨hLk, _, hLb, hLc⟩ := IfLay.ok_blank hL
  have e : elifCore E L cond = 125 :: (E.s1 ++ (E.kw ++ (E.s2 ++ ifCore L cond))) := by
    simp [elifCore, List.append_assoc]
  have n1 : nsp (E.kw ++ (E.s2 ++ ifCore L cond)) = true := nsp_of_lower (hk.trans sElse_eq) (by omega) _
  have n2 : nsp (ifCore L cond) = true := by
    have : ifCore L cond = L.kw ++ (L.a ++ [40] ++ cond ++ [41] ++ L.b ++ [123] ++ L.c) := by simp [ifCore, List.append_assoc]
    rw [this]; exact nsp_of_lower (hLk.trans sIf_eq) (by omega) _
  obtain ⟨c, cs, hkc, _, _⟩ := head_of_lower (hk.trans sElse_eq) (by omega)
  have hne : (E.kw ++ (E.s2 ++ ifCore L cond)).isEmpty = false := by rw [hkc]; rfl
  rw [e]
  simp only [blockLine, ifCond_brace, dropSpaces_append h1 n1, hne, lowerPrefix_of_lower hk,
    dropSpaces_append h2 n2, ifCond_ifCore hL, braceEnd_ok hLb hLc]
  simp

theorem blockLine_else {E : ElseLay} (hE : E.ok = true) {c : Str} (hc : blank c = true) :
    blockLine repaired (elseCore E c) = some (.elseOpen (E.kw == sElse)) := by
  obtain ⟨h1, hk, h2⟩ := ElseLay.ok_blank hE
  have e : elseCore E c = 125 :: (E.s1 ++ (E.kw ++ (E.s2 ++ [123] ++ c))) := by
    simp [elseCore, List.append_assoc]
  have n1 : nsp (E.kw ++ (E.s2 ++ [123] ++ c)) = true := nsp_of_lower (hk.trans sElse_eq) (by omega) _
  obtain ⟨c0, cs, hkc, _, _⟩ := head_of_lower (hk.trans sElse_eq) (by omega)
  have hne : (E.kw ++ (E.s2 ++ [123] ++ c)).isEmpty = false := by rw [hkc]; rfl
  have hd : dropSpaces (E.s2 ++ [123] ++ c) = 123 :: c := by
    rw [List.append_assoc]; exact dropSpaces_append h2 (by rfl)
  have hnif : ifCond (123 :: c) (braceEnd repaired) = none := by
    simp only [ifCond, sIf_eq]
    rw [lowerPrefix_none_head (c := 123) (d := 105) rfl rfl (by decide)]
  have htake : (E.kw ++ (E.s2 ++ [123] ++ c)).take 4 = E.kw := by
    have : E.kw.length = 4 := by rw [← lower_length, hk]; rfl
    simp [List.take_left' this]
  rw [e]
  simp only [blockLine, ifCond_brace, dropSpaces_append h1 n1, hne, lowerPrefix_of_lower hk, hd, hnif,
    braceEnd_ok h2 hc, htake]
  simp

theorem blockLine_close {c : Str} (hc : blank c = true) : blockLine repaired (closeCore c) = some .close := by
  have : dropSpaces c = [] := by
    have := dropSpaces_append (sp := c) (x := []) hc rfl
    simpa using this
  simp [closeCore, blockLine, ifCond_brace, this]

/-! ## `_rewrite` on lines that none of its patterns touches -/

/-- the state of `_rewrite` outside legacy constructs -/
def PlainRw (st : RwState) : Prop := st.old = false ∧ st.inGroup = false ∧ st.newGroup = .no

theorem rewriteLine_empty (st : RwState) {raw : Str} (h : strip raw = []) : rewriteLine st raw = .ok st := by
  simp [rewriteLine, h]

/-- what `_rewrite` does with a line that none of its patterns matches: inside a run of `Flavor=` lines it first
opens the `if` block of the run -/
theorem rewriteLine_neutral' {st : RwState} {raw l : Str} (h : strip raw = l)
    (hn : neutral l = true) :
    rewriteLine st raw = .ok (match st.newGroup with
      | .inFlavors => { st with newGroup := .yes, out := st.out ++ [sIfOpen ++ st.cond ++ sIfClose, l] }
      | _ => { st with out := st.out ++ [l] }) := by
  simp only [neutral, Bool.and_eq_true, Bool.not_eq_true', Option.isNone_iff_eq_none, beq_iff_eq] at hn
  obtain ⟨⟨⟨⟨⟨⟨⟨⟨⟨n1, n2⟩, n3⟩, n4⟩, n5⟩, n6⟩, n7⟩, n8⟩, n9⟩, n10⟩ := hn
  simp only [rewriteLine, h, n1, n2, n3, n4, n5, n6, n7, n8, n9, n10]
  cases st.old <;> cases st.inGroup <;> cases st.newGroup <;> simp

theorem rewriteLine_neutral {st : RwState} (hst : PlainRw st) {raw l : Str} (h : strip raw = l) (hn : neutral l = true) :
    rewriteLine st raw = .ok { st with out := st.out ++ [l] } := by
  rw [rewriteLine_neutral' h hn, hst.2.2]

/-! ### block lines are neutral -/

theorem kwEq_none_head {kw l : Str} {c d : Nat} {l' kw' : Str} (hl : l = c :: l') (hk : kw = d :: kw')
    (hne : lowerCh c ≠ d) : kwEq kw l = none := by
  simp [kwEq, lowerPrefix_none_head hl hk hne]

theorem replGo_absent {pat rep : Str} {d : Nat} {pat' : Str} (hp : pat = d :: pat') :
    ∀ {s : Str}, d ∉ s → replGo pat rep 0 s = s := by
  intro s
  induction s with
  | nil => intro _; rfl
  | cons x xs ih =>
    intro h
    have hx : x ≠ d := fun e => h (e ▸ List.mem_cons_self ..)
    have hxs : d ∉ xs := fun m => h (List.mem_cons_of_mem _ m)
    have : List.isPrefixOf pat (x :: xs) = false := by
      subst hp; simp [List.isPrefixOf, hx.symm]
    simp [replGo, this, ih hxs]

theorem synonyms_absent {l : Str} (h : 36 ∉ l) : synonyms.foldl (fun l p => replaceAll p.1 p.2 l) l = l := by
  have r : ∀ (p : Str × Str), p ∈ synonyms → replaceAll p.1 p.2 l = l := by
    intro p hp
    have : ∃ pat', p.1 = 36 :: pat' := by
      simp only [synonyms, List.mem_cons, List.mem_nil_iff, or_false] at hp
      rcases hp with rfl | rfl | rfl | rfl | rfl | rfl | rfl <;> exact ⟨_, rfl⟩
    obtain ⟨pat', hpat⟩ := this
    exact replGo_absent hpat h
  have : ∀ (ps : List (Str × Str)), (∀ p ∈ ps, replaceAll p.1 p.2 l = l) →
      ps.foldl (fun l p => replaceAll p.1 p.2 l) l = l := by
    intro ps
    induction ps with
    | nil => intro _; rfl
    | cons p ps ih =>
      intro hps
      simp only [List.foldl_cons, hps p (List.mem_cons_self ..)]
      exact ih (fun q hq => hps q (List.mem_cons_of_mem _ hq))
  exact this synonyms r

/-- a line whose first character starts none of the keywords of `_rewrite`, free of `$`, is neutral -/
theorem neutral_of_head {l : Str} {c : Nat} {l' : Str} (hl : l = c :: l') (h36 : 36 ∉ l)
    (hc : lowerCh c ≠ 102 ∧ lowerCh c ≠ 97 ∧ lowerCh c ≠ 113 ∧ lowerCh c ≠ 103 ∧ lowerCh c ≠ 99 ∧ lowerCh c ≠ 101
      ∧ lowerCh c ≠ 112) : neutral l = true := by
  have k1 : kwEq sFile l = none := kwEq_none_head hl (by rfl : sFile = 102 :: _) hc.1
  have k2 : kwEq sAction l = none := kwEq_none_head hl (by rfl : sAction = 97 :: _) hc.2.1
  have k3 : kwEq sQualifiers l = none := kwEq_none_head hl (by rfl : sQualifiers = 113 :: _) hc.2.2.1
  have k4 : lowerPrefix sGroupC l = none := lowerPrefix_none_head hl (by rfl : sGroupC = 103 :: _) hc.2.2.2.1
  have k5 : kwEq sFlavorKw l = none := kwEq_none_head hl (by rfl : sFlavorKw = 102 :: _) hc.1
  have k6 : lowerPrefix sCommonC l = none := lowerPrefix_none_head hl (by rfl : sCommonC = 99 :: _) hc.2.2.2.2.1
  have k7 : lowerPrefix sEndC l = none := lowerPrefix_none_head hl (by rfl : sEndC = 101 :: _) hc.2.2.2.2.2.1
  have k8 : kwEq sProduct l = none := kwEq_none_head hl (by rfl : sProduct = 112 :: _) hc.2.2.2.2.2.2
  have hne : l.isEmpty = false := by rw [hl]; rfl
  simp [neutral, hne, kwEqCap, k1, k2, k3, k4, k5, k6, k7, k8, qualLine, kwLine, synonyms_absent h36]

/-! ### from the raw line to the stripped one -/

theorem filter_nl {s : Str} (h : s.all (· != 10) = true) : s.filter (· != 10) = s :=
  List.filter_eq_self.mpr (fun a ha => List.all_eq_true.mp h a ha)

theorem takeWhile_hash {core tail : Str} (hc : core.all (· != 35) = true) (ht : tail = [] ∨ tail.head? = some 35) :
    (core ++ tail).takeWhile (· != 35) = core := by
  induction core with
  | nil =>
    rcases ht with rfl | ht
    · rfl
    · cases tail with
      | nil => rfl
      | cons a as => simp only [List.head?_cons, Option.some.injEq] at ht; subst ht; simp [List.takeWhile]
  | cons a as ih =>
    simp only [List.all_cons, Bool.and_eq_true] at hc
    simp [List.takeWhile, hc.1, ih hc.2]

theorem strip_wrap {w : Wrap} (hw : w.ok = true) {core : Str} (hc : coreOK core = true) :
    strip (w.around core) = core := by
  simp only [Wrap.ok, Bool.and_eq_true, Bool.or_eq_true, List.isEmpty_iff, beq_iff_eq] at hw
  obtain ⟨⟨h1, h3⟩, h4⟩ := hw
  have h2 : w.indent.all (· != 10) = true := List.all_eq_true.mpr fun a ha => by
    have := hblank_ne h1 (d := 10) (by omega); simp only [bne_iff_ne, ne_eq]; intro e; exact this (e ▸ ha)
  simp only [coreOK, Bool.and_eq_true] at hc
  have c10 : core.all (· != 10) = true := List.all_eq_true.mpr fun a ha => by
    have := List.all_eq_true.mp hc.2 a ha; simp only [Bool.and_eq_true] at this; exact this.1
  have c35 : core.all (· != 35) = true := List.all_eq_true.mpr fun a ha => by
    have := List.all_eq_true.mp hc.2 a ha; simp only [Bool.and_eq_true] at this; exact this.2
  have hall : (w.indent ++ core ++ w.tail).all (· != 10) = true := by
    simp [List.all_append, h2, c10, h3]
  have hn : nsp (core ++ w.tail) = true := by
    cases core with
    | nil =>
      rcases h4 with h4 | h4
      · rw [h4]; rfl
      · cases hwt : w.tail with
        | nil => rfl
        | cons a as => rw [hwt] at h4; simp only [List.head?_cons, Option.some.injEq] at h4; subst h4; rfl
    | cons a as => simpa [nsp] using hc.1
  unfold strip Wrap.around
  rw [filter_nl hall, List.append_assoc]
  have := dropSpaces_append (blank_of_hblank h1) hn
  unfold dropSpaces at this
  rw [this]
  exact takeWhile_hash c35 (by rcases h4 with h4 | h4 <;> simp [h4])

/-! ## the characters of the block lines -/

/-- characters that neither end a line, start a comment, nor start a variable reference -/
def lineCh (x : Nat) : Bool := x != 10 && x != 35 && x != 36

theorem lineCh_of_tokCh {x : Nat} (h : isTokCh x = true) : lineCh x = true := by
  simp only [isTokCh, isWordCh, Str.isAlnum, Str.isAlpha, Str.isUpper, Str.isLower, Str.isDigit, Bool.or_eq_true,
    Bool.and_eq_true, decide_eq_true_eq, beq_iff_eq] at h
  simp only [lineCh, Bool.and_eq_true, bne_iff_ne, ne_eq]; omega

theorem lineCh_of_hblank {s : Str} (h : hblank s = true) : s.all lineCh = true :=
  List.all_eq_true.mpr fun c hc => by
    have := List.all_eq_true.mp h c hc
    simp only [Bool.or_eq_true, beq_iff_eq] at this
    rcases this with rfl | rfl <;> decide

/-- `#` and `$` do not occur in a written condition -/
def condCh (x : Nat) : Bool := x != 35 && x != 36

theorem condCh_of_space {x : Nat} (h : Str.isSpace x = true) : condCh x = true := by
  simp only [Str.isSpace, Bool.or_eq_true, Bool.and_eq_true, decide_eq_true_eq, beq_iff_eq] at h
  simp only [condCh, Bool.and_eq_true, bne_iff_ne, ne_eq]; omega

theorem condCh_of_blank {s : Str} (h : blank s = true) : s.all condCh = true :=
  List.all_eq_true.mpr fun c hc => condCh_of_space (List.all_eq_true.mp h c hc)

theorem condCh_of_tokChs {s : Str} (h : s.all isTokCh = true) : s.all condCh = true :=
  List.all_eq_true.mpr fun c hc => by
    have := lineCh_of_tokCh (List.all_eq_true.mp h c hc)
    simp only [lineCh, Bool.and_eq_true] at this
    simp [condCh, this.1.2, this.2]

theorem condCh_str (c : CExpr) : ∀ p, c.okAt p = true → c.str.all condCh = true := by
  induction c with
  | atom a =>
    intro p hok
    have hok' : a.ok = true := by simpa [CExpr.okAt] using hok
    obtain ⟨_, hk, _⟩ := kw_facts_lex hok'
    obtain ⟨_, hw, _⟩ := word_facts_lex hok'
    simp only [Atom.ok, Bool.and_eq_true] at hok'
    obtain ⟨⟨⟨⟨_, hq⟩, h1⟩, h2⟩, h3⟩ := hok'
    have hop : (opStr a.neg).all condCh = true := by cases a.neg <;> decide
    have hqw : (quoted a.quote a.word).all condCh = true := by
      cases hqv : a.quote with
      | none => exact condCh_of_tokChs hw
      | some q =>
        rw [hqv] at hq; simp only [Bool.or_eq_true, beq_iff_eq] at hq
        have hq' : condCh q = true := by
          rcases hq with (hq | hq) | hq
          · cases hq
          · cases hq; decide
          · cases hq; decide
        simp [quoted, List.all_append, hq', condCh_of_tokChs hw]
    simp [CExpr.str, List.all_append, condCh_of_blank h1, condCh_of_tokChs hk, condCh_of_blank h2, hop,
      condCh_of_blank h3, hqw]
  | and a b sp iha ihb =>
    intro p hok
    simp only [CExpr.okAt, Bool.and_eq_true] at hok
    obtain ⟨⟨⟨_, ha⟩, hb⟩, hsp⟩ := hok
    have : sAndAnd.all condCh = true := by decide
    simp [CExpr.str, List.all_append, iha 1 ha, ihb 2 hb, condCh_of_blank hsp, this]
  | or a b sp iha ihb =>
    intro p hok
    simp only [CExpr.okAt, Bool.and_eq_true] at hok
    obtain ⟨⟨⟨_, ha⟩, hb⟩, hsp⟩ := hok
    have : sOrOr.all condCh = true := by decide
    simp [CExpr.str, List.all_append, iha 0 ha, ihb 1 hb, condCh_of_blank hsp, this]
  | paren a sp1 sp2 ih =>
    intro p hok
    simp only [CExpr.okAt, Bool.and_eq_true] at hok
    obtain ⟨⟨ha, h1⟩, h2⟩ := hok
    have e1 : sLp.all condCh = true := by decide
    have e2 : sRp.all condCh = true := by decide
    simp [CExpr.str, List.all_append, ih 0 ha, condCh_of_blank h1, condCh_of_blank h2, e1, e2]

/-- the condition text of a branch is made of line characters -/
theorem lineCh_text {b : BranchT} {pdir : Option Str} (hb : b.ok pdir = true) : b.abs.text.all lineCh = true := by
  simp only [BranchT.ok, Bool.and_eq_true] at hb
  obtain ⟨⟨⟨⟨⟨_, _⟩, hc⟩, ht⟩, hnl⟩, _⟩ := hb
  have h1 := condCh_str b.cond 0 hc
  have h2 := condCh_of_blank ht
  have h3 : (b.cond.str ++ b.trail).all condCh = true := by simp [List.all_append, h1, h2]
  refine List.all_eq_true.mpr fun x hx => ?_
  have a := List.all_eq_true.mp hnl x hx
  have c := List.all_eq_true.mp h3 x hx
  simp only [condCh, Bool.and_eq_true] at c
  simp [lineCh, a, c.1, c.2]

/-- the spelling of a lower-case keyword consists of letters -/
theorem lineCh_of_lower {k kw : Str} (h : Str.lower k = kw) (hkw : kw.all Str.isLower = true) : k.all lineCh = true := by
  subst h
  refine List.all_eq_true.mpr fun c hc => ?_
  have : Str.isLower (lowerCh c) = true :=
    List.all_eq_true.mp hkw (lowerCh c) (by simp only [Str.lower, List.mem_map]; exact ⟨c, hc, rfl⟩)
  simp only [lowerCh, Str.isLower, Str.isUpper, Bool.and_eq_true, decide_eq_true_eq] at this
  simp only [lineCh, Bool.and_eq_true, bne_iff_ne, ne_eq]
  split at this <;> omega

theorem lineCh_ifCore {L : IfLay} (hL : L.ok = true) {t : Str} (ht : t.all lineCh = true) :
    (ifCore L t).all lineCh = true := by
  simp only [IfLay.ok, Bool.and_eq_true, beq_iff_eq] at hL
  obtain ⟨⟨⟨hk, ha⟩, hb⟩, hc⟩ := hL
  have hkw := lineCh_of_lower hk (by decide)
  have e40 : lineCh 40 = true := by decide
  have e41 : lineCh 41 = true := by decide
  have e123 : lineCh 123 = true := by decide
  simp [ifCore, List.all_append, hkw, lineCh_of_hblank ha, lineCh_of_hblank hb, lineCh_of_hblank hc, ht, e40, e41, e123]

theorem lineCh_elsePre {E : ElseLay} (hE : E.ok = true) : ([125] ++ E.s1 ++ E.kw ++ E.s2).all lineCh = true := by
  simp only [ElseLay.ok, Bool.and_eq_true, beq_iff_eq] at hE
  obtain ⟨⟨h1, hk⟩, h2⟩ := hE
  have hkw := lineCh_of_lower hk (by decide)
  have e : lineCh 125 = true := by decide
  simp [List.all_append, hkw, lineCh_of_hblank h1, lineCh_of_hblank h2, e]

/-- a line of line characters whose head starts no keyword of `_rewrite` survives stripping and rewriting -/
theorem core_facts {core : Str} {c : Nat} {l' : Str} (hl : core = c :: l') (hall : core.all lineCh = true)
    (hs : Str.isSpace c = false)
    (hc : lowerCh c ≠ 102 ∧ lowerCh c ≠ 97 ∧ lowerCh c ≠ 113 ∧ lowerCh c ≠ 103 ∧ lowerCh c ≠ 99 ∧ lowerCh c ≠ 101
      ∧ lowerCh c ≠ 112) :
    coreOK core = true ∧ neutral core = true ∧ core.isEmpty = false ∧ core.all (· != 10) = true := by
  have h36 : 36 ∉ core := fun hm => by
    have := List.all_eq_true.mp hall 36 hm; revert this; decide
  have h10 : core.all (· != 10) = true := List.all_eq_true.mpr fun x hx => by
    have := List.all_eq_true.mp hall x hx; simp only [lineCh, Bool.and_eq_true] at this; exact this.1.1
  refine ⟨?_, neutral_of_head hl h36 hc, by rw [hl]; rfl, h10⟩
  simp only [coreOK, Bool.and_eq_true]
  refine ⟨by rw [hl]; simp [nsp, hs], List.all_eq_true.mpr fun x hx => ?_⟩
  have := List.all_eq_true.mp hall x hx
  simp only [lineCh, Bool.and_eq_true] at this
  simp [this.1.1, this.1.2]

theorem ifCore_facts {L : IfLay} (hL : L.ok = true) {t : Str} (ht : t.all lineCh = true) :
    coreOK (ifCore L t) = true ∧ neutral (ifCore L t) = true ∧ (ifCore L t).isEmpty = false
      ∧ (ifCore L t).all (· != 10) = true := by
  obtain ⟨hk, _, _, _⟩ := IfLay.ok_blank hL
  obtain ⟨c, cs, hkc, hs, hlc⟩ := head_of_lower (hk.trans sIf_eq) (by omega)
  have hl : ifCore L t = c :: (cs ++ L.a ++ [40] ++ t ++ [41] ++ L.b ++ [123] ++ L.c) := by
    simp [ifCore, hkc, List.append_assoc]
  exact core_facts hl (lineCh_ifCore hL ht) hs (by rw [hlc]; omega)

theorem brace_facts {rest : Str} (hall : (125 :: rest).all lineCh = true) :
    coreOK (125 :: rest) = true ∧ neutral (125 :: rest) = true ∧ (125 :: rest).isEmpty = false
      ∧ (125 :: rest).all (· != 10) = true :=
  core_facts rfl hall (by decide) (by decide)

/-! ## `_rewrite` and the classification over whole tables -/

/-- a raw line that `_rewrite` either drops (nothing left after stripping) or passes on stripped -/
def passes (raw : Str) : Bool := (strip raw).isEmpty || neutral (strip raw)

/-- what `_rewrite` makes of such lines -/
def coresOf (raws : List Str) : List Str := (raws.map strip).filter (fun l => !l.isEmpty)

theorem coresOf_append (a b : List Str) : coresOf (a ++ b) = coresOf a ++ coresOf b := by
  simp [coresOf]

theorem rewriteLines_pass' : ∀ (raws : List Str) (st : RwState), st.newGroup ≠ .inFlavors → raws.all passes = true →
    rewriteLines st raws = .ok { st with out := st.out ++ coresOf raws } := by
  intro raws
  induction raws with
  | nil => intro st _ _; simp [rewriteLines, coresOf]
  | cons r rs ih =>
    intro st hst hall
    simp only [List.all_cons, Bool.and_eq_true] at hall
    by_cases he : (strip r).isEmpty = true
    · have he' : strip r = [] := List.isEmpty_iff.mp he
      simp only [rewriteLines, rewriteLine_empty st he', Res.bind, ih st hst hall.2]
      simp [coresOf, he']
    · have hn : neutral (strip r) = true := by
        have := hall.1; simp only [passes, Bool.or_eq_true] at this
        rcases this with h | h
        · exact absurd h he
        · exact h
      have e : rewriteLine st r = .ok { st with out := st.out ++ [strip r] } := by
        rw [rewriteLine_neutral' rfl hn]
        cases hg : st.newGroup <;> simp_all
      simp only [rewriteLines, e, Res.bind]
      have hst' : ({ st with out := st.out ++ [strip r] } : RwState).newGroup ≠ .inFlavors := hst
      rw [ih _ hst' hall.2]
      simp [coresOf, he, List.append_assoc]

theorem rewriteLines_pass (raws : List Str) (st : RwState) (hst : PlainRw st) (h : raws.all passes = true) :
    rewriteLines st raws = .ok { st with out := st.out ++ coresOf raws } :=
  rewriteLines_pass' raws st (by rw [hst.2.2]; decide) h

theorem classifyAll_cons {v : Variant} {pdir : Option Str} {l : Str} {c : Line} {ls : List Str} {cs : List Line}
    (h1 : classify v pdir l = .ok c) (h2 : classifyAll v pdir ls = .ok cs) :
    classifyAll v pdir (l :: ls) = .ok (c :: cs) := by
  simp [classifyAll, h1, h2, Res.bind]

theorem classifyAll_append {v : Variant} {pdir : Option Str} {a b : List Str} {ca cb : List Line}
    (h1 : classifyAll v pdir a = .ok ca) (h2 : classifyAll v pdir b = .ok cb) :
    classifyAll v pdir (a ++ b) = .ok (ca ++ cb) := by
  induction a generalizing ca with
  | nil => simp only [classifyAll] at h1; cases h1; simpa using h2
  | cons l ls ih =>
    simp only [classifyAll] at h1
    cases hc : classify v pdir l with
    | ok c =>
      rw [hc] at h1; simp only [Res.bind] at h1
      cases hr : classifyAll v pdir ls with
      | ok cs =>
        rw [hr] at h1; simp only [Res.bind] at h1; cases h1
        exact classifyAll_cons hc (ih hr)
      | err e => rw [hr] at h1; simp [Res.bind] at h1
      | fuel => rw [hr] at h1; simp [Res.bind] at h1
    | err e => rw [hc] at h1; simp [Res.bind] at h1
    | fuel => rw [hc] at h1; simp [Res.bind] at h1

/-- the lines between the lines of the block structure -/
theorem body_facts {pdir : Option Str} : ∀ (body : List BodyLineT), body.all (BodyLineT.ok pdir) = true →
    (body.map (·.raw)).all passes = true ∧ (∀ r ∈ body.map (·.raw), r.all (· != 10) = true) ∧
    classifyAll repaired pdir (coresOf (body.map (·.raw))) = .ok (Body.lines (bodyAbs body)) := by
  intro body
  induction body with
  | nil => intro _; exact ⟨rfl, (fun r hr => by simp at hr), rfl⟩
  | cons b bs ih =>
    intro hall
    simp only [List.all_cons, Bool.and_eq_true] at hall
    obtain ⟨ihp, ihn, ihc⟩ := ih hall.2
    have hb := hall.1
    simp only [BodyLineT.ok, Bool.and_eq_true] at hb
    obtain ⟨hnl, hrest⟩ := hb
    have hnl' : ∀ r ∈ (b :: bs).map (·.raw), r.all (· != 10) = true := by
      intro r hr
      simp only [List.map_cons, List.mem_cons] at hr
      rcases hr with rfl | hr
      · exact hnl
      · exact ihn r hr
    by_cases he : (strip b.raw).isEmpty = true
    · refine ⟨by simp [passes, he, ihp], hnl', ?_⟩
      have he' : strip b.raw = [] := List.isEmpty_iff.mp he
      have : coresOf ((b :: bs).map (·.raw)) = coresOf (bs.map (·.raw)) := by simp [coresOf, he']
      rw [this, ihc]
      simp [bodyAbs, he]
    · simp only [he, if_false, Bool.and_eq_true, decide_eq_true_eq, Bool.false_eq_true] at hrest
      refine ⟨by simp [passes, hrest.1, ihp], hnl', ?_⟩
      have : coresOf ((b :: bs).map (·.raw)) = strip b.raw :: coresOf (bs.map (·.raw)) := by simp [coresOf, he]
      rw [this, classifyAll_cons hrest.2 ihc]
      have he2 : (strip b.raw).isEmpty = false := by simpa using he
      cases hres : b.res <;> simp [bodyAbs, he2, Body.lines, lineOf, hres]

/-- one wrapped block line: passes `_rewrite`, has no newline, and is what `_rewrite` hands on -/
theorem wrapped_facts {w : Wrap} (hw : w.ok = true) {core : Str}
    (hf : coreOK core = true ∧ neutral core = true ∧ core.isEmpty = false ∧ core.all (· != 10) = true) :
    passes (w.around core) = true ∧ (w.around core).all (· != 10) = true ∧ coresOf [w.around core] = [core] := by
  have hs := strip_wrap hw hf.1
  have hw' := hw
  simp only [Wrap.ok, Bool.and_eq_true] at hw'
  have h10 : w.indent.all (· != 10) = true := List.all_eq_true.mpr fun a ha => by
    have := hblank_ne hw'.1.1 (d := 10) (by omega); simp only [bne_iff_ne, ne_eq]; intro e; exact this (e ▸ ha)
  refine ⟨by simp [passes, hs, hf.2.1], by simp [Wrap.around, List.all_append, h10, hf.2.2.2, hw'.1.2], ?_⟩
  simp [coresOf, hs, hf.2.2.1]

/-- raw lines that pass `_rewrite`, hold no newline, and are classified as `ls` -/
def Good (pdir : Option Str) (raws : List Str) (ls : List Line) : Prop :=
  raws.all passes = true ∧ (∀ r ∈ raws, r.all (· != 10) = true) ∧ classifyAll repaired pdir (coresOf raws) = .ok ls

theorem Good.nil (pdir : Option Str) : Good pdir [] [] := ⟨rfl, (fun r hr => by simp at hr), rfl⟩

theorem Good.append {pdir : Option Str} {r1 r2 : List Str} {l1 l2 : List Line} (h1 : Good pdir r1 l1) (h2 : Good pdir r2 l2) :
    Good pdir (r1 ++ r2) (l1 ++ l2) := by
  refine ⟨by simp [List.all_append, h1.1, h2.1], ?_, ?_⟩
  · intro r hr
    rcases List.mem_append.mp hr with hr | hr
    · exact h1.2.1 r hr
    · exact h2.2.1 r hr
  · rw [coresOf_append]; exact classifyAll_append h1.2.2 h2.2.2

theorem good_body {pdir : Option Str} {body : List BodyLineT} (h : body.all (BodyLineT.ok pdir) = true) :
    Good pdir (body.map (·.raw)) (Body.lines (bodyAbs body)) := body_facts body h

theorem good_wrapped {pdir : Option Str} {w : Wrap} (hw : w.ok = true) {core : Str}
    (hf : coreOK core = true ∧ neutral core = true ∧ core.isEmpty = false ∧ core.all (· != 10) = true)
    {bl : BlockLine} (hb : blockLine repaired core = some bl) : Good pdir [w.around core] [.blk bl] := by
  obtain ⟨h1, h2, h3⟩ := wrapped_facts hw hf
  refine ⟨by simp [h1], fun r hr => by simp at hr; rw [hr]; exact h2, ?_⟩
  rw [h3]
  simp [classifyAll, classify, hb, Res.bind]

theorem good_branch_head {pdir : Option Str} {b : BranchT} (hb : b.ok pdir = true) :
    Good pdir (b.wrap.around (ifCore b.lay b.abs.text) :: b.body.map (·.raw))
      (.blk (.ifOpen b.abs.text) :: Body.lines (bodyAbs b.body)) := by
  have ht := lineCh_text hb
  simp only [BranchT.ok, Bool.and_eq_true] at hb
  obtain ⟨⟨⟨⟨⟨hw, hl⟩, _⟩, _⟩, _⟩, hbody⟩ := hb
  exact (good_wrapped hw (ifCore_facts hl ht) (blockLine_if hl _)).append (good_body hbody)

theorem good_elif {pdir : Option Str} {E : ElseLay} {b : BranchT} (hE : E.ok = true) (hb : b.ok pdir = true) :
    Good pdir (b.wrap.around (elifCore E b.lay b.abs.text) :: b.body.map (·.raw))
      (.blk (.elseIf b.abs.text) :: Body.lines (bodyAbs b.body)) := by
  have ht := lineCh_text hb
  simp only [BranchT.ok, Bool.and_eq_true] at hb
  obtain ⟨⟨⟨⟨⟨hw, hl⟩, _⟩, _⟩, _⟩, hbody⟩ := hb
  have hall : (elifCore E b.lay b.abs.text).all lineCh = true := by
    have h1 := lineCh_elsePre hE
    have h2 := lineCh_ifCore hl ht
    unfold elifCore
    rw [List.all_append, h1, h2]; rfl
  have e : elifCore E b.lay b.abs.text = 125 :: (E.s1 ++ E.kw ++ E.s2 ++ ifCore b.lay b.abs.text) := by
    simp [elifCore, List.append_assoc]
  have hf := brace_facts (e ▸ hall)
  rw [← e] at hf
  exact (good_wrapped hw hf (blockLine_elif hE hl _)).append (good_body hbody)

theorem good_elifs {pdir : Option Str} : ∀ (es : List (ElseLay × BranchT)),
    es.all (fun p => p.1.ok && p.2.ok pdir) = true →
    Good pdir (es.flatMap (fun p => p.2.wrap.around (elifCore p.1 p.2.lay p.2.abs.text) :: p.2.body.map (·.raw)))
      ((es.map (·.2.abs)).flatMap (fun b => .blk (.elseIf b.text) :: b.body.lines)) := by
  intro es
  induction es with
  | nil => intro _; exact Good.nil pdir
  | cons p ps ih =>
    intro h
    simp only [List.all_cons, Bool.and_eq_true] at h
    have := (good_elif h.1.1 h.1.2).append (ih h.2)
    simpa [List.flatMap_cons, BranchT.abs] using this

theorem good_else {pdir : Option Str} {e : ElseT} (he : e.ok pdir = true) :
    Good pdir (e.wrap.around (elseCore e.lay e.after) :: e.body.map (·.raw))
      (.blk (.elseOpen (e.lay.kw == sElse)) :: Body.lines (bodyAbs e.body)) := by
  simp only [ElseT.ok, Bool.and_eq_true] at he
  obtain ⟨⟨⟨hw, hl⟩, ha⟩, hbody⟩ := he
  have hall : (elseCore e.lay e.after).all lineCh = true := by
    have h1 := lineCh_elsePre hl
    have h2 : ([123] : Str).all lineCh = true := by decide
    unfold elseCore
    rw [List.all_append, List.all_append, h1, h2, lineCh_of_hblank ha]; rfl
  have eq : elseCore e.lay e.after = 125 :: (e.lay.s1 ++ e.lay.kw ++ e.lay.s2 ++ [123] ++ e.after) := by
    simp [elseCore, List.append_assoc]
  have hf := brace_facts (eq ▸ hall)
  rw [← eq] at hf
  exact (good_wrapped hw hf (blockLine_else hl (blank_of_hblank ha))).append (good_body hbody)

theorem good_close {pdir : Option Str} {w : Wrap} (hw : w.ok = true) {ca : Str} (ha : hblank ca = true) :
    Good pdir [w.around (closeCore ca)] [.blk .close] := by
  have hall : (closeCore ca).all lineCh = true := by
    have e : lineCh 125 = true := by decide
    simp [closeCore, List.all_append, lineCh_of_hblank ha, e]
  exact good_wrapped hw (brace_facts hall) (blockLine_close (blank_of_hblank ha))

theorem good_item {pdir : Option Str} (it : TItemT) (hok : it.ok pdir = true) :
    Good pdir it.rawLines (it.abs.flatMap TItem.lines) := by
  cases it with
  | line b =>
    have := good_body (pdir := pdir) (body := [b]) (by simpa [TItemT.ok] using hok)
    by_cases he : (strip b.raw).isEmpty = true
    · simpa [TItemT.rawLines, TItemT.abs, he, bodyAbs, Body.lines] using this
    · have he2 : (strip b.raw).isEmpty = false := by simpa using he
      simpa [TItemT.rawLines, TItemT.abs, he2, bodyAbs, Body.lines, TItem.lines] using this
  | chain f es els cw ca =>
    simp only [TItemT.ok, Bool.and_eq_true] at hok
    obtain ⟨⟨⟨⟨hf, hes⟩, hels⟩, hcw⟩, hca⟩ := hok
    have g1 := good_branch_head hf
    have g2 := good_elifs es hes
    have g4 := good_close (pdir := pdir) hcw hca
    cases els with
    | none =>
      have := (g1.append g2).append g4
      simpa [TItemT.rawLines, TItemT.abs, TItem.lines, BranchT.abs, List.append_assoc] using this
    | some e =>
      have g3 := good_else (pdir := pdir) (e := e) hels
      have := ((g1.append g2).append g3).append g4
      simpa [TItemT.rawLines, TItemT.abs, TItem.lines, BranchT.abs, List.append_assoc] using this

theorem good_table {pdir : Option Str} : ∀ (t : List TItemT), t.all (TItemT.ok pdir) = true →
    Good pdir (t.flatMap TItemT.rawLines) (tableLines (tableAbs t)) := by
  intro t
  induction t with
  | nil => intro _; exact Good.nil pdir
  | cons it its ih =>
    intro h
    simp only [List.all_cons, Bool.and_eq_true] at h
    have := (good_item it h.1).append (ih h.2)
    simpa [tableLines, tableAbs, List.flatMap_cons, List.flatMap_append] using this

/-- the tables that texts stand for are well-formed -/
theorem tableAbs_ok {pdir : Option Str} : ∀ (t : List TItemT), t.all (TItemT.ok pdir) = true →
    (tableAbs t).all TItem.ok = true := by
  intro t
  induction t with
  | nil => intro _; rfl
  | cons it its ih =>
    intro h
    simp only [List.all_cons, Bool.and_eq_true] at h
    have hi : it.abs.all TItem.ok = true := by
      cases it with
      | line b => simp only [TItemT.abs]; split <;> simp [TItem.ok]
      | chain f es els cw ca =>
        have hok := h.1
        simp only [TItemT.ok, Bool.and_eq_true] at hok
        obtain ⟨⟨⟨⟨hf, hes⟩, _⟩, _⟩, _⟩ := hok
        have bo : ∀ {b : BranchT}, b.ok pdir = true → b.abs.ok = true := by
          intro b hb
          simp only [BranchT.ok, Bool.and_eq_true] at hb
          simp [Branch.ok, BranchT.abs, hb.1.1.1.2, hb.1.1.2]
        have : (es.map (·.2.abs)).all Branch.ok = true := by
          simp only [List.all_map]
          refine List.all_eq_true.mpr fun p hp => ?_
          have := List.all_eq_true.mp hes p hp
          simp only [Bool.and_eq_true] at this
          exact bo this.2
        simp [TItemT.abs, TItem.ok, bo hf, this]
    have := ih h.2
    unfold tableAbs at this ⊢
    rw [List.flatMap_cons, List.all_append, hi, this]; rfl

/-! ## from the text to its lines -/

theorem splitLines_line {l : Str} (h : l.all (· != 10) = true) (cur : Str) : splitLines cur l = [cur ++ l] := by
  induction l generalizing cur with
  | nil => simp [splitLines]
  | cons c cs ih =>
    simp only [List.all_cons, Bool.and_eq_true, bne_iff_ne, ne_eq] at h
    have : (c == 10) = false := by simpa using h.1
    simp [splitLines, this, ih (by simpa using h.2)]

theorem splitLines_nl {l : Str} (h : l.all (· != 10) = true) (cur x : Str) :
    splitLines cur (l ++ 10 :: x) = (cur ++ l) :: splitLines [] x := by
  induction l generalizing cur with
  | nil => simp [splitLines]
  | cons c cs ih =>
    simp only [List.all_cons, Bool.and_eq_true, bne_iff_ne, ne_eq] at h
    have : (c == 10) = false := by simpa using h.1
    simp [splitLines, this, ih (by simpa using h.2)]

/-- the lines of a text put together from lines: the same lines, possibly followed by empty ones -/
theorem splitLines_joinNL : ∀ (raws : List Str), (∀ r ∈ raws, r.all (· != 10) = true) → ∀ (nl : Bool),
    ∃ extra, splitLines [] (joinNL raws ++ (if nl then [10] else [])) = raws ++ extra ∧ ∀ e ∈ extra, e = [] := by
  intro raws
  induction raws with
  | nil =>
    intro _ nl
    cases nl
    · exact ⟨[[]], by simp [joinNL, splitLines], by simp⟩
    · exact ⟨[[], []], by simp [joinNL, splitLines], by simp⟩
  | cons r rs ih =>
    intro h nl
    have hr := h r (List.mem_cons_self ..)
    cases rs with
    | nil =>
      cases nl
      · exact ⟨[], by simp [joinNL, splitLines_line hr], by simp⟩
      · refine ⟨[[]], ?_, by simp⟩
        have := splitLines_nl hr [] []
        simpa [joinNL, splitLines] using this
    | cons r' rs' =>
      obtain ⟨extra, he, hx⟩ := ih (fun q hq => h q (List.mem_cons_of_mem _ hq)) nl
      refine ⟨extra, ?_, hx⟩
      have : joinNL (r :: r' :: rs') ++ (if nl then [10] else []) = r ++ 10 :: (joinNL (r' :: rs') ++ (if nl then [10] else [])) := by
        simp [joinNL]
      rw [this, splitLines_nl hr, he]
      simp

theorem good_extra {pdir : Option Str} {extra : List Str} (h : ∀ e ∈ extra, e = []) : Good pdir extra [] := by
  induction extra with
  | nil => exact Good.nil pdir
  | cons e es ih =>
    have he : e = [] := h e (List.mem_cons_self ..)
    have := ih (fun q hq => h q (List.mem_cons_of_mem _ hq))
    subst he
    refine ⟨by simpa [passes, strip] using this.1, fun r hr => ?_, by simpa [coresOf, strip] using this.2.2⟩
    rcases List.mem_cons.mp hr with rfl | hr
    · rfl
    · exact this.2.1 r hr

/-- `_rewrite` on the text of a table whose lines all pass -/
theorem rewrite_table {pdir : Option Str} (t : List TItemT) (hok : t.all (TItemT.ok pdir) = true) (nl : Bool) :
    ∃ lines, rewrite (tableText t nl) = .ok lines ∧ classifyAll repaired pdir lines = .ok (tableLines (tableAbs t)) := by
  have g := good_table t hok
  obtain ⟨extra, hs, hx⟩ := splitLines_joinNL (t.flatMap TItemT.rawLines) g.2.1 nl
  have g' := g.append (good_extra (pdir := pdir) hx)
  refine ⟨coresOf (t.flatMap TItemT.rawLines ++ extra), ?_, by simpa using g'.2.2⟩
  simp only [rewrite, tableText, hs]
  rw [rewriteLines_pass _ _ ⟨rfl, rfl, rfl⟩ g'.1]
  simp [Res.bind]

end EupsModel.TableParse
