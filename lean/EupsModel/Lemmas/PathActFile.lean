import EupsModel.Lemmas.PathActName
/-! What `Product.getTable` hands out for a table file (`fromFile`): the older synonyms, the envUnset rule. -/
namespace EupsModel.PathAct
open EupsModel EupsModel.PathAlg

theorem fromFile_cons (p : ProdInfo) (ep : Option Str) (fwd : Bool) (a : Act) (rest : List (Bool × Act)) :
    fromFile p ep ((fwd, a) :: rest) =
      (match readFilter p.name (a.mapArgs legacySyn) with
       | some a' => (fwd, a'.expandAll p ep) :: fromFile p ep rest
       | none => fromFile p ep rest) := by
  unfold fromFile
  rw [List.filterMap_cons]
  cases h : readFilter p.name (a.mapArgs legacySyn) <;> simp [h]

/-- lines that are not envUnset all come through, in order, with synonyms rewritten and macros expanded -/
theorem fromFile_no_unset (p : ProdInfo) (ep : Option Str) (acts : List (Bool × Act))
    (h : ∀ a ∈ acts, ∀ v, a.2 ≠ .unset v) :
    fromFile p ep acts = acts.map (fun a => (a.1, (a.2.mapArgs legacySyn).expandAll p ep)) := by
  induction acts with
  | nil => rfl
  | cons a rest ih =>
    obtain ⟨fwd, act⟩ := a
    have hrest := ih (fun a ha => h a (by simp [ha]))
    have hact := h (fwd, act) (by simp)
    rw [fromFile_cons, List.map_cons, hrest]
    cases act with
    | unset v => exact absurd rfl (hact v)
    | path app var value delim => rfl
    | set var value => rfl
    | alias key ws => rfl

/-- an envUnset line for a variable that is not the product's own directory variable (written without `$`) never
comes out of the file -/
theorem fromFile_drops_foreign_unset (p : ProdInfo) (ep : Option Str) (fwd : Bool) (var : Str)
    (rest : List (Bool × Act)) (h36 : 36 ∉ var)
    (h1 : var ≠ Str.ofString "PRODUCT_DIR") (h2 : var ≠ upper p.name ++ Str.ofString "_DIR") :
    fromFile p ep ((fwd, .unset var) :: rest) = fromFile p ep rest := by
  rw [fromFile_cons]
  have : (Act.unset var).mapArgs legacySyn = .unset var := by
    simp only [Act.mapArgs, legacySyn_no_dollar var h36]
  rw [this, readFilter_other p.name var h1 h2]

/-- `envUnset(PRODUCT_DIR)` comes out as the unsetting of `<NAME>_DIR` -/
theorem fromFile_unset_product_dir (p : ProdInfo) (ep : Option Str) (fwd : Bool) (rest : List (Bool × Act))
    (hn36 : 36 ∉ p.name) :
    fromFile p ep ((fwd, .unset (Str.ofString "PRODUCT_DIR")) :: rest)
      = (fwd, .unset (upper p.name ++ Str.ofString "_DIR")) :: fromFile p ep rest := by
  have h36 : 36 ∉ Str.ofString "PRODUCT_DIR" := by decide
  have hv : 36 ∉ upper p.name ++ Str.ofString "_DIR" := by
    have := upper_no_dollar p.name hn36
    have h2 : 36 ∉ Str.ofString "_DIR" := by decide
    simp [this, h2]
  rw [fromFile_cons]
  have : (Act.unset (Str.ofString "PRODUCT_DIR")).mapArgs legacySyn = .unset (Str.ofString "PRODUCT_DIR") := by
    simp only [Act.mapArgs, legacySyn_no_dollar _ h36]
  rw [this, readFilter_product_dir]
  simp only [Act.expandAll, Act.mapArgs, expandArg_no_dollar p ep _ hv]

end EupsModel.PathAct

namespace EupsModel.PathAct
open EupsModel EupsModel.PathAlg

/-- a pattern that does not match at the one `$` of a text changes nothing -/
theorem replaceAll_one_dollar_nomatch (pat repl pre xs : Str) (hp : pat.head? = some 36) (hpre : 36 ∉ pre)
    (hnp : pat.isPrefixOf (36 :: xs) = false) (h : 36 ∉ xs) :
    replaceAll pat repl (pre ++ 36 :: xs) = pre ++ 36 :: xs := by
  cases pat with
  | nil => simp at hp
  | cons c ps =>
    simp at hp; subst hp
    have h1 := replaceAllGo_free 36 ps repl pre (36 :: xs) hpre
    have h2 := replaceAll_dollar_head_only (36 :: ps) repl xs rfl hnp h
    unfold replaceAll at h2 ⊢
    rw [h1, h2]

def lUPSPRODDIR : Str := Str.ofString "${UPS_PROD_DIR}"
theorem lUPSPRODDIR_eq : lUPSPRODDIR = 36 :: [123,85,80,83,95,80,82,79,68,95,68,73,82,125] := by decide

/-- `Table._rewrite`: the older `${UPS_PROD_DIR}` is `${PRODUCT_DIR}` -/
theorem legacySyn_ups_prod_dir (pre post : Str) (hpre : 36 ∉ pre) (hpost : 36 ∉ post) :
    legacySyn (pre ++ lUPSPRODDIR ++ post) = pre ++ mDIR ++ post := by
  have hl2 : (36 : Nat) ∉ ([123,85,80,83,95,80,82,79,68,95,68,73,82,125] : Str) ++ post := by
    simp only [List.mem_append, not_or]; exact ⟨by decide, hpost⟩
  have hdt : (36 : Nat) ∉ dirTail ++ post := by
    simp only [List.mem_append, not_or]; exact ⟨dirTail_no_dollar, hpost⟩
  -- the text before and after the one step that applies
  have t0 : pre ++ lUPSPRODDIR ++ post = pre ++ 36 :: ([123,85,80,83,95,80,82,79,68,95,68,73,82,125] ++ post) := by
    rw [lUPSPRODDIR_eq]; simp
  have t1 : pre ++ mDIR ++ post = pre ++ 36 :: (dirTail ++ post) := by
    rw [mDIR_cons]; simp
  have s1 : replaceAll (Str.ofString "${PROD_DIR}") mDIR (pre ++ lUPSPRODDIR ++ post) = pre ++ lUPSPRODDIR ++ post := by
    rw [t0]
    apply replaceAll_one_dollar_nomatch _ _ _ _ (by decide) hpre _ hl2
    have : Str.ofString "${PROD_DIR}" = [36,123,80,82,79,68,95,68,73,82,125] := by decide
    rw [this]; simp [List.isPrefixOf]
  have s2 : replaceAll (Str.ofString "${UPS_PROD_DIR}") mDIR (pre ++ lUPSPRODDIR ++ post) = pre ++ mDIR ++ post := by
    have e : Str.ofString "${UPS_PROD_DIR}" = 36 :: [123,85,80,83,95,80,82,79,68,95,68,73,82,125] := by decide
    have := replaceAll_free_then_prefix 36 [123,85,80,83,95,80,82,79,68,95,68,73,82,125] mDIR pre post hpre
    rw [e, lUPSPRODDIR_eq, this, replaceAll_no_head 36 _ mDIR post hpost]
  have nm : ∀ (pat repl : Str), pat.head? = some 36 → pat.isPrefixOf (36 :: (dirTail ++ post)) = false →
      replaceAll pat repl (pre ++ mDIR ++ post) = pre ++ mDIR ++ post := by
    intro pat repl hp hnp
    rw [t1]
    exact replaceAll_one_dollar_nomatch pat repl pre _ hp hpre hnp hdt
  have u : ∀ (pat : Str), pat[2]? = some 85 → pat.isPrefixOf (36 :: (dirTail ++ post)) = false := by
    intro pat e
    match pat, e with
    | a :: b :: c :: ps, e =>
      simp at e; subst e
      simp [dirTail, List.isPrefixOf]
  unfold legacySyn
  simp only []
  rw [s1, s2,
    nm _ _ (by decide) (u _ (by decide)),
    nm _ _ (by decide) (u _ (by decide)),
    nm _ _ (by decide) (u _ (by decide)),
    nm _ _ (by decide) (u _ (by decide)),
    nm _ _ (by decide) (u _ (by decide))]

end EupsModel.PathAct
