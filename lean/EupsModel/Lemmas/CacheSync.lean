import EupsModel.Model.CacheSync
/-! The invariant behind `C07_live_instances_safe`: with the repaired staleness test (`fixed = true`) and no deletion
of the cache file under the live instances,
* every live instance has the file of `persistDir` in its dictionary,
* a file that is not older than the database is complete; an older one every instance regards as unchanged since it
  looked (so nobody reloads it),
* an instance that the test calls "in sync" holds the whole database,
so a write-through either finds its stack complete or reloads a complete file, and what it saves is complete. -/
namespace EupsModel.CacheSync

structure Inv (s : St) : Prop where
  mod0 : ∃ t, s.i0.mod = some t ∧ t < s.now
  mod1 : ∃ t, s.i1.mod = some t ∧ t < s.now
  flt : ∀ f, s.file = some f → f.mtime < s.now
  fresh : ∀ f, s.file = some f → s.dbTime ≤ f.mtime → f.content = s.db
  stale : ∀ f, s.file = some f → f.mtime < s.dbTime →
    ∀ t0 t1, s.i0.mod = some t0 → s.i1.mod = some t1 → f.mtime ≤ t0 ∧ f.mtime ≤ t1
  sync0 : (inSync true s.i0.mod s.file).1 = true → s.i0.mem = s.db
  sync1 : (inSync true s.i1.mod s.file).1 = true → s.i1.mem = s.db
  clock : s.dbTime < s.now

theorem Inv.safe {s : St} (h : Inv s) : Safe s := fun f hf hfr => h.fresh f hf hfr

/-- what `ensureInSync` leaves: the entry is still there, and the stack is complete -/
theorem ensure_spec {s : St} (h : Inv s) (i : Bool) :
    ∃ t, (ensure true (s.inst i) s.file).mod = some t ∧ t < s.now ∧ (ensure true (s.inst i) s.file).mem = s.db ∧
      (inSync true (some t) s.file).1 = true ∧
      (∀ f, s.file = some f → f.mtime ≤ t) := by
  have key : ∀ x : Inst, (∃ t, x.mod = some t ∧ t < s.now) → ((inSync true x.mod s.file).1 = true → x.mem = s.db) →
      (∀ f, s.file = some f → ∀ t, x.mod = some t → f.mtime < s.dbTime → f.mtime ≤ t) →
      ∃ t, (ensure true x s.file).mod = some t ∧ t < s.now ∧ (ensure true x s.file).mem = s.db ∧
        (inSync true (some t) s.file).1 = true ∧ (∀ f, s.file = some f → f.mtime ≤ t) := by
    intro x ⟨t, hm, hlt⟩ hsync hst
    cases hf : s.file with
    | none =>
      refine ⟨0, ?_, by omega, ?_, by simp [inSync], by intro f h; cases h⟩
      · simp [ensure, inSync, hm]
      · have : (inSync true x.mod s.file).1 = true := by simp [inSync, hm, hf]
        simpa [ensure, inSync, hm, hf] using hsync this
    | some f =>
      by_cases hle : f.mtime ≤ t
      · refine ⟨t, ?_, hlt, ?_, by simp [inSync, hle], by intro f' h; cases h; exact hle⟩
        · simp [ensure, inSync, hm, hle]
        · have : (inSync true x.mod s.file).1 = true := by simp [inSync, hm, hf, hle]
          simpa [ensure, inSync, hm, hf, hle] using hsync this
      · -- out of sync: the file is newer than what the instance knows, hence not stale, hence complete
        have hfr : s.dbTime ≤ f.mtime :=
          Nat.le_of_not_lt fun hc => hle (hst f hf t hm hc)
        refine ⟨f.mtime, ?_, h.flt f hf, ?_, by simp [inSync], by intro f' h; cases h; exact Nat.le_refl _⟩
        · simp [ensure, inSync, hm, hle]
        · simpa [ensure, inSync, hm, hle] using h.fresh f hf hfr
  cases i with
  | false =>
    refine key s.i0 h.mod0 (by simpa [St.inst] using h.sync0) ?_
    intro f hf t ht hs
    obtain ⟨t1, h1, _⟩ := h.mod1
    exact (h.stale f hf hs t t1 (by simpa [St.inst] using ht) h1).1
  | true =>
    refine key s.i1 h.mod1 (by simpa [St.inst] using h.sync1) ?_
    intro f hf t ht hs
    obtain ⟨t0, h0, _⟩ := h.mod0
    exact (h.stale f hf hs t0 t h0 (by simpa [St.inst] using ht)).2

/-- under the invariant a write-through always ends in `persist` of the whole database -/
theorem step_write_eq {s : St} (h : Inv s) (i : Bool) :
    step true s (.write i) =
      { (s.setInst i ⟨some (s.now + 1), s.db ++ [s.db.length]⟩) with
        db := s.db ++ [s.db.length], dbTime := s.now, file := some ⟨s.now + 1, s.db ++ [s.db.length]⟩,
        now := s.now + 2 } := by
  obtain ⟨t, hmod, _, hmem, hsyn, _⟩ := ensure_spec h i
  cases i with
  | false =>
    simp only [St.inst, Bool.false_eq_true, if_false] at hmod hmem
    simp only [step, St.inst, St.setInst, Bool.false_eq_true, if_false, hmod, hmem, hsyn, if_true]
  | true =>
    simp only [St.inst, if_true] at hmod hmem
    simp only [step, St.inst, St.setInst, if_true, hmod, hmem, hsyn]

theorem Inv.step {s : St} (h : Inv s) (e : Ev) (he : e ≠ .delete) : Inv (step true s e) := by
  obtain ⟨t0, h0, l0⟩ := h.mod0
  obtain ⟨t1, h1, l1⟩ := h.mod1
  have hc := h.clock
  cases e with
  | delete => exact absurd rfl he
  | other =>
    have hmem : otherMem s = s.db := by
      unfold otherMem
      cases hf : s.file with
      | none => rfl
      | some f =>
        dsimp only
        split
        · rename_i hfr; exact h.fresh f hf hfr
        · rfl
    simp only [CacheSync.step]
    refine ⟨⟨t0, h0, by dsimp only; omega⟩, ⟨t1, h1, by dsimp only; omega⟩, ?_, ?_, ?_, ?_, ?_, by dsimp only; omega⟩
    · intro f hf; simp at hf; subst hf; simp
    · intro f hf _; simp at hf; subst hf; dsimp only; rw [hmem]
    · intro f hf hs; simp at hf; subst hf; dsimp only at hs; omega
    · intro hs; simp [inSync, h0] at hs; omega
    · intro hs; simp [inSync, h1] at hs; omega
  | write i =>
    rw [step_write_eq h i]
    cases i with
    | false =>
      simp only [St.setInst, Bool.false_eq_true, if_false]
      refine ⟨⟨s.now + 1, rfl, by dsimp only; omega⟩, ⟨t1, h1, by dsimp only; omega⟩, ?_, ?_, ?_, ?_, ?_, by simp⟩
      · intro f hf; simp at hf; subst hf; simp
      · intro f hf _; simp at hf; subst hf; rfl
      · intro f hf hs; simp at hf; subst hf; dsimp only at hs; omega
      · intro _; rfl
      · intro hs; simp [inSync, h1] at hs; omega
    | true =>
      simp only [St.setInst, if_true]
      refine ⟨⟨t0, h0, by dsimp only; omega⟩, ⟨s.now + 1, rfl, by dsimp only; omega⟩, ?_, ?_, ?_, ?_, ?_, by simp⟩
      · intro f hf; simp at hf; subst hf; simp
      · intro f hf _; simp at hf; subst hf; rfl
      · intro f hf hs; simp at hf; subst hf; dsimp only at hs; omega
      · intro hs; simp [inSync, h0] at hs; omega
      · intro _; rfl
  | check i =>
    obtain ⟨t, hmod, hlt, hmem, hsyn, hle⟩ := ensure_spec h i
    cases i with
    | false =>
      simp only [St.inst, Bool.false_eq_true, if_false] at hmod hmem
      simp only [CacheSync.step, St.inst, St.setInst, Bool.false_eq_true, if_false]
      refine ⟨⟨t, hmod, hlt⟩, ⟨t1, h1, l1⟩, h.flt, h.fresh, ?_, ?_, h.sync1, hc⟩
      · intro f hf hs a b ha hb
        simp only [hmod, Option.some.injEq] at ha
        subst ha
        obtain ⟨_, k⟩ := h.stale f hf hs t0 b h0 hb
        exact ⟨hle f hf, k⟩
      · intro _; exact hmem
    | true =>
      simp only [St.inst, if_true] at hmod hmem
      simp only [CacheSync.step, St.inst, St.setInst, if_true]
      refine ⟨⟨t0, h0, l0⟩, ⟨t, hmod, hlt⟩, h.flt, h.fresh, ?_, h.sync0, ?_, hc⟩
      · intro f hf hs a b ha hb
        simp only [hmod, Option.some.injEq] at hb
        subst hb
        obtain ⟨k, _⟩ := h.stale f hf hs a t1 ha h1
        exact ⟨k, hle f hf⟩
      · intro _; exact hmem

theorem Inv.run {s : St} (h : Inv s) (evs : List Ev) (hnd : ∀ e ∈ evs, e ≠ .delete) : Inv (run true s evs) := by
  induction evs generalizing s with
  | nil => exact h
  | cons e es ih =>
    simp only [CacheSync.run, List.foldl_cons]
    exact ih (h.step e (hnd e (by simp))) (fun e' he' => hnd e' (by simp [he']))

/-- a world as single-process histories leave it (`C07_cache_inv`): a cache file that is not older than the database is
complete; the clock is ahead of every time in it -/
structure Start (s : St) : Prop where
  safe : Safe s
  clock : s.dbTime < s.now
  flt : ∀ f, s.file = some f → f.mtime < s.now

/-- constructing the two instances (instance 0 first) establishes the invariant, whichever way each is filled -/
theorem load2_inv {s : St} (h : Start s) (sysOk : Bool) :
    Inv (load true sysOk (load true sysOk s false) true) := by
  have hc := h.clock
  cases hf : s.file with
  | none =>
    cases sysOk with
    | true =>
      have e : load true true (load true true s false) true =
          { s with i0 := ⟨some 0, s.db⟩, i1 := ⟨some 0, s.db⟩ } := by
        simp [load, fresh, hf, St.setInst]
      rw [e]
      refine ⟨⟨0, rfl, by dsimp only; omega⟩, ⟨0, rfl, by dsimp only; omega⟩, ?_, ?_, ?_, fun _ => rfl, fun _ => rfl, hc⟩
      · intro f h'; simp [hf] at h'
      · intro f h'; simp [hf] at h'
      · intro f h'; simp [hf] at h'
    | false =>
      have e : load true false (load true false s false) true =
          { s with i0 := ⟨some s.now, s.db⟩, i1 := ⟨some s.now, s.db⟩, file := some ⟨s.now, s.db⟩, now := s.now + 1 } := by
        have hle : s.dbTime ≤ s.now := by omega
        simp [load, fresh, hf, St.setInst, hle]
      rw [e]
      refine ⟨⟨s.now, rfl, by dsimp only; omega⟩, ⟨s.now, rfl, by dsimp only; omega⟩, ?_, ?_, ?_, fun _ => rfl, fun _ => rfl,
        by dsimp only; omega⟩
      · intro f h'; simp at h'; subst h'; dsimp only; omega
      · intro f h' _; simp at h'; subst h'; rfl
      · intro f h' hs; simp at h'; subst h'; dsimp only at hs; omega
  | some f =>
    have hfl := h.flt f hf
    by_cases hfr : s.dbTime ≤ f.mtime
    · have hcont := h.safe f hf hfr
      have e : load true sysOk (load true sysOk s false) true =
          { s with i0 := ⟨some f.mtime, f.content⟩, i1 := ⟨some f.mtime, f.content⟩ } := by
        simp [load, fresh, hf, St.setInst, hfr]
      rw [e]
      refine ⟨⟨f.mtime, rfl, hfl⟩, ⟨f.mtime, rfl, hfl⟩, ?_, ?_, ?_, fun _ => hcont, fun _ => hcont, hc⟩
      · intro f' h'; simp [hf] at h'; subst h'; exact hfl
      · intro f' h' _; simp [hf] at h'; subst h'; exact hcont
      · intro f' h' hs; simp [hf] at h'; subst h'; dsimp only at hs; omega
    · cases sysOk with
      | true =>
        have e : load true true (load true true s false) true =
            { s with i0 := ⟨some f.mtime, s.db⟩, i1 := ⟨some f.mtime, s.db⟩ } := by
          simp [load, fresh, hf, St.setInst, hfr]
        rw [e]
        refine ⟨⟨f.mtime, rfl, hfl⟩, ⟨f.mtime, rfl, hfl⟩, ?_, ?_, ?_, fun _ => rfl, fun _ => rfl, hc⟩
        · intro f' h'; simp [hf] at h'; subst h'; exact hfl
        · intro f' h' hfr'; simp [hf] at h'; subst h'; exact absurd hfr' hfr
        · intro f' h' _ a b ha hb
          simp [hf] at h'; subst h'
          simp at ha hb; subst ha; subst hb
          exact ⟨Nat.le_refl _, Nat.le_refl _⟩
      | false =>
        have e : load true false (load true false s false) true =
            { s with i0 := ⟨some s.now, s.db⟩, i1 := ⟨some s.now, s.db⟩, file := some ⟨s.now, s.db⟩, now := s.now + 1 } := by
          have hle : s.dbTime ≤ s.now := by omega
          simp [load, fresh, hf, St.setInst, hfr, hle]
        rw [e]
        refine ⟨⟨s.now, rfl, by dsimp only; omega⟩, ⟨s.now, rfl, by dsimp only; omega⟩, ?_, ?_, ?_, fun _ => rfl, fun _ => rfl,
          by dsimp only; omega⟩
        · intro f' h'; simp at h'; subst h'; dsimp only; omega
        · intro f' h' _; simp at h'; subst h'; rfl
        · intro f' h' hs; simp at h'; subst h'; dsimp only at hs; omega

/-- noting the time BEFORE reading keeps the invariant whatever lands in the window of `reload` -/
theorem loadGate_inv {s : St} (h : Start s) (sysOk readLate : Bool) (f : File) (hf : s.file = some f)
    (hfr : s.dbTime ≤ f.mtime) : Inv (loadGate true readLate (load true sysOk s false)) := by
  have hc := h.clock
  have hfl := h.flt f hf
  have e0 : load true sysOk s false = { s with i0 := ⟨some f.mtime, f.content⟩ } := by
    simp [load, fresh, hf, St.setInst, hfr]
  rw [e0]
  have hcont := h.safe f hf hfr
  simp only [loadGate, hf, step, otherMem, hfr, if_true, hcont]
  refine ⟨⟨f.mtime, rfl, by dsimp only; omega⟩, ⟨f.mtime, by simp, by dsimp only; omega⟩, ?_, ?_, ?_, ?_, ?_, by dsimp only; omega⟩
  · intro f' h'; simp at h'; subst h'; dsimp only; omega
  · intro f' h' _; simp at h'; subst h'; rfl
  · intro f' h' hs; simp at h'; subst h'; dsimp only at hs; omega
  · intro hs; simp [inSync] at hs; omega
  · intro hs; simp [inSync] at hs; omega

/-- a rebuilding constructor with another writer inside (repaired rule): the other writer's file stays, instance 0
knows it is behind, instance 1 reads the complete file -/
theorem rebuildGate_inv {s : St} (h : Start s) (hstale : ∀ f, s.file = some f → f.mtime < s.dbTime) :
    Inv (load true false (rebuildGate true s) true) := by
  have hc := h.clock
  have hmem : otherMem s = s.db := by
    unfold otherMem
    cases hf : s.file with
    | none => rfl
    | some f =>
      dsimp only
      have := hstale f hf
      split
      · omega
      · rfl
  have ht0 : (s.file.map (·.mtime)).getD 0 < s.now := by
    cases hf : s.file with
    | none => simp; omega
    | some f => simpa using h.flt f hf
  have e : load true false (rebuildGate true s) true =
      { s with db := s.db ++ [s.db.length], dbTime := s.now, file := some ⟨s.now + 1, s.db ++ [s.db.length]⟩,
               now := s.now + 2, i0 := ⟨some ((s.file.map (·.mtime)).getD 0), s.db⟩,
               i1 := ⟨some (s.now + 1), s.db ++ [s.db.length]⟩ } := by
    simp [rebuildGate, step, hmem, load, fresh, St.setInst]
  rw [e]
  refine ⟨⟨_, rfl, by dsimp only; omega⟩, ⟨s.now + 1, rfl, by dsimp only; omega⟩, ?_, ?_, ?_, ?_, fun _ => rfl,
    by dsimp only; omega⟩
  · intro f' h'; simp at h'; subst h'; dsimp only; omega
  · intro f' h' _; simp at h'; subst h'; rfl
  · intro f' h' hs; simp at h'; subst h'; dsimp only at hs; omega
  · intro hs; simp [inSync] at hs; omega

end EupsModel.CacheSync
